(* C04 -- review round: instances / witnesses for hypotheses that theorems of Properties_C04.v assume.
   (1) intcap_creator_ok (hypothesis of array_reset_intcap_strong): the creator that Array::Shrink really passes -- relocate the `count` items of
       the external block into the internal buffer -- satisfies it, for every category and every schedule. *)
From Coq Require Import List Arith Lia Bool.
From C04 Require Import Effects ObjMgr ArrayData RegFrame.
Import ListNotations.

Lemma intcap_creator_relocate_ok : forall c count ib h0,
  regs h0 rItems <> ib ->
  (forall j, j < count -> valid h0 (regs h0 rItems, j) = true /\ valid h0 (ib, j) = true /\
                          (exists v, mem h0 (regs h0 rItems, j) = Live v) /\ mem h0 (ib, j) = Raw) ->
  (forall i, count <= i -> mem h0 (regs h0 rItems, i) = Raw) ->
  intcap_creator_ok (creator_relocate c count) ib h0.
Proof.
  intros c count ib h0 Hne Hc Hraw s U. unfold creator_relocate. apply wp_bind, wp_getr.
  rewrite (un_regs _ _ U) by (unfold rItems; lia). set (b := regs h0 rItems) in *.
  assert (Hpre : range_pre (fun j => (b, j)) (fun j => (ib, j)) count (hp s)).
  { split.
    - intros j Hj. destruct (Hc j Hj) as (A & B & (v & C) & D). unfold valid in *. simpl in *.
      rewrite !(un_alive _ _ U), !(un_bsize _ _ U), !(un_mem _ _ U). eauto.
    - intros j k _ _ E. inversion E. contradiction.
    - intros j k _ _ Hjk E. inversion E. contradiction.
    - intros j k _ _ Hjk E. inversion E. contradiction. }
  eapply wp_mono.
  - apply wp_frame; [apply rf_relocate_range|]. apply relocate_range_spec. exact Hpre.
  - intros _ s' [[D1 D2 D3 D4 D5] _]. simpl. split; [|split].
    + destruct D4 as [_ Da Db Dn]. split; auto. intros l [L1 L2]. apply D3; auto.
      * intros j _ E. apply L1. rewrite <- E. reflexivity.
      * intros j _ E. apply L2. rewrite <- E. reflexivity.
    + exact D5.
    + intros i _. destruct (lt_dec i count) as [Hi|Hi]; [apply D2; exact Hi|].
      rewrite D3; [rewrite (un_mem _ _ U); apply Hraw; lia|tauto| |].
      * intros j Hj E. inversion E. lia.
      * intros j Hj E. inversion E. apply Hne. congruence.
  - intros s' [Hu Hr]. split; [exact Hu|]. apply Hr. unfold rInitCap, rIndex. lia.
Qed.

(* hence the strong guarantee of the internal-capacity reset for the REAL creator, without any abstract hypothesis *)
Lemma pv_reset_intcap_relocate_strong : forall c count ib junk s,
  regs (hp s) rItems <> ib -> alive (hp s) (regs (hp s) rItems) = true ->
  (forall j, j < count -> valid (hp s) (regs (hp s) rItems, j) = true /\ valid (hp s) (ib, j) = true /\
                          (exists v, mem (hp s) (regs (hp s) rItems, j) = Live v) /\ mem (hp s) (ib, j) = Raw) ->
  (forall i, count <= i -> mem (hp s) (regs (hp s) rItems, i) = Raw) ->
  wp (pv_reset_intcap ib count junk (creator_relocate c count)) s
     (fun _ s' => regs (hp s') rItems = ib /\ regs (hp s') rCount = count /\ alive (hp s') (regs (hp s) rItems) = false)
     (fun s' => unchanged (hp s) (hp s')).
Proof.
  intros c count ib junk s Hne Ha Hc Hr. apply pv_reset_intcap_spec; [|exact Ha]. apply intcap_creator_relocate_ok; assumption.
Qed.

(* (2) witnesses: the preconditions arr_basic (Shifter), leaf_pre (PlanWf), kvr_pre / kvrr_pre (Replace) are satisfied by a concrete heap --
   block 0: an array / leaf of capacity 4 holding 2 items, block 1: 4 raw cells, block 2: two live cells (an argument pair) *)
From C04 Require Import Shifter Replace PlanWf HashGrow.

Definition wit_heap : heap :=
  mkH (fun l => if (fst l =? 0) && (snd l <? 2) then Live (10 + snd l) else if (fst l =? 2) && (snd l <? 2) then Live (7 + snd l) else Raw)
      (fun b => b <? 3) (fun b => if b =? 2 then 2 else 4) 3
      (fun r => if r =? rCap then 4 else if r =? rCount then 2 else 0).

Ltac cells := let i := fresh "i" in intros i; intros; do 5 (try destruct i as [|i]); simpl in *; try lia; try discriminate; try reflexivity; eauto.

Lemma arr_basic_witness : arr_basic (2, 0) wit_heap.
Proof. split; try reflexivity; try (simpl; lia); try cells. repeat split; simpl; try reflexivity; try discriminate; lia. Qed.

Lemma leaf_pre_witness : leaf_pre 0 2 (2, 0) 7 wit_heap.
Proof.
  unfold leaf_pre. repeat split; try reflexivity; try (simpl; lia); try cells.
Qed.

Lemma kvr_pre_witness : kvr_pre (0, 0) (0, 1) (2, 0) (2, 1) 10 11 wit_heap.
Proof. split; repeat split; try reflexivity; try discriminate. Qed.

Lemma kvrr_pre_witness : kvrr_pre (0, 0) (0, 1) (2, 0) (2, 1) (1, 0) (1, 1) 10 11 7 8 wit_heap.
Proof.
  split; repeat split; try reflexivity.
  repeat constructor; simpl; intuition discriminate.
Qed.

(* step_ok: see MigrateStep.v (a real relocation-step instance) *)
