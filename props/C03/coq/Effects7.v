(* C03 -- L2 resource machine, part 7: the bookkeeping of TreeSet::Relocator during ONE insertion (TreeSet.h, class Relocator,
   pvAddGrow / pvAddSplit).

   The relocator owns four small arrays (mOldNodes, mNewNodes : NestedArrayIntCap<4, Node*>; mSrcSegments, mDstSegments :
   NestedArrayIntCap<4, Segment>): 4 entries live inside the object, a 5th entry makes the array take a heap block from the
   memory manager (which can fail) and later growth replaces that block.  Nodes created for the insertion are known ONLY through
   mNewNodes; ~Relocator destroys exactly the nodes recorded there; after a successful RelocateCreate the two node arrays are
   swapped, so the destructor destroys the OLD nodes instead.

   CreateNode is   mNewNodes.Reserve(count + 1); node = Node::Create(...); mNewNodes.AddBackNogrow(node);
   i.e. the slot is guaranteed BEFORE the node is taken from its pool (steps MReserve; MNode).  The seeded variant
   `node = Node::Create(...); mNewNodes.AddBack(node)` is step MNodeBad.

   Abstractions: a node is one block of the memory manager (node pools with one block per buffer and no cache - with bigger buffers
   the node is lost inside the pool instead, which the memory manager cannot see); the items inside the nodes are not modelled here
   (their relocation is ObjectManager::RelocateCreate, part 1) - the relocation is one fallible step; the destructor returns the
   recorded blocks in recorded order. *)
From Coq Require Import ZArith Bool List Lia.
From C03 Require Import Effects.
Import ListNotations.
Local Open Scope Z_scope.

Inductive atag := AOld | ANew | ASrc | ADst.
Definition atag_eqb (a b : atag) : bool :=
  match a, b with AOld, AOld | ANew, ANew | ASrc, ASrc | ADst, ADst => true | _, _ => false end.

Record reloc := mkRl {
  r_cnt : atag -> nat;                  (* entries of each array *)
  r_cap : atag -> nat;                  (* its capacity (4 = internal) *)
  r_arrs : list (atag * (Z * Z));       (* heap blocks of the arrays: (array, (block, size)) *)
  r_nodes : list (Z * Z);               (* nodes recorded in mNewNodes: (block, size) *)
  r_olds : list (Z * Z) }.              (* nodes recorded in mOldNodes *)

Definition reloc0 : reloc := mkRl (fun _ => 0%nat) (fun _ => 4%nat) [] [] [].

Definition upd {A} (f : atag -> A) (t : atag) (v : A) : atag -> A := fun x => if atag_eqb x t then v else f x.

Fixpoint find_arr (t : atag) (l : list (atag * (Z * Z))) : option (Z * Z) :=
  match l with
  | [] => None
  | (t', p) :: r => if atag_eqb t' t then Some p else find_arr t r
  end.
Definition remove_id (b : Z) (l : list (atag * (Z * Z))) : list (atag * (Z * Z)) :=
  filter (fun e => negb (Z.eqb (fst (snd e)) b)) l.

Fixpoint free_pairs (mgr : Z) (l : list (Z * Z)) : M unit :=
  match l with
  | [] => ret tt
  | (b, sz) :: r => p_dealloc mgr b sz ;;; free_pairs mgr r
  end.

Section Relocator.
Variable mgr : Z.
Variable esz : atag -> Z.               (* element size of each array: sizeof(Node* ) / sizeof(Segment) *)
Variable grow : nat -> nat.             (* capacity growth policy of the arrays *)

(* Array::Reserve(n): nothing to do within the capacity; otherwise a NEW block is requested first (may throw: nothing has changed),
   the entries are relocated (pointers / PODs: no events) and the old heap block, if there is one, is returned *)
Definition arr_reserve (t : atag) (n : nat) (r : reloc) : M reloc :=
  if Nat.leb n (r_cap r t) then ret r else
  let c := Nat.max (grow (r_cap r t)) n in
  b <- p_alloc mgr (esz t * Z.of_nat c) ;;
  match find_arr t (r_arrs r) with
  | Some (b0, sz0) =>
      p_dealloc mgr b0 sz0 ;;;
      ret (mkRl (r_cnt r) (upd (r_cap r) t c) ((t, (b, esz t * Z.of_nat c)) :: remove_id b0 (r_arrs r)) (r_nodes r) (r_olds r))
  | None =>
      ret (mkRl (r_cnt r) (upd (r_cap r) t c) ((t, (b, esz t * Z.of_nat c)) :: r_arrs r) (r_nodes r) (r_olds r))
  end.

Definition inc_cnt (t : atag) (r : reloc) : reloc :=
  mkRl (upd (r_cnt r) t (S (r_cnt r t))) (r_cap r) (r_arrs r) (r_nodes r) (r_olds r).

Inductive mstep :=
| MOld (b sz : Z)        (* mOldNodes.AddBack(node): an existing node of the tree *)
| MAdd (t : atag)        (* AddBack on a segment array *)
| MReserve               (* mNewNodes.Reserve(count + 1) *)
| MNode (sz : Z)         (* Node::Create + AddBackNogrow *)
| MNodeBad (sz : Z).     (* seeded: Node::Create, THEN mNewNodes.AddBack *)

(* every step is atomic for the relocator's records: if it throws, the relocator is as before the step *)
Definition mstep_run (r : reloc) (st : mstep) : M reloc :=
  match st with
  | MOld b sz => r1 <- arr_reserve AOld (S (r_cnt r AOld)) r ;;
                 ret (let r2 := inc_cnt AOld r1 in mkRl (r_cnt r2) (r_cap r2) (r_arrs r2) (r_nodes r2) ((b, sz) :: r_olds r2))
  | MAdd t => r1 <- arr_reserve t (S (r_cnt r t)) r ;; ret (inc_cnt t r1)
  | MReserve => arr_reserve ANew (S (r_cnt r ANew)) r
  | MNode sz => b <- p_alloc mgr sz ;;
                ret (let r2 := inc_cnt ANew r in mkRl (r_cnt r2) (r_cap r2) (r_arrs r2) ((b, sz) :: r_nodes r2) (r_olds r2))
  | MNodeBad sz => b <- p_alloc mgr sz ;;
                   r1 <- arr_reserve ANew (S (r_cnt r ANew)) r ;;
                   ret (let r2 := inc_cnt ANew r1 in mkRl (r_cnt r2) (r_cap r2) (r_arrs r2) ((b, sz) :: r_nodes r2) (r_olds r2))
  end.

Definition apairs (r : reloc) : list (Z * Z) := map snd (r_arrs r).

(* ~Relocator when the insertion failed: the recorded NEW nodes are destroyed, then the member arrays die *)
Definition fail_dtor (r : reloc) : M unit := free_pairs mgr (r_nodes r) ;;; free_pairs mgr (apairs r).
(* ~Relocator after mNewNodes.Swap(mOldNodes): the OLD nodes are destroyed; the new ones belong to the tree *)
Definition done_dtor (r : reloc) : M unit := free_pairs mgr (r_olds r) ;;; free_pairs mgr (apairs r).

Fixpoint reloc_run (r : reloc) (steps : list mstep) (k : reloc -> M unit) : M unit :=
  match steps with
  | [] => k r
  | st :: rest => r' <- catch_rethrow (mstep_run r st) (fail_dtor r) ;; reloc_run r' rest k
  end.

(* script level: what pvAddGrow / pvAddSplit ask of the relocator *)
Inductive rop :=
| ROld (b sz : Z)        (* GrowLeafNode / pvSplitNode: mOldNodes.AddBack(node) *)
| RCreate (sz : Z)       (* CreateNode *)
| RSeg.                  (* AddSegment with itemCount > 0, and the final { nullptr, 0, 0 } pair of RelocateCreate *)

Definition expand (good : bool) (op : rop) : list mstep :=
  match op with
  | ROld b sz => [MOld b sz]
  | RCreate sz => if good then [MReserve; MNode sz] else [MNodeBad sz]
  | RSeg => [MAdd ASrc; MAdd ADst]
  end.

(* one insertion that goes through the relocator: the script, then ItemTraits::RelocateCreate (fallible; nothing else changes
   hands), then the swap and the destructor *)
Definition insertion (good : bool) (ops : list rop) : M unit :=
  reloc_run reloc0 (flat_map (expand good) ops)
    (fun r => catch_rethrow fallible (fail_dtor r) ;;; done_dtor r).

End Relocator.

(* the insertion that takes a TreeNode<4, 1> tree from height 2 to 3 (ascending keys): leaf split, root split, new root = 5 nodes.
   Blocks 0 (full leaf, 48 bytes) and 1 (internal root, 96 bytes) are the two old nodes; sizes as in the tie instance (kit elements of one
   pointer, kit::MM): new leaves of capacity 2 = 32 bytes, internal nodes 96 bytes, Node* arrays 8 bytes and Segment arrays 24 bytes per
   entry, capacity 4 -> 8.  The script is pvAddSplit for newItemIndex = itemCount = 4 at both levels: split index 2, segments of
   2 + 1 items (the empty third one is skipped), the separator, the new root's segment and the final { nullptr, 0, 0 } pair. *)
Definition h23_script : list rop :=
  [ROld 0 48; RCreate 32; RCreate 32; RSeg; RSeg; ROld 1 96; RCreate 96; RCreate 96; RSeg; RSeg; RSeg; RCreate 96; RSeg; RSeg].
Definition h23_state (sch : list bool) : rstate :=
  mkR (fun _ => Raw) [(1, (1, 96)); (0, (1, 48))] sch 2 [].
Definition grow_dbl (c : nat) : nat := (2 * c)%nat.
Definition esz_std (t : atag) : Z := match t with AOld | ANew => 8 | _ => 24 end.
