// instantiation TU for cxx2coq (C01C): AddCrt / Remove of the chained bucket kind BucketLimP1 (items in a memory-pool block behind a pointer)
#define MOMO_INCLUDE_OLD_HASH_BUCKETS
#include "momo/HashSet.h"
#include "momo/details/HashBucketLimP1.h"
namespace momo { namespace internal {
typedef HashSetBucketItemTraits<HashSetItemTraits<uint64_t, MemManagerDefault>> C01CIT;
typedef BucketLimP1<C01CIT, 4, MemPoolParams<>> C01CP1;
template class BucketLimP1<C01CIT, 4, MemPoolParams<>>;
struct C01CCreator { void operator()(uint64_t*) const {} };
struct C01CReplacer { void operator()(uint64_t&, uint64_t&) const {} };
// one use of every member template so that clang instantiates the bodies
inline void c01c_use(C01CP1& a, C01CP1::Params& pa)
{
	C01CCreator cr; C01CReplacer rp;
	auto ia = a.AddCrt(pa, cr, 0, 0, 0); a.Remove(pa, ia, rp);
}
}}
