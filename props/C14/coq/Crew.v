(* C14 round 4 -- the crew holds (container traits, memory manager, version).  Both representations of
   internal::SetCrew (SetUtility.h):
     pointer crew  SetCrew<Traits, MemManager, keepVersion, true>  : mData -> Data{version, containerTraits, memManager};
                   selected when the manager is not empty, or versions are kept, or the traits are not nothrow movable
     inline crew   SetCrew<Traits, MemManager, keepVersion, false> : private bases ContainerTraits and MemManager;
                   selected for an EMPTY manager type, no versions (Settings::checkVersion = false / release builds)
   and the set-level operations built on them (HashSet / TreeSet: move constructor, Swap, X(x).Swap( *this) assignments).
   The traits matter: a hash table is laid out by ITS hash functor, a tree is ordered by ITS comparator; a container whose
   body was built with other traits than the ones its crew holds cannot find its own keys. *)
From Coq Require Import ZArith Bool List Lia.
From C14 Require Import PropagationModel Model.
Import ListNotations.
Local Open Scope Z_scope.

Definition traits_id := Z.       (* state of the hash functor (seed) / comparator (direction) *)

Record crewdata := mkCD { cd_traits : traits_id; cd_mgr : mgr; cd_version : nat }.
Inductive pcrew := PNull | PData (blk : block) (d : crewdata).
(* inline crew: the manager type is empty (a single value), there is no version *)
Record icrew := mkIC { ic_traits : traits_id }.

(* pointer crew: Swap = std::swap(mData, crew.mData); move constructor = mData(nullptr) + Swap *)
Definition pcrew_swap (a b : pcrew) : pcrew * pcrew := (b, a).
Definition pcrew_move_ctor (src : pcrew) : pcrew * pcrew := (src, PNull).
(* inline crew: Swap = std::swap(pvGetContainerTraits(), crew.pvGetContainerTraits()) -- the managers are an empty type,
   nothing to exchange; move constructor = ContainerTraits(std::move(traits)), MemManager(std::move(manager)): the
   source keeps a (moved-from, for plain functors: equal) traits object *)
Definition icrew_swap (a b : icrew) : icrew * icrew := (b, a).
Definition icrew_move_ctor (src : icrew) : icrew * icrew := (mkIC (ic_traits src), src).
(* the seeded shape: `if (std::is_empty<MemManager>::value) return;` in front of the swap -- in the inline
   specialisation the manager is always empty, so nothing is ever exchanged *)
Definition icrew_swap_seeded (manager_is_empty : bool) (a b : icrew) : icrew * icrew :=
  if manager_is_empty then (a, b) else (b, a).

Definition pcrew_traits (c : pcrew) : option traits_id := match c with PData _ d => Some (cd_traits d) | PNull => None end.

(* ---------------------------------------------------------------- a set with an inline crew *)
(* `built` = the traits the body (bucket layout / key order) was built with *)
Record iset := mkIS { is_crew : icrew; is_built : traits_id; is_shape : list nat; is_items : list Z }.
Definition coherent (s : iset) : bool := Z.eqb (ic_traits (is_crew s)) (is_built s) || match is_items s with [] => true | _ => false end.

Definition iset_new (t : traits_id) : iset := mkIS (mkIC t) t [] [].
(* X(X&&): crew moved, count / buckets / root stolen, the source is left empty (and keeps its traits) *)
Definition iset_move_ctor (src : iset) : iset * iset :=
  let (c, sc) := icrew_move_ctor (is_crew src) in
  (mkIS c (is_built src) (is_shape src) (is_items src), mkIS sc (ic_traits sc) [] []).
(* Swap: crews (= traits) and bodies exchanged *)
Definition iset_swap_with (cswap : icrew -> icrew -> icrew * icrew) (a b : iset) : iset * iset :=
  let (ca, cb) := cswap (is_crew a) (is_crew b) in
  (mkIS ca (is_built b) (is_shape b) (is_items b), mkIS cb (is_built a) (is_shape a) (is_items a)).
Definition iset_swap := iset_swap_with icrew_swap.
(* X(const X&): X(x.GetHashTraits(), manager) + rebuild: the copy takes the source's traits and is built with them *)
Definition iset_copy_ctor (rebuild : list nat -> list nat) (src : iset) : iset :=
  mkIS (mkIC (ic_traits (is_crew src))) (ic_traits (is_crew src)) (rebuild (is_shape src)) (is_items src).
(* operator=(X&&) = X(std::move(x)).Swap( *this); operator=(const X&) = X(x).Swap( *this) *)
Definition iset_move_assign_with cswap (dst src : iset) : iset * iset :=
  let (tmp, src1) := iset_move_ctor src in
  let (tmp2, dst1) := iset_swap_with cswap tmp dst in (dst1, src1).
Definition iset_copy_assign_with cswap rebuild (dst src : iset) : iset :=
  let tmp := iset_copy_ctor rebuild src in
  let (tmp2, dst1) := iset_swap_with cswap tmp dst in dst1.
Definition iset_move_assign := iset_move_assign_with icrew_swap.
Definition iset_copy_assign := iset_copy_assign_with icrew_swap.
(* lookup uses the crew's traits on a body laid out by `built` *)
Definition iset_find (s : iset) (v : Z) : bool := coherent s && existsb (Z.eqb v) (is_items s).
Definition iset_insert (s : iset) (v : Z) : iset :=
  if existsb (Z.eqb v) (is_items s) then s
  else mkIS (is_crew s) (match is_items s with [] => ic_traits (is_crew s) | _ => is_built s end) (is_shape s) (is_items s ++ [v]).

(* ---------------------------------------------------------------- theorems *)
(* Swap exchanges the traits, for both crew representations (and manager + version with them for the pointer crew) *)
Theorem swap_exchanges_traits :
  (forall a b, pcrew_swap a b = (b, a)) /\
  (forall ba da bb db, let (a', b') := pcrew_swap (PData ba da) (PData bb db) in
     pcrew_traits a' = Some (cd_traits db) /\ pcrew_traits b' = Some (cd_traits da) /\
     a' = PData bb db /\ b' = PData ba da) /\
  (forall a b, let (a', b') := icrew_swap a b in ic_traits a' = ic_traits b /\ ic_traits b' = ic_traits a).
Proof. repeat split. Qed.

(* coherence (body built with the traits the crew holds) is preserved by move construction, swap, both assignments and
   copy construction *)
Theorem inline_ops_keep_coherence :
  forall rebuild a b, coherent a = true -> coherent b = true ->
    coherent (fst (iset_move_ctor a)) = true /\ coherent (snd (iset_move_ctor a)) = true /\
    coherent (fst (iset_swap a b)) = true /\ coherent (snd (iset_swap a b)) = true /\
    coherent (fst (iset_move_assign a b)) = true /\ coherent (snd (iset_move_assign a b)) = true /\
    coherent (iset_copy_assign rebuild a b) = true /\ coherent (iset_copy_ctor rebuild a) = true.
Proof.
  intros rebuild [[ta] ba sa ia] [[tb] bb sb ib] Ha Hb. unfold coherent in *. simpl in *.
  repeat split; auto; try (rewrite Z.eqb_refl; reflexivity).
Qed.

(* after an assignment or a swap the target holds the SOURCE's traits and items, and finds every one of its keys *)
Theorem inline_assign_takes_source_traits :
  forall rebuild dst src, coherent src = true ->
    ic_traits (is_crew (fst (iset_move_assign dst src))) = ic_traits (is_crew src) /\
    is_items (fst (iset_move_assign dst src)) = is_items src /\
    ic_traits (is_crew (iset_copy_assign rebuild dst src)) = ic_traits (is_crew src) /\
    is_items (iset_copy_assign rebuild dst src) = is_items src /\
    ic_traits (is_crew (fst (iset_swap dst src))) = ic_traits (is_crew src) /\
    (forall v, In v (is_items src) -> iset_find (fst (iset_move_assign dst src)) v = true /\
                                      iset_find (iset_copy_assign rebuild dst src) v = true /\
                                      iset_find (fst (iset_swap dst src)) v = true).
Proof.
  intros rebuild [[td] bd sd id_] [[ts] bs ss is_] Hs. unfold coherent in Hs. simpl in *.
  repeat split; auto; unfold iset_find, coherent; simpl;
    try (rewrite Hs; simpl; apply existsb_exists; exists v; split; [assumption|apply Z.eqb_refl]).
  rewrite Z.eqb_refl. simpl. apply existsb_exists. exists v. split; [assumption|apply Z.eqb_refl].
Qed.

(* the seeded shape: with the early return the traits are never exchanged; a non-empty source whose traits differ from
   the target's leaves the target incoherent -- it holds the source's body under its own old traits and cannot find the
   keys; swap, move assignment and copy assignment all go through it *)
Theorem inline_swap_seeded_refuted :
  forall dst src v, ic_traits (is_crew dst) <> ic_traits (is_crew src) -> coherent src = true -> In v (is_items src) ->
    let sw := icrew_swap_seeded true in
    ic_traits (is_crew (fst (iset_swap_with sw dst src))) = ic_traits (is_crew dst) /\
    coherent (fst (iset_swap_with sw dst src)) = false /\
    coherent (fst (iset_move_assign_with sw dst src)) = false /\
    iset_find (fst (iset_move_assign_with sw dst src)) v = false.
Proof.
  intros [[td] bd sd id_] [[ts] bs ss is_] v Hne Hs Hin. unfold coherent in Hs. simpl in *.
  destruct is_ as [|i0 r]; [contradiction|]. rewrite orb_false_r in Hs. apply Z.eqb_eq in Hs. subst bs.
  assert (E : Z.eqb td ts = false) by (destruct (Z.eqb_spec td ts); [congruence|reflexivity]).
  unfold iset_find, coherent. simpl. rewrite E. repeat split; reflexivity.
Qed.

Example inline_swap_seeded_witness :
  let a := mkIS (mkIC 1) 1 [3%nat] [10; 20; 30] in
  let b := mkIS (mkIC 2) 2 [2%nat] [40; 50] in
  iset_find (fst (iset_move_assign b a)) 20 = true /\ ic_traits (is_crew (fst (iset_move_assign b a))) = 1 /\
  iset_find (fst (iset_move_assign_with (icrew_swap_seeded true) b a)) 20 = false /\
  ic_traits (is_crew (fst (iset_move_assign_with (icrew_swap_seeded true) b a))) = 2 /\
  (* the non-empty-manager branch of the seeded shape behaves (never taken in the inline specialisation) *)
  icrew_swap_seeded false (mkIC 1) (mkIC 2) = (mkIC 2, mkIC 1).
Proof. vm_compute. repeat split. Qed.
