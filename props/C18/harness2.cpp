// C18 implementation side, TU 2:
//   F <L> <keep> <ops as in harness.cpp>    the dynamic DataColumnList over a memory manager whose k-th allocation fails:
//        every Add is repeated with k = 0, 1, 2, ... until no allocation fails; after each bad_alloc every observable
//        (codeParam, sizes, records, lookups, Contains, addends, IsMutable, code set size) must be as before
//        (output = the usual line + " ; af ok|FAIL ..."; the number of failures goes to stderr)
//   D <L> <keep> <ops>                      the dynamic list over struct S1 (member-offset codes, DataColumnCodeOffset)
//   S <sid> <keep> <op> ; ...                DataColumnListStatic over a real struct with MOMO_DATA_COLUMN_STRUCT columns
//        op: m <member index>...  SetMutable(columns)      r  ResetMutable()
//        output: sizeof alignof total align | offsetof.. | GetOffset.. | Contains.. ; per op: IsMutable offsets ; raw ok ; visit offs
#include "c18_runner.h"

struct S1 { uint8_t a; uint64_t b; std::string s; uint16_t c; Cnt<16, 16> k; uint32_t d; };
struct S2 { uint32_t x; uint8_t y; long double z; B3 w; uint16_t v; };
namespace c1 { MOMO_DATA_COLUMN_STRUCT(S1, a); MOMO_DATA_COLUMN_STRUCT(S1, b); MOMO_DATA_COLUMN_STRUCT(S1, s);
	MOMO_DATA_COLUMN_STRUCT(S1, c); MOMO_DATA_COLUMN_STRUCT(S1, k); MOMO_DATA_COLUMN_STRUCT(S1, d); }
namespace c2 { MOMO_DATA_COLUMN_STRUCT(S2, x); MOMO_DATA_COLUMN_STRUCT(S2, y); MOMO_DATA_COLUMN_STRUCT(S2, z);
	MOMO_DATA_COLUMN_STRUCT(S2, w); MOMO_DATA_COLUMN_STRUCT(S2, v); }

template<typename S, bool keep, typename... Cols>
static std::string runStatic(const std::vector<std::vector<size_t>>& ops, const std::vector<size_t>& realOffsets, const Cols&... cols)
{
	typedef DataColumnListStatic<S, DataColumnInfo<S>, MemManagerDefault, DataSettings<keep>> SL;
	typedef typename SL::ColumnInfo ColumnInfo;
	SL sl; std::string out; char buf[64]; std::string err;
	snprintf(buf, sizeof buf, "%zu %zu %zu %zu |", sizeof(S), alignof(S), sl.GetTotalSize(), sl.GetAlignment()); out += buf;
	for (size_t o : realOffsets) { snprintf(buf, sizeof buf, " %zu", o); out += buf; }
	out += " |";
	size_t offs[] = { sl.GetOffset(cols)... };
	for (size_t o : offs) { snprintf(buf, sizeof buf, " %zu", o); out += buf; }
	out += " |";
	bool conts[] = { [&] (const ColumnInfo& ci) { size_t o = size_t(-1); bool c = sl.Contains(ci, &o); snprintf(buf, sizeof buf, " %zu", o); out += c ? buf : " -"; return c; } (ColumnInfo(cols))... };
	(void)conts;
	auto setMut = [&] (size_t idx) { size_t i = 0; (void)std::initializer_list<int>{ ((i++ == idx) ? (sl.SetMutable(cols), 0) : 0)... }; };
	for (auto& op : ops)
	{
		if (op.empty()) sl.ResetMutable(); else for (size_t idx : op) setMut(idx);
		out += " ;";
		for (size_t o = 0; o < sizeof(S); ++o) if (sl.IsMutable(o)) { snprintf(buf, sizeof buf, " %zu", o); out += buf; }
	}
	// rows: create, visit, import, destroy
	{
		MemManagerDefault mm; R().reset();
		size_t total = sl.GetTotalSize();
		void* p1 = std::aligned_alloc(64, (total / 64 + 1) * 64); void* p2 = std::aligned_alloc(64, (total / 64 + 1) * 64);
		S* r1 = static_cast<S*>(p1); S* r2 = static_cast<S*>(p2);
		sl.CreateRaw(mm, r1);
		size_t liveOne = R().live.size();
		if constexpr (keep) sl.SetNumber(r1, 0x1122334455667788ull);
		std::memset(static_cast<char*>(p1), 0, 0);
		sl.PrepareForVisitors(cols...);
		std::vector<size_t> seen;
		sl.VisitPointers(r1, [&] (void* p, const ColumnInfo& ci) { seen.push_back(size_t(static_cast<char*>(p) - static_cast<char*>(p1))); if (size_t(ci.GetCode()) != seen.back()) err = "visitor: code != pointer offset"; });
		sl.ImportRaw(mm, sl, r1, r2);
		if (R().live.size() != 2 * liveOne) err = "ImportRaw: wrong number of instrumented items";
		if constexpr (keep) { if (sl.GetNumber(r1) != 0x1122334455667788ull) err = "row number lost"; }
		sl.DestroyRaw(&mm, r2); sl.DestroyRaw(&mm, r1);
		if (!R().live.empty()) err = "DestroyRaw: items alive";
		for (auto& e : R().errors) err = e;
		std::free(p1); std::free(p2);
		out += " ; raw " + (err.empty() ? std::string("ok") : "FAIL " + err) + " ; visit";
		for (size_t o : seen) { snprintf(buf, sizeof buf, " %zu", o); out += buf; }
		R().reset();
	}
	return out;
}

int main()
{
	std::string line;
	while (std::getline(std::cin, line))
	{
		std::istringstream is(line);
		std::string first; is >> first;
		std::string out;
		if (first == "F")
		{
			ull L, keep; is >> L >> keep;
			std::vector<std::vector<ColSpec>> ops; std::vector<ColSpec> extras; std::vector<ull> universe;
			bool ok = parseOps(is, ops, extras, universe);
			try
			{
				if (!ok) out = "?";
				else if (L == 4 && keep == 1) out = runCase<4, true, FailMM, true>(ops, extras, universe);
				else if (L == 8 && keep == 0) out = runCase<8, false, FailMM, true>(ops, extras, universe);
				else out = "?config";
			}
			catch (const HarnessError& e) { out = std::string("HARNESS ") + e.what; }
		}
		else if (first == "D")
		{	// the DYNAMIC list over a struct with members: column codes are member offsets (DataColumnCodeOffset)
			ull L, keep; is >> L >> keep;
			std::vector<std::vector<ColSpec>> ops; std::vector<ColSpec> extras; std::vector<ull> universe;
			bool ok = parseOps(is, ops, extras, universe);
			// the codes of the case must be the codes of the real MOMO_DATA_COLUMN_STRUCT columns
			const ull real[] = { ull(c1::a.GetCode()), ull(c1::b.GetCode()), ull(c1::s.GetCode()), ull(c1::c.GetCode()), ull(c1::k.GetCode()), ull(c1::d.GetCode()) };
			const size_t types[] = { 0, 3, 9, 1, 12, 2 };
			for (auto& g : ops) for (auto& c : g)
			{
				bool found = false;
				for (size_t i = 0; i < 6; ++i) if (real[i] == c.code && types[i] == c.t) found = true;
				if (!found) ok = false;
			}
			try
			{
				if (!ok) out = "?not a column of S1";
				else if (L == 4 && keep == 0) out = runCase<4, false, MemManagerDefault, false, S1>(ops, extras, universe);
				else if (L == 8 && keep == 1) out = runCase<8, true, MemManagerDefault, false, S1>(ops, extras, universe);
				else out = "?config";
			}
			catch (const HarnessError& e) { out = std::string("HARNESS ") + e.what; }
		}
		else if (first == "S")
		{
			ull sid, keep; is >> sid >> keep;
			std::vector<std::vector<size_t>> ops; std::string tok;
			while (is >> tok)
			{
				if (tok == ";") continue;
				if (tok == "r") ops.push_back({});
				else if (tok == "m") { std::vector<size_t> v; size_t i; std::streampos pos; while (pos = is.tellg(), is >> i) v.push_back(i); is.clear(); is.seekg(pos); ops.push_back(v); }
			}
			if (sid == 1)
			{
				std::vector<size_t> ro = { offsetof(S1, a), offsetof(S1, b), offsetof(S1, s), offsetof(S1, c), offsetof(S1, k), offsetof(S1, d) };
				out = keep ? runStatic<S1, true>(ops, ro, c1::a, c1::b, c1::s, c1::c, c1::k, c1::d) : runStatic<S1, false>(ops, ro, c1::a, c1::b, c1::s, c1::c, c1::k, c1::d);
			}
			else if (sid == 2)
			{
				std::vector<size_t> ro = { offsetof(S2, x), offsetof(S2, y), offsetof(S2, z), offsetof(S2, w), offsetof(S2, v) };
				out = keep ? runStatic<S2, true>(ops, ro, c2::x, c2::y, c2::z, c2::w, c2::v) : runStatic<S2, false>(ops, ro, c2::x, c2::y, c2::z, c2::w, c2::v);
			}
			else out = "?sid";
		}
		else out = "?";
		puts(out.c_str()); fflush(stdout);   // (a later case may hang or die)
	}
	return 0;
}
