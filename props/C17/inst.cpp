// instantiation TU for cxx2coq (C17): arithmetic leaves of HashSorter (non-template static members)
#include "momo/HashSorter.h"
