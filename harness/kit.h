// kit.h – shared instrumentation for harness TUs (C03, C04, C10, C11, C14, C15, C20, ...).
// Include AFTER private_access.h (or any std headers) and BEFORE/AFTER momo headers as you like: it only
// needs the standard library.  Everything is single-threaded except where noted.
//
//   kit::W()                    the global world: counters, registries, failure injection, protocol errors
//   kit::MM / kit::MMR          stateful memory managers for momo (identity, size-checked Deallocate, k-th
//                               allocation failure; MMR additionally offers Reallocate)
//   kit::StdAlloc<T,POCCA,POCMA,POCS>   stateful std allocator with propagation traits over the same registry
//   kit::Elem<Cat>              instrumented element types (TRIV, NTM, CPY, THM, SMH)
//   kit::Hash<Dist>, kit::Eq, kit::Less   functors with selectable distribution and throw-at-k
//
// Failure injection: set W().fail_alloc / fail_copy / fail_func to k >= 0: the k-th (0-based) next step of
// that kind throws (InjectedAlloc : std::bad_alloc, InjectedCopy, InjectedFunc) and injection switches off.
#pragma once
#include <cstdint>
#include <cstdlib>
#include <cstring>
#include <map>
#include <new>
#include <stdexcept>
#include <string>
#include <vector>
#include <memory>
#include <functional>

namespace kit {

struct InjectedAlloc : std::bad_alloc { const char* what() const noexcept override { return "kit: injected bad_alloc"; } };
struct InjectedCopy : std::runtime_error { InjectedCopy() : std::runtime_error("kit: injected copy failure") {} };
struct InjectedFunc : std::runtime_error { InjectedFunc() : std::runtime_error("kit: injected functor failure") {} };

struct Block { size_t size; int mgr; uint64_t id; };
struct Obj { uint64_t id; bool moved; };

struct World
{
	// injection countdowns (-1 = off)
	long fail_alloc = -1, fail_copy = -1, fail_func = -1;
	// counters (monotone)
	uint64_t n_alloc = 0, n_dealloc = 0, n_realloc = 0, n_ctor = 0, n_dtor = 0, n_copy = 0, n_move = 0,
		n_copy_assign = 0, n_move_assign = 0, n_self_move = 0, n_func = 0, bytes_live = 0;
	// steps seen since the last arm() – lets a driver enumerate "every failure point k" of one operation
	uint64_t steps_alloc = 0, steps_copy = 0, steps_func = 0;
	std::map<void*, Block> blocks;          // live blocks by user address
	std::map<const void*, Obj> objs;        // live instrumented objects by address
	std::vector<std::string> errors;        // protocol violations (never cleared implicitly)
	std::vector<std::string> log; bool logging = false;
	uint64_t next_block = 0, next_obj = 0;
	// --- structured event log (added for C03; off by default).  Object identity = ADDRESS slot, renamed in order of
	// first appearance since elog_reset(); block identity = allocation id.  kinds:
	//   'A' mgr blk size | 'D' mgr blk size | 'N' slot (value ctor) | 'C' dst src (copy ctor) | 'M' dst src (move ctor)
	//   'X' slot (dtor) | 'U' slot (read / assignment) | 'F' kind (injected failure: 0 alloc, 1 copy, 2 func)
	struct Ev { char kind; uint64_t a, b, c; };
	std::vector<Ev> elog; bool elogging = false; bool elog_uses = true;
	std::map<const void*, uint64_t> slot_of; uint64_t next_slot = 0;
	std::map<const void*, uint64_t> dead_block_id;      // id of the last freed block at an address (double free is logged against it)
	uint64_t slot(const void* p) { auto it = slot_of.find(p); if (it != slot_of.end()) return it->second; return slot_of[p] = next_slot++; }
	void eev(char k, uint64_t a = 0, uint64_t b = 0, uint64_t c = 0) { if (elogging) elog.push_back(Ev{ k, a, b, c }); }
	void elog_reset() { elog.clear(); slot_of.clear(); dead_block_id.clear(); next_slot = 0; }
	// unified failure counter: the k-th fallible step of ANY kind (alloc, copy/throwing move, functor) since arm_step throws
	long fail_step = -1; uint64_t steps_any = 0;
	void arm_step(long k) { fail_step = k; steps_any = 0; }
	bool any_fails() { ++steps_any; if (fail_step >= 0 && fail_step-- == 0) { fail_step = -1; return true; } return false; }

	void error(const std::string& s) { if (errors.size() < 50) errors.push_back(s); }
	void ev(const std::string& s) { if (logging) log.push_back(s); }
	void arm(long a, long c, long f) { fail_alloc = a; fail_copy = c; fail_func = f; steps_alloc = steps_copy = steps_func = 0; }
	void disarm() { fail_alloc = fail_copy = fail_func = -1; fail_step = -1; }
	void step_alloc() { ++steps_alloc; if (fail_alloc >= 0 && fail_alloc-- == 0) { fail_alloc = -1; ev("F alloc"); eev('F', 0); throw InjectedAlloc(); }
		if (any_fails()) { ev("F alloc"); eev('F', 0); throw InjectedAlloc(); } }
	void step_copy() { ++steps_copy; if (fail_copy >= 0 && fail_copy-- == 0) { fail_copy = -1; ev("F copy"); eev('F', 1); throw InjectedCopy(); }
		if (any_fails()) { ev("F copy"); eev('F', 1); throw InjectedCopy(); } }
	void step_func() { ++steps_func; ++n_func; if (fail_func >= 0 && fail_func-- == 0) { fail_func = -1; ev("F func"); eev('F', 2); throw InjectedFunc(); }
		if (any_fails()) { ev("F func"); eev('F', 2); throw InjectedFunc(); } }
	size_t live_blocks() const { return blocks.size(); }
	size_t live_objs() const { return objs.size(); }
	size_t live_blocks_of(int mgr) const { size_t n = 0; for (auto& b : blocks) if (b.second.mgr == mgr) ++n; return n; }
};
inline World& W() { static World w; return w; }

static const size_t RZ = 16;               // red zone on each side
static const unsigned char RZBYTE = 0xA5;

inline void* raw_allocate(int mgr, size_t size)
{
	World& w = W();
	w.step_alloc();
	unsigned char* base = static_cast<unsigned char*>(std::malloc(size + 2 * RZ));
	if (base == nullptr) throw std::bad_alloc();
	std::memset(base, RZBYTE, RZ); std::memset(base + RZ + size, RZBYTE, RZ);
	std::memset(base + RZ, 0xCD, size);
	void* p = base + RZ;
	uint64_t id = w.next_block++;
	w.blocks[p] = Block{ size, mgr, id };
	++w.n_alloc; w.bytes_live += size;
	w.ev("A m" + std::to_string(mgr) + " b" + std::to_string(id) + " " + std::to_string(size));
	w.eev('A', uint64_t(mgr), id, size); w.dead_block_id.erase(p);
	return p;
}
inline void raw_deallocate(int mgr, void* p, size_t size) noexcept
{
	World& w = W();
	auto it = w.blocks.find(p);
	if (it == w.blocks.end())
	{
		w.error("deallocate of unknown/already freed block (size " + std::to_string(size) + ")");
		if (w.elogging) { auto d = w.dead_block_id.find(p); w.eev('D', uint64_t(mgr), d != w.dead_block_id.end() ? d->second : w.next_block++, size); }
		return;
	}
	if (it->second.size != size) w.error("deallocate size " + std::to_string(size) + " != allocated size " + std::to_string(it->second.size));
	if (it->second.mgr != mgr) w.error("deallocate through manager " + std::to_string(mgr) + " of a block from manager " + std::to_string(it->second.mgr));
	unsigned char* base = static_cast<unsigned char*>(p) - RZ;
	for (size_t i = 0; i < RZ; ++i)
		if (base[i] != RZBYTE || base[RZ + it->second.size + i] != RZBYTE) { w.error("red zone overwritten around block b" + std::to_string(it->second.id)); break; }
	{	// a block must not be given back while instrumented elements still live inside it (added for C03)
		auto lo = w.objs.lower_bound(p);
		if (lo != w.objs.end() && static_cast<const unsigned char*>(lo->first) < static_cast<const unsigned char*>(p) + it->second.size)
			w.error("block b" + std::to_string(it->second.id) + " returned while a live element is stored in it");
	}
	w.ev("D m" + std::to_string(mgr) + " b" + std::to_string(it->second.id) + " " + std::to_string(size));
	w.eev('D', uint64_t(mgr), it->second.id, size); if (w.elogging) w.dead_block_id[p] = it->second.id;
	w.bytes_live -= it->second.size; ++w.n_dealloc;
	std::memset(base, 0xDD, it->second.size + 2 * RZ);
	w.blocks.erase(it);
	std::free(base);
}

// ---- momo memory manager: identity = id; copies are equal managers -------------------------------------
class MM
{
public:
	explicit MM(int id = 0) noexcept : mId(id) {}
	MM(MM&& m) noexcept : mId(m.mId) {}
	MM(const MM& m) noexcept : mId(m.mId) {}
	~MM() noexcept {}
	MM& operator=(const MM&) = delete;
	void* Allocate(size_t size) { return raw_allocate(mId, size); }
	void Deallocate(void* ptr, size_t size) noexcept { raw_deallocate(mId, ptr, size); }
	bool IsEqual(const MM& m) const noexcept { return mId == m.mId; }
	int GetId() const noexcept { return mId; }
private:
	int mId;
};
// an EMPTY (stateless) manager: all instances are equal, id 0; momo keeps such a manager (and the container traits) INSIDE the container
// object instead of in a heap-allocated crew when iterator versions are not kept (SetCrew<..., false> with tUsePtr == false)
class MM0
{
public:
	explicit MM0() noexcept {}
	MM0(MM0&&) noexcept {}
	MM0(const MM0&) noexcept {}
	~MM0() noexcept {}
	MM0& operator=(const MM0&) = delete;
	void* Allocate(size_t size) { return raw_allocate(0, size); }
	void Deallocate(void* ptr, size_t size) noexcept { raw_deallocate(0, ptr, size); }
};
// with Reallocate (moves the block: exercises momo's realloc paths for trivially relocatable items)
class MMR : public MM
{
public:
	explicit MMR(int id = 0) noexcept : MM(id) {}
	MMR(MMR&& m) noexcept : MM(std::move(m)) {}
	MMR(const MMR& m) noexcept : MM(m) {}
	MMR& operator=(const MMR&) = delete;
	void* Reallocate(void* ptr, size_t size, size_t newSize)
	{
		World& w = W();
		auto it = w.blocks.find(ptr);
		if (it == w.blocks.end() || it->second.size != size) w.error("reallocate of unknown block / wrong size");
		void* np = raw_allocate(GetId(), newSize);      // may throw: old block untouched
		std::memcpy(np, ptr, size < newSize ? size : newSize);
		raw_deallocate(GetId(), ptr, size);
		++w.n_realloc;
		return np;
	}
};

// ---- std allocator with identity and propagation traits ---------------------------------------------
template<typename T, bool POCCA = false, bool POCMA = false, bool POCS = false>
class StdAlloc
{
public:
	typedef T value_type;
	typedef std::integral_constant<bool, POCCA> propagate_on_container_copy_assignment;
	typedef std::integral_constant<bool, POCMA> propagate_on_container_move_assignment;
	typedef std::integral_constant<bool, POCS> propagate_on_container_swap;
	typedef std::false_type is_always_equal;
	template<typename U> struct rebind { typedef StdAlloc<U, POCCA, POCMA, POCS> other; };
	explicit StdAlloc(int id = 0) noexcept : mId(id) {}
	template<typename U> StdAlloc(const StdAlloc<U, POCCA, POCMA, POCS>& a) noexcept : mId(a.id()) {}
	T* allocate(size_t n) { return static_cast<T*>(raw_allocate(mId, n * sizeof(T))); }
	void deallocate(T* p, size_t n) noexcept { raw_deallocate(mId, p, n * sizeof(T)); }
	int id() const noexcept { return mId; }
	friend bool operator==(const StdAlloc& a, const StdAlloc& b) noexcept { return a.mId == b.mId; }
	friend bool operator!=(const StdAlloc& a, const StdAlloc& b) noexcept { return a.mId != b.mId; }
private:
	int mId;
};

// ---- instrumented elements -----------------------------------------------------------------------------
enum Cat { TRIV = 0, NTM = 1, CPY = 2, THM = 3, SMH = 4 };

// TRIV: plain data, trivially copyable (momo relocates it with memcpy); not tracked by address.
struct ElemTriv
{
	int64_t v;
	ElemTriv() : v(0) {}
	ElemTriv(int64_t x) : v(x) {}
	int64_t Value() const { return v; }
	friend bool operator==(const ElemTriv& a, const ElemTriv& b) { return a.v == b.v; }
	friend bool operator<(const ElemTriv& a, const ElemTriv& b) { return a.v < b.v; }
};

template<int C>
class ElemT
{
public:
	static const int category = C;
	explicit ElemT(int64_t x = 0) : p(new int64_t(x)) { reg(); ++W().n_ctor; W().eev('N', eslot(this)); }
	ElemT(const ElemT& e) : p(nullptr)
	{
		e.check("copy from");
		W().step_copy();
		p = new int64_t(*e.p); reg(); ++W().n_copy; W().ev("C o" + std::to_string(id()));
		W().eev('C', eslot(this), eslot(&e));
	}
	// NTM / SMH: nothrow move.  THM: move may throw.  CPY ("copy-only"): moving IS copying (may throw, counted as copy).
	ElemT(ElemT&& e) noexcept(C == NTM || C == SMH) : p(nullptr)
	{
		e.check("move from");
		if (C == CPY) { W().step_copy(); p = new int64_t(*e.p); reg(); ++W().n_copy; W().eev('C', eslot(this), eslot(&e)); return; }
		if (C == THM) W().step_copy();
		p = new int64_t(*e.p); *e.p = -1; reg(); mark_moved(&e); ++W().n_move; W().eev('M', eslot(this), eslot(&e));
	}
	~ElemT() noexcept
	{
		World& w = W();
		w.eev('X', eslot(this));
		auto it = w.objs.find(this);
		if (it == w.objs.end()) w.error("destruction of a dead/unknown element");
		else { w.ev("X o" + std::to_string(it->second.id)); w.objs.erase(it); }
		++w.n_dtor; delete p; p = nullptr;
	}
	ElemT& operator=(const ElemT& e)
	{
		check("copy-assign to"); e.check("copy-assign from"); euse(this); euse(&e);
		if (this != &e) { W().step_copy(); *p = *e.p; unmark_moved(); }
		++W().n_copy_assign; return *this;
	}
	ElemT& operator=(ElemT&& e) noexcept(C == NTM || C == SMH)
	{
		check("move-assign to"); e.check("move-assign from"); euse(this); euse(&e);
		if (C == CPY) { if (this != &e) { W().step_copy(); *p = *e.p; unmark_moved(); } ++W().n_copy_assign; return *this; }
		if (C == THM) W().step_copy();
		if (this == &e)
		{
			++W().n_self_move;
			if (C == SMH) { *p = -1; mark_moved(this); }     // like libstdc++ std::string: self-move empties
		}
		else { *p = *e.p; *e.p = -1; unmark_moved(); mark_moved(&e); }
		++W().n_move_assign; return *this;
	}
	int64_t Value() const { check("read of"); euse(this); return *p; }
	bool IsMoved() const { auto it = W().objs.find(this); return it != W().objs.end() && it->second.moved; }
	friend bool operator==(const ElemT& a, const ElemT& b) { return a.Value() == b.Value(); }
	friend bool operator<(const ElemT& a, const ElemT& b) { return a.Value() < b.Value(); }
private:
	void reg()
	{
		World& w = W();
		if (w.objs.count(this)) w.error("construction on top of a live element");
		w.objs[this] = Obj{ w.next_obj++, false };
	}
	uint64_t id() const { auto it = W().objs.find(this); return it == W().objs.end() ? ~uint64_t(0) : it->second.id; }
	static uint64_t eslot(const void* q) { return W().elogging ? W().slot(q) : 0; }
	static void euse(const void* q) { World& w = W(); if (w.elogging && w.elog_uses) w.eev('U', w.slot(q)); }
	void check(const char* what) const { if (!W().objs.count(this)) W().error(std::string(what) + " a dead/unconstructed element"); }
	static void mark_moved(const ElemT* e) { auto it = W().objs.find(e); if (it != W().objs.end()) it->second.moved = true; }
	void unmark_moved() { auto it = W().objs.find(this); if (it != W().objs.end()) it->second.moved = false; }
	int64_t* p;
};

// CPO: GENUINELY copy-only (no move constructor / move assignment declared at all).  Needed because momo's
// MOMO_IS_NOTHROW_RELOCATABLE_APPENDIX (GCC/Clang) treats every type that declares a move constructor - even a
// throwing one, i.e. ElemCpy and ElemThm - as nothrow relocatable (relocation = move + destroy inside noexcept code, an
// injected failure there calls std::terminate).  ElemCpo is the only kit element with isNothrowRelocatable == false,
// i.e. the one that reaches ObjectManager's copy-all / destroy-all relocation paths.  Copies may throw (step_copy).
class ElemCpo
{
public:
	static const int category = 5;
	explicit ElemCpo(int64_t x = 0) : p(new int64_t(x)) { reg(); ++W().n_ctor; W().eev('N', eslot(this)); }
	ElemCpo(const ElemCpo& e) : p(nullptr)
	{
		e.check("copy from");
		W().step_copy();
		p = new int64_t(*e.p); reg(); ++W().n_copy; W().ev("C o" + std::to_string(id()));
		W().eev('C', eslot(this), eslot(&e));
	}
	~ElemCpo() noexcept
	{
		World& w = W();
		w.eev('X', eslot(this));
		auto it = w.objs.find(this);
		if (it == w.objs.end()) w.error("destruction of a dead/unknown element");
		else { w.ev("X o" + std::to_string(it->second.id)); w.objs.erase(it); }
		++w.n_dtor; delete p; p = nullptr;
	}
	ElemCpo& operator=(const ElemCpo& e)
	{
		check("copy-assign to"); e.check("copy-assign from"); euse(this); euse(&e);
		if (this != &e) { W().step_copy(); *p = *e.p; }
		++W().n_copy_assign; return *this;
	}
	int64_t Value() const { check("read of"); euse(this); return *p; }
	friend bool operator==(const ElemCpo& a, const ElemCpo& b) { return a.Value() == b.Value(); }
	friend bool operator<(const ElemCpo& a, const ElemCpo& b) { return a.Value() < b.Value(); }
private:
	void reg()
	{
		World& w = W();
		if (w.objs.count(this)) w.error("construction on top of a live element");
		w.objs[this] = Obj{ w.next_obj++, false };
	}
	uint64_t id() const { auto it = W().objs.find(this); return it == W().objs.end() ? ~uint64_t(0) : it->second.id; }
	void check(const char* what) const { if (!W().objs.count(this)) W().error(std::string(what) + " a dead/unconstructed element"); }
	static uint64_t eslot(const void* q) { return W().elogging ? W().slot(q) : 0; }
	static void euse(const void* q) { World& w = W(); if (w.elogging && w.elog_uses) w.eev('U', w.slot(q)); }
	int64_t* p;
};

typedef ElemT<NTM> ElemNtm;   // nothrow-move, heap-owning
typedef ElemT<CPY> ElemCpy;   // copy-only, copy may throw
typedef ElemT<THM> ElemThm;   // move may throw
typedef ElemT<SMH> ElemSmh;   // self-move-hostile

// ---- functors ------------------------------------------------------------------------------------------
enum Dist { IDENT = 0, CONST = 1, LOWBITS = 2, HIGHBITS = 3, MULT = 4, MOD7 = 5 };
inline size_t spread(int dist, uint64_t x)
{
	switch (dist)
	{
	case IDENT: return size_t(x);
	case CONST: return 42;
	case LOWBITS: return size_t(x & 15);
	case HIGHBITS: return size_t(x << 56);
	case MULT: return size_t(x * 0x9E3779B97F4A7C15ull);
	default: return size_t(x % 7);
	}
}
template<typename T> inline int64_t value_of(const T& t) { return t.Value(); }
inline int64_t value_of(const int64_t& t) { return t; }
inline int64_t value_of(const uint64_t& t) { return int64_t(t); }
inline int64_t value_of(const int& t) { return t; }

struct Hash
{
	int dist; explicit Hash(int d = IDENT) : dist(d) {}
	template<typename T> size_t operator()(const T& t) const { W().step_func(); return spread(dist, uint64_t(value_of(t))); }
};
struct Eq { template<typename A, typename B> bool operator()(const A& a, const B& b) const { W().step_func(); return value_of(a) == value_of(b); } };
struct Less { template<typename A, typename B> bool operator()(const A& a, const B& b) const { W().step_func(); return value_of(a) < value_of(b); } };

// summary line used by harnesses after each case: "<live blocks> <live objs> <#errors>"
inline std::string summary()
{
	World& w = W();
	return std::to_string(w.live_blocks()) + " " + std::to_string(w.live_objs()) + " " + std::to_string(w.errors.size());
}

} // namespace kit
