(* C05 -- proofs about ArrayModel.v.  Elements are `option V` (None = a moved-from object), so the statements also
   cover arrays that contain moved-from elements (e.g. after Insert(j, std::move(a[i]))). *)
From Coq Require Import List Arith Lia Bool ZArith.
From MomoCommon Require GenPrelude.
From C05 Require Import ArrayShift ArrayModel ShiftProofs FilterProofs.
From C05 Require GrowProofs Gen_Grow.
Import ListNotations.

Section AP.
Variable V : Type.
Variable self_move : V -> option V.
Variable after_move : V -> option V.
Variable ic : nat.
Variable growOnReserve nothrowMove nothrowReloc canRealloc : bool.

Notation array := (array V).
Notation mkArray := (mkArray V).
Notation run_op := (run_op V self_move after_move ic growOnReserve nothrowMove nothrowReloc canRealloc).
Notation O := (option V).
Notation after_o := (after_o V after_move).
Notation moved_out := (moved_out V after_move).
Notation arg_val := (arg_val V).

(* sizes fit into size_t *)
Definition fits (n : nat) : Prop := (Z.of_nat n < 2 ^ 64)%Z.
Lemma fits_le n m : n <= m -> fits m -> fits n.
Proof. unfold fits. lia. Qed.

(* the argument is a temporary or refers to an existing element (any index) *)
Definition arg_in (n : nat) (x : arg V) : Prop := match x with ArgVal _ => True | ArgRef p => p < n end.

Lemma cap_arr_ofo (l : list O) r : cap (arr_ofo l r) = length l + r.
Proof. unfold cap; simpl. apply length_objs_raws. Qed.

Lemma read_arg_arr_ofo (l : list O) r x :
  arg_in (length l) x -> read_arg V (arr_ofo l r) x = Ok (arg_val l x).
Proof.
  destruct x as [v|p]; simpl; auto. intros Hp. apply obj_at_mcell.
  rewrite get_objs_raws. destruct (Nat.ltb_spec p (length l)); [auto|lia].
Qed.

Lemma grow_capacity_ok capacity minNew cause linear :
  capacity < minNew -> fits minNew ->
  exists c, grow_capacity growOnReserve capacity minNew cause linear = Ok c /\ minNew <= c.
Proof.
  intros Hlt Hf. unfold grow_capacity.
  destruct (GrowProofs.grow_capacity_ge growOnReserve (Z.of_nat capacity) (Z.of_nat minNew) cause linear)
    as (r & -> & Hr1 & Hr2); [lia | exact Hf |].
  destruct (Z.leb_spec (Z.of_nat minNew) r); [|lia]. exists (Z.to_nat r). split; auto. lia.
Qed.

Lemma regrow_arr_ofo (l : list O) r c : regrow V (arr_ofo l r) c = arr_ofo l (r + (c - (length l + r))).
Proof.
  unfold regrow. rewrite cap_arr_ofo. unfold arr_ofo. simpl. f_equal.
  rewrite <- app_assoc. f_equal. unfold raws. rewrite repeat_app. reflexivity.
Qed.

Lemma pv_grow_ok (l : list O) r al minNew cause :
  length l + r < minNew -> fits minNew ->
  exists r', pv_grow V growOnReserve (mkArray (arr_ofo l r) al) minNew cause = Ok (mkArray (arr_ofo l r') (S al)) /\
             minNew <= length l + r'.
Proof.
  intros Hlt Hf. unfold pv_grow. simpl body. rewrite cap_arr_ofo.
  destruct (grow_capacity_ok (length l + r) minNew cause true Hlt Hf) as (c1 & -> & _).
  destruct (grow_capacity_ok (length l + r) minNew cause false Hlt Hf) as (c2 & -> & Hc2). simpl.
  rewrite regrow_arr_ofo. eexists; split; [reflexivity|]. lia.
Qed.

(* the ArrayItemHandler temporary as the source of count copies *)
Lemma insert_temp_refines (l : list O) r index count (o : O) :
  index <= length l -> count <= r ->
  insert_nogrow_gen V self_move after_move true (source_temp V o) (arr_ofo l r) index count =
    Ok (arr_ofo (firstn index l ++ repeat o count ++ skipn index l) (r - count)).
Proof. intros. apply insert_const_refines; auto. Qed.

(* ---- Array::Insert(index, count, item): item may alias ANY element; any capacity (growth or not) ---- *)
Theorem array_insert_refines (l : list O) r al index count (x : arg V) :
  index <= length l -> arg_in (length l) x -> fits (length l + count) ->
  exists r', array_insert V self_move after_move growOnReserve (mkArray (arr_ofo l r) al) index count x =
      Ok (mkArray (arr_ofo (firstn index l ++ repeat (arg_val l x) count ++ skipn index l) r')
                  (if r <? count then S al else al)) /\
    (count <= r -> r' = r - count) /\ length l + r <= length l + count + r'.
Proof.
  intros Hi Hx Hf. unfold array_insert. cbv zeta. simpl body. simpl allocs.
  replace (cnt (arr_ofo l r)) with (length l) by reflexivity. rewrite cap_arr_ofo.
  destruct (Nat.ltb_spec (length l + r) (length l + count)) as [Hg|Hg].
  - destruct (Nat.ltb_spec r count); [|lia]. cbn [orb].
    rewrite (read_arg_arr_ofo l r x Hx). simpl.
    destruct (pv_grow_ok l r al (length l + count) cause_add Hg Hf) as (r1 & -> & Hr1). simpl.
    rewrite insert_temp_refines by (auto; lia). simpl. eexists; split; [reflexivity|]. split; intros; lia.
  - destruct (Nat.ltb_spec r count); [lia|]. cbn [orb].
    destruct (alias_at_or_after index (length l) (pv_index_of V (mkArray (arr_ofo l r) al) x)) eqn:Ha.
    + rewrite (read_arg_arr_ofo l r x Hx). simpl.
      rewrite insert_temp_refines by (auto; lia). simpl. eexists; split; [reflexivity|]. split; intros; lia.
    + assert (Hok : arg_ok V index x).
      { destruct x as [v|p]; simpl; auto. simpl in Hx. unfold pv_index_of in Ha. simpl in Ha.
        destruct (Nat.ltb_spec p (length l)); [|lia]. simpl in Ha.
        destruct (Nat.leb_spec index p), (Nat.ltb_spec p (length l)); simpl in Ha; try congruence; lia. }
      rewrite (insert_copies_refines V self_move after_move l r index count x) by (auto; lia).
      simpl. eexists; split; [reflexivity|]. split; intros; lia.
Qed.

Lemma add_back_ctor_arr_ofo (l : list O) r (o : O) :
  0 < r -> add_back_ctor V (arr_ofo l r) o = Ok (arr_ofo (l ++ [o]) (r - 1)).
Proof.
  intros Hr. rewrite add_back_ctor_ok.
  - f_equal. unfold arr_ofo. simpl. rewrite app_length. simpl. rewrite Nat.add_1_r. f_equal.
    apply get_ext.
    + rewrite length_set, !length_objs_raws, app_length. simpl. lia.
    + intros j. rewrite get_set by (rewrite length_objs_raws; lia).
      rewrite !get_objs_raws, app_length. simpl.
      destruct (Nat.eqb_spec j (length l)).
      * subst. destruct (Nat.ltb_spec (length l) (length l + 1)); [|lia]. rewrite app_nth2 by lia.
        rewrite Nat.sub_diag. reflexivity.
      * destruct (Nat.ltb_spec j (length l + 1)), (Nat.ltb_spec j (length l)); try lia; auto.
        rewrite app_nth1 by lia. reflexivity.
  - rewrite cap_arr_ofo. simpl. lia.
  - simpl. rewrite get_objs_raws. destruct (Nat.ltb_spec (length l) (length l)); [lia|auto].
Qed.

Theorem array_add_back_refines (l : list O) r al (x : arg V) :
  arg_in (length l) x -> fits (length l + 1) ->
  exists r', array_add_back V growOnReserve nothrowReloc (mkArray (arr_ofo l r) al) x =
      Ok (mkArray (arr_ofo (l ++ [arg_val l x]) r') (if r =? 0 then S al else al)) /\ (0 < r -> r' = r - 1) /\
      length l + r <= length l + 1 + r'.
Proof.
  intros Hx Hf. unfold array_add_back. simpl body. simpl allocs.
  replace (cnt (arr_ofo l r)) with (length l) by reflexivity. rewrite cap_arr_ofo.
  destruct (Nat.ltb_spec (length l) (length l + r)) as [Hroom|Hfull].
  - destruct (Nat.eqb_spec r 0); [lia|].
    rewrite (read_arg_arr_ofo l r x Hx). simpl. rewrite add_back_ctor_arr_ofo by lia. simpl.
    eexists; split; [reflexivity|]. split; intros; lia.
  - assert (r = 0) by lia. subst r. simpl Nat.eqb. cbv iota.
    destruct nothrowReloc.
    + rewrite (read_arg_arr_ofo l 0 x Hx). simpl.
      destruct (pv_grow_ok l 0 al (length l + 1) cause_add ltac:(lia) Hf) as (r1 & -> & Hr1). simpl.
      rewrite add_back_ctor_arr_ofo by lia. simpl. eexists; split; [reflexivity|]. split; intros; lia.
    + destruct (grow_capacity_ok (length l + 0) (length l + 1) cause_add false ltac:(lia) Hf) as (c & -> & Hc). simpl.
      rewrite (read_arg_arr_ofo l 0 x Hx). simpl. rewrite regrow_arr_ofo.
      rewrite add_back_ctor_arr_ofo by lia. simpl. eexists; split; [reflexivity|]. split; intros; lia.
Qed.

Theorem array_reserve_ok (l : list O) r al n :
  fits n ->
  exists r', array_reserve V growOnReserve (mkArray (arr_ofo l r) al) n =
      Ok (mkArray (arr_ofo l r') (if length l + r <? n then S al else al)) /\ n <= length l + r' /\ r <= r' /\
      (n <= length l + r -> r' = r).
Proof.
  intros Hf. unfold array_reserve. simpl body. rewrite cap_arr_ofo.
  destruct (Nat.ltb_spec (length l + r) n).
  - destruct (pv_grow_ok l r al n cause_reserve H Hf) as (r1 & -> & Hr1). exists r1. split; auto; repeat split; auto; try lia.
  - exists r. split; auto; repeat split; auto; try lia.
Qed.

Lemma array_insert_range_refines (l : list O) r al index (vs : list V) :
  index <= length l -> fits (length l + length vs) ->
  exists r', array_insert_range V self_move after_move growOnReserve (mkArray (arr_ofo l r) al) index vs =
      Ok (mkArray (arr_ofo (firstn index l ++ map Some vs ++ skipn index l) r') (if r <? length vs then S al else al)) /\
      (length vs <= r -> r' = r - length vs) /\ length l + r <= length l + length vs + r'.
Proof.
  intros Hi Hf. unfold array_insert_range. cbv zeta. simpl body.
  replace (cnt (arr_ofo l r)) with (length l) by reflexivity. rewrite cap_arr_ofo.
  assert (Hmap : map (arg_val l) (map (@ArgVal V) vs) = map Some vs).
  { rewrite map_map. reflexivity. }
  assert (Hall : Forall (arg_ok V index) (map (@ArgVal V) vs)).
  { apply Forall_forall. intros x Hin. apply in_map_iff in Hin. destruct Hin as (v & <- & _). simpl. auto. }
  destruct (Nat.ltb_spec (length l + r) (length l + length vs)) as [Hg|Hg].
  - destruct (Nat.ltb_spec r (length vs)); [|lia].
    destruct (pv_grow_ok l r al (length l + length vs) cause_add Hg Hf) as (r1 & -> & Hr1). simpl.
    rewrite (insert_range_refines V self_move after_move l r1 index) by (auto; rewrite ?map_length; lia).
    rewrite Hmap, map_length. simpl. eexists; split; [reflexivity|]. split; intros; lia.
  - destruct (Nat.ltb_spec r (length vs)); [lia|]. simpl.
    rewrite (insert_range_refines V self_move after_move l r index) by (auto; rewrite ?map_length; lia).
    rewrite Hmap, map_length. simpl. eexists; split; [reflexivity|]. split; intros; lia.
Qed.

Lemma array_remove_refines (l : list O) r al index count :
  index + count <= length l ->
  array_remove V self_move after_move (mkArray (arr_ofo l r) al) index count =
    Ok (mkArray (arr_ofo (firstn index l ++ skipn (index + count) l) (r + count)) al).
Proof.
  intros H. unfold array_remove, with_body. simpl body.
  rewrite (remove_refines V self_move after_move l r index count H). reflexivity.
Qed.

Lemma array_remove_filter_refines (l : list O) r al p :
  array_remove_filter V self_move after_move (mkArray (arr_ofo l r) al) p =
    Ok (mkArray (arr_ofo (filter (keep V p) l) (r + (length l - length (filter (keep V p) l)))) al).
Proof.
  unfold array_remove_filter. simpl body. rewrite (remove_filter_refines V self_move after_move p l r). reflexivity.
Qed.

(* ================================================================== rvalue arguments aliasing an element *)
Lemma upd_arr_ofo (l : list O) r p (y : O) :
  p < length l -> upd V (arr_ofo l r) p (mcell y) = arr_ofo (lset l p y) r.
Proof.
  intros Hp. unfold upd, arr_ofo. simpl. rewrite length_lset. f_equal.
  apply get_ext.
  - rewrite length_set, !length_objs_raws, length_lset. reflexivity.
  - intros j. rewrite get_set by (rewrite length_objs_raws; lia). rewrite !get_objs_raws, length_lset.
    rewrite nth_lset by auto. destruct (Nat.eqb_spec j p).
    + subst. destruct (Nat.ltb_spec p (length l)); [auto|lia].
    + reflexivity.
Qed.

Lemma take_arg_arr_ofo (l : list O) r x :
  arg_in (length l) x ->
  take_arg V after_move (arr_ofo l r) x = Ok (arg_val l x, arr_ofo (moved_out l x) r).
Proof.
  destruct x as [v|p]; simpl; auto. intros Hp.
  rewrite (obj_at_mcell V _ p (nth p l None)) by (rewrite get_objs_raws; destruct (Nat.ltb_spec p (length l)); [auto|lia]).
  simpl. rewrite src_after_after_o, upd_arr_ofo by auto. reflexivity.
Qed.

Lemma length_moved_out (l : list O) x : length (moved_out l x) = length l.
Proof. destruct x; simpl; auto using length_lset. Qed.

(* Array::Insert(index, Item&& item) with item = any element a[p] (or a temporary), with or without growth:
   the inserted object is the OLD a[p]; a[p] is left moved-from (after_move); everything else as the list insertion *)
Theorem array_insert_rvalue_refines (l : list O) r al index (x : arg V) :
  index <= length l -> arg_in (length l) x -> fits (length l + 1) ->
  exists r', array_insert_rvalue V self_move after_move growOnReserve (mkArray (arr_ofo l r) al) index x =
      Ok (mkArray (arr_ofo (firstn index (moved_out l x) ++ [arg_val l x] ++ skipn index (moved_out l x)) r')
                  (if r =? 0 then S al else al)) /\
    (0 < r -> r' = r - 1) /\ length l + r <= length l + 1 + r'.
Proof.
  intros Hi Hx Hf. unfold array_insert_rvalue. cbv zeta. simpl body. simpl allocs.
  replace (cnt (arr_ofo l r)) with (length l) by reflexivity. rewrite cap_arr_ofo.
  pose proof (length_moved_out l x) as Hlm.
  assert (Htemp : forall r0 al0, 1 <= r0 ->
    with_body V (mkArray (arr_ofo (moved_out l x) r0) al0)
      (insert_nogrow_gen V self_move after_move true (source_temp V (arg_val l x)) (arr_ofo (moved_out l x) r0) index 1) =
    Ok (mkArray (arr_ofo (firstn index (moved_out l x) ++ [arg_val l x] ++ skipn index (moved_out l x)) (r0 - 1)) al0)).
  { intros r0 al0 Hr0. rewrite insert_temp_refines by (rewrite ?Hlm; lia). reflexivity. }
  destruct (Nat.ltb_spec (length l + r) (length l + 1)) as [Hg|Hg].
  - (* growth *)
    assert (r = 0) by lia. subst r. simpl Nat.eqb. cbn [orb].
    rewrite (take_arg_arr_ofo l 0 x Hx). simpl. rewrite cap_arr_ofo, Hlm.
    destruct (Nat.ltb_spec (length l + 0) (length l + 1)); [|lia].
    destruct (pv_grow_ok (moved_out l x) 0 al (length l + 1) cause_add ltac:(rewrite Hlm; lia) Hf) as (r1 & -> & Hr1).
    simpl. rewrite Hlm in Hr1. rewrite Htemp by lia. eexists; split; [reflexivity|]. split; intros; lia.
  - destruct (Nat.eqb_spec r 0); [lia|]. cbn [orb].
    destruct (alias_at_or_after index (length l) (pv_index_of V (mkArray (arr_ofo l r) al) x)) eqn:Ha.
    + rewrite (take_arg_arr_ofo l r x Hx). simpl. rewrite cap_arr_ofo, Hlm.
      destruct (Nat.ltb_spec (length l + r) (length l + 1)); [lia|]. simpl.
      rewrite Htemp by lia. eexists; split; [reflexivity|]. split; intros; lia.
    + assert (Hok : arg_ok V index x).
      { destruct x as [v|p]; simpl; auto. simpl in Hx. unfold pv_index_of in Ha. simpl in Ha.
        destruct (Nat.ltb_spec p (length l)); [|lia]. simpl in Ha.
        destruct (Nat.leb_spec index p), (Nat.ltb_spec p (length l)); simpl in Ha; try congruence; lia. }
      rewrite (insert_rvalue_refines V self_move after_move l r index x) by (auto; lia).
      simpl. eexists; split; [reflexivity|]. split; intros; lia.
Qed.

(* Array::AddBack(Item&& item) with item = any element a[p]: the appended object is the old a[p].  a[p] is left
   moved-from -- except on the one code path where the items are COPIED to the new buffer (neither nothrow move
   constructible nor nothrow relocatable, and growth): there a[p] keeps its value (also allowed by the contract) *)
Theorem array_add_back_rvalue_refines (l : list O) r al (x : arg V) :
  arg_in (length l) x -> fits (length l + 1) ->
  exists r', array_add_back_rvalue V after_move growOnReserve nothrowMove nothrowReloc (mkArray (arr_ofo l r) al) x =
      Ok (mkArray (arr_ofo ((if (0 <? r) || nothrowMove || nothrowReloc then moved_out l x else l) ++ [arg_val l x]) r')
                  (if r =? 0 then S al else al)) /\
    (0 < r -> r' = r - 1) /\ length l + r <= length l + 1 + r'.
Proof.
  intros Hx Hf. unfold array_add_back_rvalue. simpl body. simpl allocs.
  replace (cnt (arr_ofo l r)) with (length l) by reflexivity. rewrite cap_arr_ofo.
  pose proof (length_moved_out l x) as Hlm.
  destruct (Nat.ltb_spec (length l) (length l + r)) as [Hroom|Hfull].
  - destruct (Nat.eqb_spec r 0); [lia|]. destruct (Nat.ltb_spec 0 r); [|lia]. cbn [orb].
    rewrite (take_arg_arr_ofo l r x Hx). simpl. rewrite add_back_ctor_arr_ofo by lia. simpl.
    eexists; split; [reflexivity|]. split; intros; lia.
  - assert (r = 0) by lia. subst r. simpl Nat.eqb. simpl Nat.ltb. cbn [orb]. cbv iota.
    destruct nothrowMove; cbn [orb].
    + destruct (pv_grow_ok l 0 al (length l + 1) cause_add ltac:(lia) Hf) as (r1 & -> & Hr1). simpl.
      destruct x as [v|p]; simpl in Hx |- *.
      * rewrite add_back_ctor_arr_ofo by lia. simpl. eexists; split; [reflexivity|]. split; intros; lia.
      * destruct (Nat.ltb_spec p (length l)); [|lia].
        pose proof (take_arg_arr_ofo l r1 (ArgRef p) ltac:(simpl; auto)) as Ht. simpl in Ht. rewrite Ht. simpl.
        rewrite add_back_ctor_arr_ofo by lia. simpl. eexists; split; [reflexivity|]. split; intros; lia.
    + destruct (grow_capacity_ok (length l + 0) (length l + 1) cause_add false ltac:(lia) Hf) as (c & -> & Hc). simpl.
      destruct nothrowReloc.
      * rewrite (take_arg_arr_ofo l 0 x Hx). simpl. rewrite regrow_arr_ofo, Hlm.
        rewrite add_back_ctor_arr_ofo by lia. simpl. eexists; split; [reflexivity|]. split; intros; lia.
      * rewrite (read_arg_arr_ofo l 0 x Hx). simpl. rewrite regrow_arr_ofo.
        rewrite add_back_ctor_arr_ofo by lia. simpl. eexists; split; [reflexivity|]. split; intros; lia.
Qed.

(* ================================================================== SetCount / RemoveBack / Clear / Shrink / assign *)
Lemma remove_back_arr_ofo (l : list O) r count :
  count <= length l ->
  remove_back V (arr_ofo l r) count = Ok (arr_ofo (firstn (length l - count) l) (r + count)).
Proof.
  intros Hc. destruct (arr_ofo_pre V l r) as (Hcn & Hcap & Hlive & Hraw).
  destruct (remove_back_ok V (arr_ofo l r) count) as (c' & -> & Hl' & Hg'); try (rewrite ?Hcn, ?Hcap; lia).
  { intros j Hj. rewrite Hcn in Hj. rewrite Hlive by lia. apply mcell_not_raw. }
  rewrite Hcn. f_equal. unfold arr_ofo. rewrite firstn_length. replace (Nat.min (length l - count) (length l)) with (length l - count) by lia.
  f_equal. apply get_ext.
  - rewrite length_objs_raws, firstn_length, Hl', Hcap. lia.
  - intros j. rewrite Hg', Hcn, get_objs_raws, firstn_length.
    replace (Nat.min (length l - count) (length l)) with (length l - count) by lia.
    destruct (Nat.ltb_spec j (length l - count)).
    + destruct (Nat.leb_spec (length l - count) j); [lia|]. simpl. rewrite Hlive by lia.
      rewrite nth_firstn_lt by lia. reflexivity.
    + destruct (Nat.leb_spec (length l - count) j); [|lia]. destruct (Nat.ltb_spec j (length l)); simpl; auto;
      try (apply Hraw; lia).
Qed.

Theorem array_remove_back_refines (l : list O) r al count :
  count <= length l ->
  array_remove_back V (mkArray (arr_ofo l r) al) count = Ok (mkArray (arr_ofo (firstn (length l - count) l) (r + count)) al).
Proof. intros. unfold array_remove_back, with_body. simpl body. rewrite remove_back_arr_ofo by auto. reflexivity. Qed.

Theorem array_clear_refines (l : list O) r al shrink :
  exists r', array_clear V ic (mkArray (arr_ofo l r) al) shrink = Ok (mkArray (arr_ofo [] r') al) /\
             (shrink = true -> r' = ic) /\ (shrink = false -> r' = length l + r).
Proof.
  unfold array_clear. destruct shrink.
  - simpl body. destruct (arr_ofo_pre V l r) as (Hcn & Hcap & Hlive & Hraw).
    destruct (destroy_ok V (cnt (arr_ofo l r)) (cells (arr_ofo l r)) 0) as (c' & -> & _).
    + unfold cap in Hcap. lia.
    + intros j Hj. rewrite Hlive by lia. apply mcell_not_raw.
    + simpl. exists ic. split; [reflexivity|]. split; auto. discriminate.
  - unfold with_body. simpl body. replace (cnt (arr_ofo l r)) with (length l) by reflexivity.
    rewrite remove_back_arr_ofo by auto. rewrite Nat.sub_diag. simpl. eexists; split; [reflexivity|].
    split; [discriminate|]. intros; lia.
Qed.

(* appending k copies one by one (SetCount growing in place; also SegmentedArray::pvIncCount) *)
Lemma push_loop (G : arr V -> res O) (o : O) : forall k fuel (l : list O) r hi,
  hi = length l + k ->
  k <= r -> k < fuel -> (forall k' r', G (arr_ofo (l ++ repeat o k') r') = Ok o) ->
  for_up fuel (length l) hi (fun _ b => v <- G b ;; add_back_ctor V b v) (arr_ofo l r) =
    Ok (arr_ofo (l ++ repeat o k) (r - k)).
Proof.
  induction k; intros fuel l r hi -> Hk Hf HG.
  - rewrite for_up_none by lia. simpl. rewrite app_nil_r, Nat.sub_0_r. reflexivity.
  - destruct fuel; [lia|]. simpl for_up. destruct (Nat.ltb_spec (length l) (length l + S k)); [|lia].
    pose proof (HG 0 r) as H0. simpl in H0. rewrite app_nil_r in H0. rewrite H0. simpl.
    rewrite add_back_ctor_arr_ofo by lia. simpl.
    replace (S (length l)) with (length (l ++ [o])) by (rewrite app_length; simpl; lia).
    rewrite (IHk fuel (l ++ [o]) (r - 1) (length l + S k)); try lia; try (rewrite app_length; simpl; lia).
    + rewrite <- app_assoc. simpl. f_equal. f_equal. lia.
    + intros k' r'. rewrite <- app_assoc. simpl. apply (HG (S k') r').
Qed.

Local Arguments for_up : simpl never.

Lemma read_arg_app (l t : list O) r x : arg_in (length l) x -> read_arg V (arr_ofo (l ++ t) r) x = Ok (arg_val l x).
Proof.
  intros Hx. rewrite read_arg_arr_ofo.
  - destruct x as [v|p]; simpl in *; auto. rewrite app_nth1 by auto. reflexivity.
  - destruct x; simpl in *; auto. rewrite app_length. lia.
Qed.

(* Array::SetCount(count, item): shrinking, growing within the capacity, growing with reallocation; item may alias *)
Theorem array_set_count_refines (l : list O) r al m (x : arg V) :
  arg_in (length l) x -> fits m ->
  exists r' al', array_set_count V growOnReserve (mkArray (arr_ofo l r) al) m x =
      Ok (mkArray (arr_ofo (firstn m l ++ repeat (arg_val l x) (m - length l)) r') al') /\
    length l + r <= length (firstn m l ++ repeat (arg_val l x) (m - length l)) + r' /\ (m <= length l + r -> al' = al).
Proof.
  intros Hx Hf. unfold array_set_count. cbv zeta. simpl body. simpl allocs.
  replace (cnt (arr_ofo l r)) with (length l) by reflexivity. rewrite cap_arr_ofo.
  destruct (Nat.leb_spec m (length l)).
  - unfold with_body. rewrite remove_back_arr_ofo by lia.
    replace (length l - (length l - m)) with m by lia. replace (m - length l) with 0 by lia. simpl. rewrite app_nil_r.
    eexists; eexists; split; [reflexivity|]. split; auto. rewrite firstn_length. lia.
  - rewrite firstn_all2 by lia.
    destruct (Nat.leb_spec m (length l + r)).
    + unfold with_body.
      rewrite (push_loop (fun b => read_arg V b x) (arg_val l x) (m - length l)); try lia.
      * simpl. eexists; eexists; split; [reflexivity|]. split; auto. rewrite app_length, repeat_length. lia.
      * intros k' r'. apply read_arg_app; auto.
    + destruct (grow_capacity_ok (length l + r) m cause_reserve false ltac:(lia) Hf) as (c & -> & Hc). simpl.
      rewrite (read_arg_arr_ofo l r x Hx). simpl. unfold with_body. simpl body. rewrite regrow_arr_ofo.
      match goal with |- context [for_up ?fu _ _ _ (arr_ofo l ?rr)] =>
        pose proof (push_loop (fun _ => Ok (arg_val l x)) (arg_val l x) (m - length l) fu l rr m
                      ltac:(lia) ltac:(lia) ltac:(lia) ltac:(auto)) as Hp end.
      cbn [bind] in Hp. rewrite Hp.
      simpl. eexists; eexists; split; [reflexivity|]. split; [rewrite app_length, repeat_length; lia|]. intros; lia.
Qed.

Lemma firstn_repeat_ {A} (a : A) n k : firstn k (repeat a n) = repeat a (Nat.min k n).
Proof. revert k; induction n; intros [|k]; simpl; auto. f_equal. apply IHn. Qed.

Lemma map_repeat_ {A B} (f : A -> B) a n : map f (repeat a n) = repeat (f a) n.
Proof. induction n; simpl; auto. f_equal; auto. Qed.

Lemma firstn_objs_raws (l : list O) r k : length l <= k -> k <= length l + r ->
  firstn k (objs l ++ raws r) = objs l ++ raws (k - length l).
Proof.
  intros H1 H2. rewrite firstn_app. unfold objs at 1 2. rewrite map_length.
  rewrite firstn_all2 by (rewrite map_length; lia). f_equal. unfold raws.
  rewrite firstn_repeat_. f_equal. lia.
Qed.

(* Array::Shrink(capacity): the elements are unchanged, the capacity never drops below the count nor below the
   internal capacity; with internal capacity N, count <= N and a request <= N end in the internal buffer (capacity N) *)
Theorem array_shrink_refines (l : list O) r al n :
  ic <= length l + r ->
  exists r' al', array_shrink V ic canRealloc (mkArray (arr_ofo l r) al) n = Ok (mkArray (arr_ofo l r') al') /\
    ic <= length l + r' /\ length l + r' <= length l + r /\
    (n <= ic -> length l <= ic -> length l + r' = ic /\ al' = al) /\
    (length l + r <> ic -> n < length l + r -> length l + r' = Nat.max (Nat.max n (length l)) ic).
Proof.
  intros Hwf. unfold array_shrink. cbv zeta. simpl body. simpl allocs.
  replace (cnt (arr_ofo l r)) with (length l) by reflexivity. rewrite cap_arr_ofo.
  destruct (Nat.leb_spec (length l + r) n); cbn [orb].
  { exists r, al. repeat split; auto; try lia. }
  destruct (Nat.eqb_spec (length l + r) ic); cbn [orb].
  { exists r, al. repeat split; auto; try lia. }
  set (c := if n <? length l then length l else n).
  assert (Hc : c = Nat.max n (length l)) by (unfold c; destruct (Nat.ltb_spec n (length l)); lia).
  destruct (Nat.ltb_spec ic c).
  - unfold arr_ofo at 1. cbn [cells]. rewrite firstn_objs_raws by lia.
    eexists (c - length l), _. split; [reflexivity|]. repeat split; try lia.
  - unfold arr_ofo at 1. cbn [cells]. rewrite firstn_objs_raws by lia.
    eexists (ic - length l), _. split; [reflexivity|]. repeat split; try lia.
Qed.

Theorem array_assign_refines (l : list O) r al count (x : arg V) :
  arg_in (length l) x ->
  exists r' al', array_assign V ic (mkArray (arr_ofo l r) al) count x =
      Ok (mkArray (arr_ofo (repeat (arg_val l x) count) r') al') /\ ic <= count + r'.
Proof.
  intros Hx. unfold array_assign. simpl body. rewrite (read_arg_arr_ofo l r x Hx). simpl.
  eexists (_ - count), _. unfold arr_ofo, objs. rewrite map_repeat_, repeat_length. split; [reflexivity|].
  destruct (Nat.ltb_spec ic count); lia.
Qed.

Theorem array_assign_range_refines (l : list O) r al (vs : list V) :
  exists r' al', array_assign_range V ic (mkArray (arr_ofo l r) al) vs =
      Ok (mkArray (arr_ofo (map Some vs) r') al') /\ ic <= length vs + r'.
Proof.
  unfold array_assign_range. cbv zeta.
  eexists (_ - length vs), _. unfold arr_ofo. rewrite <- lives_objs, map_length. split; [reflexivity|].
  destruct (Nat.ltb_spec ic (length vs)); lia.
Qed.

Theorem array_set_refines (l : list O) r al i v :
  i < length l -> array_set V (mkArray (arr_ofo l r) al) i v = Ok (mkArray (arr_ofo (lset l i (Some v)) r) al).
Proof.
  intros Hi. unfold array_set, with_body. simpl body. rewrite assign_val_ok.
  - rewrite upd_arr_ofo by auto. reflexivity.
  - simpl. auto.
  - simpl. rewrite get_objs_raws. destruct (Nat.ltb_spec i (length l)); [apply mcell_not_raw|lia].
Qed.

(* input-iterator Insert: the items are inserted one by one through InsertCrt *)
Lemma array_insert_crt_refines (l : list O) r al index v :
  index <= length l -> fits (length l + 1) ->
  exists r' al', array_insert_crt V self_move after_move growOnReserve (mkArray (arr_ofo l r) al) index v =
      Ok (mkArray (arr_ofo (firstn index l ++ [Some v] ++ skipn index l) r') al') /\ length l + r <= length l + 1 + r'.
Proof.
  intros Hi Hf. unfold array_insert_crt. cbv zeta. simpl body.
  replace (cnt (arr_ofo l r)) with (length l) by reflexivity. rewrite cap_arr_ofo.
  destruct (Nat.ltb_spec (length l + r) (length l + 1)).
  - destruct (pv_grow_ok l r al (length l + 1) cause_add H Hf) as (r1 & -> & Hr1). simpl.
    unfold with_body. rewrite insert_temp_refines by lia. simpl. eexists; eexists; split; [reflexivity|]. lia.
  - simpl. unfold with_body. rewrite insert_temp_refines by lia. simpl. eexists; eexists; split; [reflexivity|]. lia.
Qed.

Theorem array_insert_input_refines (vs : list V) : forall (l : list O) r al index,
  index <= length l -> fits (length l + length vs) ->
  exists r' al', array_insert_input V self_move after_move growOnReserve (mkArray (arr_ofo l r) al) index vs =
      Ok (mkArray (arr_ofo (firstn index l ++ map Some vs ++ skipn index l) r') al') /\
      length l + r <= length l + length vs + r'.
Proof.
  induction vs as [|v t IH]; intros l r al index Hi Hf; simpl.
  - exists r, al. rewrite firstn_skipn. split; auto. lia.
  - assert (Hf1 : fits (length l + 1)) by (apply (fits_le _ (length l + S (length t))); auto; lia).
    destruct (array_insert_crt_refines l r al index v Hi Hf1) as (r1 & al1 & -> & Hc1). simpl.
    set (l1 := firstn index l ++ Some v :: skipn index l).
    assert (Hl1 : length l1 = length l + 1) by (unfold l1; rewrite app_length, firstn_length; simpl; rewrite skipn_length; lia).
    destruct (IH l1 r1 al1 (S index)) as (r2 & al2 & -> & Hc2).
    + lia.
    + rewrite Hl1. apply (fits_le _ (length l + S (length t))); auto. lia.
    + exists r2, al2. split; [|simpl in *; lia]. f_equal. f_equal. f_equal.
      unfold l1. assert (Hfl : length (firstn index l) = index) by (rewrite firstn_length; lia).
      replace (S index) with (length (firstn index l ++ [Some v])) at 1 2 by (rewrite app_length; simpl; lia).
      change (firstn index l ++ Some v :: skipn index l) with (firstn index l ++ [Some v] ++ skipn index l).
      rewrite (app_assoc (firstn index l) [Some v]).
      rewrite firstn_app, firstn_all, Nat.sub_diag. simpl firstn at 2. rewrite app_nil_r.
      rewrite skipn_app, skipn_all, Nat.sub_diag. simpl. rewrite <- app_assoc. reflexivity.
Qed.

(* ================================================================== copy / move / swap of whole arrays *)
(* copy construction / copy assignment: the same objects, capacity = max(count, internal capacity), the source is untouched
   (array_copy is a function of the source); one allocation iff count > internal capacity *)
Theorem array_copy_refines (l : list O) r al :
  array_copy V ic (mkArray (arr_ofo l r) al) =
    mkArray (arr_ofo l ((if ic <? length l then length l else ic) - length l)) (if ic <? length l then S al else al).
Proof.
  unfold array_copy. cbv zeta. simpl body. simpl allocs. replace (cnt (arr_ofo l r)) with (length l) by reflexivity.
  unfold arr_ofo at 1. cbn [cells]. rewrite firstn_objs_raws by lia. rewrite Nat.sub_diag. unfold raws at 1. simpl repeat.
  rewrite app_nil_r. reflexivity.
Qed.

(* move construction: the new array IS the old one (elements, count, capacity); the source is left empty with the internal capacity *)
Theorem array_move_construct_refines (a : array) :
  array_move_construct V ic a = (a, mkArray (arr_ofo [] ic) (allocs V a)).
Proof. reflexivity. Qed.

(* move assignment: the target's items are destroyed, then the target is the source and the source is empty *)
Theorem array_move_assign_refines (lt ls : list O) rt rs alt als :
  array_move_assign V ic (mkArray (arr_ofo lt rt) alt) (mkArray (arr_ofo ls rs) als) =
    Ok (mkArray (arr_ofo ls rs) alt, mkArray (arr_ofo [] ic) alt).
Proof.
  unfold array_move_assign. simpl body. destruct (arr_ofo_pre V lt rt) as (Hcn & Hcap & Hlive & Hraw).
  destruct (destroy_ok V (cnt (arr_ofo lt rt)) (cells (arr_ofo lt rt)) 0) as (c' & -> & _).
  - unfold cap in Hcap. lia.
  - intros j Hj. rewrite Hlive by lia. apply mcell_not_raw.
  - reflexivity.
Qed.

(* swap exchanges the two arrays completely (contents, counts, capacities) *)
Theorem array_swap_refines (a b : array) : array_swap V a b = (b, a).
Proof. reflexivity. Qed.

Lemma array_move_construct_and_swap (a b : array) :
  array_move_construct V ic a = (a, mkArray (arr_ofo [] ic) (allocs V a)) /\ array_swap V a b = (b, a).
Proof. split; reflexivity. Qed.

Lemma array_copy_round_refines (l : list O) r al :
  exists r' al', array_copy_round V ic (mkArray (arr_ofo l r) al) = Ok (mkArray (arr_ofo l r') al') /\ ic <= length l + r'.
Proof.
  unfold array_copy_round, array_swap. simpl fst. rewrite array_copy_refines. eexists; eexists; split; [reflexivity|].
  destruct (Nat.ltb_spec ic (length l)); lia.
Qed.

Lemma array_move_round_refines (l : list O) r al :
  array_move_round V ic (mkArray (arr_ofo l r) al) = Ok (mkArray (arr_ofo l r) al).
Proof.
  unfold array_move_round, array_move_construct, array_move_assign. simpl. reflexivity.
Qed.

(* ================================================================== histories over the FULL operation alphabet *)
Definition ain (l : list O) (x : arg V) : bool := match x with ArgVal _ => true | ArgRef p => p <? length l end.
Definition is_val (x : arg V) : bool := match x with ArgVal _ => true | ArgRef _ => false end.

(* list-level meaning of every operation of the model (None = precondition violated).  Elements are `option V`:
   an rvalue argument a[p] leaves None-or-value (after_move) at p, the moved object is the OLD a[p]. *)
Definition spec_op (l : list O) (o : op V) : option (list O) :=
  match o with
  | OAddBack _ x => if ain l x then Some (l ++ [arg_val l x]) else None
  | OAddBackR _ x => if ain l x && (is_val x || nothrowMove || nothrowReloc) then Some (moved_out l x ++ [arg_val l x]) else None
  | OInsert _ i c x => if (i <=? length l) && ain l x then Some (firstn i l ++ repeat (arg_val l x) c ++ skipn i l) else None
  | OInsertR _ i x => if (i <=? length l) && ain l x
                      then Some (firstn i (moved_out l x) ++ [arg_val l x] ++ skipn i (moved_out l x)) else None
  | OInsertRange _ i vs => if i <=? length l then Some (firstn i l ++ map Some vs ++ skipn i l) else None
  | OInsertInput _ i vs => if i <=? length l then Some (firstn i l ++ map Some vs ++ skipn i l) else None
  | ORemove _ i c => if i + c <=? length l then Some (firstn i l ++ skipn (i + c) l) else None
  | ORemoveFilter _ p => Some (filter (keep V p) l)
  | OSetCount _ n x => if ain l x then Some (firstn n l ++ repeat (arg_val l x) (n - length l)) else None
  | OAssign _ n x => if ain l x then Some (repeat (arg_val l x) n) else None
  | OAssignRange _ vs => Some (map Some vs)
  | ORemoveBack _ n => if n <=? length l then Some (firstn (length l - n) l) else None
  | OClear _ _ => Some []
  | OReserve _ _ => Some l
  | OShrink _ _ => Some l
  | OSet _ i v => if i <? length l then Some (lset l i (Some v)) else None
  | OCopyRound _ => Some l
  | OMoveRound _ => Some l
  end.
Definition op_size (o : op V) : nat := match o with OReserve _ n => n | _ => 0 end.

Lemma length_ins1 {A} (m : list A) i a : i <= length m -> length (firstn i m ++ a :: skipn i m) = length m + 1.
Proof. intros. rewrite app_length, firstn_length. simpl. rewrite skipn_length. lia. Qed.

Lemma ain_arg_in l x : ain l x = true -> arg_in (length l) x.
Proof. destruct x; simpl; auto. intros H. apply Nat.ltb_lt; auto. Qed.

Lemma step_full (l l' : list O) r al (o : op V) B :
  spec_op l o = Some l' -> length l <= B -> length l' <= B -> op_size o <= B -> fits (B + 1) -> ic <= length l + r ->
  exists r' al', run_op (mkArray (arr_ofo l r) al) o = Ok (mkArray (arr_ofo l' r') al') /\ ic <= length l' + r'.
Proof.
  intros Hs HlB HB Hsz HfB Hwf.
  assert (Hfit : forall n, n <= B + 1 -> fits n) by (intros n Hn; apply (fits_le n (B + 1)); auto).
  destruct o; simpl in Hs; simpl run_op.
  - (* AddBack *) destruct (ain l x) eqn:Hx; inversion Hs; subst l'. apply ain_arg_in in Hx.
    destruct (array_add_back_refines l r al x Hx (Hfit (length l + 1) ltac:(lia))) as (r' & -> & _ & Hc).
    eexists; eexists; split; [reflexivity|]. rewrite app_length; simpl; lia.
  - (* AddBack&& *) destruct (ain l x) eqn:Hx; simpl in Hs; [|discriminate]. apply ain_arg_in in Hx.
    destruct (is_val x || nothrowMove || nothrowReloc) eqn:Hfl; inversion Hs; subst l'.
    destruct (array_add_back_rvalue_refines l r al x Hx (Hfit (length l + 1) ltac:(lia))) as (r' & He & _ & Hc).
    assert (Hsame : (if (0 <? r) || nothrowMove || nothrowReloc then moved_out l x else l) = moved_out l x).
    { destruct x as [v|p]; [destruct ((0 <? r) || nothrowMove || nothrowReloc); reflexivity|].
      simpl in Hfl. destruct (0 <? r), nothrowMove, nothrowReloc; simpl in *; auto; discriminate. }
    rewrite Hsame in He. rewrite He. eexists; eexists; split; [reflexivity|].
    rewrite app_length, length_moved_out; simpl; lia.
  - (* Insert *) destruct (Nat.leb_spec index (length l)); simpl in Hs; [|discriminate].
    destruct (ain l x) eqn:Hx; inversion Hs; subst l'. apply ain_arg_in in Hx.
    rewrite length_spec, repeat_length in HB by auto.
    destruct (array_insert_refines l r al index count x H Hx (Hfit (length l + count) ltac:(lia))) as (r' & -> & _ & Hc).
    eexists; eexists; split; [reflexivity|]. rewrite length_spec, repeat_length by auto. lia.
  - (* Insert&& *) destruct (Nat.leb_spec index (length l)); simpl in Hs; [|discriminate].
    destruct (ain l x) eqn:Hx; inversion Hs; subst l'. apply ain_arg_in in Hx.
    destruct (array_insert_rvalue_refines l r al index x H Hx (Hfit (length l + 1) ltac:(lia))) as (r' & -> & _ & Hc).
    eexists; eexists; split; [reflexivity|]. simpl. rewrite length_ins1 by (rewrite length_moved_out; auto).
    rewrite length_moved_out. lia.
  - (* Insert range *) destruct (Nat.leb_spec index (length l)); inversion Hs; subst l'.
    rewrite length_spec, map_length in HB by auto.
    destruct (array_insert_range_refines l r al index vs H (Hfit (length l + length vs) ltac:(lia))) as (r' & -> & _ & Hc).
    eexists; eexists; split; [reflexivity|]. rewrite length_spec, map_length by auto. lia.
  - (* Remove *) destruct (Nat.leb_spec (index + count) (length l)); inversion Hs; subst l'.
    rewrite array_remove_refines by auto. eexists; eexists; split; [reflexivity|].
    rewrite app_length, firstn_length, skipn_length. lia.
  - (* Remove(filter) *) inversion Hs; subst l'. rewrite array_remove_filter_refines.
    eexists; eexists; split; [reflexivity|]. pose proof (filter_len_le (keep V p) l). lia.
  - (* SetCount *) destruct (ain l x) eqn:Hx; inversion Hs; subst l'. apply ain_arg_in in Hx.
    rewrite app_length, firstn_length, repeat_length in HB.
    destruct (array_set_count_refines l r al n x Hx (Hfit (n) ltac:(lia))) as (r' & al' & -> & Hc & _).
    eexists; eexists; split; [reflexivity|]. lia.
  - (* assign(n, item) *) destruct (ain l x) eqn:Hx; inversion Hs; subst l'. apply ain_arg_in in Hx.
    destruct (array_assign_refines l r al n x Hx) as (r' & al' & -> & Hc).
    eexists; eexists; split; [reflexivity|]. rewrite repeat_length. lia.
  - (* assign(range) *) inversion Hs; subst l'.
    destruct (array_assign_range_refines l r al vs) as (r' & al' & -> & Hc).
    eexists; eexists; split; [reflexivity|]. rewrite map_length. lia.
  - (* RemoveBack *) destruct (Nat.leb_spec n (length l)); inversion Hs; subst l'.
    rewrite array_remove_back_refines by auto. eexists; eexists; split; [reflexivity|]. rewrite firstn_length. lia.
  - (* Clear *) inversion Hs; subst l'.
    destruct (array_clear_refines l r al shrink) as (r' & -> & H1 & H2).
    eexists; eexists; split; [reflexivity|]. simpl. destruct shrink; [rewrite H1 by auto|rewrite H2 by auto]; lia.
  - (* input-iterator Insert *) destruct (Nat.leb_spec index (length l)); inversion Hs; subst l'.
    rewrite length_spec, map_length in HB by auto.
    destruct (array_insert_input_refines vs l r al index H (Hfit (length l + length vs) ltac:(lia))) as (r' & al' & -> & Hc).
    eexists; eexists; split; [reflexivity|]. rewrite length_spec, map_length by auto. lia.
  - (* Reserve *) inversion Hs; subst l'. simpl in Hsz.
    destruct (array_reserve_ok l r al n (Hfit (n) ltac:(lia))) as (r' & -> & _ & Hc & _).
    eexists; eexists; split; [reflexivity|]. lia.
  - (* Shrink *) inversion Hs; subst l'.
    destruct (array_shrink_refines l r al n Hwf) as (r' & al' & -> & Hc & _).
    eexists; eexists; split; [reflexivity|]. lia.
  - (* a[i] = v *) destruct (Nat.ltb_spec i (length l)); inversion Hs; subst l'.
    rewrite array_set_refines by auto. eexists; eexists; split; [reflexivity|]. rewrite length_lset. lia.
  - (* copy + swap *) inversion Hs; subst l'. destruct (array_copy_round_refines l r al) as (r' & al' & -> & Hc).
    eexists; eexists; split; [reflexivity|]. lia.
  - (* move construction + move assignment *) inversion Hs; subst l'. rewrite array_move_round_refines.
    eexists; eexists; split; [reflexivity|]. lia.
Qed.

Fixpoint run_ops (a : array) (os : list (op V)) : res array :=
  match os with [] => Ok a | o :: t => a' <- run_op a o ;; run_ops a' t end.
Fixpoint spec_ops (l : list O) (os : list (op V)) : option (list O) :=
  match os with [] => Some l | o :: t => match spec_op l o with Some l' => spec_ops l' t | None => None end end.
(* every operation is meaningful on the list level; every intermediate length / reserved amount is <= B *)
Fixpoint bounded (l : list O) (os : list (op V)) (B : nat) : Prop :=
  match os with
  | [] => True
  | o :: t => match spec_op l o with
              | Some l' => length l' <= B /\ op_size o <= B /\ bounded l' t B
              | None => False
              end
  end.

Theorem history_refines (os : list (op V)) : forall (l : list O) r al B,
  bounded l os B -> length l <= B -> fits (B + 1) -> ic <= length l + r ->
  exists l' r' al', spec_ops l os = Some l' /\
    run_ops (mkArray (arr_ofo l r) al) os = Ok (mkArray (arr_ofo l' r') al') /\ ic <= length l' + r'.
Proof.
  induction os as [|o t IH]; intros l r al B Hb Hl Hf Hwf; simpl in *.
  - exists l, r, al. auto.
  - destruct (spec_op l o) as [l1|] eqn:Hs; [|contradiction]. destruct Hb as (Hlen & Hsz & Hb).
    destruct (step_full l l1 r al o B Hs Hl Hlen Hsz Hf Hwf) as (r1 & al1 & -> & Hwf1). simpl.
    apply (IH l1 r1 al1 B); auto.
Qed.

(* ---- no allocation within the reserved capacity: operations that only add / remove / overwrite elements ---- *)
Definition keeps_buffer (o : op V) : bool :=
  match o with OShrink _ _ | OAssign _ _ _ | OAssignRange _ _ | OClear _ _ | OInsertInput _ _ _ | OCopyRound _ | OMoveRound _ => false
  | _ => true end.

Lemma step_no_alloc (l l' : list O) r al (o : op V) B :
  spec_op l o = Some l' -> keeps_buffer o = true -> length l <= B -> length l' <= B -> op_size o <= B -> fits (B + 1) ->
  B <= length l + r ->
  exists r', run_op (mkArray (arr_ofo l r) al) o = Ok (mkArray (arr_ofo l' r') al) /\ length l' + r' = length l + r.
Proof.
  intros Hs Hk HlB HB Hsz HfB Hcap.
  assert (Hfit : forall n, n <= B + 1 -> fits n) by (intros n Hn; apply (fits_le n (B + 1)); auto).
  destruct o; simpl in Hs, Hk; try discriminate; simpl run_op.
  - destruct (ain l x) eqn:Hx; inversion Hs; subst l'. apply ain_arg_in in Hx. rewrite app_length in *; simpl in *.
    destruct (array_add_back_refines l r al x Hx (Hfit (length l + 1) ltac:(lia))) as (r' & -> & Hr & Hc).
    destruct (Nat.eqb_spec r 0); [lia|]. eexists; split; [reflexivity|]. rewrite ?app_length; simpl. rewrite Hr by lia. lia.
  - destruct (ain l x) eqn:Hx; simpl in Hs; [|discriminate]. apply ain_arg_in in Hx.
    destruct (is_val x || nothrowMove || nothrowReloc) eqn:Hfl; inversion Hs; subst l'.
    rewrite app_length, length_moved_out in *; simpl in *.
    destruct (array_add_back_rvalue_refines l r al x Hx (Hfit (length l + 1) ltac:(lia))) as (r' & He & Hr & Hc).
    destruct (Nat.ltb_spec 0 r); [|lia]. cbn [orb] in He. destruct (Nat.eqb_spec r 0); [lia|].
    rewrite He. eexists; split; [reflexivity|]. rewrite ?app_length, ?length_moved_out; simpl. rewrite Hr by lia. lia.
  - destruct (Nat.leb_spec index (length l)); simpl in Hs; [|discriminate].
    destruct (ain l x) eqn:Hx; inversion Hs; subst l'. apply ain_arg_in in Hx.
    rewrite length_spec, repeat_length in * by auto.
    destruct (array_insert_refines l r al index count x H Hx (Hfit (length l + count) ltac:(lia))) as (r' & -> & Hr & Hc).
    destruct (Nat.ltb_spec r count); [lia|]. eexists; split; [reflexivity|].
    rewrite ?length_spec, ?repeat_length by auto. rewrite Hr by lia. lia.
  - destruct (Nat.leb_spec index (length l)); simpl in Hs; [|discriminate].
    destruct (ain l x) eqn:Hx; inversion Hs; subst l'. apply ain_arg_in in Hx.
    simpl in HB. rewrite length_ins1 in HB by (rewrite length_moved_out; auto). rewrite length_moved_out in HB.
    destruct (array_insert_rvalue_refines l r al index x H Hx (Hfit (length l + 1) ltac:(lia))) as (r' & -> & Hr & Hc).
    destruct (Nat.eqb_spec r 0); [lia|]. eexists; split; [reflexivity|].
    simpl. rewrite length_ins1 by (rewrite length_moved_out; auto). rewrite length_moved_out. rewrite Hr by lia. lia.
  - destruct (Nat.leb_spec index (length l)); inversion Hs; subst l'.
    rewrite length_spec, map_length in * by auto.
    destruct (array_insert_range_refines l r al index vs H (Hfit (length l + length vs) ltac:(lia))) as (r' & -> & Hr & Hc).
    destruct (Nat.ltb_spec r (length vs)); [lia|]. eexists; split; [reflexivity|].
    rewrite ?length_spec, ?map_length by auto. rewrite Hr by lia. lia.
  - destruct (Nat.leb_spec (index + count) (length l)); inversion Hs; subst l'.
    rewrite array_remove_refines by auto. eexists; split; [reflexivity|].
    rewrite app_length, firstn_length, skipn_length. lia.
  - inversion Hs; subst l'. rewrite array_remove_filter_refines.
    eexists; split; [reflexivity|]. pose proof (filter_len_le (keep V p) l). lia.
  - destruct (ain l x) eqn:Hx; inversion Hs; subst l'. apply ain_arg_in in Hx.
    rewrite app_length, firstn_length, repeat_length in HB.
    (* SetCount: re-derive the exact state *)
    unfold array_set_count. cbv zeta. simpl body. simpl allocs.
    replace (cnt (arr_ofo l r)) with (length l) by reflexivity. rewrite cap_arr_ofo.
    destruct (Nat.leb_spec n (length l)).
    + unfold with_body. rewrite remove_back_arr_ofo by lia.
      replace (length l - (length l - n)) with n by lia. replace (n - length l) with 0 by lia. simpl. rewrite app_nil_r.
      eexists; split; [reflexivity|]. rewrite firstn_length. lia.
    + rewrite firstn_all2 by lia. destruct (Nat.leb_spec n (length l + r)); [|lia].
      unfold with_body.
      rewrite (push_loop (fun b => read_arg V b x) (arg_val l x) (n - length l)); try lia.
      * simpl. eexists; split; [reflexivity|]. rewrite app_length, repeat_length. lia.
      * intros k' r'. apply read_arg_app; auto.
  - destruct (Nat.leb_spec n (length l)); inversion Hs; subst l'.
    rewrite array_remove_back_refines by auto. eexists; split; [reflexivity|]. rewrite firstn_length. lia.
  - inversion Hs; subst l'. simpl in Hsz.
    destruct (array_reserve_ok l r al n (Hfit (n) ltac:(lia))) as (r' & -> & _ & _ & Hr).
    destruct (Nat.ltb_spec (length l + r) n); [lia|]. rewrite Hr by lia. eexists; split; [reflexivity|]. lia.
  - destruct (Nat.ltb_spec i (length l)); inversion Hs; subst l'.
    rewrite array_set_refines by auto. eexists; split; [reflexivity|]. rewrite length_lset. lia.
Qed.

Fixpoint all_keep (os : list (op V)) : bool := match os with [] => true | o :: t => keeps_buffer o && all_keep t end.

Theorem history_no_alloc (os : list (op V)) : forall (l : list O) r al B,
  bounded l os B -> all_keep os = true -> length l <= B -> fits (B + 1) -> B <= length l + r ->
  exists l' r', spec_ops l os = Some l' /\
    run_ops (mkArray (arr_ofo l r) al) os = Ok (mkArray (arr_ofo l' r') al) /\ length l' + r' = length l + r.
Proof.
  induction os as [|o t IH]; intros l r al B Hb Hk Hl Hf Hcap; simpl in *.
  - exists l, r. auto.
  - destruct (spec_op l o) as [l1|] eqn:Hs; [|contradiction]. destruct Hb as (Hlen & Hsz & Hb).
    apply andb_prop in Hk. destruct Hk as (Hk1 & Hk2).
    destruct (step_no_alloc l l1 r al o B Hs Hk1 Hl Hlen Hsz Hf Hcap) as (r1 & -> & Hc1). simpl.
    destruct (IH l1 r1 al B Hb Hk2 Hlen Hf ltac:(lia)) as (l' & r' & H1 & H2 & H3).
    exists l', r'. repeat split; auto. lia.
Qed.

(* after Reserve(n): any history of element-level operations (AddBack / AddBack&& / Insert / Insert&& / Insert range /
   Remove / Remove(filter) / SetCount / RemoveBack / Reserve(<= n) / a[i] = v, arguments aliasing any element, empty
   ranges) whose lengths stay <= n performs NO allocation *)
Theorem reserve_then_grow_no_alloc (l : list O) r al n (os : list (op V)) :
  fits (n + 1) -> length l <= n -> bounded l os n -> all_keep os = true ->
  exists r1 al1 l' r',
    array_reserve V growOnReserve (mkArray (arr_ofo l r) al) n = Ok (mkArray (arr_ofo l r1) al1) /\
    n <= length l + r1 /\
    spec_ops l os = Some l' /\
    run_ops (mkArray (arr_ofo l r1) al1) os = Ok (mkArray (arr_ofo l' r') al1) /\
    length l' + r' = length l + r1.
Proof.
  intros Hf Hl Hb Hk.
  destruct (array_reserve_ok l r al n (fits_le n (n + 1) ltac:(lia) Hf)) as (r1 & Hres & Hn & _ & _).
  destruct (history_no_alloc os l r1 (if length l + r <? n then S al else al) n Hb Hk Hl Hf Hn) as (l' & r' & H1 & H2 & H3).
  eexists r1, _, l', r'. split; [exact Hres|]. repeat split; auto.
Qed.
End AP.

(* non-vacuity: a history over the full alphabet, with aliased lvalue and rvalue arguments, empty ranges, filters *)
Example bounded_example :
  let os := [OAddBack nat (ArgRef 0); OInsert nat 1 2 (ArgRef 3); ORemove nat 0 0; OInsert nat 2 0 (ArgRef 1);
             OReserve nat 9; OInsertRange nat 6 [7;8]; OInsertR nat 0 (ArgRef 2); OSet nat 3 5; OAddBackR nat (ArgVal 9);
             ORemoveFilter nat (fun v => v =? 1); OSetCount nat 6 (ArgRef 0); OShrink nat 0; ORemoveBack nat 2;
             OInsertInput nat 1 [4;4]; OAssign nat 3 (ArgRef 1); OClear nat true] in
  bounded nat (fun _ => None) true true (map Some [1;2;3]) os 12 /\
  all_keep nat (firstn 11 os) = true /\
  spec_ops nat (fun _ => None) true true (map Some [1;2;3]) (firstn 14 os) = Some (map Some [5;4;4;2;3;7]).
Proof. vm_compute. repeat split; auto; lia. Qed.
