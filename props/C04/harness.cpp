// C04 oracle / search stage on the REAL containers (independent of the Coq model).
// One case per input line:   <config> <cat N|C|T> <mode q|t> <seed> <nops>
// The harness generates a random history of operations that the documentation calls strongly exception-safe, and for
// every operation instance enumerates failure points (k-th allocation / k-th element copy or throwing move / k-th
// functor call) by deterministic replay of the prefix on a fresh container.  After the exception:
//   contents, order and count == pre-state; number of live element objects == before; kit reports no protocol error;
//   a usability probe (insert/find/remove/clear) passes; destruction leaves no block and no object behind;
//   a failed copy constructor leaves nothing allocated and nothing constructed.
// Output line:  "ok ops=.. points=.. thrown=.. nontrivial=.. swallowed=.. reschg=.."   or   "VIOL <what> @op=<i> <opdesc> kind=<a|c|f> k=<k>"
// Compile with -DPART=n (1 arrays, 2 HashSet, 3 HashMap LimP4, 4 TreeSet, 5 TreeMap node 4, 6 HashMap Open8, 7 TreeMap node 32,
// 8 HashMultiMap, 9 HashSet over the real BucketOpenN1<1|3|7> / BucketOpen8) to keep TUs small.
#include "private_access.h"
#include "kit.h"
#include <csignal>
#include <unistd.h>
#include "momo/Array.h"
#include "momo/SegmentedArray.h"
#include "momo/HashSet.h"
#include "momo/HashMap.h"
#include "momo/HashMultiMap.h"
#include "momo/TreeSet.h"
#include "momo/TreeMap.h"
#include "momo/details/HashBucketLimP4.h"
#include "momo/details/HashBucketOpen8.h"
#include "momo/details/HashBucketOpenN1.h"
#include "momo/details/HashBucketLimP.h"

#ifndef PART
#define PART 0
#endif

using kit::W;
typedef kit::MM MM;

// a really-moving type with a throwing move constructor that is NOT nothrow relocatable (see micro.cpp / NOTES.md)
namespace momo {
template<typename TMemManager>
class ObjectRelocator<kit::ElemThm, TMemManager>
{
public:
	typedef kit::ElemThm Object;
	typedef TMemManager MemManager;
	static const bool isTriviallyRelocatable = false;
	static const bool isNothrowRelocatable = false;
	static void Relocate(MemManager*, Object& srcObject, Object* dstObject)
	{
		::new(static_cast<void*>(dstObject)) Object(std::move(srcObject));
		srcObject.~Object();
	}
};
}

static char g_where[512] = "";
static void on_abort(int)
{	// a momo assertion (or std::terminate) fired: report it for the current case and leave; the driver restarts the rest
	const char* a = "VIOL abort (assertion failure / std::terminate)"; ssize_t r = write(1, a, strlen(a)); r = write(1, g_where, strlen(g_where)); r = write(1, "\n", 1); (void)r;
	_exit(3);
}

struct Rng
{
	uint64_t s;
	explicit Rng(uint64_t seed) : s(seed * 0x9E3779B97F4A7C15ull + 0x1234567ull) {}
	uint64_t next() { s += 0x9E3779B97F4A7C15ull; uint64_t z = s; z = (z ^ (z >> 30)) * 0xBF58476D1CE4E5B9ull; z = (z ^ (z >> 27)) * 0x94D049BB133111EBull; return z ^ (z >> 31); }
	uint64_t below(uint64_t n) { return n ? next() % n : 0; }
};

struct Op { int kind; int64_t a, b; };
typedef std::vector<int64_t> Snap;

static std::string opstr(const Op& o) { return "op(" + std::to_string(o.kind) + "," + std::to_string(o.a) + "," + std::to_string(o.b) + ")"; }

// ---------------------------------------------------------------------------------------------- adapters
// Every adapter: struct St { ... containers ... }; static St* make(); gen; apply; snap; probe; relaxed
enum { K_ADD_C = 0, K_ADD_M, K_REMOVE, K_EXTRACT, K_RESERVE, K_SHRINK, K_SETCOUNT, K_SETCOUNT_V, K_COPY_CTOR, K_ASSIGN_AUX,
	K_AUX_ADD, K_CLEAR, K_BRACKET, K_REMOVE_KEY, K_ADD_VAR, K_REINSERT, K_CTOR_FILL, K_CTOR_RANGE, K_CTOR_ILIST, K_ADD_POS, K_REMOVE_ITER, K_ADD_ITER,
	K_REMOVE_VALUES, K_NKINDS };
static int g_dist = kit::LOWBITS;     // hash distribution of the current case (chosen from the seed)

template<typename E, size_t IntCap, typename TMM = MM>
struct ArrayAd
{
	typedef momo::Array<E, TMM, momo::ArrayItemTraits<E, TMM>, momo::ArraySettings<IntCap>> Cont;
	static_assert(Cont::internalCapacity == IntCap, "internal capacity");
	struct St { Cont c, aux; St() : c(TMM(1)), aux(TMM(1)) {} };
	static Op gen(Rng& r, const St& s)
	{
		static const int kinds[] = { K_ADD_C, K_ADD_C, K_ADD_C, K_ADD_M, K_ADD_M, K_ADD_VAR, K_REMOVE, K_RESERVE, K_SHRINK, K_SETCOUNT, K_SETCOUNT_V,
			K_COPY_CTOR, K_ASSIGN_AUX, K_AUX_ADD, K_AUX_ADD, K_CTOR_FILL, K_CTOR_RANGE };
		Op o; o.kind = kinds[r.below(sizeof(kinds) / sizeof(int))]; o.a = int64_t(r.below(40)); o.b = int64_t(r.below(3));
		if (o.kind == K_RESERVE) o.a = int64_t(s.c.GetCount() + r.below(12));
		if (o.kind == K_SETCOUNT || o.kind == K_SETCOUNT_V) o.a = int64_t(r.below(2) ? s.c.GetCount() + r.below(9) : r.below(s.c.GetCount() + 1));
		// growth bands of ArraySettings::GrowCapacity (<= 2, <= 64 doubling, < 150 linear, then * 1.46): cross 64 and 150 now and then
		if ((o.kind == K_SETCOUNT_V || o.kind == K_RESERVE) && r.below(6) == 0) { static const int big[] = { 63, 64, 65, 149, 150, 151, 230 }; o.a = big[r.below(7)]; }
		if (o.kind == K_CTOR_FILL || o.kind == K_CTOR_RANGE) o.a = int64_t(r.below(7));
		return o;
	}
	static void apply(St& s, const Op& o)
	{
		switch (o.kind)
		{
		case K_ADD_C: { E x(o.a); s.c.AddBack(static_cast<const E&>(x)); break; }
		case K_ADD_M: { E x(o.a); s.c.AddBack(std::move(x)); break; }
		case K_ADD_VAR: { E x(o.a); s.c.AddBackVar(static_cast<const E&>(x)); break; }
		case K_REMOVE: if (s.c.GetCount() > 0) s.c.RemoveBack(); break;
		case K_RESERVE: s.c.Reserve(size_t(o.a)); break;
		case K_CTOR_FILL: { E x(o.b + 50); Cont t(size_t(o.a), static_cast<const E&>(x), TMM(1)); (void)t; break; }        // Array(count, item): a failed constructor leaves nothing
		case K_CTOR_RANGE: { Cont t(s.c.GetItems(), s.c.GetItems() + std::min(s.c.GetCount(), size_t(o.a)), TMM(1)); (void)t; break; }
		case K_SHRINK: s.c.Shrink(); break;
		case K_SETCOUNT: s.c.SetCount(size_t(o.a)); break;
		case K_SETCOUNT_V: { E x(o.b + 50); s.c.SetCount(size_t(o.a), x); break; }
		case K_COPY_CTOR: { Cont t(s.c); (void)t; break; }
		case K_ASSIGN_AUX: assign(s, std::integral_constant<bool, IntCap == 0>()); break;
		case K_AUX_ADD: { E x(o.a + 100); s.aux.AddBack(static_cast<const E&>(x)); break; }
		default: break;
		}
	}
	static void assign(St& s, std::true_type) { s.c = s.aux; }
	static void assign(St& s, std::false_type) { s.c.Shrink(size_t(3)); }   // Array with internal capacity: assignment needs nothrow-relocatable items
	static void snap1(const Cont& c, Snap& v) { v.push_back(int64_t(c.GetCount())); for (const E& e : c) v.push_back(e.Value()); }
	static void snap(const St& s, Snap& v) { snap1(s.c, v); v.push_back(-7); snap1(s.aux, v); }
	static bool relaxed(const Op&) { return false; }
	static size_t fill() { return 0; }
	static bool unordered(const Op&) { return false; }
	static bool check_after(St&, const Op&, const Snap&, std::string&) { return true; }
	static bool probe(St& s, std::string& why)
	{
		size_t n = s.c.GetCount();
		{ E x(9999); s.c.AddBack(static_cast<const E&>(x)); }
		if (s.c.GetCount() != n + 1 || s.c[n].Value() != 9999) { why = "probe: AddBack not visible"; return false; }
		for (int i = 0; i < 5; ++i) { E x(9000 + i); s.c.AddBack(std::move(x)); }
		s.c.RemoveBack(6);
		if (s.c.GetCount() != n) { why = "probe: count after RemoveBack"; return false; }
		s.c.Clear(true); s.aux.Clear(false);
		if (s.c.GetCount() != 0 || s.aux.GetCount() != 0) { why = "probe: Clear"; return false; }
		return true;
	}
};

template<typename E>
struct SegAd
{
	typedef momo::SegmentedArray<E, MM> Cont;
	struct St { Cont c, aux; St() : c(MM(1)), aux(MM(1)) {} };
	static Op gen(Rng& r, const St& s)
	{
		static const int kinds[] = { K_ADD_C, K_ADD_C, K_ADD_C, K_ADD_M, K_ADD_M, K_ADD_VAR, K_REMOVE, K_RESERVE, K_SETCOUNT, K_SETCOUNT_V,
			K_COPY_CTOR, K_ASSIGN_AUX, K_AUX_ADD, K_AUX_ADD };
		Op o; o.kind = kinds[r.below(sizeof(kinds) / sizeof(int))]; o.a = int64_t(r.below(40)); o.b = int64_t(r.below(3));
		if (o.kind == K_RESERVE) o.a = int64_t(s.c.GetCount() + r.below(80));
		if (o.kind == K_SETCOUNT || o.kind == K_SETCOUNT_V) o.a = int64_t(r.below(2) ? s.c.GetCount() + r.below(40) : r.below(s.c.GetCount() + 1));
		return o;
	}
	static void apply(St& s, const Op& o)
	{
		switch (o.kind)
		{
		case K_ADD_C: { E x(o.a); s.c.AddBack(static_cast<const E&>(x)); break; }
		case K_ADD_M: { E x(o.a); s.c.AddBack(std::move(x)); break; }
		case K_ADD_VAR: { E x(o.a); s.c.AddBackVar(static_cast<const E&>(x)); break; }
		case K_REMOVE: if (s.c.GetCount() > 0) s.c.RemoveBack(); break;
		case K_RESERVE: s.c.Reserve(size_t(o.a)); break;
		case K_SETCOUNT: s.c.SetCount(size_t(o.a)); break;
		case K_SETCOUNT_V: { E x(o.b + 50); s.c.SetCount(size_t(o.a), x); break; }
		case K_COPY_CTOR: { Cont t(s.c); (void)t; break; }
		case K_ASSIGN_AUX: s.c = s.aux; break;
		case K_AUX_ADD: { E x(o.a + 100); s.aux.AddBack(static_cast<const E&>(x)); break; }
		default: break;
		}
	}
	static void snap1(const Cont& c, Snap& v) { v.push_back(int64_t(c.GetCount())); for (size_t i = 0; i < c.GetCount(); ++i) v.push_back(c[i].Value()); }
	static void snap(const St& s, Snap& v) { snap1(s.c, v); v.push_back(-7); snap1(s.aux, v); }
	static bool relaxed(const Op&) { return false; }
	static size_t fill() { return 0; }
	static bool unordered(const Op&) { return false; }
	static bool check_after(St&, const Op&, const Snap&, std::string&) { return true; }
	static bool probe(St& s, std::string& why)
	{
		size_t n = s.c.GetCount();
		{ E x(9999); s.c.AddBack(static_cast<const E&>(x)); }
		if (s.c.GetCount() != n + 1 || s.c[n].Value() != 9999) { why = "probe: AddBack not visible"; return false; }
		for (int i = 0; i < 5; ++i) { E x(9000 + i); s.c.AddBack(std::move(x)); }
		s.c.RemoveBack(6);
		if (s.c.GetCount() != n) { why = "probe: count after RemoveBack"; return false; }
		s.c.Clear(true); s.aux.Clear(false);
		if (s.c.GetCount() != 0 || s.aux.GetCount() != 0) { why = "probe: Clear"; return false; }
		return true;
	}
};

// sets (HashSet / TreeSet share the interface used here)
template<typename E, typename Cont_, typename Maker>
struct SetAd
{
	typedef Cont_ Cont;
	struct St { Cont c, aux; St() : c(Maker::make()), aux(Maker::make()) {} };
	static Op gen(Rng& r, const St&)
	{
		static const int kinds[] = { K_ADD_C, K_ADD_C, K_ADD_C, K_ADD_C, K_ADD_M, K_ADD_M, K_ADD_M, K_REMOVE, K_REMOVE, K_EXTRACT, K_REINSERT, K_REINSERT, K_RESERVE,
			K_COPY_CTOR, K_ASSIGN_AUX, K_AUX_ADD, K_AUX_ADD, K_CTOR_ILIST, K_ADD_POS, K_ADD_POS, K_REMOVE_ITER };
		Op o; o.kind = kinds[r.below(sizeof(kinds) / sizeof(int))]; o.a = int64_t(r.below(Maker::keyRange)); o.b = 0;
		return o;
	}
	static void apply(St& s, const Op& o)
	{
		switch (o.kind)
		{
		case K_ADD_C: { E x(o.a); s.c.Insert(static_cast<const E&>(x)); break; }
		case K_ADD_M: { E x(o.a); s.c.Insert(std::move(x)); break; }
		case K_REMOVE: { E x(o.a); s.c.Remove(static_cast<const E&>(x)); break; }
		case K_EXTRACT: { E x(o.a); auto p = s.c.Find(static_cast<const E&>(x)); if (Maker::found(s.c, p)) { auto ext = s.c.Extract(p); (void)ext; } break; }
		case K_CTOR_ILIST: { E a(o.a), b(o.a + 1), c(o.a + 2); Cont t = Maker::make_ilist({ a, b, c, a }); (void)t; break; }   // initializer_list constructor (delegating, 806b9fe)
		case K_ADD_POS: { E x(o.a); Maker::add_pos(s.c, static_cast<const E&>(x)); break; }   // Add(position, item): hash: the position returned by Find; tree: the upper bound
		case K_REMOVE_ITER: { E x(o.a); auto p = s.c.Find(static_cast<const E&>(x)); if (Maker::found(s.c, p)) s.c.Remove(p); break; }
		case K_REINSERT:   // extract into a handle and insert the handle back: if Insert(ExtractedItem&&) throws, the handle must still own the item
		{
			E x(o.a); auto p = s.c.Find(static_cast<const E&>(x));
			if (Maker::found(s.c, p))
			{
				auto ext = s.c.Extract(p);
				try { s.c.Insert(std::move(ext)); }
				catch (...) { if (!ext.IsEmpty()) s.c.Insert(std::move(ext)); throw; }     // (the injection is one-shot: the retry cannot fail)
			}
			break;
		}
		case K_RESERVE: Maker::reserve(s.c, size_t(o.a) * 3); break;
		case K_COPY_CTOR: { Cont t(s.c); (void)t; break; }
		case K_ASSIGN_AUX: s.c = s.aux; break;
		case K_AUX_ADD: { E x(o.a + 100); s.aux.Insert(static_cast<const E&>(x)); break; }
		default: break;
		}
	}
	static void snap1(const Cont& c, Snap& v) { v.push_back(int64_t(c.GetCount())); for (const E& e : c) v.push_back(e.Value()); }
	static void snap(const St& s, Snap& v) { snap1(s.c, v); v.push_back(-7); snap1(s.aux, v); }
	static bool relaxed(const Op&) { return false; }
	static size_t fill() { return Maker::fill; }
	static bool unordered(const Op& o) { return o.kind == K_REINSERT; }
	// after a failed insertion of key x: traversal visits exactly GetCount() items, x is findable iff it was there before,
	// and retrying the same insertion without a failure inserts it (or reports it present) consistently
	static bool check_after(St& s, const Op& o, const Snap& pre, std::string& why)
	{
		size_t visited = 0; for (const E& e : s.c) { (void)e; ++visited; }
		if (visited != s.c.GetCount()) { why = "traversal visits " + std::to_string(visited) + " items, GetCount() = " + std::to_string(s.c.GetCount()); return false; }
		if (o.kind != K_ADD_C && o.kind != K_ADD_M && o.kind != K_ADD_POS) return true;
		bool was = false; for (size_t i = 1; i < size_t(pre[0]) + 1 && i < pre.size(); ++i) if (pre[i] == o.a) was = true;
		E x(o.a);
		if (s.c.ContainsKey(static_cast<const E&>(x)) != was) { why = std::string("the key of the failed insertion is ") + (was ? "lost" : "found although it was never inserted"); return false; }
		bool ins = s.c.Insert(static_cast<const E&>(x)).inserted;
		if (ins == was) { why = std::string("retrying the failed insertion reports ") + (ins ? "inserted for a present key" : "already present"); return false; }
		if (s.c.GetCount() != size_t(pre[0]) + (was ? 0 : 1) || !s.c.ContainsKey(static_cast<const E&>(x))) { why = "retry did not insert the key"; return false; }
		return true;
	}
	static bool probe(St& s, std::string& why)
	{
		Snap before; snap1(s.c, before);
		size_t n = s.c.GetCount();
		// keep USING the container after the failure: enough insertions to allocate several more pool blocks / nodes / a bigger table
		// (a failure that left an allocator, pool or bucket half-updated shows up only on later allocations)
		const int M = 40;
		for (int i = 0; i < M; ++i) { E x(9000 + i); if (!s.c.Insert(static_cast<const E&>(x)).inserted) { why = "probe: insert refused"; return false; } }
		if (s.c.GetCount() != n + M) { why = "probe: count after insert"; return false; }
		{ size_t visited = 0; for (const E& e : s.c) { (void)e; ++visited; } if (visited != n + M) { why = "probe: traversal after insert"; return false; } }
		for (size_t i = 1; i < before.size(); ++i) { E x(before[i]); if (!s.c.ContainsKey(static_cast<const E&>(x))) { why = "probe: old key lost"; return false; } }
		for (int i = 0; i < M; ++i) { E x(9000 + i); if (!s.c.ContainsKey(static_cast<const E&>(x))) { why = "probe: new key lost"; return false; } }
		for (int i = 0; i < M; ++i) { E x(9000 + i); if (!s.c.Remove(static_cast<const E&>(x))) { why = "probe: remove failed"; return false; } }
		Snap after; snap1(s.c, after);
		{ Snap a = before, b = after; std::sort(a.begin() + 1, a.end()); std::sort(b.begin() + 1, b.end()); if (a != b) { why = "probe: contents differ after insert/remove"; return false; } }
		s.c.Clear(); s.aux.Clear();
		if (s.c.GetCount() != 0 || s.c.GetBegin() != s.c.GetEnd()) { why = "probe: Clear"; return false; }
		return true;
	}
};

// maps (HashMap / TreeMap)
template<typename K, typename V, typename Cont_, typename Maker>
struct MapAd
{
	typedef Cont_ Cont;
	struct St { Cont c, aux; St() : c(Maker::make()), aux(Maker::make()) {} };
	static Op gen(Rng& r, const St&)
	{
		static const int kinds[] = { K_ADD_C, K_ADD_C, K_ADD_C, K_ADD_M, K_ADD_M, K_ADD_M, K_BRACKET, K_BRACKET, K_ADD_VAR, K_REMOVE, K_REMOVE, K_EXTRACT, K_REINSERT,
			K_RESERVE, K_COPY_CTOR, K_ASSIGN_AUX, K_AUX_ADD, K_AUX_ADD };
		Op o; o.kind = kinds[r.below(sizeof(kinds) / sizeof(int))]; o.a = int64_t(r.below(Maker::keyRange)); o.b = int64_t(r.below(1000));
		return o;
	}
	static void apply(St& s, const Op& o)
	{
		switch (o.kind)
		{
		case K_ADD_C: { K k(o.a); V v(o.b); s.c.Insert(static_cast<const K&>(k), static_cast<const V&>(v)); break; }
		case K_ADD_M: { K k(o.a); V v(o.b); s.c.Insert(std::move(k), std::move(v)); break; }
		case K_ADD_VAR: { K k(o.a); V v(o.b); s.c.InsertVar(static_cast<const K&>(k), static_cast<const V&>(v)); break; }
		case K_BRACKET: { K k(o.a); if (o.b & 1) (void)s.c[static_cast<const K&>(k)]; else (void)s.c[std::move(k)]; break; }   // subscript insertion of a value-initialised value
		case K_REMOVE: { K k(o.a); s.c.Remove(static_cast<const K&>(k)); break; }
		case K_EXTRACT: { K k(o.a); auto p = s.c.Find(static_cast<const K&>(k)); if (Maker::found(s.c, p)) { auto ext = s.c.Extract(p); (void)ext; } break; }
		case K_REINSERT:
		{
			K k(o.a); auto p = s.c.Find(static_cast<const K&>(k));
			if (Maker::found(s.c, p))
			{
				auto ext = s.c.Extract(p);
				try { s.c.Insert(std::move(ext)); }
				catch (...) { if (!ext.IsEmpty()) s.c.Insert(std::move(ext)); throw; }
			}
			break;
		}
		case K_RESERVE: Maker::reserve(s.c, size_t(o.a) * 3); break;
		case K_COPY_CTOR: { Cont t(s.c); (void)t; break; }
		case K_ASSIGN_AUX: s.c = s.aux; break;
		case K_AUX_ADD: { K k(o.a + 100); V v(o.b); s.aux.Insert(static_cast<const K&>(k), static_cast<const V&>(v)); break; }
		default: break;
		}
	}
	static void snap1(const Cont& c, Snap& v) { v.push_back(int64_t(c.GetCount())); for (auto ref : c) { v.push_back(ref.key.Value()); v.push_back(ref.value.Value()); } }
	static void snap(const St& s, Snap& v) { snap1(s.c, v); v.push_back(-7); snap1(s.aux, v); }
	// documented exception 5 (HashMap.h:351-355, TreeMap.h:226-230): Remove may change the removed value when neither key nor
	// value is nothrow-anyway-assignable; also the value assignment of operator[] on an EXISTING key is an element assignment
	static bool relaxed(const Op& o)
	{
		typedef momo::internal::ObjectManager<K, MM> KM; typedef momo::internal::ObjectManager<V, MM> VM;
		return (o.kind == K_REMOVE || o.kind == K_EXTRACT || o.kind == K_REINSERT) && !KM::isNothrowAnywayAssignable && !VM::isNothrowAnywayAssignable;
	}
	static size_t fill() { return Maker::fill; }
	static bool unordered(const Op& o) { return o.kind == K_REINSERT; }
	static bool check_after(St& s, const Op& o, const Snap& pre, std::string& why)
	{
		size_t visited = 0; for (auto ref : s.c) { (void)ref; ++visited; }
		if (visited != s.c.GetCount()) { why = "traversal visits " + std::to_string(visited) + " pairs, GetCount() = " + std::to_string(s.c.GetCount()); return false; }
		if (o.kind != K_ADD_C && o.kind != K_ADD_M && o.kind != K_ADD_VAR && o.kind != K_BRACKET) return true;
		bool was = false; for (size_t i = 1; i + 1 < 2 * size_t(pre[0]) + 1 && i < pre.size(); i += 2) if (pre[i] == o.a) was = true;
		K k(o.a);
		if (s.c.ContainsKey(static_cast<const K&>(k)) != was) { why = std::string("the key of the failed insertion is ") + (was ? "lost" : "found although it was never inserted"); return false; }
		return true;
	}
	static bool probe(St& s, std::string& why)
	{
		size_t n = s.c.GetCount();
		const int M = 40;   // keep using the container after the failure (see SetAd::probe)
		for (int i = 0; i < M; ++i) { K k(9000 + i); V v(i); if (!s.c.Insert(static_cast<const K&>(k), static_cast<const V&>(v)).inserted) { why = "probe: insert refused"; return false; } }
		if (s.c.GetCount() != n + M) { why = "probe: count after insert"; return false; }
		for (int i = 0; i < M; ++i) { K k(9000 + i); auto p = s.c.Find(static_cast<const K&>(k)); if (!Maker::found(s.c, p) || p->value.Value() != i) { why = "probe: find"; return false; } }
		for (int i = 0; i < M; ++i) { K k(9000 + i); if (!s.c.Remove(static_cast<const K&>(k))) { why = "probe: remove failed"; return false; } }
		if (s.c.GetCount() != n) { why = "probe: count after remove"; return false; }
		s.c.Clear(); s.aux.Clear();
		if (s.c.GetCount() != 0) { why = "probe: Clear"; return false; }
		return true;
	}
};

template<typename K, typename V, typename Cont_, typename Maker>
struct MultiMapAd
{
	typedef Cont_ Cont;
	struct St { Cont c, aux; St() : c(Maker::make()), aux(Maker::make()) {} };
	static Op gen(Rng& r, const St&)
	{
		static const int kinds[] = { K_ADD_C, K_ADD_C, K_ADD_C, K_ADD_M, K_ADD_M, K_ADD_M, K_ADD_VAR, K_REMOVE, K_REMOVE, K_REMOVE_KEY,
			K_COPY_CTOR, K_ASSIGN_AUX, K_AUX_ADD, K_AUX_ADD, K_ADD_ITER, K_ADD_ITER, K_ADD_ITER, K_REMOVE_VALUES };
		Op o; o.kind = kinds[r.below(sizeof(kinds) / sizeof(int))]; o.a = int64_t(r.below(Maker::keyRange)); o.b = int64_t(r.below(1000));
		return o;
	}
	static void apply(St& s, const Op& o)
	{
		switch (o.kind)
		{
		case K_ADD_C: { K k(o.a); V v(o.b); s.c.Add(static_cast<const K&>(k), static_cast<const V&>(v)); break; }
		case K_ADD_M: { K k(o.a); V v(o.b); s.c.Add(std::move(k), std::move(v)); break; }
		case K_ADD_VAR: { K k(o.a); V v(o.b); s.c.AddVar(static_cast<const K&>(k), static_cast<const V&>(v)); break; }
		case K_REMOVE: { K k(o.a); auto ki = s.c.Find(static_cast<const K&>(k)); if (!!ki && ki->GetCount() > 0) s.c.Remove(ki, size_t(o.b) % ki->GetCount()); break; }
		case K_REMOVE_KEY: { K k(o.a); s.c.RemoveKey(static_cast<const K&>(k)); break; }
		case K_ADD_ITER: { K k(o.a); V v(o.b); auto ki = s.c.Find(static_cast<const K&>(k)); if (!!ki) s.c.Add(ki, static_cast<const V&>(v)); else s.c.Add(static_cast<const K&>(k), static_cast<const V&>(v)); break; }   // Add(keyIter, value)
		case K_REMOVE_VALUES: { K k(o.a); auto ki = s.c.Find(static_cast<const K&>(k)); if (!!ki) s.c.RemoveValues(ki); break; }
		case K_COPY_CTOR: { Cont t(s.c); (void)t; break; }
		case K_ASSIGN_AUX: s.c = s.aux; break;
		case K_AUX_ADD: { K k(o.a + 100); V v(o.b); s.aux.Add(static_cast<const K&>(k), static_cast<const V&>(v)); break; }
		default: break;
		}
	}
	static void snap1(const Cont& c, Snap& v)
	{
		v.push_back(int64_t(c.GetCount())); v.push_back(int64_t(c.GetKeyCount()));
		for (auto kref : c.GetKeyBounds()) { v.push_back(kref.key.Value()); v.push_back(int64_t(kref.GetCount())); for (const V& x : kref) v.push_back(x.Value()); }
	}
	static void snap(const St& s, Snap& v) { snap1(s.c, v); v.push_back(-7); snap1(s.aux, v); }
	static bool relaxed(const Op&) { return false; }
	static size_t fill() { return 0; }
	static bool unordered(const Op&) { return false; }
	static bool check_after(St&, const Op&, const Snap&, std::string&) { return true; }
	static bool probe(St& s, std::string& why)
	{
		size_t n = s.c.GetCount();
		const int M = 60;   // keep using the container after the failure: several keys with long value arrays (pools!) and many keys
		for (int i = 0; i < M; ++i) { K k(9000 + i / 6); V v(i); s.c.Add(static_cast<const K&>(k), static_cast<const V&>(v)); }
		if (s.c.GetCount() != n + M) { why = "probe: count after add"; return false; }
		for (int i = 0; i < M / 6; ++i) { K k(9000 + i); if (s.c.RemoveKey(static_cast<const K&>(k)) != 6) { why = "probe: RemoveKey"; return false; } }
		if (s.c.GetCount() != n) { why = "probe: count after remove"; return false; }
		s.c.Clear(); s.aux.Clear();
		if (s.c.GetCount() != 0) { why = "probe: Clear"; return false; }
		return true;
	}
};

// ---------------------------------------------------------------------------------------------- engine
struct Stats { uint64_t ops = 0, points = 0, thrown = 0, nontrivial = 0, swallowed = 0, reschg = 0, maxcount = 0, thrownk[3] = { 0, 0, 0 }, opk[K_NKINDS] = {}, thrown_opk[K_NKINDS] = {}; };

template<typename Ad>
static std::string run_history(uint64_t seed, size_t nops, bool complete, Stats& st)
{
	typedef typename Ad::St St;
	Rng rng(seed);
	// 1. generate the history on a scratch state (generation may look at the current container)
	std::vector<Op> ops;
	{
		St s;
		// "fill" histories (every other seed): start with enough distinct insertions to outgrow the initial table, so that the
		// growth of a table that already has buckets (HashSet::pvAddGrow, shared BucketParams) is among the enumerated operations
		size_t fill = (seed % 2 == 0) ? Ad::fill() : 0;
		for (size_t i = 0; i < nops; ++i)
		{
			Op o; if (i < fill) { o.kind = (i % 2) ? K_ADD_M : K_ADD_C; o.a = int64_t(i); o.b = int64_t(i * 13); } else o = Ad::gen(rng, s);
			ops.push_back(o); Ad::apply(s, o);
		}
		if (!W().errors.empty()) return "VIOL kit error in unfailed history: " + W().errors[0];
	}
	if (W().live_blocks() != 0 || W().live_objs() != 0) return "VIOL leak after unfailed history: " + kit::summary();
	for (size_t i = 0; i < nops; ++i)
	{
		// 2. dry run of op i to count its fallible steps of each kind
		uint64_t steps[3];
		{
			St s;
			for (size_t j = 0; j < i; ++j) Ad::apply(s, ops[j]);
			W().arm(-1, -1, -1);
			Ad::apply(s, ops[i]);
			steps[0] = W().steps_alloc; steps[1] = W().steps_copy; steps[2] = W().steps_func;
		}
		++st.ops; ++st.opk[ops[i].kind];
		if (steps[0] > 0 && steps[1] + steps[2] > 1) ++st.nontrivial;
		for (int kind = 0; kind < 3; ++kind)
		{
			std::vector<uint64_t> ks;
			// allocations are few per operation and each one guards a distinct roll-back path: always enumerate all of them
			if (complete || steps[kind] <= 4 || (kind == 0 && steps[kind] <= 24)) for (uint64_t k = 0; k < steps[kind]; ++k) ks.push_back(k);
			else { ks.push_back(0); ks.push_back(1); ks.push_back(steps[kind] - 1); ks.push_back(1 + rng.below(steps[kind] - 1)); ks.push_back(steps[kind] / 2); }
			std::sort(ks.begin(), ks.end()); ks.erase(std::unique(ks.begin(), ks.end()), ks.end());
			for (uint64_t k : ks)
			{
				std::string where = " @op=" + std::to_string(i) + " " + opstr(ops[i]) + " kind=" + "acf"[kind] + " k=" + std::to_string(k);
				++st.points;
				snprintf(g_where, sizeof(g_where), "%s", where.c_str());
				bool thrown = false; std::string viol;
				{
					St s;
					for (size_t j = 0; j < i; ++j) Ad::apply(s, ops[j]);
					Snap pre; Ad::snap(s, pre);
					size_t objs0 = W().live_objs(), blocks0 = W().live_blocks(); uint64_t bytes0 = W().bytes_live;
					W().arm(kind == 0 ? long(k) : -1, kind == 1 ? long(k) : -1, kind == 2 ? long(k) : -1);
					try { Ad::apply(s, ops[i]); }
					catch (const kit::InjectedAlloc&) { thrown = true; }
					catch (const kit::InjectedCopy&) { thrown = true; }
					catch (const kit::InjectedFunc&) { thrown = true; }
					catch (const std::bad_alloc&) { if (kind != 0) { W().disarm(); return "VIOL std::bad_alloc without an allocation failure" + where; } thrown = true; }   // HashSet::pvAddGrow rethrows a sliced copy
					catch (const std::exception& e) { W().disarm(); return std::string("VIOL unexpected exception type: ") + e.what() + where; }
					W().disarm();
					if (thrown)
					{
						++st.thrown; ++st.thrownk[kind]; ++st.thrown_opk[ops[i].kind];
						if (!pre.empty() && pre[0] > int64_t(st.maxcount)) st.maxcount = uint64_t(pre[0]);
						if (!W().errors.empty()) viol = "kit protocol error: " + W().errors[0];
						Snap post; Ad::snap(s, post);
						if (viol.empty() && !W().errors.empty()) viol = "kit protocol error while reading the container back: " + W().errors[0];
						if (Ad::unordered(ops[i])) { std::sort(pre.begin(), pre.end()); std::sort(post.begin(), post.end()); }
						if (viol.empty() && post != pre)
						{
							if (!(Ad::relaxed(ops[i]) && post.size() == pre.size() && post[0] == pre[0]))
								viol = "observable state changed (pre size " + std::to_string(pre.size()) + " count " + std::to_string(pre[0]) + ", post size " + std::to_string(post.size()) + " count " + std::to_string(post[0]) + ")";
						}
						if (viol.empty() && W().live_objs() != objs0) viol = "live element objects " + std::to_string(objs0) + " -> " + std::to_string(W().live_objs());
						if (W().live_blocks() != blocks0 || W().bytes_live != bytes0) ++st.reschg;
						if (viol.empty() && (ops[i].kind == K_COPY_CTOR || ops[i].kind == K_CTOR_FILL || ops[i].kind == K_CTOR_RANGE || ops[i].kind == K_CTOR_ILIST) && (W().live_blocks() != blocks0 || W().bytes_live != bytes0))
							viol = "failed constructor left memory allocated";
						std::string why;
						if (viol.empty() && !Ad::check_after(s, ops[i], pre, why)) viol = why;
						if (viol.empty() && !W().errors.empty()) viol = "kit protocol error during the after-failure checks: " + W().errors[0];
						if (viol.empty() && !Ad::probe(s, why)) viol = why;
						if (viol.empty() && !W().errors.empty()) viol = "kit protocol error during the probe: " + W().errors[0];
					}
					else ++st.swallowed;
				}
				if (viol.empty() && !W().errors.empty()) viol = "kit protocol error at destruction: " + W().errors[0];
				if (viol.empty() && (W().live_blocks() != 0 || W().live_objs() != 0)) viol = "leak after destruction: " + kit::summary();
				if (!viol.empty()) return "VIOL " + viol + where;
			}
		}
	}
	return "";
}

// ---------------------------------------------------------------------------------------------- configurations
// XC = true keeps momo's default extraCheckMode (assertion): the post-insertion self check pvExtraCheck calls the user
// functors again, swallows their exception and asserts (HashSet.h:1025-1036) -- reported as a finding, see NOTES.md.
template<bool XC> struct HMapSettings : momo::HashMapSettings { static const momo::ExtraCheckMode extraCheckMode = XC ? momo::ExtraCheckMode::bydefault : momo::ExtraCheckMode::nothing; };
template<bool XC> struct TMapSettings : momo::TreeMapSettings { static const momo::ExtraCheckMode extraCheckMode = XC ? momo::ExtraCheckMode::bydefault : momo::ExtraCheckMode::nothing; };
struct HMMapSettings : momo::HashMultiMapSettings { static const momo::ExtraCheckMode extraCheckMode = momo::ExtraCheckMode::nothing;
	typedef momo::MemPoolParams<4, 0> ValueArrayMemPoolParams; };   // 4 blocks per pool buffer, no cache: the pool's look-ahead buffer request is reached
template<typename E, typename Bucket, size_t EXPECT> struct HSetMaker
{
	typedef momo::HashTraitsStd<E, kit::Hash, kit::Eq, Bucket> Traits;
	typedef momo::HashSet<E, Traits, MM> Cont;
	static_assert(Cont::Bucket::maxCount == EXPECT, "unexpected bucket class selected");
	static const int keyRange = 48;
	static const size_t fill = 26;
	static Cont make() { return Cont(Traits(8, kit::Hash(g_dist)), MM(1)); }
	static Cont make_ilist(std::initializer_list<E> il) { return Cont(il, Traits(8, kit::Hash(g_dist)), MM(1)); }
	static void reserve(Cont& c, size_t n) { c.Reserve(n); }
	template<typename P> static bool found(const Cont&, const P& p) { return !!p; }
	static void add_pos(Cont& c, const E& x) { auto p = c.Find(x); if (!p) c.Add(p, x); }
};
template<typename E, typename Node> struct TSetMaker
{
	typedef momo::TreeTraitsStd<E, kit::Less, false, Node> Traits;
	typedef momo::TreeSet<E, Traits, MM> Cont;
	static const int keyRange = 64;
	// small nodes: every other history starts with 30 ascending insertions, enough for split cascades through two levels
	// (leaf + internal node + new root = 5 nodes built aside: the Relocator's inline node list of 4 overflows)
	static const size_t fill = (Node::maxCapacity <= 4) ? 30 : 0;
	static Cont make() { return Cont(Traits(), MM(1)); }
	static Cont make_ilist(std::initializer_list<E> il) { return Cont(il, Traits(), MM(1)); }
	static void reserve(Cont&, size_t) {}
	template<typename P> static bool found(const Cont& c, const P& p) { return p != c.GetEnd(); }
	static void add_pos(Cont& c, const E& x) { if (!c.ContainsKey(x)) c.Add(c.GetUpperBound(x), x); }
};
template<typename K, typename V, typename Bucket, bool XC = false> struct HMapMaker
{
	typedef momo::HashTraitsStd<K, kit::Hash, kit::Eq, Bucket> Traits;
	typedef momo::HashMap<K, V, Traits, MM, momo::HashMapKeyValueTraits<K, V, MM>, HMapSettings<XC>> Cont;
	static const int keyRange = 48;
	static const size_t fill = 26;
	static Cont make() { return Cont(Traits(8, kit::Hash(g_dist)), MM(1)); }
	static void reserve(Cont& c, size_t n) { c.Reserve(n); }
	template<typename P> static bool found(const Cont&, const P& p) { return !!p; }
};
template<typename K, typename V, typename Node, bool XC = false> struct TMapMaker
{
	typedef momo::TreeTraitsStd<K, kit::Less, false, Node> Traits;
	typedef momo::TreeMap<K, V, Traits, MM, momo::TreeMapKeyValueTraits<K, V, MM>, TMapSettings<XC>> Cont;
	static const int keyRange = 64;
	static const size_t fill = (Node::maxCapacity <= 4) ? 30 : 0;
	static Cont make() { return Cont(Traits(), MM(1)); }
	static void reserve(Cont&, size_t) {}
	template<typename P> static bool found(const Cont& c, const P& p) { return p != c.GetEnd(); }
};
template<typename K, typename V, int KR = 24> struct HMMapMaker
{
	typedef momo::HashTraitsStd<K, kit::Hash, kit::Eq> Traits;
	typedef momo::HashMultiMap<K, V, Traits, MM, momo::HashMultiMapKeyValueTraits<K, V, MM>, HMMapSettings> Cont;
	static const int keyRange = KR;
	static Cont make() { return Cont(Traits(8, kit::Hash(g_dist)), MM(1)); }
};


#if PART == 0 || PART == 9
// Really BucketOpenN1<k> / BucketOpen8: HashBucketOpen8 falls back to BucketOpen2N2 unless the key is "fast nothrow hashable", and
// HashTraitsStd with a custom functor never is; so: plain momo::HashTraits over HashCoder, both public customisation points.
namespace momo {
template<int C> struct IsFastNothrowHashable<kit::ElemT<C>> : public std::true_type {};
template<> struct IsFastNothrowHashable<kit::ElemCpo> : public std::true_type {};
template<int C> struct HashCoder<kit::ElemT<C>, size_t> { size_t operator()(const kit::ElemT<C>& k) const noexcept { return kit::spread(kit::LOWBITS, uint64_t(**reinterpret_cast<int64_t* const*>(&k))); } };
template<> struct HashCoder<kit::ElemCpo, size_t> { size_t operator()(const kit::ElemCpo& k) const noexcept { return kit::spread(kit::LOWBITS, uint64_t(**reinterpret_cast<int64_t* const*>(&k))); } };
}
template<typename E, typename Bucket, size_t expectMax> struct OSetMaker
{
	typedef momo::HashTraits<E, Bucket> Traits;
	typedef momo::HashSet<E, Traits, MM> Cont;
	static_assert(Cont::Bucket::maxCount == expectMax, "unexpected bucket type selected");
	static const int keyRange = 48;
	static const size_t fill = 26;
	static Cont make() { return Cont(Traits(), MM(1)); }
	static Cont make_ilist(std::initializer_list<E> il) { return Cont(il, Traits(), MM(1)); }
	static void reserve(Cont& c, size_t n) { c.Reserve(n); }
	template<typename P> static bool found(const Cont&, const P& p) { return !!p; }
	static void add_pos(Cont& c, const E& x) { auto p = c.Find(x); if (!p) c.Add(p, x); }
};
template<typename K, typename V, typename Bucket, size_t expectMax> struct OMapMaker
{
	typedef momo::HashTraits<K, Bucket> Traits;
	typedef momo::HashMap<K, V, Traits, MM, momo::HashMapKeyValueTraits<K, V, MM>, HMapSettings<false>> Cont;
	static_assert(Cont::HashSet::Bucket::maxCount == expectMax, "unexpected bucket type selected");
	static const int keyRange = 48;
	static const size_t fill = 26;
	static Cont make() { return Cont(Traits(), MM(1)); }
	static void reserve(Cont& c, size_t n) { c.Reserve(n); }
	template<typename P> static bool found(const Cont&, const P& p) { return !!p; }
};
#endif

// a STATELESS (empty) memory manager over the kit registry: together with checkVersion = false it selects the INLINE crew
// (SetCrew<..., false>: traits and manager stored inside the container, no crew block)
struct MM0
{
	explicit MM0(int = 0) noexcept {}
	MM0(MM0&&) noexcept {}
	MM0(const MM0&) noexcept {}
	MM0& operator=(const MM0&) = delete;
	void* Allocate(size_t size) { return kit::raw_allocate(1, size); }
	void Deallocate(void* ptr, size_t size) noexcept { kit::raw_deallocate(1, ptr, size); }
	bool IsEqual(const MM0&) const noexcept { return true; }
};
struct HSetSettingsNV : momo::HashSetSettings { static const bool checkVersion = false; };
struct TSetSettingsNV : momo::TreeSetSettings { static const bool checkVersion = false; };
template<typename E> struct HSetMakerNV
{
	typedef momo::HashTraitsStd<E, kit::Hash, kit::Eq, momo::HashBucketLimP4<>> Traits;
	typedef momo::HashSet<E, Traits, MM0, momo::HashSetItemTraits<E, MM0>, HSetSettingsNV> Cont;
	static_assert(std::is_same<typename Cont::Crew, momo::internal::SetCrew<Traits, MM0, false, false>>::value, "inline crew expected");
	static const int keyRange = 48;
	static const size_t fill = 26;
	static Cont make() { return Cont(Traits(8, kit::Hash(g_dist)), MM0()); }
	static Cont make_ilist(std::initializer_list<E> il) { return Cont(il, Traits(8, kit::Hash(g_dist)), MM0()); }
	static void reserve(Cont& c, size_t n) { c.Reserve(n); }
	template<typename P> static bool found(const Cont&, const P& p) { return !!p; }
	static void add_pos(Cont& c, const E& x) { auto p = c.Find(x); if (!p) c.Add(p, x); }
};
template<typename E> struct TSetMakerNV
{
	typedef momo::TreeTraitsStd<E, kit::Less, false, momo::TreeNode<4, 2, momo::MemPoolParams<2>>> Traits;
	typedef momo::TreeSet<E, Traits, MM0, momo::TreeSetItemTraits<E, MM0>, TSetSettingsNV> Cont;
	static_assert(std::is_same<typename Cont::Crew, momo::internal::SetCrew<Traits, MM0, false, false>>::value, "inline crew expected");
	static const int keyRange = 64;
	static const size_t fill = 30;
	static Cont make() { return Cont(Traits(), MM0()); }
	static Cont make_ilist(std::initializer_list<E> il) { return Cont(il, Traits(), MM0()); }
	static void reserve(Cont&, size_t) {}
	template<typename P> static bool found(const Cont& c, const P& p) { return p != c.GetEnd(); }
	static void add_pos(Cont& c, const E& x) { if (!c.ContainsKey(x)) c.Add(c.GetUpperBound(x), x); }
};

// the INTENDED classes are really instantiated
static_assert(momo::internal::ObjectManager<kit::ElemNtm, MM>::isNothrowRelocatable && momo::internal::ObjectManager<kit::ElemNtm, MM>::isNothrowMoveConstructible, "ElemNtm");
static_assert(!momo::internal::ObjectManager<kit::ElemCpo, MM>::isNothrowRelocatable && !momo::internal::ObjectManager<kit::ElemCpo, MM>::isNothrowAnywayAssignable, "ElemCpo must reach the copy-all paths");
static_assert(!momo::internal::ObjectManager<kit::ElemThm, MM>::isNothrowRelocatable && !momo::internal::ObjectManager<kit::ElemThm, MM>::isNothrowMoveConstructible, "ElemThm with the explicit relocator");
static_assert(momo::internal::ObjectManager<kit::ElemTriv, kit::MMR>::isTriviallyRelocatable, "ElemTriv");

template<typename Ad> static void go(uint64_t seed, size_t nops, bool complete)
{
	Stats st;
	std::string r = run_history<Ad>(seed, nops, complete, st);
	W().disarm();
	if (!r.empty()) { printf("%s\n", r.c_str()); W().errors.clear(); return; }
	printf("ok ops=%llu points=%llu thrown=%llu nontrivial=%llu swallowed=%llu reschg=%llu", (unsigned long long)st.ops, (unsigned long long)st.points,
		(unsigned long long)st.thrown, (unsigned long long)st.nontrivial, (unsigned long long)st.swallowed, (unsigned long long)st.reschg);
	// measured distribution: exceptions per failure kind, largest container size at a failure, hash distribution, per-operation counts
	printf(" fk=%llu/%llu/%llu maxcount=%llu dist=%d opk=", (unsigned long long)st.thrownk[0], (unsigned long long)st.thrownk[1], (unsigned long long)st.thrownk[2],
		(unsigned long long)st.maxcount, g_dist);
	for (int k = 0; k < K_NKINDS; ++k) if (st.opk[k]) printf("%d:%llu:%llu,", k, (unsigned long long)st.opk[k], (unsigned long long)st.thrown_opk[k]);
	printf("\n");
}

typedef momo::TreeNode<4, 2, momo::MemPoolParams<2>> Node4;
typedef momo::TreeNode<4, 1, momo::MemPoolParams<1>, false> Node4i;   // non-continuous (index permutation) small nodes
typedef momo::TreeNode<> Node32;

template<typename E> static bool dispatch(const std::string& cfg, uint64_t seed, size_t nops, bool complete)
{
#if PART == 0 || PART == 1
	if (cfg == "array") { go<ArrayAd<E, 0>>(seed, nops, complete); return true; }
	if (cfg == "segarray") { go<SegAd<E>>(seed, nops, complete); return true; }
#endif
#if PART == 0 || PART == 2
	if (cfg == "hset_limp4") { typedef HSetMaker<E, momo::HashBucketLimP4<>, 4> Mk; go<SetAd<E, typename Mk::Cont, Mk>>(seed, nops, complete); return true; }
	if (cfg == "hset_open8") { typedef HSetMaker<E, momo::HashBucketOpen8, 3> Mk;   /* slow hash => really BucketOpen2N2<3> */ go<SetAd<E, typename Mk::Cont, Mk>>(seed, nops, complete); return true; }
	if (cfg == "hset_limp4_nv") { typedef HSetMakerNV<E> Mk; go<SetAd<E, typename Mk::Cont, Mk>>(seed, nops, complete); return true; }
	if (cfg == "hset_limp4_p4") { typedef HSetMaker<E, momo::HashBucketLimP4<4, momo::MemPoolParams<4, 0>>, 4> Mk; go<SetAd<E, typename Mk::Cont, Mk>>(seed, nops, complete); return true; }   // small pools
	if (cfg == "hset_limp") { typedef HSetMaker<E, momo::HashBucketLimP<>, momo::HashBucketLimP<>::maxCount> Mk; go<SetAd<E, typename Mk::Cont, Mk>>(seed, nops, complete); return true; }
#endif
#if PART == 0 || PART == 3
	if (cfg == "hmap_limp4") { typedef HMapMaker<E, E, momo::HashBucketLimP4<>> Mk; go<MapAd<E, E, typename Mk::Cont, Mk>>(seed, nops, complete); return true; }
	if (cfg == "hmap_limp4_xc") { typedef HMapMaker<E, E, momo::HashBucketLimP4<>, true> Mk; go<MapAd<E, E, typename Mk::Cont, Mk>>(seed, nops, complete); return true; }
#endif
#if PART == 0 || PART == 6
	if (cfg == "hmap_open8") { typedef HMapMaker<E, E, momo::HashBucketOpen8> Mk; go<MapAd<E, E, typename Mk::Cont, Mk>>(seed, nops, complete); return true; }
#endif
#if PART == 0 || PART == 8
	if (cfg == "hmmap") { typedef HMMapMaker<E, E> Mk; go<MultiMapAd<E, E, typename Mk::Cont, Mk>>(seed, nops, complete); return true; }
	if (cfg == "hmmap_k3") { typedef HMMapMaker<E, E, 3> Mk; go<MultiMapAd<E, E, typename Mk::Cont, Mk>>(seed, nops, complete); return true; }   // few keys: value arrays cross valueArrayMaxFastCount = 7
#endif
#if PART == 0 || PART == 9
	if (cfg == "hset_openn1_1") { typedef OSetMaker<E, momo::HashBucketOpenN1<1>, 1> Mk; go<SetAd<E, typename Mk::Cont, Mk>>(seed, nops, complete); return true; }
	if (cfg == "hset_openn1_3") { typedef OSetMaker<E, momo::HashBucketOpenN1<3>, 3> Mk; go<SetAd<E, typename Mk::Cont, Mk>>(seed, nops, complete); return true; }
	if (cfg == "hset_openn1_7") { typedef OSetMaker<E, momo::HashBucketOpenN1<7>, 7> Mk; go<SetAd<E, typename Mk::Cont, Mk>>(seed, nops, complete); return true; }
	if (cfg == "hset_open8r") { typedef OSetMaker<E, momo::HashBucketOpen8, 7> Mk; go<SetAd<E, typename Mk::Cont, Mk>>(seed, nops, complete); return true; }
	if (cfg == "hmap_open8r") { typedef OMapMaker<E, E, momo::HashBucketOpen8, 7> Mk; go<MapAd<E, E, typename Mk::Cont, Mk>>(seed, nops, complete); return true; }
#endif
#if PART == 0 || PART == 4
	if (cfg == "tset_n4") { typedef TSetMaker<E, Node4> Mk; go<SetAd<E, typename Mk::Cont, Mk>>(seed, nops, complete); return true; }
	if (cfg == "tset_n4i") { typedef TSetMaker<E, Node4i> Mk; go<SetAd<E, typename Mk::Cont, Mk>>(seed, nops, complete); return true; }
	if (cfg == "tset_n4_nv") { typedef TSetMakerNV<E> Mk; go<SetAd<E, typename Mk::Cont, Mk>>(seed, nops, complete); return true; }
	if (cfg == "tset_n4_p4") { typedef TSetMaker<E, momo::TreeNode<4, 2, momo::MemPoolParams<4, 0>>> Mk; go<SetAd<E, typename Mk::Cont, Mk>>(seed, nops, complete); return true; }
	if (cfg == "tset_n32") { typedef TSetMaker<E, Node32> Mk; go<SetAd<E, typename Mk::Cont, Mk>>(seed, nops, complete); return true; }
#endif
#if PART == 0 || PART == 5
	if (cfg == "tmap_n4") { typedef TMapMaker<E, E, Node4> Mk; go<MapAd<E, E, typename Mk::Cont, Mk>>(seed, nops, complete); return true; }
	if (cfg == "tmap_n4_xc") { typedef TMapMaker<E, E, Node4, true> Mk; go<MapAd<E, E, typename Mk::Cont, Mk>>(seed, nops, complete); return true; }
#endif
#if PART == 0 || PART == 7
	if (cfg == "tmap_n32") { typedef TMapMaker<E, E, Node32> Mk; go<MapAd<E, E, typename Mk::Cont, Mk>>(seed, nops, complete); return true; }
#endif
	return false;
}

// maps with DIFFERENT key / value categories (X: nothrow-move key + copy-only value, Y: copy-only key + nothrow-move value)
template<typename K, typename V> static bool dispatch_mixed(const std::string& cfg, uint64_t seed, size_t nops, bool complete)
{
	(void)cfg; (void)seed; (void)nops; (void)complete;
#if PART == 0 || PART == 3
	if (cfg == "hmap_limp4") { typedef HMapMaker<K, V, momo::HashBucketLimP4<>> Mk; go<MapAd<K, V, typename Mk::Cont, Mk>>(seed, nops, complete); return true; }
#endif
#if PART == 0 || PART == 6
	if (cfg == "hmap_open8") { typedef HMapMaker<K, V, momo::HashBucketOpen8> Mk; go<MapAd<K, V, typename Mk::Cont, Mk>>(seed, nops, complete); return true; }
#endif
#if PART == 0 || PART == 8
	if (cfg == "hmmap") { typedef HMMapMaker<K, V> Mk; go<MultiMapAd<K, V, typename Mk::Cont, Mk>>(seed, nops, complete); return true; }
	if (cfg == "hmmap_k3") { typedef HMMapMaker<K, V, 3> Mk; go<MultiMapAd<K, V, typename Mk::Cont, Mk>>(seed, nops, complete); return true; }
#endif
#if PART == 0 || PART == 5
	if (cfg == "tmap_n4") { typedef TMapMaker<K, V, Node4> Mk; go<MapAd<K, V, typename Mk::Cont, Mk>>(seed, nops, complete); return true; }
#endif
#if PART == 0 || PART == 7
	if (cfg == "tmap_n32") { typedef TMapMaker<K, V, Node32> Mk; go<MapAd<K, V, typename Mk::Cont, Mk>>(seed, nops, complete); return true; }
#endif
	return false;
}

int main()
{
	signal(SIGABRT, on_abort);
	std::string line;
	while (std::getline(std::cin, line))
	{
		std::istringstream is(line); std::string cfg, cat, mode; uint64_t seed = 0; size_t nops = 0;
		is >> cfg >> cat >> mode >> seed >> nops;
		bool complete = (mode == "t"); bool done = false;
		{ static const int dists[] = { kit::LOWBITS, kit::CONST, kit::IDENT, kit::MOD7, kit::LOWBITS, kit::MULT }; g_dist = dists[(seed / 2) % 6]; }
#if PART == 0 || PART == 1
		if (cfg == "array_triv" && cat == "R") { go<ArrayAd<kit::ElemTriv, 0, kit::MMR>>(seed, nops, complete); done = true; }   // MemManager::Reallocate path
		if (cfg == "array_ic4" && cat == "N") { go<ArrayAd<kit::ElemNtm, 4>>(seed, nops, complete); done = true; }
		if (cfg == "array_ic4" && cat == "C") { go<ArrayAd<kit::ElemCpo, 4>>(seed, nops, complete); done = true; }
		if (cfg == "array_ic4" && cat == "T") { go<ArrayAd<kit::ElemThm, 4>>(seed, nops, complete); done = true; }
#endif
		if (!done)
		{
			if (cat == "N") done = dispatch<kit::ElemNtm>(cfg, seed, nops, complete);
			else if (cat == "C") done = dispatch<kit::ElemCpo>(cfg, seed, nops, complete);
			else if (cat == "T") done = dispatch<kit::ElemThm>(cfg, seed, nops, complete);
			else if (cat == "X") done = dispatch_mixed<kit::ElemNtm, kit::ElemCpo>(cfg, seed, nops, complete);
			else if (cat == "Y") done = dispatch_mixed<kit::ElemCpo, kit::ElemNtm>(cfg, seed, nops, complete);
		}
		if (!done) puts("?");
		fflush(stdout);
	}
	return 0;
}
