// C07 implementation side (L0 tie + independent oracle): drives the REAL momo::DataTable with the same
// histories as the extracted Coq specification (ocaml/driver.ml, command "T") and prints the same lines.
// Independently of the Coq model it keeps a brute-force shadow (vector of plain rows + index column sets)
// and after every operation checks the whole table, every index and the queries against it; any
// disagreement is printed as "!ORACLE-FAIL:<what>" inside the output line.
//   -DVARIANT=0 static columns, no row number   1 static, keepRowNumber
//             2 dynamic columns, no row number  3 dynamic, keepRowNumber
#include "private_access.h"
#include "momo/DataTable.h"
#include <optional>

#ifndef VARIANT
#define VARIANT 0
#endif

// ------------------------------------------------------------------ memory manager with failure injection
static long g_countdown = 0;      // >0: the g_countdown-th allocation from now throws
static long g_live = 0;
static long g_faults = 0, g_allocs = 0;
static long g_refusals = 0, g_up[4] = {0,0,0,0}, g_down[4] = {0,0,0,0}, g_maxgroup = 0, g_maxrows = 0;
class FailMM
{
public:
	explicit FailMM() noexcept {}
	FailMM(FailMM&&) noexcept {}
	FailMM(const FailMM&) noexcept {}
	~FailMM() noexcept {}
	FailMM& operator=(const FailMM&) = delete;
	void* Allocate(size_t size)
	{
		++g_allocs;
		if (g_countdown > 0 && --g_countdown == 0)
			throw std::bad_alloc();
		void* p = std::malloc(size);
		if (p == nullptr) throw std::bad_alloc();
		++g_live;
		return p;
	}
	void Deallocate(void* ptr, size_t /*size*/) noexcept { --g_live; std::free(ptr); }
	bool IsEqual(const FailMM&) const noexcept { return true; }
};

// ------------------------------------------------------------------ columns
struct Struct
{
	int id;
	int a;
	int b;
	std::string c;
};
MOMO_DATA_COLUMN_STRUCT(Struct, id);
MOMO_DATA_COLUMN_STRUCT(Struct, a);
MOMO_DATA_COLUMN_STRUCT(Struct, b);
MOMO_DATA_COLUMN_STRUCT(Struct, c);

static const bool kKeepNumber = (VARIANT & 1) != 0;
static const bool kDynamic = (VARIANT & 2) != 0;
// coverage audit: besides the column-list flavour and keepRowNumber the four builds also differ in
//   DataTraits::selectEqualityMaxCount (the pvSelect overload that turns the surplus equalities into nested filters),
//   DataTraits::RawMemPoolParams (block count of the row pool) and Settings::checkVersion
struct TraitsSel1 : public momo::DataTraits { static const size_t selectEqualityMaxCount = 1; typedef momo::MemPoolParams<1, 0> RawMemPoolParams; };
struct TraitsSel2 : public momo::DataTraits { static const size_t selectEqualityMaxCount = 2; typedef momo::MemPoolParams<4, 2> RawMemPoolParams; };
template<bool keep> struct SettingsNoVersion : public momo::DataSettings<keep> { static const bool checkVersion = false; };
#if VARIANT == 1
typedef TraitsSel1 Traits; typedef momo::DataSettings<kKeepNumber> Settings; static const size_t kSelMax = 1; static const bool kCheckVersion = MOMO_CHECK_ITERATOR_VERSION;
#elif VARIANT == 2
typedef TraitsSel2 Traits; typedef SettingsNoVersion<kKeepNumber> Settings; static const size_t kSelMax = 2; static const bool kCheckVersion = false;
#else
typedef momo::DataTraits Traits; typedef momo::DataSettings<kKeepNumber> Settings; static const size_t kSelMax = 6; static const bool kCheckVersion = MOMO_CHECK_ITERATOR_VERSION;
#endif
#if (VARIANT & 2) == 0
typedef momo::DataColumnListStatic<Struct, momo::DataColumnInfo<Struct>, FailMM, Settings> ColumnList;
static ColumnList makeColumnList() { return ColumnList(); }
#else
typedef momo::DataColumnList<momo::DataColumnTraits<Struct>, FailMM, momo::DataItemTraits<FailMM>, Settings> ColumnList;
static ColumnList makeColumnList() { ColumnList cl; cl.Add(c, id); cl.Add(b); cl.Add(a); return cl; }
#endif
typedef momo::DataTable<ColumnList, Traits> Table;
// the INTENDED configuration is really instantiated
static_assert(Table::Settings::keepRowNumber == kKeepNumber, "keepRowNumber variant");
static_assert(std::is_void<ColumnList::Raw>::value == kDynamic, "dynamic column lists have Raw = void, static ones Raw = Struct");
static_assert(Table::DataTraits::selectEqualityMaxCount == kSelMax, "selectEqualityMaxCount variant");
static_assert(Table::Settings::checkVersion == kCheckVersion, "checkVersion variant");
static_assert(std::is_same<Table::MemManager, FailMM>::value, "the table allocates through the failure-injecting manager");
typedef Table::Row Row;
typedef Table::ConstRowReference CRef;
typedef Table::RowReference RRef;
typedef ColumnList::ColumnInfo CI;

template<size_t N> static void fitIndexesN(const Table& t, const std::vector<size_t>& offs, long& fu, long& fm)
{
	std::array<size_t, N> arr; for (size_t i = 0; i < N; ++i) arr[i] = offs[i];
	auto sorted = Table::Indexes::GetSortedOffsets(arr);
	auto u = t.mIndexes.GetFitUniqueHashIndex(sorted); auto m = t.mIndexes.GetFitMultiHashIndex(sorted);
	fu = (u == decltype(u)::empty) ? -1 : long(static_cast<ptrdiff_t>(u));
	fm = (m == decltype(m)::empty) ? -1 : long(static_cast<ptrdiff_t>(m));
}
static void fitIndexes(const Table& t, const std::vector<size_t>& offs, long& fu, long& fm)
{
	switch (offs.size()) { case 1: fitIndexesN<1>(t, offs, fu, fm); break; case 2: fitIndexesN<2>(t, offs, fu, fm); break;
		case 3: fitIndexesN<3>(t, offs, fu, fm); break; case 4: fitIndexesN<4>(t, offs, fu, fm); break; default: break; }
}

static const char* const kStr[10] = { "a-alpha", "b-bravo-long-string-beyond-the-small-buffer-0001", "c-charlie",
	"d-delta-long-string-beyond-the-small-buffer-00002", "e-echo", "f-foxtrot", "g-golf-long-string-beyond-the-small-buffer-03",
	"h-hotel", "i-absent", "j-absent-too" };
static std::string strOf(long v) { return std::string(kStr[(v >= 0 && v < 10) ? v : 9]); }
static long idxOf(const std::string& s) { for (long i = 0; i < 10; ++i) if (s == kStr[i]) return i; return -1; }

struct R4 { long v[4]; };   // id a b c(index)
static const long MODP = 1000003;
static long rowHash(const R4& r) { return (((r.v[0] * 7 + r.v[1]) * 11 + r.v[2]) * 13 + r.v[3] + 1) % MODP; }
static long keyHash(const std::vector<long>& k) { long h = 0; for (long x : k) h = (h * 17 + x + 1) % MODP; return h; }
static long foldDigest(long d, long x) { return (d * 131 + x) % MODP; }

// ------------------------------------------------------------------ predicates (same encoding as the model)
struct Pred { char kind; int col; long val; std::unique_ptr<Pred> p, q; };
static std::unique_ptr<Pred> parsePred(std::istringstream& is)
{
	std::string t; is >> t; std::unique_ptr<Pred> r(new Pred());
	r->kind = t.empty() ? 'T' : t[0]; r->col = 0; r->val = 0;
	if (r->kind == 'E' || r->kind == 'L') is >> r->col >> r->val;
	else if (r->kind == 'N') r->p = parsePred(is);
	else if (r->kind == '&') { r->p = parsePred(is); r->q = parsePred(is); }
	return r;
}
static bool evalPred(const Pred& p, const R4& r)
{
	switch (p.kind) {
	case 'T': return true;
	case 'E': return r.v[p.col] == p.val;
	case 'L': return r.v[p.col] < p.val;
	case 'N': return !evalPred(*p.p, r);
	default: return evalPred(*p.p, r) && evalPred(*p.q, r);
	}
}
template<typename X> static R4 readAny(const X& ref) { R4 r; r.v[0] = ref[id]; r.v[1] = ref[a]; r.v[2] = ref[b]; r.v[3] = idxOf(ref[c]); return r; }
static R4 readRef(CRef ref) { return readAny(ref); }
template<typename Ref> static long projItem(const Ref& ref, const decltype(::id)& col) { return long(ref[col]); }
template<typename Ref> static long projItem(const Ref& ref, const decltype(::c)& col) { return idxOf(ref[col]); }

// ------------------------------------------------------------------ the test bed
struct Bed
{
	Table table;
	std::vector<R4> sh;                         // shadow rows (the oracle's state)
	std::vector<int> shU, shM;                  // shadow: existing indexes as column masks, creation order
	std::string fail;                           // first oracle failure
	long ops = 0; long prevGroup = 0;

	Bed() : table(makeColumnList()) {}

	void bad(const std::string& what) { if (fail.empty()) fail = what; }

	// ---- shadow helpers (brute force)
	static bool keyEq(int mask, const R4& x, const R4& y) { for (int i = 0; i < 4; ++i) if ((mask >> i & 1) && x.v[i] != y.v[i]) return false; return true; }
	// first unique index (creation order) with a colliding row other than `skip`
	bool shConflict(const R4& r, long skip, long& n, long& j) const
	{
		for (size_t u = 0; u < shU.size(); ++u)
			for (size_t i = 0; i < sh.size(); ++i)
				if (long(i) != skip && keyEq(shU[u], sh[i], r)) { n = long(i); j = long(u); return true; }
		return false;
	}
	std::vector<long> shSelect(int mask, const R4& vals, const Pred& p) const
	{
		std::vector<long> res;
		for (size_t i = 0; i < sh.size(); ++i) if (keyEq(mask, sh[i], vals) && evalPred(p, sh[i])) res.push_back(long(i));
		return res;
	}
	std::unordered_map<const void*, long> posMap; bool posValid = false;
	long posOf(const void* raw)
	{
		if (!posValid)
		{
			posMap.clear();
			for (size_t i = 0; i < table.GetCount(); ++i) posMap[static_cast<const void*>(table[i].GetRaw())] = long(i);
			posValid = true;
		}
		auto it = posMap.find(raw);
		return it == posMap.end() ? -1 : it->second;
	}

	Row newRow(const R4& r)
	{
		Row row = table.NewRow();
		row[id] = int(r.v[0]); row[a] = int(r.v[1]); row[b] = int(r.v[2]); row[c] = strOf(r.v[3]);
		return row;
	}

	// ---- equality dispatch: calls f(col/value pairs...) for the columns in mask (bit0=id bit1=a bit2=b bit3=c)
	template<typename Col, typename Item> struct CV { const Col& col; const Item& item; };
	template<typename Col, typename Item> static CV<Col, Item> cv(const Col& col, const Item& item) { return CV<Col, Item>{ col, item }; }
	template<typename F>
	auto withEq(int mask, bool rev, const int (&iv)[3], const std::string& sv, const F& f) -> decltype(f(cv(id, iv[0])))
	{
		switch (mask) {
		case 1: return f(cv(id, iv[0]));
		case 2: return f(cv(a, iv[1]));
		case 3: return rev ? f(cv(a, iv[1]), cv(id, iv[0])) : f(cv(id, iv[0]), cv(a, iv[1]));
		case 4: return f(cv(b, iv[2]));
		case 5: return rev ? f(cv(b, iv[2]), cv(id, iv[0])) : f(cv(id, iv[0]), cv(b, iv[2]));
		case 6: return rev ? f(cv(b, iv[2]), cv(a, iv[1])) : f(cv(a, iv[1]), cv(b, iv[2]));
		case 7: return f(cv(id, iv[0]), cv(a, iv[1]), cv(b, iv[2]));
		case 8: return f(cv(c, sv));
		case 9: return rev ? f(cv(c, sv), cv(id, iv[0])) : f(cv(id, iv[0]), cv(c, sv));
		case 10: return rev ? f(cv(c, sv), cv(a, iv[1])) : f(cv(a, iv[1]), cv(c, sv));
		case 11: return f(cv(c, sv), cv(id, iv[0]), cv(a, iv[1]));
		case 12: return rev ? f(cv(c, sv), cv(b, iv[2])) : f(cv(b, iv[2]), cv(c, sv));
		case 13: return f(cv(b, iv[2]), cv(c, sv), cv(id, iv[0]));
		case 14: return f(cv(a, iv[1]), cv(b, iv[2]), cv(c, sv));
		default: return f(cv(id, iv[0]), cv(a, iv[1]), cv(b, iv[2]), cv(c, sv));
		}
	}

	std::vector<long> positionsOf(const Table::ConstSelection& sel)
	{
		std::vector<long> res;
		for (size_t i = 0; i < sel.GetCount(); ++i) res.push_back(posOf(sel[i].GetRaw()));
		std::sort(res.begin(), res.end());
		return res;
	}

	// Select and SelectCount for the equalities in mask (+ filter); checks both against each other
	std::vector<long> implSelect(int mask, bool rev, const R4& vals, const Pred& p, bool usePred)
	{
		const Table& ct = table;
		int iv[3] = { int(vals.v[0]), int(vals.v[1]), int(vals.v[2]) }; std::string sv = strOf(vals.v[3]);
		auto filter = [&p] (CRef ref) { return evalPred(p, readRef(ref)); };
		std::vector<long> res; size_t cnt = 0;
		if (mask == 0)
		{
			if (usePred) { res = positionsOf(ct.Select(filter)); cnt = ct.SelectCount(filter); }
			else { res = positionsOf(ct.Select()); cnt = ct.SelectCount(); }
		}
		else if (usePred)
		{
			res = withEq(mask, rev, iv, sv, [&] (auto... e) { return positionsOf(ct.Select(filter, CI::MakeEquality(e.col, e.item)...)); });
			cnt = withEq(mask, rev, iv, sv, [&] (auto... e) -> std::vector<long> { return { long(ct.SelectCount(filter, CI::MakeEquality(e.col, e.item)...)) }; })[0];
		}
		else
		{
			auto noFilter = [] (CRef) { return true; };
			(void)noFilter;
			res = withEq(mask, rev, iv, sv, [&] (auto... e) { return positionsOf(ct.Select(noFilter, CI::MakeEquality(e.col, e.item)...)); });
			cnt = withEq(mask, rev, iv, sv, [&] (auto... e) -> std::vector<long> { return { long(ct.SelectCount(noFilter, CI::MakeEquality(e.col, e.item)...)) }; })[0];
		}
		if (cnt != res.size()) bad("SelectCount != Select().GetCount()");
		return res;
	}

	// ---- index menu: unique (id) (id,c) (a,b);  multi (b) (c) (b,c) (a,b)
	bool addUnique(int mask, long& dupRow)
	{
		try {
			switch (mask) {
			case 1: table.AddUniqueHashIndex(id); break;
			case 9: table.AddUniqueHashIndex(id, c); break;
			case 6: table.AddUniqueHashIndex(a, b); break;
			default: bad("unknown unique index"); }
		} catch (const Table::UniqueIndexViolation& e) { dupRow = posOf(e.rowReference.GetRaw()); return false; }
		return true;
	}
	void addMulti(int mask)
	{
		switch (mask) {
		case 4: table.AddMultiHashIndex(b); break;
		case 8: table.AddMultiHashIndex(c); break;
		case 12: table.AddMultiHashIndex(c, b); break;
		case 6: table.AddMultiHashIndex(a, b); break;
		default: bad("unknown multi index"); }
	}
	// FindByUniqueHash through equalities; -1 none, -2 no such index
	long findUnique(int mask, const R4& v, int form)
	{
		const Table& ct = table;
		int i0 = int(v.v[0]), i1 = int(v.v[1]), i2 = int(v.v[2]); std::string s = strOf(v.v[3]);
		try {
			Table::ConstRowHashPointer ptr;
			switch (mask) {
			case 1: ptr = (form == 0) ? ct.FindByUniqueHash(momo::DataUniqueHashIndex::empty, CI::MakeEquality(id, i0))
				: ct.FindByUniqueHash(momo::DataEquality<>().And(id, i0), ct.GetUniqueHashIndex(id)); break;
			case 9: ptr = (form == 0) ? ct.FindByUniqueHash(momo::DataUniqueHashIndex::empty, CI::MakeEquality(c, s), CI::MakeEquality(id, i0))
				: ct.FindByUniqueHash(momo::DataEquality<>().And(id, i0).And(c, s), ct.GetUniqueHashIndex(c, id)); break;
			case 6: ptr = (form == 0) ? ct.FindByUniqueHash(momo::DataUniqueHashIndex::empty, CI::MakeEquality(a, i1), CI::MakeEquality(b, i2))
				: ct.FindByUniqueHash(momo::DataEquality<>().And(b, i2).And(a, i1), ct.GetUniqueHashIndex(a, b)); break;
			default: return -2; }
			if (!ptr) { if (ptr.GetCount() != 0) bad("empty hash pointer has rows"); return -1; }
			if (ptr.GetCount() != 1) bad("unique hash pointer count != 1");
			return posOf((*ptr).GetRaw());
		} catch (const std::logic_error&) { return -2; }
	}
	long findUniqueByRow(int mask, const R4& v)
	{
		const Table& ct = table;
		momo::DataUniqueHashIndex idx = momo::DataUniqueHashIndex::empty;
		switch (mask) { case 1: idx = ct.GetUniqueHashIndex(id); break; case 9: idx = ct.GetUniqueHashIndex(id, c); break;
			case 6: idx = ct.GetUniqueHashIndex(b, a); break; default: return -2; }
		if (idx == momo::DataUniqueHashIndex::empty) return -2;
		Row row = newRow(v);
		Table::ConstRowHashPointer ptr = ct.FindByUniqueHash(idx, row);
		return !ptr ? -1 : posOf((*ptr).GetRaw());
	}
	// FindByMultiHash; returns false when there is no such index
	bool findMulti(int mask, const R4& v, int form, std::vector<long>& res)
	{
		const Table& ct = table;
		int i1 = int(v.v[1]), i2 = int(v.v[2]); std::string s = strOf(v.v[3]);
		try {
			Table::ConstRowHashBounds bounds;
			switch (mask) {
			case 4: bounds = (form == 0) ? ct.FindByMultiHash(momo::DataMultiHashIndex::empty, CI::MakeEquality(b, i2))
				: ct.FindByMultiHash(momo::DataEquality<>().And(b, i2), ct.GetMultiHashIndex(b)); break;
			case 8: bounds = (form == 0) ? ct.FindByMultiHash(momo::DataMultiHashIndex::empty, CI::MakeEquality(c, s))
				: ct.FindByMultiHash(momo::DataEquality<>().And(c, s), ct.GetMultiHashIndex(c)); break;
			case 12: bounds = (form == 0) ? ct.FindByMultiHash(momo::DataMultiHashIndex::empty, CI::MakeEquality(b, i2), CI::MakeEquality(c, s))
				: ct.FindByMultiHash(momo::DataEquality<>().And(c, s).And(b, i2), ct.GetMultiHashIndex(b, c)); break;
			case 6: bounds = (form == 0) ? ct.FindByMultiHash(momo::DataMultiHashIndex::empty, CI::MakeEquality(b, i2), CI::MakeEquality(a, i1))
				: ct.FindByMultiHash(momo::DataEquality<>().And(a, i1).And(b, i2), ct.GetMultiHashIndex(a, b)); break;
			default: return false; }
			res.clear();
			size_t n = bounds.GetCount(); size_t k = 0;
			for (auto ref : bounds) { res.push_back(posOf(ref.GetRaw())); ++k; }
			if (k != n) bad("multi hash bounds: GetCount != iterated count");
			for (size_t i = 0; i < n; ++i) if (posOf(bounds[i].GetRaw()) != res[i]) bad("multi hash bounds: operator[] != iteration");
			std::sort(res.begin(), res.end());
			return true;
		} catch (const std::logic_error&) { return false; }
	}

	// ---- the oracle: whole table, every index, queries, against the shadow
	void verify(bool deep)
	{
		posValid = false;
		if (table.GetCount() != sh.size()) { bad("row count " + std::to_string(table.GetCount()) + " != " + std::to_string(sh.size())); return; }
		size_t k = 0;
		for (auto ref : static_cast<const Table&>(table))
		{
			R4 r = readRef(ref);
			for (int i = 0; i < 4; ++i) if (r.v[i] != sh[k].v[i]) { bad("row " + std::to_string(k) + " differs from the brute-force list"); return; }
			++k;
		}
		for (size_t i = 0; i < sh.size(); ++i)
		{
			R4 r = readRef(table[i]);
			for (int q = 0; q < 4; ++q) if (r.v[q] != sh[i].v[q]) { bad("operator[] row differs"); return; }
			numberCheck(i);
		}
		// unique indexes: the shadow must satisfy them, and every row must be found under its own key
		for (int mask : shU)
		{
			for (size_t i = 0; i < sh.size(); ++i)
			{
				for (size_t j = 0; j < i; ++j) if (keyEq(mask, sh[i], sh[j])) { bad("unique index violated: rows " + std::to_string(j) + "," + std::to_string(i)); return; }
				long pos = findUnique(mask, sh[i], int(i & 1));
				if (pos != long(i)) { bad("FindByUniqueHash(mask " + std::to_string(mask) + ") row " + std::to_string(i) + " -> " + std::to_string(pos)); return; }
			}
			R4 absent = { { 9999, 4, 6, 8 } };
			if (findUnique(mask, absent, 0) != -1) { bad("FindByUniqueHash finds an absent key"); return; }
		}
		for (int mask : shM)
		{
			std::vector<char> done(sh.size(), 0);
			for (size_t i = 0; i < sh.size(); ++i)
			{
				if (done[i]) continue;
				std::vector<long> exp;
				for (size_t j = i; j < sh.size(); ++j) if (keyEq(mask, sh[i], sh[j])) { exp.push_back(long(j)); done[j] = 1; }
				std::vector<long> got;
				if (!findMulti(mask, sh[i], int(i & 1), got) || got != exp)
				{ bad("FindByMultiHash(mask " + std::to_string(mask) + ") key of row " + std::to_string(i) + ": " + std::to_string(got.size()) + " rows, expected " + std::to_string(exp.size())); return; }
			}
			R4 absent = { { 9999, 4, 6, 8 } }; std::vector<long> got;
			if (!findMulti(mask, absent, 0, got) || !got.empty()) { bad("FindByMultiHash for an absent key is not empty"); return; }
			R4 absent2 = { { 0, 0, 0, 9 } };
			if (mask & 8) if (!findMulti(mask, absent2, 1, got) || !got.empty()) { bad("FindByMultiHash for an absent string is not empty"); return; }
		}
		if (deep) verifyAllSelects(nullptr);
	}
	template<bool keep = kKeepNumber> typename std::enable_if<keep>::type numberCheck(size_t i)
	{ if (static_cast<const Table&>(table)[i].GetNumber() != i) bad("GetNumber of row " + std::to_string(i) + " = " + std::to_string(static_cast<const Table&>(table)[i].GetNumber())); }
	template<bool keep = kKeepNumber> typename std::enable_if<!keep>::type numberCheck(size_t) {}

	// SelectCount for every combination of a in 0..4, b in 0..6, c in 0..8 (last = absent) or unconstrained
	long verifyAllSelects(long* digest)
	{
		Pred pt; pt.kind = 'T'; long d = 0; long combos = 0;
		for (long va = -1; va <= 4; ++va) for (long vb = -1; vb <= 6; ++vb) for (long vc = -1; vc <= 8; ++vc)
		{
			int mask = (va >= 0 ? 2 : 0) | (vb >= 0 ? 4 : 0) | (vc >= 0 ? 8 : 0);
			R4 vals = { { 0, va, vb, vc } };
			std::vector<long> got = implSelect(mask, ((va + vb + vc) & 1) != 0, vals, pt, false);
			std::vector<long> exp = shSelect(mask, vals, pt);
			if (got != exp) { bad("Select(a=" + std::to_string(va) + ",b=" + std::to_string(vb) + ",c=" + std::to_string(vc) + ") returns " + std::to_string(got.size()) + " rows, brute force " + std::to_string(exp.size())); }
			d = foldDigest(d, long(got.size())); ++combos;
		}
		if (digest) *digest = d;
		return combos;
	}

	long tableDigest() { long d = 0; for (const R4& r : sh) d = foldDigest(d, rowHash(r)); return d; }

	// content of every index read through private access: unique hashes as sorted row positions, multi hashes as groups
	// (key row + value array) of sorted row positions, groups sorted by their first position
	long indexDigest()
	{
		long d = 0; auto& idx = table.mIndexes;
		for (size_t j = 0; j < idx.mUniqueHashes.GetCount(); ++j)
		{
			std::vector<long> pos;
			for (auto* raw : idx.mUniqueHashes[j].mHashSet) pos.push_back(posOf(static_cast<const void*>(raw)));
			std::sort(pos.begin(), pos.end());
			d = foldDigest(d, 7000 + long(j)); for (long q : pos) d = foldDigest(d, q + 1);
		}
		for (size_t j = 0; j < idx.mMultiHashes.GetCount(); ++j)
		{
			std::vector<std::vector<long>> groups;
			auto& mm2 = idx.mMultiHashes[j].mHashMultiMap;
			for (auto keyIter = mm2.GetKeyBounds().GetBegin(); !!keyIter; ++keyIter)
			{
				std::vector<long> g{ posOf(static_cast<const void*>(keyIter->key)) };
				for (size_t q = 0; q < keyIter->GetCount(); ++q) g.push_back(posOf(static_cast<const void*>((*keyIter)[q])));
				std::sort(g.begin(), g.end()); groups.push_back(g);
			}
			std::sort(groups.begin(), groups.end());
			d = foldDigest(d, 9000 + long(j));
			for (auto& g : groups) { d = foldDigest(d, 5000 + long(g.size())); for (long q : g) d = foldDigest(d, q + 1); }
		}
		return d;
	}

	// run f with an allocation failure injected at the 1st, 2nd, ... allocation until it completes;
	// after every failure the table must be exactly what it was
	template<typename F> void faulty(bool inject, const F& f)
	{
		if (!inject) { f(); posValid = false; return; }
		posValid = false; long idxBefore = indexDigest();
		for (long k = 1; ; ++k)
		{
			g_countdown = k;
			try { f(); g_countdown = 0; posValid = false; return; }
			catch (const std::bad_alloc&)
			{
				g_countdown = 0; ++g_faults;
				std::string before = fail;
				posValid = false;
				if (indexDigest() != idxBefore) bad("the content of an index (private access dump of mIndexes) changed");
				verify(sh.size() <= 24);
				if (before.empty() && !fail.empty()) fail = "after allocation failure #" + std::to_string(k) + ": " + fail;
			}
			if (k > 10000) { bad("allocation failure loop does not terminate"); return; }
		}
	}
};

static int maskOf(std::istringstream& is)   // column numbers up to ':' or end
{
	int mask = 0; std::string t;
	while (is >> t) { if (t == ":") break; mask |= 1 << std::atoi(t.c_str()); }
	return mask;
}
static std::vector<long> keyOf(int mask, const R4& r) { std::vector<long> k; for (int i = 0; i < 4; ++i) if (mask >> i & 1) k.push_back(r.v[i]); return k; }
static R4 readR4(std::istringstream& is) { R4 r; is >> r.v[0] >> r.v[1] >> r.v[2] >> r.v[3]; return r; }

static std::string runOp(Bed& bed, const std::string& text)
{
	std::istringstream is(text); std::string cmd; is >> cmd;
	std::ostringstream out;
	Table& table = bed.table; std::vector<R4>& sh = bed.sh;
	bool mutating = true; bed.posValid = false;
	auto tryResult = [&] (const Table::TryResult& res, bool expConflict, long en, long ej) {
		if (!res) {
			long n = bed.posOf(res.rowReference.GetRaw()); long j = long(static_cast<ptrdiff_t>(res.uniqueHashIndex));
			out << "conflict " << n << " " << j; ++g_refusals;
			if (!expConflict) bed.bad("operation refused although no row collides"); else if (n != en || j != ej) bed.bad("refusal reports row " + std::to_string(n) + " index " + std::to_string(j) + ", brute force " + std::to_string(en) + " " + std::to_string(ej));
		} else { out << "ok"; if (expConflict) bed.bad("operation accepted although row " + std::to_string(en) + " collides on unique index " + std::to_string(ej)); }
	};
	if (cmd == "A" || cmd == "I")
	{
		int f; long n = long(sh.size()); is >> f; if (cmd == "I") is >> n; R4 r = readR4(is);
		if (n > long(sh.size())) { out << "invalid"; }
		else {
			long en = 0, ej = 0; bool conf = bed.shConflict(r, -1, en, ej);
			std::optional<Row> row; std::optional<Table::TryResult> res;
			// the same operation through its three public entry points, by turns: Try*(Row&&), Try*Row(assignments...), throwing Add/Insert
			int form = int(bed.ops % 3); int iv0 = int(r.v[0]), iv1 = int(r.v[1]), iv2 = int(r.v[2]); std::string sv3 = strOf(r.v[3]);
			bed.faulty(f != 0, [&] {
				if (form == 1)
				{
					res.emplace(cmd == "A"
						? table.TryAddRow(CI::MakeAssignment(c, sv3), CI::MakeAssignment(id, iv0), CI::MakeAssignment(b, iv2), CI::MakeAssignment(a, iv1))
						: table.TryInsertRow(size_t(n), CI::MakeAssignment(a, iv1), CI::MakeAssignment(id, iv0), CI::MakeAssignment(c, sv3), CI::MakeAssignment(b, iv2)));
					return;
				}
				if (!row) row.emplace(bed.newRow(r));
				if (form == 2)
				{
					try { RRef ref = (cmd == "A") ? table.Add(std::move(*row)) : table.Insert(size_t(n), std::move(*row)); res.emplace(Table::TryResult{ ref, momo::DataUniqueHashIndex::empty }); }
					catch (const Table::UniqueIndexViolation& e) { res.emplace(static_cast<const Table::TryResult&>(e)); }
					return;
				}
				res.emplace(cmd == "A" ? table.TryAdd(std::move(*row)) : table.TryInsert(size_t(n), std::move(*row))); });
			if (!conf) sh.insert(sh.begin() + n, r);
			tryResult(*res, conf, en, ej);
			if (!!*res && bed.posOf(res->rowReference.GetRaw()) != n) bed.bad("TryAdd/TryInsert returns a reference to the wrong row");
		}
	}
	else if (cmd == "U")
	{
		int f; long n; is >> f >> n; R4 r = readR4(is);
		if (n >= long(sh.size())) out << "invalid";
		else {
			long en = 0, ej = 0; bool conf = bed.shConflict(r, n, en, ej);
			std::optional<Row> row; std::optional<Table::TryResult> res;
			bed.faulty(f != 0, [&] {
				if (!row) row.emplace(bed.newRow(r));
				if (bed.ops % 2 == 1)
				{
					try { RRef ref = table.Update(size_t(n), std::move(*row)); res.emplace(Table::TryResult{ ref, momo::DataUniqueHashIndex::empty }); }
					catch (const Table::UniqueIndexViolation& e) { res.emplace(static_cast<const Table::TryResult&>(e)); }
					return;
				}
				res.emplace(table.TryUpdate(size_t(n), std::move(*row))); });
			if (!conf) sh[n] = r;
			tryResult(*res, conf, en, ej);
		}
	}
	else if (cmd == "C")
	{
		int f; long n; int col; long v; is >> f >> n >> col >> v;
		if (n >= long(sh.size())) out << "invalid";
		else {
			R4 r = sh[n]; r.v[col] = v;
			long en = 0, ej = 0; bool conf = (v != sh[n].v[col]) && bed.shConflict(r, n, en, ej);
			std::optional<Table::TryResult> res;
			bed.faulty(f != 0, [&] {
				switch (col) {
				case 0: res.emplace(table.TryUpdate(table[n], id, int(v))); break;
				case 1: res.emplace(table.TryUpdate(table[n], a, int(v))); break;
				case 2: res.emplace(table.TryUpdate(table[n], b, int(v))); break;
				default: { std::string s = strOf(v); if (v & 1) res.emplace(table.TryUpdate(table[n], c, s)); else res.emplace(table.TryUpdate(table[n], c, std::move(s))); } } });
			if (!conf) sh[n] = r;
			tryResult(*res, conf, en, ej);
		}
	}
	else if (cmd == "R" || cmd == "X")
	{
		int f; long n; int keep; is >> f >> n >> keep;   // keep: 1 ordered, 0 unordered, 2 by row reference
		if (n >= long(sh.size())) out << "invalid";
		else {
			R4 got = sh[n];
			bed.faulty(f != 0, [&] {
				if (cmd == "R") { if (keep == 2) table.Remove(table[n]); else table.Remove(size_t(n), keep != 0); }
				else { Row row = (keep == 2) ? table.Extract(table[n]) : table.Extract(size_t(n), keep != 0); got = readAny(static_cast<const Row&>(row)); } });
			if (cmd == "X") { out << "row " << got.v[0] << " " << got.v[1] << " " << got.v[2] << " " << got.v[3]; if (rowHash(got) != rowHash(sh[n])) bed.bad("Extract returns a different row"); }
			else out << "ok";
			if (keep != 0) sh.erase(sh.begin() + n); else { sh[n] = sh.back(); sh.pop_back(); }
		}
	}
	else if (cmd == "RR")
	{
		int f; long n, k; is >> f >> n >> k;
		if (n + k > long(sh.size())) out << "invalid";
		else {
			bed.faulty(f != 0, [&] { table.Remove(momo::internal::UIntMath<>::Next(table.GetBegin(), size_t(n)), momo::internal::UIntMath<>::Next(table.GetBegin(), size_t(n + k))); });
			sh.erase(sh.begin() + n, sh.begin() + n + k); out << "ok";
		}
	}
	else if (cmd == "RP")
	{
		int f; is >> f; std::unique_ptr<Pred> p = parsePred(is); size_t removed = 0;
		bed.faulty(f != 0, [&] { removed = table.Remove([&p] (CRef ref) { return evalPred(*p, readRef(ref)); }); });
		size_t before = sh.size();
		sh.erase(std::remove_if(sh.begin(), sh.end(), [&p] (const R4& r) { return evalPred(*p, r); }), sh.end());
		if (removed != before - sh.size()) bed.bad("Remove(filter) returns " + std::to_string(removed));
		out << "count " << removed;
	}
	else if (cmd == "AS")
	{
		int f; is >> f; std::vector<long> ns; long n; bool valid = true;
		while (is >> n) { ns.push_back(n); if (n >= long(sh.size())) valid = false; }
		if (!valid) out << "invalid";
		else {
			bed.faulty(f != 0, [&] { std::vector<CRef> refs; for (long q : ns) refs.push_back(static_cast<const Table&>(table)[size_t(q)]); table.Assign(refs.begin(), refs.end()); });
			std::vector<R4> nsh; std::set<long> seen;
			for (long q : ns) if (seen.insert(q).second) nsh.push_back(sh[q]);
			sh = nsh; out << "ok";
		}
	}
	else if (cmd == "CL") { table.Clear(); sh.clear(); out << "ok"; }
	else if (cmd == "CP" || cmd == "CF")
	{
		int f; is >> f; std::unique_ptr<Pred> p; if (cmd == "CF") p = parsePred(is);
		bed.faulty(f != 0, [&] {
			if (cmd == "CP") { if (bed.ops & 1) { Table t2(static_cast<const Table&>(table)); table = std::move(t2); } else { Table t2(makeColumnList()); t2 = static_cast<const Table&>(table); table.Swap(t2); } }
			else { Table t2(static_cast<const Table&>(table), [&p] (CRef ref) { return evalPred(*p, readRef(ref)); }); table = std::move(t2); } });
		if (cmd == "CF") sh.erase(std::remove_if(sh.begin(), sh.end(), [&p] (const R4& r) { return !evalPred(*p, r); }), sh.end());
		out << "ok";
	}
	else if (cmd == "RS")
	{
		int f; long n; is >> f >> n;
		bed.faulty(f != 0, [&] { table.Reserve(size_t(n)); });
		out << "ok";
	}
	else if (cmd == "CS")
	{
		// DataTable(const Selection&): the rows of the selection, NO indexes
		int f; is >> f; std::unique_ptr<Pred> p = parsePred(is);
		bed.faulty(f != 0, [&] {
			if (bed.ops & 1) { Table t2(static_cast<const Table&>(table).Select([&p] (CRef ref) { return evalPred(*p, readRef(ref)); })); table = std::move(t2); }
			else { Table t2(table.Select([&p] (CRef ref) { return evalPred(*p, readRef(ref)); })); table.Swap(t2); } });
		sh.erase(std::remove_if(sh.begin(), sh.end(), [&p] (const R4& r) { return !evalPred(*p, r); }), sh.end());
		bed.shU.clear(); bed.shM.clear();
		out << "ok";
	}
	else if (cmd == "IU")
	{
		int mask = maskOf(is);
		if (std::find(bed.shU.begin(), bed.shU.end(), mask) != bed.shU.end()) { long d = -1; if (!bed.addUnique(mask, d)) bed.bad("re-adding an existing unique index fails"); out << "ok"; }
		else {
			long expDup = -1;
			for (size_t i = 0; i < sh.size() && expDup < 0; ++i) for (size_t j = 0; j < i; ++j) if (Bed::keyEq(mask, sh[i], sh[j])) { expDup = long(i); break; }
			long dup = -1; bool ok = bed.addUnique(mask, dup);
			if (ok) { out << "ok"; bed.shU.push_back(mask); if (expDup >= 0) bed.bad("unique index created over duplicate keys"); }
			else { out << "dup " << dup; if (dup != expDup) bed.bad("AddUniqueHashIndex reports row " + std::to_string(dup) + ", first repeated key is row " + std::to_string(expDup)); }
		}
	}
	else if (cmd == "IM") { int mask = maskOf(is); bed.addMulti(mask); if (std::find(bed.shM.begin(), bed.shM.end(), mask) == bed.shM.end()) bed.shM.push_back(mask); out << "ok"; }
	else if (cmd == "DU") { table.RemoveUniqueHashIndexes(); bed.shU.clear(); out << "ok"; }
	else if (cmd == "DM") { table.RemoveMultiHashIndexes(); bed.shM.clear(); out << "ok"; }
	else if (cmd == "Q")
	{
		mutating = false; int mask, rev; is >> mask >> rev; R4 vals = readR4(is); std::unique_ptr<Pred> p = parsePred(is);
		std::vector<long> got = bed.implSelect(mask, rev != 0, vals, *p, p->kind != 'T');
		std::vector<long> exp = bed.shSelect(mask, vals, *p);
		if (got != exp) bed.bad("Select(mask " + std::to_string(mask) + ") returns " + std::to_string(got.size()) + " rows, brute force " + std::to_string(exp.size()));
		long d = 0; for (long x : got) d = foldDigest(d, x + 1);
		out << "q " << got.size() << " " << d;
		// index selection (private access): what DataIndexes::GetFitUniqueHashIndex / GetFitMultiHashIndex return for the equality
		// columns of this query - compared with the generated functions run by the model on its own index list
		{ std::vector<size_t> offs; const ColumnList& cl = table.GetColumnList();
			if (mask & 1) offs.push_back(cl.GetOffset(id)); if (mask & 2) offs.push_back(cl.GetOffset(a));
			if (mask & 4) offs.push_back(cl.GetOffset(b)); if (mask & 8) offs.push_back(cl.GetOffset(c));
			long fu = -1, fm = -1; fitIndexes(table, offs, fu, fm); out << " f " << fu << " " << fm; }
	}
	else if (cmd == "QA") { mutating = false; long d = 0; bed.verifyAllSelects(&d); out << "qa " << d; }
	else if (cmd == "FU" || cmd == "FUR")
	{
		mutating = false; int mask = maskOf(is); R4 vals = readR4(is);
		long pos = (cmd == "FU") ? bed.findUnique(mask, vals, int(bed.ops & 1)) : bed.findUniqueByRow(mask, vals);
		bool have = std::find(bed.shU.begin(), bed.shU.end(), mask) != bed.shU.end();
		long exp = -1; for (size_t i = 0; i < sh.size(); ++i) if (Bed::keyEq(mask, sh[i], vals)) exp = long(i);
		if (!have) exp = -2;
		if (pos != exp) bed.bad("FindByUniqueHash returns " + std::to_string(pos) + ", brute force " + std::to_string(exp));
		if (pos == -2) out << "noindex"; else if (pos == -1) out << "fu none"; else out << "fu " << pos;
	}
	else if (cmd == "FM")
	{
		mutating = false; int mask = maskOf(is); R4 vals = readR4(is); std::vector<long> got;
		bool have = std::find(bed.shM.begin(), bed.shM.end(), mask) != bed.shM.end();
		bool ok = bed.findMulti(mask, vals, int(bed.ops & 1), got);
		if (ok != have) bed.bad("FindByMultiHash: index existence differs");
		if (!ok) out << "noindex";
		else {
			Pred pt; pt.kind = 'T'; std::vector<long> exp = bed.shSelect(mask, vals, pt);
			if (got != exp) bed.bad("FindByMultiHash returns " + std::to_string(got.size()) + " rows, brute force " + std::to_string(exp.size()));
			long d = 0; for (long x : got) d = foldDigest(d, x + 1);
			out << "fm " << got.size() << " " << d;
		}
	}
	else if (cmd == "P")
	{
		mutating = false; int distinct, mask; is >> distinct >> mask; std::unique_ptr<Pred> p = parsePred(is);
		const Table& ct = table; bool usePred = p->kind != 'T';
		auto filter = [&p] (CRef ref) { return evalPred(*p, readRef(ref)); };
		std::vector<std::vector<long>> got;
		auto collect = [&] (const Table& res, auto... cols) {
			for (auto ref : res) got.push_back(std::vector<long>{ projItem(ref, cols)... }); };
#if (VARIANT & 2) == 0
#define PROJ(...) do { Table res = distinct ? (usePred ? ct.ProjectDistinct(ColumnList(), filter, __VA_ARGS__) : ct.ProjectDistinct(ColumnList(), __VA_ARGS__)) \
	: (usePred ? ct.Project(ColumnList(), filter, __VA_ARGS__) : ct.Project(ColumnList(), __VA_ARGS__)); collect(res, __VA_ARGS__); } while (0)
#else
#define PROJ(...) do { Table res = distinct ? (usePred ? ct.ProjectDistinct(ColumnList(__VA_ARGS__), filter, __VA_ARGS__) : ct.ProjectDistinct(ColumnList(__VA_ARGS__), __VA_ARGS__)) \
	: (usePred ? ct.Project(ColumnList(__VA_ARGS__), filter, __VA_ARGS__) : ct.Project(ColumnList(__VA_ARGS__), __VA_ARGS__)); collect(res, __VA_ARGS__); } while (0)
#endif
		switch (mask) {
		case 2: PROJ(a); break; case 4: PROJ(b); break; case 8: PROJ(c); break;
		case 6: PROJ(a, b); break; case 12: PROJ(b, c); break; case 14: PROJ(a, b, c); break; case 9: PROJ(id, c); break;
		default: bed.bad("unknown projection"); }
#undef PROJ
		// brute force
		std::vector<std::vector<long>> exp;
		for (const R4& r : sh) { if (!evalPred(*p, r)) continue; std::vector<long> k = keyOf(mask, r);
			if (distinct && std::find(exp.begin(), exp.end(), k) != exp.end()) continue; exp.push_back(k); }
		if (got != exp) bed.bad("Project" + std::string(distinct ? "Distinct" : "") + " returns " + std::to_string(got.size()) + " rows, brute force " + std::to_string(exp.size()));
		long d = 0; for (auto& k : got) d = foldDigest(d, keyHash(k));
		out << "p " << got.size() << " " << d;
	}
	else if (cmd == "S")
	{
		mutating = false; int mask; is >> mask; std::unique_ptr<Pred> p = parsePred(is); std::string colon; is >> colon; R4 vals = readR4(is);
		auto filter = [&p] (CRef ref) { return evalPred(*p, readRef(ref)); };
		Table::Selection sel = table.Select(filter);
		Table::Selection grp = table.Select(filter);
		int iv[3] = { int(vals.v[0]), int(vals.v[1]), int(vals.v[2]) }; std::string sv = strOf(vals.v[3]);
		size_t lb = 0, ub = 0;
		// columns in ascending column order (no reversal): key comparison is lexicographic in that order
		switch (mask) {
		case 2: sel.Sort(a); grp.Group(a); lb = sel.GetLowerBound(CI::MakeEquality(a, iv[1])); ub = sel.GetUpperBound(CI::MakeEquality(a, iv[1])); break;
		case 4: sel.Sort(b); grp.Group(b); lb = sel.GetLowerBound(CI::MakeEquality(b, iv[2])); ub = sel.GetUpperBound(CI::MakeEquality(b, iv[2])); break;
		case 8: sel.Sort(c); grp.Group(c); lb = sel.GetLowerBound(CI::MakeEquality(c, sv)); ub = sel.GetUpperBound(CI::MakeEquality(c, sv)); break;
		case 6: sel.Sort(a, b); grp.Group(a, b); lb = sel.GetLowerBound(CI::MakeEquality(a, iv[1]), CI::MakeEquality(b, iv[2])); ub = sel.GetUpperBound(CI::MakeEquality(a, iv[1]), CI::MakeEquality(b, iv[2])); break;
		case 12: sel.Sort(b, c); grp.Group(b, c); lb = sel.GetLowerBound(CI::MakeEquality(b, iv[2]), CI::MakeEquality(c, sv)); ub = sel.GetUpperBound(CI::MakeEquality(b, iv[2]), CI::MakeEquality(c, sv)); break;
		case 14: sel.Sort(a, b, c); grp.Group(a, b, c); lb = sel.GetLowerBound(CI::MakeEquality(a, iv[1]), CI::MakeEquality(b, iv[2]), CI::MakeEquality(c, sv)); ub = sel.GetUpperBound(CI::MakeEquality(a, iv[1]), CI::MakeEquality(b, iv[2]), CI::MakeEquality(c, sv)); break;
		case 1: sel.Sort(id); grp.Group(id); lb = sel.GetLowerBound(CI::MakeEquality(id, iv[0])); ub = sel.GetUpperBound(CI::MakeEquality(id, iv[0])); break;
		default: bed.bad("unknown sort columns"); }
		// brute force: stable_sort of the filtered rows by key
		std::vector<long> expPos; for (size_t i = 0; i < sh.size(); ++i) if (evalPred(*p, sh[i])) expPos.push_back(long(i));
		std::vector<std::vector<long>> expKeys; for (long q : expPos) expKeys.push_back(keyOf(mask, sh[q]));
		std::stable_sort(expKeys.begin(), expKeys.end());
		std::vector<std::vector<long>> gotKeys; std::vector<long> gotPos;
		for (size_t i = 0; i < sel.GetCount(); ++i) { R4 r = readRef(sel[i]); gotKeys.push_back(keyOf(mask, r)); gotPos.push_back(bed.posOf(sel[i].GetRaw())); }
		if (gotKeys != expKeys) bed.bad("Selection::Sort: key sequence differs from stable_sort");
		std::sort(gotPos.begin(), gotPos.end()); if (gotPos != expPos) bed.bad("Selection::Sort: rows are not a permutation of the selection");
		std::vector<long> key = keyOf(mask, vals);
		size_t elb = size_t(std::lower_bound(expKeys.begin(), expKeys.end(), key) - expKeys.begin());
		size_t eub = size_t(std::upper_bound(expKeys.begin(), expKeys.end(), key) - expKeys.begin());
		if (lb != elb || ub != eub) bed.bad("Selection bounds " + std::to_string(lb) + ".." + std::to_string(ub) + ", brute force " + std::to_string(elb) + ".." + std::to_string(eub));
		// Group: permutation, equal keys contiguous
		std::vector<long> grpPos; std::vector<std::vector<long>> seenKeys;
		for (size_t i = 0; i < grp.GetCount(); ++i) {
			grpPos.push_back(bed.posOf(grp[i].GetRaw())); std::vector<long> k = keyOf(mask, readRef(grp[i]));
			if (seenKeys.empty() || seenKeys.back() != k) { if (std::find(seenKeys.begin(), seenKeys.end(), k) != seenKeys.end()) bed.bad("Selection::Group: equal keys are not contiguous"); seenKeys.push_back(k); } }
		std::sort(grpPos.begin(), grpPos.end()); if (grpPos != expPos) bed.bad("Selection::Group: rows are not a permutation of the selection");
		// the hash codes (momo's own DataTraits::AccumulateHashCode, as DataSelection::pvGetHashCode does) of the grouped rows must
		// be non-decreasing (HashSorter sorts by hash code first); the lengths of the runs of equal codes are the counts passed to
		// groupFunc - compared with GroupModel.group_runs for int columns
		long gd = 0; { size_t prevCode = 0; long runLen = 0;
			for (size_t i = 0; i < grp.GetCount(); ++i) { R4 r = readRef(grp[i]); size_t code = 0;
				if (mask & 8) Traits::AccumulateHashCode(code, strOf(r.v[3]), size_t(0));
				for (int q = 2; q >= 0; --q) if (mask >> q & 1) Traits::AccumulateHashCode(code, int(r.v[q]), size_t(0));
				if (i > 0 && code < prevCode) bed.bad("Selection::Group: hash codes are not non-decreasing");
				if (i > 0 && code != prevCode) { gd = foldDigest(gd, runLen); runLen = 0; }
				prevCode = code; ++runLen; }
			if (runLen > 0) gd = foldDigest(gd, runLen);
			if (mask & 8) gd = -1; }
		// DataSelection editing functions on a fresh selection (table order): a fixed script parameterised by the query, mirrored on
		// a shadow vector (oracle) and by SelEditModel (model driver): Reverse, Add(row), Insert(index,row), Insert(index, range),
		// Remove(index,count), Remove(filter), Set, Add(range), Assign
		long ed_n = 0, ed_d = 0;
		{
			Table::Selection ed = table.Select(filter); std::vector<long> shv = expPos;
			Table::Selection src = table.Select(filter);       // the rows handed in come from here
			auto same = [&] (const char* what) {
				bool ok = ed.GetCount() == shv.size();
				for (size_t i = 0; ok && i < shv.size(); ++i) ok = bed.posOf(ed[i].GetRaw()) == shv[i];
				if (!ok) bed.bad(std::string("Selection::") + what + ": selection differs from the list model"); };
			ed.Reverse(); std::reverse(shv.begin(), shv.end()); same("Reverse");
			size_t n0 = expPos.size();
			if (n0 > 0) {
				ed.Add(src[0]); shv.push_back(expPos[0]); same("Add(row)");
				ed.Insert(size_t(1), src[n0 - 1]); shv.insert(shv.begin() + 1, expPos[n0 - 1]); same("Insert(index,row)");
				size_t at = lb % (ed.GetCount() + 1);
				ed.Insert(at, src.GetBegin(), src.GetEnd()); shv.insert(shv.begin() + long(at), expPos.begin(), expPos.end()); same("Insert(index,range)");
				size_t ri = ub % ed.GetCount(); size_t rc = std::min<size_t>(2, ed.GetCount() - ri);
				ed.Remove(ri, rc); shv.erase(shv.begin() + long(ri), shv.begin() + long(ri + rc)); same("Remove(index,count)");
				size_t removed = ed.Remove([] (CRef r) { return (r[id] & 1) != 0; });
				size_t before = shv.size();
				shv.erase(std::remove_if(shv.begin(), shv.end(), [&] (long q) { return (sh[size_t(q)].v[0] & 1) != 0; }), shv.end());
				if (removed != before - shv.size()) bed.bad("Selection::Remove(filter) returns the wrong count"); same("Remove(filter)");
				if (ed.GetCount() > 0) { ed.Set(size_t(0), src[n0 / 2]); shv[0] = expPos[n0 / 2]; same("Set"); }
				ed.Add(src.GetBegin(), src.GetEnd()); shv.insert(shv.end(), expPos.begin(), expPos.end()); same("Add(range)");
				if (lb & 1) { ed.Assign(src.GetBegin(), src.GetEnd()); shv = expPos; same("Assign"); }
			}
			ed_n = long(shv.size()); for (long q : shv) ed_d = foldDigest(ed_d, q + 1);
		}
		long d = 0; for (auto& k : gotKeys) d = foldDigest(d, keyHash(k));
		out << "s " << gotKeys.size() << " " << d << " " << lb << " " << ub << " g " << gd << " e " << ed_n << " " << ed_d;
	}
	else if (cmd == "D")
	{
		mutating = false; out << "d";
		for (auto ref : static_cast<const Table&>(table)) { R4 r = readRef(ref); out << " " << r.v[0] << "." << r.v[1] << "." << r.v[2] << "." << r.v[3]; }
	}
	else { mutating = false; out << "?"; }
	++bed.ops;
	bed.posValid = false;
	if (mutating)
	{
		// measured coverage: largest multi-hash group, crossings of the segment boundaries 64 / 192 / 320 / 448
		long cur = 0;
		for (int mask : bed.shM) { std::map<std::vector<long>, long> cnt; for (const R4& r : sh) { long q = ++cnt[keyOf(mask, r)]; if (q > cur) cur = q; } }
		static const long kT[4] = { 64, 192, 320, 448 };
		for (int q = 0; q < 4; ++q) { if (bed.prevGroup <= kT[q] + 1 && cur > kT[q] + 1) ++g_up[q]; if (bed.prevGroup > kT[q] + 1 && cur <= kT[q] + 1) ++g_down[q]; }
		bed.prevGroup = cur; if (cur > g_maxgroup) g_maxgroup = cur; if (long(sh.size()) > g_maxrows) g_maxrows = long(sh.size());
		bed.verify(sh.size() <= 24 || bed.ops % 16 == 0);
		bed.posValid = false;
		out << " #" << table.GetCount() << ":" << bed.tableDigest() << ":" << bed.indexDigest();
	}
	return out.str();
}


int main(int argc, char** argv)
{
	(void)argc; (void)argv;
	std::string line; long cases = 0, failures = 0;
	while (std::getline(std::cin, line))
	{
		std::string outLine;
		{
			Bed bed; size_t pos = 0; bool first = true;
			// a case is "T | op | op | ..."
			while (pos <= line.size())
			{
				size_t bar = line.find('|', pos); if (bar == std::string::npos) bar = line.size();
				std::string text = line.substr(pos, bar - pos); pos = bar + 1;
				if (first) { first = false; continue; }
				std::string o;
				try { o = runOp(bed, text); }
				catch (const std::exception& e) { o = std::string("!ORACLE-FAIL:unexpected exception ") + e.what(); g_countdown = 0; }
				if (!outLine.empty()) outLine += "|";
				outLine += o;
			}
			if (!bed.fail.empty()) { outLine += " !ORACLE-FAIL:" + bed.fail; ++failures; }
		}
		if (g_live != 0) { outLine += " !ORACLE-FAIL:memory leak (" + std::to_string(g_live) + " live blocks)"; g_live = 0; }
		std::puts(outLine.c_str()); std::fflush(stdout); ++cases;
	}
	std::fprintf(stderr, "variant=%d dynamic=%d keepRowNumber=%d selectEqualityMaxCount=%d checkVersion=%d cases=%ld oracle_failures=%ld injected_faults=%ld allocations=%ld "
		"refusals=%ld max_rows=%ld max_multi_group=%ld segment_up=%ld/%ld/%ld/%ld segment_down=%ld/%ld/%ld/%ld\n",
		VARIANT, int(kDynamic), int(kKeepNumber), int(kSelMax), int(kCheckVersion), cases, failures, g_faults, g_allocs,
		g_refusals, g_maxrows, g_maxgroup, g_up[0], g_up[1], g_up[2], g_up[3], g_down[0], g_down[1], g_down[2], g_down[3]);
	return 0;
}
