(* C18 -- the bit array mMutableOffsets: UIntMath<uint8_t>::GetBit / SetBit as modelled in Model.v *)
From Coq Require Import ZArith Bool List Lia.
From MomoCommon Require Import GenPrelude.
From C18 Require Import Model.
From C18 Require Gen_Bits.
Local Open Scope Z_scope.

Lemma land_pow2 a k : 0 <= k -> Z.land a (2 ^ k) = if Z.testbit a k then 2 ^ k else 0.
Proof.
  intros Hk. apply Z.bits_inj'. intros n Hn. rewrite Z.land_spec, Z.pow2_bits_eqb by lia.
  destruct (Z.testbit a k) eqn:E.
  - rewrite Z.pow2_bits_eqb by lia. destruct (Z.eqb_spec k n); subst; rewrite ?E; simpl; auto using andb_false_r.
  - rewrite Z.bits_0. destruct (Z.eqb_spec k n); subst; rewrite ?E; simpl; auto using andb_false_r.
Qed.

Lemma lor_lt_pow2 a b n : 0 < n -> 0 <= a < 2 ^ n -> 0 <= b < 2 ^ n -> 0 <= Z.lor a b < 2 ^ n.
Proof.
  intros Hn Ha Hb.
  assert (H0 : 0 <= Z.lor a b) by (apply Z.lor_nonneg; lia).
  split; [exact H0|].
  destruct (Z.eq_dec (Z.lor a b) 0) as [->|Hne]; [apply Z.pow_pos_nonneg; lia|].
  apply Z.log2_lt_pow2; [lia|]. rewrite Z.log2_lor by lia.
  assert (Z.log2 a < n) by (destruct (Z.eq_dec a 0) as [->|]; [simpl; lia|apply Z.log2_lt_pow2; lia]).
  assert (Z.log2 b < n) by (destruct (Z.eq_dec b 0) as [->|]; [simpl; lia|apply Z.log2_lt_pow2; lia]).
  lia.
Qed.

Definition bytes_ok (b : Z -> Z) : Prop := forall i, 0 <= b i < 256.

Lemma mask_eq j : 0 <= j -> wrapU 8 (Z.shiftl 1 (wrapU 8 (j mod 8))) = 2 ^ (j mod 8) /\ 0 <= j mod 8 < 8 /\ 0 < 2 ^ (j mod 8) < 256.
Proof.
  intros Hj. pose proof (Z.mod_pos_bound j 8 ltac:(lia)) as B.
  assert (P : 0 < 2 ^ (j mod 8) < 256).
  { split; [apply Z.pow_pos_nonneg; lia|]. change 256 with (2 ^ 8). apply Z.pow_lt_mono_r; lia. }
  rewrite (wrapU_small 8 (j mod 8)) by (simpl; lia). rewrite Z.shiftl_1_l. rewrite wrapU_small by (simpl; lia). auto.
Qed.

Lemma GetBit_testbit b j : 0 <= j -> GetBit b j = Z.testbit (b (j / 8)) (j mod 8).
Proof.
  intros Hj. unfold GetBit. destruct (mask_eq j Hj) as (-> & B & P).
  rewrite land_pow2 by lia. destruct (Z.testbit (b (j / 8)) (j mod 8)); [|reflexivity].
  destruct (Z.eqb_spec (2 ^ (j mod 8)) 0); [lia|reflexivity].
Qed.

Lemma SetBit_ok b i : 0 <= i -> bytes_ok b -> bytes_ok (SetBit b i).
Proof.
  intros Hi Hb k. unfold SetBit, upd. destruct (Z.eqb k (i / 8)); [|apply Hb].
  destruct (mask_eq i Hi) as (-> & B & P).
  pose proof (lor_lt_pow2 (b (i / 8)) (2 ^ (i mod 8)) 8 ltac:(lia)) as H. change (2 ^ 8) with 256 in H.
  specialize (H (Hb _) ltac:(lia)). rewrite wrapU_small by (simpl; lia). exact H.
Qed.

Lemma GetBit_SetBit b i j : 0 <= i -> 0 <= j -> bytes_ok b ->
  GetBit (SetBit b i) j = Z.eqb i j || GetBit b j.
Proof.
  intros Hi Hj Hb. rewrite !GetBit_testbit by lia. unfold SetBit.
  destruct (mask_eq i Hi) as (-> & B & P).
  pose proof (lor_lt_pow2 (b (i / 8)) (2 ^ (i mod 8)) 8 ltac:(lia)) as H. change (2 ^ 8) with 256 in H.
  specialize (H (Hb _) ltac:(lia)). rewrite wrapU_small by (simpl; lia).
  pose proof (Z.div_mod i 8 ltac:(lia)) as Di. pose proof (Z.div_mod j 8 ltac:(lia)) as Dj.
  pose proof (Z.mod_pos_bound j 8 ltac:(lia)) as Bj.
  destruct (Z.eq_dec (j / 8) (i / 8)) as [E|E].
  - rewrite E, upd_same. rewrite Z.lor_spec, Z.pow2_bits_eqb by lia.
    rewrite orb_comm. f_equal.
    destruct (Z.eqb_spec (i mod 8) (j mod 8)); destruct (Z.eqb_spec i j); auto; lia.
  - rewrite upd_other by auto. destruct (Z.eqb_spec i j); [subst; contradiction|reflexivity].
Qed.

(* ---------- the cxx2coq translations of the real UIntMath<uint8_t>::GetBit / SetBit (Gen_Bits.v, pointer parameter as an
   array) are the bit functions of the model, for every non-negative bit index ---------- *)
Lemma GetBit_refines b j : 0 <= j -> Gen_Bits.GetBit b j = GetBit b j.
Proof.
  intros Hj. unfold Gen_Bits.GetBit, GetBit. cbv zeta.
  rewrite (wrapU_small 64 (1 * 8)) by (simpl; lia). change (1 * 8) with 8.
  destruct (mask_eq j Hj) as (E & B & P). rewrite E.
  rewrite (wrapU_small 8 (j mod 8)) by (simpl; lia). rewrite Z.shiftl_1_l. reflexivity.
Qed.

Lemma SetBit_refines b j : 0 <= j -> Gen_Bits.SetBit b j = SetBit b j.
Proof.
  intros Hj. unfold Gen_Bits.SetBit, SetBit. cbv zeta.
  rewrite (wrapU_small 64 (1 * 8)) by (simpl; lia). change (1 * 8) with 8.
  destruct (mask_eq j Hj) as (E & B & P). rewrite E.
  rewrite (wrapU_small 8 (j mod 8)) by (simpl; lia). rewrite Z.shiftl_1_l. reflexivity.
Qed.

(* hence the law of the bit array holds for the generated functions *)
Theorem generated_GetBit_SetBit b i j : 0 <= i -> 0 <= j -> bytes_ok b ->
  Gen_Bits.GetBit (Gen_Bits.SetBit b i) j = Z.eqb i j || Gen_Bits.GetBit b j.
Proof. intros Hi Hj Hb. rewrite SetBit_refines, !GetBit_refines by auto. apply GetBit_SetBit; auto. Qed.
