(* C14 round 2 -- structured container bodies ("unusual states" as model states).

   Model.v abstracts a container body to a list of blocks.  Here the body is the object graph the property talks
   about:
     SHash  : chain of bucket arrays (HashSetBuckets::mNextBuckets), newest first, each with the items it still holds
              (several generations after an interrupted relocation; one overloaded generation after a refused growth)
     STree  : NodeParams block (the node memory pools; they keep a POINTER to the memory manager stored in the owning
              set's crew -- modelled as the id of that crew block) + the nodes in preorder with their depth
     SMulti : bucket arrays of the key map + one entry per key with its value array (value-less keys: no array)
     STable : DataTable: array of raw pointers, one raw block per row, and the crew's freeRaws list (rows detached by
              DataRow destructors, possibly on other threads, waiting to be returned to the raw pool)
   with copy (as the code rebuilds it), move construction, swap, destruction, and TreeSet::MergeTo into an empty set with
   an equal manager (c7fda03).  `abs` maps a structured container to the abstract one of Model.v. *)
From Coq Require Import ZArith Bool List Lia.
From C14 Require Import PropagationModel Model.
Import ListNotations.
Local Open Scope Z_scope.

Record hgen := mkGen { gblock : block; gitems : list Z }.
Record tnode := mkNode { nblock : block; nitems : list Z; ndepth : nat }.
Record mkey := mkKey { mk : Z; marr : option block; mvals : list Z }.
Record trow := mkRow { rblock : block; rval : Z }.

Inductive sbody :=
| SHash (gens : list hgen)
| STree (params : option (block * Z)) (nodes : list tnode)      (* params: (NodeParams block, id of the crew its pools use) *)
| SMulti (buckets : list block) (keys : list mkey)
| STable (raws : option block) (rows : list trow) (free : list block).

Inductive sc := SOwned (c : crewd) (b : sbody) | SMovedFrom.

Definition opt_block (o : option block) : list block := match o with Some b => [b] | None => [] end.
Definition sb_blocks (b : sbody) : list block :=
  match b with
  | SHash gens => map gblock gens
  | STree p nodes => opt_block (option_map fst p) ++ map nblock nodes
  | SMulti bk keys => bk ++ flat_map (fun k => opt_block (marr k)) keys
  | STable raws rows free => opt_block raws ++ map rblock rows ++ free
  end.
Definition sb_items (b : sbody) : list Z :=
  match b with
  | SHash gens => flat_map gitems gens
  | STree _ nodes => flat_map nitems nodes
  | SMulti _ keys => flat_map (fun k => map (fun _ => mk k) (mvals k)) keys     (* one entry per (key, value) pair *)
  | STable _ rows _ => map rval rows
  end.
Definition abs (s : sc) : cc :=
  match s with SOwned c b => Owned c (sb_blocks b) (sb_items b) | SMovedFrom => MovedFrom end.

Definition crew_id (c : crewd) : Z := match cblocks c with b :: _ => fst b | [] => -1 end.

(* ---------------------------------------------------------------- pointer-level operations: the whole graph moves *)
Definition s_move_ctor (src : sc) : sc * sc := (src, SMovedFrom).
Definition s_swap (a b : sc) : sc * sc := (b, a).

(* TreeSet::MergeTo(dst) when dst is empty and the managers are equal.  NOW (c7fda03): Swap(dst) -- crews included. *)
Definition s_merge_to_empty (src dst : sc) : sc * sc := s_swap src dst.
(* BEFORE c7fda03: only mCount / mRootNode / mNodeParams were exchanged; each set kept its own crew *)
Definition s_merge_to_empty_old (src dst : sc) : sc * sc :=
  match src, dst with
  | SOwned sc_ sb, SOwned dc db => (SOwned sc_ db, SOwned dc sb)
  | _, _ => (src, dst)
  end.

(* the node pools of a tree use the manager stored in the crew of the set that holds them *)
Definition pools_okb (s : sc) : bool :=
  match s with
  | SOwned c (STree (Some (_, cref)) _) => Z.eqb cref (crew_id c)
  | _ => true
  end.

(* ---------------------------------------------------------------- deep copy, as the copy constructors rebuild it *)
Fixpoint copy_nodes (m : mgr) (ns : list tnode) (w : world) : list tnode * world :=
  match ns with
  | [] => ([], w)
  | n :: r => let (b, w1) := alloc m w in
              let (r', w2) := copy_nodes m r w1 in
              (mkNode b (nitems n) (ndepth n) :: r', w2)          (* TreeSet::pvCopy: node by node, same shape *)
  end.
Fixpoint copy_keys (m : mgr) (ks : list mkey) (w : world) : list mkey * world :=
  match ks with
  | [] => ([], w)
  | k :: r =>
      let (arr, w1) := match mvals k with
                       | [] => (None, w)                        (* ValueArray(params, empty array): nothing allocated; the KEY is still inserted *)
                       | _ => let (b, w1) := alloc m w in (Some b, w1)
                       end in
      let (r', w2) := copy_keys m r w1 in
      (mkKey (mk k) arr (mvals k) :: r', w2)
  end.
Fixpoint copy_rows (m : mgr) (rs : list trow) (w : world) : list trow * world :=
  match rs with
  | [] => ([], w)
  | r :: t => let (b, w1) := alloc m w in
              let (t', w2) := copy_rows m t w1 in (mkRow b (rval r) :: t', w2)
  end.

Definition s_copy_body (m : mgr) (newcrew : Z) (b : sbody) (w : world) : sbody * world :=
  match b with
  | SHash gens =>
      (* HashSet(const HashSet&, MemManager): mCount == 0 -> no buckets; else ONE bucket array sized for the count *)
      match flat_map gitems gens with
      | [] => (SHash [], w)
      | its => let (bk, w1) := alloc m w in (SHash [mkGen bk its], w1)
      end
  | STree p nodes =>
      (* TreeSet(const TreeSet&, MemManager): mCount == 0 -> nothing; else pvCreateNodeParams() + pvCopy(root) *)
      match flat_map nitems nodes with
      | [] => (STree None [], w)
      | _ => let (pb, w1) := alloc m w in
             let (ns, w2) := copy_nodes m nodes w1 in (STree (Some (pb, newcrew)) ns, w2)
      end
  | SMulti bk keys =>
      (* HashMultiMap(const&, MemManager): mHashMap.Reserve(key count); Insert(key, ValueArray copy) for EVERY key *)
      match keys with
      | [] => (SMulti [] [], w)
      | _ => let (nb, w1) := alloc m w in
             let (ks, w2) := copy_keys m keys w1 in (SMulti [nb] ks, w2)
      end
  | STable raws rows free =>
      (* DataTable(const DataTable&): fresh crew, rows imported one by one; the source's freeRaws are not copied *)
      match rows with
      | [] => (STable None [] [], w)
      | _ => let (ra, w1) := alloc m w in
             let (rs, w2) := copy_rows m rows w1 in (STable (Some ra) rs [], w2)
      end
  end.

Definition s_copy (k : ckind) (src : sc) (m : mgr) (w : world) : res sc :=
  match src with
  | SMovedFrom => NullCrew
  | SOwned _ b =>
      let (cb, w1) := alloc_n (crew_n k) m w in
      let cr := mkCrew cb m in
      let (b', w2) := s_copy_body m (crew_id cr) b w1 in
      Ok (SOwned cr b') (emit (map ECopy (sb_items b)) w2)
  end.

(* destruction walks the whole graph and returns every block through the crew's manager *)
Definition s_destroy (s : sc) (w : world) : res unit :=
  match s with
  | SMovedFrom => Ok tt w
  | SOwned cr b =>
      dealloc_all (cmgr cr) (sb_blocks b) (emit (map EDestroy (sb_items b)) w) >>= fun _ w1 =>
      dealloc_all (cmgr cr) (cblocks cr) w1
  end.

(* ---------------------------------------------------------------- structure summaries (what the harness prints) *)
Definition gen_counts (b : sbody) : list nat := match b with SHash gens => map (fun g => length (gitems g)) gens | _ => [] end.
Definition tree_shape (b : sbody) : list (nat * nat) :=
  match b with STree _ nodes => map (fun n => (ndepth n, length (nitems n))) nodes | _ => [] end.
Definition key_shape (b : sbody) : list (Z * nat) :=
  match b with SMulti _ keys => map (fun k => (mk k, length (mvals k))) keys | _ => [] end.
Definition valueless (b : sbody) : nat :=
  match b with SMulti _ keys => length (filter (fun k => match mvals k with [] => true | _ => false end) keys) | _ => O end.

(* ================================================================ round 3 *)
(* ---- the structure a target has after an ELEMENT-WISE move (unequal non-propagating allocators; MergeFrom / Add loop):
   a fresh structure built by inserting the source's items in traversal order.  Hash: one bucket array (the incremental
   relocation completes inside every insertion); multimap: only keys that have values arrive (the loop runs over
   (key, value) pairs); tree: the shape of a tree built by ascending insertion -- given as `fresh_shape`, which the tie
   takes from an independently built real object (ascending insertion of the same number of items). *)
Fixpoint reshape (sh : list (nat * nat)) (its : list Z) : list tnode :=
  match sh with
  | [] => []
  | (d, c) :: r => mkNode (0, 0) (firstn c its) d :: reshape r (skipn c its)
  end.
Definition has_values (k : mkey) : bool := match mvals k with [] => false | _ => true end.
Definition traversal_normal_form (fresh_shape : list (nat * nat)) (b : sbody) : sbody :=
  match b with
  | SHash gens => SHash gens
  | STree p nodes => STree p (reshape fresh_shape (flat_map nitems nodes))
  | SMulti bk keys => SMulti bk (filter has_values keys)
  | STable raws rows free => STable raws rows free
  end.
Definition s_elementwise_body (m : mgr) (newcrew : Z) (fresh_shape : list (nat * nat)) (b : sbody) (w : world) : sbody * world :=
  s_copy_body m newcrew (traversal_normal_form fresh_shape b) w.
(* the source afterwards: same crew, same storage skeleton, no items (sets keep params + an empty root / their newest
   bucket array; the multimap wrapper calls clear()) -- kept observational in the driver, see NOTES.md *)

(* ---- TreeSet::MergeTo into a NON-empty set: node pools and their buffers.
   A tree's nodes live in buffers of the memory pools inside its NodeParams.  Fast path (equal managers, key ranges do not
   interleave): the two trees are joined under dst's root and `dst.mNodeParams->MergeFrom( *src.mNodeParams)` relinks
   every buffer of src's pools into dst's pools (the list surgery of MemPool::MergeFrom is property C09; here only its
   ownership effect matters).  Element-wise path (unequal managers, or interleaving keys): every item is extracted from
   src and inserted into dst; src's nodes go back to src's pools, dst allocates new nodes from its own. *)
Record pnode := mkPNode { pn_buf : Z; pn_items : list Z }.            (* pn_buf: id of the pool buffer holding the node *)
Record mtree := mkMTree { m_crew : crewd; m_bufs : list block; m_nodes : list pnode }.

Definition nodes_in_own_bufs (t : mtree) : bool :=
  forallb (fun n => existsb (Z.eqb (pn_buf n)) (map fst (m_bufs t))) (m_nodes t).
Definition m_items (t : mtree) : list Z := flat_map pn_items (m_nodes t).

(* fast path; `joined` = dst's and src's nodes after the join (same buffers, the one relocated separator item aside) *)
Definition merge_fast (dst src : mtree) : mtree * mtree :=
  (mkMTree (m_crew dst) (m_bufs dst ++ m_bufs src) (m_nodes dst ++ m_nodes src),
   mkMTree (m_crew src) [] []).
(* element-wise path: dst gets n fresh nodes in (possibly new) buffers of its own pools; src keeps its buffers, no nodes *)
Definition merge_elementwise (dst src : mtree) (w : world) : mtree * mtree * world :=
  let its := m_items src in
  match its with
  | [] => (dst, src, w)
  | _ => let (nb, w1) := alloc (cmgr (m_crew dst)) w in
         (mkMTree (m_crew dst) (m_bufs dst ++ [nb]) (m_nodes dst ++ [mkPNode (fst nb) its]),
          mkMTree (m_crew src) (m_bufs src) [],
          emit (map EMove its ++ map EDestroy its) w1)
  end.

(* ---- DataTable indexes: unique / multi hash indexes over the raws *)
Record tindex := mkIdx { iunique : bool; iblocks : list block; ientries : nat }.
Record stable := mkSTable { t_body : sbody; t_idx : list tindex }.
Fixpoint copy_idxs (m : mgr) (nrows : nat) (is : list tindex) (w : world) : list tindex * world :=
  match is with
  | [] => ([], w)
  | i :: r =>
      (* DataTable(const&): mIndexes.Assign(table.mIndexes) re-creates every index definition; pvFill then adds each
         imported row to every index: storage only if there are rows *)
      let (bs, w1) := match nrows with O => ([], w) | _ => let (b, w1) := alloc m w in ([b], w1) end in
      let (r', w2) := copy_idxs m nrows r w1 in
      (mkIdx (iunique i) bs nrows :: r', w2)
  end.
Definition table_rows (b : sbody) : nat := match b with STable _ rows _ => length rows | _ => O end.
Definition s_copy_table (m : mgr) (newcrew : Z) (t : stable) (w : world) : stable * world :=
  let (b', w1) := s_copy_body m newcrew (t_body t) w in
  let (is', w2) := copy_idxs m (table_rows (t_body t)) (t_idx t) w1 in
  (mkSTable b' is', w2).
Definition idx_blocks (t : stable) : list block := flat_map iblocks (t_idx t).
Definition idx_shape (t : stable) : list (bool * nat) := map (fun i => (iunique i, ientries i)) (t_idx t).
