(* C06 - erase(first,last) of the unordered wrappers, with explicit iterator KINDS.
   A momo hash iterator is either TRAVERSABLE (from begin()/++ of a traversable one) or LOOKUP-DERIVED
   (from find / insert / equal_range): operator++ of a lookup-derived iterator yields end() (HashSet.h:315-323;
   for the multimap it still walks the values of its key, HashMultiMap.h:228-235,292-304).  Iterator equality
   compares positions only.  State = the traversal order of the container (a list of elements). *)
From Coq Require Import List ZArith Bool Lia Arith.
From C06 Require Import Spec SpecProofs WrapOrdered.
Import ListNotations.

Inductive iter := End | At (pos : nat) (trav : bool).
Inductive result := Throw | Done (rest : list elem) (ret : option elem).

Definition it_eq (a b : iter) : bool :=
  match a, b with End, End => true | At i _, At j _ => i =? j | _, _ => false end.
Definition it_wf (n : nat) (a : iter) : Prop := match a with End => True | At i _ => i < n end.
Definition pos_of (n : nat) (a : iter) : nat := match a with End => n | At i _ => i end.
Definition is_trav (a : iter) : bool := match a with At _ false => false | _ => true end.
Definition deref (l : list elem) (a : iter) : option elem := match a with End => None | At i _ => nth_error l i end.

(* [first,last) as C++ defines it: the positions visited by ++ from first until the iterator equals last *)
Fixpoint walk (next : iter -> iter) (fuel : nat) (a last : iter) : option (list nat) :=
  if it_eq a last then Some [] else
  match fuel with
  | 0 => None
  | S f => match a with End => None | At i _ => option_map (cons i) (walk next f (next a) last) end
  end.

(* ---------- unordered_set / unordered_map ---------- *)
Definition us_next (n : nat) (a : iter) : iter :=
  match a with
  | End => End
  | At i true => if S i <? n then At (S i) true else End
  | At i false => End
  end.
Definition us_begin (n : nat) : iter := if n =? 0 then End else At 0 true.
(* erase(where): HashSet::Remove returns the traversal successor, or end() for a lookup-derived iterator *)
Definition us_erase_one (l : list elem) (a : iter) : result :=
  match a with
  | End => Throw
  | At i trav => Done (erase_range i (S i) l) (if trav then nth_error l (S i) else None)
  end.
(* unordered_set.h:565-577 / unordered_map.h:628-643, shape after commit b584262 *)
Definition us_erase_range (l : list elem) (first last : iter) : result :=
  let n := length l in
  if it_eq first last then Done l (deref l first)
  else if negb (it_eq first End) && it_eq (us_next n first) last then us_erase_one l first
  else if it_eq first (us_begin n) && it_eq last End then Done [] None
  else Throw.
(* shape before b584262: whole-container test first *)
Definition us_erase_range_prefix (l : list elem) (first last : iter) : result :=
  let n := length l in
  if it_eq first (us_begin n) && it_eq last End then Done [] None
  else if it_eq first last then Done l (deref l first)
  else if negb (it_eq first End) && it_eq (us_next n first) last then us_erase_one l first
  else Throw.

(* ---------- unordered_multimap: traversal order with the values of one key adjacent ---------- *)
Fixpoint run_len (k : Z) (l : list elem) : nat :=
  match l with e :: t => if (key e =? k)%Z then S (run_len k t) else 0 | [] => 0 end.
Definition kend (l : list elem) (p : nat) : nat := p + run_len (keyat l p) (skipn p l).     (* MakeIterator(keyIter, count) *)
Definition kstart (l : list elem) (p : nat) : nat := p - run_len (keyat l p) (rev (firstn p l)). (* MakeIterator(keyIter, 0) *)
Definition mm_next (l : list elem) (a : iter) : iter :=
  match a with
  | End => End
  | At p true => if S p <? length l then At (S p) true else End
  | At p false => if S p <? kend l p then At (S p) false else End
  end.
Definition mm_key_last (l : list elem) (p : nat) (trav : bool) : iter :=
  if trav then (if kend l p <? length l then At (kend l p) true else End) else End.
(* erase(where): count == 1 -> RemoveKey, else swap-with-last Remove; the order inside the key is abstracted *)
Definition mm_erase_one (l : list elem) (a : iter) : result :=
  match a with
  | End => Throw
  | At p trav => Done (erase_range p (S p) l)
      (if S p <? kend l p then nth_error l (kend l p - 1) else deref l (mm_key_last l p trav))
  end.
Definition mm_step3 (l : list elem) (first last : iter) : result :=
  if it_eq first (us_begin (length l)) && it_eq last End then Done [] None else Throw.
(* unordered_multimap.h:569-592, shape after commit 8a385f6 *)
Definition mm_erase_range (l : list elem) (first last : iter) : result :=
  if it_eq first last then Done l (deref l first)
  else match first with
       | End => mm_step3 l first last
       | At p trav =>
           if it_eq (mm_next l first) last then mm_erase_one l first
           else if (p =? kstart l p) && it_eq last (mm_key_last l p trav)
                then Done (erase_range p (kend l p) l) (deref l (mm_key_last l p trav))
                else mm_step3 l first last
       end.
(* shape before 8a385f6: whole-container test first, whole-key test without "first is the key's first value" *)
Definition mm_erase_range_prefix (l : list elem) (first last : iter) : result :=
  if it_eq first (us_begin (length l)) && it_eq last End then Done [] None
  else if it_eq first last then Done l (deref l first)
  else match first with
       | End => Throw
       | At p trav =>
           if it_eq (mm_next l first) last then mm_erase_one l first
           else if it_eq last (mm_key_last l p trav)
                then Done (erase_range (kstart l p) (kend l p) l) (deref l (mm_key_last l p trav))
                else Throw
       end.

(* ---------------- proofs ---------------- *)
Lemma it_eq_pos n a b : it_wf n a -> it_wf n b -> it_eq a b = (pos_of n a =? pos_of n b).
Proof.
  destruct a, b; simpl; intros; auto.
  - rewrite Nat.eqb_refl; auto.
  - symmetry. apply Nat.eqb_neq. lia.
  - symmetry. apply Nat.eqb_neq. lia.
Qed.

Lemma erase_nothing (l : list elem) i : erase_range i (i + 0) l = l.
Proof. unfold erase_range. rewrite Nat.add_0_r. apply firstn_skipn. Qed.
Lemma erase_all (l : list elem) : erase_range 0 (0 + length l) l = [].
Proof. unfold erase_range. simpl. apply skipn_all. Qed.

Lemma walk_S next f a last : walk next (S f) a last =
  if it_eq a last then Some [] else
  match a with End => None | At i _ => option_map (cons i) (walk next f (next a) last) end.
Proof. reflexivity. Qed.
Lemma walk_0 next a last : walk next 0 a last = if it_eq a last then Some [] else None.
Proof. reflexivity. Qed.

Lemma walk_same next fuel a : walk next fuel a a = Some [].
Proof. destruct fuel, a; simpl; try rewrite Nat.eqb_refl; reflexivity. Qed.

(* walking with a traversable iterator visits consecutive positions up to last *)
Lemma walk_trav next n last : it_wf n last ->
  (forall i, i < n -> next (At i true) = if S i <? n then At (S i) true else End) ->
  forall fuel i ps, i < n -> walk next fuel (At i true) last = Some ps ->
  i <= pos_of n last /\ ps = seq i (pos_of n last - i).
Proof.
  intros Hl Hn. induction fuel as [|f IH]; intros i ps Hi.
  - rewrite walk_0, (it_eq_pos n) by (simpl; auto). simpl pos_of.
    destruct (Nat.eqb_spec i (pos_of n last)) as [e|e]; try discriminate. intros E; injection E as <-.
    rewrite <- e, Nat.sub_diag. simpl; auto.
  - rewrite walk_S, (it_eq_pos n) by (simpl; auto). simpl pos_of.
    destruct (Nat.eqb_spec i (pos_of n last)) as [e|e].
    + intros E; injection E as <-. rewrite <- e, Nat.sub_diag. simpl; auto.
    + rewrite Hn by auto. destruct (Nat.ltb_spec (S i) n).
      * destruct (walk next f (At (S i) true) last) as [ps'|] eqn:W; simpl; try discriminate.
        intros E; inversion E; subst. destruct (IH (S i) ps' H W) as [A B]. split; [lia|].
        rewrite B. replace (pos_of n last - i) with (S (pos_of n last - S i)) by lia. reflexivity.
      * destruct f; [rewrite walk_0|rewrite walk_S]; destruct last as [|j tj]; simpl in *; try discriminate;
        intros E; inversion E; subst; (split; [lia|]); replace (n - i) with 1 by lia; reflexivity.
Qed.

Theorem us_erase_range_cases l first last ps :
  let n := length l in
  it_wf n first -> it_wf n last ->
  walk (us_next n) (S n) first last = Some ps ->
  match us_erase_range l first last with
  | Throw => 2 <= length ps < n
  | Done rest ret =>
      exists i m, ps = seq i m /\ rest = erase_range i (i + m) l /\ (m = 0 \/ m = 1 \/ m = n) /\
                  (is_trav first = true -> ret = deref l last) /\
                  (is_trav first = false -> ret = None \/ m = 0)
  end.
Proof.
  intros n Hf Hl W. unfold us_erase_range. fold n.
  destruct first as [|i [|]].
  - (* first = end *)
    simpl in W. destruct last; simpl in *; try discriminate. inversion W; subst.
    exists 0, 0. rewrite erase_nothing. repeat split; auto.
  - (* traversable *)
    simpl in Hf.
    destruct (walk_trav (us_next n) n last Hl ltac:(intros; reflexivity) (S n) i ps Hf W) as [A B].
    rewrite (it_eq_pos n) by (simpl; auto). simpl pos_of.
    destruct (Nat.eqb_spec i (pos_of n last)) as [E|E].
    + exists i, 0. rewrite erase_nothing. subst ps. rewrite <- E, Nat.sub_diag. repeat split; auto; try discriminate.
      intros _. destruct last; simpl in *; [lia|subst; auto].
    + simpl it_eq at 1. simpl negb. rewrite andb_true_l.
      assert (Hnx : it_wf n (us_next n (At i true))) by (simpl; destruct (Nat.ltb_spec (S i) n); simpl; auto).
      rewrite (it_eq_pos n (us_next n (At i true))) by auto.
      assert (Pn : pos_of n (us_next n (At i true)) = S i) by (simpl; destruct (Nat.ltb_spec (S i) n); simpl; lia).
      rewrite Pn. destruct (Nat.eqb_spec (S i) (pos_of n last)) as [E1|E1].
      * unfold us_erase_one. exists i, 1. subst ps. rewrite <- E1. replace (S i - i) with 1 by lia.
        replace (i + 1) with (S i) by lia. repeat split; auto; try discriminate.
        intros _. destruct last as [|j tj]; unfold deref, pos_of in *.
        -- apply nth_error_None. fold n. lia.
        -- subst j; auto.
      * rewrite (it_eq_pos n) by (simpl; auto; unfold us_begin; destruct (Nat.eqb_spec n 0); simpl; auto; lia).
        assert (Pb : pos_of n (us_begin n) = 0) by (unfold us_begin; destruct (Nat.eqb_spec n 0); simpl; lia).
        rewrite Pb. simpl pos_of.
        destruct (Nat.eqb_spec i 0) as [E2|E2]; simpl.
        -- destruct last as [|j tj]; simpl.
           ++ exists 0, n. subst i ps. unfold pos_of. rewrite Nat.sub_0_r. change (erase_range 0 (0 + n) l) with (erase_range 0 (0 + length l) l). rewrite erase_all.
              repeat split; auto.
           ++ subst ps. rewrite seq_length. simpl in *. lia.
        -- subst ps. rewrite seq_length. destruct last; simpl in *; lia.
  - (* lookup-derived *)
    simpl in Hf. rewrite walk_S in W.
    destruct last as [|j tj]; simpl it_eq in *.
    + simpl us_next in W. rewrite walk_same in W. simpl in W. injection W as <-.
      unfold us_erase_one. exists i, 1. replace (i + 1) with (S i) by lia.
      repeat split; auto; discriminate.
    + simpl in Hl. destruct (Nat.eqb_spec i j).
      * injection W as <-. subst. exists j, 0. rewrite erase_nothing. repeat split; auto; discriminate.
      * simpl us_next in W. destruct n; [lia|]. rewrite walk_S in W. simpl in W. discriminate.
Qed.

(* the pre-fix shape is wrong: erase(equal_range(k)) for the first-traversed key cleared the container *)
Theorem us_erase_range_prefix_refuted : exists l first last ps,
  it_wf (length l) first /\ it_wf (length l) last /\
  walk (us_next (length l)) (S (length l)) first last = Some ps /\ ps = [0] /\
  us_erase_range_prefix l first last = Done [] None /\
  us_erase_range l first last = Done [(2%Z, 0%Z)] None.
Proof. exists [(1%Z, 0%Z); (2%Z, 0%Z)], (At 0 false), End, [0]. vm_compute. repeat split; auto. Qed.

(* ---------------- unordered_multimap ---------------- *)
Lemma skipn_cons_nth (l : list elem) p : p < length l -> skipn p l = nth p l dflt :: skipn (S p) l.
Proof.
  revert p; induction l as [|e t IH]; intros p Hp; [simpl in Hp; lia|].
  destruct p; [reflexivity|]. change (skipn p t = nth p t dflt :: skipn (S p) t). apply IH. simpl in Hp. lia.
Qed.
Lemma run_len_le k l : run_len k l <= length l.
Proof. induction l; simpl; auto. destruct (_ =? _)%Z; lia. Qed.
Lemma kend_unfold l p : p < length l -> kend l p = S p + run_len (keyat l p) (skipn (S p) l).
Proof.
  intros Hp. unfold kend. rewrite (skipn_cons_nth l p Hp). simpl. unfold keyat. rewrite Z.eqb_refl. lia.
Qed.
Lemma kend_bounds l p : p < length l -> p < kend l p <= length l.
Proof.
  intros Hp. rewrite kend_unfold by auto. pose proof (run_len_le (keyat l p) (skipn (S p) l)).
  rewrite skipn_length in H. lia.
Qed.
Lemma kend_next l p : p < length l -> S p < kend l p -> S p < length l /\ kend l (S p) = kend l p.
Proof.
  intros Hp H. pose proof (kend_bounds l p Hp). assert (Hs : S p < length l) by lia. split; auto.
  rewrite (kend_unfold l p Hp) in *. unfold kend. rewrite (skipn_cons_nth l (S p) Hs) in *.
  simpl in H. simpl. fold (keyat l (S p)) in *. rewrite Z.eqb_refl.
  destruct (Z.eqb_spec (keyat l (S p)) (keyat l p)) as [E|E]; [rewrite E; lia|lia].
Qed.

(* walking with a lookup-derived multimap iterator stays inside the key, then reaches end() *)
Lemma walk_lookup l last E : it_wf (length l) last ->
  forall fuel p ps, p < length l -> kend l p = E ->
  walk (mm_next l) fuel (At p false) last = Some ps ->
  exists q, p <= q <= E /\ ps = seq p (q - p) /\
            ((q < E /\ exists t, last = At q t) \/ (q = E /\ last = End)).
Proof.
  intros Hl. induction fuel as [|f IH]; intros p ps Hp HE.
  - rewrite walk_0. destruct last as [|j tj]; simpl; try discriminate.
    destruct (Nat.eqb_spec p j); try discriminate. intros W; injection W as <-. subst j.
    pose proof (kend_bounds l p Hp). exists p. rewrite Nat.sub_diag. repeat split; try lia. left. split; [lia|eauto].
  - rewrite walk_S. pose proof (kend_bounds l p Hp) as KB.
    destruct (it_eq (At p false) last) eqn:Eq.
    + intros W; injection W as <-. destruct last as [|j tj]; simpl in Eq; try discriminate.
      apply Nat.eqb_eq in Eq. subst j. exists p. rewrite Nat.sub_diag. repeat split; try lia. left. split; [lia|eauto].
    + simpl mm_next. rewrite HE. destruct (Nat.ltb_spec (S p) E) as [Lt|Ge].
      * destruct (kend_next l p Hp ltac:(lia)) as [Hs Hk].
        destruct (walk (mm_next l) f (At (S p) false) last) as [ps'|] eqn:W'; simpl; try discriminate.
        intros W; injection W as <-. destruct (IH (S p) ps' Hs ltac:(lia) W') as [q [Q1 [Q2 Q3]]].
        exists q. repeat split; try lia; auto. rewrite Q2. replace (q - p) with (S (q - S p)) by lia. reflexivity.
      * destruct last as [|j tj].
        -- rewrite walk_same. simpl. intros W; injection W as <-. exists E.
           replace (E - p) with 1 by lia. repeat split; try lia. right; auto.
        -- destruct f; simpl; discriminate.
Qed.

Theorem mm_erase_range_cases l first last ps :
  let n := length l in
  it_wf n first -> it_wf n last ->
  walk (mm_next l) (S n) first last = Some ps ->
  match mm_erase_range l first last with
  | Throw => 2 <= length ps < n
  | Done rest ret => exists i m, ps = seq i m /\ rest = erase_range i (i + m) l /\
                     (m = 0 \/ m = 1 \/ (i = kstart l i /\ i + m = kend l i) \/ m = n)
  end.
Proof.
  intros n Hf Hl W. unfold mm_erase_range.
  destruct first as [|p [|]].
  - (* first = end *)
    rewrite walk_S in W. destruct last; simpl in *; try discriminate. injection W as <-.
    exists 0, 0. rewrite erase_nothing. auto.
  - (* traversable *)
    simpl in Hf.
    destruct (walk_trav (mm_next l) n last Hl ltac:(intros; reflexivity) (S n) p ps Hf W) as [A B].
    pose proof (kend_bounds l p Hf) as KB.
    assert (PL : pos_of n last <= n) by (destruct last; simpl in Hl |- *; lia).
    rewrite (it_eq_pos n) by (simpl; auto). simpl pos_of.
    destruct (Nat.eqb_spec p (pos_of n last)) as [E|E].
    + exists p, 0. rewrite erase_nothing. subst ps. rewrite <- E, Nat.sub_diag. auto.
    + assert (Hnx : it_wf n (mm_next l (At p true))) by (simpl; destruct (Nat.ltb_spec (S p) (length l)); simpl; auto).
      rewrite (it_eq_pos n (mm_next l (At p true))) by auto.
      assert (Pn : pos_of n (mm_next l (At p true)) = S p) by (simpl; destruct (Nat.ltb_spec (S p) (length l)); simpl; unfold n; lia).
      rewrite Pn. destruct (Nat.eqb_spec (S p) (pos_of n last)) as [E1|E1].
      * unfold mm_erase_one. exists p, 1. subst ps. rewrite <- E1. replace (S p - p) with 1 by lia.
        replace (p + 1) with (S p) by lia. auto.
      * assert (Hkl : it_wf n (mm_key_last l p true)) by (unfold mm_key_last; destruct (Nat.ltb_spec (kend l p) (length l)); simpl; auto).
        assert (Pk : pos_of n (mm_key_last l p true) = kend l p) by (unfold mm_key_last; destruct (Nat.ltb_spec (kend l p) (length l)); simpl; unfold n; lia).
        rewrite (it_eq_pos n last) by auto. rewrite Pk.
        destruct ((p =? kstart l p) && (pos_of n last =? kend l p)) eqn:C.
        -- apply andb_true_iff in C. destruct C as [C0 C]. apply Nat.eqb_eq in C. apply Nat.eqb_eq in C0.
           exists p, (kend l p - p). subst ps. rewrite C. replace (p + (kend l p - p)) with (kend l p) by lia.
           repeat split; auto; try (right; right; left; split; auto; lia).
        -- unfold mm_step3. rewrite (it_eq_pos n) by (simpl; auto; unfold us_begin; destruct (Nat.eqb_spec (length l) 0); simpl; auto; unfold n; lia).
           assert (Pb : pos_of n (us_begin (length l)) = 0) by (unfold us_begin; destruct (Nat.eqb_spec (length l) 0); simpl; unfold n; lia).
           rewrite Pb. simpl pos_of. destruct (Nat.eqb_spec p 0) as [E2|E2]; simpl.
           ++ destruct last as [|j tj]; simpl.
              ** exists 0, n. subst p ps. unfold pos_of. rewrite Nat.sub_0_r.
                 change (erase_range 0 (0 + n) l) with (erase_range 0 (0 + length l) l). rewrite erase_all.
                 repeat split; auto; try (right; right; right; reflexivity).
              ** subst ps. rewrite seq_length. simpl in *. lia.
           ++ subst ps. rewrite seq_length. lia.
  - (* lookup-derived *)
    simpl in Hf. pose proof (kend_bounds l p Hf) as KB.
    destruct (walk_lookup l last (kend l p) Hl (S n) p ps Hf eq_refl W) as [q [Q1 [Q2 Q3]]].
    destruct (it_eq (At p false) last) eqn:Eq.
    + destruct last as [|j tj]; simpl in Eq; try discriminate. apply Nat.eqb_eq in Eq. subst j.
      destruct Q3 as [[_ [t Q3]]|[_ Q3]]; try discriminate. injection Q3 as <- <-.
      exists p, 0. rewrite erase_nothing. subst ps. rewrite Nat.sub_diag. auto.
    + simpl mm_next. destruct (Nat.ltb_spec (S p) (kend l p)) as [Lt|Ge].
      * (* next stays in the key *)
        destruct (it_eq (At (S p) false) last) eqn:Eq1.
        -- destruct last as [|j tj]; unfold it_eq in Eq1; try discriminate. apply Nat.eqb_eq in Eq1. subst j.
           destruct Q3 as [[_ [t Q3]]|[_ Q3]]; try discriminate. injection Q3 as <- <-.
           unfold mm_erase_one. exists p, 1. subst ps. replace (S p - p) with 1 by lia. replace (p + 1) with (S p) by lia. auto.
        -- unfold mm_key_last. destruct last as [|j tj].
           ++ simpl it_eq. rewrite andb_true_r. destruct Q3 as [[_ [t Q3]]|[Q3 _]]; try discriminate. subst q.
              destruct (Nat.eqb_spec p (kstart l p)).
              ** exists p, (kend l p - p). replace (p + (kend l p - p)) with (kend l p) by lia.
                 repeat split; auto; try (right; right; left; split; auto; lia).
              ** unfold mm_step3. simpl it_eq. rewrite andb_true_r.
                 unfold us_begin. destruct (Nat.eqb_spec (length l) 0); [unfold n in *; lia|]. simpl.
                 destruct (Nat.eqb_spec p 0).
                 --- exfalso. subst p. unfold kstart in *. simpl in *. lia.
                 --- subst ps. rewrite seq_length. lia.
           ++ simpl it_eq. rewrite andb_false_r. unfold mm_step3. simpl it_eq. rewrite andb_false_r.
              destruct Q3 as [[Q3 [t Q4]]|[_ Q3]]; try discriminate. injection Q4 as <- <-.
              unfold it_eq in Eq, Eq1. apply Nat.eqb_neq in Eq, Eq1. subst ps. rewrite seq_length. lia.
      * (* p is the last value of its key: next is end() *)
        assert (kend l p = S p) by lia.
        destruct last as [|j tj].
        -- simpl it_eq. unfold mm_erase_one. destruct Q3 as [[_ [t Q3]]|[Q3 _]]; try discriminate. subst q.
           exists p, 1. subst ps. replace (kend l p - p) with 1 by lia. replace (p + 1) with (S p) by lia. auto.
        -- simpl it_eq. unfold mm_key_last. simpl it_eq. rewrite andb_false_r. unfold mm_step3. simpl it_eq. rewrite andb_false_r.
           destruct Q3 as [[Q3 [t Q4]]|[_ Q3]]; try discriminate. injection Q4 as <- <-.
           simpl in Eq. apply Nat.eqb_neq in Eq. unfold n in *. lia.
Qed.

(* both pre-fix mistakes have concrete witnesses *)
Theorem mm_erase_range_prefix_refuted :
  (exists l first last ps, it_wf (length l) first /\ it_wf (length l) last /\
     walk (mm_next l) (S (length l)) first last = Some ps /\ ps = [1; 2] /\
     mm_erase_range_prefix l first last = Done [] None /\                 (* range starting mid-key removed the whole key *)
     mm_erase_range l first last = Throw) /\
  (exists l first last ps, it_wf (length l) first /\ it_wf (length l) last /\
     walk (mm_next l) (S (length l)) first last = Some ps /\ ps = [0; 1] /\
     mm_erase_range_prefix l first last = Done [] None /\                 (* erase(equal_range(first key)) cleared everything *)
     mm_erase_range l first last = Done [(2%Z, 20%Z)] None).
Proof.
  split.
  - exists [(1%Z, 10%Z); (1%Z, 11%Z); (1%Z, 12%Z)], (At 1 true), End, [1; 2]. vm_compute. repeat split; auto.
  - exists [(1%Z, 10%Z); (1%Z, 11%Z); (2%Z, 20%Z)], (At 0 false), End, [0; 1]. vm_compute. repeat split; auto.
Qed.

(* non-vacuity: each non-throwing kind of range occurs *)
Example mm_erase_range_examples :
  let l := [(1%Z, 10%Z); (1%Z, 11%Z); (2%Z, 20%Z); (3%Z, 30%Z)] in
  mm_erase_range l (At 0 true) (At 2 true) = Done [(2%Z, 20%Z); (3%Z, 30%Z)] (Some (2%Z, 20%Z)) /\
  mm_erase_range l (At 0 false) End = Done [(2%Z, 20%Z); (3%Z, 30%Z)] None /\
  mm_erase_range l (At 1 true) (At 2 true) = Done [(1%Z, 10%Z); (2%Z, 20%Z); (3%Z, 30%Z)] (Some (2%Z, 20%Z)) /\
  mm_erase_range l (At 0 true) End = Done [] None /\
  mm_erase_range l (At 0 true) (At 3 true) = Throw /\
  us_erase_range l (At 1 true) (At 2 false) = Done [(1%Z, 10%Z); (2%Z, 20%Z); (3%Z, 30%Z)] (Some (2%Z, 20%Z)) /\
  us_erase_range l (At 1 false) End = Done [(1%Z, 10%Z); (2%Z, 20%Z); (3%Z, 30%Z)] None /\
  us_erase_range l (At 1 true) End = Throw.
Proof. vm_compute. repeat split; auto. Qed.
