// instantiation TU for cxx2coq (C01): the integer leaves of the hash-table policy
#define MOMO_INCLUDE_OLD_HASH_BUCKETS
#include "momo/HashSet.h"
#include "momo/details/HashBucketOpen2N2.h"
#include "momo/details/HashBucketOpenN1.h"
#include "momo/details/HashBucketOpen8.h"
namespace momo { namespace internal {
template class BucketOpen2N2<HashSetItemTraits<uint64_t, MemManagerDefault>, 3, true>;
template class BucketOpen2N2<HashSetItemTraits<uint64_t, MemManagerDefault>, 3, false>;
template class BucketOpenN1<HashSetItemTraits<uint64_t, MemManagerDefault>, 3, true>;
template class BucketOpen8<HashSetItemTraits<uint64_t, MemManagerDefault>>;
template class BucketLimP4<HashSetBucketItemTraits<HashSetItemTraits<uint64_t, MemManagerDefault>>, 4, MemPoolParams<>, true>;
}}
