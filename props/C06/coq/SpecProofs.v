(* C06 - the std contract facts that make Spec.v a faithful oracle *)
From Coq Require Import List ZArith Bool Lia Arith Permutation.
From C06 Require Import Spec.
Import ListNotations.

Ltac zb := repeat match goal with
  | |- context [(?a <? ?b)%Z] => destruct (Z.ltb_spec a b)
  | |- context [(?a <=? ?b)%Z] => destruct (Z.leb_spec a b)
  | |- context [(?a =? ?b)%Z] => destruct (Z.eqb_spec a b)
  | H : context [(?a <? ?b)%Z] |- _ => destruct (Z.ltb_spec a b)
  | H : context [(?a <=? ?b)%Z] |- _ => destruct (Z.leb_spec a b)
  | H : context [(?a =? ?b)%Z] |- _ => destruct (Z.eqb_spec a b)
  end.

Lemma sk2 (l : list elem) a b : skipn a (skipn b l) = skipn (b + a) l.
Proof. revert l; induction b; intros l; simpl; auto. destruct l; simpl; auto. apply skipn_nil. Qed.

Lemma ordered_multi k1 k2 : ordered true k1 k2 = true <-> (k1 <= k2)%Z.
Proof. unfold ordered. destruct (Z.ltb_spec k2 k1); simpl; split; intros; try lia; try discriminate. Qed.
Lemma ordered_uniq k1 k2 : ordered false k1 k2 = true <-> (k1 < k2)%Z.
Proof. unfold ordered. destruct (Z.ltb_spec k1 k2); split; intros; try lia; try discriminate. Qed.

Lemma sorted_weaken l : sorted false l -> sorted true l.
Proof.
  induction l as [|x t IH]; simpl; auto. intros [H1 H2]. split; auto.
  eapply Forall_impl; [|exact H1]. intros a Ha. apply ordered_multi. apply ordered_uniq in Ha. lia.
Qed.

Lemma sorted_app m a b :
  sorted m (a ++ b) <-> sorted m a /\ sorted m b /\ Forall (fun x => Forall (fun y => ordered m (key x) (key y) = true) b) a.
Proof.
  induction a as [|x t IH]; simpl.
  - split; [intros; repeat split; auto|tauto].
  - rewrite Forall_app, IH. split.
    + intros [[H1 H2] [H3 [H4 H5]]]. repeat split; auto.
    + intros [[H1 H2] [H3 H4]]. inversion H4; subst. repeat split; auto.
Qed.

(* ---- bounds ---- *)
Lemma lb_le_len k l : lower_bound k l <= length l.
Proof. induction l; simpl; try lia. destruct (_ <? _)%Z; lia. Qed.
Lemma ub_le_len k l : upper_bound k l <= length l.
Proof. induction l; simpl; try lia. destruct (_ <=? _)%Z; lia. Qed.
Lemma lb_le_ub k l : lower_bound k l <= upper_bound k l.
Proof. induction l; simpl; try lia. zb; try lia. Qed.

Lemma lb_before k l i : i < lower_bound k l -> (key (nth i l dflt) < k)%Z.
Proof.
  revert i; induction l as [|e t IH]; simpl; intros i Hi; try lia.
  destruct (Z.ltb_spec (key e) k); try lia. destruct i; auto. apply IH; lia.
Qed.
Lemma ub_before k l i : i < upper_bound k l -> (key (nth i l dflt) <= k)%Z.
Proof.
  revert i; induction l as [|e t IH]; simpl; intros i Hi; try lia.
  destruct (Z.leb_spec (key e) k); try lia. destruct i; auto. apply IH; lia.
Qed.
Lemma sorted_nth_le l i j : sorted true l -> i <= j -> j < length l -> (key (nth i l dflt) <= key (nth j l dflt))%Z.
Proof.
  revert i j; induction l as [|e t IH]; simpl; intros i j Hs Hij Hj; try lia. destruct Hs as [H1 H2].
  destruct i, j; try lia.
  - rewrite Forall_forall in H1. apply ordered_multi. apply H1. apply nth_In. lia.
  - apply IH; auto; lia.
Qed.
Lemma sorted_nth_lt l i j : sorted false l -> i < j -> j < length l -> (key (nth i l dflt) < key (nth j l dflt))%Z.
Proof.
  revert i j; induction l as [|e t IH]; simpl; intros i j Hs Hij Hj; try lia. destruct Hs as [H1 H2].
  destruct i, j; try lia.
  - rewrite Forall_forall in H1. apply ordered_uniq. apply H1. apply nth_In. lia.
  - apply IH; auto; lia.
Qed.
Lemma lb_at k l : lower_bound k l < length l -> (k <= key (nth (lower_bound k l) l dflt))%Z.
Proof.
  induction l as [|e t IH]; simpl; try lia.
  destruct (Z.ltb_spec (key e) k); simpl; intros; try lia; try (apply IH; lia).
Qed.
Lemma ub_at k l : upper_bound k l < length l -> (k < key (nth (upper_bound k l) l dflt))%Z.
Proof.
  induction l as [|e t IH]; simpl; try lia.
  destruct (Z.leb_spec (key e) k); simpl; intros; try lia; try (apply IH; lia).
Qed.
(* characterisation of lower_bound / upper_bound on a sorted sequence: first not-less / first greater *)
Lemma lb_after k l i : sorted true l -> lower_bound k l <= i -> i < length l -> (k <= key (nth i l dflt))%Z.
Proof.
  intros Hs H1 H2. pose proof (lb_at k l ltac:(lia)).
  pose proof (sorted_nth_le l (lower_bound k l) i Hs H1 H2). lia.
Qed.
Lemma ub_after k l i : sorted true l -> upper_bound k l <= i -> i < length l -> (k < key (nth i l dflt))%Z.
Proof.
  intros Hs H1 H2. pose proof (ub_at k l ltac:(lia)).
  pose proof (sorted_nth_le l (upper_bound k l) i Hs H1 H2). lia.
Qed.

Theorem lower_bound_char k l : sorted true l ->
  lower_bound k l <= length l /\
  (forall i, i < lower_bound k l -> (key (nth i l dflt) < k)%Z) /\
  (forall i, lower_bound k l <= i -> i < length l -> (k <= key (nth i l dflt))%Z).
Proof. intros Hs. repeat split. apply lb_le_len. apply lb_before. intros; apply lb_after; auto. Qed.
Theorem upper_bound_char k l : sorted true l ->
  upper_bound k l <= length l /\
  (forall i, i < upper_bound k l -> (key (nth i l dflt) <= k)%Z) /\
  (forall i, upper_bound k l <= i -> i < length l -> (k < key (nth i l dflt))%Z).
Proof. intros Hs. repeat split. apply ub_le_len. apply ub_before. intros; apply ub_after; auto. Qed.

Lemma uniq_ub_le k l : sorted false l -> upper_bound k l <= S (lower_bound k l).
Proof.
  intros Hs. destruct (le_lt_dec (upper_bound k l) (S (lower_bound k l))); auto. exfalso.
  pose proof (ub_le_len k l).
  pose proof (ub_before k l (S (lower_bound k l)) ltac:(lia)).
  pose proof (lb_at k l ltac:(lia)).
  pose proof (sorted_nth_lt l (lower_bound k l) (S (lower_bound k l)) Hs ltac:(lia) ltac:(lia)). lia.
Qed.

(* ---- Forall forms, used for insertion ---- *)
Lemma firstn_ub k l i : i <= upper_bound k l -> Forall (fun y => (key y <= k)%Z) (firstn i l).
Proof.
  revert i; induction l as [|e t IH]; simpl; intros i Hi.
  - rewrite firstn_nil; constructor.
  - destruct i; simpl; [constructor|]. destruct (Z.leb_spec (key e) k); try lia.
    constructor; auto. apply IH; lia.
Qed.
Lemma firstn_lb k l i : i <= lower_bound k l -> Forall (fun y => (key y < k)%Z) (firstn i l).
Proof.
  revert i; induction l as [|e t IH]; simpl; intros i Hi.
  - rewrite firstn_nil; constructor.
  - destruct i; simpl; [constructor|]. destruct (Z.ltb_spec (key e) k); try lia.
    constructor; auto. apply IH; lia.
Qed.
Lemma skipn_lb k l i : sorted true l -> lower_bound k l <= i -> Forall (fun y => (k <= key y)%Z) (skipn i l).
Proof.
  revert i; induction l as [|e t IH]; simpl; intros i Hs Hi.
  - rewrite skipn_nil; constructor.
  - destruct Hs as [H1 H2]. destruct (Z.ltb_spec (key e) k).
    + destruct i; try lia. simpl. apply IH; auto; lia.
    + assert (Forall (fun y => (k <= key y)%Z) (e :: t)).
      { constructor; auto. eapply Forall_impl; [|exact H1]. intros a Ha. apply ordered_multi in Ha. lia. }
      rewrite <- (firstn_skipn i (e :: t)) in H0. apply Forall_app in H0. tauto.
Qed.
Lemma skipn_ub k l i : sorted true l -> upper_bound k l <= i -> Forall (fun y => (k < key y)%Z) (skipn i l).
Proof.
  revert i; induction l as [|e t IH]; simpl; intros i Hs Hi.
  - rewrite skipn_nil; constructor.
  - destruct Hs as [H1 H2]. destruct (Z.leb_spec (key e) k).
    + destruct i; try lia. simpl. apply IH; auto; lia.
    + assert (Forall (fun y => (k < key y)%Z) (e :: t)).
      { constructor; auto. eapply Forall_impl; [|exact H1]. intros a Ha. apply ordered_multi in Ha. lia. }
      rewrite <- (firstn_skipn i (e :: t)) in H0. apply Forall_app in H0. tauto.
Qed.
Lemma firstn_le_ub k l i : i <= length l -> Forall (fun y => (key y <= k)%Z) (firstn i l) -> i <= upper_bound k l.
Proof.
  revert i; induction l as [|e t IH]; simpl; intros i Hi HF; try lia.
  destruct i; try lia. simpl in HF. inversion HF; subst.
  destruct (Z.leb_spec (key e) k); try lia. apply le_n_S, IH; auto; lia.
Qed.
Lemma skipn_ge_lb k l i : Forall (fun y => (k <= key y)%Z) (skipn i l) -> lower_bound k l <= i.
Proof.
  revert i; induction l as [|e t IH]; simpl; intros i HF; try lia.
  destruct (Z.ltb_spec (key e) k); try lia.
  destruct i; simpl in HF. { inversion HF; subst. lia. }
  apply le_n_S, IH; auto.
Qed.

Lemma sorted_split m l i : sorted m l -> sorted m (firstn i l) /\ sorted m (skipn i l) /\
  Forall (fun x => Forall (fun y => ordered m (key x) (key y) = true) (skipn i l)) (firstn i l).
Proof. intros H. rewrite <- (firstn_skipn i l) in H. apply sorted_app in H. exact H. Qed.

(* the positions at which x can be inserted keeping a multi sequence sorted are exactly [lb, ub] *)
Theorem multi_insert_positions x l j : sorted true l -> j <= length l ->
  (sorted true (insert_at j x l) <-> lower_bound (key x) l <= j <= upper_bound (key x) l).
Proof.
  intros Hs Hj. unfold insert_at. rewrite sorted_app. simpl.
  destruct (sorted_split true l j Hs) as [Ha [Hb Hab]]. split.
  - intros [_ [[H1 _] H2]]. split.
    + apply skipn_ge_lb. eapply Forall_impl; [|exact H1]. intros a Ho. apply ordered_multi in Ho; auto.
    + apply firstn_le_ub; auto. eapply Forall_impl; [|exact H2]. intros a Ho. inversion Ho; subst.
      apply ordered_multi in H3; auto.
  - intros [H1 H2]. repeat split; auto.
    + pose proof (skipn_lb (key x) l j Hs H1). eapply Forall_impl; [|exact H]. intros a Ho. apply ordered_multi; auto.
    + pose proof (firstn_ub (key x) l j H2). rewrite Forall_forall in *. intros a Ia. constructor.
      * apply ordered_multi. apply H; auto.
      * apply Hab; auto.
Qed.

(* hinted multi insertion: sorted result, and no other sorted-preserving position is closer to the hint *)
Theorem multi_insert_hint_spec h x l : sorted true l -> h <= length l ->
  let '(i, ins, l') := ord_insert_hint true h x l in
  ins = true /\ l' = insert_at i x l /\ i <= length l /\ sorted true l' /\
  (forall j, j <= length l -> sorted true (insert_at j x l) ->
     (if i <=? h then h - i else i - h) <= (if j <=? h then h - j else j - h)).
Proof.
  intros Hs Hh. unfold ord_insert_hint.
  pose proof (lb_le_ub (key x) l) as H1. pose proof (ub_le_len (key x) l) as H2.
  pose proof (multi_insert_positions x l) as MP.
  remember (lower_bound (key x) l) as lb. remember (upper_bound (key x) l) as ub.
  assert (Hc : lb <= clamp h lb ub <= ub).
  { unfold clamp. destruct (Nat.ltb_spec h lb); [lia|]. destruct (Nat.ltb_spec ub h); lia. }
  repeat split; auto; try lia.
  - apply MP; auto; lia.
  - intros j Hj Hsj. apply MP in Hsj; auto.
    unfold clamp. destruct (Nat.ltb_spec h lb); [|destruct (Nat.ltb_spec ub h)];
    repeat match goal with |- context [?a <=? ?b] => destruct (Nat.leb_spec a b) end; lia.
Qed.

(* stable insertion without hint: multi goes after all equivalent elements; unique finds or inserts *)
Theorem ord_insert_spec multi x l : sorted multi l ->
  let '(i, ins, l') := ord_insert multi x l in
  sorted multi l' /\ i <= length l /\
  (if ins then l' = insert_at i x l else l' = l /\ i < length l /\ key (nth i l dflt) = key x) /\
  (multi = true -> ins = true /\ i = upper_bound (key x) l).
Proof.
  intros Hs. unfold ord_insert. pose proof (lb_le_ub (key x) l). pose proof (ub_le_len (key x) l).
  destruct multi.
  - repeat split; auto. apply multi_insert_positions; auto.
  - destruct (Nat.ltb_spec (lower_bound (key x) l) (upper_bound (key x) l)).
    + repeat split; auto; try lia; try discriminate.
      pose proof (lb_at (key x) l ltac:(lia)). pose proof (ub_before (key x) l (lower_bound (key x) l) ltac:(lia)). lia.
    + repeat split; auto; try lia; try discriminate.
      assert (E : upper_bound (key x) l = lower_bound (key x) l) by lia.
      unfold insert_at. apply sorted_app. simpl.
      destruct (sorted_split false l (lower_bound (key x) l) Hs) as [Ha [Hb Hab]].
      pose proof (sorted_weaken _ Hs) as Hw. repeat split; auto.
      * pose proof (skipn_ub (key x) l (lower_bound (key x) l) Hw ltac:(lia)).
        eapply Forall_impl; [|exact H2]. intros a Ho. apply ordered_uniq; auto.
      * pose proof (firstn_lb (key x) l (lower_bound (key x) l) ltac:(lia)).
        rewrite Forall_forall in *. intros a Ia. constructor; [apply ordered_uniq; apply H2; auto|apply Hab; auto].
Qed.

(* ---- erase(first,last) ---- *)
Lemma firstn_app_exact (a b : list elem) : firstn (length a) (a ++ b) = a.
Proof. induction a; simpl; congruence. Qed.
Lemma skipn_app_exact (a b : list elem) : skipn (length a) (a ++ b) = b.
Proof. induction a; simpl; auto. Qed.
Lemma nth_error_skipn' (l : list elem) j p : nth_error (skipn j l) p = nth_error l (j + p).
Proof. revert j; induction l; intros j; destruct j; simpl; auto. destruct p; auto. Qed.
Lemma nth_error_firstn' (l : list elem) i p : p < i -> nth_error (firstn i l) p = nth_error l p.
Proof. revert i p; induction l; intros i p H; destruct i, p; simpl; auto; try lia. apply IHl; lia. Qed.
Theorem erase_range_removes_exactly l i j : i <= j -> j <= length l ->
  let '(r, l') := ord_erase_range i j l in
  r = i /\ length l' = length l - (j - i) /\
  (forall p, p < i -> nth_error l' p = nth_error l p) /\
  (forall p, i <= p -> nth_error l' p = nth_error l (p + (j - i))) /\
  l = firstn i l' ++ firstn (j - i) (skipn i l) ++ skipn i l'.
Proof.
  intros Hij Hj. unfold ord_erase_range, erase_range.
  assert (Hl : length (firstn i l) = i) by (apply firstn_length_le; lia).
  repeat split.
  - rewrite app_length, Hl, skipn_length. lia.
  - intros p Hp. rewrite nth_error_app1 by lia. apply nth_error_firstn'; auto.
  - intros p Hp. rewrite nth_error_app2 by lia. rewrite Hl, nth_error_skipn'. f_equal. lia.
  - assert (A : firstn i (firstn i l ++ skipn j l) = firstn i l) by (rewrite <- Hl at 1; apply firstn_app_exact).
    assert (B : skipn i (firstn i l ++ skipn j l) = skipn j l) by (rewrite <- Hl at 1; apply skipn_app_exact).
    rewrite A, B.
    replace (skipn j l) with (skipn (j - i) (skipn i l)) by (rewrite sk2; f_equal; lia).
    rewrite firstn_skipn, firstn_skipn. reflexivity.
Qed.

Lemma sorted_erase m l i j : i <= j -> sorted m l -> sorted m (erase_range i j l).
Proof.
  intros Hij Hs. unfold erase_range. destruct (sorted_split m l i Hs) as [Ha [_ _]].
  apply sorted_app. destruct (sorted_split m l j Hs) as [_ [Hb Hab]]. repeat split; auto.
  rewrite Forall_forall in *. intros a Ia. apply Hab.
  rewrite <- (firstn_skipn i (firstn j l)). apply in_or_app. left. rewrite firstn_firstn.
  replace (Nat.min i j) with i by lia. auto.
Qed.

(* equal_range = the elements whose key is equivalent to k, and only those *)
Lemma filter_all_false (f : elem -> bool) l : Forall (fun y => f y = false) l -> filter f l = [].
Proof. induction 1; simpl; auto. rewrite H; auto. Qed.
Lemma filter_all_true (f : elem -> bool) l : Forall (fun y => f y = true) l -> filter f l = l.
Proof. induction 1; simpl; auto. rewrite H. f_equal; auto. Qed.

Theorem equal_range_is_filter k l : sorted true l ->
  let lb := lower_bound k l in let ub := upper_bound k l in
  lb <= ub /\ ub <= length l /\
  firstn (ub - lb) (skipn lb l) = u_filter_key k l /\
  u_filter_key k (erase_range lb ub l) = [] /\
  ord_count k l = u_count k l.
Proof.
  intros Hs lb ub. pose proof (lb_le_ub k l : lb <= ub). pose proof (ub_le_len k l : ub <= length l).
  assert (E : l = firstn lb l ++ firstn (ub - lb) (skipn lb l) ++ skipn ub l).
  { replace (skipn ub l) with (skipn (ub - lb) (skipn lb l)) by (rewrite sk2; f_equal; lia).
    rewrite firstn_skipn, firstn_skipn; auto. }
  assert (F1 : filter (fun e => (key e =? k)%Z) (firstn lb l) = []).
  { apply filter_all_false. eapply Forall_impl; [|apply (firstn_lb k l lb); apply Nat.le_refl]. simpl; intros a Ha. zb; lia. }
  assert (F3 : filter (fun e => (key e =? k)%Z) (skipn ub l) = []).
  { apply filter_all_false. eapply Forall_impl; [|apply (skipn_ub k l ub Hs); apply Nat.le_refl]. simpl; intros a Ha. zb; lia. }
  assert (F2 : filter (fun e => (key e =? k)%Z) (firstn (ub - lb) (skipn lb l)) = firstn (ub - lb) (skipn lb l)).
  { apply filter_all_true. rewrite Forall_forall. intros a Ia.
    assert (I1 : In a (skipn lb l)) by (rewrite <- (firstn_skipn (ub - lb) (skipn lb l)); apply in_or_app; auto).
    assert (I2 : In a (firstn ub l)).
    { rewrite <- (firstn_skipn lb (firstn ub l)). apply in_or_app. right.
      rewrite skipn_firstn_comm. auto. }
    pose proof (skipn_lb k l lb Hs (Nat.le_refl _)) as G1. pose proof (firstn_ub k l ub (Nat.le_refl _)) as G2.
    rewrite Forall_forall in G1, G2. specialize (G1 a I1). specialize (G2 a I2). simpl in *. zb; lia. }
  assert (F : u_filter_key k l = firstn (ub - lb) (skipn lb l)).
  { unfold u_filter_key. rewrite E at 1. rewrite !filter_app, F1, F2, F3, app_nil_r. reflexivity. }
  repeat split; auto.
  - unfold u_filter_key, erase_range. fold lb ub. rewrite filter_app, F1, F3. reflexivity.
  - unfold ord_count, u_count. rewrite F. fold lb ub. rewrite firstn_length, skipn_length. lia.
Qed.

(* ---- operator== on unordered containers ---- *)
Lemma elem_eqb_spec a b : reflect (a = b) (elem_eqb a b).
Proof.
  destruct a as [a1 a2], b as [b1 b2]. unfold elem_eqb; simpl.
  destruct (Z.eqb_spec a1 b1), (Z.eqb_spec a2 b2); simpl; constructor; congruence.
Qed.
Lemma remove1_perm x l l' : remove1 x l = Some l' -> Permutation l (x :: l').
Proof.
  revert l'; induction l as [|e t IH]; simpl; intros l' H; try discriminate.
  destruct (elem_eqb_spec e x).
  - inversion H; subst; auto.
  - destruct (remove1 x t) eqn:E; try discriminate. inversion H; subst.
    eapply perm_trans; [apply perm_skip, IH; reflexivity|apply perm_swap].
Qed.
Lemma remove1_in x l : In x l -> exists l', remove1 x l = Some l'.
Proof.
  induction l as [|e t IH]; simpl; intros H; [tauto|].
  destruct (elem_eqb_spec e x); eauto. destruct H; [congruence|]. destruct (IH H) as [l' E]. rewrite E; eauto.
Qed.
Theorem eq_iff_permutation l r : perm_eqb l r = true <-> Permutation l r.
Proof.
  revert r; induction l as [|x t IH]; intros r; simpl.
  - destruct r; split; intros; auto; try discriminate. apply Permutation_nil in H; discriminate.
  - split.
    + destruct (remove1 x r) eqn:E; try discriminate. intros H. apply IH in H.
      apply remove1_perm in E. eapply perm_trans; [apply perm_skip, H|apply Permutation_sym, E].
    + intros H. assert (In x r) by (eapply Permutation_in; [exact H|left; auto]).
      destruct (remove1_in x r H0) as [r' E]. rewrite E. apply IH.
      apply remove1_perm in E. eapply Permutation_cons_inv. eapply perm_trans; [exact H|exact E].
Qed.

(* ---- ordering operators: == is element-wise equality, < is the lexicographic order (a strict total order) ---- *)
Lemma list_eqb_spec l r : list_eqb l r = true <-> l = r.
Proof.
  revert r; induction l as [|x t IH]; destruct r as [|y u]; simpl; split; intros; try discriminate; auto.
  - apply andb_true_iff in H. destruct H as [H1 H2]. destruct (elem_eqb_spec x y); try discriminate.
    f_equal; auto. apply IH; auto.
  - inversion H; subst. destruct (elem_eqb_spec y y); try congruence. simpl. apply IH; auto.
Qed.
Lemma elem_ltb_irrefl a : elem_ltb a a = false.
Proof. unfold elem_ltb. zb; simpl; auto; lia. Qed.
Lemma elem_ltb_tri a b : elem_ltb a b = false -> elem_ltb b a = false -> a = b.
Proof. destruct a, b; unfold elem_ltb; simpl. intros. zb; simpl in *; try discriminate; f_equal; lia. Qed.
Lemma elem_ltb_asym a b : elem_ltb a b = true -> elem_ltb b a = false.
Proof. destruct a, b; unfold elem_ltb; simpl. intros. zb; simpl in *; try discriminate; auto; lia. Qed.

Theorem lex_lt_characterisation l r : lex_ltb l r = true <->
  exists p, (l = p /\ exists y u, r = p ++ y :: u) \/
            (exists x t y u, l = p ++ x :: t /\ r = p ++ y :: u /\ elem_ltb x y = true).
Proof.
  revert r; induction l as [|x t IH]; intros r; destruct r as [|y u]; simpl.
  - split; [discriminate|]. intros [p [[E [y [u H]]]|[x [t [y [u [H _]]]]]]]; destruct p; discriminate.
  - split; auto. intros _. exists []. left. split; auto. exists y, u; reflexivity.
  - split; [discriminate|]. intros [p [[E [y [u H]]]|[x0 [t0 [y [u [_ [H _]]]]]]]]; destruct p; simpl in *; discriminate.
  - destruct (elem_ltb x y) eqn:Exy.
    + split; auto. intros _. exists []. right. exists x, t, y, u. auto.
    + destruct (elem_ltb y x) eqn:Eyx.
      * split; [discriminate|]. intros [p [[E [y0 [u0 H]]]|[x0 [t0 [y0 [u0 [H1 [H2 H3]]]]]]]].
        -- subst p. simpl in H. inversion H; subst. rewrite elem_ltb_irrefl in Eyx; discriminate.
        -- destruct p; simpl in *; inversion H1; inversion H2; subst; try congruence.
      * assert (x = y) by (apply elem_ltb_tri; auto). subst y. rewrite IH. split.
        -- intros [p [[E [y0 [u0 H]]]|[x0 [t0 [y0 [u0 [H1 [H2 H3]]]]]]]]; exists (x :: p).
           ++ left. subst. split; auto. exists y0, u0; auto.
           ++ right. exists x0, t0, y0, u0. subst; auto.
        -- intros [p [[E [y0 [u0 H]]]|[x0 [t0 [y0 [u0 [H1 [H2 H3]]]]]]]].
           ++ subst p. simpl in H. inversion H; subst. exists t. left. split; auto. eauto.
           ++ destruct p; simpl in *; inversion H1; inversion H2; subst; try congruence.
              exists p. right. exists x0, t0, y0, u0. auto.
Qed.
Theorem lex_trichotomy l r :
  (lex_ltb l r = true /\ l <> r /\ lex_ltb r l = false) \/
  (lex_ltb l r = false /\ l = r /\ lex_ltb r l = false) \/
  (lex_ltb l r = false /\ l <> r /\ lex_ltb r l = true).
Proof.
  revert r; induction l as [|x t IH]; intros r; destruct r as [|y u]; simpl.
  - right; left; auto.
  - left; repeat split; auto; discriminate.
  - right; right; repeat split; auto; discriminate.
  - destruct (elem_ltb x y) eqn:Exy.
    + rewrite (elem_ltb_asym _ _ Exy). left. repeat split; auto. intros E; inversion E; subst.
      rewrite elem_ltb_irrefl in Exy; discriminate.
    + destruct (elem_ltb y x) eqn:Eyx.
      * right; right. repeat split; auto. intros E; inversion E; subst. rewrite elem_ltb_irrefl in Eyx; discriminate.
      * assert (x = y) by (apply elem_ltb_tri; auto). subst y.
        destruct (IH u) as [[A [B C]]|[[A [B C]]|[A [B C]]]]; [left|right; left|right; right]; repeat split; auto; congruence.
Qed.
