// C18 implementation side, TU 1: the REAL momo::DataColumnList with the default memory manager (see c18_runner.h)
#include "c18_runner.h"

template<size_t L> static void vert(ull code, ull cp)
{
	auto p = DataColumnTraits<DataStructDefault<>, L>::GetVertices(uint64_t(code), size_t(cp));
	printf("%llu %llu\n", ull(p.first), ull(p.second));
}
// the real pvGetOffset on arbitrary member values (not only reachable ones): tie of the cxx2coq translation Gen_List.pvGetOffset
template<size_t L> static void unitLookup(ull cp, ull code, ull a1, ull a2)
{
	typename Runner<L, false>::CL cl;
	cl.mCodeParam = size_t(cp);
	auto v = DataColumnTraits<DataStructDefault<>, L>::GetVertices(uint64_t(code), size_t(cp));
	cl.mAddends[v.first] = size_t(a1); cl.mAddends[v.second] = size_t(a2);
	printf("%llu\n", ull(cl.pvGetOffset(uint64_t(code))));
}
static void unitVertices(ull L, ull code, ull cp)
{
	switch (L) {
	case 4: vert<4>(code, cp); break; case 5: vert<5>(code, cp); break; case 6: vert<6>(code, cp); break; case 7: vert<7>(code, cp); break;
	case 8: vert<8>(code, cp); break; case 9: vert<9>(code, cp); break; case 10: vert<10>(code, cp); break; case 11: vert<11>(code, cp); break;
	case 12: vert<12>(code, cp); break; case 13: vert<13>(code, cp); break; case 14: vert<14>(code, cp); break; case 15: vert<15>(code, cp); break;
	default: puts("?"); }
}

int main()
{
	std::string line;
	while (std::getline(std::cin, line))
	{
		std::istringstream is(line);
		std::string first; is >> first;
		if (first == "v") { ull L, code, cp; is >> L >> code >> cp; unitVertices(L, code, cp); fflush(stdout); continue; }
		if (first == "p") { ull L, cp, code, a1, a2; is >> L >> cp >> code >> a1 >> a2; if (L == 4) unitLookup<4>(cp, code, a1, a2); else unitLookup<8>(cp, code, a1, a2); fflush(stdout); continue; }
		if (first == "b")
		{	// the real UIntMath<uint8_t>::SetBit / GetBit on an 8-byte array: b <initial bytes as a 64-bit value> <bit index>
			ull v, i; is >> v >> i; uint8_t d[8];
			for (int k = 0; k < 8; ++k) d[k] = uint8_t(v >> (8 * k));
			internal::UIntMath<uint8_t>::SetBit(d, size_t(i));
			std::string o;
			for (int k = 0; k < 8; ++k) o += std::to_string(unsigned(d[k])) + " ";
			for (size_t j = 0; j < 64; ++j) o += internal::UIntMath<uint8_t>::GetBit(d, j) ? '1' : '0';
			puts(o.c_str()); fflush(stdout); continue;
		}
		if (first == "c") { ull v, m; is >> v >> m; printf("%llu\n", ull(internal::UIntMath<>::Ceil(size_t(v), size_t(m)))); continue; }
		ull L = std::strtoull(first.c_str(), nullptr, 10), keep; is >> keep;
		std::vector<std::vector<ColSpec>> ops; std::vector<ColSpec> extras; std::vector<ull> universe;
		bool bad = !parseOps(is, ops, extras, universe);
		std::string out;
		try
		{
			if (bad) out = "?";
#define CFG(l, k) else if (L == l && keep == k) out = runCase<l, k != 0>(ops, extras, universe);
			CFG(4, 0) CFG(4, 1) CFG(5, 0) CFG(6, 1) CFG(7, 0) CFG(8, 0) CFG(8, 1) CFG(15, 0)
			else out = "?config";
		}
		catch (const HarnessError& e) { out = std::string("HARNESS ") + e.what; }
		puts(out.c_str()); fflush(stdout);   // (a later case may hang or die)
	}
	return 0;
}
