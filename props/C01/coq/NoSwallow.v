(* C01 -- HashInst.upd_fn / shift_fn map a Stuck / Fuel outcome of the regenerated UpdateMaxProbe / GetBucketCountShift to "unchanged" / 1.
   These branches are never taken on the states the theorems speak about: under the encoder invariant (Binv_of, part of Inv) and for a
   probe below the bucket count the regenerated UpdateMaxProbe returns Ok and upd_fn IS its result; for a positive bucket count and
   maxCount the regenerated GetBucketCountShift returns Ok and shift_fn IS its result. *)
From Coq Require Import ZArith List Lia Bool.
From MomoCommon Require Import GenPrelude.
From C01 Require Import HashModel HashInst HashInstProofs.
From C01 Require Gen_Open2N2 Gen_OpenN1 Gen_HashBucketBase Open2N2_Proofs OpenN1_Proofs.
Local Open Scope Z_scope.

Theorem upd_fn_never_swallows kind b p log : Binv_of kind b -> 0 <= log <= 63 -> 0 <= p < 2 ^ log ->
  (kind <= 1 -> upd_fn kind b p = b) /\
  (kind = 2 -> Gen_Open2N2.UpdateMaxProbe b p = Ok (tt, upd_fn kind b p)) /\
  (3 <= kind -> Gen_OpenN1.UpdateMaxProbe (kind - 2) b p = Ok (tt, upd_fn kind b p)).
Proof.
  intros Hb Hl Hp. unfold Binv_of, upd_fn in *.
  assert (P : 2 ^ log <= 2 ^ 63) by (apply Z.pow_le_mono_r; lia).
  split; [|split].
  - intros H. destruct (Z.leb_spec kind 1); [reflexivity|lia].
  - intros ->. cbn [Z.leb Z.eqb Z.compare Pos.compare Pos.compare_cont Pos.eqb] in *.
    destruct (Open2N2_Proofs.update_spec b p Hb ltac:(lia)) as [s' [E _]]. rewrite E. reflexivity.
  - intros H. destruct (Z.leb_spec kind 1); [lia|]. destruct (Z.eqb_spec kind 2); [lia|].
    destruct (OpenN1_Proofs.update_spec (kind - 2) b p log Hb Hl Hp) as [s' [E _]]. rewrite E. reflexivity.
Qed.

Theorem shift_fn_never_swallows cap bc : 0 < bc -> 0 < cap ->
  Gen_HashBucketBase.GetBucketCountShift bc cap = Ok (shift_fn 0 cap bc).
Proof.
  intros Hb Hc. unfold shift_fn. cbn [Z.eqb]. unfold Gen_HashBucketBase.GetBucketCountShift.
  destruct (Z.gtb_spec bc 0); [|lia]. destruct (Z.gtb_spec cap 0); [|lia]. cbn [andb].
  destruct (cap =? 1); [reflexivity|]. destruct (cap =? 2); reflexivity.
Qed.
