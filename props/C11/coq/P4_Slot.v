(* COPIED from props/C12/coq (only change: the library name); C11 uses these LimP4 bucket facts for GenFullP4.v *)
(* C12, BucketLimP4: one element's stored bits (short hash + hash-probe byte) and their reconstruction.
   All statements are about the GENERATED functions of Gen_P4.v. *)
From Coq Require Import ZArith Bool Lia.
From MomoCommon Require Import GenPrelude.
From C11 Require Import Bits Known Gen_Base Gen_P4.
Local Open Scope Z_scope.

Lemma p4_hashCodeShift : Gen_P4.hashCodeShift = 57.
Proof. reflexivity. Qed.

Lemma p4_short_bits x n : 0 <= n -> Z.testbit (Gen_P4.pvCalcShortHash x) n = (n <? 8) && Z.testbit x (n + 57).
Proof.
  intros Hn. unfold Gen_P4.pvCalcShortHash. rewrite p4_hashCodeShift. rewrite tb_wrapU by lia.
  rewrite Z.shiftr_spec by lia. reflexivity.
Qed.

Lemma p4_short_known q x : 0 <= q -> Gen_P4.pvCalcShortHash (known q x) = Gen_P4.pvCalcShortHash x.
Proof.
  intros Hq. apply Z.bits_inj'. intros n Hn. rewrite !p4_short_bits, tb_known by lia.
  destruct (Z.leb_spec 57 (n + 57)); [|lia]. rewrite orb_true_r. reflexivity.
Qed.

Lemma p4_short_range x : 0 <= x < 2 ^ 64 -> 0 <= Gen_P4.pvCalcShortHash x < 128.
Proof.
  intros Hx. unfold Gen_P4.pvCalcShortHash. rewrite p4_hashCodeShift, Z.shiftr_div_pow2 by lia.
  assert (0 <= x / 2 ^ 57 < 128).
  { split; [apply Z.div_pos; lia|]. apply Z.div_lt_upper_bound; [lia|]. change (2 ^ 57 * 128) with (2 ^ 64). lia. }
  rewrite wrapU_small by (change (2 ^ 8) with 256; lia). assumption.
Qed.

Lemma p4_probeShift L : 0 <= L <= 63 -> Gen_P4.pvGetProbeShift L = (L + 6) mod 8.
Proof.
  intros. unfold Gen_P4.pvGetProbeShift, Gen_P4.logBucketCountAddend, Gen_P4.logBucketCountStep.
  rewrite wrapU_small by (change (2 ^ 64) with 18446744073709551616; lia). reflexivity.
Qed.

(* the byte pvSetHashProbe stores for (code x, table 2^L, displacement probe) *)
Definition p4_byte (x L probe : Z) : Z :=
  let ps := (L + 6) mod 8 in
  if probe <? 2 ^ ps
  then Z.lor (Z.lor 128 (wrapU 8 (wrapU 64 (Z.shiftl (Z.shiftr x L) ps)))) (wrapU 8 probe)
  else 255.

Lemma p4_byte_bits x L probe n : 0 <= L <= 63 -> 0 <= probe < 2 ^ ((L + 6) mod 8) -> 0 <= n ->
  Z.testbit (p4_byte x L probe) n =
    (n =? 7) || ((n <? 7) && (if n <? (L + 6) mod 8 then Z.testbit probe n else Z.testbit x (n - (L + 6) mod 8 + L))).
Proof.
  intros HL Hp Hn. unfold p4_byte.
  assert (Hps : 0 <= (L + 6) mod 8 < 8) by (apply Z.mod_pos_bound; lia).
  set (ps := (L + 6) mod 8) in *.
  destruct (Z.ltb_spec probe (2 ^ ps)); [|lia].
  assert (Hpn : ps <= n -> Z.testbit probe n = false).
  { intros. rewrite (tb_small probe ps n) by lia. destruct (Z.ltb_spec n ps); [lia|reflexivity]. }
  change 128 with (2 ^ 7).
  destruct (Z.ltb_spec n ps).
  - tb_norm. rewrite (Z.testbit_neg_r _ (n - ps)) by lia.
    destruct (Z.eqb_spec 7 n), (Z.eqb_spec n 7), (Z.ltb_spec n 7), (Z.ltb_spec n 8), (Z.ltb_spec n 64); try lia; simpl;
      rewrite ?andb_false_r, ?andb_true_r; reflexivity.
  - tb_norm. rewrite Hpn by lia.
    destruct (Z.eqb_spec 7 n), (Z.eqb_spec n 7), (Z.ltb_spec n 7), (Z.ltb_spec n 8), (Z.ltb_spec n 64); try lia; simpl;
      rewrite ?andb_false_r, ?andb_true_r, ?orb_false_r; try reflexivity.
Qed.

Lemma p4_byte_range x L probe : 0 <= x -> 0 <= L <= 63 -> 0 <= probe -> 128 <= p4_byte x L probe < 256.
Proof.
  intros Hx HL Hp.
  assert (Hps : 0 <= (L + 6) mod 8 < 8) by (apply Z.mod_pos_bound; lia).
  destruct (Z.lt_ge_cases probe (2 ^ ((L + 6) mod 8))) as [Hlt|Hge].
  2:{ unfold p4_byte. destruct (Z.ltb_spec probe (2 ^ ((L + 6) mod 8))); lia. }
  pose proof (fun n => p4_byte_bits x L probe n HL (conj Hp Hlt)) as Hb.
  assert (0 <= p4_byte x L probe).
  { unfold p4_byte. destruct (Z.ltb_spec probe (2 ^ ((L + 6) mod 8))); [|lia].
    assert (0 <= wrapU 8 probe) by (apply wrapU_range; lia).
    assert (0 <= wrapU 8 (wrapU 64 (Z.shiftl (Z.shiftr x L) ((L + 6) mod 8)))) by (apply wrapU_range; lia).
    rewrite !Z.lor_nonneg. lia. }
  split.
  - change 128 with (2 ^ 7). apply ge_pow2_of_bit; try lia. rewrite Hb by lia. reflexivity.
  - change 256 with (2 ^ 8). apply lt_pow2_of_bits; try lia. intros n Hn. rewrite Hb by lia.
    destruct (Z.eqb_spec n 7), (Z.ltb_spec n 7); try lia; try reflexivity.
Qed.

Lemma p4_byte_known q x L probe : qof L = q -> 0 <= L <= 63 -> 0 <= probe ->
  p4_byte (known q x) L probe = p4_byte x L probe.
Proof.
  intros Hq HL Hp. unfold qof in Hq.
  assert (Hps : 0 <= (L + 6) mod 8 < 8) by (apply Z.mod_pos_bound; lia).
  pose proof (Z.div_mod (L + 6) 8 ltac:(lia)) as Hdm. rewrite Hq in Hdm.
  destruct (Z.lt_ge_cases probe (2 ^ ((L + 6) mod 8))) as [Hlt|Hge].
  2:{ unfold p4_byte. destruct (Z.ltb_spec probe (2 ^ ((L + 6) mod 8))); [lia|reflexivity]. }
  apply Z.bits_inj'. intros n Hn. rewrite !p4_byte_bits by lia.
  destruct (Z.ltb_spec n 7); [|reflexivity].
  destruct (Z.ltb_spec n ((L + 6) mod 8)); [reflexivity|].
  rewrite tb_known by lia.
  destruct (Z.ltb_spec (n - (L + 6) mod 8 + L) (8 * q + 1)); [|lia]. reflexivity.
Qed.

(* what pvSetHashProbe does to the metadata array *)
Lemma p4_setHashProbe_eq H s idx x L probe : 0 <= idx -> idx < H <= 8 -> 0 <= x -> 0 <= L <= 63 -> 0 <= probe < 2 ^ 64 ->
  Gen_P4.pvSetHashProbe H s idx x L probe =
    if H - 1 - idx <=? idx then s else upd s (H - 1 - idx) (p4_byte x L probe).
Proof.
  intros Hi HH Hx HL Hp. unfold Gen_P4.pvSetHashProbe, Gen_P4.useHashCodePartGetter. simpl negb. simpl orb.
  rewrite (wrapU_small 64 (H - 1)) by lia. rewrite (wrapU_small 64 (H - 1 - idx)) by lia.
  destruct (Z.leb_spec (H - 1 - idx) idx); [reflexivity|].
  rewrite p4_probeShift by lia. unfold p4_byte.
  assert (Hps : 0 <= (L + 6) mod 8 < 8) by (apply Z.mod_pos_bound; lia).
  rewrite shl1_pow2 by lia.
  assert (2 ^ ((L + 6) mod 8) < 2 ^ 64) by (apply pow2_lt_mono; lia).
  rewrite (wrapU_small 64 (2 ^ ((L + 6) mod 8))) by lia.
  f_equal. unfold Gen_P4.maskEmpty, Gen_P4.emptyHashProbe.
  destruct (Z.ltb_spec probe (2 ^ ((L + 6) mod 8))); [|reflexivity].
  apply wrapU_small.
  pose proof (p4_byte_range x L probe) as Hr. unfold p4_byte in Hr.
  destruct (Z.ltb_spec probe (2 ^ ((L + 6) mod 8))); [|lia].
  change (2 ^ 8) with 256. lia.
Qed.

(* ---- reconstruction ---- *)
Lemma sub128_bits v n : 128 <= v < 256 -> 0 <= n -> Z.testbit (v - 128) n = (n <? 7) && Z.testbit v n.
Proof.
  intros Hv Hn. replace (v - 128) with (v mod 2 ^ 7).
  2:{ change (2 ^ 7) with 128. symmetry. apply Z.mod_unique with (q := 1); lia. }
  destruct (Z.ltb_spec n 7).
  - rewrite Z.mod_pow2_bits_low by lia. reflexivity.
  - rewrite Z.mod_pow2_bits_high by lia. reflexivity.
Qed.

Lemma p4_byte_low_probe x L probe : 0 <= L <= 63 -> 0 <= probe < 2 ^ ((L + 6) mod 8) ->
  Z.land (p4_byte x L probe) (Z.ones ((L + 6) mod 8)) = probe.
Proof.
  intros HL Hp. assert (Hps : 0 <= (L + 6) mod 8 < 8) by (apply Z.mod_pos_bound; lia).
  apply Z.bits_inj'. intros n Hn. rewrite Z.land_spec, tb_ones, p4_byte_bits by lia.
  destruct (Z.ltb_spec n ((L + 6) mod 8)).
  - destruct (Z.eqb_spec n 7), (Z.ltb_spec n 7); try lia. simpl. rewrite andb_true_r. reflexivity.
  - rewrite andb_false_r. rewrite (tb_small probe ((L + 6) mod 8) n) by lia.
    destruct (Z.ltb_spec n ((L + 6) mod 8)); [lia|reflexivity].
Qed.

(* GetHashCodePart on a slot whose hash-probe byte is v and whose short hash is sh *)
Definition p4_full_used (v L newL : Z) : bool :=
  (wrapU 8 (v + 1) <=? 128) || negb (qof L =? qof newL).

Lemma p4_getpart_eq H s full bidx L newL items idx : 0 <= idx -> idx < H <= 8 -> 0 <= L <= 63 -> 0 <= newL <= 63 ->
  0 <= s (H - 1 - idx) < 256 ->
  Gen_P4.GetHashCodePart H s full bidx L newL items idx =
    if p4_full_used (s (H - 1 - idx)) L newL then full
    else let v := s (H - 1 - idx) in let ps := (L + 6) mod 8 in
      Z.lor (Z.lor (Z.land (wrapU 64 (wrapU 64 (bidx + 2 ^ L) - Z.land v (Z.ones ps))) (Z.ones L))
                   (wrapU 64 (Z.shiftl (Z.shiftr (wrapU 64 (v - 128)) ps) L)))
            (wrapU 64 (Z.shiftl (s idx) 57)).
Proof.
  intros Hi HH HL HnL Hv. unfold Gen_P4.GetHashCodePart, Gen_P4.useHashCodePartGetter, p4_full_used, qof. simpl negb. cbv iota.
  rewrite (wrapU_small 64 (H - 1)) by lia. rewrite (wrapU_small 64 (H - 1 - idx)) by lia.
  unfold Gen_P4.maskEmpty, Gen_P4.logBucketCountAddend, Gen_P4.logBucketCountStep.
  rewrite (wrapU_small 64 (s (H - 1 - idx) + 1)) by lia.
  rewrite (wrapU_small 64 (L + 6)), (wrapU_small 64 (newL + 6)) by lia.
  destruct (_ || _); [reflexivity|].
  rewrite p4_probeShift by lia. rewrite p4_hashCodeShift.
  assert (Hps : 0 <= (L + 6) mod 8 < 8) by (apply Z.mod_pos_bound; lia).
  rewrite !shl1_pow2 by lia.
  assert (2 ^ ((L + 6) mod 8) < 2 ^ 64) by (apply pow2_lt_mono; lia).
  assert (0 < 2 ^ ((L + 6) mod 8)) by (apply pow2_pos; lia).
  assert (2 ^ L < 2 ^ 64) by (apply pow2_lt_mono; lia).
  assert (0 < 2 ^ L) by (apply pow2_pos; lia).
  rewrite (wrapU_small 64 (2 ^ ((L + 6) mod 8))), (wrapU_small 64 (2 ^ L)) by lia.
  rewrite (wrapU_small 64 (2 ^ ((L + 6) mod 8) - 1)), (wrapU_small 64 (2 ^ L - 1)) by lia.
  rewrite !pow2m1_ones. reflexivity.
Qed.


Lemma p4_full_used_empty L newL : p4_full_used 255 L newL = true.
Proof. reflexivity. Qed.

Lemma p4_full_used_short v L newL : 0 <= v < 128 -> p4_full_used v L newL = true.
Proof.
  intros. unfold p4_full_used. rewrite wrapU_small by (change (2 ^ 8) with 256; lia).
  destruct (Z.leb_spec (v + 1) 128); [reflexivity|lia].
Qed.

Lemma p4_full_used_false v L newL : 128 <= v < 256 -> p4_full_used v L newL = false -> v <> 255 /\ qof L = qof newL.
Proof.
  intros Hv Hf. unfold p4_full_used in Hf. apply orb_false_iff in Hf. destruct Hf as [H1 H2].
  split.
  - intros ->. discriminate.
  - destruct (Z.eqb_spec (qof L) (qof newL)); [assumption|discriminate].
Qed.

(* reconstruct_exact for LimP4: for EVERY 64-bit h, every L <= 57, every displacement, every slot:
   either the full getter's value is returned, or exactly the known bits of h *)
Theorem p4_reconstruct H s full bidx L newL items idx h probe :
  0 <= idx -> idx < H <= 8 -> 0 <= h < 2 ^ 64 -> 0 <= L <= 63 -> 0 <= newL <= 63 -> 0 <= probe ->
  s (H - 1 - idx) = p4_byte h L probe -> s idx = Gen_P4.pvCalcShortHash h ->
  bidx = (h mod 2 ^ L + probe) mod 2 ^ L ->
  Gen_P4.GetHashCodePart H s full bidx L newL items idx =
    if p4_full_used (p4_byte h L probe) L newL then full else known (qof L) h.
Proof.
  intros Hi HH Hh HL HnL Hp Hv Hsh Hb.
  pose proof (p4_byte_range h L probe ltac:(lia) ltac:(lia) Hp) as Hr.
  rewrite p4_getpart_eq by (try lia; rewrite Hv; lia).
  rewrite Hv, Hsh. destruct (p4_full_used _ _ _) eqn:Hfu; [reflexivity|].
  apply p4_full_used_false in Hfu; [|lia]. destruct Hfu as [Hne Hq].
  assert (Hps : 0 <= (L + 6) mod 8 < 8) by (apply Z.mod_pos_bound; lia).
  assert (Hlt : probe < 2 ^ ((L + 6) mod 8)).
  { destruct (Z.lt_ge_cases probe (2 ^ ((L + 6) mod 8))); [assumption|exfalso]. apply Hne. unfold p4_byte.
    destruct (Z.ltb_spec probe (2 ^ ((L + 6) mod 8))); [lia|reflexivity]. }
  cbv zeta. rewrite p4_byte_low_probe by lia.
  assert (0 < 2 ^ L) by (apply pow2_pos; lia).
  assert (2 ^ L <= 2 ^ 63) by (apply pow2_le_mono; lia).
  assert (0 <= bidx < 2 ^ L) by (subst bidx; apply Z.mod_pos_bound; lia).
  rewrite (wrapU_small 64 (bidx + 2 ^ L)) by (change (2 ^ 64) with (2 * 2 ^ 63); lia).
  rewrite land_wrap64_ones by lia. rewrite Hb. rewrite unprobe_mod by lia. rewrite Z.mod_mod by lia.
  rewrite (wrapU_small 64 (p4_byte h L probe - 128)) by (change (2 ^ 64) with 18446744073709551616; lia).
  pose proof (fun n => p4_byte_bits h L probe n ltac:(lia) (conj Hp Hlt)) as Hbb.
  pose proof (Z.div_mod (L + 6) 8 ltac:(lia)) as Hdm. unfold qof. set (q := (L + 6) / 8) in *. pose (ps := (L + 6) mod 8). fold ps. assert (Hpse : ps = (L + 6) mod 8) by reflexivity. clearbody ps. rewrite <- Hpse in *.
  assert (0 <= q) by (subst q; apply Z.div_pos; lia).
  apply Z.bits_inj'. intros n Hn. rewrite tb_known by lia.
  rewrite !Z.lor_spec. rewrite !tb_wrapU by lia.
  assert (Hhi : 64 <= n -> Z.testbit h n = false).
  { intros. rewrite <- (Z.mod_small h (2 ^ 64)) by lia. apply Z.mod_pow2_bits_high. lia. }
  (* part A: bits [0,L) *)
  assert (HA : Z.testbit (h mod 2 ^ L) n = (n <? L) && Z.testbit h n).
  { destruct (Z.ltb_spec n L); [apply Z.mod_pow2_bits_low; lia|apply Z.mod_pow2_bits_high; lia]. }
  rewrite HA.
  (* part C: short hash *)
  assert (HC : Z.testbit (Z.shiftl (Gen_P4.pvCalcShortHash h) 57) n = (57 <=? n) && (n <? 65) && Z.testbit h n).
  { destruct (Z.leb_spec 57 n).
    - rewrite Z.shiftl_spec, p4_short_bits by lia. replace (n - 57 + 57) with n by lia.
      destruct (Z.ltb_spec (n - 57) 8), (Z.ltb_spec n 65); try lia; reflexivity.
    - rewrite Z.shiftl_spec by lia. rewrite Z.testbit_neg_r by lia. reflexivity. }
  rewrite HC.
  (* part B: bits [L, 8q] *)
  assert (HB : Z.testbit (Z.shiftl (Z.shiftr (p4_byte h L probe - 128) ps) L) n = (L <=? n) && (n <? 8 * q + 1) && Z.testbit h n).
  { destruct (Z.leb_spec L n).
    - rewrite Z.shiftl_spec, Z.shiftr_spec, sub128_bits, Hbb by lia.
      destruct (Z.ltb_spec (n - L + ps) ps); [lia|].
      replace (n - L + ps - ps + L) with n by lia.
      destruct (Z.eqb_spec (n - L + ps) 7), (Z.ltb_spec (n - L + ps) 7), (Z.ltb_spec n (8 * q + 1)); try lia; reflexivity.
    - rewrite Z.shiftl_spec by lia. rewrite Z.testbit_neg_r by lia. reflexivity. }
  rewrite HB.
  destruct (Z.ltb_spec n 64); [|rewrite Hhi by lia; rewrite !andb_false_r; reflexivity].
  destruct (Z.ltb_spec n L), (Z.leb_spec L n), (Z.ltb_spec n (8 * q + 1)), (Z.leb_spec 57 n), (Z.ltb_spec n 65);
    try lia; simpl; rewrite ?orb_false_r; try reflexivity; destruct (Z.testbit h n); reflexivity.
Qed.
