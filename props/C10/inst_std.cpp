// instantiation TU for cxx2coq (C10): the node-handle decision logic of the stdish set wrapper
#include "momo/stdish/set.h"
#include "momo/stdish/unordered_set.h"
namespace momo { namespace stdish {
template class set<int>;
template class unordered_set<int>;
}}
