(* C09 (b): proofs about the L1 list-surgery model PoolLinks.v: the doubly-linked-list invariant is preserved by
   MergeFrom (as coded after fix 7f37c9f), pvMoveBufferToHead, pvDeleteBuffer and the pvNewBlock insertion; the
   pre-fix MergeFrom violates it (concrete witness). *)
From Coq Require Import ZArith List Bool Lia Permutation.
From MomoCommon Require Import GenPrelude.
From C09 Require Import PoolLinks.
Import ListNotations.
Local Open Scope Z_scope.

Fixpoint lastd (l : list Z) (d : Z) : Z := match l with [] => d | x :: t => lastd t x end.

(* dseg h p l q: l is a doubly linked segment of h; the first element's prev is p, the last element's next is q *)
Fixpoint dseg (h : heap) (p : Z) (l : list Z) (q : Z) : Prop :=
  match l with
  | [] => True
  | x :: t => hprev h x = p /\ hnext h x = hd q t /\ dseg h x t q
  end.

(* the invariant: l is exactly one null-terminated doubly linked list of distinct non-null buffers *)
Definition dll (h : heap) (l : list Z) : Prop := NoDup l /\ ~ In 0 l /\ dseg h 0 l 0.

Lemma lastd_in l d : l <> [] -> In (lastd l d) l.
Proof.
  revert d. induction l as [|x t IH]; intros d H; [congruence|].
  simpl. destruct t as [|y t']; [left; reflexivity|]. right. apply IH. congruence.
Qed.

Lemma lastd_app l x d : lastd (l ++ [x]) d = x.
Proof. revert d. induction l; intros; simpl; auto. Qed.

Lemma lastd_app2 l1 l2 d : lastd (l1 ++ l2) d = lastd l2 (lastd l1 d).
Proof. revert d. induction l1; intros; simpl; auto. Qed.

Lemma dseg_app h p l1 l2 q : dseg h p (l1 ++ l2) q <-> dseg h p l1 (hd q l2) /\ dseg h (lastd l1 p) l2 q.
Proof.
  revert p. induction l1 as [|x t IH]; intros p; simpl.
  - tauto.
  - rewrite IH. assert (hd q (t ++ l2) = hd (hd q l2) t) as -> by (destruct t; reflexivity). tauto.
Qed.

Lemma dseg_frame h h' p l q :
  (forall x, In x l -> hprev h' x = hprev h x /\ hnext h' x = hnext h x) -> dseg h p l q -> dseg h' p l q.
Proof.
  revert p. induction l as [|x t IH]; intros p F D; simpl in *; [exact I|].
  destruct D as (D1 & D2 & D3). destruct (F x (or_introl eq_refl)) as (F1 & F2).
  repeat split; try congruence. apply IH; auto.
Qed.

(* the last element gets a new successor *)
Lemma dseg_retarget h h' p l q q' :
  dseg h p l q -> NoDup l ->
  (forall x, In x l -> hprev h' x = hprev h x) ->
  (forall x, In x l -> x <> lastd l p -> hnext h' x = hnext h x) ->
  (l <> [] -> hnext h' (lastd l p) = q') ->
  dseg h' p l q'.
Proof.
  revert p. induction l as [|x t IH]; intros p D ND FP FN FL; simpl in *; [exact I|].
  destruct D as (D1 & D2 & D3). inversion ND as [|? ? Nx NDt]; subst.
  split; [rewrite FP by auto; reflexivity|].
  destruct t as [|y t'].
  - simpl in *. split; [apply FL; congruence|exact I].
  - split.
    + simpl. rewrite FN; auto. intro E. apply Nx. rewrite E. apply (lastd_in (y :: t') x). congruence.
    + apply IH; auto. intros _. apply FL. congruence.
Qed.

(* the first element gets a new predecessor *)
Lemma dseg_rehead h h' p p' l q :
  dseg h p l q ->
  (forall x, In x l -> hnext h' x = hnext h x) ->
  (forall x, In x (tl l) -> hprev h' x = hprev h x) ->
  (l <> [] -> hprev h' (hd 0 l) = p') ->
  dseg h' p' l q.
Proof.
  destruct l as [|x t]; intros D FN FP FH; simpl in *; [exact I|].
  destruct D as (D1 & D2 & D3). split; [apply FH; congruence|]. split; [rewrite FN by auto; exact D2|].
  apply dseg_frame with (h := h); [|exact D3]. intros z Hz. split; [apply FP; auto|apply FN; auto].
Qed.

(* ---------- pointwise effect of one iteration of the MergeFrom loop ---------- *)
Lemma merge_step_prev h head1 head2 b x : head1 <> head2 ->
  hprev (merge_step h head1 head2 b) x =
    if x =? head1 then b else if x =? b then hprev h head1 else if x =? head2 then hprev h b else hprev h x.
Proof.
  intros N. unfold merge_step. cbv zeta.
  destruct (hprev h b =? 0); simpl negb; cbv iota; unfold set_prev, set_next; simpl hprev; simpl hnext;
  (destruct (upd (hprev h) head2 (hprev h b) head1 =? 0); simpl negb; cbv iota; simpl hprev; unfold upd;
   repeat match goal with |- context [?a =? ?b] => destruct (Z.eqb_spec a b) end; try congruence; try lia).
Qed.

Lemma merge_step_next h head1 head2 b x : head1 <> head2 ->
  hnext (merge_step h head1 head2 b) x =
    if negb (hprev h head1 =? 0) && (x =? hprev h head1) then b
    else if x =? b then head1
    else if negb (hprev h b =? 0) && (x =? hprev h b) then head2
    else hnext h x.
Proof.
  intros N. unfold merge_step. cbv zeta.
  assert (upd (hprev h) head2 (hprev h b) head1 = hprev h head1) as E by (unfold upd; destruct (Z.eqb_spec head1 head2); congruence).
  destruct (Z.eqb_spec (hprev h b) 0); simpl negb; cbv iota; unfold set_prev, set_next; simpl hprev; simpl hnext;
  rewrite E; (destruct (Z.eqb_spec (hprev h head1) 0); simpl negb; cbv iota; simpl hnext; simpl andb; unfold upd;
   repeat match goal with |- context [?a =? ?b] => destruct (Z.eqb_spec a b) end; simpl andb; try congruence; try lia).
Qed.

(* ---------- list-level effect of the MergeFrom loop and the dll invariant ---------- *)
Lemma NoDup_app_disj (A B : list Z) x : NoDup (A ++ B) -> In x A -> In x B -> False.
Proof.
  induction A as [|a A IH]; simpl; intros ND HA HB; [destruct HA|].
  inversion ND as [|? ? Na NDA]; subst. destruct HA as [E|HA].
  - subst. apply Na. apply in_or_app. right. exact HB.
  - apply IH; assumption.
Qed.
Lemma NoDup_app_l (A B : list Z) : NoDup (A ++ B) -> NoDup A.
Proof.
  induction A as [|x A IH]; simpl; intros H; [constructor|]. inversion H as [|? ? Nx ND]; subst.
  constructor; [intro; apply Nx; apply in_or_app; left; assumption|auto].
Qed.
Lemma NoDup_app_r (A B : list Z) : NoDup (A ++ B) -> NoDup B.
Proof. induction A as [|x A IH]; simpl; intros H; [exact H|]. inversion H; subst. auto. Qed.

Lemma lastd_cases l : (l = [] /\ lastd l 0 = 0) \/ (l <> [] /\ In (lastd l 0) l).
Proof. destruct l as [|x t]; [left; split; reflexivity|right; split; [congruence|apply lastd_in; congruence]]. Qed.

Ltac ev := repeat match goal with |- context[?a =? ?b] => destruct (Z.eqb_spec a b); try congruence end;
           cbn [negb andb]; try congruence; try reflexivity.

Section Step.
Variables (h : heap) (L1 R1 L2 R2 : list Z) (b head1 head2 : Z).
Hypothesis N12 : head1 <> head2.
Hypothesis N1b : head1 <> b.
Hypothesis N2b : head2 <> b.
Hypothesis Z1 : head1 <> 0.
Hypothesis Z2 : head2 <> 0.
Hypothesis Zb : b <> 0.
Hypothesis NU : NoDup (L1 ++ R1 ++ L2 ++ R2).
Hypothesis FU : forall x, In x (L1 ++ R1 ++ L2 ++ R2) -> x <> head1 /\ x <> head2 /\ x <> b /\ x <> 0.
Hypothesis D1 : dseg h 0 (L1 ++ head1 :: R1) 0.
Hypothesis D2 : dseg h 0 (L2 ++ b :: head2 :: R2) 0.

Lemma merge_step_lists :
  let h' := merge_step h head1 head2 b in
  dseg h' 0 (L1 ++ b :: head1 :: R1) 0 /\ dseg h' 0 (L2 ++ head2 :: R2) 0.
Proof.
  intros h'.
  apply dseg_app in D1. destruct D1 as (D1a & D1h). simpl in D1a, D1h. destruct D1h as (E1p & E1n & D1b).
  apply dseg_app in D2. destruct D2 as (D2a & D2h). simpl in D2a, D2h. destruct D2h as (Ebp & Ebn & E2p & E2n & D2b).
  pose proof (lastd_cases L1) as LC1. pose proof (lastd_cases L2) as LCb.
  set (p1 := lastd L1 0) in *. set (pb := lastd L2 0) in *.
  assert (forall x, In x L1 -> In x (L1 ++ R1 ++ L2 ++ R2)) as I1 by (intros; rewrite !in_app_iff; tauto).
  assert (forall x, In x R1 -> In x (L1 ++ R1 ++ L2 ++ R2)) as I2 by (intros; rewrite !in_app_iff; tauto).
  assert (forall x, In x L2 -> In x (L1 ++ R1 ++ L2 ++ R2)) as I3 by (intros; rewrite !in_app_iff; tauto).
  assert (forall x, In x R2 -> In x (L1 ++ R1 ++ L2 ++ R2)) as I4 by (intros; rewrite !in_app_iff; tauto).
  assert (forall x, In x L1 -> In x R1 -> False) as d12.
  { intros x A B. apply (NoDup_app_disj L1 (R1 ++ L2 ++ R2) x NU A). rewrite !in_app_iff; tauto. }
  assert (forall x, In x L1 -> In x L2 -> False) as d13.
  { intros x A B. apply (NoDup_app_disj L1 (R1 ++ L2 ++ R2) x NU A). rewrite !in_app_iff; tauto. }
  assert (forall x, In x L1 -> In x R2 -> False) as d14.
  { intros x A B. apply (NoDup_app_disj L1 (R1 ++ L2 ++ R2) x NU A). rewrite !in_app_iff; tauto. }
  pose proof (NoDup_app_r _ _ NU) as NU2.
  assert (forall x, In x R1 -> In x L2 -> False) as d23.
  { intros x A B. apply (NoDup_app_disj R1 (L2 ++ R2) x NU2 A). rewrite !in_app_iff; tauto. }
  assert (forall x, In x R1 -> In x R2 -> False) as d24.
  { intros x A B. apply (NoDup_app_disj R1 (L2 ++ R2) x NU2 A). rewrite !in_app_iff; tauto. }
  pose proof (NoDup_app_r _ _ NU2) as NU3.
  assert (forall x, In x L2 -> In x R2 -> False) as d34 by (intros x A B; exact (NoDup_app_disj L2 R2 x NU3 A B)).
  pose proof (NoDup_app_l _ _ NU) as ND1. pose proof (NoDup_app_l _ _ NU3) as ND3.
  (* where p1 and pb live *)
  assert (p1 <> head1 /\ p1 <> head2 /\ p1 <> b) as (P1a & P1b & P1c).
  { destruct LC1 as [(_ & E)|(_ & Hin)]; [rewrite E; auto|]. destruct (FU _ (I1 _ Hin)) as (?&?&?&?). auto. }
  assert (pb <> head1 /\ pb <> head2 /\ pb <> b) as (PBa & PBb & PBc).
  { destruct LCb as [(_ & E)|(_ & Hin)]; [rewrite E; auto|]. destruct (FU _ (I3 _ Hin)) as (?&?&?&?). auto. }
  assert (p1 = 0 \/ In p1 L1) as C1 by (destruct LC1 as [(_ & E)|(_ & Hin)]; auto).
  assert (pb = 0 \/ In pb L2) as Cb by (destruct LCb as [(_ & E)|(_ & Hin)]; auto).
  assert (p1 <> 0 -> pb <> 0 -> p1 <> pb) as P1B.
  { intros A B E. destruct C1 as [|C1]; [auto|]. destruct Cb as [|Cb]; [auto|]. rewrite E in C1. exact (d13 _ C1 Cb). }
  (* pointwise values of the new heap *)
  assert (forall x, hprev h' x = if x =? head1 then b else if x =? b then p1 else if x =? head2 then pb else hprev h x) as HP.
  { intros x. unfold h'. rewrite merge_step_prev by assumption. rewrite E1p, Ebp. reflexivity. }
  assert (forall x, hnext h' x = if negb (p1 =? 0) && (x =? p1) then b else if x =? b then head1
                                 else if negb (pb =? 0) && (x =? pb) then head2 else hnext h x) as HN.
  { intros x. unfold h'. rewrite merge_step_next by assumption. rewrite E1p, Ebp. reflexivity. }
  clearbody h'.
  (* classes *)
  assert (forall x, In x L1 -> hprev h' x = hprev h x) as PL1.
  { intros x Hx. destruct (FU _ (I1 _ Hx)) as (?&?&?&?). rewrite HP. ev. }
  assert (forall x, In x L1 -> x <> p1 -> hnext h' x = hnext h x) as NL1.
  { intros x Hx Hn. destruct (FU _ (I1 _ Hx)) as (?&?&?&?). rewrite HN.
    assert (pb = 0 \/ x <> pb) as [E|E] by (destruct Cb as [|Cb]; [auto|right; intro; subst; exact (d13 _ Hx Cb)]); [rewrite E|]; ev. }
  assert (forall x, In x R1 -> hprev h' x = hprev h x /\ hnext h' x = hnext h x) as FR1.
  { intros x Hx. destruct (FU _ (I2 _ Hx)) as (?&?&?&?). rewrite HP, HN.
    assert (pb = 0 \/ x <> pb) as [E|E] by (destruct Cb as [|Cb]; [auto|right; intro; subst; exact (d23 _ Hx Cb)]);
    assert (p1 = 0 \/ x <> p1) as [E'|E'] by (destruct C1 as [|C1]; [auto|right; intro; subst; exact (d12 _ C1 Hx)]);
    try rewrite E; try rewrite E'; split; ev. }
  assert (forall x, In x L2 -> hprev h' x = hprev h x) as PL2.
  { intros x Hx. destruct (FU _ (I3 _ Hx)) as (?&?&?&?). rewrite HP. ev. }
  assert (forall x, In x L2 -> x <> pb -> hnext h' x = hnext h x) as NL2.
  { intros x Hx Hn. destruct (FU _ (I3 _ Hx)) as (?&?&?&?). rewrite HN.
    assert (p1 = 0 \/ x <> p1) as [E|E] by (destruct C1 as [|C1]; [auto|right; intro; subst; exact (d13 _ C1 Hx)]); [rewrite E|]; ev. }
  assert (forall x, In x R2 -> hprev h' x = hprev h x /\ hnext h' x = hnext h x) as FR2.
  { intros x Hx. destruct (FU _ (I4 _ Hx)) as (?&?&?&?). rewrite HP, HN.
    assert (pb = 0 \/ x <> pb) as [E|E] by (destruct Cb as [|Cb]; [auto|right; intro; subst; exact (d34 _ Cb Hx)]);
    assert (p1 = 0 \/ x <> p1) as [E'|E'] by (destruct C1 as [|C1]; [auto|right; intro; subst; exact (d14 _ C1 Hx)]);
    try rewrite E; try rewrite E'; split; ev. }
  split.
  - (* destination list: L1 ++ b :: head1 :: R1 *)
    apply dseg_app. split.
    + simpl hd. apply dseg_retarget with (h := h) (q := head1); auto.
      intros NE. fold p1. rewrite HN.
      assert (p1 <> 0) by (destruct LC1 as [(E & _)|(_ & Hin)]; [congruence|]; destruct (FU _ (I1 _ Hin)) as (?&?&?&?); auto).
      ev.
    + fold p1. simpl. repeat split.
      * rewrite HP. ev.
      * rewrite HN. destruct (Z.eqb_spec p1 0) as [E|E]; [rewrite E|]; ev.
      * rewrite HP. ev.
      * rewrite HN, E1n.
        assert (p1 = 0 \/ head1 <> p1) as [E|E] by (destruct (Z.eq_dec p1 0); auto); 
        assert (pb = 0 \/ head1 <> pb) as [E'|E'] by (destruct (Z.eq_dec pb 0); auto);
        try rewrite E; try rewrite E'; ev.
      * apply dseg_frame with (h := h); auto.
  - (* source list: L2 ++ head2 :: R2 *)
    apply dseg_app. split.
    + simpl hd. apply dseg_retarget with (h := h) (q := b); auto.
      intros NE. fold pb. rewrite HN.
      assert (pb <> 0) by (destruct LCb as [(E & _)|(_ & Hin)]; [congruence|]; destruct (FU _ (I3 _ Hin)) as (?&?&?&?); auto).
      destruct (Z.eq_dec p1 0) as [E|E]; [rewrite E|pose proof (P1B E H)]; ev.
    + fold pb. simpl. repeat split.
      * rewrite HP. ev.
      * rewrite HN, E2n.
        assert (p1 = 0 \/ head2 <> p1) as [E|E] by (destruct (Z.eq_dec p1 0); auto);
        assert (pb = 0 \/ head2 <> pb) as [E'|E'] by (destruct (Z.eq_dec pb 0); auto);
        try rewrite E; try rewrite E'; ev.
      * apply dseg_frame with (h := h); auto.
Qed.
End Step.

Lemma NoDup_app_intro (A B : list Z) : NoDup A -> NoDup B -> (forall x, In x A -> In x B -> False) -> NoDup (A ++ B).
Proof.
  induction A as [|a A IH]; simpl; intros NA NB D; [exact NB|].
  inversion NA as [|? ? Na NA']; subst. constructor.
  - rewrite in_app_iff. intros [H|H]; [exact (Na H)|exact (D a (or_introl eq_refl) H)].
  - apply IH; auto. intros x HA HB. exact (D x (or_intror HA) HB).
Qed.

Lemma NoDup_mid_remove (A B : list Z) x : NoDup (A ++ x :: B) -> NoDup (A ++ B) /\ ~ In x (A ++ B).
Proof. apply NoDup_remove. Qed.

(* the loop of MergeFrom moves the full buffers L2 of the source, last first, in front of the destination head *)
Lemma merge_loop_spec head1 head2 R1 R2 :
  head1 <> head2 -> head1 <> 0 -> head2 <> 0 ->
  forall L2 h L1 fuel,
  (length L2 < fuel)%nat ->
  NoDup (L1 ++ R1 ++ L2 ++ R2) ->
  (forall x, In x (L1 ++ R1 ++ L2 ++ R2) -> x <> head1 /\ x <> head2 /\ x <> 0) ->
  dseg h 0 (L1 ++ head1 :: R1) 0 -> dseg h 0 (L2 ++ head2 :: R2) 0 ->
  exists h', merge_loop fuel h head1 head2 = Some h' /\
             dseg h' 0 (L1 ++ rev L2 ++ head1 :: R1) 0 /\ dseg h' 0 (head2 :: R2) 0.
Proof.
  intros N12 Z1 Z2. induction L2 as [|b L2 IH] using rev_ind; intros h L1 fuel Hf NU FU D1 D2.
  - destruct fuel as [|f]; [simpl in Hf; lia|]. simpl in D2. destruct D2 as (E2p & E2n & D2r).
    simpl. rewrite E2p. simpl. exists h. split; [reflexivity|]. split; [exact D1|]. simpl. auto.
  - destruct fuel as [|f]; [simpl in Hf; lia|].
    rewrite app_length in Hf. simpl in Hf.
    assert (hprev h head2 = b) as Eb.
    { rewrite <- app_assoc in D2. apply dseg_app in D2. destruct D2 as (_ & D2). simpl in D2.
      destruct D2 as (_ & _ & E & _). rewrite lastd_app in E || idtac. exact E. }
    assert (In b (L1 ++ R1 ++ (L2 ++ [b]) ++ R2)) as Hb by (rewrite !in_app_iff; simpl; tauto).
    destruct (FU b Hb) as (Nb1 & Nb2 & Nb0).
    cbn [merge_loop]. rewrite Eb. destruct (Z.eqb_spec b 0) as [|_]; [congruence|].
    (* distinctness after taking b out *)
    assert (NoDup (L1 ++ R1 ++ L2 ++ R2) /\ ~ In b (L1 ++ R1 ++ L2 ++ R2)) as (NU' & Nbin).
    { replace (L1 ++ R1 ++ (L2 ++ [b]) ++ R2) with ((L1 ++ R1 ++ L2) ++ b :: R2) in NU by (rewrite <- !app_assoc; reflexivity).
      apply NoDup_remove in NU. rewrite <- !app_assoc in NU. exact NU. }
    assert (forall x, In x (L1 ++ R1 ++ L2 ++ R2) -> x <> head1 /\ x <> head2 /\ x <> b /\ x <> 0) as FU'.
    { intros x Hx. assert (In x (L1 ++ R1 ++ (L2 ++ [b]) ++ R2)) as Hx' by (rewrite !in_app_iff in *; simpl; tauto).
      destruct (FU x Hx') as (?&?&?). repeat split; auto. intro; subst; exact (Nbin Hx). }
    assert (dseg h 0 (L2 ++ b :: head2 :: R2) 0) as D2' by (rewrite <- app_assoc in D2; exact D2).
    destruct (merge_step_lists h L1 R1 L2 R2 b head1 head2 N12 (not_eq_sym Nb1) (not_eq_sym Nb2) Z1 Z2 Nb0 NU' FU' D1 D2') as (S1 & S2).
    set (h1 := merge_step h head1 head2 b) in *.
    destruct (IH h1 (L1 ++ [b]) f ltac:(lia)) as (h' & E' & R1' & R2').
    + rewrite <- app_assoc. simpl. apply Permutation_NoDup with (l := b :: L1 ++ R1 ++ L2 ++ R2).
      * apply Permutation_middle.
      * constructor; assumption.
    + intros x Hx. apply FU. rewrite !in_app_iff in *. simpl in *. tauto.
    + rewrite <- app_assoc. exact S1.
    + exact S2.
    + exists h'. split; [exact E'|]. split; [|exact R2'].
      rewrite rev_unit. rewrite <- app_assoc in R1'. exact R1'.
Qed.

Lemma last_loop_spec h : forall l x p fuel, (length l < fuel)%nat -> ~ In 0 l -> dseg h p (x :: l) 0 ->
  last_loop fuel h x = Some (lastd l x).
Proof.
  induction l as [|y t IH]; intros x p fuel Hf N0 D; (destruct fuel as [|f]; [simpl in Hf; lia|]); simpl in D.
  - destruct D as (_ & En & _). simpl. rewrite En. reflexivity.
  - destruct D as (_ & En & D'). cbn [last_loop]. rewrite En. simpl hd.
    destruct (Z.eqb_spec y 0) as [E|_]; [exfalso; apply N0; left; exact E|].
    simpl lastd. apply (IH y x f); [simpl in Hf; lia|intro; apply N0; right; assumption|exact D'].
Qed.

(* dll_inv for MergeFrom (both pools non-empty): the result is ONE well-formed doubly linked list that contains every
   buffer of both pools exactly once: full buffers of the destination, full buffers of the source (reversed), the
   destination's buffers with free blocks (head first), then the source's. *)
Theorem merge_from_dll h L1 R1 L2 R2 head1 head2 :
  dll h (L1 ++ head1 :: R1) -> dll h (L2 ++ head2 :: R2) ->
  (forall x, In x (L1 ++ head1 :: R1) -> In x (L2 ++ head2 :: R2) -> False) ->
  exists h',
    merge_from (S (length (L1 ++ head1 :: R1) + length (L2 ++ head2 :: R2))) h head1 head2 = Some (h', head1, 0) /\
    dll h' (L1 ++ rev L2 ++ head1 :: R1 ++ head2 :: R2).
Proof.
  intros (ND1 & NZ1 & D1) (ND2 & NZ2 & D2) Dis.
  assert (head1 <> 0) as Z1 by (intro E; apply NZ1; rewrite in_app_iff; simpl; auto).
  assert (head2 <> 0) as Z2 by (intro E; apply NZ2; rewrite in_app_iff; simpl; auto).
  assert (head1 <> head2) as N12.
  { intro E. apply (Dis head1); rewrite in_app_iff; simpl; auto. }
  destruct (NoDup_remove _ _ _ ND1) as (ND1' & Nh1). destruct (NoDup_remove _ _ _ ND2) as (ND2' & Nh2).
  assert (NoDup (L1 ++ R1 ++ L2 ++ R2)) as NU.
  { rewrite app_assoc. apply NoDup_app_intro; auto. intros x H1 H2. apply (Dis x); rewrite in_app_iff in *; simpl; tauto. }
  assert (forall x, In x (L1 ++ R1 ++ L2 ++ R2) -> x <> head1 /\ x <> head2 /\ x <> 0) as FU.
  { intros x Hx. rewrite !in_app_iff in Hx. repeat split; intro E; subst.
    - destruct Hx as [H|[H|[H|H]]].
      + apply Nh1. rewrite in_app_iff; auto.
      + apply Nh1. rewrite in_app_iff; auto.
      + apply (Dis head1); rewrite in_app_iff; simpl; auto.
      + apply (Dis head1); rewrite in_app_iff; simpl; auto.
    - destruct Hx as [H|[H|[H|H]]].
      + apply (Dis head2); rewrite in_app_iff; simpl; auto.
      + apply (Dis head2); rewrite in_app_iff; simpl; auto.
      + apply Nh2. rewrite in_app_iff; auto.
      + apply Nh2. rewrite in_app_iff; auto.
    - destruct Hx as [H|[H|[H|H]]].
      + apply NZ1. rewrite in_app_iff; auto.
      + apply NZ1. rewrite in_app_iff; simpl; auto.
      + apply NZ2. rewrite in_app_iff; auto.
      + apply NZ2. rewrite in_app_iff; simpl; auto. }
  set (fuel := S (length (L1 ++ head1 :: R1) + length (L2 ++ head2 :: R2))).
  assert (length L2 < fuel)%nat as Hf by (unfold fuel; rewrite !app_length; simpl; lia).
  destruct (merge_loop_spec head1 head2 R1 R2 N12 Z1 Z2 L2 h L1 fuel Hf NU FU D1 D2) as (h1 & E1 & S1 & S2).
  unfold merge_from, merge_gen.
  destruct (Z.eqb_spec head2 0) as [|_]; [congruence|]. destruct (Z.eqb_spec head1 0) as [|_]; [congruence|].
  rewrite E1.
  (* the walk to the last buffer of the destination list *)
  rewrite app_assoc in S1. apply dseg_app in S1. destruct S1 as (S1a & S1b).
  assert (~ In 0 R1) as NZR by (intro; apply NZ1; rewrite in_app_iff; simpl; auto).
  assert (length R1 < fuel)%nat as Hf2 by (unfold fuel; rewrite !app_length; simpl; lia).
  rewrite (last_loop_spec h1 R1 head1 _ fuel Hf2 NZR S1b).
  set (lst := lastd R1 head1).
  exists (set_prev (set_next h1 lst head2) head2 lst). split; [reflexivity|].
  assert (In lst (head1 :: R1)) as Hlst.
  { unfold lst. destruct R1 as [|y t]; [left; reflexivity|right; apply lastd_in; congruence]. }
  assert (lst <> head2) as Nl2.
  { intro E. apply (Dis head2); [rewrite in_app_iff; right; rewrite <- E; exact Hlst|rewrite in_app_iff; simpl; auto]. }
  assert (forall x, In x (L2 ++ head2 :: R2) -> x <> lst) as NlS.
  { intros x Hx E. subst x. apply (Dis lst); [rewrite in_app_iff; right; exact Hlst|exact Hx]. }
  (* the resulting invariant *)
  assert (Permutation ((L1 ++ head1 :: R1) ++ (L2 ++ head2 :: R2)) (L1 ++ rev L2 ++ head1 :: R1 ++ head2 :: R2)) as P.
  { rewrite <- app_assoc. apply Permutation_app_head.
    change (head1 :: R1 ++ head2 :: R2) with ((head1 :: R1) ++ head2 :: R2).
    rewrite (app_assoc (rev L2)). rewrite (app_assoc (head1 :: R1) L2).
    apply Permutation_app_tail.
    rewrite Permutation_app_comm. apply Permutation_app_tail. apply Permutation_rev. }
  split; [|split].
  - eapply Permutation_NoDup; [exact P|]. apply NoDup_app_intro; auto.
  - intro H0. apply (Permutation_in _ (Permutation_sym P)) in H0.
    rewrite in_app_iff in H0. destruct H0; auto.
  - replace (L1 ++ rev L2 ++ head1 :: R1 ++ head2 :: R2) with (((L1 ++ rev L2) ++ head1 :: R1) ++ head2 :: R2)
      by (rewrite <- !app_assoc; reflexivity).
    apply dseg_app. split.
    + simpl hd. apply dseg_app. split.
      * simpl hd. apply dseg_frame with (h := h1); [|exact S1a].
        intros x Hx. simpl. unfold upd.
        assert (x <> head2) as A1.
        { intro; subst. rewrite in_app_iff in Hx. destruct Hx as [Hx|Hx].
          - destruct (FU head2) as (_ & F & _); [rewrite !in_app_iff; auto|congruence].
          - apply in_rev in Hx. destruct (FU head2) as (_ & F & _); [rewrite !in_app_iff; auto|congruence]. }
        assert (x <> lst) as A2.
        { intro; subst. rewrite in_app_iff in Hx. destruct Hlst as [El|Hl].
          - rewrite <- El in Hx. destruct Hx as [Hx|Hx]; [|apply in_rev in Hx];
            (destruct (FU head1) as (F & _); [rewrite !in_app_iff; auto|congruence]).
          - destruct Hx as [Hx|Hx]; [|apply in_rev in Hx].
            + apply (NoDup_app_disj L1 (R1 ++ L2 ++ R2) lst NU Hx). rewrite in_app_iff; auto.
            + apply (NoDup_app_disj R1 (L2 ++ R2) lst (NoDup_app_r _ _ NU) Hl). rewrite in_app_iff; auto. }
        destruct (Z.eqb_spec x head2); [congruence|]. destruct (Z.eqb_spec x lst); [congruence|]. auto.
      * apply dseg_retarget with (h := h1) (q := 0); auto.
        -- apply NoDup_app_r in ND1. exact ND1.
        -- intros x Hx. simpl. unfold upd. destruct (Z.eqb_spec x head2) as [E|]; [|reflexivity].
           subst. exfalso. apply (Dis head2); rewrite in_app_iff; simpl; auto; tauto.
        -- intros x Hx Hn. simpl. unfold upd. simpl lastd in Hn. fold lst in Hn. destruct (Z.eqb_spec x lst); [congruence|reflexivity].
        -- intros _. simpl lastd. fold lst. simpl. unfold upd. rewrite Z.eqb_refl. reflexivity.
    + rewrite lastd_app2. simpl lastd. fold lst.
      apply dseg_rehead with (h := h1) (p := 0); auto.
      * intros x Hx. simpl. unfold upd. destruct (Z.eqb_spec x lst) as [E|]; [|reflexivity].
        exfalso. apply (NlS x); [rewrite in_app_iff; right; exact Hx|exact E].
      * intros x Hx. simpl in Hx. simpl. unfold upd. destruct (Z.eqb_spec x head2) as [E|]; [|reflexivity].
        subst. exfalso. apply NoDup_app_r in ND2. inversion ND2; subst. auto.
      * intros _. simpl. unfold upd. rewrite Z.eqb_refl. reflexivity.
Qed.

(* ---------- dll_inv for pvDeleteBuffer, pvNewBuffer, the pvNewBlock insertion and pvMoveBufferToHead ---------- *)
(* first element gets a new predecessor AND last element a new successor *)
Lemma dseg_change h h' p p' l q q' :
  dseg h p l q -> NoDup l ->
  (forall x, In x l -> x <> hd 0 l -> hprev h' x = hprev h x) ->
  (l <> [] -> hprev h' (hd 0 l) = p') ->
  (forall x, In x l -> x <> lastd l p -> hnext h' x = hnext h x) ->
  (l <> [] -> hnext h' (lastd l p) = q') ->
  dseg h' p' l q'.
Proof.
  destruct l as [|x t]; intros D ND FP FH FN FL; [exact I|].
  simpl in D. destruct D as (D1 & D2 & D3). inversion ND as [|? ? Nx NDt]; subst.
  simpl. split; [apply FH; congruence|].
  destruct t as [|y t'].
  - simpl in *. split; [apply FL; congruence|exact I].
  - split.
    + simpl. rewrite FN; [exact D2|left; reflexivity|].
      intro E. apply Nx. rewrite E. simpl. apply (lastd_in (y :: t') x). congruence.
    + apply dseg_retarget with (h := h) (q := q); auto.
      * intros z Hz. apply FP; [right; exact Hz|]. simpl. intro; subst. exact (Nx Hz).
      * intros z Hz Hn. apply FN; [right; exact Hz|exact Hn].
      * intros _. apply FL. congruence.
Qed.

(* ---------- pvDeleteBuffer ---------- *)
Theorem delete_buffer_dll h A B b head :
  dll h (A ++ b :: B) -> head <> b ->
  exists h', delete_buffer h head b = Some h' /\ dll h' (A ++ B) /\
             (forall x, ~ In x (A ++ b :: B) -> hprev h' x = hprev h x /\ hnext h' x = hnext h x).
Proof.
  intros (ND & NZ & D) Nh. unfold delete_buffer.
  destruct (Z.eqb_spec b head) as [E|_]; [congruence|].
  apply dseg_app in D. destruct D as (DA & DB). simpl in DB. destruct DB as (Ep & En & DB').
  set (pa := lastd A 0) in *. set (nb := hd 0 B) in *.
  rewrite Ep, En.
  destruct (NoDup_remove _ _ _ ND) as (ND' & Nb).
  pose proof (NoDup_app_l _ _ ND') as NDA. pose proof (NoDup_app_r _ _ ND') as NDB.
  assert (forall x, In x A -> x <> 0 /\ x <> b) as FA.
  { intros x Hx. split; intro; subst; [apply NZ|apply Nb]; rewrite in_app_iff; auto. }
  assert (forall x, In x B -> x <> 0 /\ x <> b) as FB.
  { intros x Hx. split; intro; subst; [apply NZ|apply Nb]; rewrite in_app_iff; simpl; auto. }
  assert (forall x, In x A -> In x B -> False) as dAB by (intros x; apply NoDup_app_disj; exact ND').
  assert (pa = 0 \/ In pa A) as CA by (unfold pa; destruct (lastd_cases A) as [(_ & E)|(_ & H)]; auto).
  assert (nb = 0 \/ In nb B) as CB by (unfold nb; destruct B; simpl; auto).
  eexists. split; [reflexivity|].
  set (h1 := if negb (pa =? 0) then set_next h pa nb else h).
  set (h2 := if negb (nb =? 0) then set_prev h1 nb pa else h1).
  assert (forall x, hprev h2 x = if negb (nb =? 0) && (x =? nb) then pa else hprev h x) as HP.
  { intros x. unfold h2, h1. destruct (nb =? 0); destruct (pa =? 0); simpl; unfold upd; destruct (x =? nb); reflexivity. }
  assert (forall x, hnext h2 x = if negb (pa =? 0) && (x =? pa) then nb else hnext h x) as HN.
  { intros x. unfold h2, h1. destruct (nb =? 0); destruct (pa =? 0); simpl; unfold upd; destruct (x =? pa); reflexivity. }
  clearbody h2. split; [split; [exact ND'|split]|].
  - intro H0. apply NZ. rewrite in_app_iff in *. simpl. tauto.
  - apply dseg_app. split.
    + fold nb. apply dseg_retarget with (h := h) (q := b); auto.
      * intros x Hx. rewrite HP. destruct CB as [E|Hn]; [rewrite E; reflexivity|].
        destruct (Z.eqb_spec x nb) as [E|]; [subst; exfalso; exact (dAB _ Hx Hn)|]. rewrite andb_false_r. reflexivity.
      * intros x Hx Hn. fold pa in Hn. rewrite HN. destruct (Z.eqb_spec x pa); [congruence|]. rewrite andb_false_r. reflexivity.
      * intros NE. fold pa. rewrite HN. rewrite Z.eqb_refl.
        assert (pa <> 0) as P0 by (destruct (lastd_cases A) as [(E & _)|(_ & H)]; [congruence|]; fold pa in H; apply (FA _ H)).
        destruct (Z.eqb_spec pa 0); [congruence|]. reflexivity.
    + fold pa. apply dseg_rehead with (h := h) (p := b); auto.
      * intros x Hx. rewrite HN. destruct CA as [E|Ha]; [rewrite E; reflexivity|].
        destruct (Z.eqb_spec x pa) as [E|]; [subst; exfalso; exact (dAB _ Ha Hx)|]. rewrite andb_false_r. reflexivity.
      * intros x Hx. rewrite HP. destruct B as [|y t]; [destruct Hx|]. simpl in Hx. unfold nb. simpl.
        destruct (Z.eqb_spec x y) as [E|]; [|rewrite andb_false_r; reflexivity].
        subst. inversion NDB; subst. contradiction.
      * intros NE. rewrite HP. fold nb. rewrite Z.eqb_refl.
        assert (nb <> 0) as N0 by (destruct B as [|y t]; [congruence|]; unfold nb; simpl; apply (FB y); left; reflexivity).
        destruct (Z.eqb_spec nb 0); [congruence|]. reflexivity.
  - intros x Hx. rewrite HP, HN. rewrite in_app_iff in Hx. simpl in Hx.
    assert (x <> pa \/ pa = 0) as [E|E] by (destruct CA as [|Ha]; [auto|left; intro; subst; tauto]);
    assert (x <> nb \/ nb = 0) as [E'|E'] by (destruct CB as [|Hb]; [auto|left; intro; subst; tauto]);
    repeat match goal with |- context[?a =? ?b] => destruct (Z.eqb_spec a b); try congruence end; simpl; auto.
Qed.

(* ---------- pvNewBuffer (627-628) and the insertion after the head in pvNewBlock (527-529) ---------- *)
Theorem new_buffer_dll h nb : nb <> 0 -> dll (new_buffer h nb) [nb].
Proof.
  intros N. unfold dll, new_buffer. simpl. repeat split.
  - repeat constructor; simpl; tauto.
  - intros [E|[]]. congruence.
  - unfold upd. rewrite Z.eqb_refl. reflexivity.
  - unfold upd. rewrite Z.eqb_refl. reflexivity.
Qed.

Theorem append_new_buffer_dll h A head nb :
  dll h (A ++ [head]) -> nb <> 0 -> ~ In nb (A ++ [head]) ->
  dll (append_new_buffer h head nb) (A ++ [head; nb]) /\
  (forall x, ~ In x (A ++ [head; nb]) -> hprev (append_new_buffer h head nb) x = hprev h x /\ hnext (append_new_buffer h head nb) x = hnext h x).
Proof.
  intros (ND & NZ & D) N0 Nin.
  assert (forall x, hprev (append_new_buffer h head nb) x = if x =? nb then head else hprev h x) as HP.
  { intros x. unfold append_new_buffer, new_buffer. simpl. unfold upd. destruct (x =? nb); reflexivity. }
  assert (forall x, hnext (append_new_buffer h head nb) x = if x =? head then nb else if x =? nb then 0 else hnext h x) as HN.
  { intros x. unfold append_new_buffer, new_buffer. simpl. unfold upd. destruct (x =? head); destruct (x =? nb); reflexivity. }
  set (h' := append_new_buffer h head nb) in *. clearbody h'.
  assert (head <> nb) as Nhn by (intro; subst; apply Nin; rewrite in_app_iff; simpl; auto).
  split; [split; [|split]|].
  - replace (A ++ [head; nb]) with ((A ++ [head]) ++ [nb]) by (rewrite <- app_assoc; reflexivity).
    apply NoDup_app_intro; auto; [repeat constructor; simpl; tauto|]. intros x H1 [E|[]]. subst. contradiction.
  - intro H0. rewrite in_app_iff in H0. simpl in H0. apply NZ. rewrite in_app_iff. simpl. destruct H0 as [|[|[|[]]]]; auto; congruence.
  - replace (A ++ [head; nb]) with ((A ++ [head]) ++ [nb]) by (rewrite <- app_assoc; reflexivity).
    apply dseg_app. split.
    + simpl hd. apply dseg_retarget with (h := h) (q := 0); auto.
      * intros x Hx. rewrite HP. destruct (Z.eqb_spec x nb); [subst; contradiction|reflexivity].
      * intros x Hx Hn. rewrite lastd_app in Hn. rewrite HN.
        destruct (Z.eqb_spec x head); [congruence|]. destruct (Z.eqb_spec x nb); [subst; contradiction|reflexivity].
      * intros _. rewrite lastd_app. rewrite HN. rewrite Z.eqb_refl. reflexivity.
    + rewrite lastd_app. simpl. rewrite HP, HN. rewrite Z.eqb_refl.
      destruct (Z.eqb_spec nb head); [congruence|]. auto.
  - intros x Hx. rewrite HP, HN. rewrite in_app_iff in Hx. simpl in Hx.
    destruct (Z.eqb_spec x nb); [subst; tauto|]. destruct (Z.eqb_spec x head); [subst; tauto|]. auto.
Qed.

Ltac solve_in := simpl in *; rewrite ?in_app_iff in *; simpl in *; rewrite ?in_app_iff in *; simpl in *; tauto.

(* ---------- pvMoveBufferToHead ---------- *)
Theorem move_to_head_dll h A B R b head :
  dll h (A ++ b :: B ++ head :: R) ->
  exists h', move_to_head h head b = Some (h', b) /\ dll h' (A ++ B ++ b :: head :: R) /\
             (forall x, ~ In x (A ++ b :: B ++ head :: R) -> hprev h' x = hprev h x /\ hnext h' x = hnext h x).
Proof.
  intros (ND & NZ & D).
  assert (Permutation (A ++ b :: B ++ head :: R) (A ++ B ++ b :: head :: R)) as P.
  { apply Permutation_app_head. apply Permutation_middle. }
  apply dseg_app in D. destruct D as (DA & DB). simpl in DB. destruct DB as (Ebp & Ebn & DB').
  apply dseg_app in DB'. destruct DB' as (DBs & DH). simpl in DH. destruct DH as (Ehp & Ehn & DR).
  set (pa := lastd A 0) in *. set (hp := lastd B b) in *.
  assert (forall x, In x (A ++ b :: B ++ head :: R) -> x <> 0) as F0 by (intros x Hx E; subst; exact (NZ Hx)).
  assert (head <> 0) as H0 by (apply F0; solve_in).
  unfold move_to_head. rewrite Ehp.
  destruct B as [|c B'].
  - (* b is already the predecessor of the head *)
    simpl in hp. subst hp.
    assert (b <> 0) as Nb0 by (apply F0; solve_in).
    destruct (Z.eqb_spec b 0) as [|_]; [congruence|]. rewrite Z.eqb_refl. simpl negb. cbv iota.
    exists h. split; [reflexivity|]. split; [|auto].
    split; [exact ND|]. split; [exact NZ|].
    apply dseg_app. split; [exact DA|]. simpl. auto.
  - simpl in Ebn. simpl app in *.
    (* distinctness *)
    destruct (NoDup_remove _ _ _ ND) as (ND1 & Nb).            (* b not in A ++ (c::B') ++ head :: R *)
    assert (NoDup (A ++ (c :: B') ++ head :: R)) as ND1' by exact ND1.
    pose proof (NoDup_app_l _ _ ND1) as NDA. pose proof (NoDup_app_r _ _ ND1) as ND2.
    change (c :: B' ++ head :: R) with ((c :: B') ++ head :: R) in ND2.
    destruct (NoDup_remove _ _ _ ND2) as (ND3 & Nhd).           (* head not in (c::B') ++ R *)
    pose proof (NoDup_app_l _ _ ND3) as NDB. pose proof (NoDup_app_r _ _ ND3) as NDR.
    assert (forall x, In x A -> In x ((c :: B') ++ head :: R) -> False) as dA.
    { intros x H1 H2. exact (NoDup_app_disj A _ x ND1 H1 H2). }
    assert (forall x, In x (c :: B') -> In x R -> False) as dBR by (intros x; apply NoDup_app_disj; exact ND3).
    assert (forall x, In x A -> x <> b /\ x <> head /\ x <> c /\ x <> 0 /\ ~ In x (c :: B') /\ ~ In x R) as FA.
    { intros x Hx. repeat split; try (intro E; subst x).
      - apply Nb. solve_in.
      - apply (dA head Hx). solve_in.
      - apply (dA c Hx). solve_in.
      - apply (F0 0); [solve_in|reflexivity].
      - intro H. apply (dA x Hx). solve_in.
      - intro H. apply (dA x Hx). solve_in. }
    assert (forall x, In x (c :: B') -> x <> b /\ x <> head /\ x <> 0 /\ ~ In x A /\ ~ In x R) as FB.
    { intros x Hx. repeat split; try (intro E; subst x).
      - apply Nb. solve_in.
      - apply Nhd. solve_in.
      - apply (F0 0); [solve_in|reflexivity].
      - intro H. apply (dA x H). solve_in.
      - intro H. exact (dBR x Hx H). }
    assert (forall x, In x R -> x <> b /\ x <> head /\ x <> 0 /\ ~ In x A /\ ~ In x (c :: B')) as FR.
    { intros x Hx. repeat split; try (intro E; subst x).
      - apply Nb. solve_in.
      - apply Nhd. solve_in.
      - apply (F0 0); [solve_in|reflexivity].
      - intro H. apply (dA x H). solve_in.
      - intro H. exact (dBR x H Hx). }
    assert (b <> head) as Nbh by (intro E; apply Nb; rewrite E; solve_in).
    assert (b <> 0) as Nb0 by (apply F0; solve_in).
    assert (In hp (c :: B')) as Hhp by (unfold hp; apply (lastd_in (c :: B') b); congruence).
    destruct (FB hp Hhp) as (Nhpb & Nhph & Nhp0 & NhpA & NhpR).
    destruct (FB c (or_introl eq_refl)) as (Ncb & Nch & Nc0 & NcA & NcR).
    assert (pa = 0 \/ In pa A) as CA by (unfold pa; destruct (lastd_cases A) as [(_ & E)|(_ & H)]; auto).
    destruct (Z.eqb_spec hp 0) as [|_]; [congruence|].
    destruct (Z.eqb_spec b hp) as [|_]; [congruence|]. simpl negb. cbv iota.
    rewrite Ebp, Ebn. destruct (Z.eqb_spec c 0) as [|_]; [congruence|].
    eexists. split; [reflexivity|].
    match goal with |- dll ?hh _ /\ _ => set (h' := hh) end.
    assert (forall x, hprev h' x = if x =? head then b else if x =? b then hp else if x =? c then pa else hprev h x) as HP.
    { intros x. unfold h'. destruct (pa =? 0); simpl; unfold upd;
      repeat match goal with |- context[?a =? ?b] => destruct (Z.eqb_spec a b); try congruence end. }
    assert (forall x, hnext h' x = if x =? hp then b else if x =? b then head
                                   else if negb (pa =? 0) && (x =? pa) then c else hnext h x) as HN.
    { intros x. unfold h'. destruct (Z.eqb_spec pa 0); simpl; unfold upd;
      repeat match goal with |- context[?a =? ?b] => destruct (Z.eqb_spec a b); try congruence end. }
    clearbody h'.
    split; [split; [|split]|].
    + eapply Permutation_NoDup; [exact P|exact ND].
    + intro H. apply NZ. eapply Permutation_in; [apply Permutation_sym; exact P|exact H].
    + apply dseg_app. split.
      * simpl hd. apply dseg_retarget with (h := h) (q := b); auto.
        -- intros x Hx. destruct (FA x Hx) as (?&?&?&?&?&?). rewrite HP. ev.
        -- intros x Hx Hn. fold pa in Hn. destruct (FA x Hx) as (?&?&?&?&?&?). rewrite HN.
           assert (x <> hp) by (intro; subst; contradiction). ev.
        -- intros NE. fold pa. destruct CA as [E|Ha]; [exfalso; destruct (lastd_cases A) as [(E' & _)|(_ & H)]; [congruence|]; fold pa in H; rewrite E in H; destruct (FA 0 H) as (_&_&_&Z0&_); congruence|].
           destruct (FA pa Ha) as (?&?&?&?&?&?). rewrite HN. assert (pa <> hp) by (intro E; rewrite E in *; contradiction). ev.
      * fold pa. change (c :: B' ++ b :: head :: R) with ((c :: B') ++ b :: head :: R). apply dseg_app. split.
        -- simpl hd. apply dseg_change with (h := h) (p := b) (q := head); auto.
           ++ intros x Hx Hn. simpl in Hn. destruct (FB x Hx) as (?&?&?&?&?). rewrite HP. ev.
           ++ intros _. simpl hd. rewrite HP. ev.
           ++ intros x Hx Hn. fold hp in Hn. destruct (FB x Hx) as (?&?&?&?&?). rewrite HN.
              assert (pa = 0 \/ x <> pa) as [E|E] by (destruct CA as [|Ha]; [auto|right; intro; subst; contradiction]); [rewrite E|]; ev.
           ++ intros _. fold hp. rewrite HN. ev.
        -- fold hp. simpl. repeat split.
           ++ rewrite HP. ev.
           ++ rewrite HN. ev.
           ++ rewrite HP. ev.
           ++ rewrite HN, Ehn.
              assert (pa = 0 \/ head <> pa) as [E|E] by (destruct CA as [|Ha]; [auto|right; intro E; rewrite <- E in Ha; destruct (FA head Ha) as (_&X&_); congruence]); [rewrite E|]; ev.
           ++ apply dseg_frame with (h := h); auto. intros x Hx. destruct (FR x Hx) as (R1 & R2 & R3 & R4 & R5). rewrite HP, HN.
              assert (x <> c) by (intro Ec; apply R5; rewrite Ec; left; reflexivity).
              assert (x <> hp) by (intro Eh; apply R5; rewrite Eh; exact Hhp).
              assert (pa = 0 \/ x <> pa) as [E|E] by (destruct CA as [|Ha]; [auto|right; intro Ep; apply R4; rewrite Ep; exact Ha]); [rewrite E|]; split; ev.
    + intros x Hx. rewrite HP, HN. rewrite in_app_iff in Hx. simpl in Hx. rewrite in_app_iff in Hx. simpl in Hx.
      assert (x <> head /\ x <> b /\ x <> c /\ x <> hp) as (?&?&?&?).
      { repeat split; intro; subst; apply Hx; try tauto. right. right. left. simpl in Hhp. tauto. }
      assert (pa = 0 \/ x <> pa) as [E|E] by (destruct CA as [|Ha]; [auto|right; intro; subst; tauto]); [rewrite E|]; split; ev.
Qed.

(* ---------- concrete runs: the fixed MergeFrom keeps the invariant, the pre-fix code does not ---------- *)
Definition merged_list (loop : nat -> heap -> Z -> Z -> option heap) (l1 : list Z) (head1 : Z) (l2 : list Z) (head2 : Z)
  : option (list Z * Z) :=
  match merge_gen loop 20 (heap_of_lists l1 l2) head1 head2 with
  | Some (h, hd1, _) => match list_of 20 h hd1 with Some l => Some (l, hd1) | None => None end
  | None => None
  end.

(* pool 1 = [1] with head 1, pool 2 = [2;3] with head 3 (buffer 2 is full): the merged list must be 2,1,3 *)
Example merge_example : merged_list merge_loop [1] 1 [2; 3] 3 = Some ([2; 1; 3], 1).
Proof. vm_compute. reflexivity. Qed.

(* the pre-fix code loses buffer 2: both inputs are well-formed lists, yet the list denoted by the head afterwards is 1,3 *)
Lemma merge_prefix_refuted :
  exists l1 head1 l2 head2 res b,
    list_of 20 (heap_of_lists l1 l2) head1 = Some l1 /\ list_of 20 (heap_of_lists l1 l2) head2 = Some l2 /\
    merged_list merge_loop_prefix l1 head1 l2 head2 = Some (res, head1) /\ In b (l1 ++ l2) /\ ~ In b res.
Proof.
  exists [1], 1, [2; 3], 3, [1; 3], 2. vm_compute.
  repeat split; auto. intros [H|[H|[]]]; discriminate H.
Qed.

(* non-vacuity of the hypotheses of merge_from_dll *)
Lemma dll_example :
  dll (heap_of_lists [1; 2] [3; 4]) ([1] ++ 2 :: []) /\ dll (heap_of_lists [1; 2] [3; 4]) ([3] ++ 4 :: []) /\
  (forall x, In x ([1] ++ 2 :: []) -> In x ([3] ++ 4 :: []) -> False).
Proof.
  unfold dll. simpl. repeat split; try reflexivity.
  - repeat constructor; simpl; intuition discriminate.
  - intuition discriminate.
  - repeat constructor; simpl; intuition discriminate.
  - intuition discriminate.
  - intros x [H|[H|[]]] [H'|[H'|[]]]; subst; discriminate.
Qed.
