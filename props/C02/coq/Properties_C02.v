(* Property C02 -- theorems only.  Each is closed by `exact <lemma>` and followed by Print Assumptions.
   They talk about coq/BTreeModel.v, the executable model of momo::TreeSet (TreeSet.h) whose split index and
   leaf-capacity arithmetic are the cxx2coq translations Gen_TreeNode.v / Gen_Node.v (regenerated from /repo on
   every run) and which is run against the real TreeSet/TreeMap on every run (T-cor).
   twf t      = the WF invariant: uniform depth, |children| = |items|+1 for internal nodes, count <= capacity <=
                maxCapacity, empty nodes allowed, and mCount = number of items;
   contents t = the in-order flattening;  sorted multi = non-decreasing (multi) / strictly increasing (unique);
   iter_index t it = number of items before position it (= distance from begin).
   All statements hold for every 1 <= maxCapacity <= 255, every capacityStep, blockCount, search strategy. *)
From Coq Require Import ZArith List.
From C02 Require Import BTreeModel BTreeParams BTreeBase SplitSeg IndexTable BTreeSearch BTreeIter BTreeAdd BTreeRemove BTreeCtx BTreeRemove2 BTreeTrack BTreeRemove3 BTreeRange BTreeTop BTreeHist BTreeRemoveTop BTreeRangeTop BTreeHist2 BTreeMerge BTreeFast BTreeFast2 BTreeInsRange BTreeHist3 NodeOps NodeScript BTreeDecide BTreeSplitGen GenPrimsC02 Gen_TreeFacts BTreeFastDecide BTreeSearchGen ProtoSyntaxC02 Gen_TreeProto ProtoSemC02 ProtoProofsC02 ProtoIterC02 ProtoMoveC02 ProtoIncrC02 ProtoDecrC02 ProtoBeginC02.
From Coq Require String.
From MomoCommon Require Import GenPrelude.
Import ListNotations.
Local Open Scope Z_scope.

(* T-gen leaf: TreeNode::GetSplitItemIndex(count, newIndex) < count, so pvSplitNode always has a separator
   (this is also the MOMO_ASSERT(splitItemIndex < itemCount) of the source, now a proved fact). *)
Theorem C02_split_index_in_range :
  forall c j : nat, (0 < c)%nat -> (c <= 255)%nat -> (j <= c)%nat -> (split_index c j < c)%nat.
Proof. exact split_index_lt. Qed.
Print Assumptions C02_split_index_in_range.

(* T-gen leaves: a leaf created by Node::Create for `count` items (pvGetLeafMemPoolIndex + GetCapacity) has
   count <= capacity, 0 < capacity <= maxCapacity, whatever capacityStep / blockCount / allocated internal nodes. *)
Theorem C02_leaf_capacity_fits :
  forall maxCap stepRaw blockCount ic c : nat,
    (0 < maxCap)%nat -> (maxCap <= 255)%nat -> (c <= maxCap)%nat ->
    (c <= leaf_cap maxCap stepRaw blockCount ic c /\ 0 < leaf_cap maxCap stepRaw blockCount ic c <= maxCap)%nat.
Proof. exact leaf_cap_bounds. Qed.
Print Assumptions C02_leaf_capacity_fits.

(* pvFindFirst inside a node: linear and binary search both return the first index whose item satisfies a
   monotone predicate. *)
Theorem C02_node_search_is_first_true :
  forall (linear : bool) (P : Z -> bool) (ks : list Z), mono P ks -> search linear P ks = first_true P ks.
Proof. exact search_correct. Qed.
Print Assumptions C02_node_search_is_first_true.

(* GetLowerBound: the returned iterator is a normalised position whose index i splits the sequence into
   keys < k and keys >= k (first not less). *)
Theorem C02_lower_bound_is_first_not_less :
  forall (maxCap : nat) (linear multi : bool), (1 <= maxCap <= 255)%nat ->
  forall (t : tree) (k : Z), twf maxCap t -> sorted multi (contents t) ->
    let i := iter_index t (lower_bound linear t k) in
    norm t (lower_bound linear t k) /\ (i <= length (contents t))%nat /\
    Forall (fun x => x < k) (firstn i (contents t)) /\ Forall (fun x => k <= x) (skipn i (contents t)).
Proof. exact lower_bound_is_first_not_less. Qed.
Print Assumptions C02_lower_bound_is_first_not_less.

(* GetUpperBound: first greater. *)
Theorem C02_upper_bound_is_first_greater :
  forall (maxCap : nat) (linear multi : bool), (1 <= maxCap <= 255)%nat ->
  forall (t : tree) (k : Z), twf maxCap t -> sorted multi (contents t) ->
    let i := iter_index t (upper_bound linear t k) in
    norm t (upper_bound linear t k) /\ (i <= length (contents t))%nat /\
    Forall (fun x => x <= k) (firstn i (contents t)) /\ Forall (fun x => k < x) (skipn i (contents t)).
Proof. exact upper_bound_is_first_greater. Qed.
Print Assumptions C02_upper_bound_is_first_greater.

(* ContainsKey agrees with membership in the flattened sequence; Find returns the lower bound when the key is
   present and end otherwise. *)
Theorem C02_contains_iff_member :
  forall (maxCap : nat) (linear multi : bool), (1 <= maxCap <= 255)%nat ->
  forall (t : tree) (k : Z), twf maxCap t -> sorted multi (contents t) ->
    (contains linear t k = true <-> In k (contents t)).
Proof. exact contains_spec. Qed.
Print Assumptions C02_contains_iff_member.

Theorem C02_find_position :
  forall (maxCap : nat) (linear multi : bool), (1 <= maxCap <= 255)%nat ->
  forall (t : tree) (k : Z), twf maxCap t -> sorted multi (contents t) ->
    iter_index t (find linear t k) = if contains linear t k then lb_index (contents t) k else length (contents t).
Proof. exact find_spec. Qed.
Print Assumptions C02_find_position.

(* Relocator::pvSplitNode: the six literal segment copies of its two branches (the model's split_parts: AddSegment
   index arithmetic with s = GetSplitItemIndex(count, c), the new item at index c, for an internal node the two new
   children in place of child c) are exactly "insert the new item (and children), then cut at s+1 (new item goes left)
   or s (goes right)": left node = first part, separator = the OLD item s, right node = the rest. *)
Theorem C02_split_segments_are_insert_then_cut :
  forall (ks : list Z) (cs sub : list node) (c s : nat) (x : Z),
    (c <= length ks)%nat -> (s < length ks)%nat ->
    (cs = [] /\ sub = []) \/ (length cs = S (length ks) /\ length sub = 2%nat) ->
    let ks' := insert_at c x ks in
    let cs' := firstn c cs ++ sub ++ skipn (S c) cs in
    let s' := if (c <=? s)%nat then S s else s in
    split_parts ks cs sub (length ks) c s x =
      ((firstn s' ks', firstn (S s') cs'), nth s' ks' 0, (skipn (S s') ks', skipn (S s') cs')).
Proof. exact split_parts_cut. Qed.
Print Assumptions C02_split_segments_are_insert_then_cut.

(* indexed layout (isContinuous = false) of details/TreeNode.h, abstraction lemma for insertion into a node: items live in
   raw slots and the node keeps a permutation table; constructing the new item in slot indexes[count] and then
   pvAcceptBackItem(index) (copy_backward on the table) leaves the table a permutation of the slot numbers and makes the
   LOGICAL item sequence (slot indexes[0], indexes[1], ...) exactly insert_at index x of the old one - which is what
   the abstract model (items as a list) does.  (Removal: C02_indexed_node_remove_is_remove_at; all sequences of node operations:
   C02_indexed_node_history_refines; the real generated table equals this hand table: C02_generated_*_table_is_hand_table; the harness
   additionally checks on the real indexed nodes that the table is a permutation.) *)
Theorem C02_indexed_node_accept_is_insert_at :
  forall (n : inode) (x : Z) (index : nat),
    winv n -> (index <= icount n)%nat -> (icount n < length (idx n))%nat ->
    let n' := accept_back (write_back n x) index in
    winv n' /\ logical n' = insert_at index x (logical n).
Proof. exact accept_back_refines. Qed.
Print Assumptions C02_indexed_node_accept_is_insert_at.

(* pvAdd(iter, x) for ANY valid position (hinted Add): WF is preserved through in-leaf insertion, pvAddGrow and the
   whole pvAddSplit cascade; the sequence becomes (items before iter) ++ x :: (items from iter on); the returned
   position holds x and has the index of iter. *)
Theorem C02_add_inserts_before_position :
  forall maxCap stepRaw blockCount : nat, (1 <= maxCap <= 255)%nat ->
  forall (t : tree) (it : iter) (x : Z), twf maxCap t -> tvalid t it ->
    let '(t', pos) := add maxCap stepRaw blockCount t it x in
    twf maxCap t' /\
    contents t' = firstn (iter_index t it) (contents t) ++ x :: skipn (iter_index t it) (contents t) /\
    tvalid t' pos /\ titem t' pos /\ deref t' pos = Some x /\ iter_index t' pos = iter_index t it.
Proof. exact add_spec. Qed.
Print Assumptions C02_add_inserts_before_position.

(* Insert(key): refines the list-level specification (insert at the upper bound; for unique keys return the
   existing equivalent item and do not insert), including the index of the returned iterator and the flag. *)
Theorem C02_insert_refines :
  forall (maxCap stepRaw blockCount : nat) (linear multi : bool), (1 <= maxCap <= 255)%nat ->
  forall (t : tree) (k : Z), twf maxCap t -> sorted multi (contents t) ->
    let '(t', pos, ins) := insert maxCap stepRaw blockCount linear multi t k in
    twf maxCap t' /\ (contents t', iter_index t' pos, ins) = spec_insert multi (contents t) k /\
    tvalid t' pos /\ titem t' pos.
Proof. exact insert_refines. Qed.
Print Assumptions C02_insert_refines.

Theorem C02_insert_keeps_wf_sorted_count :
  forall (maxCap stepRaw blockCount : nat) (linear multi : bool), (1 <= maxCap <= 255)%nat ->
  forall (t : tree) (k : Z), twf maxCap t -> sorted multi (contents t) ->
    let t' := fst (fst (insert maxCap stepRaw blockCount linear multi t k)) in
    twf maxCap t' /\ sorted multi (contents t') /\ cnt t' = length (contents t').
Proof. exact insert_keeps_wf_sorted_count. Qed.
Print Assumptions C02_insert_keeps_wf_sorted_count.

(* insert_multi_stable: in a multi container the new key is placed after every key <= it (so equivalent keys keep
   insertion order), and the returned iterator denotes exactly that index and holds the key. *)
Theorem C02_insert_multi_stable :
  forall (maxCap stepRaw blockCount : nat) (linear multi : bool), (1 <= maxCap <= 255)%nat ->
  forall (t : tree) (k : Z), multi = true -> twf maxCap t -> sorted multi (contents t) ->
    let '(t', pos, ins) := insert maxCap stepRaw blockCount linear multi t k in
    ins = true /\ exists a b, contents t = a ++ b /\ contents t' = a ++ k :: b /\
      Forall (fun x => x <= k) a /\ Forall (fun x => k < x) b /\ iter_index t' pos = length a /\ deref t' pos = Some k.
Proof. exact insert_multi_stable. Qed.
Print Assumptions C02_insert_multi_stable.

(* iterators: GetBegin has index 0; operator++ on a position that holds an item gives index+1 (through pvMove's
   climbing over empty leaves and exhausted subtrees); operator-- gives index-1; the n-th increment from begin is
   the position of index n. *)
Theorem C02_begin_is_index_zero :
  forall maxCap : nat, (1 <= maxCap <= 255)%nat -> forall t : tree, twf maxCap t ->
    norm t (begin_iter t) /\ iter_index t (begin_iter t) = 0%nat.
Proof. exact begin_spec. Qed.
Print Assumptions C02_begin_is_index_zero.

Theorem C02_iterator_successor :
  forall maxCap : nat, (1 <= maxCap <= 255)%nat -> forall (t : tree) (it : iter),
    twf maxCap t -> tvalid t it -> titem t it ->
    norm t (next t it) /\ iter_index t (next t it) = S (iter_index t it).
Proof. exact next_spec. Qed.
Print Assumptions C02_iterator_successor.

Theorem C02_iterator_predecessor :
  forall maxCap : nat, (1 <= maxCap <= 255)%nat -> forall (t : tree) (it : iter),
    twf maxCap t -> tvalid t it -> (0 < iter_index t it)%nat ->
    tvalid t (prev t it) /\ titem t (prev t it) /\ S (iter_index t (prev t it)) = iter_index t it.
Proof. exact prev_spec. Qed.
Print Assumptions C02_iterator_predecessor.

Theorem C02_nth_increment_is_index_n :
  forall maxCap : nat, (1 <= maxCap <= 255)%nat -> forall t : tree, twf maxCap t ->
  forall n : nat, (n <= length (contents t))%nat -> norm t (nth_iter t n) /\ iter_index t (nth_iter t n) = n.
Proof. exact nth_iter_spec. Qed.
Print Assumptions C02_nth_increment_is_index_n.

(* a position that holds an item is determined by its index (two iterators with equal distance from begin are
   equal as (node, itemIndex) pairs) *)
Theorem C02_position_determined_by_index :
  forall maxCap : nat, (1 <= maxCap <= 255)%nat -> forall (t : tree) (a b : iter),
    twf maxCap t -> norm t a -> norm t b -> iter_index t a = iter_index t b -> a = b.
Proof. exact norm_unique. Qed.
Print Assumptions C02_position_determined_by_index.

(* forward traversal (begin, ++ until end) yields the flattened sequence, backward traversal (end, -- until
   begin) yields its reverse; mCount is its length. *)
Theorem C02_forward_traversal_is_contents :
  forall maxCap : nat, (1 <= maxCap <= 255)%nat -> forall t : tree, twf maxCap t -> traverse_fwd t = contents t.
Proof. exact traverse_fwd_spec. Qed.
Print Assumptions C02_forward_traversal_is_contents.

Theorem C02_backward_traversal_is_reverse :
  forall maxCap : nat, (1 <= maxCap <= 255)%nat -> forall t : tree, twf maxCap t -> traverse_bwd t = rev (contents t).
Proof. exact traverse_bwd_spec. Qed.
Print Assumptions C02_backward_traversal_is_reverse.

Theorem C02_count_is_length :
  forall maxCap : nat, (1 <= maxCap <= 255)%nat -> forall t : tree, twf maxCap t -> cnt t = length (contents t).
Proof. exact count_is_length. Qed.
Print Assumptions C02_count_is_length.

(* rebalance_preserves_flatten: pvRebalance(node, savedNode, fast) -- the root-collapse loop, every sibling merge
   (c1 + c2 + 1 <= capacity(node1)) of the bottom-up loop, for ANY node path, saved path and fast flag -- keeps the
   WF shape (at the possibly smaller height) and the in-order contents. *)
Theorem C02_rebalance_preserves_flatten :
  forall maxCap : nat, (1 <= maxCap <= 255)%nat ->
  forall (d : nat) (r : node) (np sp : list nat) (fast : bool), shape maxCap d r ->
    exists d', shape maxCap d' (fst (rebalance r np sp fast)) /\ flatten (fst (rebalance r np sp fast)) = flatten r.
Proof. exact rebalance_preserves. Qed.
Print Assumptions C02_rebalance_preserves_flatten.

(* remove_refines: Remove(iterator) for EVERY position that holds an item: an item of a leaf, a separator whose left
   subtree has items (replaced by its in-order predecessor, found on the rightmost spine skipping empty nodes) and a
   separator whose left subtree is empty (pvDestroyInternal), each followed by pvRebalance (root collapse, lazy
   merges) and pvMakeIterator(savedNode, index, move=true).  WF and mCount are kept, the sequence loses exactly the
   item at the iterator's index, and the returned iterator is normalised and denotes that same index (the saved node
   is tracked through every merge). *)
Theorem C02_remove_refines :
  forall maxCap : nat, (1 <= maxCap <= 255)%nat -> forall (t : tree) (it : iter),
    twf maxCap t -> tvalid t it -> titem t it ->
    let '(t', it') := remove t it in
    twf maxCap t' /\ contents t' = remove_at (iter_index t it) (contents t) /\
    norm t' it' /\ iter_index t' it' = iter_index t it.
Proof. exact remove_refines. Qed.
Print Assumptions C02_remove_refines.

(* remove_range_refines: Remove(begin, end) with begin at index h1 and end at index h2 -- nothing to remove, everything
   (Clear), both ends in one leaf (in-leaf removal + pvRebalance(fast)), or pvRemoveRange through the common parent:
   the predecessor of begin is found by descending/climbing (while itemIndex1 == 0), moved up to replace the common
   parent's separator, the left border is truncated to the right of the path and the right border to the left of it
   (pvDestroyInternal), the separators and subtrees in between are dropped, then two pvRebalance(.., false) and
   pvMakeIterator(resNode, 0, true).  WF and mCount are kept, the sequence is the one with [h1, h2) removed, and the
   returned iterator is normalised and denotes index h1. *)
Theorem C02_remove_range_refines :
  forall maxCap : nat, (1 <= maxCap <= 255)%nat -> forall (t : tree) (h1 h2 : nat),
    twf maxCap t -> (h1 <= h2)%nat -> (h2 <= length (contents t))%nat ->
    let '(t', it') := remove_range t h1 h2 in
    twf maxCap t' /\ contents t' = firstn h1 (contents t) ++ skipn h2 (contents t) /\
    norm t' it' /\ iter_index t' it' = h1.
Proof. exact remove_range_refines. Qed.
Print Assumptions C02_remove_range_refines.

(* ResetKey(iter, key): the item at the iterator's index is overwritten in place, everything else untouched. *)
Theorem C02_reset_key_refines :
  forall maxCap : nat, (1 <= maxCap <= 255)%nat -> forall (t : tree) (it : iter) (k : Z),
    twf maxCap t -> tvalid t it -> titem t it ->
    let t' := reset_key t it k in
    twf maxCap t' /\ contents t' = replace_at (iter_index t it) k (contents t).
Proof. exact reset_key_spec. Qed.
Print Assumptions C02_reset_key_refines.

(* Remove(key) for unique keys: removes the item at the lower bound iff the key is present, returns 1/0. *)
Theorem C02_remove_key_refines :
  forall (maxCap : nat) (linear multi : bool), (1 <= maxCap <= 255)%nat ->
  forall (t : tree) (k : Z), twf maxCap t -> sorted multi (contents t) ->
    let t' := fst (remove_key linear t k) in
    twf maxCap t' /\
    contents t' = (if contains linear t k then remove_at (lb_index (contents t) k) (contents t) else contents t) /\
    snd (remove_key linear t k) = (if contains linear t k then 1 else 0)%nat.
Proof. exact remove_key_spec. Qed.
Print Assumptions C02_remove_key_refines.

(* Remove(key) for multi keys: counts the equal range from the lower bound and removes it through Remove(iter, iter2):
   everything in [lower bound, upper bound) goes, the count is returned. *)
Theorem C02_remove_key_multi_refines :
  forall (maxCap : nat) (linear multi : bool), (1 <= maxCap <= 255)%nat ->
  forall (t : tree) (k : Z), twf maxCap t -> sorted multi (contents t) ->
    let res := remove_key_multi linear t k in
    twf maxCap (fst res) /\
    contents (fst res) = (if contains linear t k
                          then firstn (lb_index (contents t) k) (contents t) ++ skipn (ub_index (contents t) k) (contents t)
                          else contents t) /\
    snd res = (if contains linear t k then ub_index (contents t) k - lb_index (contents t) k else 0)%nat.
Proof. exact remove_key_multi_spec. Qed.
Print Assumptions C02_remove_key_multi_refines.

(* Remove(predicate): the begin..end loop of Remove(iter) / ++ leaves exactly the items that do not satisfy it. *)
Theorem C02_remove_if_refines :
  forall maxCap : nat, (1 <= maxCap <= 255)%nat -> forall (P : Z -> bool) (t : tree), twf maxCap t ->
    twf maxCap (remove_if P t) /\ contents (remove_if P t) = filter (fun x => negb (P x)) (contents t).
Proof. exact remove_if_spec. Qed.
Print Assumptions C02_remove_if_refines.

(* GetKeyCount: upper-bound index minus lower-bound index for multi keys (the counting loop), 1/0 for unique keys. *)
Theorem C02_key_count_agrees :
  forall (maxCap : nat) (linear multi : bool), (1 <= maxCap <= 255)%nat ->
  forall (t : tree) (k : Z), twf maxCap t -> sorted multi (contents t) ->
    key_count linear multi t k =
      if multi then (ub_index (contents t) k - lb_index (contents t) k)%nat
      else if contains linear t k then 1%nat else 0%nat.
Proof. exact key_count_spec. Qed.
Print Assumptions C02_key_count_agrees.

(* copy constructor (pvCopy re-creates every node in pre-order with fresh leaf capacities): WF and same sequence. *)
Theorem C02_copy_refines :
  forall maxCap stepRaw blockCount : nat, (1 <= maxCap <= 255)%nat -> forall t : tree, twf maxCap t ->
    twf maxCap (copy_tree maxCap stepRaw blockCount t) /\ contents (copy_tree maxCap stepRaw blockCount t) = contents t.
Proof. exact copy_tree_spec. Qed.
Print Assumptions C02_copy_refines.

(* a hinted Add whose hint is right (previous item ordered before the key, next item ordered after) keeps the order *)
Theorem C02_right_hint_keeps_sorted :
  forall (maxCap : nat) (multi : bool), (1 <= maxCap <= 255)%nat ->
  forall (l : list Z) (h : nat) (k : Z), sorted multi l -> hint_ok multi l h k = true -> sorted multi (insert_at h k l).
Proof. exact hint_sorted. Qed.
Print Assumptions C02_right_hint_keeps_sorted.

(* MergeTo / MergeFrom, proved part: the GENERIC path pvMergeTo (for each source item: dst.InsertCrt whose creator
   Extracts it from the source).  Both containers stay WF, the destination stays sorted and the pair of sequences
   equals the list-level stable merge spec_merge: every source item goes to ITS upper bound in the destination
   (destination items before equivalent source items), refused duplicates (unique keys) stay in the source.
   (Kept under its historical name `_partial`: it is the statement for the generic path alone.  The other paths are proved further
   down: C02_merge_linear_refines, C02_merge_fast_refines, and all paths together in C02_merge_to_refines.) *)
Theorem C02_merge_generic_refines_partial :
  forall (maxCap stepRaw blockCount : nat) (linear multi : bool), (1 <= maxCap <= 255)%nat ->
  forall src dst : tree, twf maxCap src -> twf maxCap dst -> sorted multi (contents dst) ->
    let res := merge_generic maxCap stepRaw blockCount linear multi (S (length (contents src))) src dst (begin_iter src) in
    twf maxCap (fst res) /\ twf maxCap (snd res) /\ sorted multi (contents (snd res)) /\
    (contents (fst res), contents (snd res)) = spec_merge multi (contents src) (contents dst).
Proof. exact merge_generic_refines. Qed.
Print Assumptions C02_merge_generic_refines_partial.

(* pvMergeToLinear (two cursors; the skip loop over destination items ordered before the source key; Add at the
   cursor or step over an equivalent destination item for unique keys) refines the SAME stable-merge specification:
   destination items before equivalent source items, refused duplicates stay in the source. *)
Theorem C02_merge_linear_refines :
  forall (maxCap stepRaw blockCount : nat) (multi : bool), (1 <= maxCap <= 255)%nat ->
  forall src dst : tree, twf maxCap src -> twf maxCap dst -> sorted multi (contents src) -> sorted multi (contents dst) ->
    let res := merge_linear maxCap stepRaw blockCount multi (S (length (contents src) + length (contents dst)))
                 src dst (begin_iter src) (begin_iter dst) in
    twf maxCap (fst res) /\ twf maxCap (snd res) /\ sorted multi (contents (snd res)) /\
    (contents (fst res), contents (snd res)) = spec_merge multi (contents src) (contents dst).
Proof. exact merge_linear_refines. Qed.
Print Assumptions C02_merge_linear_refines.

(* MergeTo / MergeFrom, EVERY path: empty source, empty destination (swap shortcut), pvMergeFast in either direction
   (guarded by the ordering tests as fixed in 103bce4), pvMergeTo (generic) and pvMergeToLinear (chosen by
   count*Log2(count+dstCount) < count+dstCount).  MergeTo always succeeds; both containers stay WF and sorted, mCount is
   exact, and the pair of sequences is the list-level stable merge: destination items before equivalent source items,
   refused duplicates (unique keys) stay in the source, the source is emptied otherwise.  So the path selection is
   irrelevant for results. *)
Theorem C02_merge_to_refines :
  forall (maxCap stepRaw blockCount : nat) (linear multi : bool), (1 <= maxCap <= 255)%nat ->
  forall src dst : tree,
    twf maxCap src -> twf maxCap dst -> sorted multi (contents src) -> sorted multi (contents dst) ->
    exists src' dst', merge_to maxCap stepRaw blockCount linear multi src dst = Some (src', dst') /\
      twf maxCap src' /\ twf maxCap dst' /\ sorted multi (contents src') /\ sorted multi (contents dst') /\
      (contents src', contents dst') = spec_merge multi (contents src) (contents dst).
Proof. exact merge_to_refines_all. Qed.
Print Assumptions C02_merge_to_refines.

(* why the fast path may concatenate (list level): when destination ++ source is ordered, the stable merge IS
   destination ++ source; when the source is STRICTLY before the destination it is source ++ destination (with a
   non-strict test, equivalent keys would end up before the destination's - the defect fixed in 103bce4). *)
Theorem C02_stable_merge_of_ordered_blocks_appends :
  forall (maxCap : nat) (multi : bool), (1 <= maxCap <= 255)%nat -> forall sl dl : list Z,
    Sorted.StronglySorted (R multi) (dl ++ sl) -> spec_merge multi sl dl = ([], dl ++ sl).
Proof. exact spec_merge_append. Qed.
Print Assumptions C02_stable_merge_of_ordered_blocks_appends.

Theorem C02_stable_merge_of_strictly_earlier_source_prepends :
  forall (maxCap : nat) (multi : bool), (1 <= maxCap <= 255)%nat -> forall sl pre dl : list Z,
    Sorted.StronglySorted (R multi) (pre ++ sl) -> Forall (fun x => Forall (fun y => x < y) dl) sl ->
    spec_merge multi sl (pre ++ dl) = ([], pre ++ sl ++ dl).
Proof. exact spec_merge_prepend. Qed.
Print Assumptions C02_stable_merge_of_strictly_earlier_source_prepends.

(* pvMergeFast(tree1, tree2) as a whole: the separator is the last item of the shorter tree when it is on the left
   (its first item when on the right; the empty edge subtree next to it is destroyed when that item sits in an
   internal node), the shorter tree is wrapped in new zero-item roots and hung on the joining edge of the taller tree at
   the deepest ancestor with room, or a new root holding the separator is made: the result is WF (internal nodes
   keep capacity maxCapacity, which WF now records) and its contents are tree1's followed by tree2's. *)
Theorem C02_merge_fast_refines :
  forall maxCap : nat, (1 <= maxCap <= 255)%nat -> forall tl_ tr : tree,
    twf maxCap tl_ -> twf maxCap tr -> contents tl_ <> [] -> contents tr <> [] ->
    exists r d, merge_fast maxCap tl_ tr = Some r /\ shape maxCap d r /\ flatten r = contents tl_ ++ contents tr.
Proof. exact merge_fast_spec. Qed.
Print Assumptions C02_merge_fast_refines.

(* two containers: all finite histories over {any single-container operation on a or on b, a.Swap(b),
   a = std::move(b), a = b (copy), a.MergeFrom(b), b.MergeFrom(a)}: both stay WF, sorted, mCount exact, and the pair of
   sequences equals the list-level reference pair. *)
Theorem C02_history_two_containers_refines :
  forall (maxCap stepRaw blockCount : nat) (linear multi : bool), (1 <= maxCap <= 255)%nat ->
  forall ops : list op3,
    let st := fold_left (step3 maxCap stepRaw blockCount linear multi) ops (empty_tree, empty_tree) in
    ok2 maxCap multi st /\
    (contents (fst st), contents (snd st)) = fold_left (spec_step3 multi) ops ([], []).
Proof. exact history3_refines. Qed.
Print Assumptions C02_history_two_containers_refines.

(* Insert(begin, end) (also Insert(initializer_list) and, through it, the stdish range constructors / insert(range)):
   the first item is inserted normally; each further item is ADDED right after the previous position when the input
   stays ordered there (key not less than the previous key and less than the item after it; for unique keys also
   strictly greater than the previous key), is skipped when it duplicates the previous key of a unique container,
   and falls back to a normal Insert otherwise.  Whatever the order of the input, the result is the same as inserting
   the items one after the other (so it is stable for multi keys and refuses duplicates for unique keys). *)
Theorem C02_insert_range_refines :
  forall (maxCap stepRaw blockCount : nat) (linear multi : bool), (1 <= maxCap <= 255)%nat ->
  forall (t : tree) (ks : list Z), twf maxCap t -> sorted multi (contents t) ->
    twf maxCap (insert_range maxCap stepRaw blockCount linear multi t ks) /\
    sorted multi (contents (insert_range maxCap stepRaw blockCount linear multi t ks)) /\
    contents (insert_range maxCap stepRaw blockCount linear multi t ks) = spec_insert_list multi (contents t) ks /\
    cnt (insert_range maxCap stepRaw blockCount linear multi t ks) =
      length (contents (insert_range maxCap stepRaw blockCount linear multi t ks)).
Proof. exact insert_range_refines. Qed.
Print Assumptions C02_insert_range_refines.

(* lifted over ALL finite histories over the full single-container alphabet: Insert / hinted Add (right hint: Add at
   that position, wrong hint: Insert) / Insert(begin,end) / Remove(iterator at index h) / Remove(begin,end) /
   Remove(key) for unique keys and for multi keys (the whole equal range) / Remove(predicate) / ResetKey (when it keeps the order) /
   Clear / copy construction or assignment -- i.e. EVERY public operation of the class that writes the node graph or mCount (frame
   completeness; Swap / move / MergeFrom are in C02_history_two_containers_refines) -- from the empty container (Extract+Insert is the two-op sequence Remove(iterator); Insert): the state is WF, sorted
   (non-decreasing / strictly increasing), mCount is exact, and the sequence equals the list-level reference. *)
Theorem C02_history_refines :
  forall (maxCap stepRaw blockCount : nat) (linear multi : bool), (1 <= maxCap <= 255)%nat ->
  forall ops : list opf,
    let t := fold_left (stepf maxCap stepRaw blockCount linear multi) ops empty_tree in
    twf maxCap t /\ sorted multi (contents t) /\ contents t = fold_left (spec_stepf multi) ops [] /\
    cnt t = length (contents t).
Proof. exact historyf_refines. Qed.
Print Assumptions C02_history_refines.

(* the list-level specification itself keeps the order *)
Theorem C02_spec_insert_sorted :
  forall (multi : bool) (l : list Z) (k : Z), sorted multi l -> sorted multi (fst (fst (spec_insert multi l k))).
Proof. exact spec_insert_sorted. Qed.
Print Assumptions C02_spec_insert_sorted.

(* ===== growth rounds: the REAL node operations that write the count byte / the index table / the item array / the child array
   / (never) the memPoolIndex.  Gen_NodeOpsI / Gen_NodeOpsC are the cxx2coq translations of Node::AcceptBackItem, Node::Remove,
   pvAcceptBackItem, pvRemove, pvInitIndexes, GetCount, GetCapacity, IsLeaf for the indexed and the continuous instantiation
   (regenerated every run) INCLUDING the std::copy / std::copy_backward range copies on the table and on the child array; for the
   continuous layout ItemTraits::ShiftNothrow on the item array is an assumed primitive (C03 proves it).  Only the item creator /
   remover functors are skipped.  shift_ins / shift_del / ch_ins / ch_del are closed formulas for the shifted arrays (NodeOps.v). *)

Theorem C02_node_accept_stuck_iff_assert_fails :
  forall leafPools maxCap step mpi cnt t ch index,
    Gen_NodeOpsI.AcceptBackItem leafPools maxCap step mpi cnt t ch index = Stuck <->
    ~ (cnt < Gen_NodeOpsI.GetCapacity leafPools maxCap step mpi cnt t ch /\ index <= cnt)%Z.
Proof. exact acceptI_stuck. Qed.
Print Assumptions C02_node_accept_stuck_iff_assert_fails.

(* indexed AcceptBackItem as a whole: count+1 (no wrap), the WHOLE new table (entry index := old entry count, entries index..count-1
   one place up, everything else unchanged) and the WHOLE new child array (children index+1..count one place up; a leaf has none) *)
Theorem C02_node_accept_indexed_full_effect :
  forall leafPools maxCap step mpi cnt t ch index,
    (0 <= index <= cnt)%Z -> (cnt < Gen_NodeOpsI.GetCapacity leafPools maxCap step mpi cnt t ch)%Z ->
    (Gen_NodeOpsI.GetCapacity leafPools maxCap step mpi cnt t ch <= 255)%Z ->
    exists T C, Gen_NodeOpsI.AcceptBackItem leafPools maxCap step mpi cnt t ch index = Ok (tt, (cnt + 1)%Z, T, C) /\
      (forall j, T j = shift_ins t index cnt j) /\
      (forall j, C j = if Gen_NodeOpsI.IsLeaf leafPools mpi cnt t ch then ch j else ch_ins ch index cnt j).
Proof. exact acceptI_spec. Qed.
Print Assumptions C02_node_accept_indexed_full_effect.

Theorem C02_node_remove_stuck_iff_assert_fails :
  forall leafPools mpi cnt t ch index,
    Gen_NodeOpsI.Remove leafPools mpi cnt t ch index = Stuck <-> ~ (index < cnt)%Z.
Proof. exact removeI_stuck. Qed.
Print Assumptions C02_node_remove_stuck_iff_assert_fails.

(* indexed Remove as a whole: count-1, table entries index+1..count-1 one place down and the freed slot number parked at count-1 *)
Theorem C02_node_remove_indexed_full_effect :
  forall leafPools mpi cnt t ch index,
    (0 <= index < cnt)%Z -> (cnt <= 255)%Z ->
    exists T C, Gen_NodeOpsI.Remove leafPools mpi cnt t ch index = Ok (tt, (cnt - 1)%Z, T, C) /\
      (forall j, T j = shift_del t index cnt j) /\
      (forall j, C j = if Gen_NodeOpsI.IsLeaf leafPools mpi cnt t ch then ch j else ch_del ch index cnt j).
Proof. exact removeI_spec. Qed.
Print Assumptions C02_node_remove_indexed_full_effect.

(* continuous layout: the ITEM ARRAY undergoes exactly the permutation the indexed table undergoes (same shift_ins / shift_del) *)
Theorem C02_node_accept_continuous_full_effect :
  forall leafPools maxCap step mpi cnt ch items index,
    (0 <= index <= cnt)%Z -> (cnt < Gen_NodeOpsI.GetCapacity leafPools maxCap step mpi cnt items ch)%Z ->
    (Gen_NodeOpsI.GetCapacity leafPools maxCap step mpi cnt items ch <= 255)%Z ->
    exists C I, Gen_NodeOpsC.AcceptBackItem leafPools maxCap step mpi cnt ch items index = Ok (tt, (cnt + 1)%Z, C, I) /\
      (forall j, I j = shift_ins items index cnt j) /\
      (forall j, C j = if Gen_NodeOpsI.IsLeaf leafPools mpi cnt items ch then ch j else ch_ins ch index cnt j).
Proof. exact acceptC_spec. Qed.
Print Assumptions C02_node_accept_continuous_full_effect.

Theorem C02_node_remove_continuous_full_effect :
  forall leafPools mpi cnt ch items index,
    (0 <= index < cnt)%Z -> (cnt <= 255)%Z ->
    exists C I, Gen_NodeOpsC.Remove leafPools mpi cnt ch items index = Ok (tt, (cnt - 1)%Z, C, I) /\
      (forall j, I j = shift_del items index cnt j) /\
      (forall j, C j = if Gen_NodeOpsI.IsLeaf leafPools mpi cnt items ch then ch j else ch_del ch index cnt j).
Proof. exact removeC_spec. Qed.
Print Assumptions C02_node_remove_continuous_full_effect.

Theorem C02_node_layouts_same_asserts :
  forall leafPools maxCap step mpi cnt t ch items index,
    (Gen_NodeOpsC.AcceptBackItem leafPools maxCap step mpi cnt ch items index = Stuck <->
     Gen_NodeOpsI.AcceptBackItem leafPools maxCap step mpi cnt t ch index = Stuck) /\
    (Gen_NodeOpsC.Remove leafPools mpi cnt ch items index = Stuck <-> Gen_NodeOpsI.Remove leafPools mpi cnt t ch index = Stuck).
Proof. exact same_code_stuck. Qed.
Print Assumptions C02_node_layouts_same_asserts.

(* capacity and leaf flag are functions of mMemPoolIndex alone (they ignore count, table and children).  That the node operations do
   not WRITE mMemPoolIndex is not this theorem: it is the shape of the result tuple of the generated AcceptBackItem / Remove (cxx2coq
   returns exactly the fields its write analysis found written: count, table / item array, child array), which the statements of
   C02_node_accept_*_full_effect / C02_node_remove_*_full_effect fix - a version of the real function that assigns mMemPoolIndex
   gets a 5-tuple and no longer type-checks against them (mutant G1). *)
Theorem C02_node_ops_frame_capacity_and_leaf_flag :
  forall leafPools maxCap step mpi cnt t ch cnt' t' ch',
    Gen_NodeOpsI.GetCapacity leafPools maxCap step mpi cnt t ch = Gen_NodeOpsI.GetCapacity leafPools maxCap step mpi cnt' t' ch' /\
    Gen_NodeOpsI.IsLeaf leafPools mpi cnt t ch = Gen_NodeOpsI.IsLeaf leafPools mpi cnt' t' ch'.
Proof. exact capacity_frame. Qed.
Print Assumptions C02_node_ops_frame_capacity_and_leaf_flag.

(* the constructor's pvInitIndexes loop (real code) writes the identity on [0, maxCapacity) and nothing else *)
Theorem C02_node_init_indexes_is_identity :
  forall maxCap mpi cnt t ch, (0 <= maxCap <= 255)%Z ->
    exists t', Gen_NodeOpsI.pvInitIndexes maxCap mpi cnt t ch = Ok (tt, t') /\
      (forall j, (0 <= j < maxCap)%Z -> t' j = j) /\ (forall j, ~ (0 <= j < maxCap)%Z -> t' j = t j).
Proof. exact init_indexes_identity. Qed.
Print Assumptions C02_node_init_indexes_is_identity.

(* the table the REAL code computes is the hand model's table, entry by entry: the IndexTable.v theorems below are about the real code *)
Theorem C02_generated_accept_table_is_hand_table :
  forall (n : inode) index j, (index <= icount n)%nat -> (icount n < length (idx n))%nat -> (j < length (idx n))%nat ->
    tbl (idx (accept_back n index)) (Z.of_nat j) = shift_ins (tbl (idx n)) (Z.of_nat index) (Z.of_nat (icount n)) (Z.of_nat j).
Proof. exact hand_accept_table_is_generated. Qed.
Print Assumptions C02_generated_accept_table_is_hand_table.

Theorem C02_generated_remove_table_is_hand_table :
  forall (n : inode) index j, (index < icount n)%nat -> (icount n <= length (idx n))%nat -> (j < length (idx n))%nat ->
    tbl (idx (remove_idx n index)) (Z.of_nat j) = shift_del (tbl (idx n)) (Z.of_nat index) (Z.of_nat (icount n)) (Z.of_nat j).
Proof. exact hand_remove_table_is_generated. Qed.
Print Assumptions C02_generated_remove_table_is_hand_table.

(* indexed Remove: the table stays a permutation, the logical sequence loses exactly item `index`, NO raw slot is touched *)
Theorem C02_indexed_node_remove_is_remove_at :
  forall (n : inode) (index : nat), winv n -> (index < icount n)%nat ->
    let n' := remove_idx n index in
    winv n' /\ logical n' = remove_at index (logical n) /\ slots n' = slots n.
Proof. exact remove_idx_refines. Qed.
Print Assumptions C02_indexed_node_remove_is_remove_at.

Theorem C02_indexed_node_initial_table :
  forall cap s, length s = cap -> winv (init_inode cap s) /\ logical (init_inode cap s) = [].
Proof. exact init_inode_winv. Qed.
Print Assumptions C02_indexed_node_initial_table.

(* ALL finite sequences of AcceptBackItem / Remove on an indexed node (asserts included: both sides get stuck together) *)
Theorem C02_indexed_node_history_refines :
  forall ops n, winv n ->
    match fold_left (fun s o => match s with Some m => nstep_i m o | None => None end) ops (Some n),
          fold_left (fun s o => match s with Some l => nstep_l l (length (idx n)) o | None => None end) ops (Some (logical n)) with
    | Some n', Some l' => winv n' /\ logical n' = l' /\ length (idx n') = length (idx n)
    | None, None => True
    | _, _ => False
    end.
Proof. exact node_history_refines. Qed.
Print Assumptions C02_indexed_node_history_refines.

(* ===== growth round 2: decision logic of pvRebalance and segment arithmetic of pvSplitNode, generated from TreeSet.h ===== *)

(* the REAL decision prefix of bool pvRebalance(parentNode, index, savedNode) (index out of range / node2 is the saved node / the two
   children and the separator do not fit into node1 -> false; otherwise the merge is executed and true returned) is the hand model's *)
Theorem C02_rebalance_decision_is_generated :
  forall parCount i cap1 c1 c2 (pn sv p1 p2 : Z),
    (parCount <= 255)%nat -> (c1 <= 255)%nat -> (c2 <= 255)%nat ->
    Gen_Rebalance.pvRebalance_decide (Z.of_nat parCount) (Z.of_nat cap1) pn (Z.of_nat i) sv p1 p2 (Z.of_nat c1) (Z.of_nat c2) =
    merge_decide parCount i (Z.eqb p2 sv) cap1 c1 c2.
Proof. exact rebalance_decision_refines. Qed.
Print Assumptions C02_rebalance_decision_is_generated.

Theorem C02_model_merges_exactly_when_decision_says :
  forall r pp i sp par n1 n2 sep,
    node_at pp r = Some par ->
    nth_error (n_children par) (i - 1) = Some n1 -> nth_error (n_children par) i = Some n2 -> nth_error (n_items par) (i - 1) = Some sep ->
    (exists res, try_merge r pp i sp = Some res) <->
    merge_decide (n_count par) i (list_eqb (pp ++ [i]) sp) (n_cap n1) (n_count n1) (n_count n2) = true.
Proof. exact try_merge_iff_decision. Qed.
Print Assumptions C02_model_merges_exactly_when_decision_says.

(* the REAL Relocator::pvSplitNode: its AddSegment calls (trace) are exactly the hand model's segments, for both branches *)
Theorem C02_split_segments_are_generated :
  forall node n1 n2 leaf (c s cnt : nat),
    (s < cnt)%nat -> (c <= cnt)%nat -> (cnt <= 255)%nat ->
    exists tr cr, Gen_Split.pvSplitNode no_segs no_segs node (Z.of_nat c) leaf (Z.of_nat cnt) (Z.of_nat s) n1 n2 = Ok (tt, tr, cr) /\
      segs_list tr = map (zseg node n1 n2) (hand_segs c s cnt) /\
      creates_list cr = [((if leaf then 1 else 0)%Z, Z.of_nat (fst (hand_counts c s cnt)));
                         ((if leaf then 1 else 0)%Z, Z.of_nat (snd (hand_counts c s cnt)))].
Proof. exact gen_split_trace. Qed.
Print Assumptions C02_split_segments_are_generated.

(* the two CreateNode(isLeaf, count) calls of the real split ask for exactly the sizes of the hand split's two halves *)
Theorem C02_hand_split_sizes_are_the_created_counts :
  forall (ks : list Z) cs sub c s x, (s < length ks)%nat -> (c <= length ks)%nat ->
    let '((ks1, _), _, (ks2, _)) := split_parts ks cs sub (length ks) c s x in
    length ks1 = fst (hand_counts c s (length ks)) /\ length ks2 = snd (hand_counts c s (length ks)).
Proof. exact hand_split_sizes. Qed.
Print Assumptions C02_hand_split_sizes_are_the_created_counts.

Theorem C02_split_stuck_when_split_index_out_of_range :
  forall node n1 n2 leaf c s cnt tr0 cr0, (s >= cnt)%Z -> Gen_Split.pvSplitNode tr0 cr0 node c leaf cnt s n1 n2 = Stuck.
Proof. exact gen_split_stuck. Qed.
Print Assumptions C02_split_stuck_when_split_index_out_of_range.

(* ... and the hand split (BTreeModel.split_parts, the one all insertion theorems are about) is the replay of those segments:
   left node, right node, position of the new item, separator that moves up *)
Theorem C02_hand_split_is_segment_replay :
  forall (ks : list Z) cs sub cnt c s x,
    let '((ks1, _), sep, (ks2, _)) := split_parts ks cs sub cnt c s x in
    ks1 = assemble ks x (if (c <=? s)%nat then Some c else None) 1 (hand_segs c s cnt) /\
    ks2 = assemble ks x (if (c <=? s)%nat then None else Some (c - s - 1)%nat) 2 (hand_segs c s cnt) /\
    sep = nth s ks 0%Z.
Proof. exact hand_split_is_segment_replay. Qed.
Print Assumptions C02_hand_split_is_segment_replay.

(* ===== growth round 3: the code where the two C02 defects lived (fast-merge choice of MergeTo, root collapse of pvRebalance) =====
   Gen_TreeFacts.v is read off the clang AST of TreeSet.h on every run (the pvMergeFast if-chain of MergeTo(TreeSet&) with its conditions
   and argument order; which items pvIsOrdered(set, set) compares; the statements of the root-collapse loop of pvRebalance and the
   pointer the climbing loop dereferences); Gen_Ordered.v is the cxx2coq translation of pvIsOrdered(iter, iter). *)

(* the real fast-merge chain, interpreted on the two content lists, IS the hand model's decision (BTreeModel.merge_to) *)
Theorem C02_merge_fast_choice_is_generated :
  forall (multi : bool) (sl dl : list Z),
    fast_choice multi sl dl =
      if key_ordered multi (last dl 0%Z) (hd 0%Z sl) then Some (SDst, SThis)
      else if (last sl 0 <? hd 0 dl)%Z then Some (SThis, SDst) else None.
Proof. exact fast_choice_is_model. Qed.
Print Assumptions C02_merge_fast_choice_is_generated.

(* ... and whenever it concatenates pvMergeFast(tree1, tree2), tree1 ++ tree2 IS the stable merge of the source into the destination
   (destination items stay before equivalent source items): fails when commit 103bce4 is reverted *)
Theorem C02_merge_fast_choice_keeps_destination_first :
  forall (maxCap : nat) (multi : bool), (1 <= maxCap <= 255)%nat -> forall sl dl : list Z,
    Sorted.StronglySorted (R multi) sl -> Sorted.StronglySorted (R multi) dl -> sl <> [] -> dl <> [] ->
    match fast_choice multi sl dl with
    | Some (a, b) => spec_merge multi sl dl = ([], pick sl dl a ++ pick sl dl b)
    | None => True
    end.
Proof. exact fast_choice_sound. Qed.
Print Assumptions C02_merge_fast_choice_keeps_destination_first.

(* one iteration of the real root-collapse loop on ANY pointer structure: exactly the old root is destroyed,
   the new root is its first child, `node` follows the root when it was the old root, and the pointer whose GetParent() the climbing
   loop reads next is not a destroyed node: fails when commit c72d55b is reverted *)
Theorem C02_rebalance_collapse_never_reads_a_destroyed_node :
  forall (ptr : Type) (child0 parent : ptr -> ptr)
         (ptr_eqb : ptr -> ptr -> bool), (forall a b, ptr_eqb a b = true <-> a = b) ->
  forall s : cstate ptr,
    let s' := fold_left (BTreeFastDecide.exec ptr child0 parent ptr_eqb) collapse_body s in
    ~ In (c_node ptr s) (c_dead ptr s) -> ~ In (child0 (c_root ptr s)) (c_dead ptr s) -> child0 (c_root ptr s) <> c_root ptr s ->
    c_dead ptr s' = c_root ptr s :: c_dead ptr s /\ c_root ptr s' = child0 (c_root ptr s) /\
    c_node ptr s' = (if ptr_eqb (c_node ptr s) (c_root ptr s) then child0 (c_root ptr s) else c_node ptr s) /\
    ~ In (c_root ptr s') (c_dead ptr s') /\
    match climb_reads with EParent e => ~ In (evalp ptr child0 parent s' e) (c_dead ptr s') | _ => False end.
Proof. exact collapse_iteration_safe. Qed.
Print Assumptions C02_rebalance_collapse_never_reads_a_destroyed_node.

(* ===== growth round 4: the search inside a node (generated) and the stop rule of pvRebalance's climbing loop (AST fact) ===== *)

(* the REAL TreeSet::pvFindFirst(Node*, itemPred) - linear scan guarded by the last item, or binary search - is the hand model's search *)
Theorem C02_node_search_is_generated :
  forall (linear : bool) (P : Z -> bool) (ks : list Z), (length ks <= 255)%nat ->
    Gen_FindFirst.pvFindFirst_node linear (Z.of_nat (length ks)) (ipred P ks) = Ok (Z.of_nat (search linear P ks)).
Proof. exact gen_find_first_is_search. Qed.
Print Assumptions C02_node_search_is_generated.

Theorem C02_generated_node_search_is_first_true :
  forall (linear : bool) (P : Z -> bool) (ks : list Z), (length ks <= 255)%nat -> mono P ks ->
    Gen_FindFirst.pvFindFirst_node linear (Z.of_nat (length ks)) (ipred P ks) = Ok (Z.of_nat (first_true P ks)).
Proof. exact gen_find_first_is_first_true. Qed.
Print Assumptions C02_generated_node_search_is_first_true.

(* the heart of the sorted-sequence lookups: on a sorted node the real search with GetLowerBound's predicate !(item < key) returns the
   first position whose item is not less than the key; with GetUpperBound's predicate key < item the first greater one *)
Theorem C02_generated_lower_bound_in_node :
  forall (linear : bool) (ks : list Z) (k : Z), (length ks <= 255)%nat -> Sorted.StronglySorted Z.le ks ->
    exists i, Gen_FindFirst.pvFindFirst_node linear (Z.of_nat (length ks)) (ipred (fun x => negb (x <? k)%Z) ks) = Ok (Z.of_nat i) /\
      (i <= length ks)%nat /\ (forall j, (j < i)%nat -> (nth j ks 0 < k)%Z) /\ (forall j, (i <= j < length ks)%nat -> (k <= nth j ks 0)%Z).
Proof. exact gen_lower_bound_in_node. Qed.
Print Assumptions C02_generated_lower_bound_in_node.

Theorem C02_generated_upper_bound_in_node :
  forall (linear : bool) (ks : list Z) (k : Z), (length ks <= 255)%nat -> Sorted.StronglySorted Z.le ks ->
    exists i, Gen_FindFirst.pvFindFirst_node linear (Z.of_nat (length ks)) (ipred (fun x => (k <? x)%Z) ks) = Ok (Z.of_nat i) /\
      (i <= length ks)%nat /\ (forall j, (j < i)%nat -> (nth j ks 0 <= k)%Z) /\ (forall j, (i <= j < length ks)%nat -> (k < nth j ks 0)%Z).
Proof. exact gen_upper_bound_in_node. Qed.
Print Assumptions C02_generated_upper_bound_in_node.

(* one iteration of the real climbing loop of pvRebalance(node, savedNode, fast) - its stop rule read off the AST, evaluated left to
   right with short-circuit, each pvRebalance(parentNode, index + k, savedNode) call being the hand model's try_merge - is one step of
   the hand model's reb_loop *)
Theorem C02_rebalance_climb_iteration_is_generated :
  forall index rpp r sp fast,
    reb_loop (index :: rpp) r sp fast =
    let '(stop, (r', sp')) := evalb (rev rpp) index fast climb_stop (r, sp) in
    if stop then (r', sp') else reb_loop rpp r' sp' fast.
Proof. exact climb_iteration_is_model. Qed.
Print Assumptions C02_rebalance_climb_iteration_is_generated.

(* ===== growth round 5: deep embedding of the pointer-walking functions =====
   Gen_TreeProto.v holds the statement trees of TreeSet::pvFindFirst(itemPred) (root-to-leaf descent) and of the iterator's operator++,
   operator--, pvMoveIf, pvMove, dumped from the clang AST without interpretation (c02_proto.py).  ProtoSemC02.v interprets them: a
   Node* is a path into the hand model's tree, pvFindFirst(node, pred) is the GENERATED in-node search. *)

(* the REAL descent, run on any well-formed tree, returns exactly the hand model's find_first (hence GetLowerBound / GetUpperBound /
   Find are the real code all the way down: in-node search generated, descent interpreted) *)
Theorem C02_descent_is_generated :
  forall (maxCap : nat) (linear : bool) (P : Z -> bool) (r : node), (1 <= maxCap <= 255)%nat ->
  forall (calls : String.string -> env -> option env) d (e : env) w,
    shape maxCap d r -> e k_mRootNode = Some (VPtr (Some [])) -> e k_itemPred = Some w ->
    ret_of (ProtoSemC02.exec linear P r calls (16 + d) e pvFindFirst_descent) =
    Some (let '(p, j) := find_first linear {| root := Some r; cnt := 0 |} P in VIt p j).
Proof. exact descent_is_find_first. Qed.
Print Assumptions C02_descent_is_generated.

(* (the examples-only theorem C02_iterator_..._agree_on_examples_partial that stood here was replaced by the general theorems
   C02_iterator_increment_is_generated and C02_iterator_decrement_is_generated below) *)

(* ===== growth round 6: half of the general iterator theorem; asserts kept as obligations =====
   The hand model's `next` (top-down recursion) is proved equal to a bottom-up "zipper" description that has exactly the structure of the
   real operator++ / pvMoveIf / pvMove (step_fwd, then climb while the node is the last child of its parent).  What is still only
   computed on examples (C02_iterator_steps_agree_on_examples_partial) is the other half: interpreter run = this zipper description. *)
Theorem C02_next_is_bottom_up_zipper :
  forall (maxCap d : nat) (r : node) (p : list nat) (j : nat) (m : node),
    shape maxCap d r -> node_at p r = Some m -> (j < n_count m)%nat ->
    next {| root := Some r; cnt := 0 |} (p, j) =
    let '(q, i) := step_fwd d r p j in if (i <? cnt_at r q)%nat then (q, i) else up r q.
Proof. exact next_is_zipper. Qed.
Print Assumptions C02_next_is_bottom_up_zipper.

(* the bottom-up climb (last child index first) is the hand model's top-down climb, for every path that exists in the tree *)
Theorem C02_bottom_up_climb_is_model_climb :
  forall (r : node) (p : list nat) (n : node) (pre : list nat) (m : node),
    node_at pre r = Some n -> node_at p n = Some m ->
    up r (pre ++ p) = match climb p n with Some (q, i) => (pre ++ q, i) | None => up r pre end.
Proof. exact up_is_climb. Qed.
Print Assumptions C02_bottom_up_climb_is_model_climb.

(* MOMO_CHECK / MOMO_ASSERT statements are obligations of the interpreted code: operator-- at begin violates MOMO_CHECK(node != nullptr)
   and the run ends Stuck (on the three example trees); all other runs of the examples theorem pass every obligation *)
Theorem C02_iterator_decrement_at_begin_is_stuck_on_examples :
  andb (andb (decr_at_begin_is_stuck ex_t0) (decr_at_begin_is_stuck ex_t1)) (decr_at_begin_is_stuck ex_t2) = true.
Proof. exact iter_decr_at_begin_stuck_on_examples. Qed.
Print Assumptions C02_iterator_decrement_at_begin_is_stuck_on_examples.

(* review-fix round: one more general piece of the iterator theorem.  The loop of the REAL TreeSetConstIterator::pvMove (dumped
   statement tree, interpreted; move_loop = iter_pvMove without its leading MOMO_ASSERT(mNode->IsLeaf())), started at ANY node of ANY
   well-formed tree, ends normally with (mNode, mItemIndex) = the bottom-up climb `up` - which is the hand model's climb
   (C02_bottom_up_climb_is_model_climb) and the last step of next (C02_next_is_bottom_up_zipper).  Still examples-only: the leaf step /
   leftmost descent of operator++ in the interpreter, and operator--. *)
Theorem C02_pvMove_loop_is_bottom_up_climb :
  forall (maxCap : nat) (linear : bool) (P : Z -> bool) (r : node) (calls : String.string -> env -> option env)
         (rq : list nat) (e : env) (k : nat) (m : node) (d : nat),
    shape maxCap d r -> node_at (rev rq) r = Some m ->
    e k_mNode = Some (VPtr (Some (rev rq))) ->
    exists e', ProtoSemC02.exec linear P r calls (12 + (k + length rq)) e move_loop = RNormal e' /\
      e' k_mNode = Some (VPtr (Some (fst (up r (rev rq))))) /\ e' k_mItemIndex = Some (VNum (Z.of_nat (snd (up r (rev rq))))).
Proof. exact move_loop_is_up. Qed.
Print Assumptions C02_pvMove_loop_is_bottom_up_climb.

(* last round: the GENERAL theorem for operator++.  The real TreeSetConstIterator::operator++ - its dumped statement tree, interpreted;
   pvMoveIf, pvMove and VersionKeeper::Check are interpreted by running their own dumped bodies (incr_calls); MOMO_CHECK / MOMO_ASSERT are
   obligations - started at ANY valid position (p, j) of ANY well-formed tree, passes every obligation, returns, and leaves the iterator
   at the hand model's next (p, j): leaf step / leftmost leaf of child j+1, then climb while the node is the last child of its parent. *)
Theorem C02_iterator_increment_is_generated :
  forall (maxCap : nat) (r : node) (d : nat) (p : list nat) (m : node) (j : nat) (e : env) (k : nat),
    shape maxCap d r -> node_at p r = Some m -> (j < n_count m)%nat ->
    e k_mNode = Some (VPtr (Some p)) -> e k_mItemIndex = Some (VNum (Z.of_nat j)) ->
    let nx := next {| root := Some r; cnt := 0 |} (p, j) in
    exists e', ProtoSemC02.exec false (fun _ : Z => false) r (incr_calls r (13 + (k + d))) (16 + (d + k)) e iter_incr = RReturn VUnit e' /\
      e' k_mNode = Some (VPtr (Some (fst nx))) /\ e' k_mItemIndex = Some (VNum (Z.of_nat (snd nx))).
Proof. exact incr_is_next. Qed.
Print Assumptions C02_iterator_increment_is_generated.

(* very last round: the GENERAL theorem for operator--.  Hand-model half: prev is the bottom-up zipper description of the real code
   (step_back: stay in the leaf, or the rightmost leaf of child index with index = its count; then climb while index == 0); begin has none. *)
Theorem C02_prev_is_bottom_up_zipper :
  forall (maxCap d : nat) (r : node) (p : list nat) (j : nat) (m : node),
    shape maxCap d r -> node_at p r = Some m -> (j <= n_count m)%nat ->
    prev {| root := Some r; cnt := 0 |} (p, j) =
    match back (fst (step_back d r p j)) (snd (step_back d r p j)) with Some it => it | None => (p, j) end.
Proof. exact prev_is_zipper. Qed.
Print Assumptions C02_prev_is_bottom_up_zipper.

(* the REAL TreeSetConstIterator::operator-- (dumped statement tree, interpreted, MOMO_CHECKs as obligations), started at ANY position
   (end included) of ANY well-formed tree: if the position has a predecessor it passes every obligation, returns, and leaves the iterator at
   the hand model's prev; at begin (no predecessor) it is Stuck on MOMO_CHECK(node != nullptr) - and the hand prev returns its argument *)
Theorem C02_iterator_decrement_is_generated :
  forall (maxCap : nat) (r : node) (d : nat) (p : list nat) (m : node) (j : nat) (e : env) (k : nat),
    shape maxCap d r -> node_at p r = Some m -> (j <= n_count m)%nat ->
    e k_mNode = Some (VPtr (Some p)) -> e k_mItemIndex = Some (VNum (Z.of_nat j)) ->
    let pv := prev {| root := Some r; cnt := 0 |} (p, j) in
    match back (fst (step_back d r p j)) (snd (step_back d r p j)) with
    | Some _ => exists e', ProtoSemC02.exec false (fun _ : Z => false) r decr_calls (20 + (d + k)) e iter_decr = RReturn VUnit e' /\
                  e' k_mNode = Some (VPtr (Some (fst pv))) /\ e' k_mItemIndex = Some (VNum (Z.of_nat (snd pv)))
    | None => ProtoSemC02.exec false (fun _ : Z => false) r decr_calls (20 + (d + k)) e iter_decr = RStuck /\ pv = (p, j)
    end.
Proof. exact decr_is_prev. Qed.
Print Assumptions C02_iterator_decrement_is_generated.

(* final round: TreeSet::GetBegin.  Its dumped statement tree, interpreted on ANY well-formed tree: everything before the return leaves
   `node` at the leftmost leaf; the return statement is `pvMakeIterator(node, 0, true)` (shape facts below), i.e. the iterator (node, 0)
   on which the constructor runs pvMoveIf - and running the dumped pvMoveIf / pvMove on it ends at the hand model's begin_iter, the
   position every traversal theorem starts from.  (The reading "pvMakeIterator(n, i, true) = pvMoveIf on (n, i)" is tied to the source by
   the shape facts about pvMakeIterator's body and the constructor's body, not by the interpreter.) *)
Theorem C02_begin_is_generated :
  forall (maxCap : nat) (r : node) (d : nat) (e : env) (k : nat),
    shape maxCap d r -> e k_mRootNode = Some (VPtr (Some [])) ->
    let b := begin_iter {| root := Some r; cnt := 0 |} in
    exists e' e'', ProtoSemC02.exec false (fun _ : Z => false) r no_calls (6 + (d + k)) e begin_prefix = RNormal e' /\
      e' k_node = Some (VPtr (Some (leftmost d r))) /\
      run_moveif_f r (13 + (k + d)) (env_of_iter (leftmost d r, 0%nat)) = Some e'' /\
      e'' k_mNode = Some (VPtr (Some (fst b))) /\ e'' k_mItemIndex = Some (VNum (Z.of_nat (snd b))).
Proof. exact begin_is_generated. Qed.
Print Assumptions C02_begin_is_generated.

(* shape facts read off the regenerated statement trees (closed by computation): what GetBegin returns, what pvMakeIterator builds, and
   that the iterator constructor runs pvMoveIf exactly when `move` *)
Theorem C02_begin_and_make_iterator_shape_facts :
  last GetBegin_body SBreak = SReturn (ECall ENone k_pvMakeIterator [EVar k_node; ENum 0; ENum 1]) /\
  pvMakeIterator_body = [SReturn (ECtor k_ConstIteratorProxy [EUn k_star (EVar k_node); EVar k_itemIndex; ECall (EVar k_mCrew) k_GetVersion []; EVar k_move])] /\
  iter_ctor_body = [SIf (EVar k_move) [SExpr (ECall ENone k_pvMoveIf [])] []].
Proof. exact begin_shape_facts. Qed.
Print Assumptions C02_begin_and_make_iterator_shape_facts.

(* non-vacuity: a concrete reachable state (maxCapacity 2, ten insertions with duplicates) has height 2 *)
Theorem C02_nonvacuous_example :
  let t := fold_left (BTreeHist.step 2 1 8 false true) example_ops empty_tree in
  contents t = [1; 2; 3; 3; 3; 5; 6; 7; 8; 9] /\ option_map height (root t) = Some 2%nat /\ cnt t = 10%nat.
Proof. exact example_nonvacuous. Qed.
Print Assumptions C02_nonvacuous_example.
