(* C03 -- the refinement between the hand model's import_row (Effects2.v) and the TRANSLATED DataColumnList::pvCreateRaw
   (Gen_RawC03.v), for EVERY number of columns (up to the translated function's own fuel bound, 65536; a column list holds at most
   2^14) and EVERY position of the failing item construction: both complete iff no construction fails, construct the same number of
   items and destroy the same number - all of the constructed ones when it failed, none otherwise.  Replaces the computed check for
   <= 6 columns (GenRawTie.import_row_refines_generated_bounded, kept).  Hand-written. *)
From Coq Require Import ZArith Bool List Lia PeanoNat.
From MomoCommon Require Import GenPrelude.
From C03 Require Import Effects Effects2 Effects2Proofs Gen_RawC03 RawGenC03 GenRawTie.
Import ListNotations.
Local Open Scope Z_scope.

Definition cp (s : rstate) : Z := count_ev is_copy s.
Definition ds (s : rstate) : Z := count_ev is_destroy s.

Lemma loc_eqb_row_src i j : loc_eqb (-1, i) (0, j) = false.
Proof. reflexivity. Qed.
Lemma loc_eqb_same i j : loc_eqb (0, i) (0, j) = Z.eqb i j.
Proof. reflexivity. Qed.

(* ---- one item construction that succeeds / fails *)
Lemma copy_step_ok s index tl :
  sched s = false :: tl -> cells s (-1, index) <> Raw -> cells s (0, index) = Raw ->
  exists s1, om_copy (0, 0 + index) (-1, 0 + index) s = (Val tt, s1) /\ sched s1 = tl /\ blocks s1 = blocks s /\
             cp s1 = cp s + 1 /\ ds s1 = ds s /\
             (forall l, cells s1 l = if loc_eqb l (0, index) then cells s1 (0, index) else cells s l) /\ cells s1 (0, index) <> Raw.
Proof.
  intros Hs Hsrc Hdst. change (0 + index) with index. unfold om_copy, p_copy. rewrite Hdst.
  assert (G : forall v, exists s1,
    (let '(o, s0) := fallible s in match o with Val _ => (Val tt, log (set_cell s0 (0, index) (Live v)) (TCopy (0, index) (-1, index))) | o' => (o', s0) end)
      = (Val tt, s1) /\ sched s1 = tl /\ blocks s1 = blocks s /\ cp s1 = cp s + 1 /\ ds s1 = ds s /\
    (forall l, cells s1 l = if loc_eqb l (0, index) then cells s1 (0, index) else cells s l) /\ cells s1 (0, index) <> Raw).
  { intros v. unfold fallible. rewrite Hs. eexists. split; [reflexivity|].
    split; [reflexivity|]. split; [reflexivity|].
    split; [unfold cp, count_ev; cbn [trace log set_cell filter is_copy length]; rewrite Nat2Z.inj_succ; lia|].
    split; [unfold ds, count_ev; cbn [trace log set_cell filter is_destroy]; reflexivity|].
    split.
    - intros l. cbn [cells log set_cell]. rewrite loc_eqb_same, Z.eqb_refl. reflexivity.
    - cbn [cells log set_cell]. rewrite loc_eqb_same, Z.eqb_refl. discriminate. }
  destruct (cells s (-1, index)) as [|v|v] eqn:E; [contradiction| |].
  - destruct (G (cval (Live v))) as (s1 & E1 & R). exists s1. split; [|exact R].
    unfold fallible in *. rewrite Hs in *. exact E1.
  - destruct (G (cval (Moved v))) as (s1 & E1 & R). exists s1. split; [|exact R].
    unfold fallible in *. rewrite Hs in *. exact E1.
Qed.

Lemma copy_step_fail s index tl :
  sched s = true :: tl -> cells s (-1, index) <> Raw -> cells s (0, index) = Raw ->
  exists s1, om_copy (0, 0 + index) (-1, 0 + index) s = (Exc, s1) /\ sched s1 = tl /\ blocks s1 = blocks s /\
             cp s1 = cp s /\ ds s1 = ds s /\ (forall l, cells s1 l = cells s l).
Proof.
  intros Hs Hsrc Hdst. change (0 + index) with index. unfold om_copy, p_copy. rewrite Hdst.
  destruct (cells s (-1, index)) as [|v|v] eqn:E; [contradiction| |];
    (unfold fallible; rewrite Hs; eexists; split; [reflexivity|];
     split; [reflexivity|]; split; [reflexivity|]; split; [reflexivity|]; split; [reflexivity|]; intros l; reflexivity).
Qed.

Definition row_inv (s : rstate) (index : Z) : Prop :=
  (forall i, 0 <= i -> cells s (-1, i) <> Raw) /\ (forall i, index <= i -> cells s (0, i) = Raw) /\
  (forall i, 0 <= i < index -> cells s (0, i) <> Raw).

Lemma row_inv_step s s1 index :
  0 <= index -> row_inv s index ->
  (forall l, cells s1 l = if loc_eqb l (0, index) then cells s1 (0, index) else cells s l) -> cells s1 (0, index) <> Raw ->
  row_inv s1 (index + 1).
Proof.
  intros Hi (A & B & C) Hc Hn. split; [|split].
  - intros i H. rewrite Hc, loc_eqb_row_src. apply A; exact H.
  - intros i H. rewrite Hc, loc_eqb_same. destruct (Z.eqb_spec i index); [lia|]. apply B. lia.
  - intros i H. destruct (Z.eq_dec i index) as [E|E]; [subst i; exact Hn|].
    rewrite Hc, loc_eqb_same. destruct (Z.eqb_spec i index); [contradiction|]. apply C. lia.
Qed.

(* ---- the construction loop: a successful constructions, then either the end or a failure *)
Lemma loop_ok : forall n index s tl,
  0 <= index -> sched s = repeat false n ++ tl -> row_inv s index ->
  exists s', om_copy_loop (-1) 0 0 0 index n s = ((index + Z.of_nat n, Val tt), s') /\ sched s' = tl /\ blocks s' = blocks s /\
             cp s' = cp s + Z.of_nat n /\ ds s' = ds s /\ row_inv s' (index + Z.of_nat n).
Proof.
  induction n as [|n IH]; intros index s tl Hi Hs I.
  - exists s. cbn [om_copy_loop Z.of_nat]. rewrite Z.add_0_r. repeat split; try assumption; try lia; apply I.
  - cbn [repeat app] in Hs. destruct I as (A & B & C).
    destruct (copy_step_ok s index _ Hs (A index Hi) (B index (Z.le_refl _))) as (s1 & E1 & S1 & B1 & C1 & D1 & Hc & Hn).
    cbn [om_copy_loop]. rewrite E1.
    assert (I1 : row_inv s1 (index + 1)) by (apply (row_inv_step s s1 index Hi (conj A (conj B C)) Hc Hn)).
    destruct (IH (index + 1) s1 tl ltac:(lia) S1 I1) as (s' & E & S' & B' & C' & D' & I').
    exists s'. rewrite E. rewrite Nat2Z.inj_succ.
    replace (index + Z.succ (Z.of_nat n)) with (index + 1 + Z.of_nat n) by lia.
    repeat split; try assumption; try lia; try congruence; apply I'.
Qed.

Lemma loop_fail : forall a n index s tl,
  0 <= index -> (a < n)%nat -> sched s = repeat false a ++ true :: tl -> row_inv s index ->
  exists s', om_copy_loop (-1) 0 0 0 index n s = ((index + Z.of_nat a, Exc), s') /\ sched s' = tl /\ blocks s' = blocks s /\
             cp s' = cp s + Z.of_nat a /\ ds s' = ds s /\ row_inv s' (index + Z.of_nat a).
Proof.
  induction a as [|a IH]; intros n index s tl Hi Hlt Hs I; (destruct n as [|n]; [lia|]).
  - cbn [repeat app] in Hs. destruct I as (A & B & C).
    destruct (copy_step_fail s index _ Hs (A index Hi) (B index (Z.le_refl _))) as (s1 & E1 & S1 & B1 & C1 & D1 & Hc).
    exists s1. cbn [om_copy_loop Z.of_nat]. rewrite E1, Z.add_0_r. repeat split; try assumption; try lia.
    + intros i H. rewrite Hc. apply A; exact H.
    + intros i H. rewrite Hc. apply B; exact H.
    + intros i H. rewrite Hc. apply C; exact H.
  - cbn [repeat app] in Hs. destruct I as (A & B & C).
    destruct (copy_step_ok s index _ Hs (A index Hi) (B index (Z.le_refl _))) as (s1 & E1 & S1 & B1 & C1 & D1 & Hc & Hn).
    cbn [om_copy_loop]. rewrite E1.
    assert (I1 : row_inv s1 (index + 1)) by (apply (row_inv_step s s1 index Hi (conj A (conj B C)) Hc Hn)).
    destruct (IH n (index + 1) s1 tl ltac:(lia) ltac:(lia) S1 I1) as (s' & E & S' & B' & C' & D' & I').
    exists s'. rewrite E. rewrite Nat2Z.inj_succ.
    replace (index + Z.succ (Z.of_nat a)) with (index + 1 + Z.of_nat a) by lia.
    repeat split; try assumption; try lia; try congruence; apply I'.
Qed.

(* ---- the roll-back: every constructed item destroyed once *)
Lemma destroy_run : forall a base s,
  (forall i, base <= i < base + Z.of_nat a -> cells s (0, i) <> Raw) ->
  exists s', om_destroy_n 0 base a s = (Val tt, s') /\ blocks s' = blocks s /\ cp s' = cp s /\ ds s' = ds s + Z.of_nat a.
Proof.
  induction a as [|a IH]; intros base s H.
  - exists s. cbn [om_destroy_n Z.of_nat]. repeat split; try reflexivity; lia.
  - cbn [om_destroy_n]. unfold bind at 1.
    assert (Hb : cells s (0, base) <> Raw) by (apply H; lia).
    set (s1 := log (set_cell s (0, base) Raw) (TDestroy (0, base))).
    assert (E1 : p_destroy (0, base) s = (Val tt, s1)).
    { unfold p_destroy. destruct (cells s (0, base)); [contradiction|reflexivity|reflexivity]. }
    rewrite E1.
    destruct (IH (base + 1) s1) as (s' & E' & B' & C' & D').
    { intros i Hi. unfold s1. cbn [cells log set_cell]. rewrite loc_eqb_same. destruct (Z.eqb_spec i base); [lia|]. apply H. lia. }
    exists s'. split; [exact E'|]. split; [rewrite B'; reflexivity|]. split.
    + rewrite C'. reflexivity.
    + rewrite D'. unfold s1, ds, count_ev. cbn [trace log set_cell filter is_destroy length]. rewrite !Nat2Z.inj_succ. lia.
Qed.

(* ---- the shape of the schedule "the k-th construction fails" *)
Lemma map_all_false k : forall m j, (forall i, (j <= i < j + m)%nat -> i <> k) -> map (fun i => Nat.eqb i k) (seq j m) = repeat false m.
Proof.
  induction m as [|m IH]; intros j H; [reflexivity|]. cbn [seq map repeat].
  rewrite (proj2 (Nat.eqb_neq j k)) by (apply H; lia). f_equal. apply IH. intros i Hi. apply H. lia.
Qed.
Lemma sched_fail k cols : (k < cols)%nat ->
  map (fun i => Nat.eqb i k) (seq 0 (S cols)) = repeat false k ++ true :: map (fun i => Nat.eqb i k) (seq (S k) (cols - k)).
Proof.
  intros H. replace (S cols) with (k + S (cols - k))%nat by lia. rewrite seq_app, map_app. cbn [seq map Nat.add].
  rewrite Nat.eqb_refl. f_equal. apply map_all_false. intros i Hi. lia.
Qed.
Lemma sched_ok k cols : (cols <= k)%nat ->
  map (fun i => Nat.eqb i k) (seq 0 (S cols)) = repeat false cols ++ [Nat.eqb cols k].
Proof.
  intros H. replace (S cols) with (cols + 1)%nat by lia. rewrite seq_app, map_app. cbn [seq map Nat.add]. f_equal.
  apply map_all_false. intros i Hi. lia.
Qed.

Lemma rows_init_inv sch s1 :
  cells s1 = cells (rows_init sch) -> row_inv s1 0.
Proof.
  intros E. split; [|split]; intros i H; rewrite E; unfold rows_init; cbn [cells fst snd].
  - replace (Z.leb 0 i) with true by (symmetry; apply Z.leb_le; exact H). discriminate.
  - reflexivity.
  - lia.
Qed.

(* ---- the hand model, every size *)
Theorem l2_obs_general (cols k : nat) :
  l2_obs cols k = if Nat.ltb k cols then (false, Z.of_nat k, Z.of_nat k) else (true, Z.of_nat cols, 0).
Proof.
  unfold l2_obs, import_row.
  set (sch := map (fun i => Nat.eqb i k) (seq 0 (S cols))).
  unfold p_alloc, fallible, rows_init. cbn [sched cells blocks nextb trace].
  set (s1 := {| cells := _; blocks := _ :: _; sched := sch; nextb := _; trace := _ |}).
  assert (I0 : row_inv s1 0) by (apply (rows_init_inv (false :: sch)); reflexivity).
  assert (C0 : cp s1 = 0 /\ ds s1 = 0) by (split; reflexivity).
  destruct (Nat.ltb_spec k cols) as [Hk|Hk].
  - assert (Hs : sched s1 = repeat false k ++ true :: map (fun i => Nat.eqb i k) (seq (S k) (cols - k))) by (apply sched_fail; exact Hk).
    destruct (loop_fail k cols 0 s1 _ (Z.le_refl 0) Hk Hs I0) as (s2 & E & S2 & B2 & C2 & D2 & I2).
    rewrite E. cbn [Z.add]. unfold catch_rethrow, throw.
    destruct (destroy_run k 0 s2) as (s3 & E3 & B3 & C3 & D3).
    { intros i Hi. apply I2. lia. }
    rewrite Nat2Z.id. unfold bind at 1. rewrite E3.
    unfold p_dealloc. rewrite B3, B2. cbn [blocks s1 find_blk]. cbn [Z.eqb Pos.eqb andb].
    cbn [trace]. unfold cp, ds, count_ev in *. cbn [trace filter is_copy is_destroy] in *. destruct C0 as [C0 C0'].
    f_equal; [f_equal|]; [lia|lia].
  - assert (Hs : sched s1 = repeat false cols ++ [Nat.eqb cols k]) by (apply sched_ok; exact Hk).
    destruct (loop_ok cols 0 s1 _ (Z.le_refl 0) Hs I0) as (s2 & E & S2 & B2 & C2 & D2 & I2).
    rewrite E. unfold cp, ds, count_ev in *. destruct C0 as [C0 C0']. f_equal; [f_equal|]; lia.
Qed.

(* ---- the translated function, every size (through RawGenC03.generated_pvCreateRaw_balanced, C18's proof) *)
Lemma first_fail_at k : forall len c0,
  first_fail (fun c => Z.eqb c (Z.of_nat k)) (Z.of_nat c0) len
  = if (Nat.leb c0 k && Nat.ltb k (c0 + len))%bool then Some (k - c0)%nat else None.
Proof.
  induction len as [|len IH]; intros c0; cbn [first_fail].
  - destruct (Nat.leb_spec c0 k); destruct (Nat.ltb_spec k (c0 + 0)); cbn [andb]; try reflexivity; lia.
  - destruct (Z.eqb_spec (Z.of_nat c0) (Z.of_nat k)) as [E|E].
    + apply Nat2Z.inj in E. subst c0. rewrite Nat.leb_refl. replace (Nat.ltb k (k + S len)) with true by (symmetry; apply Nat.ltb_lt; lia).
      cbn [andb]. rewrite Nat.sub_diag. reflexivity.
    + replace (Z.of_nat c0 + 1) with (Z.of_nat (S c0)) by lia. rewrite IH.
      assert (c0 <> k) by (intros ->; apply E; reflexivity).
      destruct (Nat.leb_spec (S c0) k); destruct (Nat.leb_spec c0 k); destruct (Nat.ltb_spec k (S c0 + len)); destruct (Nat.ltb_spec k (c0 + S len));
        cbn [andb]; try reflexivity; try lia.
      f_equal. lia.
Qed.

Lemma cnt_id : forall len a x, cnt (fun i => i) a len x = if (Z.leb a x && Z.ltb x (a + Z.of_nat len))%bool then 1 else 0.
Proof.
  induction len as [|len IH]; intros a x; cbn [cnt].
  - destruct (Z.leb_spec a x); destruct (Z.ltb_spec x (a + Z.of_nat 0)); cbn [andb]; try reflexivity; lia.
  - rewrite IH. destruct (Z.eqb_spec a x); destruct (Z.leb_spec a x); destruct (Z.leb_spec (a + 1) x);
      destruct (Z.ltb_spec x (a + 1 + Z.of_nat len)); destruct (Z.ltb_spec x (a + Z.of_nat (S len))); cbn [andb]; lia.
Qed.

Lemma sumf_ext f g : forall n, (forall x, 0 <= x < Z.of_nat n -> f x = g x) -> sumf f n = sumf g n.
Proof.
  induction n as [|n IH]; intros H; [reflexivity|]. cbn [sumf]. rewrite IH by (intros x Hx; apply H; lia). rewrite H by lia. reflexivity.
Qed.
Lemma sumf_below t : forall n, 0 <= t -> sumf (fun x => if (Z.leb 0 x && Z.ltb x t)%bool then 1 else 0) n = Z.min t (Z.of_nat n).
Proof.
  induction n as [|n IH]; intros Ht; cbn [sumf]; [lia|]. rewrite IH by exact Ht.
  destruct (Z.leb_spec 0 (Z.of_nat n)); [|lia]. destruct (Z.ltb_spec (Z.of_nat n) t); cbn [andb]; lia.
Qed.
Lemma sumf_zero : forall n, sumf (fun _ => 0) n = 0.
Proof. induction n as [|n IH]; cbn [sumf]; [reflexivity|rewrite IH; reflexivity]. Qed.

Theorem gen_obs_general (cols k : nat) : Z.of_nat cols <= 65536 ->
  gen_obs cols k = if Nat.ltb k cols then (false, Z.of_nat k, Z.of_nat k) else (true, Z.of_nat cols, 0).
Proof.
  intros Hc. unfold gen_obs.
  pose proof (generated_pvCreateRaw_balanced (fun i => i) (Z.of_nat cols) (fun c => Z.eqb c (Z.of_nat k)) ltac:(lia)) as B.
  rewrite Nat2Z.id in B. pose proof (first_fail_at k cols 0) as F. cbn [Z.of_nat Nat.leb andb Nat.add] in F.
  change (Z.of_nat 0) with 0 in F. rewrite F in B. rewrite Nat.sub_0_r in B.
  destruct (Nat.ltb_spec k cols) as [Hk|Hk].
  - destruct B as (c' & d' & E & _ & _ & Hc' & Hd'). rewrite E.
    assert (S1 : sumf c' cols = Z.of_nat k).
    { rewrite (sumf_ext c' (fun x => if (Z.leb 0 x && Z.ltb x (Z.of_nat k))%bool then 1 else 0)).
      - rewrite sumf_below by lia. lia.
      - intros x Hx. rewrite Hc', cnt_id. rewrite Z.add_0_l. reflexivity. }
    rewrite (sumf_ext d' c') by (intros x _; apply Hd'). rewrite S1. reflexivity.
  - destruct B as (c' & E & Hc'). rewrite E.
    rewrite (sumf_ext c' (fun x => if (Z.leb 0 x && Z.ltb x (Z.of_nat cols))%bool then 1 else 0)).
    + rewrite sumf_below by lia. rewrite sumf_zero. f_equal. f_equal. lia.
    + intros x Hx. rewrite Hc', cnt_id. rewrite Z.add_0_l. reflexivity.
Qed.

(* THE REFINEMENT, every number of columns the translated function accepts, every failure position (k >= cols: no failure) *)
Theorem import_row_refines_generated (cols k : nat) : Z.of_nat cols <= 65536 -> l2_obs cols k = gen_obs cols k.
Proof. intros Hc. rewrite l2_obs_general, (gen_obs_general cols k Hc). reflexivity. Qed.

(* what both do, in closed form: nothing leaked (constructed = destroyed after a failure), nothing destroyed otherwise *)
Theorem import_row_balance (cols k : nat) :
  l2_obs cols k = if Nat.ltb k cols then (false, Z.of_nat k, Z.of_nat k) else (true, Z.of_nat cols, 0).
Proof. exact (l2_obs_general cols k). Qed.
