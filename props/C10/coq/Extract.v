(* Extraction of the hand-written executable model of C10 and of the GENERATED functions that are run against the real code
   (Gen_Holder.*, Gen_ExtraCheckH/T.pvExtraCheck, Gen_TreeSwap.Swap) -- ExtrOcamlBasic only. *)
From Coq Require Import ZArith List Extraction ExtrOcamlBasic.
From C10 Require Gen_Holder Gen_ExtraCheckH Gen_ExtraCheckT Gen_TreeSwap Machine Merge ArrayShift MapModel FastMerge BulkOps FastPtr.
Separate Extraction
  Gen_Holder.IsEmpty Gen_Holder.Clear Gen_Holder.Create Gen_Holder.Remove
  Gen_ExtraCheckH.pvExtraCheck Gen_ExtraCheckT.pvExtraCheck Gen_TreeSwap.Swap Merge.add_holder Merge.std_insert_hint
  Machine.relocate Machine.replace Machine.replace_relocate Machine.nothrow_reloc
  Merge.hmerge Merge.tmerge Merge.lmerge Merge.tree_merge_to Merge.src_items Merge.tsrc_items
  Merge.extract_at Merge.insert_holder Merge.holder_move Merge.holder_clear
  ArrayShift.run ArrayShift.insert_prog ArrayShift.remove_prog ArrayShift.mk_arr
  MapModel.p_relocate MapModel.p_replace MapModel.p_replace_relocate MapModel.pextract_at MapModel.pinsert_holder
  MapModel.pholder_clear MapModel.pmerge FastMerge.tree_merge_to_eq BulkOps.insert_range BulkOps.remove_pred FastPtr.merge_fast_ptr.
