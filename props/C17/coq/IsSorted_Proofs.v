(* C17: pvIsGrouped / pvIsSorted return exactly the linear-scan predicate
   "hash codes non-decreasing and, inside one hash run, equal items contiguous" -- for EVERY array (any
   count, any hashes, any equivalence equalFunc), reading only indexes in [0,count). *)
From Coq Require Import ZArith Bool List Lia.
From MomoCommon Require Import GenPrelude.
From C17 Require Import SorterSearch Search_Proofs.
Local Open Scope Z_scope.

Section IsSortedProofs.
  Variable count : Z.
  Variable hash : Z -> Z.
  Variable item : Z -> Z.
  Variable eqf : Z -> Z -> bool.
  Hypothesis Hcount : 0 <= count.
  Hypothesis eqf_refl : forall a, eqf a a = true.
  Hypothesis eqf_sym : forall a b, eqf a b = true -> eqf b a = true.
  Hypothesis eqf_trans : forall a b c, eqf a b = true -> eqf b c = true -> eqf a c = true.

  Definition Ei (i j : Z) : Prop := eqf (item i) (item j) = true.

  Local Notation rdh := (SorterSearch.rdh count hash).
  Local Notation rdi := (SorterSearch.rdi count item).
  Local Notation eq_ii := (SorterSearch.eq_ii count item eqf).
  Local Notation ig_inner := (SorterSearch.ig_inner count item eqf).
  Local Notation ig_outer := (SorterSearch.ig_outer count item eqf).
  Local Notation pvIsGrouped := (SorterSearch.pvIsGrouped count item eqf).
  Local Notation is_loop := (SorterSearch.is_loop count hash item eqf).

  Lemma rdi_ok' i : 0 <= i < count -> rdi i = Ok (item i).
  Proof.
    intros H. unfold SorterSearch.rdi, inb.
    destruct (Z.leb_spec 0 i); [|lia]. destruct (Z.ltb_spec i count); [|lia]. reflexivity.
  Qed.
  Lemma eq_ii_ok' i j : 0 <= i < count -> 0 <= j < count -> eq_ii i j = Ok (eqf (item i) (item j)).
  Proof. intros Hi Hj. unfold SorterSearch.eq_ii. rewrite (rdi_ok' i Hi). cbn [bind]. rewrite (rdi_ok' j Hj). reflexivity. Qed.

  Lemma ig_inner_eq f p cnt i j : ig_inner (S f) p cnt i j =
      if j <? cnt then
        e <- eq_ii (p + (i - 1)) (p + j) ;;
        if e then Ok false else ig_inner f p cnt i (j + 1)
      else Ok true.
  Proof. reflexivity. Qed.

  Lemma ig_outer_eq f p cnt i : ig_outer (S f) p cnt i =
      if i <? cnt then
        e <- eq_ii (p + (i - 1)) (p + i) ;;
        if e then ig_outer f p cnt (i + 1)
        else
          ok <- ig_inner (S (Z.to_nat cnt)) p cnt i (i + 1) ;;
          if ok then ig_outer f p cnt (i + 1) else Ok false
      else Ok true.
  Proof. reflexivity. Qed.

  Section Grouped.
    Variable p cnt : Z.
    Hypothesis Hp : 0 <= p.
    Hypothesis Hpc : p + cnt <= count.

    Lemma ig_inner_spec i : 1 <= i ->
      forall f j, i <= j -> cnt - j <= Z.of_nat f ->
        exists b, ig_inner (S f) p cnt i j = Ok b /\
          (b = true <-> forall j', j <= j' < cnt -> ~ Ei (p + (i - 1)) (p + j')).
    Proof.
      intros Hi. induction f as [|f IH]; intros j Hj Hf; rewrite ig_inner_eq.
      - destruct (Z.ltb_spec j cnt); [simpl in Hf; lia|]. exists true. split; [reflexivity|]. split; [intros _ j' Hj'; lia|reflexivity].
      - destruct (Z.ltb_spec j cnt) as [Hlt|Hge].
        + rewrite eq_ii_ok' by lia. cbn [bind]. destruct (eqf (item (p + (i - 1))) (item (p + j))) eqn:Ee.
          * exists false. split; [reflexivity|]. split; [discriminate|]. intros H. exfalso. apply (H j); [lia|exact Ee].
          * rewrite Nat2Z.inj_succ in Hf. destruct (IH (j + 1)) as (b & Eb & Hb); try lia.
            exists b. split; [exact Eb|]. rewrite Hb. split.
            -- intros H j' Hj'. destruct (Z.eq_dec j' j) as [->|]; [unfold Ei; congruence|apply H; lia].
            -- intros H j' Hj'. apply H. lia.
        + exists true. split; [reflexivity|]. split; [intros _ j' Hj'; lia|reflexivity].
    Qed.

    (* the raw loop predicate *)
    Definition G (i : Z) : Prop :=
      forall i' j', i <= i' -> i' < j' -> j' < cnt -> ~ Ei (p + (i' - 1)) (p + i') -> ~ Ei (p + (i' - 1)) (p + j').

    Lemma ig_outer_spec : forall f i, 1 <= i -> cnt - i <= Z.of_nat f ->
      exists b, ig_outer (S f) p cnt i = Ok b /\ (b = true <-> G i).
    Proof.
      induction f as [|f IH]; intros i Hi Hf; rewrite ig_outer_eq.
      - destruct (Z.ltb_spec i cnt); [simpl in Hf; lia|]. exists true. split; [reflexivity|].
        split; [intros _ i' j' A B C; lia|reflexivity].
      - destruct (Z.ltb_spec i cnt) as [Hlt|Hge].
        2:{ exists true. split; [reflexivity|]. split; [intros _ i' j' A B C; lia|reflexivity]. }
        rewrite Nat2Z.inj_succ in Hf.
        rewrite eq_ii_ok' by lia. cbn [bind]. destruct (eqf (item (p + (i - 1))) (item (p + i))) eqn:Ee.
        + destruct (IH (i + 1)) as (b & Eb & Hb); try lia. exists b. split; [exact Eb|]. rewrite Hb. split.
          * intros H i' j' A B C N. destruct (Z.eq_dec i' i) as [->|]; [exfalso; apply N; exact Ee|apply H; try lia; exact N].
          * intros H i' j' A B C N. apply H; try lia; exact N.
        + destruct (ig_inner_spec i Hi (Z.to_nat cnt) (i + 1)) as (ok & Eok & Hok); try lia.
          rewrite Eok. cbn [bind]. destruct ok.
          * destruct (IH (i + 1)) as (b & Eb & Hb); try lia. exists b. split; [exact Eb|]. rewrite Hb. split.
            -- intros H i' j' A B C N. destruct (Z.eq_dec i' i) as [->|]; [apply (proj1 Hok eq_refl); lia|apply H; try lia; exact N].
            -- intros H i' j' A B C N. apply H; try lia; exact N.
          * exists false. split; [reflexivity|]. split; [discriminate|]. intros H.
            apply Hok. intros j' Hj'. apply H; try lia. unfold Ei. congruence.
    Qed.

    (* equal items are contiguous in [p, p+cnt) *)
    Definition contig : Prop :=
      forall a m c, p <= a -> a < m -> m < c -> c < p + cnt -> Ei a c -> Ei a m.

    Lemma G_contig : G 1 <-> contig.
    Proof.
      split.
      - intros H a m c Ha Ham Hmc Hc Eac.
        assert (K : forall n : nat, forall m', m' = a + 1 + Z.of_nat n -> m' <= c -> Ei a m').
        { induction n as [|n IHn]; intros m' Em Hm'.
          - simpl in Em. rewrite Z.add_0_r in Em. subst m'.
            destruct (eqf (item a) (item (a + 1))) eqn:E1; [exact E1|]. exfalso.
            destruct (Z.eq_dec c (a + 1)) as [->|]; [unfold Ei in Eac; congruence|].
            apply (H (a + 1 - p) (c - p)); try lia.
            + replace (p + (a + 1 - p - 1)) with a by lia. replace (p + (a + 1 - p)) with (a + 1) by lia. unfold Ei. congruence.
            + replace (p + (a + 1 - p - 1)) with a by lia. replace (p + (c - p)) with c by lia. exact Eac.
          - rewrite Nat2Z.inj_succ in Em.
            assert (Eprev : Ei a (m' - 1)) by (apply IHn; lia).
            destruct (eqf (item (m' - 1)) (item m')) eqn:E1; [eapply eqf_trans; [exact Eprev|exact E1]|]. exfalso.
            assert (Emc : Ei (m' - 1) c) by (eapply eqf_trans; [apply eqf_sym; exact Eprev|exact Eac]).
            destruct (Z.eq_dec c m') as [->|]; [unfold Ei in Emc; congruence|].
            apply (H (m' - p) (c - p)); try lia.
            + replace (p + (m' - p - 1)) with (m' - 1) by lia. replace (p + (m' - p)) with m' by lia. unfold Ei. congruence.
            + replace (p + (m' - p - 1)) with (m' - 1) by lia. replace (p + (c - p)) with c by lia. exact Emc. }
        apply (K (Z.to_nat (m - a - 1)) m); lia.
      - intros H i' j' A B C N X. apply N.
        apply (H (p + (i' - 1)) (p + i') (p + j')); try lia. exact X.
    Qed.

    Lemma pvIsGrouped_spec : exists b, pvIsGrouped p cnt = Ok b /\ (b = true <-> contig).
    Proof.
      unfold SorterSearch.pvIsGrouped.
      destruct (ig_outer_spec (Z.to_nat cnt) 1) as (b & Eb & Hb); try lia.
      exists b. split; [exact Eb|]. rewrite Hb. apply G_contig.
    Qed.
  End Grouped.

  (* ---------------- pvIsSorted ---------------- *)
  Definition sorted_spec : Prop :=
    sorted count hash /\
    (forall a m c, 0 <= a -> a < m -> m < c -> c < count -> hash a = hash c -> Ei a c -> Ei a m).

  Lemma is_loop_eq f i prevIndex prevHash : is_loop (S f) i prevIndex prevHash =
      if i <? count then
        h <- rdh i ;;
        if h <? prevHash then Ok false
        else if negb (h =? prevHash) then
          g <- pvIsGrouped prevIndex (i - prevIndex) ;;
          if negb g then Ok false else is_loop f (i + 1) i h
        else is_loop f (i + 1) prevIndex prevHash
      else pvIsGrouped prevIndex (count - prevIndex).
  Proof. reflexivity. Qed.

  Lemma is_loop_spec : forall f i pi ph, 0 <= pi -> pi < i -> i <= count -> count - i <= Z.of_nat f ->
    (forall a b, 0 <= a -> a <= b -> b < i -> hash a <= hash b) ->
    (forall k, pi <= k < i -> hash k = ph) ->
    (forall k, 0 <= k < pi -> hash k < ph) ->
    (forall a m c, 0 <= a -> a < m -> m < c -> c < pi -> hash a = hash c -> Ei a c -> Ei a m) ->
    exists b, is_loop (S f) i pi ph = Ok b /\ (b = true <-> sorted_spec).
  Proof.
    induction f as [|f IH]; intros i pi ph Hpi Hpii Hic Hf I1 I2 I3 I4; rewrite is_loop_eq.
    - (* i = count *)
      destruct (Z.ltb_spec i count); [simpl in Hf; lia|]. assert (i = count) by lia. subst i.
      destruct (pvIsGrouped_spec pi (count - pi)) as (g & Eg & Hg); try lia.
      exists g. split; [exact Eg|]. rewrite Hg. unfold contig, sorted_spec. replace (pi + (count - pi)) with count by lia. split.
      + intros Hc. split; [intros a b Ha Hab Hb; apply I1; lia|].
        intros a m c Ha Ham Hmc Hc' Hh Eac. destruct (Z_lt_le_dec c pi); [apply (I4 a m c); try lia; assumption|].
        destruct (Z_lt_le_dec a pi); [pose proof (I3 a ltac:(lia)); pose proof (I2 c ltac:(lia)); lia|].
        apply (Hc a m c); try lia. exact Eac.
      + intros [_ Hgr] a m c Ha Ham Hmc Hc' Eac. apply (Hgr a m c); try lia; [|exact Eac].
        rewrite (I2 a), (I2 c) by lia. reflexivity.
    - destruct (Z.ltb_spec i count) as [Hlt|Hge].
      2:{ assert (i = count) by lia. subst i.
          destruct (pvIsGrouped_spec pi (count - pi)) as (g & Eg & Hg); try lia.
          exists g. split; [exact Eg|]. rewrite Hg. unfold contig, sorted_spec. replace (pi + (count - pi)) with count by lia. split.
          + intros Hc. split; [intros a b Ha Hab Hb; apply I1; lia|].
            intros a m c Ha Ham Hmc Hc' Hh Eac. destruct (Z_lt_le_dec c pi); [apply (I4 a m c); try lia; assumption|].
            destruct (Z_lt_le_dec a pi); [pose proof (I3 a ltac:(lia)); pose proof (I2 c ltac:(lia)); lia|].
            apply (Hc a m c); try lia. exact Eac.
          + intros [_ Hgr] a m c Ha Ham Hmc Hc' Eac. apply (Hgr a m c); try lia; [|exact Eac].
            rewrite (I2 a), (I2 c) by lia. reflexivity. }
      rewrite Nat2Z.inj_succ in Hf.
      rewrite (rdh_ok count hash) by lia. cbn [bind].
      destruct (Z.ltb_spec (hash i) ph) as [Hless|Hnl].
      + exists false. split; [reflexivity|]. split; [discriminate|]. intros [Hs _]. exfalso.
        pose proof (Hs (i - 1) i ltac:(lia) ltac:(lia) ltac:(lia)). pose proof (I2 (i - 1) ltac:(lia)). lia.
      + destruct (Z.eqb_spec (hash i) ph) as [Heq|Hne]; cbn [negb].
        * apply IH; try lia; try assumption.
          -- intros a b Ha Hab Hb. destruct (Z.eq_dec b i) as [->|]; [|apply I1; lia].
             destruct (Z.eq_dec a i) as [->|]; [lia|].
             destruct (Z_lt_le_dec a pi); [pose proof (I3 a ltac:(lia)); lia|pose proof (I2 a ltac:(lia)); lia].
          -- intros k Hk. destruct (Z.eq_dec k i) as [->|]; [exact Heq|apply I2; lia].
        * destruct (pvIsGrouped_spec pi (i - pi)) as (g & Eg & Hg); try lia.
          rewrite Eg. cbn [bind]. destruct g; cbn [negb].
          -- assert (Hc : contig pi (i - pi)) by (apply Hg; reflexivity).
             apply IH; try lia.
             ++ intros a b Ha Hab Hb. destruct (Z.eq_dec b i) as [->|]; [|apply I1; lia].
                destruct (Z.eq_dec a i) as [->|]; [lia|].
                destruct (Z_lt_le_dec a pi); [pose proof (I3 a ltac:(lia)); lia|pose proof (I2 a ltac:(lia)); lia].
             ++ intros k Hk. replace k with i by lia. reflexivity.
             ++ intros k Hk. destruct (Z_lt_le_dec k pi); [pose proof (I3 k ltac:(lia)); lia|pose proof (I2 k ltac:(lia)); lia].
             ++ intros a m c Ha Ham Hmc Hc' Hh Eac. destruct (Z_lt_le_dec c pi); [apply (I4 a m c); try lia; assumption|].
                destruct (Z_lt_le_dec a pi); [pose proof (I3 a ltac:(lia)); pose proof (I2 c ltac:(lia)); lia|].
                apply (Hc a m c); try lia. exact Eac.
          -- exists false. split; [reflexivity|]. split; [discriminate|]. intros [_ Hgr]. exfalso.
             assert (Hc : contig pi (i - pi)).
             { intros a m c Ha Ham Hmc Hc' Eac. apply (Hgr a m c); try lia; [|exact Eac]. rewrite (I2 a), (I2 c) by lia. reflexivity. }
             apply Hg in Hc. discriminate.
  Qed.

  (* IsSorted == the linear-scan predicate, for every array; count = 0 reads nothing *)
  Theorem pvIsSorted_spec :
    exists b, SorterSearch.pvIsSorted count hash item eqf = Ok b /\ (b = true <-> sorted_spec).
  Proof.
    unfold SorterSearch.pvIsSorted. destruct (Z.eqb_spec count 0) as [Hz|Hnz].
    - exists true. split; [reflexivity|]. split; [|reflexivity]. intros _. split.
      + intros i j Hi Hij Hj. lia.
      + intros a m c Ha Ham Hmc Hc. lia.
    - rewrite (rdh_ok count hash) by lia. cbn [bind].
      apply is_loop_spec; try lia.
      all: try (intros a b Ha Hab Hb; replace a with 0 by lia; replace b with 0 by lia; lia).
      all: try (intros k Hk; replace k with 0 by lia; reflexivity).
      all: try (intros a m c Ha Ham Hmc Hc; lia).
  Qed.
End IsSortedProofs.
