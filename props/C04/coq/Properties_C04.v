(* Property C04 -- theorems only.  Each is closed by `exact <lemma>` and followed by Print Assumptions.
   Reading guide.  `wp m s Q E` (Effects.v) unfolds to
        match m s with (Ok a, s') => Q a s' | (Exn, s') => E s' | (Stuck, _) => False end
   i.e. for the start state s -- which contains the failure schedule, so every statement below holds for ALL
   schedules -- the mechanism never performs an undefined step, a normal return satisfies Q and an
   exceptional exit satisfies E.  `unchanged h h'` = every cell of every block, the set of live blocks, their
   sizes and all data-member registers are exactly as before (strong guarantee incl. "nothing leaked"). *)
From Coq Require Import List Arith Lia Bool ZArith.
From MomoCommon Require Import GenPrelude.
From C04 Require Gen_OpenN1_exn Gen_Open2N2_exn OpenExn Gen_LimP4_exn LimP4Exn OpenRefine Gen_ArrReset_exn ArrResetExn Gen_C04Facts FactsTie Gen_XCheckH Gen_XCheckT XCheck NonVacuity MigrateStep RelocFacts.
From C04 Require Import Effects ObjMgr ArrayData Ctor KeyValue Tree Relocator Replace PlanWf MultiMap SetCount HashGrow Shifter.
Import ListNotations.

(* ObjectManager::RelocateExec (both overloads of pvRelocateExec, ObjectManager.h:508-535), for every element
   category, every count, every pair of iterators over pairwise distinct locations and every executor that
   is itself all-or-nothing on a footprint disjoint from the ranges: on an exception (from a copy or from the
   executor) everything is as before; on success the objects are in dst, src is raw storage again. *)
Theorem relocate_exec_strong :
  forall (src dst : nat -> loc) (n : nat) (exec : M unit) (fp : loc -> Prop) (P : heap -> Prop) (R : heap -> heap -> Prop),
    exec_spec exec fp P R -> (forall j, j < n -> ~ fp (src j) /\ ~ fp (dst j)) ->
    forall c s, range_pre src dst n (hp s) -> P (hp s) ->
      wp (relocate_exec c src dst n exec) s
         (fun _ s' => moved_range src dst n fp (hp s) (hp s') /\ R (hp s) (hp s'))
         (fun s' => unchanged (hp s) (hp s')).
Proof. exact relocate_exec_spec. Qed.
Print Assumptions relocate_exec_strong.

(* the same statement in the customary form: run op s = (Exn, s') -> obs/resources s' = obs/resources s, never Stuck *)
Theorem relocate_exec_strong_explicit :
  forall (src dst : nat -> loc) (n : nat) (exec : M unit) (fp : loc -> Prop) (P : heap -> Prop) (R : heap -> heap -> Prop),
    exec_spec exec fp P R -> (forall j, j < n -> ~ fp (src j) /\ ~ fp (dst j)) ->
    forall c s, range_pre src dst n (hp s) -> P (hp s) ->
      (forall s', relocate_exec c src dst n exec s = (Exn, s') -> unchanged (hp s) (hp s')) /\
      (forall s', relocate_exec c src dst n exec s <> (Stuck, s')) /\
      (forall s', relocate_exec c src dst n exec s = (Ok tt, s') -> moved_range src dst n fp (hp s) (hp s')).
Proof. exact ObjMgr.relocate_exec_explicit. Qed.
Print Assumptions relocate_exec_strong_explicit.

(* ObjectManager::RelocateCreate (ObjectManager.h:359-366) with any all-or-nothing creator *)
Theorem relocate_create_strong :
  forall c src dst n (creator : loc -> M unit) newl fp P R s,
    exec_spec (creator newl) fp P R -> (forall j, j < n -> ~ fp (src j) /\ ~ fp (dst j)) ->
    range_pre src dst n (hp s) -> P (hp s) ->
    wp (relocate_create c src dst n creator newl) s
       (fun _ s' => moved_range src dst n fp (hp s) (hp s') /\ R (hp s) (hp s'))
       (fun s' => unchanged (hp s) (hp s')).
Proof. exact relocate_create_spec. Qed.
Print Assumptions relocate_create_strong.

(* ObjectManager::Relocate(range) (pvRelocate, ObjectManager.h:486-506): for types that are not nothrow
   relocatable it is RelocateCreate of items 1.. with "move item 0" as the creator, then Destroy(item 0) *)
Theorem relocate_range_strong :
  forall c src dst n s, range_pre src dst n (hp s) ->
    wp (relocate_range c src dst n) s
       (fun _ s' => moved_range src dst n (fun _ => False) (hp s) (hp s'))
       (fun s' => unchanged (hp s) (hp s')).
Proof. exact relocate_range_spec. Qed.
Print Assumptions relocate_range_strong.

(* ObjectManager::CopyExec (ObjectManager.h:291-305) *)
Theorem copy_exec_strong :
  forall (sl dl : loc) (v : nat) (exec : M unit) fp P R,
    exec_spec exec fp P R -> sl <> dl -> ~ fp sl -> ~ fp dl ->
    forall s, one_pre sl dl v (hp s) -> P (hp s) ->
      wp (copy_exec sl dl exec) s
         (fun _ s' => mem (hp s') dl = Live v /\ mem (hp s') sl = Live v /\
                      (forall l, ~ fp l -> l <> dl -> mem (hp s') l = mem (hp s) l) /\
                      agree (fun _ => False) (hp s) (hp s') /\ fields_same (hp s) (hp s') /\ R (hp s) (hp s'))
         (fun s' => unchanged (hp s) (hp s')).
Proof. exact copy_exec_spec. Qed.
Print Assumptions copy_exec_strong.

(* ObjectManager::MoveExec (both overloads of pvMoveExec, ObjectManager.h:392-415): on an exception every
   location other than the argument object sl is as before; sl itself is as before unless the element has a
   throwing move constructor (then it may be moved-from -- "srcObject has been changed!" in the source). *)
Theorem move_exec_strong :
  forall (sl dl : loc) (v : nat) (exec : M unit) fp P R,
    exec_spec exec fp P R -> sl <> dl -> ~ fp sl -> ~ fp dl ->
    forall c s, one_pre sl dl v (hp s) -> P (hp s) ->
      wp (move_exec c sl dl exec) s
         (fun _ s' => mem (hp s') dl = Live v /\ mem (hp s') sl = src_after c v /\
                      (forall l, ~ fp l -> l <> dl -> l <> sl -> mem (hp s') l = mem (hp s) l) /\
                      agree (fun _ => False) (hp s) (hp s') /\ fields_same (hp s) (hp s') /\ R (hp s) (hp s'))
         (fun s' => agree (fun l => l <> sl) (hp s) (hp s') /\ fields_same (hp s) (hp s') /\
                    (c <> THM -> mem (hp s') sl = mem (hp s) sl)).
Proof. exact move_exec_spec. Qed.
Print Assumptions move_exec_strong.

(* non-vacuity: the copy / move creators used by the containers are executors in the sense above *)
Theorem creator_copy_is_executor :
  forall a l v, a <> l ->
    exec_spec (creator_copy a l) (two a l)
      (fun h => valid h a = true /\ valid h l = true /\ mem h a = Live v /\ mem h l = Raw)
      (fun h h' => mem h' l = Live v /\ mem h' a = Live v).
Proof. exact creator_copy_spec. Qed.
Print Assumptions creator_copy_is_executor.

(* MapKeyValueTraits::Relocate (pvRelocate, MapUtility.h:318-353), all 9 category pairs = the 4 combinations of
   (key nothrow relocatable, value nothrow relocatable): on an exception nothing has changed (the copied key is
   destroyed again); on success the pair is in (dk, dv) and (sk, sv) are raw. *)
Theorem kv_relocate_strong :
  forall ck cv sk sv dk dv kv vv s, kv_pre sk sv dk dv kv vv (hp s) ->
    wp (kv_relocate ck cv sk sv dk dv) s
       (fun _ s' => kv_moved sk sv dk dv kv vv (hp s) (hp s'))
       (fun s' => unchanged (hp s) (hp s')).
Proof. exact kv_relocate_spec. Qed.
Print Assumptions kv_relocate_strong.

(* Array::Data::Reset (Array.h:316-337) for ANY items creator that is itself all-or-nothing: allocate, run the
   creator (free the new block and rethrow if it throws), free the old block, install the new one.  `same_res` =
   every cell of every live block, the set of live blocks, their sizes and the data members are as before. *)
Theorem array_reset_strong :
  forall capacity count cr NewOk s,
    wf (hp s) -> arr_inv (hp s) -> creator_ok cr capacity (hp s) NewOk ->
    (forall h h', (forall l, fst l = next (hp s) -> mem h' l = mem h l) -> NewOk h -> NewOk h') ->
    wp (data_reset capacity count cr) s
       (fun _ s' => regs (hp s') rItems = next (hp s) /\ regs (hp s') rCount = count /\ regs (hp s') rCap = capacity /\
                    alive (hp s') (next (hp s)) = true /\ bsize (hp s') (next (hp s)) = capacity /\
                    (regs (hp s) rCap > 0 -> alive (hp s') (regs (hp s) rItems) = false) /\
                    (forall b, b <> next (hp s) -> b <> regs (hp s) rItems -> alive (hp s') b = alive (hp s) b) /\
                    (forall l, fst l <> next (hp s) -> fst l <> regs (hp s) rItems -> mem (hp s') l = mem (hp s) l) /\
                    NewOk (hp s'))
       (fun s' => same_res (hp s) (hp s')).
Proof. exact data_reset_spec. Qed.
Print Assumptions array_reset_strong.

(* Reserve / pvGrow / Shrink(capacity) / SetCount-with-growth relocation part (Array.h:748-773, 998-1010): Reset with
   the creator "Relocate(GetItems(), newItems, count)", every category, count and new capacity >= count *)
Theorem array_reserve_strong :
  forall c capacity s, wf (hp s) -> arr_inv (hp s) -> regs (hp s) rCount <= capacity ->
    wp (array_grow c capacity) s
       (fun _ s' => regs (hp s') rItems = next (hp s) /\ regs (hp s') rCount = regs (hp s) rCount /\ regs (hp s') rCap = capacity /\
                    alive (hp s') (next (hp s)) = true /\
                    (regs (hp s) rCap > 0 -> alive (hp s') (regs (hp s) rItems) = false) /\
                    (forall i, i < regs (hp s) rCount -> mem (hp s') (next (hp s), i) = mem (hp s) (regs (hp s) rItems, i)))
       (fun s' => same_res (hp s) (hp s')).
Proof. exact array_grow_spec. Qed.
Print Assumptions array_reserve_strong.

(* Shrink is the same mechanism with capacity = max(count, requested) *)
Theorem array_shrink_strong :
  forall c s, wf (hp s) -> arr_inv (hp s) ->
    wp (array_grow c (regs (hp s) rCount)) s
       (fun _ s' => regs (hp s') rCap = regs (hp s) rCount /\
                    (forall i, i < regs (hp s) rCount -> mem (hp s') (next (hp s), i) = mem (hp s) (regs (hp s) rItems, i)))
       (fun s' => same_res (hp s) (hp s')).
Proof. exact Ctor.array_shrink_spec. Qed.
Print Assumptions array_shrink_strong.

(* AddBack with growth through an item creator (pvAddBackGrow(ItemCreator&&), Array.h:1020-1032), copy creator *)
Theorem array_addback_strong :
  forall c capacity arg v s,
    wf (hp s) -> arr_inv (hp s) -> S (regs (hp s) rCount) <= capacity ->
    valid (hp s) arg = true /\ mem (hp s) arg = Live v /\ fst arg <> regs (hp s) rItems ->
    wp (array_addback_grow c capacity (creator_copy arg)) s
       (fun _ s' => regs (hp s') rItems = next (hp s) /\ regs (hp s') rCount = S (regs (hp s) rCount) /\ regs (hp s') rCap = capacity /\
                    alive (hp s') (next (hp s)) = true /\
                    (regs (hp s) rCap > 0 -> alive (hp s') (regs (hp s) rItems) = false) /\
                    (forall i, i < regs (hp s) rCount -> mem (hp s') (next (hp s), i) = mem (hp s) (regs (hp s) rItems, i)) /\
                    mem (hp s') (next (hp s), regs (hp s) rCount) = Live v)
       (fun s' => same_res (hp s) (hp s')).
Proof. exact array_addback_spec. Qed.
Print Assumptions array_addback_strong.

(* pvReset of an array with internal capacity, as it is NOW (after f340ccf): for every creator that is all-or-nothing
   and every junk value the union may be left with, mCapacity and everything else is restored on an exception *)
Theorem array_reset_intcap_strong :
  forall ib count junk cr s,
    intcap_creator_ok cr ib (hp s) -> alive (hp s) (regs (hp s) rItems) = true ->
    wp (pv_reset_intcap ib count junk cr) s
       (fun _ s' => regs (hp s') rItems = ib /\ regs (hp s') rCount = count /\ alive (hp s') (regs (hp s) rItems) = false)
       (fun s' => unchanged (hp s) (hp s')).
Proof. exact pv_reset_intcap_spec. Qed.
Print Assumptions array_reset_intcap_strong.

(* ... and the shape BEFORE the fix is refuted by a concrete run: the exception leaves mCapacity = junk *)
Theorem array_reset_intcap_refuted :
  exists s', pv_reset_intcap_prefix 1 1 77 demo_creator demo_st = (Exn, s') /\
             regs (hp demo_st) rCap = 8 /\ regs (hp s') rCap = 77.
Proof. exact array_reset_intcap_prefix_clobbers. Qed.
Print Assumptions array_reset_intcap_refuted.

(* Array copy construction (Array.h:561-571): a failing item copy (or allocation) leaves nothing allocated and
   nothing constructed; every count, every schedule *)
Theorem array_copy_ctor_strong :
  forall src n s, wf (hp s) ->
    (forall j, j < n -> valid (hp s) (src j) = true /\ exists v, mem (hp s) (src j) = Live v) ->
    wp (array_copy_ctor src n) s
       (fun nb s' => nb = next (hp s) /\ alive (hp s') nb = true /\
                     (forall j, j < n -> mem (hp s') (nb, j) = mem (hp s) (src j)) /\
                     (forall l, fst l <> nb -> mem (hp s') l = mem (hp s) l) /\
                     (forall b, b <> nb -> alive (hp s') b = alive (hp s) b))
       (fun s' => same_res (hp s) (hp s')).
Proof. exact array_copy_ctor_spec. Qed.
Print Assumptions array_copy_ctor_strong.

Theorem ctor_failure_leaves_nothing :
  forall src n s s', wf (hp s) ->
    (forall j, j < n -> valid (hp s) (src j) = true /\ exists v, mem (hp s) (src j) = Live v) ->
    array_copy_ctor src n s = (Exn, s') ->
    (forall b, alive (hp s') b = alive (hp s) b) /\ (forall l, alive (hp s) (fst l) = true -> mem (hp s') l = mem (hp s) l).
Proof. exact Ctor.ctor_failure_nothing. Qed.
Print Assumptions ctor_failure_leaves_nothing.

(* delegating HashSet/TreeSet constructors: the pre-fix shape (catch: pvDestroy(); throw; then the destructor) destroys
   twice = Stuck; the shape after 806b9fe (pointer reset to null in the catch) does not, on the same run *)
Theorem ctor_double_destroy_refuted :
  exists s', set_copy_ctor false (fun j => (0, j)) 3 (ctor_demo [false; false; true]) = (Stuck, s').
Proof. exact ctor_double_destroy_prefix_stuck. Qed.
Print Assumptions ctor_double_destroy_refuted.

Theorem ctor_fixed_no_double_destroy :
  exists s', set_copy_ctor true (fun j => (0, j)) 3 (ctor_demo [false; false; true]) = (Exn, s') /\
             alive (hp s') 1 = false /\ mem (hp s') (1, 0) = Raw /\ mem (hp s') (1, 1) = Raw /\ mem (hp s') (0, 1) = Live 11.
Proof. exact ctor_double_destroy_fixed_ok. Qed.
Print Assumptions ctor_fixed_no_double_destroy.

(* BucketLimP4::pvAdd under the BucketMemory guard (details/HashBucketLimP4.h:483-495, BucketUtility.h:25-64) *)
Theorem bucket_add_guard :
  forall c arg v s, wf (hp s) -> arr_inv (hp s) ->
    valid (hp s) arg = true /\ mem (hp s) arg = Live v /\ fst arg <> regs (hp s) rItems ->
    wp (bucket_add c (creator_copy arg)) s
       (fun _ s' => regs (hp s') rItems = next (hp s) /\ regs (hp s') rCount = S (regs (hp s) rCount) /\
                    (regs (hp s) rCap > 0 -> alive (hp s') (regs (hp s) rItems) = false) /\
                    (forall i, i < regs (hp s) rCount -> mem (hp s') (next (hp s), i) = mem (hp s) (regs (hp s) rItems, i)) /\
                    mem (hp s') (next (hp s), regs (hp s) rCount) = Live v)
       (fun s' => same_res (hp s) (hp s')).
Proof. exact bucket_add_spec. Qed.
Print Assumptions bucket_add_guard.

(* TreeNode::pvRemove for continuous nodes (details/TreeNode.h:332-347): the removed item is rotated to the end with
   ShiftNothrow, the remover runs on it; if the remover throws the rotation is undone -> the node is exactly as before.
   Every index, every number of items behind it, every remover that is all-or-nothing on the rotated item. *)
Theorem node_remove_shiftback :
  forall items tmp index shift remover fp P R s,
    exec_spec remover fp P R ->
    (forall p, index <= p <= index + shift -> valid (hp s) (items p) = true /\ exists v, mem (hp s) (items p) = Live v) ->
    valid (hp s) tmp = true -> mem (hp s) tmp = Raw ->
    (forall p q, index <= p <= index + shift -> index <= q <= index + shift -> p <> q -> items p <> items q) ->
    (forall p, index <= p <= index + shift -> items p <> tmp) ->
    (forall l, fp l -> l <> tmp /\ forall p, index <= p < index + shift -> items p <> l) ->
    (forall h', agree (fun l => l <> tmp /\ forall p, index <= p <= index + shift -> items p <> l) (hp s) h' ->
                mem h' (items (index + shift)) = mem (hp s) (items index) -> P h') ->
    wp (node_remove items tmp index shift remover) s
       (fun _ s' => forall p, index <= p < index + shift -> mem (hp s') (items p) = mem (hp s) (items (S p)))
       (fun s' => unchanged (hp s) (hp s')).
Proof. exact node_remove_spec. Qed.
Print Assumptions node_remove_shiftback.

(* The tree Relocator (TreeSet.h:346-499) at node granularity: CreateNode for every node of the plan (a failing node
   allocation is a failure point), RelocateCreate over the segment iterators (every item copy / throwing move and the item
   creator are failure points), commit = swap of the node lists, destructor = free mNewNodes.  For every plan (node sizes,
   sources, destinations, replaced nodes) that is well formed, every category and every schedule:
   on an exception every cell of every live node, the set of live nodes, their sizes and all data members are as before
   (exactly the nodes built aside were freed); on success exactly the planned nodes are live instead of the old ones,
   every relocated item is in its planned place and the old places are raw. *)
Theorem relocator_commit_or_rollback :
  forall c sizes src dst count creator newl olds fp P R s,
    wf (hp s) -> sizes <> [] ->
    exec_spec (creator (newl (next (hp s)))) fp P R ->
    (forall j, j < count -> ~ fp (src j) /\ ~ fp (dst (next (hp s)) j)) ->
    (forall h1, allocd (hp s) sizes (length sizes) h1 -> range_pre src (dst (next (hp s))) count h1 /\ P h1) ->
    NoDup olds ->
    (forall b, In b olds -> alive (hp s) b = true /\
               forall x, x < bsize (hp s) b -> mem (hp s) (b, x) = Raw \/ exists j, j < count /\ src j = (b, x)) ->
    (forall b x, In b olds -> ~ fp (b, x)) ->
    (forall j, j < count -> ~ In (fst (dst (next (hp s)) j)) olds) ->
    wp (relocator_run c sizes src dst count creator newl olds) s
       (fun _ s' => (forall b, In b olds -> alive (hp s') b = false) /\
                    (forall i, i < length sizes -> alive (hp s') (next (hp s) + i) = true) /\
                    (forall b, b < next (hp s) -> ~ In b olds -> alive (hp s') b = alive (hp s) b) /\
                    (forall j, j < count -> mem (hp s') (dst (next (hp s)) j) = mem (hp s) (src j) /\ mem (hp s') (src j) = Raw) /\
                    (forall l, fst l < next (hp s) -> ~ fp l -> (forall j, j < count -> src j <> l) ->
                               (forall j, j < count -> dst (next (hp s)) j <> l) -> mem (hp s') l = mem (hp s) l) /\
                    rfields_same (hp s) (hp s') /\
                    (exists h1 h2, allocd (hp s) sizes (length sizes) h1 /\ R h1 h2 /\ forall l, mem (hp s') l = mem h2 l))
       (fun s' => rolled_back (hp s) (hp s')).
Proof. exact relocator_spec. Qed.
Print Assumptions relocator_commit_or_rollback.

(* MapKeyValueTraits::Replace (pvReplace, MapUtility.h:355-377) -- used by Remove of the hash maps: all-or-nothing whenever the
   key or the value is nothrow anyway-assignable.  The hypothesis is the documented exception (HashMap.h:351-355 item 5). *)
Theorem kv_replace_strong :
  forall ck cv sk sv dk dv kv vv s,
    nothrow ck = true \/ nothrow cv = true -> kvr_pre sk sv dk dv kv vv (hp s) ->
    wp (kv_replace ck cv sk sv dk dv) s
       (fun _ s' => heq (hset (hset (hset (hset (hp s) dk (Live kv)) dv (Live vv)) sk Raw) sv Raw) (hp s'))
       (fun s' => heq (hp s) (hp s')).
Proof. exact kv_replace_spec. Qed.
Print Assumptions kv_replace_strong.

(* ... and in the excepted case (pvReplaceUnsafe, MapUtility.h:379-387) exactly what the documentation says can happen does:
   on an exception either nothing changed or only the removed value was overwritten *)
Theorem kv_replace_unsafe_changes_only_removed_value :
  forall ck cv sk sv dk dv kv vv s,
    nothrow ck = false -> nothrow cv = false -> kvr_pre sk sv dk dv kv vv (hp s) ->
    wp (kv_replace ck cv sk sv dk dv) s
       (fun _ s' => heq (hset (hset (hset (hset (hp s) dv (Live vv)) dk (Live kv)) sk Raw) sv Raw) (hp s'))
       (fun s' => heq (hp s) (hp s') \/ heq (hset (hp s) dv (Live vv)) (hp s')).
Proof. exact kv_replace_unsafe_spec. Qed.
Print Assumptions kv_replace_unsafe_changes_only_removed_value.

(* MapKeyValueTraits::ReplaceRelocate (pvReplaceRelocate, MapUtility.h:389-450) -- used by Extract: same hypothesis *)
Theorem kv_replace_relocate_strong :
  forall ck cv sk sv mk mv dk dv kv vv kw vw s,
    nothrow ck = true \/ nothrow cv = true -> kvrr_pre sk sv mk mv dk dv kv vv kw vw (hp s) ->
    wp (kv_replace_relocate ck cv sk sv mk mv dk dv) s
       (fun _ s' => mem (hp s') dk = Live kw /\ mem (hp s') dv = Live vw /\ mem (hp s') mk = Live kv /\ mem (hp s') mv = Live vv /\
                    mem (hp s') sk = Raw /\ mem (hp s') sv = Raw /\
                    (forall l, ~ In l [sk; sv; mk; mv; dk; dv] -> mem (hp s') l = mem (hp s) l) /\
                    agree (fun _ => False) (hp s) (hp s') /\ same_regs (hp s) (hp s'))
       (fun s' => heq (hp s) (hp s')).
Proof. exact kv_replace_relocate_spec. Qed.
Print Assumptions kv_replace_relocate_strong.

(* Plan well-formedness.  Every plan that passes the (executable) checker plan_check and whose sources lie in the replaced
   node satisfies all hypotheses of relocator_commit_or_rollback; so inserting through it is strongly exception safe and
   puts every item and the new item where the plan says. *)
Theorem checked_plan_is_strong :
  forall c sizes segs nk ni ic node arg v s,
    plan_check sizes segs nk ni ic = true ->
    (forall j, j < segs_count segs -> fst (fst (seg_at segs j)) = node) ->
    wf (hp s) -> alive (hp s) node = true -> ic <= bsize (hp s) node ->
    (forall x, x < ic -> exists w, mem (hp s) (node, x) = Live w) ->
    (forall x, ic <= x -> x < bsize (hp s) node -> mem (hp s) (node, x) = Raw) ->
    valid (hp s) arg = true -> mem (hp s) arg = Live v -> fst arg <> node ->
    wp (run_plan c (sizes, segs, (nk, ni)) arg [node]) s
       (fun _ s' => alive (hp s') node = false /\
                    (forall i, i < length sizes -> alive (hp s') (next (hp s) + i) = true) /\
                    (forall b, b < next (hp s) -> b <> node -> alive (hp s') b = alive (hp s) b) /\
                    (forall j, j < segs_count segs ->
                       mem (hp s') (next (hp s) + fst (snd (seg_at segs j)), snd (snd (seg_at segs j))) = mem (hp s) (fst (seg_at segs j))) /\
                    mem (hp s') (next (hp s) + nk, ni) = Live v)
       (fun s' => rolled_back (hp s) (hp s')).
Proof. exact checked_plan_strong. Qed.
Print Assumptions checked_plan_is_strong.

(* GrowLeafNode (TreeSet.h:413-422) and pvSplitNode + new root (TreeSet.h:462-490, 1303-1314) ALWAYS produce plans that pass
   the checker (all root leaves of TreeNode<4, 2>: every item count, every insert position) ... *)
Theorem grow_plans_are_well_formed :
  forall node ic pos, ic <= 3 -> pos <= ic ->
    match grow_plan node ic pos with (sizes, segs, (nk, ni)) =>
      plan_check sizes segs nk ni ic = true /\ (forall j, j < segs_count segs -> fst (fst (seg_at segs j)) = node) end.
Proof. exact grow_plans_checked. Qed.
Print Assumptions grow_plans_are_well_formed.

Theorem split_root_plans_are_well_formed :
  forall node pos, pos <= 4 ->
    match split_root_plan node 4 pos with (sizes, segs, (nk, ni)) =>
      plan_check sizes segs nk ni 4 = true /\ (forall j, j < segs_count segs -> fst (fst (seg_at segs j)) = node) end.
Proof. exact split_root_plans_checked. Qed.
Print Assumptions split_root_plans_are_well_formed.

(* ... hence a single insertion into a full root leaf (growth or split) is strongly exception safe with no side condition
   on the plan: on an exception every live node, item and data member is as before *)
Theorem tree_grow_insert_strong :
  forall c node ic pos arg v s, ic <= 3 -> pos <= ic -> leaf_pre node ic arg v (hp s) ->
    wp (run_plan c (grow_plan node ic pos) arg [node]) s
       (fun _ s' => alive (hp s') node = false /\ (forall b, b < next (hp s) -> b <> node -> alive (hp s') b = alive (hp s) b))
       (fun s' => rolled_back (hp s) (hp s')).
Proof. exact tree_grow_insert_spec. Qed.
Print Assumptions tree_grow_insert_strong.

Theorem tree_split_insert_strong :
  forall c node pos arg v s, pos <= 4 -> leaf_pre node 4 arg v (hp s) ->
    wp (run_plan c (split_root_plan node 4 pos) arg [node]) s
       (fun _ s' => alive (hp s') node = false /\ (forall b, b < next (hp s) -> b <> node -> alive (hp s') b = alive (hp s) b) /\
                    alive (hp s') (next (hp s)) = true /\ alive (hp s') (S (next (hp s))) = true /\ alive (hp s') (S (S (next (hp s)))) = true)
       (fun s' => rolled_back (hp s) (hp s')).
Proof. exact tree_split_insert_spec. Qed.
Print Assumptions tree_split_insert_strong.

(* BucketLimP4::AddCrt into a block that still has a free slot (details/HashBucketLimP4.h:345-353): the creator runs first,
   the slot is marked occupied (mShortHashes[count]) only afterwards; any all-or-nothing creator *)
Theorem bucket_add_inplace_guard :
  forall creator fp P R s,
    exec_spec (creator (regs (hp s) rItems, regs (hp s) rCount)) fp P R -> P (hp s) ->
    wp (bucket_add_inplace creator) s
       (fun _ s' => regs (hp s') rCount = S (regs (hp s) rCount) /\
                    (forall r, r <> rCount -> regs (hp s') r = regs (hp s) r) /\
                    agree (fun l => ~ fp l) (hp s) (hp s'))
       (fun s' => heq (hp s) (hp s')).
Proof. exact bucket_add_inplace_spec. Qed.
Print Assumptions bucket_add_inplace_guard.

(* ... and the ordering "mark the slot, then run the creator" is refuted: the exception leaves a raw cell marked occupied *)
Theorem bucket_add_inplace_premature_refuted :
  exists s', bucket_add_inplace_premature (creator_copy (0, 0)) (mkS bucket_demo_heap [true] []) = (Exn, s') /\
             regs (hp s') rCount = 2 /\ mem (hp s') (1, 1) = Raw.
Proof. exact bucket_add_inplace_premature_leaves_slot_marked. Qed.
Print Assumptions bucket_add_inplace_premature_refuted.

(* HashMultiMap::RemoveKey(ConstKeyIterator) (HashMultiMap.h:1100-1117): the value array is moved out, the pair is removed from
   the underlying hash map (which may throw and is itself strongly safe: kv_replace_strong, the mapped ValueArray being nothrow
   anyway-assignable); on an exception the catch block moves the array back and everything is exactly as before; on success the
   pair is gone, the values are destroyed and their storage is released. *)
Theorem multimap_removekey_rollback :
  forall (va tmp : loc) (vb n p : nat) (hashmap_remove : M unit) (Pr : heap -> Prop),
    (forall s, Pr (hp s) ->
       wp hashmap_remove s
          (fun _ s' => mem (hp s') va = Raw /\ agree (fun l => l = tmp \/ fst l = vb) (hp s) (hp s') /\ same_regs (hp s) (hp s'))
          (fun s' => heq (hp s) (hp s'))) ->
    forall s,
      valid (hp s) va = true -> valid (hp s) tmp = true -> va <> tmp -> fst va <> vb -> fst tmp <> vb ->
      mem (hp s) va = Live p -> mem (hp s) tmp = Raw ->
      alive (hp s) vb = true -> bsize (hp s) vb = n -> (forall j, j < n -> exists v, mem (hp s) (vb, j) = Live v) ->
      (forall h, heq (hset (hset (hp s) tmp (Live p)) va (Moved p)) h -> Pr h) ->
      wp (multimap_remove_key va tmp vb n hashmap_remove) s
         (fun _ s' => mem (hp s') va = Raw /\ mem (hp s') tmp = Raw /\ alive (hp s') vb = false)
         (fun s' => heq (hp s) (hp s')).
Proof. exact multimap_remove_key_spec. Qed.
Print Assumptions multimap_removekey_rollback.

(* Array::SetCount(count, item) (SetCountCrt, Array.h:663-710), the branch within the capacity: the new items are created in
   place, a failing creation destroys those created so far -> everything as before *)
Theorem array_setcount_inplace_strong :
  forall arg v newCount s,
    arr_inv (hp s) -> regs (hp s) rCount <= newCount -> newCount <= regs (hp s) rCap -> regs (hp s) rCap > 0 ->
    valid (hp s) arg = true -> mem (hp s) arg = Live v -> fst arg <> regs (hp s) rItems ->
    wp (array_setcount_nogrow arg newCount) s
       (fun _ s' => regs (hp s') rCount = newCount /\
                    (forall j, regs (hp s) rCount <= j < newCount -> mem (hp s') (regs (hp s) rItems, j) = Live v) /\
                    (forall l, (forall j, regs (hp s) rCount <= j < newCount -> (regs (hp s) rItems, j) <> l) -> mem (hp s') l = mem (hp s) l))
       (fun s' => unchanged (hp s) (hp s')).
Proof. exact array_setcount_nogrow_spec. Qed.
Print Assumptions array_setcount_inplace_strong.

(* ... and the branch beyond the capacity: Reset with the creator "create the new items in the new block, then relocate the old
   ones; on failure destroy the new items" -- every category, every count, every schedule *)
Theorem array_setcount_grow_strong :
  forall c capacity newCount arg v s,
    wf (hp s) -> arr_inv (hp s) -> regs (hp s) rCount <= newCount -> newCount <= capacity ->
    valid (hp s) arg = true /\ mem (hp s) arg = Live v /\ fst arg <> regs (hp s) rItems ->
    wp (array_setcount_grow c capacity newCount arg) s
       (fun _ s' => regs (hp s') rItems = next (hp s) /\ regs (hp s') rCount = newCount /\ regs (hp s') rCap = capacity /\
                    (regs (hp s) rCap > 0 -> alive (hp s') (regs (hp s) rItems) = false) /\
                    (forall i, i < regs (hp s) rCount -> mem (hp s') (next (hp s), i) = mem (hp s) (regs (hp s) rItems, i)) /\
                    (forall i, regs (hp s) rCount <= i < newCount -> mem (hp s') (next (hp s), i) = Live v))
       (fun s' => same_res (hp s) (hp s')).
Proof. exact array_setcount_grow_spec. Qed.
Print Assumptions array_setcount_grow_strong.

(* The documented strength of the Array / SegmentedArray operations (Array.h:181-186) as a table: `documented` gives
   Strong / Nothrow for everything except Insert/Remove at a position (Basic); `proved o` is the strong-guarantee (or cannot-throw)
   statement of the operation o in the `run op s = (Exn, s') -> ...` form; for Insert/Remove at a position (Basic) it is the
   validity of the array after the exception (array_insert_basic / array_remove_basic below).  No entry is trivial. *)
Theorem array_strength_table : forall o, proved o.
Proof. exact array_strength_table_proved. Qed.
Print Assumptions array_strength_table.

(* HashSet::pvAddGrow (HashSet.h:1146-1185) for a set that has no buckets yet: Buckets::Create allocates the table and the
   BucketParams; if creating them or adding the item to the new table throws, the catch blocks free exactly what was allocated
   (Destroy(memManager, !hasBuckets)) -- for every strongly safe way of adding the item and every schedule *)
Theorem pv_add_grow_first_strong :
  forall (nb newCap : nat) (add_old : M unit) (add_new : nat -> M unit) (Pn : heap -> Prop),
    (forall tb s, Pn (hp s) -> alive (hp s) tb = true -> wp (add_new tb) s (fun _ _ => True) (fun s' => same_res (hp s) (hp s'))) ->
    (forall h h', heq h h' -> Pn h -> Pn h') -> (forall h n, wf h -> Pn h -> Pn (halloc h n)) ->
    forall s, wf (hp s) -> Pn (hp s) ->
      wp (pv_add_grow false nb newCap add_old add_new) s
         (fun _ s' => regs (hp s') rBuckets = S (next (hp s)) /\ regs (hp s') rParams = S (S (next (hp s))) /\ regs (hp s') rHCap = newCap)
         (fun s' => same_res (hp s) (hp s')).
Proof. exact pv_add_grow_first_spec. Qed.
Print Assumptions pv_add_grow_first_strong.

(* ... and the shape Destroy(memManager, false) leaks the BucketParams on the same run where the real shape frees everything *)
Theorem pv_add_grow_params_leak_refuted :
  exists s', pv_add_grow_keep_params false 8 5 (ret tt) (bucket_add0 (0, 0)) grow_demo = (Exn, s') /\
             alive (hp s') 2 = true /\ alive (hp grow_demo) 2 = false.
Proof. exact pv_add_grow_keep_params_leaks. Qed.
Print Assumptions pv_add_grow_params_leak_refuted.

(* ArrayShifter::InsertNogrow(array, index, count, item) (ArrayUtility.h:196-224): documented BASIC.  For every category, index,
   count and schedule: never an undefined step; after an exception the array is valid -- its count lies between the old and the
   new one, every slot below the count holds a constructed (possibly moved-from) object, every slot above is raw. *)
Theorem array_insert_basic :
  forall c arg index count s,
    arr_basic arg (hp s) -> 0 < count -> index <= regs (hp s) rCount -> regs (hp s) rCount + count <= regs (hp s) rCap ->
    wp (array_insert_nogrow c arg index count) s
       (fun _ s' => arr_basic arg (hp s') /\ regs (hp s') rCount = regs (hp s) rCount + count)
       (fun s' => arr_basic arg (hp s') /\ regs (hp s) rCount <= regs (hp s') rCount <= regs (hp s) rCount + count).
Proof. exact array_insert_basic_spec. Qed.
Print Assumptions array_insert_basic.

(* ArrayShifter::Remove(array, index, count) (ArrayUtility.h:276-286): documented BASIC *)
Theorem array_remove_basic :
  forall c arg index count s,
    arr_basic arg (hp s) -> 0 < count -> index + count <= regs (hp s) rCount ->
    wp (array_remove_at c arg index count) s
       (fun _ s' => arr_basic arg (hp s') /\ regs (hp s') rCount = regs (hp s) rCount - count)
       (fun s' => arr_basic arg (hp s') /\ regs (hp s') rCount = regs (hp s) rCount).
Proof. exact array_remove_basic_spec. Qed.
Print Assumptions array_remove_basic.

(* HashSet::pvAddGrow for a set that already has buckets (shared BucketParams): a failing table allocation falls back to the
   old table (overloadIfCannotGrow), a failing add to the new table destroys the new table only; strong for every schedule *)
Theorem pv_add_grow_more_strong :
  forall (nb newCap : nat) (add_old : M unit) (add_new : nat -> M unit) (Pn : heap -> Prop),
    (forall s, Pn (hp s) -> wp add_old s (fun _ _ => True) (fun s' => same_res (hp s) (hp s'))) ->
    (forall tb s, Pn (hp s) -> alive (hp s) tb = true -> wp (add_new tb) s (fun _ _ => True) (fun s' => same_res (hp s) (hp s'))) ->
    (forall h h', heq h h' -> Pn h -> Pn h') -> (forall h n, wf h -> Pn h -> Pn (halloc h n)) ->
    forall s, wf (hp s) -> Pn (hp s) ->
      wp (pv_add_grow true nb newCap add_old add_new) s (fun _ _ => True) (fun s' => same_res (hp s) (hp s')).
Proof. exact pv_add_grow_more_spec. Qed.
Print Assumptions pv_add_grow_more_strong.

(* pvRelocateItems (HashSet.h:1257-1308), the lazy migration after a growth, wrapped in try/catch "no throw!": for every list
   of migration steps that are individually all-or-nothing, every observable `obs` preserved by a completed step and insensitive
   to what a failed step leaves (same_res), the call never throws and obs is the same afterwards -- wherever it was interrupted *)
Theorem relocate_items_swallow :
  forall (X : Type) (obs : heap -> X) (Inv : heap -> Prop),
    (forall h h', same_res h h' -> obs h' = obs h) -> (forall h h', same_res h h' -> Inv h -> Inv h') ->
    forall steps s, Forall (step_ok X obs Inv) steps -> Inv (hp s) ->
      wp (relocate_items steps) s (fun _ s' => obs (hp s') = obs (hp s) /\ Inv (hp s')) (fun _ => False).
Proof. exact relocate_items_spec. Qed.
Print Assumptions relocate_items_swallow.

(* (review round: open_bucket_add_guard / open_bucket_add_premature_refuted removed -- `open_bucket_add` is an alias of `bucket_add_inplace`, the two
   theorems were duplicates of bucket_add_inplace_guard / bucket_add_inplace_premature_refuted; the alias is used by gen_openn1_refines_open_bucket_add) *)

(* ---- theorems about cxx2coq-GENERATED code (regenerated from /repo's headers on every run) ---------------------------------------
   BucketOpenN1<maxCount, reverse>::AddCrt (details/HashBucketOpenN1.h:122-135; BucketOpen8 is BucketOpenN1<7, true>): whenever the
   item creator throws -- the generated function then returns (false, bytes) -- every byte of the bucket is as before.  For every
   maxCount, both orientations, every byte state, every hash code.  (Seeded change C01/b moves the short-hash store before the
   creator: then the generated definition returns the UPDATED bytes and this theorem no longer holds.) *)
Theorem gen_openn1_addcrt_exn_unchanged :
  forall reverse maxCount mData fails hashCode newItem m',
    Gen_OpenN1_exn.AddCrt reverse maxCount mData fails hashCode newItem = GenPrelude.Ok (false, m') -> fails = true /\ m' = mData.
Proof. exact OpenExn.n1_addcrt_incomplete. Qed.
Print Assumptions gen_openn1_addcrt_exn_unchanged.

(* non-vacuity: with room in the bucket a throwing creator really yields (false, same bytes), a non-throwing one completes *)
Theorem gen_openn1_addcrt_throwing :
  forall reverse maxCount mData hashCode newItem,
    (Gen_OpenN1_exn.pvGetCount reverse maxCount mData < maxCount)%Z ->
    Gen_OpenN1_exn.AddCrt reverse maxCount mData true hashCode newItem = GenPrelude.Ok (false, mData).
Proof. exact OpenExn.n1_addcrt_throwing. Qed.
Print Assumptions gen_openn1_addcrt_throwing.

Theorem gen_openn1_addcrt_completes :
  forall reverse maxCount mData hashCode newItem,
    (Gen_OpenN1_exn.pvGetCount reverse maxCount mData < maxCount)%Z ->
    exists m', Gen_OpenN1_exn.AddCrt reverse maxCount mData false hashCode newItem = GenPrelude.Ok (true, m').
Proof. exact OpenExn.n1_addcrt_completes. Qed.
Print Assumptions gen_openn1_addcrt_completes.

(* BucketOpenN1::Remove (HashBucketOpenN1.h:136-151): the item replacer runs before any byte is written *)
Theorem gen_openn1_remove_exn_unchanged :
  forall reverse maxCount mData fails index m',
    Gen_OpenN1_exn.Remove reverse maxCount mData fails index = GenPrelude.Ok (false, m') -> fails = true /\ m' = mData.
Proof. exact OpenExn.n1_remove_incomplete. Qed.
Print Assumptions gen_openn1_remove_exn_unchanged.

(* BucketOpen2N2<3, true>::AddCrt / ::Remove (HashBucketOpen2N2.h:144-180): state bytes, short hashes and hash probes *)
Theorem gen_open2n2_addcrt_exn_unchanged :
  forall st sh hp fails hashCode logBucketCount probe newItem st' sh' hp',
    Gen_Open2N2_exn.AddCrt st sh hp fails hashCode logBucketCount probe newItem = GenPrelude.Ok (false, st', sh', hp') ->
    fails = true /\ st' = st /\ sh' = sh /\ hp' = hp.
Proof. exact OpenExn.o2_addcrt_incomplete. Qed.
Print Assumptions gen_open2n2_addcrt_exn_unchanged.

Theorem gen_open2n2_remove_exn_unchanged :
  forall st sh hp fails index st' sh' hp',
    Gen_Open2N2_exn.Remove st sh hp fails index = GenPrelude.Ok (false, st', sh', hp') -> fails = true /\ st' = st /\ sh' = sh /\ hp' = hp.
Proof. exact OpenExn.o2_remove_incomplete. Qed.
Print Assumptions gen_open2n2_remove_exn_unchanged.

Theorem gen_open2n2_addcrt_throwing :
  forall st sh hp hashCode logBucketCount probe newItem,
    (Gen_Open2N2_exn.pvGetCount st sh hp < Gen_Open2N2_exn.maxCount)%Z ->
    Gen_Open2N2_exn.AddCrt st sh hp true hashCode logBucketCount probe newItem = GenPrelude.Ok (false, st, sh, hp).
Proof. exact OpenExn.o2_addcrt_throwing. Qed.
Print Assumptions gen_open2n2_addcrt_throwing.

(* ---- grow round 2 ---------------------------------------------------------------------------------------------------------------
   (1) refinement: the GENERATED BucketOpenN1<mc, rv>::AddCrt (count byte arithmetic) against the hand model's rCount register.  One step
   of the generated code and one step of Ctor.open_bucket_add on corresponding states: same outcome (completed <-> Ok, not completed <->
   Exn), the count decoded from the bytes equals rCount afterwards, and on failure NEITHER side changed (bytes identical, heap identical) --
   this is what connects the `fails` theorems above to the container-level strong-guarantee theorems. *)
Theorem gen_openn1_addcrt_count :
  forall (rv : bool) (mc : Z), (1 <= mc <= 7)%Z -> forall (d : Z -> Z) (hc ni : Z),
    OpenRefine.good rv mc d -> (0 <= OpenRefine.cnt rv mc d < mc)%Z -> (0 <= hc < 2 ^ 64)%Z ->
    exists d', Gen_OpenN1_exn.AddCrt rv mc d false hc ni = GenPrelude.Ok (true, d') /\ OpenRefine.good rv mc d' /\
               OpenRefine.cnt rv mc d' = (OpenRefine.cnt rv mc d + 1)%Z.
Proof. exact OpenRefine.gen_add_count. Qed.
Print Assumptions gen_openn1_addcrt_count.

Theorem gen_openn1_refines_open_bucket_add :
  forall rv mc d hc ni arg v f r s,
    (1 <= mc <= 7)%Z -> OpenRefine.good rv mc d -> (0 <= OpenRefine.cnt rv mc d < mc)%Z -> (0 <= hc < 2 ^ 64)%Z ->
    Z.of_nat (regs (hp s) rCount) = OpenRefine.cnt rv mc d -> valid (hp s) arg = true ->
    valid (hp s) (regs (hp s) rItems, regs (hp s) rCount) = true ->
    mem (hp s) arg = Live v -> mem (hp s) (regs (hp s) rItems, regs (hp s) rCount) = Raw -> sched s = f :: r ->
    exists d' s', Gen_OpenN1_exn.AddCrt rv mc d f hc ni = GenPrelude.Ok (negb f, d') /\
      open_bucket_add (creator_copy arg) s = ((if f then Exn else Effects.Ok tt), s') /\
      Z.of_nat (regs (hp s') rCount) = OpenRefine.cnt rv mc d' /\ (f = true -> d' = d /\ hp s' = hp s).
Proof. exact OpenRefine.open_bucket_refinement. Qed.
Print Assumptions gen_openn1_refines_open_bucket_add.

(* (2) GENERATED BucketLimP4<.., 4, .., useHashCodePartGetter>::pvAdd0 / pvAdd / AddCrt (HashBucketLimP4.h:309-356, 472-495).  Failure flags:
   the BucketMemory constructor (pool allocation, bad_alloc), the item creator, ItemTraits::RelocateCreate.  pvAdd0 / pvAdd publish last. *)
Theorem gen_limp4_pvadd0_exn_unchanged :
  forall sh p st cf hc mf mem items sh' p' st',
    Gen_LimP4_exn.pvAdd0_min sh p st cf hc mf mem items = GenPrelude.Ok (false, sh', p', st') ->
    (mf = true \/ cf = true) /\ sh' = sh /\ p' = p /\ st' = st.
Proof. exact LimP4Exn.pvAdd0_min_incomplete. Qed.
Print Assumptions gen_limp4_pvadd0_exn_unchanged.

Theorem gen_limp4_pvadd0max_exn_unchanged :
  forall sh p st cf hc mf mem items sh' p' st',
    Gen_LimP4_exn.pvAdd0_max sh p st cf hc mf mem items = GenPrelude.Ok (false, sh', p', st') ->
    (mf = true \/ cf = true) /\ sh' = sh /\ p' = p /\ st' = st.
Proof. exact LimP4Exn.pvAdd0_max_incomplete. Qed.
Print Assumptions gen_limp4_pvadd0max_exn_unchanged.

Theorem gen_limp4_pvadd1_exn_unchanged :
  forall sh p st hc items mf rf mem newItems sh' p' st',
    Gen_LimP4_exn.pvAdd_1 sh p st hc items mf rf mem newItems = GenPrelude.Ok (false, sh', p', st') ->
    (mf = true \/ rf = true) /\ sh' = sh /\ p' = p /\ st' = st.
Proof. exact LimP4Exn.pvAdd_1_incomplete. Qed.
Print Assumptions gen_limp4_pvadd1_exn_unchanged.

Theorem gen_limp4_pvadd2_exn_unchanged :
  forall sh p st hc items mf rf mem newItems sh' p' st',
    Gen_LimP4_exn.pvAdd_2 sh p st hc items mf rf mem newItems = GenPrelude.Ok (false, sh', p', st') ->
    (mf = true \/ rf = true) /\ sh' = sh /\ p' = p /\ st' = st.
Proof. exact LimP4Exn.pvAdd_2_incomplete. Qed.
Print Assumptions gen_limp4_pvadd2_exn_unchanged.

Theorem gen_limp4_pvadd3_exn_unchanged :
  forall sh p st hc items mf rf mem newItems sh' p' st',
    Gen_LimP4_exn.pvAdd_3 sh p st hc items mf rf mem newItems = GenPrelude.Ok (false, sh', p', st') ->
    (mf = true \/ rf = true) /\ sh' = sh /\ p' = p /\ st' = st.
Proof. exact LimP4Exn.pvAdd_3_incomplete. Qed.
Print Assumptions gen_limp4_pvadd3_exn_unchanged.

(* the dispatcher AddCrt writes the hash-PROBE byte of the slot being filled before the throwing step: the pointer state is unchanged, any
   byte that differs lies strictly above the fill index and holds an `empty` marker (>= 128), and one of the failure flags is set *)
Theorem gen_limp4_addcrt_exn :
  forall hashCount minMemPoolIndex : Z, (4 <= hashCount <= 8)%Z ->
  forall sh p st cf hc lbc pr mf0 m0 i0 mfx mx ix mf3 rf3 m3 n3 mf2 rf2 m2 n2 mf1 rf1 m1 n1 sh' p' st',
    Gen_LimP4_exn.AddCrt hashCount minMemPoolIndex sh p st cf hc lbc pr mf0 m0 i0 mfx mx ix mf3 rf3 m3 n3 mf2 rf2 m2 n2 mf1 rf1 m1 n1
      = GenPrelude.Ok (false, sh', p', st') ->
    p' = p /\ st' = st /\ LimP4Exn.differs_above sh sh' (LimP4Exn.fill_index sh p st) /\
    (cf = true \/ mf0 = true \/ mfx = true \/ mf1 = true \/ rf1 = true \/ mf2 = true \/ rf2 = true \/ mf3 = true \/ rf3 = true).
Proof. exact LimP4Exn.AddCrt_incomplete. Qed.
Print Assumptions gen_limp4_addcrt_exn.

(* hence, for a well-formed bucket (empty markers at and above the count): count, short hashes of the occupied slots and pointer state are
   as before, and the bucket is still well-formed *)
Theorem gen_limp4_addcrt_failure_keeps_bucket :
  forall hashCount minMemPoolIndex : Z, (4 <= hashCount <= 8)%Z ->
  forall sh p st cf hc lbc pr mf0 m0 i0 mfx mx ix mf3 rf3 m3 n3 mf2 rf2 m2 n2 mf1 rf1 m1 n1 sh' p' st',
    LimP4Exn.bucket_wf sh p st ->
    Gen_LimP4_exn.AddCrt hashCount minMemPoolIndex sh p st cf hc lbc pr mf0 m0 i0 mfx mx ix mf3 rf3 m3 n3 mf2 rf2 m2 n2 mf1 rf1 m1 n1
      = GenPrelude.Ok (false, sh', p', st') ->
    p' = p /\ st' = st /\ Gen_LimP4_exn.pvGetCount sh' p' st' = Gen_LimP4_exn.pvGetCount sh p st /\
    (forall i, (i < Gen_LimP4_exn.pvGetCount sh p st)%Z -> sh' i = sh i) /\ LimP4Exn.bucket_wf sh' p' st'.
Proof. exact LimP4Exn.AddCrt_failure_keeps_bucket. Qed.
Print Assumptions gen_limp4_addcrt_failure_keeps_bucket.

(* non-vacuity: an allocation failure on the empty bucket is reached and returns the bucket unchanged; without failures the add completes *)
Theorem gen_limp4_addcrt_alloc_failure_reached :
  forall cf,
  match Gen_LimP4_exn.AddCrt 6 2 (fun _ => 255%Z) 0 1 cf 12345 3 0 true 0 0 true 0 0 false false 0 0 false false 0 0 false false 0 0 with
  | GenPrelude.Ok (false, sh', 0%Z, 1%Z) => sh' 0%Z = 255%Z /\ sh' 1%Z = 255%Z | _ => False end.
Proof. exact LimP4Exn.AddCrt_alloc_failure_reached. Qed.
Print Assumptions gen_limp4_addcrt_alloc_failure_reached.

Theorem gen_limp4_addcrt_completes_reached :
  match Gen_LimP4_exn.AddCrt 6 2 (fun _ => 255%Z) 0 1 false 12345 3 0 false 4096 4096 false 0 0 false false 0 0 false false 0 0 false false 0 0 with
  | GenPrelude.Ok (true, sh', p', st') => Gen_LimP4_exn.pvGetCount sh' p' st' = 1%Z /\ p' = 4096%Z | _ => False end.
Proof. exact LimP4Exn.AddCrt_completes_reached. Qed.
Print Assumptions gen_limp4_addcrt_completes_reached.

(* (3) GENERATED Array<.., ArraySettings<N>>::Data::pvReset / Reset (Array.h:316-343, 462-483): mCapacity and the internal buffer share a union
   (one field, "union_fields"); the creator's writes make that word arbitrary (`clob`), the translated catch handler restores it *)
Theorem gen_array_pvreset_exn_restores_capacity :
  forall items cnt cap count cf ia clob a items' cnt' cap',
    Gen_ArrReset_exn.pvReset items cnt cap count cf ia clob a = GenPrelude.Ok (false, items', cnt', cap') ->
    cf = true /\ items' = items /\ cnt' = cnt /\ cap' = cap.
Proof. exact ArrResetExn.pvReset_incomplete. Qed.
Print Assumptions gen_array_pvreset_exn_restores_capacity.

Theorem gen_array_reset_exn_unchanged :
  forall ic items cnt cap capacity count cf af newItems ia clob a items' cnt' cap',
    Gen_ArrReset_exn.Reset ic items cnt cap capacity count cf af newItems ia clob a = GenPrelude.Ok (false, items', cnt', cap') ->
    (cf = true \/ af = true) /\ items' = items /\ cnt' = cnt /\ cap' = cap.
Proof. exact ArrResetExn.Reset_incomplete. Qed.
Print Assumptions gen_array_reset_exn_unchanged.

(* non-vacuity: with a completing creator the union word IS the clobber value (so the handler's assignment is what the first theorem rests on),
   and the throwing case is reached *)
Theorem gen_array_pvreset_completes_clobbered :
  forall items cnt cap count ia clob a, items <> ia ->
    Gen_ArrReset_exn.pvReset items cnt cap count false ia clob a = GenPrelude.Ok (true, a, count, clob).
Proof. exact ArrResetExn.pvReset_completes. Qed.
Print Assumptions gen_array_pvreset_completes_clobbered.

Theorem gen_array_pvreset_throwing :
  forall items cnt cap count ia clob a, items <> ia ->
    Gen_ArrReset_exn.pvReset items cnt cap count true ia clob a = GenPrelude.Ok (false, items, cnt, cap).
Proof. exact ArrResetExn.pvReset_throwing. Qed.
Print Assumptions gen_array_pvreset_throwing.

(* ---- reverted-fix round: theorems stated AT facts / definitions regenerated from the current headers --------------------------------
   806b9fe (HashSet / TreeSet copy and initializer-list constructors), 91ea186 (DataTable::pvFill): the constructor delegates (so the
   destructor runs after its catch block) and the catch block resets the object after destroying; the model flag is computed from the
   generated statement list, and the resource-machine constructor run on EVERY failure schedule of a 3-item source never double-destroys
   (Stuck), leaks nothing and leaves the source alone.  The same model with the pre-fix catch block is refuted. *)
Theorem hashset_copy_ctors_at_current_headers_bounded :
  Gen_C04Facts.hashset_copy_delegates = true /\ Gen_C04Facts.hashset_ilist_delegates = true /\
  FactsTie.ctor_all_ok (FactsTie.catch_resets FactsTie.n_pvDestroy Gen_C04Facts.hashset_copy_catch) = true /\
  FactsTie.ctor_all_ok (FactsTie.catch_resets FactsTie.n_pvDestroy Gen_C04Facts.hashset_ilist_catch) = true.
Proof. exact FactsTie.hashset_ctors_at_generated. Qed.
Print Assumptions hashset_copy_ctors_at_current_headers_bounded.

Theorem treeset_copy_ctors_at_current_headers_bounded :
  Gen_C04Facts.treeset_copy_delegates = true /\ Gen_C04Facts.treeset_ilist_delegates = true /\
  FactsTie.ctor_all_ok (FactsTie.catch_resets FactsTie.n_pvDestroy Gen_C04Facts.treeset_copy_catch) = true /\
  FactsTie.ctor_all_ok (FactsTie.catch_resets FactsTie.n_pvDestroy Gen_C04Facts.treeset_ilist_catch) = true.
Proof. exact FactsTie.treeset_ctors_at_generated. Qed.
Print Assumptions treeset_copy_ctors_at_current_headers_bounded.

Theorem datatable_fill_at_current_headers_bounded :
  FactsTie.ctor_all_ok (FactsTie.catch_resets FactsTie.n_pvDestroyRaws Gen_C04Facts.datatable_fill_catch) = true.
Proof. exact FactsTie.datatable_fill_at_generated. Qed.
Print Assumptions datatable_fill_at_current_headers_bounded.

Theorem delegating_ctor_without_reset_refuted : FactsTie.ctor_all_ok false = false.
Proof. exact FactsTie.ctor_all_ok_prefix_refuted. Qed.
Print Assumptions delegating_ctor_without_reset_refuted.

(* 84c9298: one row of HashMultiMap's copy constructor -- temporary ValueArray, Insert in a try block, handler = valueArray.Clear(); throw *)
Theorem multimap_copy_row_at_current_headers_bounded :
  Gen_C04Facts.multimap_copy_row = FactsTie.multimap_row_expected /\
  Gen_C04Facts.multimap_copy_try = FactsTie.multimap_try_expected /\
  FactsTie.row_all_ok (FactsTie.catch_clears FactsTie.n_valueArray Gen_C04Facts.multimap_copy_catch) = true.
Proof. exact FactsTie.multimap_row_at_generated. Qed.
Print Assumptions multimap_copy_row_at_current_headers_bounded.

Theorem multimap_copy_row_without_clear_refuted : FactsTie.row_all_ok false = false.
Proof. exact FactsTie.row_all_ok_not_clearing_refuted. Qed.
Print Assumptions multimap_copy_row_without_clear_refuted.

(* b307610: GENERATED pvExtraCheck (configuration after props/C10): a functor throwing inside the debug-only check makes it answer true, hence a
   committed operation followed by MOMO_EXTRA_CHECK is the operation itself (no abort = no Stuck); answering false would abort *)
Theorem hash_extra_check_never_aborts_committed_op :
  forall A (m : M A) pos_eqb deref find_ key_ pos s,
    XCheck.with_extra_check m (Gen_XCheckH.pvExtraCheck true pos_eqb deref find_ key_ pos) s = m s.
Proof. exact XCheck.hash_checked_op_is_op. Qed.
Print Assumptions hash_extra_check_never_aborts_committed_op.

Theorem tree_extra_check_never_aborts_committed_op :
  forall A (m : M A) it_neqb it_begin it_end it_prev it_next is_ordered_ iter s,
    XCheck.with_extra_check m (Gen_XCheckT.pvExtraCheck true it_neqb it_begin it_end it_prev it_next is_ordered_ iter) s = m s.
Proof. exact XCheck.tree_checked_op_is_op. Qed.
Print Assumptions tree_extra_check_never_aborts_committed_op.

Theorem extra_check_false_would_abort :
  forall A (m : M A) s a s', m s = (Effects.Ok a, s') -> XCheck.with_extra_check m false s = (Effects.Stuck, s').
Proof. exact XCheck.with_extra_check_false_aborts. Qed.
Print Assumptions extra_check_false_would_abort.

Theorem hash_extra_check_is_the_comparison :
  forall pos_eqb deref find_ key_ pos,
    Gen_XCheckH.pvExtraCheck false pos_eqb deref find_ key_ pos = pos_eqb pos (find_ (key_ (deref pos))).
Proof. exact XCheck.hash_xcheck_not_vacuous. Qed.
Print Assumptions hash_extra_check_is_the_comparison.

(* ---- review round: instances and witnesses for assumed hypotheses ------------------------------------------------------------------
   intcap_creator_ok (hypothesis of array_reset_intcap_strong) holds for the creator Array::Shrink really passes (relocate `count` items from the
   external block into the internal buffer), every category, every schedule; hence the internal-capacity reset is strong without an abstract
   creator hypothesis *)
Theorem intcap_creator_ok_relocate_instance :
  forall c count ib h0,
    regs h0 rItems <> ib ->
    (forall j, j < count -> valid h0 (regs h0 rItems, j) = true /\ valid h0 (ib, j) = true /\
                            (exists v, mem h0 (regs h0 rItems, j) = Live v) /\ mem h0 (ib, j) = Raw) ->
    (forall i, count <= i -> mem h0 (regs h0 rItems, i) = Raw) ->
    intcap_creator_ok (creator_relocate c count) ib h0.
Proof. exact NonVacuity.intcap_creator_relocate_ok. Qed.
Print Assumptions intcap_creator_ok_relocate_instance.

Theorem array_reset_intcap_relocate_strong :
  forall c count ib junk s,
    regs (hp s) rItems <> ib -> alive (hp s) (regs (hp s) rItems) = true ->
    (forall j, j < count -> valid (hp s) (regs (hp s) rItems, j) = true /\ valid (hp s) (ib, j) = true /\
                            (exists v, mem (hp s) (regs (hp s) rItems, j) = Live v) /\ mem (hp s) (ib, j) = Raw) ->
    (forall i, count <= i -> mem (hp s) (regs (hp s) rItems, i) = Raw) ->
    wp (pv_reset_intcap ib count junk (creator_relocate c count)) s
       (fun _ s' => regs (hp s') rItems = ib /\ regs (hp s') rCount = count /\ alive (hp s') (regs (hp s) rItems) = false)
       (fun s' => unchanged (hp s) (hp s')).
Proof. exact NonVacuity.pv_reset_intcap_relocate_strong. Qed.
Print Assumptions array_reset_intcap_relocate_strong.

(* the preconditions of the shifter / tree-plan / pair-replace theorems are satisfiable (one concrete heap) *)
Theorem arr_basic_satisfiable : Shifter.arr_basic (2, 0) NonVacuity.wit_heap.
Proof. exact NonVacuity.arr_basic_witness. Qed.
Print Assumptions arr_basic_satisfiable.
Theorem leaf_pre_satisfiable : PlanWf.leaf_pre 0 2 (2, 0) 7 NonVacuity.wit_heap.
Proof. exact NonVacuity.leaf_pre_witness. Qed.
Print Assumptions leaf_pre_satisfiable.
Theorem kvr_pre_satisfiable : Replace.kvr_pre (0, 0) (0, 1) (2, 0) (2, 1) 10 11 NonVacuity.wit_heap.
Proof. exact NonVacuity.kvr_pre_witness. Qed.
Print Assumptions kvr_pre_satisfiable.
Theorem kvrr_pre_satisfiable : Replace.kvrr_pre (0, 0) (0, 1) (2, 0) (2, 1) (1, 0) (1, 1) 10 11 7 8 NonVacuity.wit_heap.
Proof. exact NonVacuity.kvrr_pre_witness. Qed.
Print Assumptions kvrr_pre_satisfiable.
(* step_ok (hypothesis of relocate_items_swallow) for the REAL migration step: relocate the item of a (source slot, destination slot) pair with
   ObjectManager's single-object relocation (relocate1: move-construct -- for a copy-only element a copy that may throw -- then destroy the source),
   for every element category, every plan over pairwise distinct cells, every schedule; observable = the item of every pair, invariant = exactly
   one slot of every pair holds it *)
Theorem migrate_step_is_step_ok :
  forall (c : cat) (prs : list (loc * loc)) (p : loc * loc),
    MigrateStep.pairs_disjoint prs -> In p prs ->
    HashGrow.step_ok (list (option nat)) (MigrateStep.mig_obs prs) (MigrateStep.mig_inv prs) (MigrateStep.migrate_step c p).
Proof. exact MigrateStep.migrate_step_ok. Qed.
Print Assumptions migrate_step_is_step_ok.

(* relocate_items_swallow instantiated: a whole lazy migration never throws and the items visible through old + new table are unchanged *)
Theorem relocate_items_real_migration :
  forall (c : cat) (prs : list (loc * loc)) s,
    MigrateStep.pairs_disjoint prs -> MigrateStep.mig_inv prs (hp s) ->
    wp (relocate_items (map (MigrateStep.migrate_step c) prs)) s
       (fun _ s' => MigrateStep.mig_obs prs (hp s') = MigrateStep.mig_obs prs (hp s) /\ MigrateStep.mig_inv prs (hp s')) (fun _ => False).
Proof. exact MigrateStep.relocate_items_migration. Qed.
Print Assumptions relocate_items_real_migration.

(* the hypotheses are satisfiable and the observable is not trivial; a copy-only migration interrupted by a throwing copy stops without an exception *)
Theorem migration_plan_witness :
  MigrateStep.pairs_disjoint MigrateStep.mig_plan /\ MigrateStep.mig_inv MigrateStep.mig_plan MigrateStep.mig_heap /\
  MigrateStep.mig_obs MigrateStep.mig_plan MigrateStep.mig_heap = [Some 10; Some 11].
Proof. exact MigrateStep.mig_plan_witness. Qed.
Print Assumptions migration_plan_witness.

Theorem migration_interrupted_by_throwing_copy :
  exists s', relocate_items (map (MigrateStep.migrate_step CPY) MigrateStep.mig_plan) (mkS MigrateStep.mig_heap [false; true] []) = (Effects.Ok tt, s') /\
             mem (hp s') (0, 0) = Raw /\ mem (hp s') (1, 1) = Live 10 /\ mem (hp s') (0, 1) = Live 11 /\ mem (hp s') (1, 0) = Raw /\
             MigrateStep.mig_obs MigrateStep.mig_plan (hp s') = [Some 10; Some 11].
Proof. exact MigrateStep.mig_plan_interrupted_run. Qed.
Print Assumptions migration_interrupted_by_throwing_copy.

(* ---- ObjectManager::pvRelocateExec (not nothrow relocatable) at AST facts of the current headers (mutant M3): statement order of body / try block /
   copy loop pinned; the handler read off the headers -- Destroy(memManager, dstBegin, index); throw; -- is interpreted into the hand model and the
   GENERAL strong-guarantee theorem (every count, executor, category, schedule; same statement as relocate_exec_strong) is stated for that handler *)
Theorem relocate_exec_strong_at_current_headers :
  Gen_C04Facts.relocexec_body = RelocFacts.body_expected /\ Gen_C04Facts.relocexec_try = RelocFacts.try_expected /\
  Gen_C04Facts.relocexec_loop = RelocFacts.loop_expected /\
  forall (src dst : nat -> loc) (n : nat) (exec : M unit) (fp : loc -> Prop) (P : heap -> Prop) (R : heap -> heap -> Prop),
    exec_spec exec fp P R -> (forall j, j < n -> ~ fp (src j) /\ ~ fp (dst j)) ->
    forall c s, range_pre src dst n (hp s) -> P (hp s) ->
      wp (RelocFacts.relocate_exec_at (RelocFacts.handler_of Gen_C04Facts.relocexec_catch) c src dst n exec) s
         (fun _ s' => moved_range src dst n fp (hp s) (hp s') /\ R (hp s) (hp s'))
         (fun s' => unchanged (hp s) (hp s')).
Proof. exact RelocFacts.relocate_exec_at_generated. Qed.
Print Assumptions relocate_exec_strong_at_current_headers.

Theorem relocate_exec_handler_is_the_models :
  forall c src dst n e, RelocFacts.relocate_exec_at RelocFacts.HDestroyCopied c src dst n e = relocate_exec c src dst n e.
Proof. exact RelocFacts.relocate_exec_at_destroy. Qed.
Print Assumptions relocate_exec_handler_is_the_models.

Theorem relocate_exec_rethrow_only_handler_refuted :
  exists s', RelocFacts.relocate_exec_at RelocFacts.HRethrowOnly CPY (fun j => (0, j)) (fun j => (1, j)) 2 (ret tt) (mkS RelocFacts.rx_heap [false; true] []) = (Exn, s') /\
             mem (hp s') (1, 0) = Live 10.
Proof. exact RelocFacts.relocate_exec_rethrow_only_refuted. Qed.
Print Assumptions relocate_exec_rethrow_only_handler_refuted.

(* ---- final round: the whole pvRelocateExec(.., false_type) INTERPRETED from the AST facts (loop shape -> copy_from, order of loop and executor call in
   the try block, handler, presence of the final Destroy); relocate_exec_interp = that interpretation (the nothrow overload stays the hand model's).
   General strong guarantee (every count, executor, category, schedule) for the interpreted function: *)
Theorem relocate_exec_interpreted_strong :
  forall (src dst : nat -> loc) (n : nat) (exec : M unit) (fp : loc -> Prop) (P : heap -> Prop) (R : heap -> heap -> Prop),
    exec_spec exec fp P R -> (forall j, j < n -> ~ fp (src j) /\ ~ fp (dst j)) ->
    forall c s, range_pre src dst n (hp s) -> P (hp s) ->
      wp (RelocFacts.relocate_exec_interp c src dst n exec) s
         (fun _ s' => moved_range src dst n fp (hp s) (hp s') /\ R (hp s) (hp s'))
         (fun s' => unchanged (hp s) (hp s')).
Proof. exact RelocFacts.relocate_exec_interp_strong. Qed.
Print Assumptions relocate_exec_interpreted_strong.

(* refinement: at the current headers the interpretation IS the hand model (which the micro-correspondence ties to the real function) *)
Theorem relocate_exec_interpretation_is_the_model :
  forall c src dst n e, RelocFacts.relocate_exec_interp c src dst n e = relocate_exec c src dst n e.
Proof. exact RelocFacts.interp_at_current_headers. Qed.
Print Assumptions relocate_exec_interpretation_is_the_model.

(* other interpretable shapes are refuted: executor call before the copy loop (what it created survives a failing copy), no final Destroy (sources stay) *)
Theorem relocate_exec_executor_first_refuted :
  exists s', RelocFacts.interp_relocexec (fun j => (0, j)) (fun j => (1, j)) 2 (b <- alloc 1 ;; ret tt) RelocFacts.body_expected RelocFacts.try_exec_first
               RelocFacts.loop_expected Gen_C04Facts.relocexec_catch (mkS RelocFacts.rx_heap [false; false; true] []) = (Exn, s') /\
             alive (hp s') 2 = true.
Proof. exact RelocFacts.interp_exec_first_refuted. Qed.
Print Assumptions relocate_exec_executor_first_refuted.
