(* Property C07 -- theorems only. *)
From Coq Require Import List ZArith Permutation.
From C07 Require Import TableSpec TableProofs.
Import ListNotations.

(* For EVERY history of table operations starting from the empty table (adds, inserts, whole-row and
   single-column updates, all removals, extract, assign, clear, copies, index creation/removal), every
   unique index that exists has pairwise different keys: DataTable never holds two rows equal on the
   columns of a unique index. *)
Theorem C07_unique_never_violated :
  forall ops : list op,
    Forall (fun cols => NoDup (map (proj cols) (rows (run empty_table ops)))) (uniq (run empty_table ops)).
Proof. exact unique_never_violated. Qed.
Print Assumptions C07_unique_never_violated.

(* An operation that is refused (unique conflict, repeated key on index creation, or violated
   precondition) leaves the table exactly as it was. *)
Theorem C07_refused_op_is_identity :
  forall t o, refused (snd (step t o)) -> fst (step t o) = t.
Proof. exact refused_op_is_identity. Qed.
Print Assumptions C07_refused_op_is_identity.

(* The row reported by a refusal is a row of the table, different from the one being replaced, that is
   equal to the offered row on the columns of the reported unique index; the reported index is the
   first one (creation order) on which any row collides. *)
Theorem C07_conflict_row_is_witness :
  forall t o t' n j, step t o = (t', RConflict n j) ->
  exists r skip cols r',
    op_row t o = Some (r, skip) /\ nth_error (uniq t) j = Some cols /\ nth_error (rows t) n = Some r' /\
    proj cols r' = proj cols r /\ skip <> Some n /\
    (forall j' cols', j' < j -> nth_error (uniq t) j' = Some cols' ->
       find_key cols' (proj cols' r) (rows t) 0 skip = None).
Proof. exact conflict_row_is_witness. Qed.
Print Assumptions C07_conflict_row_is_witness.

(* ... and an operation is accepted only if no other row collides on any unique index (no missed conflict). *)
Theorem C07_accepted_means_no_collision :
  forall t r skip rs' t', try_put t r skip rs' = (t', ROk) ->
  forall cols n r', In cols (uniq t) -> nth_error (rows t) n = Some r' -> skip <> Some n -> proj cols r' <> proj cols r.
Proof. exact accepted_means_no_collision. Qed.
Print Assumptions C07_accepted_means_no_collision.
