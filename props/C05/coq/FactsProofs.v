(* C05 -- the statement ORDER of Array::Insert(index, count, item) is read off the clang AST (Gen_ArrayFacts.v, regenerated on every run)
   and INTERPRETED: the copy branch of Insert is executed from the generated statement list, with the semantics that matters for
   aliasing -- after pvGrow a reference to an element of the old buffer is dangling (reading it yields poison / is an error).
   So "the ArrayItemHandler temporary is constructed BEFORE pvGrow is called" is part of what is proved, not of a hand-written glue. *)
From Coq Require Import List String ZArith Bool Lia.
From MomoCommon Require Import GenPrelude.
From C05 Require Import Gen_ArrayFacts Gen_GuardsArray Gen_IndexOf Gen_Grow Gen_ShiftLoops InsertGlue.
From C05 Require IndexOfProofs.
Import ListNotations.
Local Open Scope Z_scope.
(* generated functions are never unfolded by simpl / cbn *)
Local Arguments ShiftInsert : simpl never.
Local Arguments GrowCapacity : simpl never.
Local Arguments Insert_prefix : simpl never.
Local Arguments pvIndexOf : simpl never.

Inductive act := ANop | ACopyItem | AGrowIf | AInsertCopy | AInsertItem.
Definition act_of (s : string) : option act :=
  if String.eqb s "decl memManager = GetMemManager()" then Some ANop
  else if String.eqb s "decl itemHandler = ctor{memManager, ctor{memManager, item}}" then Some ACopyItem
  else if String.eqb s "if grow { pvGrow(newCount, add) }" then Some AGrowIf
  else if String.eqb s "InsertNogrow(*CXXThisExpr, index, count, *operator&(itemHandler))" then Some AInsertCopy
  else if String.eqb s "InsertNogrow(*CXXThisExpr, index, count, item)" then Some AInsertItem
  else None.

Definition poison : Z := -1.

Section Run.
Variable growOnReserve : bool.
Variables cnt index count it tmp newCount grow : Z.
Definition aliased : bool := Z.leb 0 it && Z.ltb it cnt.       (* `item` refers to an element of this array *)

(* (items, capacity, has the buffer been replaced) *)
Fixpoint run_acts (l : list (option act)) (items : Z -> Z) (cap_ : Z) (grown : bool) : outcome ((Z -> Z) * Z * Z) :=
  match l with
  | [] => Stuck                                   (* a branch that never calls InsertNogrow *)
  | None :: _ => Stuck                            (* an unknown statement: the tie is broken *)
  | Some a :: t =>
    match a with
    | ANop => run_acts t items cap_ grown
    | ACopyItem => run_acts t (upd items tmp (if grown && aliased then poison else items it)) cap_ grown
    | AGrowIf =>
      if negb (Z.eqb grow 0) then
        match GrowCapacity growOnReserve cap_ newCount 0 false with
        | Ok cap' => run_acts t items cap' true
        | Stuck => Stuck | Fuel => Fuel | Exn => Exn
        end
      else run_acts t items cap_ grown
    | AInsertCopy => shift_result (ShiftInsert items cnt cap_ index count tmp) cap_
    | AInsertItem => if grown && aliased then Stuck else shift_result (ShiftInsert items cnt cap_ index count it) cap_
    end
  end.
End Run.

(* Array::Insert with BOTH branches executed from the generated statement lists *)
Definition gen_array_insert_f (growOnReserve : bool) (items : Z -> Z) (cnt cap_ base index count it ptr tmp : Z)
  : outcome ((Z -> Z) * Z * Z) :=
  match Insert_prefix cnt cap_ index count with
  | Ok (newCount, grow) =>
    let itemIndex := pvIndexOf base cnt ptr in
    if negb (Z.eqb grow 0) || IndexOfProofs.alias_test index cnt itemIndex
    then run_acts growOnReserve cnt index count it tmp newCount grow (map act_of array_insert_copy_branch) items cap_ false
    else run_acts growOnReserve cnt index count it tmp newCount grow (map act_of array_insert_direct_branch) items cap_ false
  | Stuck => Stuck | Fuel => Fuel | Exn => Exn
  end.

(* the generated facts have the shape the proofs rely on *)
Lemma facts_shape :
  array_insert_condition = "(grow || ((index <= itemIndex) && (itemIndex < initCount)))"%string /\
  map act_of array_insert_copy_branch = [Some ANop; Some ACopyItem; Some AGrowIf; Some AInsertCopy] /\
  map act_of array_insert_direct_branch = [Some AInsertItem] /\
  (* pvAddBackGrow(const Item&, true_type): the copy into itemBuffer precedes pvGrow, the relocation into the new buffer follows it *)
  add_back_grow_copy_stmts =
    ["decl initCount = GetCount()"; "decl newCount = (initCount + 1)"; "decl itemBuffer = ctor{}"; "decl memManager = GetMemManager()";
     "operator()(ctor{memManager, item}, operator&(itemBuffer))"; "try { pvGrow(newCount, add) }";
     "Relocate(memManager, operator&(itemBuffer), (GetItems() + initCount), 1)"; "SetCount(newCount)"]%string /\
  (* pvAddBackGrow(Item&&, true_type): itemIndex is taken before pvGrow, the items pointer after it, and the aliased element is re-indexed *)
  add_back_grow_move_stmts =
    ["decl initCount = GetCount()"; "decl newCount = (initCount + 1)"; "decl itemIndex = pvIndexOf(item)"; "pvGrow(newCount, add)";
     "decl items = GetItems()";
     "operator()(ctor{GetMemManager(), move(((itemIndex == maxSize) ? item : items[itemIndex]))}, (items + initCount))";
     "SetCount(newCount)"]%string.
Proof. repeat split; reflexivity. Qed.

(* executing the generated statement lists IS the glue of InsertGlue.v *)
Theorem gen_array_insert_f_is_the_glue growOnReserve items cnt cap_ base index count it ptr tmp :
  gen_array_insert_f growOnReserve items cnt cap_ base index count it ptr tmp =
  gen_array_insert growOnReserve items cnt cap_ base index count it ptr tmp.
Proof.
  unfold gen_array_insert_f, gen_array_insert.
  destruct facts_shape as (_ & -> & -> & _).
  destruct (Insert_prefix cnt cap_ index count) as [[newCount grow]| | |]; auto.
  destruct (negb (Z.eqb grow 0) || IndexOfProofs.alias_test index cnt (pvIndexOf base cnt ptr)) eqn:Hc; simpl.
  - destruct (negb (Z.eqb grow 0)); simpl; auto.
  - reflexivity.
Qed.

Theorem gen_array_insert_f_spec (growOnReserve : bool) (items : Z -> Z) cnt cap_ base index count it ptr tmp :
  0 <= index -> index <= cnt -> cnt <= cap_ -> cap_ < U64 -> 0 <= count -> cnt + count < U64 ->
  0 <= base -> base + cnt < U64 -> 0 <= ptr < U64 -> U64 <= tmp ->
  ((0 <= it < cnt /\ ptr = base + it) \/ (U64 <= it /\ (ptr < base \/ base + cnt <= ptr))) ->
  exists items' cap', gen_array_insert_f growOnReserve items cnt cap_ base index count it ptr tmp = Ok (items', cnt + count, cap') /\
    cnt + count <= cap' /\
    (forall j, 0 <= j < index -> items' j = items j) /\
    (forall j, index <= j < index + count -> items' j = items it) /\
    (forall j, index + count <= j < cnt + count -> items' j = items (j - count)).
Proof. intros. rewrite gen_array_insert_f_is_the_glue. apply gen_array_insert_spec; auto. Qed.

(* non-vacuity / the mutant: [7] with capacity 1, Insert(0, 1, a[0]).  In the real order the inserted cell holds 7; with the temporary
   made AFTER the growth (the I3 order) the aliased item is read from the dead buffer and the inserted cell holds poison *)
Definition cell0 (r : outcome ((Z -> Z) * Z * Z)) : option Z := match r with Ok (f, _, _) => Some (f 0) | _ => None end.
Example copy_after_grow_is_wrong :
  let items := fun j => if Z.eqb j 0 then 7 else 0 in
  cell0 (run_acts true 1 0 1 0 (2 ^ 64 + 1) 2 1 [Some ANop; Some ACopyItem; Some AGrowIf; Some AInsertCopy] items 1 false) = Some 7 /\
  cell0 (run_acts true 1 0 1 0 (2 ^ 64 + 1) 2 1 [Some ANop; Some AGrowIf; Some ACopyItem; Some AInsertCopy] items 1 false) = Some poison.
Proof. vm_compute. split; reflexivity. Qed.

(* ================================================================== Array::AddBack(const Item&) from the AST facts *)
(* statements of pvAddBackNogrow(creator) and pvAddBackGrow(const Item&, true_type); Relocate is a cell MOVE: it constructs the destination
   cell from the source cell (like the shifter's cells) *)
Inductive bact := BNop | BCopyToTmp | BGrow | BRelocTmpToEnd | BSetCountPlus1 | BCreateAtEnd.
Definition bact_of (s : string) : option bact :=
  if String.eqb s "decl initCount = GetCount()" then Some BNop
  else if String.eqb s "decl newCount = (initCount + 1)" then Some BNop
  else if String.eqb s "decl itemBuffer = ctor{}" then Some BNop
  else if String.eqb s "decl memManager = GetMemManager()" then Some BNop
  else if String.eqb s "decl count = GetCount()" then Some BNop
  else if String.eqb s "operator()(ctor{memManager, item}, operator&(itemBuffer))" then Some BCopyToTmp
  else if String.eqb s "try { pvGrow(newCount, add) }" then Some BGrow
  else if String.eqb s "Relocate(memManager, operator&(itemBuffer), (GetItems() + initCount), 1)" then Some BRelocTmpToEnd
  else if String.eqb s "SetCount(newCount)" then Some BSetCountPlus1
  else if String.eqb s "SetCount((count + 1))" then Some BSetCountPlus1
  else if String.eqb s "operator()(creator, (GetItems() + count))" then Some BCreateAtEnd
  else None.

Section RunB.
Variable growOnReserve : bool.
Variables cnt0 it tmp : Z.              (* count at entry, the item's cell, the itemBuffer cell *)
Definition aliasedB : bool := Z.leb 0 it && Z.ltb it cnt0.
Fixpoint run_bacts (l : list (option bact)) (items : Z -> Z) (cnt cap_ : Z) (grown : bool) : outcome ((Z -> Z) * Z * Z) :=
  match l with
  | [] => Ok (items, cnt, cap_)
  | None :: _ => Stuck
  | Some a :: t =>
    match a with
    | BNop => run_bacts t items cnt cap_ grown
    | BCopyToTmp => run_bacts t (upd items tmp (if grown && aliasedB then poison else items it)) cnt cap_ grown
    | BGrow => match GrowCapacity growOnReserve cap_ (cnt0 + 1) 0 false with
               | Ok cap' => run_bacts t items cnt cap' true
               | Stuck => Stuck | Fuel => Fuel | Exn => Exn
               end
    | BRelocTmpToEnd => if Z.ltb cnt0 cap_ then run_bacts t (upd items cnt0 (items tmp)) cnt cap_ grown else Stuck
    | BCreateAtEnd => if Z.ltb cnt0 cap_ then run_bacts t (upd items cnt0 (if grown && aliasedB then poison else items it)) cnt cap_ grown else Stuck
    | BSetCountPlus1 => if Z.leb (cnt0 + 1) cap_ then run_bacts t items (cnt0 + 1) cap_ grown else Stuck   (* Data::SetCount: MOMO_ASSERT(count <= GetCapacity()) *)
    end
  end.
End RunB.

(* AddBack(const Item& item): if (GetCount() < GetCapacity()) pvAddBackNogrow(Creator(item)) else pvAddBackGrow(item)   [nothrow-relocatable items] *)
Definition gen_add_back_f (growOnReserve : bool) (items : Z -> Z) (cnt cap_ it tmp : Z) : outcome ((Z -> Z) * Z * Z) :=
  if Z.ltb cnt cap_
  then run_bacts growOnReserve cnt it tmp (map bact_of add_back_nogrow_stmts) items cnt cap_ false
  else run_bacts growOnReserve cnt it tmp (map bact_of add_back_grow_copy_stmts) items cnt cap_ false.

Lemma facts_shape_add_back :
  add_back_copy_stmts = ["if (GetCount() < GetCapacity()) { pvAddBackNogrow(ctor{GetMemManager(), item}) } else { pvAddBackGrow(item) }"]%string /\
  map bact_of add_back_nogrow_stmts = [Some BNop; Some BCreateAtEnd; Some BSetCountPlus1] /\
  map bact_of add_back_grow_copy_stmts =
    [Some BNop; Some BNop; Some BNop; Some BNop; Some BCopyToTmp; Some BGrow; Some BRelocTmpToEnd; Some BSetCountPlus1].
Proof. repeat split; reflexivity. Qed.

(* item = ANY element of the array or an external object; with or without reallocation: the appended cell holds the item's PRE-CALL value,
   the old cells are untouched, count + 1 <= the new capacity *)
Theorem gen_add_back_f_spec (growOnReserve : bool) (items : Z -> Z) cnt cap_ it tmp :
  0 <= cnt -> cnt <= cap_ -> cnt + 1 < U64 -> U64 <= tmp -> (0 <= it < cnt \/ U64 <= it) ->
  exists items' cap', gen_add_back_f growOnReserve items cnt cap_ it tmp = Ok (items', cnt + 1, cap') /\
    cnt + 1 <= cap' /\ items' cnt = items it /\ (forall j, 0 <= j < cnt -> items' j = items j).
Proof.
  intros H0 Hc HU Htmp Hit. unfold gen_add_back_f. destruct facts_shape_add_back as (_ & -> & ->).
  destruct (Z.ltb_spec cnt cap_) as [Hroom|Hfull].
  - simpl. destruct (Z.ltb_spec cnt cap_); [|lia]. destruct (Z.leb_spec (cnt + 1) cap_); [|lia].
    eexists; eexists; split; [reflexivity|]. split; [lia|]. unfold upd. split.
    + rewrite Z.eqb_refl. reflexivity.
    + intros j Hj. destruct (Z.eqb_spec j cnt); [lia|reflexivity].
  - assert (cap_ = cnt) by lia. subst cap_. simpl.
    destruct (GrowProofs.grow_capacity_ge growOnReserve cnt (cnt + 1) 0 false) as (r & -> & Hr1 & Hr2); try (unfold U64 in *; lia).
    destruct (Z.ltb_spec cnt r); [|lia]. destruct (Z.leb_spec (cnt + 1) r); [|lia].
    eexists; eexists; split; [reflexivity|]. split; [lia|]. unfold upd. split.
    + rewrite Z.eqb_refl. rewrite Z.eqb_refl. reflexivity.
    + intros j Hj. destruct (Z.eqb_spec j cnt); [lia|]. destruct (Z.eqb_spec j tmp); [unfold U64 in *; lia|reflexivity].
Qed.

(* the remaining facts: Shrink / Reserve of Array and the forwards of momo::stdish::vector *)
Lemma facts_shape_forwards :
  array_reserve_stmts = ["if (capacity > GetCapacity()) { pvGrow(capacity, reserve) }"]%string /\
  array_shrink_stmts = ["decl initCapacity = GetCapacity()"; "if ((initCapacity <= capacity) || (initCapacity == internalCapacity)) { return }";
                        "decl count = GetCount()"; "if (capacity < count) { (capacity = count) }";
                        "if !Reallocate(capacity, capacity) { decl itemsCreator = LambdaExpr; Reset(capacity, count, itemsCreator) }"]%string /\
  (* stdish::vector: insert(where, ...) forwards to Array::Insert(where - cbegin(), ...), erase(first, last) to Remove(first - cbegin(), last - first), ... *)
  vector_insert_n = ["decl index = Dist(cbegin(), where)"; "Insert(index, count, value)"; "return Next(begin(), index)"]%string /\
  vector_insert_copy = ["decl index = Dist(cbegin(), where)"; "Insert(index, value)"; "return Next(begin(), index)"]%string /\
  vector_insert_move = ["decl index = Dist(cbegin(), where)"; "Insert(index, move(value))"; "return Next(begin(), index)"]%string /\
  vector_erase_range = ["decl index = Dist(cbegin(), first)"; "Remove(index, Dist(first, last))"; "return Next(begin(), index)"]%string /\
  vector_erase_one = ["return erase(where, (where + 1))"]%string /\
  vector_push_back_copy = ["AddBack(value)"]%string /\ vector_push_back_move = ["AddBack(move(value))"]%string /\
  vector_resize_value = ["SetCount(size, value)"]%string /\ vector_resize = ["SetCount(size)"]%string /\
  vector_assign_n = ["operator=(mArray, ctor{count, value, ctor{get_allocator()}})"]%string /\
  vector_reserve = ["Reserve(count)"]%string /\ vector_shrink_to_fit = ["Shrink()"]%string /\
  vector_clear = ["Clear(CXXDefaultArgExpr)"]%string /\ vector_pop_back = ["RemoveBack(CXXDefaultArgExpr)"]%string.
Proof. repeat split; reflexivity. Qed.

(* ================================================================== Array::AddBack(Item&&) from the AST facts *)
(* pvAddBackGrow(Item&& item, true_type): itemIndex = pvIndexOf(item) BEFORE pvGrow; `items = GetItems()` AFTER it; the new item is
   move-constructed from (itemIndex == maxSize ? item : items[itemIndex]), i.e. an aliased element is re-indexed in the NEW buffer *)
Inductive mact := MNop | MIndexOf | MGrow | MRefreshItems | MMoveCreateCond | MSetCount.
Definition mact_of (s : string) : option mact :=
  if String.eqb s "decl initCount = GetCount()" then Some MNop
  else if String.eqb s "decl newCount = (initCount + 1)" then Some MNop
  else if String.eqb s "decl itemIndex = pvIndexOf(item)" then Some MIndexOf
  else if String.eqb s "pvGrow(newCount, add)" then Some MGrow
  else if String.eqb s "decl items = GetItems()" then Some MRefreshItems
  else if String.eqb s "operator()(ctor{GetMemManager(), move(((itemIndex == maxSize) ? item : items[itemIndex]))}, (items + initCount))" then Some MMoveCreateCond
  else if String.eqb s "SetCount(newCount)" then Some MSetCount
  else None.

Section RunM.
Variable growOnReserve : bool.
Variables cnt0 it : Z.
Definition aliasedM : bool := Z.leb 0 it && Z.ltb it cnt0.
(* state: cells, count, capacity, has the buffer been replaced, was itemIndex taken while `item` was valid, is `items` the current buffer *)
Fixpoint run_macts (l : list (option mact)) (items : Z -> Z) (cnt cap_ : Z) (grown indexed fresh : bool) : outcome ((Z -> Z) * Z * Z) :=
  match l with
  | [] => Ok (items, cnt, cap_)
  | None :: _ => Stuck
  | Some a :: t =>
    match a with
    | MNop => run_macts t items cnt cap_ grown indexed fresh
    | MIndexOf => if grown && aliasedM then Stuck else run_macts t items cnt cap_ grown true fresh     (* the address of a dead object is not compared *)
    | MGrow => match GrowCapacity growOnReserve cap_ (cnt0 + 1) 0 false with
               | Ok cap' => run_macts t items cnt cap' true indexed false
               | Stuck => Stuck | Fuel => Fuel | Exn => Exn
               end
    | MRefreshItems => run_macts t items cnt cap_ grown indexed true
    | MMoveCreateCond =>
      if negb indexed || negb (Z.ltb cnt0 cap_) then Stuck else
      let v := if aliasedM then (if fresh then items it else poison)     (* items[itemIndex] through the CURRENT items pointer *)
               else items it in                                           (* an external object is still alive *)
      run_macts t (upd items cnt0 v) cnt cap_ grown indexed fresh
    | MSetCount => if Z.leb (cnt0 + 1) cap_ then run_macts t items (cnt0 + 1) cap_ grown indexed fresh else Stuck
    end
  end.
End RunM.

(* AddBack(Item&& item): if (GetCount() < GetCapacity()) pvAddBackNogrow(Creator(std::move(item))) else pvAddBackGrow(std::move(item))
   [nothrow-move-constructible items].  In the cell model a move reads the source cell; what it leaves there is unspecified (C05_array_add_back_rvalue_refines) *)
Definition gen_add_back_move_f (growOnReserve : bool) (items : Z -> Z) (cnt cap_ it tmp : Z) : outcome ((Z -> Z) * Z * Z) :=
  if Z.ltb cnt cap_
  then run_bacts growOnReserve cnt it tmp (map bact_of add_back_nogrow_stmts) items cnt cap_ false
  else run_macts growOnReserve cnt it (map mact_of add_back_grow_move_stmts) items cnt cap_ false false true.

Lemma facts_shape_more :
  add_back_move_stmts = ["if (GetCount() < GetCapacity()) { pvAddBackNogrow(ctor{GetMemManager(), move(item)}) } else { pvAddBackGrow(move(item)) }"]%string /\
  map mact_of add_back_grow_move_stmts = [Some MNop; Some MNop; Some MIndexOf; Some MGrow; Some MRefreshItems; Some MMoveCreateCond; Some MSetCount] /\
  (* Insert(index, Item&&): the same alias test; InsertVar (= InsertCrt: temporary first) or InsertNogrow in place *)
  insert_rvalue_stmts = ["decl initCount = GetCount()"; "decl grow = ((initCount + 1) > GetCapacity())"; "decl itemIndex = pvIndexOf(item)";
    "if (grow || ((index <= itemIndex) && (itemIndex < initCount))) { InsertVar(index, move(item)) } else { InsertNogrow(*CXXThisExpr, index, move(item)) }"]%string /\
  (* InsertCrt: the ItemHandler temporary is constructed BEFORE the growth; then InsertNogrow moves from it *)
  insert_crt_stmts = ["decl itemHandler = ctor{GetMemManager(), forward(itemCreator)}"; "decl newCount = (GetCount() + 1)";
    "if (newCount > GetCapacity()) { pvGrow(newCount, add) }"; "InsertNogrow(*CXXThisExpr, index, move(*operator&(itemHandler)))"]%string /\
  (* ArrayShifter::Insert over input iterators: item k goes to index + k, one InsertCrt each *)
  shifter_insert_input_stmts = ["typedef"; "decl memManager = GetMemManager()"; "decl count = 0";
    "for (decl iter = ctor{move(begin)}; operator!=(iter, ctor{end}); (CStyleCastExpr , ++count)) { InsertCrt((index + count), ctor{memManager, operator*(iter)}) }"]%string /\
  (* RemoveBack / pvRemoveBack / Clear *)
  remove_back_stmts = ["DoStmt"; "pvRemoveBack(count)"]%string /\
  pv_remove_back_stmts = ["decl initCount = GetCount()"; "Destroy(GetMemManager(), ((GetItems() + initCount) - count), count)"; "SetCount((initCount - count))"]%string /\
  clear_stmts = ["if shrink { Clear() } else { pvRemoveBack(GetCount()) }"]%string /\
  (* SetCountCrt: shrink = pvRemoveBack; grow within the capacity = construct in place, then SetCount; otherwise Reset with a creator lambda *)
  set_count_crt_stmts = ["decl newCount = count"; "decl initCount = GetCount()"; "decl initCapacity = GetCapacity()";
    "if (newCount <= initCount) { pvRemoveBack((initCount - newCount)) } else { if (newCount <= initCapacity) { decl items = GetItems(); decl index = initCount; try { for (; (index < newCount); ++index) { operator()(itemMultiCreator, (items + index)) } }; SetCount(newCount) } else { decl newCapacity = pvGrowCapacity(initCapacity, newCount, reserve, CXXBoolLiteralExpr); decl itemsCreator = LambdaExpr; Reset(newCapacity, newCount, itemsCreator) } }"]%string.
Proof. repeat split; reflexivity. Qed.

(* a[i] (ANY element) or an external object moved to the back, with or without reallocation: the appended cell holds the PRE-CALL value *)
Theorem gen_add_back_move_f_spec (growOnReserve : bool) (items : Z -> Z) cnt cap_ it tmp :
  0 <= cnt -> cnt <= cap_ -> cnt + 1 < U64 -> U64 <= tmp -> (0 <= it < cnt \/ U64 <= it) ->
  exists items' cap', gen_add_back_move_f growOnReserve items cnt cap_ it tmp = Ok (items', cnt + 1, cap') /\
    cnt + 1 <= cap' /\ items' cnt = items it /\ (forall j, 0 <= j < cnt -> items' j = items j).
Proof.
  intros H0 Hc HU Htmp Hit. unfold gen_add_back_move_f.
  destruct facts_shape_add_back as (_ & -> & _). destruct facts_shape_more as (_ & -> & _).
  destruct (Z.ltb_spec cnt cap_) as [Hroom|Hfull].
  - simpl. destruct (Z.ltb_spec cnt cap_); [|lia]. destruct (Z.leb_spec (cnt + 1) cap_); [|lia].
    eexists; eexists; split; [reflexivity|]. split; [lia|]. unfold upd. split.
    + rewrite Z.eqb_refl. reflexivity.
    + intros j Hj. destruct (Z.eqb_spec j cnt); [lia|reflexivity].
  - assert (cap_ = cnt) by lia. subst cap_. simpl.
    destruct (GrowProofs.grow_capacity_ge growOnReserve cnt (cnt + 1) 0 false) as (r & -> & Hr1 & Hr2); try (unfold U64 in *; lia).
    simpl. destruct (Z.ltb_spec cnt r); [|lia]. simpl. destruct (Z.leb_spec (cnt + 1) r); [|lia].
    eexists; eexists; split; [reflexivity|]. split; [lia|]. unfold upd. split.
    + rewrite Z.eqb_refl. destruct (aliasedM cnt it); reflexivity.
    + intros j Hj. destruct (Z.eqb_spec j cnt); [lia|reflexivity].
Qed.

(* non-vacuity / the M3 mutant: [7] full, AddBack(std::move(a[0])): re-indexing through the refreshed items pointer appends 7; using the stale
   `item` reference (or the old items pointer) appends poison *)
Definition cellat (k : Z) (r : outcome ((Z -> Z) * Z * Z)) : option Z := match r with Ok (f, _, _) => Some (f k) | _ => None end.
Example stale_item_after_grow_is_wrong :
  let items := fun j => if Z.eqb j 0 then 7 else 0 in
  cellat 1 (run_macts true 1 0 [Some MIndexOf; Some MGrow; Some MRefreshItems; Some MMoveCreateCond; Some MSetCount] items 1 1 false false true) = Some 7 /\
  cellat 1 (run_macts true 1 0 [Some MIndexOf; Some MRefreshItems; Some MGrow; Some MMoveCreateCond; Some MSetCount] items 1 1 false false true) = Some poison.
Proof. vm_compute. split; reflexivity. Qed.

(* ================================================================== the old storage is alive while a creator runs *)
(* Array::Data::Reset(capacity, count, itemsCreator), external branch: allocate, run the creator on the NEW storage, only then release the old
   storage and switch mItems / mCount / mCapacity.  The creators: pvGrow / Shrink only relocate; SetCountCrt first constructs the new items (from
   `item`, which may refer into the old, still intact storage) and then relocates the old ones.  This is why the hand model's growth paths
   (array_set_count, array_add_back's generic path, regrow) may read the argument before replacing the cells. *)
Lemma facts_shape_reset :
  data_reset_stmts =
    ["assert((count <= capacity))"; "pvCheckCapacity(capacity)";
     "if (capacity > internalCapacity) { decl items = pvAllocate(capacity); try { operator()(forward(itemsCreator), items) }; pvDeallocate(); (mItems = items); (mCount = count); (mCapacity = capacity) } else { pvReset(count, forward(itemsCreator)) }"]%string /\
  pv_grow_lambda = ["Relocate(GetMemManager(), GetItems(), newItems, count)"]%string /\
  set_count_crt_lambdas =
    ["decl index = initCount; try { for (; (index < newCount); ++index) { operator()(itemMultiCreator, (newItems + index)) }; Relocate(GetMemManager(), GetItems(), newItems, initCount) }"]%string.
Proof. repeat split; reflexivity. Qed.
