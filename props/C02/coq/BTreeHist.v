(* C02 -- bounds, find, insertion with the uniqueness test, traversals, and the lifting over operation histories *)
From Coq Require Import List ZArith Arith Lia Bool Sorted.
From C02 Require Import BTreeModel BTreeParams BTreeBase BTreeSearch BTreeIter BTreeAdd BTreeTop.
Import ListNotations.
Local Open Scope Z_scope.

Lemma skipn_head {A} (l : list A) i x : nth_error l i = Some x -> skipn i l = x :: skipn (S i) l.
Proof. revert l; induction i; intros [|a l] H; simpl in *; try discriminate; [congruence | auto]. Qed.

(* ---------- sorted lists ---------- *)
Lemma ss_app_inv {R : Z -> Z -> Prop} a b :
  StronglySorted R (a ++ b) -> StronglySorted R a /\ StronglySorted R b /\ Forall (fun x => Forall (R x) b) a.
Proof.
  induction a as [|x a IH]; simpl; intros H.
  - repeat split; auto; constructor.
  - inversion H; subst. destruct (IH H2) as (Sa & Sb & F). apply Forall_app in H3. destruct H3 as [F1 F2].
    repeat split; auto; constructor; auto.
Qed.

Lemma ss_app {R : Z -> Z -> Prop} a b :
  StronglySorted R a -> StronglySorted R b -> Forall (fun x => Forall (R x) b) a -> StronglySorted R (a ++ b).
Proof.
  induction a as [|x a IH]; simpl; intros Sa Sb F; auto.
  inversion Sa; subst. inversion F; subst. constructor; auto. apply Forall_app. auto.
Qed.

Lemma ss_lt_le l : StronglySorted Z.lt l -> StronglySorted Z.le l.
Proof. induction 1; constructor; auto. eapply Forall_impl; [|exact H0]. intros; lia. Qed.

Lemma first_true_char P l :
  mono P l -> Forall (fun x => P x = false) (firstn (first_true P l) l) /\ Forall (fun x => P x = true) (skipn (first_true P l) l).
Proof.
  induction l as [|x l IH]; simpl; intros M; [split; constructor|]. destruct M as [M1 M2].
  destruct (P x) eqn:E; simpl.
  - split; [constructor|]. constructor; auto.
  - destruct (IH M2). split; auto.
Qed.

Lemma lb_index_char l k :
  StronglySorted Z.le l ->
  Forall (fun x => x < k) (firstn (lb_index l k) l) /\ Forall (fun x => k <= x) (skipn (lb_index l k) l).
Proof.
  intros S. destruct (first_true_char _ l (sorted_mono_ge l k S)) as [A B]. split.
  - eapply Forall_impl; [|exact A]. intros x H. simpl in H. apply negb_false_iff, Z.ltb_lt in H. exact H.
  - eapply Forall_impl; [|exact B]. intros x H. simpl in H. apply negb_true_iff, Z.ltb_ge in H. exact H.
Qed.

Lemma ub_index_char l k :
  StronglySorted Z.le l ->
  Forall (fun x => x <= k) (firstn (ub_index l k) l) /\ Forall (fun x => k < x) (skipn (ub_index l k) l).
Proof.
  intros S. destruct (first_true_char _ l (sorted_mono_gt l k S)) as [A B]. split.
  - eapply Forall_impl; [|exact A]. intros x H. simpl in H. apply Z.ltb_ge in H. exact H.
  - eapply Forall_impl; [|exact B]. intros x H. simpl in H. apply Z.ltb_lt in H. exact H.
Qed.

Lemma ub_index_le l k : (ub_index l k <= length l)%nat.
Proof. apply ft_le. Qed.

(* inserting at the upper bound keeps the order (non-decreasing: always; strictly increasing: when no equal key) *)
Lemma insert_ub_sorted_le l k :
  StronglySorted Z.le l -> StronglySorted Z.le (insert_at (ub_index l k) k l).
Proof.
  intros S. destruct (ub_index_char l k S) as [A B]. unfold insert_at.
  rewrite <- (firstn_skipn (ub_index l k) l) in S. destruct (ss_app_inv _ _ S) as (Sa & Sb & F).
  apply ss_app; auto.
  - constructor; auto. eapply Forall_impl; [|exact B]. intros a Ha; cbv beta in Ha; lia.
  - rewrite Forall_forall in *. intros x Hx. constructor; [apply A; auto|].
    apply Forall_forall. intros y Hy. specialize (A x Hx). specialize (B y Hy). simpl in *. lia.
Qed.

Lemma firstn_last_split (l : list Z) i : (i < length l)%nat -> firstn (S i) l = firstn i l ++ [nth i l 0].
Proof. apply firstn_S_nth. Qed.

Lemma insert_ub_sorted_lt l k :
  StronglySorted Z.lt l ->
  (ub_index l k = 0%nat \/ nth (ub_index l k - 1) l 0 < k) ->
  StronglySorted Z.lt (insert_at (ub_index l k) k l).
Proof.
  intros S H. destruct (ub_index_char l k (ss_lt_le _ S)) as [A B]. unfold insert_at.
  pose proof (ub_index_le l k) as Hle.
  rewrite <- (firstn_skipn (ub_index l k) l) in S. destruct (ss_app_inv _ _ S) as (Sa & Sb & F).
  assert (A' : Forall (fun x => x < k) (firstn (ub_index l k) l)).
  { destruct H as [H|H]; [rewrite H; constructor|].
    destruct (ub_index l k) as [|i] eqn:Ei; [constructor|]. simpl in H. rewrite Nat.sub_0_r in H.
    rewrite firstn_last_split in Sa |- * by lia.
    destruct (ss_app_inv _ _ Sa) as (_ & _ & F'). apply Forall_app. split; [|constructor; auto].
    eapply Forall_impl; [|exact F']. intros x Hx. inversion Hx; subst. cbv beta in *. lia. }
  apply ss_app; auto.
  - constructor; auto.
  - rewrite Forall_forall in *. intros x Hx. constructor; [apply A'; auto|].
    apply Forall_forall. intros y Hy. specialize (A' x Hx). specialize (B y Hy). simpl in *. lia.
Qed.

Section Hist.
Variables (maxCap stepRaw blockCount : nat) (linear multi : bool).
Hypothesis Hmc : (1 <= maxCap <= 255)%nat.

Notation twf := (twf maxCap).
Notation norm := (norm).
Notation insert := (insert maxCap stepRaw blockCount linear multi).
Notation lower_bound := (lower_bound linear).
Notation upper_bound := (upper_bound linear).
Notation find := (find linear).
Notation contains := (contains linear).

Definition sorted (l : list Z) : Prop := if multi then StronglySorted Z.le l else StronglySorted Z.lt l.

Lemma sorted_le l : sorted l -> StronglySorted Z.le l.
Proof. unfold sorted. destruct multi; auto. apply ss_lt_le. Qed.

(* ---------- GetLowerBound / GetUpperBound ---------- *)
Lemma lower_bound_spec t k :
  twf t -> sorted (contents t) ->
  norm t (lower_bound t k) /\ iter_index t (lower_bound t k) = lb_index (contents t) k.
Proof. intros W S. apply (find_first_spec maxCap linear Hmc t _ W). apply sorted_mono_ge. apply sorted_le. exact S. Qed.

Lemma upper_bound_spec t k :
  twf t -> sorted (contents t) ->
  norm t (upper_bound t k) /\ iter_index t (upper_bound t k) = ub_index (contents t) k.
Proof. intros W S. apply (find_first_spec maxCap linear Hmc t _ W). apply sorted_mono_gt. apply sorted_le. exact S. Qed.

(* ---------- pvIsGreater / ContainsKey / Find ---------- *)
Lemma is_end_iff t it : twf t -> norm t it -> (iter_eqb it (end_iter t) = true <-> iter_index t it = length (contents t)).
Proof.
  intros W N. rewrite iter_eqb_eq. split.
  - intros ->. apply index_end with (maxCap := maxCap). exact W.
  - intros E. eapply (norm_at_end maxCap Hmc); eauto.
Qed.

Lemma is_greater_spec t it k :
  twf t -> norm t it ->
  is_greater t it k = match nth_error (contents t) (iter_index t it) with Some x => (k <? x) | None => true end.
Proof.
  intros W N. unfold is_greater. destruct (iter_eqb it (end_iter t)) eqn:E.
  - apply (is_end_iff t it W N) in E. rewrite E. simpl.
    replace (nth_error (contents t) (length (contents t))) with (@None Z); auto.
    symmetry. apply nth_error_None. lia.
  - simpl. destruct N as [V [H|H]].
    + destruct (item_index maxCap Hmc t it W V H) as (_ & -> & _). reflexivity.
    + subst it. assert (iter_eqb (end_iter t) (end_iter t) = true) by (apply iter_eqb_eq; reflexivity). congruence.
Qed.

Lemma contains_spec t k : twf t -> sorted (contents t) -> (contains t k = true <-> In k (contents t)).
Proof.
  intros W S. unfold BTreeModel.contains. destruct (lower_bound_spec t k W S) as [N I].
  rewrite (is_greater_spec t _ k W N), I.
  destruct (lb_index_char (contents t) k (sorted_le _ S)) as [A B].
  set (l := contents t) in *. set (i := lb_index l k) in *.
  destruct (nth_error l i) as [x|] eqn:E.
  - pose proof (skipn_head l i x E) as Es.
    assert (Hx : In x (skipn i l)) by (rewrite Es; left; reflexivity).
    rewrite Forall_forall in B. pose proof (B x Hx) as Hk. rewrite negb_true_iff, Z.ltb_ge. split.
    + intros. assert (x = k) by lia. subst. eapply nth_error_In; eauto.
    + intros Hin. rewrite <- (firstn_skipn i l) in Hin. apply in_app_or in Hin. destruct Hin as [Hin|Hin].
      * rewrite Forall_forall in A. specialize (A k Hin). simpl in A. lia.
      * (* x is the head of skipn i l, which is sorted, so x <= k *)
        pose proof (sorted_le _ S) as S'. rewrite <- (firstn_skipn i l) in S'. apply ss_app_inv in S'. destruct S' as (_ & Sb & _).
        rewrite Es in Sb, Hin. inversion Sb; subst. destruct Hin as [->|Hin]; [lia|].
        rewrite Forall_forall in H2. specialize (H2 k Hin). lia.
  - split; [discriminate|]. intros Hin. exfalso.
    apply nth_error_None in E. rewrite firstn_all2 in A by lia. rewrite Forall_forall in A. specialize (A k Hin). simpl in A. lia.
Qed.

Lemma find_spec t k :
  twf t -> sorted (contents t) ->
  iter_index t (find t k) = if contains t k then lb_index (contents t) k else length (contents t).
Proof.
  intros W S. unfold BTreeModel.find, BTreeModel.contains. destruct (lower_bound_spec t k W S) as [N I].
  destruct (is_greater t (lower_bound t k) k); simpl; auto. apply index_end with (maxCap := maxCap). exact W.
Qed.

(* ---------- pvInsert ---------- *)
Definition has_eq (l : list Z) (k : Z) : bool :=
  match ub_index l k with O => false | S i => negb (nth i l 0 <? k) end.

Definition spec_insert (l : list Z) (k : Z) : list Z * nat * bool :=
  let i := ub_index l k in
  if multi || negb (has_eq l k) then (insert_at i k l, i, true) else (l, (i - 1)%nat, false).

Lemma spec_insert_sorted l k : sorted l -> sorted (fst (fst (spec_insert l k))).
Proof.
  unfold sorted, spec_insert. destruct multi; simpl; intros S.
  - apply insert_ub_sorted_le; auto.
  - destruct (has_eq l k) eqn:E; simpl; auto. apply insert_ub_sorted_lt; auto.
    unfold has_eq in E. destruct (ub_index l k) as [|i]; [left; reflexivity|right].
    simpl. rewrite Nat.sub_0_r. apply negb_false_iff, Z.ltb_lt in E. exact E.
Qed.

Lemma insert_refines t k :
  twf t -> sorted (contents t) ->
  let '(t', pos, ins) := insert t k in
  twf t' /\ (contents t', iter_index t' pos, ins) = spec_insert (contents t) k /\
  tvalid t' pos /\ titem t' pos.
Proof.
  intros W S. unfold BTreeModel.insert, spec_insert.
  destruct (upper_bound_spec t k W S) as [N I]. set (it := upper_bound t k) in *.
  assert (DoAdd : forall (Hne : multi || negb (has_eq (contents t) k) = true),
    let '(t', pos) := add maxCap stepRaw blockCount t it k in
    twf t' /\ (contents t', iter_index t' pos, true) =
      (insert_at (ub_index (contents t) k) k (contents t), ub_index (contents t) k, true) /\ tvalid t' pos /\ titem t' pos).
  { intros _. pose proof (add_spec maxCap stepRaw blockCount Hmc t it k W (proj1 N)) as R.
    destruct (add maxCap stepRaw blockCount t it k) as [t' pos]. destruct R as (W' & C & V & H & _ & Ix).
    rewrite C, Ix, I. unfold insert_at. auto. }
  destruct multi eqn:Em; simpl orb in *.
  - specialize (DoAdd eq_refl). destruct (add maxCap stepRaw blockCount t it k) as [t' pos]. exact DoAdd.
  - destruct (begin_spec maxCap Hmc t W) as [Nb Ib].
    destruct (iter_eqb it (begin_iter t)) eqn:Eb.
    + apply iter_eqb_eq in Eb. assert (E0 : ub_index (contents t) k = 0%nat) by (rewrite <- I, Eb; exact Ib).
      assert (He : has_eq (contents t) k = false) by (unfold has_eq; rewrite E0; reflexivity).
      rewrite He in *. specialize (DoAdd eq_refl).
      destruct (add maxCap stepRaw blockCount t it k) as [t' pos]. exact DoAdd.
    + assert (Hpos : (0 < iter_index t it)%nat).
      { destruct (iter_index t it) eqn:E0; [|lia]. exfalso.
        assert (it = begin_iter t) by (apply (norm_unique maxCap Hmc t); auto; congruence).
        apply iter_eqb_eq in H. congruence. }
      destruct (prev_spec maxCap Hmc t it W (proj1 N) Hpos) as (Vp & Hp & Ip).
      destruct (item_index maxCap Hmc t _ W Vp Hp) as (Hlt & Ed & _).
      assert (Ei : iter_index t (prev t it) = (ub_index (contents t) k - 1)%nat) by lia.
      rewrite Ed, Ei. unfold has_eq in *.
      destruct (ub_index (contents t) k) as [|i] eqn:Eu; [lia|]. simpl Nat.sub in *. rewrite Nat.sub_0_r in *.
      destruct (nth_error (contents t) i) as [x|] eqn:Ex; [|apply nth_error_None in Ex; lia].
      rewrite (nth_error_nth' _ _ _ 0 Ex) in *.
      destruct (negb (x <? k)) eqn:Ek; simpl negb in *.
      * repeat split; auto. rewrite Ei. reflexivity.
      * specialize (DoAdd eq_refl). destruct (add maxCap stepRaw blockCount t it k) as [t' pos]. exact DoAdd.
Qed.

(* ---------- traversals ---------- *)
Lemma forward_spec t : twf t -> forall fuel it,
  norm t it -> (length (contents t) - iter_index t it < fuel)%nat ->
  forward fuel t it = skipn (iter_index t it) (contents t).
Proof.
  intros W. induction fuel; intros it N H; [lia|]. cbn [forward].
  destruct (iter_eqb it (end_iter t)) eqn:E.
  - apply (is_end_iff t it W N) in E. rewrite E, skipn_all. reflexivity.
  - assert (Hi : titem t it).
    { destruct N as [_ [Hi|Hi]]; auto. subst it. assert (iter_eqb (end_iter t) (end_iter t) = true) by (apply iter_eqb_eq; reflexivity). congruence. }
    destruct (item_index maxCap Hmc t it W (proj1 N) Hi) as (Hlt & Ed & _).
    destruct (next_spec maxCap Hmc t it W (proj1 N) Hi) as [Nn In].
    rewrite Ed. destruct (nth_error (contents t) (iter_index t it)) as [x|] eqn:Ex; [|apply nth_error_None in Ex; lia].
    rewrite IHfuel by (auto; lia). rewrite In.
    rewrite (skipn_head _ _ _ Ex). reflexivity.
Qed.

Theorem traverse_fwd_spec t : twf t -> traverse_fwd t = contents t.
Proof.
  intros W. unfold traverse_fwd. destruct (begin_spec maxCap Hmc t W) as [N I].
  rewrite (forward_spec t W) by (auto; lia). rewrite I. reflexivity.
Qed.

Lemma backward_spec t : twf t -> forall fuel it,
  norm t it -> (iter_index t it < fuel)%nat ->
  backward fuel t it = rev (firstn (iter_index t it) (contents t)).
Proof.
  intros W. induction fuel; intros it N H; [lia|]. cbn [backward].
  destruct (begin_spec maxCap Hmc t W) as [Nb Ib].
  destruct (iter_eqb it (begin_iter t)) eqn:E.
  - apply iter_eqb_eq in E. rewrite E, Ib. reflexivity.
  - assert (Hpos : (0 < iter_index t it)%nat).
    { destruct (iter_index t it) eqn:E0; [|lia]. exfalso.
      assert (it = begin_iter t) by (apply (norm_unique maxCap Hmc t); auto; congruence).
      apply iter_eqb_eq in H0. congruence. }
    destruct (prev_spec maxCap Hmc t it W (proj1 N) Hpos) as (Vp & Hp & Ip).
    destruct (item_index maxCap Hmc t _ W Vp Hp) as (Hlt & Ed & _).
    rewrite Ed. destruct (nth_error (contents t) (iter_index t (prev t it))) as [x|] eqn:Ex; [|apply nth_error_None in Ex; lia].
    rewrite IHfuel by (try split; auto; lia).
    rewrite <- Ip. rewrite firstn_S_nth by lia. rewrite rev_app_distr. simpl.
    rewrite (nth_error_nth' _ _ _ 0 Ex). reflexivity.
Qed.

Theorem traverse_bwd_spec t : twf t -> traverse_bwd t = rev (contents t).
Proof.
  intros W. unfold traverse_bwd.
  rewrite (backward_spec t W).
  - rewrite (index_end maxCap) by auto. rewrite firstn_all. reflexivity.
  - split; [apply (tvalid_end maxCap Hmc); auto | right; reflexivity].
  - rewrite (index_end maxCap) by auto. lia.
Qed.

(* the n-th position from begin is the position of index n *)
Lemma nth_iter_spec t : twf t -> forall n, (n <= length (contents t))%nat ->
  norm t (nth_iter t n) /\ iter_index t (nth_iter t n) = n.
Proof.
  intros W. induction n; intros H; cbn [nth_iter].
  - apply (begin_spec maxCap Hmc). exact W.
  - destruct (IHn ltac:(lia)) as [N I].
    assert (Hi : titem t (nth_iter t n)).
    { destruct N as [_ [Hi|Hi]]; auto. rewrite Hi, (index_end maxCap) in I by auto. lia. }
    destruct (next_spec maxCap Hmc t _ W (proj1 N) Hi) as [Nn In]. split; auto. lia.
Qed.

(* ---------- histories ---------- *)
Inductive op := OInsert (k : Z) | OClear.

Definition step (t : tree) (o : op) : tree :=
  match o with OInsert k => fst (fst (insert t k)) | OClear => clear t end.
Definition spec_step (l : list Z) (o : op) : list Z :=
  match o with OInsert k => fst (fst (spec_insert l k)) | OClear => [] end.

Lemma step_refines t o :
  twf t -> sorted (contents t) ->
  twf (step t o) /\ sorted (contents (step t o)) /\ contents (step t o) = spec_step (contents t) o.
Proof.
  intros W S. destruct o as [k|]; simpl.
  - pose proof (insert_refines t k W S) as R. pose proof (spec_insert_sorted (contents t) k S) as S'.
    destruct (insert t k) as [[t' pos] ins]. destruct R as (W' & E & _). simpl.
    assert (Ec : contents t' = fst (fst (spec_insert (contents t) k))) by (rewrite <- E; reflexivity).
    rewrite Ec. auto.
  - unfold clear, empty_tree, BTreeTop.twf, contents, sorted. simpl. repeat split; auto. destruct multi; constructor.
Qed.

Theorem history_refines ops :
  let t := fold_left step ops empty_tree in
  twf t /\ sorted (contents t) /\ contents t = fold_left spec_step ops [].
Proof.
  assert (G : forall ops t l, twf t -> sorted (contents t) -> contents t = l ->
    twf (fold_left step ops t) /\ sorted (contents (fold_left step ops t)) /\
    contents (fold_left step ops t) = fold_left spec_step ops l).
  { induction ops0 as [|o ops0 IH]; intros t l W S E; simpl; [subst; auto|].
    destruct (step_refines t o W S) as (W' & S' & E'). apply IH; auto. rewrite E', E. reflexivity. }
  apply G; auto.
  - unfold BTreeTop.twf, empty_tree. simpl. reflexivity.
  - unfold sorted, contents, empty_tree. simpl. destruct multi; constructor.
Qed.

(* ---------- statements exported to Properties_C02.v ---------- *)
Lemma lower_bound_is_first_not_less t k :
  twf t -> sorted (contents t) ->
  let i := iter_index t (lower_bound t k) in
  norm t (lower_bound t k) /\ (i <= length (contents t))%nat /\
  Forall (fun x => x < k) (firstn i (contents t)) /\ Forall (fun x => k <= x) (skipn i (contents t)).
Proof.
  intros W S. destruct (lower_bound_spec t k W S) as [N I]. cbv zeta. rewrite I.
  destruct (lb_index_char (contents t) k (sorted_le _ S)). split; [exact N|]. split; [apply ft_le|]. split; auto.
Qed.

Lemma upper_bound_is_first_greater t k :
  twf t -> sorted (contents t) ->
  let i := iter_index t (upper_bound t k) in
  norm t (upper_bound t k) /\ (i <= length (contents t))%nat /\
  Forall (fun x => x <= k) (firstn i (contents t)) /\ Forall (fun x => k < x) (skipn i (contents t)).
Proof.
  intros W S. destruct (upper_bound_spec t k W S) as [N I]. cbv zeta. rewrite I.
  destruct (ub_index_char (contents t) k (sorted_le _ S)). split; [exact N|]. split; [apply ft_le|]. split; auto.
Qed.

Lemma count_is_length t : twf t -> cnt t = length (contents t).
Proof. unfold BTreeTop.twf, contents. destruct (root t); [tauto | auto]. Qed.

Lemma insert_keeps_wf_sorted_count t k :
  twf t -> sorted (contents t) ->
  let t' := fst (fst (insert t k)) in twf t' /\ sorted (contents t') /\ cnt t' = length (contents t').
Proof.
  intros W S. destruct (step_refines t (OInsert k) W S) as (W' & S' & _). simpl in W', S'.
  cbv zeta. repeat split; auto. apply count_is_length. exact W'.
Qed.

(* equivalent keys keep insertion order: in a multi container the new key goes after every key <= it *)
Lemma insert_multi_stable t k :
  multi = true -> twf t -> sorted (contents t) ->
  let '(t', pos, ins) := insert t k in
  ins = true /\ exists a b, contents t = a ++ b /\ contents t' = a ++ k :: b /\
    Forall (fun x => x <= k) a /\ Forall (fun x => k < x) b /\ iter_index t' pos = length a /\ deref t' pos = Some k.
Proof.
  intros Hm W S. pose proof (insert_refines t k W S) as R.
  destruct (insert t k) as [[t' pos] ins]. destruct R as (W' & E & V & H).
  unfold spec_insert in E. rewrite Hm in E. simpl orb in E. cbv iota in E. inversion E as [[H1 H2 H3]]. clear E.
  split; auto. destruct (ub_index_char (contents t) k (sorted_le _ S)) as [A B].
  pose proof (ub_index_le (contents t) k) as Hle.
  exists (firstn (ub_index (contents t) k) (contents t)), (skipn (ub_index (contents t) k) (contents t)).
  rewrite firstn_skipn. repeat split; auto.
  - rewrite firstn_length. lia.
  - destruct (item_index maxCap Hmc t' pos W' V H) as (_ & -> & _). rewrite H2, H1.
    unfold insert_at. rewrite nth_error_app2; rewrite firstn_length; [|lia].
    replace (ub_index (contents t) k - Nat.min (ub_index (contents t) k) (length (contents t)))%nat with 0%nat by lia. reflexivity.
Qed.

End Hist.

(* a concrete non-trivial state: maxCapacity 2, binary search, multi keys; ten insertions build a tree of height 2 *)
Definition example_ops : list op := map OInsert [5; 3; 8; 1; 9; 3; 7; 3; 2; 6].
Lemma example_nonvacuous :
  let t := fold_left (step 2 1 8 false true) example_ops empty_tree in
  contents t = [1; 2; 3; 3; 3; 5; 6; 7; 8; 9] /\ option_map height (root t) = Some 2%nat /\ cnt t = 10%nat.
Proof. vm_compute. repeat split. Qed.
