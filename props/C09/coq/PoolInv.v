(* C09: the whole-history invariant of the concrete pool model PoolConc and its consequences. *)
From Coq Require Import ZArith List Bool Lia Permutation.
From MomoCommon Require Import GenPrelude.
From C09 Require Import PoolConc.
From C09 Require PoolConcProofs.
Import ListNotations.
Local Open Scope Z_scope.

(* ---------- list helpers ---------- *)
Lemma removez_In x b l : In x (removez b l) <-> In x l /\ x <> b.
Proof.
  induction l as [|a t IH]; simpl; [tauto|]. destruct (Z.eqb_spec a b); simpl; rewrite IH; intuition congruence.
Qed.
Lemma removez_NoDup b l : NoDup l -> NoDup (removez b l).
Proof.
  induction 1 as [|a t Na ND IH]; simpl; [constructor|]. destruct (a =? b); [exact IH|].
  constructor; [rewrite removez_In; tauto|exact IH].
Qed.
Lemma removez_notin b l : ~ In b l -> removez b l = l.
Proof.
  induction l as [|a t IH]; simpl; intros H; [reflexivity|]. destruct (Z.eqb_spec a b); [subst; tauto|]. f_equal. tauto.
Qed.
Lemma blk_eqb_spec a b : reflect (a = b) (blk_eqb a b).
Proof.
  destruct a as [a1 a2], b as [b1 b2]. unfold blk_eqb. simpl.
  destruct (Z.eqb_spec a1 b1), (Z.eqb_spec a2 b2); simpl; constructor; congruence.
Qed.
Lemma removeb_In x b l : In x (removeb b l) <-> In x l /\ x <> b.
Proof.
  induction l as [|a t IH]; simpl; [tauto|]. destruct (blk_eqb_spec a b); simpl; rewrite IH; intuition congruence.
Qed.
Lemma removeb_NoDup b l : NoDup l -> NoDup (removeb b l).
Proof.
  induction 1 as [|a t Na ND IH]; simpl; [constructor|]. destruct (blk_eqb a b); [exact IH|].
  constructor; [rewrite removeb_In; tauto|exact IH].
Qed.
Lemma removeb_notin b l : ~ In b l -> removeb b l = l.
Proof.
  induction l as [|a t IH]; simpl; intros H; [reflexivity|]. destruct (blk_eqb_spec a b); [subst; tauto|]. f_equal. tauto.
Qed.
Lemma lenz_removeb b l : NoDup l -> In b l -> lenz (removeb b l) = lenz l - 1.
Proof.
  induction 1 as [|a t Na ND IH]; intros Hin; [destruct Hin|]. cbn [removeb lenz].
  destruct (blk_eqb_spec a b) as [E|E].
  - subst. rewrite removeb_notin by assumption. lia.
  - destruct Hin as [|Hin]; [congruence|]. cbn [lenz]. rewrite IH by assumption. lia.
Qed.
Lemma lenz_app {A} (l1 l2 : list A) : lenz (l1 ++ l2) = lenz l1 + lenz l2.
Proof. induction l1; cbn [app lenz]; lia. Qed.
Lemma lenz_nonneg {A} (l : list A) : 0 <= lenz l.
Proof. induction l; cbn [lenz]; lia. Qed.
Lemma NoDup_app_iff {A} (l1 l2 : list A) : NoDup (l1 ++ l2) <-> NoDup l1 /\ NoDup l2 /\ (forall x, In x l1 -> In x l2 -> False).
Proof.
  induction l1 as [|a t IH]; simpl.
  - split; [intros H; repeat split; auto; constructor|tauto].
  - split.
    + intros H. inversion H as [|? ? Na ND]; subst. apply IH in ND. destruct ND as (N1 & N2 & D).
      repeat split; auto.
      * constructor; auto. intro; apply Na; apply in_or_app; auto.
      * intros x [E|Hx] H2; [subst; apply Na; apply in_or_app; auto|eauto].
    + intros (N1 & N2 & D). inversion N1 as [|? ? Na ND]; subst. constructor.
      * rewrite in_app_iff. intros [H|H]; [auto|exact (D a (or_introl eq_refl) H)].
      * apply IH. repeat split; auto. intros x H1 H2. exact (D x (or_intror H1) H2).
Qed.
Lemma upto_In n : forall i x, In x (upto n i) <-> i <= x < i + Z.of_nat n.
Proof. induction n as [|n IH]; intros i x; simpl; [lia|]. rewrite IH. lia. Qed.
Lemma upto_NoDup n : forall i, NoDup (upto n i).
Proof. induction n as [|n IH]; intros i; simpl; constructor; auto. rewrite upto_In. lia. Qed.
Lemma upto_length n : forall i, length (upto n i) = n.
Proof. induction n; intros; simpl; auto. Qed.

(* ---------- projections of the small steps ---------- *)
Lemma getp_setp_eq w p x : getp (setp w p x) p = x.
Proof. destruct p; reflexivity. Qed.
Lemma getp_setp_neq w p q x : p <> q -> getp (setp w q x) p = getp w p.
Proof. destruct p, q; try congruence; reflexivity. Qed.

Lemma chain_walk_ext n : forall w w' b i,
  (forall j, In j (chain_walk n w b i) -> nx w' b j = nx w b j) -> chain_walk n w' b i = chain_walk n w b i.
Proof.
  induction n as [|n IH]; intros w w' b i H; simpl; [reflexivity|]. f_equal.
  rewrite (H i) by (simpl; auto). apply IH. intros j Hj. apply H. simpl. right. exact Hj.
Qed.
Lemma chain_of_ext w w' b : fc w' b = fc w b -> fb w' b = fb w b -> (forall j, nx w' b j = nx w b j) -> chain_of w' b = chain_of w b.
Proof. intros E1 E2 E3. unfold chain_of. rewrite E1, E2. apply chain_walk_ext. intros; apply E3. Qed.
Lemma chain_walk_length n w b i : length (chain_walk n w b i) = n.
Proof. revert i. induction n; intros; simpl; auto. Qed.

(* a world differs from another only in its pool records *)
Definition same_maps (w' w : cworld) : Prop := fb w' = fb w /\ fc w' = fc w /\ nx w' = nx w /\ fresh w' = fresh w /\ returned w' = returned w.
Lemma same_maps_chain w' w b : same_maps w' w -> chain_of w' b = chain_of w b.
Proof. intros (E1 & E2 & E3 & _). apply chain_of_ext; [rewrite E2|rewrite E1|rewrite E3]; reflexivity. Qed.
Lemma setp_same_maps w p x : same_maps (setp w p x) w.
Proof. destruct p; repeat split. Qed.

Section Inv.
Variable C : Z.
Hypothesis HC : 1 <= C.

Definition own (x : cpool) : list Z := lfull x ++ lfree x.
Definition lb (x : cpool) : list blk := live x ++ cache x.

(* facts about the maps that do not depend on the pools *)
Definition G (w : cworld) : Prop :=
  (forall b, 0 <= fc w b /\ NoDup (chain_of w b) /\ (forall x, In x (chain_of w b) -> 0 <= x < C)) /\
  (forall b, In b (returned w) -> b < fresh w) /\ 1 <= fresh w.

Definition okblk (w : cworld) (x : cpool) (bk : blk) : Prop :=
  0 <= snd bk < C /\ ~ In (snd bk) (chain_of w (fst bk)) /\ In (fst bk) (own x).

(* facts about one pool record; hx is the pool's "hole": a block that is, in the middle of an operation, neither free nor
   live nor cached (just taken from a chain or the cache, or just removed from the live set and not yet pushed back) *)
Definition Pl (w : cworld) (x : cpool) (hx : option blk) : Prop :=
  NoDup (own x) /\
  (forall b, In b (own x) -> 1 <= b < fresh w /\ ~ In b (returned w)) /\
  (forall b, In b (lfree x) -> 1 <= fc w b) /\
  (forall b, In b (lfull x) -> fc w b = 0) /\
  (lfree x = [] -> lfull x = []) /\
  NoDup (lb x) /\
  (forall bk, In bk (lb x) \/ hx = Some bk -> okblk w x bk) /\
  (forall bk, hx = Some bk -> ~ In bk (lb x)) /\
  acount x = lenz (live x).

(* the invariant, seen from pool q (the pool an operation works on); the other pool has no hole *)
Definition Jq (q : bool) (hq : option blk) (w : cworld) : Prop :=
  G w /\ Pl w (getp w q) hq /\ Pl w (getp w (negb q)) None /\
  (forall b, In b (own (getp w q)) -> In b (own (getp w (negb q))) -> False).
Definition J (w : cworld) : Prop := Jq false None w.

Lemma Jq_sym q w : Jq q None w <-> Jq (negb q) None w.
Proof. unfold Jq. rewrite negb_involutive. split; intros (g & a & b & d); (split; [exact g|split; [exact b|split; [exact a|intros x H1 H2; exact (d x H2 H1)]]]). Qed.
Lemma J_any q w : J w <-> Jq q None w.
Proof. destruct q; [apply (Jq_sym false)|reflexivity]. Qed.

Lemma Pl_empty w : Pl w empty_pool None.
Proof.
  unfold Pl, own, lb, okblk. simpl. split; [constructor|]. split; [intros b []|]. split; [intros b []|]. split; [intros b []|].
  split; [reflexivity|]. split; [constructor|]. split; [intros bk [[]|E]; discriminate|]. split; [intros bk E; discriminate|reflexivity].
Qed.
Lemma J_empty : J empty_world.
Proof.
  unfold J, Jq. split; [|split; [apply Pl_empty|split; [apply Pl_empty|intros b []]]].
  unfold G, chain_of. simpl. split; [intros b; split; [lia|split; [constructor|intros x []]]|split; [intros b []|lia]].
Qed.

(* a pool record untouched by a step keeps its facts if the maps agree on its buffers *)
Lemma Pl_frame w w' x :
  Pl w x None ->
  (forall b, In b (own x) -> fc w' b = fc w b /\ chain_of w' b = chain_of w b) ->
  fresh w <= fresh w' ->
  (forall b, In b (own x) -> ~ In b (returned w')) ->
  Pl w' x None.
Proof.
  intros (P1 & P2 & P3 & P4 & P5 & P6 & P7 & P8 & P9) M F R. unfold Pl.
  split; [exact P1|]. split; [intros b Hb; specialize (P2 b Hb); specialize (R b Hb); split; [lia|exact R]|].
  split; [intros b Hb; destruct (M b) as (E & _); [unfold own; apply in_or_app; auto|]; rewrite E; auto|].
  split; [intros b Hb; destruct (M b) as (E & _); [unfold own; apply in_or_app; auto|]; rewrite E; auto|].
  split; [exact P5|]. split; [exact P6|]. split; [|split; [exact P8|exact P9]].
  intros bk Hb. destruct (P7 bk Hb) as (a1 & a2 & a3). unfold okblk. split; [exact a1|]. split; [|exact a3].
  destruct (M (fst bk) a3) as (_ & E). rewrite E. exact a2.
Qed.

Lemma G_same_maps w w' : same_maps w' w -> G w -> G w'.
Proof.
  intros SM (g1 & g2 & g3). pose proof SM as (E1 & E2 & E3 & E4 & E5). unfold G. rewrite E4, E5, E2.
  split; [|split; assumption]. intros b. rewrite (same_maps_chain _ _ b SM). apply g1.
Qed.
Lemma Pl_same_maps w w' x hx : same_maps w' w -> Pl w x hx -> Pl w' x hx.
Proof.
  intros SM (P1 & P2 & P3 & P4 & P5 & P6 & P7 & P8 & P9). pose proof SM as (E1 & E2 & E3 & E4 & E5).
  unfold Pl, okblk in *. rewrite E4, E5, E2. repeat (split; [assumption|]). split; [|split; assumption].
  intros bk Hb. rewrite (same_maps_chain _ _ (fst bk) SM). apply P7. exact Hb.
Qed.

(* a step that only replaces the record of pool q *)
Lemma step_pool q hq hq' w x' :
  Jq q hq w -> Pl w x' hq' -> (forall b, In b (own x') -> In b (own (getp w q))) -> Jq q hq' (setp w q x').
Proof.
  intros (g & a & o & d) P Sub. pose proof (setp_same_maps w q x') as SM.
  unfold Jq. rewrite getp_setp_eq. rewrite getp_setp_neq by (destruct q; discriminate).
  split; [exact (G_same_maps _ _ SM g)|]. split; [exact (Pl_same_maps _ _ _ _ SM P)|].
  split; [exact (Pl_same_maps _ _ _ _ SM o)|]. intros b H1 H2. exact (d b (Sub b H1) H2).
Qed.

Lemma add_live_J q bk w : Jq q (Some bk) w -> Jq q None (add_live w q bk).
Proof.
  intros Jw. unfold add_live. apply step_pool with (hq := Some bk); [exact Jw| |auto].
  destruct Jw as (_ & (P1 & P2 & P3 & P4 & P5 & P6 & P7 & P8 & P9) & _). set (x := getp w q) in *.
  unfold Pl, own, lb in *. cbn [lfull lfree cache acount live].
  repeat (split; [assumption|]). split; [|split; [|split]].
  - simpl. constructor; [apply P8; reflexivity|exact P6].
  - intros bk' [H|H]; [|discriminate]. simpl in H. unfold okblk, own in *. cbn [lfull lfree].
    destruct H as [<-|H]; apply P7; auto.
  - intros bk' E. discriminate.
  - cbn [lenz]. rewrite P9. lia.
Qed.

Lemma remove_live_J q bk w : Jq q None w -> In bk (live (getp w q)) -> Jq q (Some bk) (remove_live w q bk).
Proof.
  intros Jw Hin. unfold remove_live. apply step_pool with (hq := None); [exact Jw| |auto].
  destruct Jw as (_ & (P1 & P2 & P3 & P4 & P5 & P6 & P7 & P8 & P9) & _). set (x := getp w q) in *.
  unfold Pl, own, lb in *. cbn [lfull lfree cache acount live].
  apply NoDup_app_iff in P6. destruct P6 as (N1 & N2 & D).
  repeat (split; [assumption|]). split; [|split; [|split]].
  - apply NoDup_app_iff. split; [apply removeb_NoDup; exact N1|]. split; [exact N2|].
    intros y H1 H2. apply removeb_In in H1. exact (D y (proj1 H1) H2).
  - intros bk' [H|H].
    + unfold okblk, own in *. cbn [lfull lfree]. apply P7. left. rewrite in_app_iff in *. rewrite removeb_In in H. tauto.
    + inversion H; subst. unfold okblk, own in *. cbn [lfull lfree]. apply P7. left. apply in_or_app. auto.
  - intros bk' E. inversion E; subst. rewrite in_app_iff, removeb_In. intros [[_ N]|H]; [congruence|exact (D bk' Hin H)].
  - rewrite lenz_removeb by assumption. lia.
Qed.

Lemma cache_push_J q bk w : Jq q (Some bk) w -> Jq q None (set_cache w q (bk :: cache (getp w q))).
Proof.
  intros Jw. unfold set_cache. apply step_pool with (hq := Some bk); [exact Jw| |auto].
  destruct Jw as (_ & (P1 & P2 & P3 & P4 & P5 & P6 & P7 & P8 & P9) & _). set (x := getp w q) in *.
  unfold Pl, own, lb in *. cbn [lfull lfree cache acount live].
  repeat (split; [assumption|]). split; [|split; [|split]].
  - apply NoDup_app_iff in P6. destruct P6 as (N1 & N2 & D). apply NoDup_app_iff. split; [exact N1|]. split.
    + constructor; [|exact N2]. intro H. apply (P8 bk eq_refl). apply in_or_app. auto.
    + intros y H1 [E|H2]; [subst y; apply (P8 bk eq_refl); apply in_or_app; auto|exact (D y H1 H2)].
  - intros bk' [H|H]; [|discriminate]. unfold okblk, own in *. cbn [lfull lfree]. apply P7.
    rewrite in_app_iff in *. simpl in H. destruct H as [H|[<-|H]]; auto.
  - intros bk' E. discriminate.
  - exact P9.
Qed.

Lemma cache_pop_J q bk rest w : Jq q None w -> cache (getp w q) = bk :: rest -> Jq q (Some bk) (set_cache w q rest).
Proof.
  intros Jw Ec. unfold set_cache. apply step_pool with (hq := None); [exact Jw| |auto].
  destruct Jw as (_ & (P1 & P2 & P3 & P4 & P5 & P6 & P7 & P8 & P9) & _). set (x := getp w q) in *.
  unfold Pl, own, lb in *. cbn [lfull lfree cache acount live]. rewrite Ec in *.
  apply NoDup_app_iff in P6. destruct P6 as (N1 & N2 & D). inversion N2 as [|? ? Nb N2']; subst.
  repeat (split; [assumption|]). split; [|split; [|split]].
  - apply NoDup_app_iff. split; [exact N1|]. split; [exact N2'|]. intros y H1 H2. apply (D y H1). right. exact H2.
  - intros bk' [H|H].
    + unfold okblk, own in *. cbn [lfull lfree]. apply P7. left. rewrite in_app_iff in *. simpl. tauto.
    + inversion H; subst. unfold okblk, own in *. cbn [lfull lfree]. apply P7. left. apply in_or_app. simpl. auto.
  - intros bk' E. inversion E; subst. rewrite in_app_iff. intros [H|H]; [apply (D bk' H); left; reflexivity|exact (Nb H)].
  - exact P9.
Qed.

(* ---------- what the invariant says about the next Allocate and about buffer release (any state satisfying it) ---------- *)
Lemma chain_head w b : 1 <= fc w b -> In (fb w b) (chain_of w b).
Proof.
  intros H. unfold chain_of. replace (Z.to_nat (fc w b)) with (S (Z.to_nat (fc w b - 1))) by lia. simpl. auto.
Qed.

(* the block pvNewBlock takes from the head buffer is neither live nor cached in either pool *)
Lemma chain_block_not_live q w head rest :
  Jq q None w -> lfree (getp w q) = head :: rest ->
  ~ In (head, fb w head) (lb (getp w q)) /\ ~ In (head, fb w head) (lb (getp w (negb q))).
Proof.
  intros (g & (P1 & P2 & P3 & P4 & P5 & P6 & P7 & P8 & P9) & (O1 & O2 & O3 & O4 & O5 & O6 & O7 & O8 & O9) & d) E.
  assert (In head (lfree (getp w q))) as Hh by (rewrite E; left; reflexivity).
  pose proof (chain_head w head (P3 head Hh)) as Hc.
  split; intro H.
  - destruct (P7 _ (or_introl H)) as (_ & N & _). exact (N Hc).
  - destruct (O7 _ (or_introl H)) as (_ & _ & Ow). simpl in Ow. apply (d head); [unfold own; apply in_or_app; auto|exact Ow].
Qed.

(* the block Allocate pops from the cache is not live in either pool *)
Lemma cache_block_not_live q w bk rest :
  Jq q None w -> cache (getp w q) = bk :: rest ->
  ~ In bk (live (getp w q)) /\ ~ In bk (lb (getp w (negb q))).
Proof.
  intros (g & (P1 & P2 & P3 & P4 & P5 & P6 & P7 & P8 & P9) & (O1 & O2 & O3 & O4 & O5 & O6 & O7 & O8 & O9) & d) E.
  unfold lb in P6. rewrite E in P6. apply NoDup_app_iff in P6. destruct P6 as (_ & _ & D).
  split; intro H.
  - apply (D bk H). left. reflexivity.
  - destruct (O7 _ (or_introl H)) as (_ & _ & Ow).
    destruct (P7 bk) as (_ & _ & Pw); [left; unfold lb; rewrite E; apply in_or_app; right; left; reflexivity|].
    exact (d _ Pw Ow).
Qed.

(* a buffer whose freeBlockCount equals blockCount (the only situation in which pvDeleteBlock returns it to the manager)
   has no live and no cached block *)
Lemma full_count_no_live q w b :
  Jq q None w -> In b (own (getp w q)) -> fc w b = C ->
  forall bk, In bk (lb (getp w q)) \/ In bk (lb (getp w (negb q))) -> fst bk <> b.
Proof.
  intros ((g1 & g2 & g3) & (P1 & P2 & P3 & P4 & P5 & P6 & P7 & P8 & P9) & (O1 & O2 & O3 & O4 & O5 & O6 & O7 & O8 & O9) & d) Hb Hc bk Hin E.
  destruct (g1 b) as (F0 & ND & R).
  assert (forall j, 0 <= j < C -> In j (chain_of w b)) as All.
  { apply PoolConcProofs.full_chain_has_all; auto. rewrite PoolConcProofs.chain_of_length by assumption. exact Hc. }
  destruct Hin as [H|H].
  - destruct (P7 _ (or_introl H)) as (Rg & N & _). rewrite E in N. exact (N (All _ Rg)).
  - destruct (O7 _ (or_introl H)) as (_ & _ & Ow). rewrite E in Ow. exact (d b Hb Ow).
Qed.
End Inv.
