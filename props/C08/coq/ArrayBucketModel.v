(* C08 -- executable model of momo::internal::ArrayBucket (details/ArrayBucket.h:261-461): the value array of
   one key of a HashMultiMap.  The representation is a state machine
       null  |  pooled "fast" array (state byte = (memPoolIndex << 4) | count in the first byte of the block)
             |  heap momo::Array (capacity, count)            (state byte 0)
   The functions below follow the C++ branch by branch; a failing MOMO_ASSERT is the absorbing state RStuck,
   which the theorems show is never reached.  M = maxFastCount (0 < M < 16, MOMO_STATIC_ASSERT at line 93). *)
From Coq Require Import ZArith List Lia Bool.
Import ListNotations.
Local Open Scope Z_scope.

Definition wrap8 (x : Z) : Z := x mod 256.

Inductive repr : Type :=
| RNull                         (* mPtr == nullptr *)
| RFast (st : Z)                (* pooled block, st = state byte, memPoolIndex = st >> 4 > 0, count = st & 15 *)
| RHeap (cap cnt : Z)           (* heap Array in a block of the array pool; state byte 0 *)
| RStuck.                       (* a MOMO_ASSERT of the source failed *)

(* pvMakeState / pvGetMemPoolIndex / pvGetFastCount, lines 375-396 *)
Definition make_state (pool cnt : Z) : Z := wrap8 (Z.lor (Z.shiftl pool 4) cnt).
Definition pool_of (st : Z) : Z := Z.shiftr st 4.
Definition fcount_of (st : Z) : Z := Z.land st 15.

(* ArraySettings<>::GrowCapacity(capacity, minNewCapacity, ArrayGrowCause::add, linear = false), Array.h:160-177 *)
Definition grow_capacity (cap minNew : Z) : Z :=
  let nc := if cap <=? 2 then 4
            else if cap <=? 64 then cap * 2
            else if cap <? 150 then cap + 64
            else cap + (cap / 50) * 23 in
  if nc <? minNew then minNew else nc.

(* Array::Shrink(capacity), Array.h:759-773 (internalCapacity = 0) *)
Definition shrink_cap (cap req cnt : Z) : Z :=
  if cap <=? req then cap else if req <? cnt then cnt else req.

Arguments make_state : simpl never.
Arguments pool_of : simpl never.
Arguments fcount_of : simpl never.
Arguments wrap8 : simpl never.
Arguments grow_capacity : simpl never.
Arguments shrink_cap : simpl never.

(* pvGetBounds().GetCount(), lines 420-435 *)
Definition rcount (r : repr) : Z :=
  match r with RNull => 0 | RFast st => fcount_of st | RHeap _ c => c | RStuck => 0 end.

(* capacity of the current representation: pool index for a pooled block *)
Definition rcap (r : repr) : Z :=
  match r with RNull => 0 | RFast st => pool_of st | RHeap cap _ => cap | RStuck => 0 end.

(* AddBackCrt, lines 261-320 *)
Definition add_back (M : Z) (r : repr) : repr :=
  match r with
  | RNull =>
      (* newCount = 1; pvGetFastMemPoolIndex asserts 0 < 1 <= maxFastCount *)
      if 1 <=? M then RFast (make_state 1 1) else RStuck
  | RFast st =>
      let pool := pool_of st in
      let cnt := fcount_of st in
      if cnt <=? pool then                                   (* MOMO_ASSERT(count <= memPoolIndex) *)
        if cnt =? pool then
          let nc := cnt + 1 in
          if nc <=? M then RFast (make_state nc nc)          (* next pool, relocate *)
          else RHeap (M * 2) nc                              (* Array::CreateCap(maxFastCount * 2), SetCount(newCount) *)
        else RFast (wrap8 (st + 1))                          (* pvSetState(pvGetState() + 1) *)
      else RStuck
  | RHeap cap cnt =>
      if cnt <? cap then RHeap cap (cnt + 1)                 (* pvAddBackNogrow *)
      else RHeap (grow_capacity cap (cnt + 1)) (cnt + 1)     (* pvAddBackGrow *)
  | RStuck => RStuck
  end.

(* pvRemoveAll<false>, lines 437-458 *)
Definition remove_all (r : repr) : repr :=
  match r with RStuck => RStuck | _ => RNull end.

(* RemoveBack, lines 322-349 *)
Definition remove_back (r : repr) : repr :=
  let count := rcount r in
  if count <=? 0 then RStuck                                 (* MOMO_ASSERT(count > 0) *)
  else if count =? 1 then remove_all r
  else match r with
       | RFast st => RFast (wrap8 (st - 1))                  (* pvSetState(pvGetState() - 1) *)
       | RHeap cap cnt =>
           let cnt' := cnt - 1 in                            (* array.RemoveBack() *)
           if (2 <? count) && (count <=? cap / 4)
           then RHeap (shrink_cap cap (count * 2) cnt') cnt' (* array.Shrink(count * 2), count = OLD count *)
           else RHeap cap cnt'
       | _ => RStuck
       end.

(* copy constructor ArrayBucket(Params&, const ArrayBucket&), lines 192-226: n = source count *)
Definition copy_repr (M n : Z) : repr :=
  if n =? 0 then RNull
  else if n <=? M then RFast (make_state n n)
  else RHeap n n.                                            (* Array(begin, end): capacity = count *)

(* ---------------------------------------------------------------- the array with its content *)
Definition ab : Type := (repr * list Z)%type.
Definition ab_null : ab := (RNull, []).
Definition ab_vals (a : ab) : list Z := snd a.

Definition ab_add (M : Z) (v : Z) (a : ab) : ab := (add_back M (fst a), snd a ++ [v]).

(* list helpers *)
Fixpoint set_nth (i : nat) (x : Z) (l : list Z) : list Z :=
  match l with
  | [] => []
  | y :: r => match i with O => x :: r | S j => y :: set_nth j x r end
  end.

(* HashMultiMap::Remove(iter), HashMultiMap.h:1059-1074, on one value array:
   AssignAnywayValue(last, values[i]); RemoveBack *)
Definition swap_remove (i : nat) (l : list Z) : list Z :=
  removelast (set_nth i (last l 0) l).

Definition ab_remove_at (i : nat) (a : ab) : ab := (remove_back (fst a), swap_remove i (snd a)).
Definition ab_clear (a : ab) : ab := (remove_all (fst a), []).
Definition ab_copy (M : Z) (a : ab) : ab := (copy_repr M (rcount (fst a)), snd a).   (* count = bucket.GetBounds().GetCount() *)

(* ---------------------------------------------------------------- invariant *)
Definition repr_inv (M : Z) (r : repr) : Prop :=
  match r with
  | RNull => True
  | RFast st => 0 <= st < 256 /\ 1 <= fcount_of st <= pool_of st /\ pool_of st <= M
  | RHeap cap cnt => 1 <= cnt <= cap
  | RStuck => False
  end.

Definition ab_inv (M : Z) (a : ab) : Prop :=
  repr_inv M (fst a) /\ rcount (fst a) = Z.of_nat (length (snd a)).

(* ---------------------------------------------------------------- bit-level facts by finite sweep *)
Definition byte_ok (st : Z) : bool :=
  (pool_of st =? st / 16) && (fcount_of st =? st mod 16).

Lemma bytes_sweep : forallb byte_ok (map Z.of_nat (seq 0 256)) = true.
Proof. vm_compute. reflexivity. Qed.

Lemma byte_facts st : 0 <= st < 256 -> pool_of st = st / 16 /\ fcount_of st = st mod 16.
Proof.
  intros H. pose proof bytes_sweep as S. rewrite forallb_forall in S.
  assert (In st (map Z.of_nat (seq 0 256))) as HI.
  { apply in_map_iff. exists (Z.to_nat st). split; [lia|]. apply in_seq. lia. }
  specialize (S _ HI). unfold byte_ok in S. apply andb_true_iff in S. destruct S as [A B].
  apply Z.eqb_eq in A. apply Z.eqb_eq in B. auto.
Qed.

Definition mk_ok (pc : Z) : bool :=
  let p := pc / 16 in let c := pc mod 16 in make_state p c =? 16 * p + c.

Lemma mk_sweep : forallb mk_ok (map Z.of_nat (seq 0 256)) = true.
Proof. vm_compute. reflexivity. Qed.

Lemma make_state_spec p c : 0 <= p < 16 -> 0 <= c < 16 -> make_state p c = 16 * p + c.
Proof.
  intros Hp Hc. pose proof mk_sweep as S. rewrite forallb_forall in S.
  assert (In (16 * p + c) (map Z.of_nat (seq 0 256))) as HI.
  { apply in_map_iff. exists (Z.to_nat (16 * p + c)). split; [lia|]. apply in_seq. lia. }
  specialize (S _ HI). unfold mk_ok in S. apply Z.eqb_eq in S.
  replace ((16 * p + c) / 16) with p in S by (apply Z.div_unique with c; lia).
  replace ((16 * p + c) mod 16) with c in S by (apply Z.mod_unique with p; lia).
  exact S.
Qed.

Lemma fast_state_facts p c : 0 <= p < 16 -> 0 <= c < 16 ->
  0 <= make_state p c < 256 /\ pool_of (make_state p c) = p /\ fcount_of (make_state p c) = c.
Proof.
  intros Hp Hc. rewrite make_state_spec by assumption.
  assert (0 <= 16 * p + c < 256) as R by lia.
  destruct (byte_facts _ R) as [A B]. rewrite A, B. split; [lia|]. split.
  - symmetry; apply Z.div_unique with c; lia.
  - symmetry; apply Z.mod_unique with p; lia.
Qed.

(* st + 1 / st - 1 inside one pool block *)
Lemma fast_incr st : 0 <= st < 256 -> fcount_of st < pool_of st ->
  0 <= wrap8 (st + 1) < 256 /\ pool_of (wrap8 (st + 1)) = pool_of st /\ fcount_of (wrap8 (st + 1)) = fcount_of st + 1.
Proof.
  intros H Hlt. destruct (byte_facts _ H) as [A B]. rewrite A, B in Hlt.
  assert (st mod 16 < 15) as Hm.
  { assert (st / 16 < 16) by (apply Z.div_lt_upper_bound; lia). lia. }
  assert (st + 1 < 256) as Hs.
  { pose proof (Z.div_mod st 16 ltac:(lia)). assert (st / 16 < 16) by (apply Z.div_lt_upper_bound; lia). lia. }
  unfold wrap8. rewrite Z.mod_small by lia.
  destruct (byte_facts (st + 1) ltac:(lia)) as [A' B']. rewrite A', B', A, B.
  pose proof (Z.div_mod st 16 ltac:(lia)) as E. pose proof (Z.mod_pos_bound st 16 ltac:(lia)).
  split; [lia|]. split.
  - symmetry; apply Z.div_unique with (st mod 16 + 1); lia.
  - symmetry; apply Z.mod_unique with (st / 16); lia.
Qed.

Lemma fast_decr st : 0 <= st < 256 -> 1 <= fcount_of st ->
  0 <= wrap8 (st - 1) < 256 /\ pool_of (wrap8 (st - 1)) = pool_of st /\ fcount_of (wrap8 (st - 1)) = fcount_of st - 1.
Proof.
  intros H Hge. destruct (byte_facts _ H) as [A B]. rewrite B in Hge.
  pose proof (Z.div_mod st 16 ltac:(lia)) as E. pose proof (Z.mod_pos_bound st 16 ltac:(lia)).
  assert (0 <= st / 16) by (apply Z.div_pos; lia).
  unfold wrap8. rewrite Z.mod_small by lia.
  destruct (byte_facts (st - 1) ltac:(lia)) as [A' B']. rewrite A', B', A, B.
  split; [lia|]. split.
  - symmetry; apply Z.div_unique with (st mod 16 - 1); lia.
  - symmetry; apply Z.mod_unique with (st / 16); lia.
Qed.

(* ---------------------------------------------------------------- capacity arithmetic *)
Lemma grow_capacity_ge cap mn : mn <= grow_capacity cap mn.
Proof. unfold grow_capacity. destruct (Z.ltb_spec (if cap <=? 2 then 4 else if cap <=? 64 then cap * 2
  else if cap <? 150 then cap + 64 else cap + cap / 50 * 23) mn); lia. Qed.

Lemma grow_capacity_gt cap mn : 0 <= cap -> cap < grow_capacity cap mn.
Proof.
  intros H. unfold grow_capacity.
  assert (cap < (if cap <=? 2 then 4 else if cap <=? 64 then cap * 2
      else if cap <? 150 then cap + 64 else cap + cap / 50 * 23)) as G.
  { destruct (Z.leb_spec cap 2); [lia|]. destruct (Z.leb_spec cap 64); [lia|].
    destruct (Z.ltb_spec cap 150); [lia|].
    assert (3 <= cap / 50) by (apply Z.div_le_lower_bound; lia). lia. }
  destruct (Z.ltb_spec (if cap <=? 2 then 4 else if cap <=? 64 then cap * 2
      else if cap <? 150 then cap + 64 else cap + cap / 50 * 23) mn); lia.
Qed.

Lemma shrink_cap_bounds cap req cnt : cnt <= cap -> cnt <= shrink_cap cap req cnt <= cap.
Proof.
  intros H. unfold shrink_cap. destruct (Z.leb_spec cap req); [lia|].
  destruct (Z.ltb_spec req cnt); lia.
Qed.

(* ---------------------------------------------------------------- invariant preservation *)
Section Inv.
Variable M : Z.
Hypothesis HM : 0 < M < 16.

Lemma add_back_inv r : repr_inv M r -> repr_inv M (add_back M r) /\ rcount (add_back M r) = rcount r + 1.
Proof.
  destruct r as [|st|cap cnt|]; simpl; intros H.
  - destruct (Z.leb_spec 1 M); [|lia].
    destruct (fast_state_facts 1 1 ltac:(lia) ltac:(lia)) as (A & B & C).
    simpl. rewrite B, C. split; [split; [exact A|lia]|lia].
  - destruct H as (Hst & Hc & Hp).
    destruct (Z.leb_spec (fcount_of st) (pool_of st)); [|lia].
    destruct (Z.eqb_spec (fcount_of st) (pool_of st)) as [E|NE].
    + destruct (Z.leb_spec (fcount_of st + 1) M).
      * destruct (fast_state_facts (fcount_of st + 1) (fcount_of st + 1) ltac:(lia) ltac:(lia)) as (A & B & C).
        simpl. rewrite B, C. split; [split; [exact A|lia]|lia].
      * simpl. split; lia.
    + destruct (fast_incr st Hst ltac:(lia)) as (A & B & C). simpl. rewrite B, C.
      split; [split; [exact A|lia]|lia].
  - destruct (Z.ltb_spec cnt cap); simpl.
    + split; lia.
    + pose proof (grow_capacity_ge cap (cnt + 1)). split; lia.
  - contradiction.
Qed.

Lemma remove_back_inv r : repr_inv M r -> 1 <= rcount r ->
  repr_inv M (remove_back r) /\ rcount (remove_back r) = rcount r - 1.
Proof.
  intros H Hc. unfold remove_back.
  destruct (Z.leb_spec (rcount r) 0); [lia|].
  destruct (Z.eqb_spec (rcount r) 1) as [E|NE].
  - destruct r; simpl in *; try contradiction; split; auto; lia.
  - destruct r as [|st|cap cnt|]; simpl in *; try lia; try contradiction.
    + destruct H as (Hst & Hcc & Hp).
      destruct (fast_decr st Hst ltac:(lia)) as (A & B & C). simpl. rewrite B, C.
      split; [split; [exact A|lia]|lia].
    + destruct ((2 <? cnt) && (cnt <=? cap / 4)); simpl.
      * pose proof (shrink_cap_bounds cap (cnt * 2) (cnt - 1) ltac:(lia)). split; lia.
      * split; lia.
Qed.

Lemma remove_all_inv r : repr_inv M r -> repr_inv M (remove_all r) /\ rcount (remove_all r) = 0.
Proof. destruct r; simpl; intros; try contradiction; auto. Qed.

Lemma copy_repr_inv n : 0 <= n -> repr_inv M (copy_repr M n) /\ rcount (copy_repr M n) = n.
Proof.
  intros Hn. unfold copy_repr. destruct (Z.eqb_spec n 0); [simpl; split; [auto|lia]|].
  destruct (Z.leb_spec n M).
  - destruct (fast_state_facts n n ltac:(lia) ltac:(lia)) as (A & B & C). simpl. rewrite B, C.
    split; [split; [exact A|lia]|lia].
  - simpl. split; lia.
Qed.

(* ---- transitions only as coded: which representation kind can follow which *)
Definition is_null r := match r with RNull => true | _ => false end.
Definition is_fast r := match r with RFast _ => true | _ => false end.
Definition is_heap r := match r with RHeap _ _ => true | _ => false end.

Lemma add_back_transitions r : repr_inv M r ->
  match r, add_back M r with
  | RNull, RFast st' => pool_of st' = 1 /\ fcount_of st' = 1
  | RFast st, RFast st' =>
      (fcount_of st < pool_of st /\ pool_of st' = pool_of st /\ fcount_of st' = fcount_of st + 1) \/
      (fcount_of st = pool_of st /\ pool_of st < M /\ pool_of st' = pool_of st + 1 /\ fcount_of st' = pool_of st + 1)
  | RFast st, RHeap cap' cnt' => fcount_of st = M /\ pool_of st = M /\ cap' = M * 2 /\ cnt' = M + 1
  | RHeap cap cnt, RHeap cap' cnt' =>
      cnt' = cnt + 1 /\ ((cnt < cap /\ cap' = cap) \/ (cnt = cap /\ cap' = grow_capacity cap (cnt + 1) /\ cap < cap'))
  | _, _ => False
  end.
Proof.
  destruct r as [|st|cap cnt|]; simpl; intros H.
  - destruct (Z.leb_spec 1 M); [|lia].
    destruct (fast_state_facts 1 1 ltac:(lia) ltac:(lia)) as (A & B & C). auto.
  - destruct H as (Hst & Hc & Hp).
    destruct (Z.leb_spec (fcount_of st) (pool_of st)); [|lia].
    destruct (Z.eqb_spec (fcount_of st) (pool_of st)) as [E|NE].
    + destruct (Z.leb_spec (fcount_of st + 1) M).
      * destruct (fast_state_facts (fcount_of st + 1) (fcount_of st + 1) ltac:(lia) ltac:(lia)) as (A & B & C).
        right. rewrite B, C. lia.
      * lia.
    + destruct (fast_incr st Hst ltac:(lia)) as (A & B & C). left. rewrite B, C. lia.
  - destruct (Z.ltb_spec cnt cap).
    + split; [reflexivity|]. left; lia.
    + split; [reflexivity|]. right. pose proof (grow_capacity_gt cap (cnt + 1) ltac:(lia)). lia.
  - contradiction.
Qed.

Lemma remove_back_transitions r : repr_inv M r -> 1 <= rcount r ->
  match r, remove_back r with
  | RFast st, RNull => fcount_of st = 1
  | RHeap cap cnt, RNull => cnt = 1
  | RFast st, RFast st' => 2 <= fcount_of st /\ pool_of st' = pool_of st /\ fcount_of st' = fcount_of st - 1
  | RHeap cap cnt, RHeap cap' cnt' =>
      2 <= cnt /\ cnt' = cnt - 1 /\
      ((2 < cnt /\ cnt <= cap / 4 /\ cap' = cnt * 2) \/ (~ (2 < cnt /\ cnt <= cap / 4) /\ cap' = cap))
  | _, _ => False
  end.
Proof.
  intros H Hc. destruct r as [|st|cap cnt|]; unfold remove_back; simpl in *; try lia; try contradiction.
  - destruct (Z.leb_spec (fcount_of st) 0); [lia|].
    destruct (Z.eqb_spec (fcount_of st) 1) as [E|NE]; [exact E|].
    destruct H as (Hst & Hcc & Hp).
    destruct (fast_decr st Hst ltac:(lia)) as (A & B & C). rewrite B, C. lia.
  - destruct (Z.leb_spec cnt 0); [lia|].
    destruct (Z.eqb_spec cnt 1) as [E|NE]; [exact E|].
    destruct (Z.ltb_spec 2 cnt); destruct (Z.leb_spec cnt (cap / 4)); simpl; try (split; [lia|split; [lia|right; lia]]).
    split; [lia|]. split; [lia|]. left.
    unfold shrink_cap.
    assert (4 * cnt <= cap) by (pose proof (Z.div_mod cap 4 ltac:(lia)); pose proof (Z.mod_pos_bound cap 4 ltac:(lia)); lia).
    destruct (Z.leb_spec cap (cnt * 2)); [lia|]. destruct (Z.ltb_spec (cnt * 2) (cnt - 1)); lia.
Qed.

(* ---- the array with its content *)
Lemma length_set_nth i x l : length (set_nth i x l) = length l.
Proof. revert i; induction l; intros [|i]; simpl; auto. Qed.

Lemma length_swap_remove i l : length (swap_remove i l) = pred (length l).
Proof.
  unfold swap_remove. destruct (set_nth i (last l 0) l) eqn:E.
  - pose proof (length_set_nth i (last l 0) l) as L. rewrite E in L. simpl in *. rewrite <- L. reflexivity.
  - pose proof (length_set_nth i (last l 0) l) as L. rewrite E in L. rewrite <- L.
    assert (z :: l0 <> []) by discriminate.
    pose proof (app_removelast_last 0 H) as A.
    apply (f_equal (@length Z)) in A. rewrite app_length in A. simpl in A. simpl. lia.
Qed.

Lemma ab_null_inv : ab_inv M ab_null.
Proof. split; simpl; auto. Qed.

Lemma ab_add_inv v a : ab_inv M a -> ab_inv M (ab_add M v a).
Proof.
  intros [H C]. destruct (add_back_inv _ H) as [H' C']. split; simpl; [exact H'|].
  rewrite C', C, app_length. simpl. lia.
Qed.

Lemma ab_remove_at_inv i a : ab_inv M a -> (i < length (snd a))%nat -> ab_inv M (ab_remove_at i a).
Proof.
  intros [H C] Hi. destruct (remove_back_inv _ H ltac:(lia)) as [H' C']. split; simpl; [exact H'|].
  rewrite C', C, length_swap_remove. lia.
Qed.

Lemma ab_clear_inv a : ab_inv M a -> ab_inv M (ab_clear a).
Proof. intros [H C]. destruct (remove_all_inv _ H) as [H' C']. split; simpl; auto. Qed.

Lemma ab_copy_inv a : ab_inv M a -> ab_inv M (ab_copy M a).
Proof.
  intros [HI HC].
  destruct (copy_repr_inv (rcount (fst a)) ltac:(lia)) as [H C]. split; simpl; auto. lia.
Qed.

(* count <= capacity of the current representation, fast count <= maxFastCount *)
Lemma repr_inv_count_le_cap r : repr_inv M r -> 0 <= rcount r <= rcap r /\ (is_fast r = true -> rcap r <= M).
Proof. destruct r; simpl; intros H; try contradiction; (split; [lia|intros; try discriminate; lia]). Qed.

End Inv.

(* ---------------------------------------------------------------- histories of one array *)
Inductive abop := AAdd (v : Z) | ARemoveAt (i : nat) | ARemoveBack | AClear | ACopy.

Definition ab_step (M : Z) (a : ab) (o : abop) : ab :=
  match o with
  | AAdd v => ab_add M v a
  | ARemoveAt i => if (i <? length (snd a))%nat then ab_remove_at i a else a
  | ARemoveBack => if (0 <? length (snd a))%nat then ab_remove_at (pred (length (snd a))) a else a
  | AClear => ab_clear a
  | ACopy => ab_copy M a
  end.

Definition ab_run (M : Z) (ops : list abop) : ab := fold_left (ab_step M) ops ab_null.

(* reference: plain list semantics *)
Definition ref_step (l : list Z) (o : abop) : list Z :=
  match o with
  | AAdd v => l ++ [v]
  | ARemoveAt i => if (i <? length l)%nat then swap_remove i l else l
  | ARemoveBack => removelast l
  | AClear => []
  | ACopy => l
  end.

Lemma set_nth_last_id l : l <> [] -> set_nth (pred (length l)) (last l 0) l = l.
Proof.
  induction l as [|a l IH]; [congruence|]. intros _. destruct l as [|b l].
  - reflexivity.
  - change (pred (length (a :: b :: l))) with (S (pred (length (b :: l)))).
    change (last (a :: b :: l) 0) with (last (b :: l) 0).
    simpl set_nth. f_equal. apply IH. discriminate.
Qed.

Lemma ab_step_inv M a o : 0 < M < 16 -> ab_inv M a -> ab_inv M (ab_step M a o).
Proof.
  intros HM H. destruct o; simpl.
  - apply ab_add_inv; auto.
  - destruct (Nat.ltb_spec i (length (snd a))); [apply ab_remove_at_inv; auto|auto].
  - destruct (Nat.ltb_spec 0 (length (snd a))); [apply ab_remove_at_inv; auto; lia|auto].
  - apply ab_clear_inv with (M := M); auto.
  - apply ab_copy_inv; auto.
Qed.

Lemma ab_step_vals M a o : snd (ab_step M a o) = ref_step (snd a) o.
Proof.
  destruct o; simpl; auto.
  - destruct (Nat.ltb_spec i (length (snd a))); reflexivity.
  - destruct (Nat.ltb_spec 0 (length (snd a))).
    + simpl. unfold swap_remove. rewrite set_nth_last_id; [reflexivity|]. destruct (snd a); simpl in *; [lia|discriminate].
    + destruct (snd a); simpl in *; [reflexivity|lia].
Qed.

Theorem ab_all_histories M ops : 0 < M < 16 ->
  ab_inv M (ab_run M ops) /\ snd (ab_run M ops) = fold_left ref_step ops [].
Proof.
  intros HM. unfold ab_run.
  assert (forall a l, ab_inv M a -> snd a = l ->
     ab_inv M (fold_left (ab_step M) ops a) /\ snd (fold_left (ab_step M) ops a) = fold_left ref_step ops l) as G.
  { induction ops as [|o ops IH]; intros a l Ha Hl; simpl.
    - auto.
    - apply IH; [apply ab_step_inv; auto|]. rewrite ab_step_vals, Hl. reflexivity. }
  apply G; [apply ab_null_inv|reflexivity].
Qed.

(* the property-level statement of the representation invariant *)
Theorem arraybucket_repr_inv_thm M ops : 0 < M < 16 ->
  let a := ab_run M ops in
  let r := fst a in
  r <> RStuck /\
  0 <= rcount r <= rcap r /\
  rcount r = Z.of_nat (length (snd a)) /\
  (is_fast r = true -> 1 <= rcount r /\ rcap r <= M) /\
  (is_heap r = true -> 1 <= rcount r) /\
  (is_null r = true -> snd a = []).
Proof.
  intros HM a r. destruct (ab_all_histories M ops HM) as [[H C] _]. fold a in H, C. fold r in H, C.
  destruct r as [|st|cap cnt|] eqn:E; simpl in *; try contradiction.
  - repeat split; try lia; try discriminate. intros _. destruct (snd a); [reflexivity|simpl in C; lia].
  - repeat split; try lia; try discriminate.
  - repeat split; try lia; try discriminate.
Qed.

(* ================================================================ copy constructor and move (lines 184-226) *)
(* on (source, destination): the copy constructor reads the source through GetBounds() only and builds a fresh
   representation; the move constructor is Swap with a null bucket *)
Definition ab_copy_from (M : Z) (src : ab) : ab * ab := (src, ab_copy M src).
Definition ab_move_from (src : ab) : ab * ab := (ab_null, src).

(* the representation of a copy is TIGHT: the state byte is recomputed from (memPoolIndex, count) with
   memPoolIndex = count (never copied from the source, whose pool may have spare room), a heap copy has
   capacity = count; the content is equal and the source is untouched *)
Theorem ab_copy_tight M src : 0 < M < 16 -> ab_inv M src ->
  let sd := ab_copy_from M src in
  let n := Z.of_nat (length (snd src)) in
  fst sd = src /\ snd (snd sd) = snd src /\ ab_inv M (snd sd) /\
  match fst (snd sd) with
  | RNull => n = 0
  | RFast st => 1 <= n <= M /\ st = make_state n n /\ st = 16 * n + n /\ pool_of st = n /\ fcount_of st = n
  | RHeap cap cnt => M < n /\ cap = n /\ cnt = n
  | RStuck => False
  end.
Proof.
  intros HM [HI HC] sd n. unfold sd, ab_copy_from, ab_copy. simpl.
  split; [reflexivity|]. split; [reflexivity|]. split; [apply ab_copy_inv; auto; split; auto|].
  fold n in HC. rewrite HC. unfold copy_repr.
  destruct (Z.eqb_spec n 0); [assumption|]. assert (0 <= n) by (unfold n; lia).
  destruct (Z.leb_spec n M).
  - destruct (fast_state_facts n n ltac:(lia) ltac:(lia)) as (A & B & C).
    split; [lia|]. split; [reflexivity|]. split; [apply make_state_spec; lia|]. auto.
  - lia.
Qed.

Theorem ab_move_spec M src : ab_inv M src ->
  fst (ab_move_from src) = ab_null /\ snd (ab_move_from src) = src /\ ab_inv M (fst (ab_move_from src)).
Proof. intros H. simpl. repeat split; auto. Qed.

(* ================================================================ allocation failures *)
(* fs = failure schedule: one boolean per allocation point reached, in program order (true = that allocation throws
   std::bad_alloc).  A pool allocation that is served from a cached block simply has `false`. *)
Definition take (fs : list bool) : bool * list bool :=
  match fs with [] => (false, []) | b :: r => (b, r) end.

(* AddBackCrt with failures: result representation, "threw", remaining schedule.  Every allocation happens before
   any mutation (FastMemory / ArrayMemory guards give the block back), so a throw leaves the bucket as it was. *)
Definition add_back_f (M : Z) (r : repr) (fs : list bool) : repr * bool * list bool :=
  match r with
  | RNull =>
      let (f, fs1) := take fs in                                  (* FastMemory memory(pool 1) *)
      if f then (r, true, fs1) else (add_back M r, false, fs1)
  | RFast st =>
      if fcount_of st =? pool_of st then
        if fcount_of st + 1 <=? M then
          let (f, fs1) := take fs in                              (* FastMemory memory(next pool) *)
          if f then (r, true, fs1) else (add_back M r, false, fs1)
        else
          let (f1, fs1) := take fs in                             (* ArrayMemory memory(arrayMemPool) *)
          if f1 then (r, true, fs1) else
          let (f2, fs2) := take fs1 in                            (* Array::CreateCap(2*maxFastCount) *)
          if f2 then (r, true, fs2) else (add_back M r, false, fs2)
      else (add_back M r, false, fs)                              (* room in the block: no allocation *)
  | RHeap cap cnt =>
      if cnt <? cap then (add_back M r, false, fs)
      else let (f, fs1) := take fs in                             (* Array::pvAddBackGrow: mData.Reset allocates first *)
           if f then (r, true, fs1) else (add_back M r, false, fs1)
  | RStuck => (RStuck, false, fs)
  end.

(* RemoveBack with failures: only Shrink allocates; its failure is swallowed (catch (...) {}), lines 337-347 *)
Definition remove_back_f (r : repr) (fs : list bool) : repr * list bool :=
  match r with
  | RHeap cap cnt =>
      if (2 <=? cnt) && (2 <? cnt) && (cnt <=? cap / 4) && negb (cap <=? cnt * 2) then
        let (f, fs1) := take fs in
        if f then (RHeap cap (cnt - 1), fs1) else (remove_back r, fs1)
      else (remove_back r, fs)
  | _ => (remove_back r, fs)
  end.

Theorem add_back_f_spec M r fs :
  let '(r', threw, _) := add_back_f M r fs in
  (threw = true -> r' = r) /\ (threw = false -> r' = add_back M r).
Proof.
  destruct r as [|st|cap cnt|]; unfold add_back_f.
  - destruct (take fs) as [f fs1]. destruct f; cbn; split; congruence.
  - destruct (fcount_of st =? pool_of st); [|cbn; split; congruence].
    destruct (fcount_of st + 1 <=? M).
    + destruct (take fs) as [f fs1]. destruct f; cbn; split; congruence.
    + destruct (take fs) as [f1 fs1]. destruct f1; [cbn; split; congruence|].
      destruct (take fs1) as [f2 fs2]. destruct f2; cbn; split; congruence.
  - destruct (cnt <? cap); [cbn; split; congruence|]. destruct (take fs) as [f fs1]. destruct f; cbn; split; congruence.
  - cbn; split; congruence.
Qed.

(* a swallowed Shrink failure changes nothing but the capacity kept: same count, still a legal representation *)
Theorem remove_back_f_spec M r fs : repr_inv M r -> 1 <= rcount r ->
  let r' := fst (remove_back_f r fs) in
  repr_inv M r' /\ rcount r' = rcount r - 1 /\
  (r' = remove_back r \/ exists cap cnt, r = RHeap cap cnt /\ 2 < cnt /\ r' = RHeap cap (cnt - 1)).
Proof.
  intros HI HC. destruct (remove_back_inv M r HI HC) as [I' C'].
  destruct r as [|st|cap cnt|]; simpl; try (split; [exact I'|split; [exact C'|left; reflexivity]]).
  destruct ((2 <=? cnt) && (2 <? cnt) && (cnt <=? cap / 4) && negb (cap <=? cnt * 2)) eqn:B;
    [|simpl; split; [exact I'|split; [exact C'|left; reflexivity]]].
  destruct (take fs) as [f fs1]. destruct f; simpl; [|split; [exact I'|split; [exact C'|left; reflexivity]]].
  apply andb_true_iff in B. destruct B as [B _]. apply andb_true_iff in B. destruct B as [B _].
  apply andb_true_iff in B. destruct B as [_ B2]. apply Z.ltb_lt in B2.
  simpl in HI, HC. split; [lia|]. split; [lia|]. right. exists cap, cnt. auto.
Qed.

(* ================================================================ FRAME: every member of ArrayBucket that writes mPtr *)
(* Two buckets (this, other) and ALL members that can touch mPtr or the state byte: AddBackCrt / RemoveBack (also under
   failure schedules), Remove(i) as used by HashMultiMap, RemoveAll, Clear, the copy constructor, the move constructor,
   move assignment and Swap.  GetBounds / pvGet* only read.  A move assignment into a non-null bucket trips the
   MOMO_ASSERT(mPtr == nullptr) of ~ArrayBucket (the temporary holds the old value): it is never made (HashMultiMap only
   assigns into moved-from arrays) and is the identity here. *)
Inductive ab2op : Type :=
| A2 (first : bool) (o : abop)                       (* a single-bucket operation on this / other *)
| A2AddF (first : bool) (v : Z) (fs : list bool)     (* AddBackCrt under a failure schedule *)
| A2RemoveBackF (first : bool) (fs : list bool)      (* RemoveBack whose Shrink may fail *)
| A2RemoveAll (first : bool)                         (* RemoveAll = pvRemoveAll<false>; Clear = pvRemoveAll<true>: same effect on mPtr *)
| A2Swap                                             (* Swap, 241-244 *)
| A2MoveCtor (first : bool)                          (* a new object move-constructed from this (replaces other) / from other *)
| A2MoveAssign (first : bool)                        (* other = std::move(this) / this = std::move(other) *)
| A2CopyCtor (first : bool).                         (* a new object copy-constructed from this / from other *)

Definition on_side (first : bool) (f : ab -> ab) (s : ab * ab) : ab * ab :=
  if first then (f (fst s), snd s) else (fst s, f (snd s)).

Definition ab_add_f (M : Z) (v : Z) (fs : list bool) (a : ab) : ab :=
  let '(r', threw, _) := add_back_f M (fst a) fs in
  if threw then a else (r', snd a ++ [v]).

Definition ab_remove_back_f (fs : list bool) (a : ab) : ab :=
  if (0 <? length (snd a))%nat then (fst (remove_back_f (fst a) fs), removelast (snd a)) else a.

Definition ab2_step (M : Z) (s : ab * ab) (o : ab2op) : ab * ab :=
  match o with
  | A2 first o1 => on_side first (fun a => ab_step M a o1) s
  | A2AddF first v fs => on_side first (ab_add_f M v fs) s
  | A2RemoveBackF first fs => on_side first (ab_remove_back_f fs) s
  | A2RemoveAll first => on_side first ab_clear s
  | A2Swap => (snd s, fst s)
  | A2MoveCtor first => if first then (ab_null, fst s) else (snd s, ab_null)
  | A2MoveAssign first =>
      if first then (if is_null (fst (snd s)) then (ab_null, fst s) else s)
      else (if is_null (fst (fst s)) then (snd s, ab_null) else s)
  | A2CopyCtor first => if first then (fst s, ab_copy M (fst s)) else (ab_copy M (snd s), snd s)
  end.

(* the same operations on plain lists *)
Definition ref2_step (s : list Z * list Z) (nulls : bool * bool) (o : ab2op) : list Z * list Z :=
  match o with
  | A2 first o1 => if first then (ref_step (fst s) o1, snd s) else (fst s, ref_step (snd s) o1)
  | A2AddF _ _ _ => s     (* see ab2_step_content: appended unless it threw *)
  | A2RemoveBackF first _ => if first then (removelast (fst s), snd s) else (fst s, removelast (snd s))
  | A2RemoveAll first => if first then ([], snd s) else (fst s, [])
  | A2Swap => (snd s, fst s)
  | A2MoveCtor first => if first then ([], fst s) else (snd s, [])
  | A2MoveAssign first =>
      if first then (if snd nulls then ([], fst s) else s) else (if fst nulls then (snd s, []) else s)
  | A2CopyCtor first => if first then (fst s, fst s) else (snd s, snd s)
  end.

Lemma ab_add_f_inv M v fs a : 0 < M < 16 -> ab_inv M a -> ab_inv M (ab_add_f M v fs a).
Proof.
  intros HM H. unfold ab_add_f. pose proof (add_back_f_spec M (fst a) fs) as S.
  destruct (add_back_f M (fst a) fs) as [[r' threw] fs']. destruct threw; [exact H|].
  destruct S as [_ S]. rewrite (S eq_refl). apply (ab_add_inv M HM v a H).
Qed.

Lemma ab_remove_back_f_inv M fs a : 0 < M < 16 -> ab_inv M a -> ab_inv M (ab_remove_back_f fs a).
Proof.
  intros HM [HI HC]. unfold ab_remove_back_f. destruct (Nat.ltb_spec 0 (length (snd a))); [|split; auto].
  destruct (remove_back_f_spec M (fst a) fs HI ltac:(lia)) as (I' & C' & _).
  split; simpl; [exact I'|]. rewrite C', HC.
  destruct (snd a) as [|x l] eqn:E; [simpl in H; lia|].
  assert (x :: l <> []) as NE by discriminate.
  pose proof (app_removelast_last 0 NE) as AL. apply (f_equal (@length Z)) in AL. rewrite app_length in AL. simpl in AL.
  simpl length. lia.
Qed.

(* FRAME theorem: whatever member is called on either bucket, both stay in a legal representation whose stored count
   is the length of the content *)
Theorem ab2_frame M s o : 0 < M < 16 -> ab_inv M (fst s) -> ab_inv M (snd s) ->
  ab_inv M (fst (ab2_step M s o)) /\ ab_inv M (snd (ab2_step M s o)).
Proof.
  intros HM HA HB. destruct s as [a b]. simpl in HA, HB.
  destruct o as [f o1|f v fs|f fs|f| |f|f|f]; simpl; try destruct f; simpl; auto using ab_step_inv, ab_add_f_inv, ab_remove_back_f_inv, ab_null_inv, ab_copy_inv.
  - split; auto. apply ab_clear_inv with (M := M); auto.
  - split; auto. apply ab_clear_inv with (M := M); auto.
  - destruct (is_null (fst b)); simpl; auto using ab_null_inv.
  - destruct (is_null (fst a)); simpl; auto using ab_null_inv.
Qed.

Definition ab2_run (M : Z) (ops : list ab2op) : ab * ab := fold_left (ab2_step M) ops (ab_null, ab_null).

Theorem ab2_frame_all_histories M ops : 0 < M < 16 ->
  ab_inv M (fst (ab2_run M ops)) /\ ab_inv M (snd (ab2_run M ops)).
Proof.
  intros HM. unfold ab2_run.
  assert (forall s, ab_inv M (fst s) /\ ab_inv M (snd s) ->
            ab_inv M (fst (fold_left (ab2_step M) ops s)) /\ ab_inv M (snd (fold_left (ab2_step M) ops s))) as G.
  { induction ops as [|o r IH]; intros s [A B]; simpl; auto. apply IH. apply ab2_frame; auto. }
  apply G. split; apply ab_null_inv.
Qed.

(* content: moves move, copies copy, Swap swaps, a throwing AddBackCrt adds nothing, a swallowed Shrink failure loses nothing *)
Theorem ab2_content M s o : ab_inv M (fst s) -> ab_inv M (snd s) ->
  let s' := ab2_step M s o in
  match o with
  | A2AddF first v fs =>
      let a := if first then fst s else snd s in
      let a' := if first then fst s' else snd s' in
      (snd a' = snd a \/ snd a' = snd a ++ [v]) /\ (if first then snd s' = snd s else fst s' = fst s)
  | _ => (snd (fst s'), snd (snd s')) =
         ref2_step (snd (fst s), snd (snd s)) (is_null (fst (fst s)), is_null (fst (snd s))) o
  end.
Proof.
  intros HA HB. destruct s as [a b]. destruct o as [f o1|f v fs|f fs|f| |f|f|f]; simpl.
  - destruct f; simpl; rewrite ab_step_vals; reflexivity.
  - destruct f; simpl; (split; [|reflexivity]); unfold ab_add_f;
      [destruct (add_back_f M (fst a) fs) as [[r' threw] fs']|destruct (add_back_f M (fst b) fs) as [[r' threw] fs']];
      destruct threw; simpl; auto.
  - destruct f; simpl; unfold ab_remove_back_f.
    + destruct (Nat.ltb_spec 0 (length (snd a))); simpl; auto. destruct (snd a); [reflexivity|simpl in H; lia].
    + destruct (Nat.ltb_spec 0 (length (snd b))); simpl; auto. destruct (snd b); [reflexivity|simpl in H; lia].
  - destruct f; reflexivity.
  - reflexivity.
  - destruct f; reflexivity.
  - destruct f; simpl; [destruct (is_null (fst b))|destruct (is_null (fst a))]; reflexivity.
  - destruct f; reflexivity.
Qed.
