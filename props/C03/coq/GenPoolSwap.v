(* C03 -- MemPool<...>::Data::Swap TRANSLATED by tools/cxx2coq.py (Gen_MemPoolDataC03.v, regenerated from the current headers on every
   run; configuration copied from C14's gen_mempooldata.json): the manager objects are exchanged WHATEVER the managers' equality test
   says (fc18ee9: equal managers need not be the same object - a row pool points INTO its table's crew), the allocate counts too.
   Refinement: the manager references of the hand model's table swap (GenTie.tbl_swap with uncond = true) are the generated function's. *)
From Coq Require Import ZArith Bool List.
From C03 Require Import Effects GenPrimsC03 Gen_C03Facts GenTie Gen_MemPoolDataC03.
Local Open Scope Z_scope.

(* the generated function does not even mention the equality test (cxx2coq declares it as a section variable; an unused one is not
   abstracted): with the guard of the old code it would take it as a first argument and these statements would not type-check *)
Theorem gen_data_swap_exchanges_always (m c m' c' : Z) :
  Gen_MemPoolDataC03.Swap m c m' c' = (m', c', m, c).
Proof. reflexivity. Qed.

(* frame: nothing but the two managers and the two counts is produced - the function touches no other state (its result type) - and
   swapping twice is the identity *)
Theorem gen_data_swap_involutive (m c m' c' : Z) :
  let '(a, b, a', b') := Gen_MemPoolDataC03.Swap m c m' c' in
  Gen_MemPoolDataC03.Swap a b a' b' = (m, c, m', c').
Proof. reflexivity. Qed.

Theorem table_swap_refines_generated (equal : bool) (a b : tbl) :
  let '(a', b') := tbl_swap true equal a b in
  let '(m, _, m', _) := Gen_MemPoolDataC03.Swap (t_mgrref a) 0 (t_mgrref b) 0 in
  t_mgrref a' = m /\ t_mgrref b' = m' /\ t_crew a' = t_crew b /\ t_crew b' = t_crew a.
Proof. destruct a, b. simpl. repeat split; reflexivity. Qed.
