"""C11 - AST facts (T-gen) for the parts of the migration that cxx2coq does not translate: the catch structure of
HashSet::pvRelocateItems() and the recursion over older generations in HashSet::pvRelocateItems(Buckets*).
The statements are read off the clang AST of the CURRENT headers and written, as canonical strings, to coq/Gen_RelocFacts.v on
every run; coq/GenFacts.v computes from them (in Coq) the structural facts the hand model GrowModel.reloc_gens / relocate is
written for, and the theorem `reloc_structure_is_source` states them.  Changing the try/catch or the order of the recursion
changes the generated file and breaks that proof.  An unexpected shape raises TranslationError (regen stage broken)."""
import json, os, sys


def _tools(root):
    p = os.path.join(root, 'tools')
    if p not in sys.path:
        sys.path.insert(0, p)
    import cxx2coq
    return cxx2coq


class R:
    """canonical rendering of statements / expressions"""
    def __init__(self, cx):
        self.cx = cx

    def strip(self, n):
        n = self.cx.skip_wrappers(n)
        while n.get('kind') in ('ImplicitCastExpr', 'ParenExpr', 'CXXBindTemporaryExpr', 'MaterializeTemporaryExpr', 'ExprWithCleanups',
                                'CXXStaticCastExpr', 'CXXFunctionalCastExpr') and n.get('inner'):
            n = self.cx.skip_wrappers(n['inner'][0])
        return n

    def e(self, n):
        n = self.strip(n)
        k = n.get('kind')
        if k == 'CXXThisExpr':
            return 'this'
        if k == 'DeclRefExpr':
            return n['referencedDecl']['name']
        if k == 'MemberExpr':
            b = self.e(n['inner'][0]) if n.get('inner') else 'this'
            return n['name'] if b == 'this' else b + '.' + n['name']
        if k == 'UnaryOperator':
            return n.get('opcode', '?') + self.e(n['inner'][0])
        if k == 'BinaryOperator':
            return '%s %s %s' % (self.e(n['inner'][0]), n.get('opcode'), self.e(n['inner'][1]))
        if k == 'CXXNullPtrLiteralExpr':
            return 'nullptr'
        if k == 'CXXBoolLiteralExpr':
            return 'true' if n.get('value') else 'false'
        if k == 'IntegerLiteral':
            return str(n.get('value'))
        if k in ('CXXMemberCallExpr', 'CallExpr'):
            return '%s(%s)' % (self.e(n['inner'][0]), ', '.join(self.e(a) for a in n['inner'][1:]))
        if k == 'CXXOperatorCallExpr':
            c = self.strip(n['inner'][0])
            nm = (c.get('referencedDecl') or {}).get('name', '') if c.get('kind') == 'DeclRefExpr' else c.get('name', '')
            return '%s(%s)' % (nm.replace(' ', ''), ', '.join(self.e(a) for a in n['inner'][1:]))
        if k == 'LambdaExpr':
            return 'lambda'
        if k == 'CXXDefaultArgExpr':
            return 'default'
        if k in ('CXXTemporaryObjectExpr', 'CXXUnresolvedConstructExpr'):
            import re as _re
            t = n.get('type', {}).get('qualType', '')
            while '<' in t:
                t2 = _re.sub(r'<[^<>]*>', '', t)
                if t2 == t: break
                t = t2
            t = t.split('::')[-1].replace('const ', '').strip()
            return 'new_%s(%s)' % (t, ', '.join(self.e(a) for a in n.get('inner', [])))
        if k == 'InitListExpr' and len(n.get('inner', [])) == 1:
            return self.e(n['inner'][0])
        if k == 'CXXConstructExpr':
            return 'ctor(%s)' % ', '.join(self.e(a) for a in n.get('inner', []))
        return '?' + str(k)

    def s(self, st):
        n = self.strip(st)
        k = n.get('kind')
        if k not in ('CompoundStmt', 'DeclStmt', 'IfStmt', 'CXXTryStmt', 'ForStmt', 'WhileStmt', 'CXXForRangeStmt', 'DoStmt') \
                and self.cx.is_assert_stmt(st):
            return None
        if k == 'CompoundStmt':
            return '{ ' + '; '.join(self.block(n)) + ' }'
        if k == 'DeclStmt':
            v = [x for x in n['inner'] if x.get('kind') == 'VarDecl']
            def init(x):
                i = [y for y in x.get('inner', []) if isinstance(y, dict) and y.get('kind')]
                return (' = ' + self.e(i[0])) if i else ''
            return 'decl ' + ', '.join(x['name'] + init(x) for x in v)
        if k == 'IfStmt':
            parts = [x for x in n['inner'] if isinstance(x, dict) and x.get('kind')]
            r = 'if (%s) %s' % (self.e(parts[0]), self.s(parts[1]))
            if len(parts) > 2:
                r += ' else ' + self.s(parts[2])
            return r
        if k == 'CXXTryStmt':
            hs = [x for x in n['inner'][1:] if x.get('kind') == 'CXXCatchStmt']
            return 'try %s %s' % (self.s(n['inner'][0]), ' '.join('catch ' + self.s([y for y in h['inner'] if y.get('kind') == 'CompoundStmt'][0]) for h in hs))
        if k == 'ForStmt':
            body = [x for x in n['inner'] if isinstance(x, dict) and x.get('kind')][-1]
            return 'for ' + self.s(body)
        if k == 'DoStmt':
            parts = [x for x in n['inner'] if isinstance(x, dict) and x.get('kind')]
            return 'do %s while (%s)' % (self.s(parts[0]), self.e(parts[1]))
        if k in ('WhileStmt', 'CXXForRangeStmt'):
            return 'loop'
        if k == 'ReturnStmt':
            return ('return ' + self.e(n['inner'][0])) if n.get('inner') else 'return'
        if k == 'BreakStmt':
            return 'break'
        if k == 'CXXThrowExpr':
            return 'throw'
        return self.e(n)

    def top(self, st):
        """a top-level statement of a function body as a constructor of RelocSyntax.cstmt (nested statements: canonical strings)"""
        n = self.strip(st)
        k = n.get('kind')
        L = lambda xs: '[' + '; '.join(Q(x) for x in xs) + ']'
        if k not in ('CompoundStmt', 'DeclStmt', 'IfStmt', 'CXXTryStmt', 'ForStmt', 'WhileStmt', 'CXXForRangeStmt', 'DoStmt') \
                and self.cx.is_assert_stmt(st):
            return None
        if k == 'DeclStmt':
            v = [x for x in n['inner'] if x.get('kind') == 'VarDecl']
            if len(v) == 1:
                i = [y for y in v[0].get('inner', []) if isinstance(y, dict) and y.get('kind')]
                return 'SDecl %s %s' % (Q(v[0]['name']), Q(self.e(i[0]) if i else ''))
            return 'SOther %s' % Q(self.s(st))
        if k == 'IfStmt':
            parts = [x for x in n['inner'] if isinstance(x, dict) and x.get('kind')]
            if len(parts) == 2:
                return 'SIfThen %s %s' % (Q(self.e(parts[0])), L(self.block(self.strip(parts[1]))))
            if len(parts) == 3:
                return 'SIfElse %s %s %s' % (Q(self.e(parts[0])), L(self.block(self.strip(parts[1]))), L(self.block(self.strip(parts[2]))))
            return 'SOther %s' % Q(self.s(st))
        if k == 'CXXTryStmt':
            hs = [x for x in n['inner'][1:] if x.get('kind') == 'CXXCatchStmt']
            if len(hs) == 1:
                hdecl = [x for x in hs[0].get('inner', []) if isinstance(x, dict) and x.get('kind') == 'VarDecl']
                hb = [y for y in hs[0]['inner'] if y.get('kind') == 'CompoundStmt'][0]
                return 'STry %s %s %s' % (L(self.block(n['inner'][0])), L(self.block(hb)), 'true' if not hdecl else 'false')
            return 'SOther %s' % Q(self.s(st))
        if k == 'ForStmt':
            return 'SFor %s' % Q(self.s(st))
        if k == 'WhileStmt':
            parts = [x for x in n['inner'] if isinstance(x, dict) and x.get('kind')]
            body = self.strip(parts[-1])
            inner = body.get('inner', []) if body.get('kind') == 'CompoundStmt' else [body]
            return 'SWhile %s [%s]' % (Q(self.e(parts[0])), '; '.join(x for x in (self.top(y) for y in inner) if x is not None))
        if k == 'IfStmt' and len([x for x in n['inner'] if isinstance(x, dict) and x.get('kind')]) == 3:
            parts = [x for x in n['inner'] if isinstance(x, dict) and x.get('kind')]
            return 'SIfElse %s %s %s' % (Q(self.e(parts[0])), L(self.block(self.strip(parts[1]))), L(self.block(self.strip(parts[2]))))
        if k == 'ReturnStmt':
            return 'SReturn %s' % Q(self.e(n['inner'][0]) if n.get('inner') else '')
        if k in ('CXXMemberCallExpr', 'CallExpr', 'CXXOperatorCallExpr', 'BinaryOperator', 'UnaryOperator'):
            return 'SExpr %s' % Q(self.e(n))
        return 'SOther %s' % Q(self.s(st) or '')

    def block(self, comp):
        inner = comp.get('inner', []) if comp.get('kind') == 'CompoundStmt' else [comp]
        return [x for x in (self.s(y) for y in inner) if x is not None]


def _methods(spec, name):
    out = []
    for m in spec.get('inner', []):
        if m.get('kind') == 'CXXMethodDecl' and m.get('name') == name and any(y.get('kind') == 'CompoundStmt' for y in m.get('inner', [])):
            out.append(m)
        if m.get('kind') == 'FunctionTemplateDecl' and m.get('name') == name:      # instantiations of a member template
            for x in m.get('inner', []):
                if x.get('kind') == 'CXXMethodDecl' and any(y.get('kind') == 'CompoundStmt' for y in x.get('inner', [])) \
                        and ('C11Filter' in x.get('type', {}).get('qualType', '') or name == 'pvRemove'):
                    out.append(x)
    return out


def facts(tu, repo, root='/verif'):
    cx = _tools(root)
    E = cx.TranslationError
    cfg = {'tu': tu, 'filter': 'HashSet', 'includes': [os.path.join(repo, 'include')]}
    objs = cx.load_objs(cx.dump_ast(cfg, repo))
    spec = cx.find_spec(objs, {'class': 'HashSet'})
    if isinstance(spec, list):
        spec = spec[0]
    r = R(cx)
    ms = _methods(spec, 'pvRelocateItems')
    nparams = lambda m: [p for p in m.get('inner', []) if p.get('kind') == 'ParmVarDecl']
    wrapper = [m for m in ms if len(nparams(m)) == 0]
    worker = [m for m in ms if len(nparams(m)) == 1 and 'Buckets' in nparams(m)[0].get('type', {}).get('qualType', '')]
    if len(wrapper) != 1 or len(worker) != 1:
        raise E('astfacts: expected one pvRelocateItems() and one pvRelocateItems(Buckets*), found %d / %d' % (len(wrapper), len(worker)))
    body = lambda m: [y for y in m['inner'] if y.get('kind') == 'CompoundStmt'][0]
    F = {}
    F['wrapper_stmts'] = [x for x in (r.top(y) for y in body(wrapper[0]).get('inner', [])) if x is not None]
    F['worker_stmts'] = [x for x in (r.top(y) for y in body(worker[0]).get('inner', [])) if x is not None]
    rf = [m for m in _methods(spec, 'Remove') if 'C11Filter' in m.get('type', {}).get('qualType', '')]
    if len(rf) != 1:
        raise E('astfacts: expected exactly one instantiation of Remove(const ItemFilter&) for C11Filter, found %d' % len(rf))
    F['remove_filter_stmts'] = [x for x in (r.top(y) for y in body(rf[0]).get('inner', [])) if x is not None]
    pr = _methods(spec, 'pvRemove')
    if not pr:
        raise E('astfacts: no instantiation of HashSet::pvRemove found')
    prs = [[x for x in (r.top(y) for y in body(m).get('inner', [])) if x is not None] for m in pr]
    if any(x != prs[0] for x in prs):
        raise E('astfacts: the instantiations of pvRemove differ')
    F['pv_remove_stmts'] = prs[0]
    ri = [m for m in _methods(spec, 'Remove') if [p_.get('type', {}).get('qualType', '') for p_ in m.get('inner', []) if p_.get('kind') == 'ParmVarDecl'] == ['momo::HashSet::ConstIterator']
          or [p_.get('name') for p_ in m.get('inner', []) if p_.get('kind') == 'ParmVarDecl'] == ['iter']]
    if len(ri) != 1:
        raise E('astfacts: expected exactly one HashSet::Remove(ConstIterator iter), found %d' % len(ri))
    F['remove_iter_stmts'] = [x for x in (r.top(y) for y in body(ri[0]).get('inner', [])) if x is not None]
    its = cx.find_spec(objs, {'class': 'HashSetConstIterator'})
    if isinstance(its, list):
        its = its[0]
    for nm_, key_ in (('pvInc', 'iter_inc_stmts'), ('pvMove', 'iter_move_stmts')):
        ms_ = _methods(its, nm_)
        if len(ms_) != 1:
            raise E('astfacts: expected exactly one HashSetConstIterator::%s with a body, found %d' % (nm_, len(ms_)))
        F[key_] = [x for x in (r.top(y) for y in body(ms_[0]).get('inner', [])) if x is not None]
    gb = [m for m in _methods(spec, 'GetBegin') if not [p_ for p_ in m.get('inner', []) if p_.get('kind') == 'ParmVarDecl']]
    if len(gb) != 1:
        raise E('astfacts: expected exactly one HashSet::GetBegin()')
    ct = [m for m in its.get('inner', []) if m.get('kind') == 'CXXConstructorDecl'
          and len([p_ for p_ in m.get('inner', []) if p_.get('kind') == 'ParmVarDecl']) == 4
          and any(y.get('kind') == 'CompoundStmt' for y in m.get('inner', []))]
    if len(ct) != 1:
        raise E('astfacts: expected exactly one 4-argument constructor of HashSetConstIterator, found %d' % len(ct))
    F['iter_ctor_stmts'] = [x for x in (r.top(y) for y in body(ct[0]).get('inner', [])) if x is not None]
    F['iter_ctor_inits'] = [Q(r.e(y['inner'][0]) if y.get('inner') else '') for y in ct[0].get('inner', []) if y.get('kind') == 'CXXCtorInitializer']
    F['get_begin_stmts'] = [x for x in (r.top(y) for y in body(gb[0]).get('inner', [])) if x is not None]
    F['worker_noexcept'] = [Q(worker[0].get('type', {}).get('qualType', ''))]
    F['wrapper_noexcept'] = [Q(wrapper[0].get('type', {}).get('qualType', ''))]
    return F


def Q(s):
    return '"' + s.replace('"', "'") + '"'


def facts_text(tu, repo, root='/verif'):
    F = facts(tu, repo, root)
    out = ['(* GENERATED by props/C11/astfacts.py from the clang AST of the current headers (' + os.path.basename(tu) + ') -- do not edit *)',
           'From Coq Require Import List String.', 'From C11 Require Import RelocSyntax.', 'Import ListNotations.', 'Local Open Scope string_scope.', '']
    for k in sorted(F):
        ty = 'cstmt' if k.endswith('_stmts') else 'string'
        out.append('Definition %s : list %s :=\n  [%s].\n' % (k, ty, ';\n   '.join(F[k])))
    return '\n'.join(out)


if __name__ == '__main__':
    repo = sys.argv[1] if len(sys.argv) > 1 else '/repo'
    print(facts_text(os.path.join(os.path.dirname(os.path.abspath(__file__)), 'inst_grow.cpp'), repo))
