// instantiation TU for cxx2coq (C01G): the growth decision of HashSet (pvGetNewLogBucketCount, Reserve, pvAddGrow)
#include "momo/HashSet.h"
namespace momo { template class HashSet<uint64_t>; }
// member templates (pvAddGrow<ItemCreator>) are instantiated by use
void c11_use(momo::HashSet<uint64_t>& s) { s.Insert(uint64_t(1)); }
