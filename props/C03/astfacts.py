"""C03 - facts read off the clang AST of the current headers (T-gen, "AST facts") for the places where this project's release-discipline
defects lived.  Written to coq/Gen_C03Facts.v on every run; coq/GenTie.v turns them into the parameters of the L2 resource machine
(`fixed` flags, statement order of Relocator::CreateNode, noexcept flag) and the theorems of part 8 are stated AT THE GENERATED VALUES:
reverting a fix changes the generated file and the theorem about the real code no longer type-checks (prove stage broken).

  hashset_copy_catch / hashset_ilist_catch      catch (...) of HashSet(const HashSet&, MemManager) / HashSet(initializer_list, ...)     806b9fe
  treeset_copy_catch / treeset_ilist_catch      the same for TreeSet                                                                    806b9fe
  datatable_fill_catch                          catch (...) of DataTable::pvFill                                                        91ea186
  multimap_copy_row / _try / _catch             body of the row loop of HashMultiMap(const HashMultiMap&, MemManager)                   84c9298
  treeset_mergeto_empty                         the `if (dstCount == 0)` branch of TreeSet::MergeTo(TreeSet&)                           c7fda03
  relocator_create_node                         TreeSet::Relocator::CreateNode                                                          seed 2-b
  relocator_dtor                                ~Relocator
  pool_data_swap                                MemPool::Data::Swap                                                                     fc18ee9
  pool_merge_link                               the relinking statements of MemPool::MergeFrom (full buffers of the source)              7f37c9f
  rebalance_collapse                            body of the root-collapse loop of TreeSet::pvRebalance                                  c72d55b
  socc_noexcept                                 noexcept flag of unsynchronized_pool_allocator::select_on_container_copy_construction   f8cb4ff
  socc_allocates                                ... and whether its body constructs the allocator from a base allocator (= a new pool)

An unexpected shape raises TranslationError (regen stage broken)."""
import json, os, sys, hashlib, concurrent.futures


def _tools(root):
    p = os.path.join(root, 'tools')
    if p not in sys.path:
        sys.path.insert(0, p)
    import cxx2coq
    return cxx2coq


class Walker:
    def __init__(self, cx):
        self.cx = cx
        self.E = cx.TranslationError

    def strip(self, n):
        sk = self.cx.skip_wrappers
        n = sk(n)
        while n.get('kind') in ('ImplicitCastExpr', 'ParenExpr', 'CXXBindTemporaryExpr', 'MaterializeTemporaryExpr', 'ExprWithCleanups',
                                'CXXStaticCastExpr', 'CXXFunctionalCastExpr', 'CXXConstructExpr') and n.get('inner') and \
                (n.get('kind') != 'CXXConstructExpr' or len(n['inner']) == 1):
            n = sk(n['inner'][0])
        return n

    def path(self, n):
        """a.b.c for member / variable expressions; 'this' for the implicit object"""
        n = self.strip(n)
        k = n.get('kind')
        if k == 'CXXThisExpr':
            return 'this'
        if k == 'DeclRefExpr':
            return n['referencedDecl']['name']
        if k == 'MemberExpr':
            base = self.path(n['inner'][0]) if n.get('inner') else 'this'
            return n['name'] if base == 'this' else base + '.' + n['name']
        if k == 'UnaryOperator' and n.get('opcode') == '*':
            return self.path(n['inner'][0])
        if k in ('CXXMemberCallExpr', 'CallExpr', 'CXXOperatorCallExpr'):
            return self.call_name(n) + '()'
        return '?' + str(k)

    def call_name(self, n):
        c = self.strip(n['inner'][0])
        if c.get('kind') == 'MemberExpr':
            base = self.path(c['inner'][0]) if c.get('inner') else 'this'
            return c['name'] if base == 'this' else base + '.' + c['name']
        if c.get('kind') == 'DeclRefExpr':
            return c['referencedDecl']['name']
        return c.get('name') or '?'

    def is_null(self, n):
        return '"kind": "CXXNullPtrLiteralExpr"' in json.dumps(n)

    def stmt(self, st):
        """one statement -> Coq constructor text (None for assertions)"""
        if self.cx.is_assert_stmt(st):
            return None
        n = self.strip(st)
        k = n.get('kind')
        q = lambda s: '"%s"' % s
        if k == 'CXXThrowExpr':
            return 'SRethrow' if not n.get('inner') else 'SOther "throw"'
        if k == 'ReturnStmt':
            return 'SReturn'
        if k == 'BinaryOperator' and n.get('opcode') == '=':
            if self.is_null(n['inner'][1]):
                return 'SNull %s' % q(self.path(n['inner'][0]))
            return 'SAssign %s %s' % (q(self.path(n['inner'][0])), q(self.path(n['inner'][1])))
        if k in ('CXXMemberCallExpr', 'CallExpr', 'CXXOperatorCallExpr'):
            nm = self.call_name(n)
            args = [self.path(a) for a in n['inner'][1:]]
            if nm == 'swap' and len(args) == 2:
                return 'SSwap %s' % q(args[0])
            if '.' in nm:
                obj, f = nm.rsplit('.', 1)
                return 'SCallOn %s %s' % (q(obj), q(f))
            return 'SCall %s' % q(nm)
        if k == 'DeclStmt':
            v = [x for x in n['inner'] if x.get('kind') == 'VarDecl']
            if len(v) == 1:
                init = [x for x in v[0].get('inner', []) if isinstance(x, dict) and x.get('kind')]
                how = '-'
                if init:
                    i0 = self.strip(init[0])
                    if i0.get('kind') in ('CXXMemberCallExpr', 'CallExpr'):
                        how = self.call_name(i0)
                    elif i0.get('kind') == 'CXXConstructExpr':
                        how = 'ctor'
                    else:
                        how = self.path(i0)
                return 'SDecl %s %s' % (q(v[0]['name']), q(how))
        if k == 'IfStmt':
            return 'SIf'
        if k == 'CXXTryStmt':
            return 'STry'
        if k in ('CXXForRangeStmt', 'ForStmt', 'WhileStmt'):
            return 'SLoop'
        return 'SOther %s' % q(str(k))

    def stmts(self, compound):
        inner = compound.get('inner', []) if compound.get('kind') == 'CompoundStmt' else [compound]
        out = [self.stmt(s) for s in inner]
        return [o for o in out if o is not None]

    def find_all(self, n, pred, acc=None):
        if acc is None:
            acc = []
        if isinstance(n, dict):
            if pred(n):
                acc.append(n)
            for x in n.get('inner', []) or []:
                self.find_all(x, pred, acc)
        return acc

    def body(self, decl):
        b = [x for x in decl.get('inner', []) if x.get('kind') == 'CompoundStmt']
        if len(b) != 1:
            raise self.E('no body for %s' % decl.get('name'))
        return b[0]

    def catch_of(self, decl, what):
        cs = self.find_all(decl, lambda n: n.get('kind') == 'CXXCatchStmt')
        if len(cs) != 1:
            raise self.E('%s: expected exactly one catch block, found %d' % (what, len(cs)))
        comp = [x for x in cs[0].get('inner', []) if x.get('kind') == 'CompoundStmt']
        if len(comp) != 1:
            raise self.E('%s: catch block has no compound statement' % what)
        return self.stmts(comp[0])


def _dump(cx, repo, tu, part, flt):
    cfg = {'tu': tu, 'filter': flt, 'includes': [os.path.join(repo, 'include')], 'defines': ['FACTS_PART=%d' % part]}
    return cx.load_objs(cx.dump_ast(cfg, repo))


def _ctors(spec, name):
    return [m for m in spec.get('inner', []) if m.get('kind') == 'CXXConstructorDecl' and any(y.get('kind') == 'CompoundStmt' for y in m.get('inner', []))]


def _has_param(decl, tsub):
    return any(p.get('kind') == 'ParmVarDecl' and tsub in p.get('type', {}).get('qualType', '') for p in decl.get('inner', []))


def facts(tu, repo, root='/verif'):
    cx = _tools(root)
    W = Walker(cx)
    E = cx.TranslationError
    F = {}
    with concurrent.futures.ThreadPoolExecutor(max_workers=6) as ex:
        jobs = {1: ex.submit(_dump, cx, repo, tu, 1, 'HashSet'), 2: ex.submit(_dump, cx, repo, tu, 2, 'TreeSet'),
                3: ex.submit(_dump, cx, repo, tu, 3, 'HashMultiMap'), 4: ex.submit(_dump, cx, repo, tu, 4, 'DataTable'),
                5: ex.submit(_dump, cx, repo, tu, 5, 'unsynchronized_pool_allocator'), 6: ex.submit(_dump, cx, repo, tu, 6, 'MemPool')}
        objs = {k: v.result() for k, v in jobs.items()}

    def ctor_catches(spec, cls):
        """catch blocks of the copy constructor (const Cls&, MemManager) and the initializer-list constructor (with catch)"""
        cp = [c for c in _ctors(spec, cls) if _has_param(c, 'const ') and _has_param(c, cls) and not _has_param(c, 'initializer_list')
              and W.find_all(c, lambda n: n.get('kind') == 'CXXCatchStmt')]
        il = [c for c in _ctors(spec, cls) if _has_param(c, 'initializer_list') and W.find_all(c, lambda n: n.get('kind') == 'CXXCatchStmt')]
        if len(cp) != 1 or len(il) != 1:
            raise E('%s: copy / initializer-list constructors with a catch block: found %d / %d' % (cls, len(cp), len(il)))
        return W.catch_of(cp[0], cls + ' copy constructor'), W.catch_of(il[0], cls + ' initializer-list constructor')

    # ---- HashSet / TreeSet constructors (806b9fe)
    hs = cx.find_spec(objs[1], {'class': 'HashSet'})
    F['hashset_copy_catch'], F['hashset_ilist_catch'] = ctor_catches(hs, 'HashSet')
    ts = cx.find_spec(objs[2], {'class': 'TreeSet'})
    F['treeset_copy_catch'], F['treeset_ilist_catch'] = ctor_catches(ts, 'TreeSet')

    # ---- TreeSet::MergeTo(TreeSet&): the dstCount == 0 branch (c7fda03)
    ms = [d for d in cx.method_decls(ts, 'MergeTo') if '"name": "dstCount"' in json.dumps(d)]
    if len(ms) != 1:
        raise E('TreeSet::MergeTo(TreeSet&) not found')
    ifs = W.find_all(ms[0], lambda n: n.get('kind') == 'IfStmt' and '"name": "dstCount"' in json.dumps(n['inner'][0])
                     and '"opcode": "=="' in json.dumps(n['inner'][0]) and '"value": "0"' in json.dumps(n['inner'][0]))
    if len(ifs) != 1:
        raise E('MergeTo: `if (dstCount == 0)` not found exactly once')
    F['treeset_mergeto_empty'] = W.stmts(ifs[0]['inner'][1])

    # ---- TreeSet::Relocator (seed 2-b)
    rel = cx.find_spec(objs[2], {'class': 'Relocator', 'nested_in': 'TreeSet'})
    cn = cx.method_decls(rel, 'CreateNode')
    if len(cn) != 1:
        raise E('Relocator::CreateNode not found')
    F['relocator_create_node'] = W.stmts(W.body(cn[0]))
    dt_ = [m for m in rel.get('inner', []) if m.get('kind') == 'CXXDestructorDecl' and any(y.get('kind') == 'CompoundStmt' for y in m.get('inner', []))]
    if len(dt_) != 1:
        raise E('~Relocator not found')
    loops = W.find_all(dt_[0], lambda n: n.get('kind') == 'CXXForRangeStmt')
    if len(loops) != 1:
        raise E('~Relocator: range-for not found')
    rng = [x for x in W.find_all(loops[0], lambda n: n.get('kind') == 'MemberExpr' and n.get('name', '').startswith('m') and n.get('name', '').endswith('Nodes'))]
    calls = [W.call_name(c) for c in W.find_all(loops[0]['inner'][-1], lambda n: n.get('kind') == 'CXXMemberCallExpr')]
    if not rng or not calls:
        raise E('~Relocator: loop shape')
    F['relocator_dtor'] = ['SLoopOver "%s" "%s"' % (rng[0]['name'], calls[0])]

    # ---- TreeSet::pvRebalance: the root-collapse loop (c72d55b)
    rb = [d for d in cx.method_decls(ts, 'pvRebalance') if '"name": "fast"' in json.dumps(d)]
    if len(rb) != 1:
        raise E('pvRebalance(node, savedNode, fast) not found')
    wl = [x for x in W.body(rb[0])['inner'] if x.get('kind') == 'WhileStmt' and '"name": "mRootNode"' in json.dumps(x['inner'][0])]
    if not wl:
        raise E('pvRebalance: root-collapse loop not found')
    def pexpr(n):
        n = W.strip(n)
        k = n.get('kind')
        if k in ('CXXMemberCallExpr', 'CallExpr'):
            c = W.strip(n['inner'][0])
            nm = c.get('name'); base = c['inner'][0] if c.get('kind') == 'MemberExpr' and c.get('inner') else None
            if nm == 'GetChild' and base is not None and json.dumps(W.strip(n['inner'][1])).count('"value": "0"') == 1:
                return '(PChild0 %s)' % pexpr(base)
            if nm == 'GetParent' and base is not None:
                return '(PParent %s)' % pexpr(base)
            raise E('collapse loop: unknown pointer call %s' % nm)
        if k == 'MemberExpr' and n.get('name') == 'mRootNode':
            return '(PVar "mRootNode")'
        if k == 'DeclRefExpr':
            return '(PVar "%s")' % n['referencedDecl']['name']
        raise E('collapse loop: unknown pointer expression %s' % k)
    def cstm(st):
        s0 = W.strip(st)
        k = s0.get('kind')
        if k == 'DeclStmt':
            v = [x for x in s0['inner'] if x.get('kind') == 'VarDecl'][0]
            return 'SLocal "%s" %s' % (v['name'], pexpr([x for x in v['inner'] if isinstance(x, dict)][0]))
        if k == 'BinaryOperator' and s0.get('opcode') == '=':
            return 'SSet %s %s' % (pexpr(s0['inner'][0]), pexpr(s0['inner'][1]))
        if k == 'IfStmt' and len(s0['inner']) == 2:
            c = W.strip(s0['inner'][0]); th = s0['inner'][1]
            ths = th.get('inner', []) if th.get('kind') == 'CompoundStmt' else [th]
            if c.get('kind') == 'BinaryOperator' and c.get('opcode') == '==' and len(ths) == 1:
                return 'SIfEq %s %s (%s)' % (pexpr(c['inner'][0]), pexpr(c['inner'][1]), cstm(ths[0]))
        if k in ('CXXMemberCallExpr', 'CallExpr'):
            c = W.strip(s0['inner'][0]); nm = c.get('name'); base = c['inner'][0]
            if nm == 'Destroy':
                return 'SDestroyP %s' % pexpr(base)
            if nm == 'SetParent' and W.is_null(s0['inner'][1]):
                return 'SSetParentNull %s' % pexpr(base)
        raise E('collapse loop: unexpected statement %s' % k)
    lbody = wl[0]['inner'][1]
    col = [cstm(st) for st in (lbody.get('inner', []) if lbody.get('kind') == 'CompoundStmt' else [lbody]) if not cx.is_assert_stmt(st)]
    climbs = W.find_all(W.body(rb[0]), lambda n: n.get('kind') == 'VarDecl' and n.get('name') == 'parentNode')
    if len(climbs) != 1:
        raise E('pvRebalance: the climbing loop\'s parentNode declaration not found once')
    F['rebalance_climb_reads'] = ['SLocal "parentNode" %s' % pexpr([x for x in climbs[0]['inner'] if isinstance(x, dict)][0])]
    F['rebalance_collapse'] = col

    # ---- DataTable::pvFill (91ea186)
    dt = cx.find_spec(objs[4], {'class': 'DataTable'})
    pf = cx.method_decls(dt, 'pvFill')
    pf = [d for d in pf if W.find_all(d, lambda n: n.get('kind') == 'CXXCatchStmt' and '"name": "pvDestroyRaws"' in json.dumps(n))]
    if len(pf) < 1:
        raise E('DataTable::pvFill with a catch calling pvDestroyRaws not found')
    cat = [W.stmts([x for x in c['inner'] if x.get('kind') == 'CompoundStmt'][0])
           for c in W.find_all(pf[0], lambda n: n.get('kind') == 'CXXCatchStmt' and '"name": "pvDestroyRaws"' in json.dumps(n))]
    if len(cat) != 1:
        raise E('pvFill: outer catch not found exactly once')
    F['datatable_fill_catch'] = cat[0]

    # ---- HashMultiMap copy constructor: the row loop (84c9298)
    hm = cx.find_spec(objs[3], {'class': 'HashMultiMap'})
    cp = [c for c in _ctors(hm, 'HashMultiMap') if _has_param(c, 'const ') and _has_param(c, 'HashMultiMap') and not _has_param(c, 'initializer_list')
          and W.find_all(c, lambda n: n.get('kind') == 'CXXForRangeStmt')]
    if len(cp) != 1:
        raise E('HashMultiMap copy constructor with the row loop: found %d' % len(cp))
    fl = W.find_all(cp[0], lambda n: n.get('kind') == 'CXXForRangeStmt')
    if len(fl) != 1:
        raise E('HashMultiMap copy constructor: row loop not found exactly once')
    lb = fl[0]['inner'][-1]
    F['multimap_copy_row'] = W.stmts(lb)
    tr = W.find_all(lb, lambda n: n.get('kind') == 'CXXTryStmt')
    if len(tr) == 1:
        F['multimap_copy_try'] = W.stmts(tr[0]['inner'][0])
        cc = [x for x in tr[0]['inner'][1].get('inner', []) if x.get('kind') == 'CompoundStmt']
        F['multimap_copy_catch'] = W.stmts(cc[0]) if cc else []
    else:
        F['multimap_copy_try'] = []; F['multimap_copy_catch'] = []

    # ---- MemPool::Data::Swap (fc18ee9) and the relinking of MemPool::MergeFrom (7f37c9f)
    pd = cx.find_spec(objs[6], {'class': 'Data', 'nested_in': 'MemPool'})
    sw = cx.method_decls(pd, 'Swap')
    if len(sw) != 1:
        raise E('MemPool::Data::Swap not found')
    F['pool_data_swap'] = W.stmts(W.body(sw[0]))
    mp = cx.find_spec(objs[6], {'class': 'MemPool'})
    mf = cx.method_decls(mp, 'MergeFrom')
    if len(mf) != 1:
        raise E('MemPool::MergeFrom not found')
    link = []
    for c in W.find_all(mf[0], lambda n: n.get('kind') in ('CXXMemberCallExpr', 'CallExpr')):
        nm = W.call_name(c)
        if nm in ('pvSetPrevBuffer', 'pvSetNextBuffer'):
            link.append('SLink "%s" "%s" "%s"' % (nm, W.path(c['inner'][1]), W.path(c['inner'][2])))
    F['pool_merge_link'] = link

    # ---- pool allocator (f8cb4ff)
    pa = cx.find_spec(objs[5], {'class': 'unsynchronized_pool_allocator', 'spec_with_method': 'select_on_container_copy_construction'})
    so = cx.method_decls(pa, 'select_on_container_copy_construction')
    if len(so) != 1:
        raise E('select_on_container_copy_construction not found')
    ty = so[0].get('type', {}).get('qualType', '')
    F['socc_noexcept'] = 'true' if 'noexcept' in ty else 'false'
    F['socc_allocates'] = 'true' if '"name": "get_base_allocator"' in json.dumps(W.body(so[0])) else 'false'
    return F


def facts_text(tu, repo, root='/verif'):
    F = facts(tu, repo, root)
    out = ['(* GENERATED by props/C03/astfacts.py from the clang AST of the current headers (' + os.path.basename(tu) + ') -- do not edit *)',
           'From Coq Require Import List String.', 'From C03 Require Import GenPrimsC03.', 'Import ListNotations.', 'Local Open Scope string_scope.', '']
    for k in sorted(F):
        v = F[k]
        if isinstance(v, list):
            out.append('Definition %s : list cstmt :=\n  [%s].\n' % (k, ';\n   '.join(v)))
        else:
            out.append('Definition %s : bool := %s.\n' % (k, v))
    return '\n'.join(out)


if __name__ == '__main__':
    repo = sys.argv[1] if len(sys.argv) > 1 else '/repo'
    print(facts_text(os.path.join(os.path.dirname(os.path.abspath(__file__)), 'inst_facts.cpp'), repo))
