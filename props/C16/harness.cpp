// C16 implementation side: the REAL SegmentedArraySettings / UIntMath::Log2 functions and the REAL container.
//   lg64 v | lg32 v               Log2
//   sq L i | cn L i               GetSegItemIndexes(i) -> seg item, GetIndex(seg,item), GetItemCount(seg)
//   sqs L i                       GetSegItemIndexes only (indexes outside the proved range; no UB there)
//   sqr L lo n | cnr L lo n       the same four values for every index lo..lo+n-1 on one line
//   sqx L s j | cnx L s j         GetIndex(s,j) then GetSegItemIndexes of it
//   hist F L op...                grow/shrink history on momo::SegmentedArray<Elem,...,Settings<F,L>> (F = sq|cn)
#include "private_access.h"
#include "momo/SegmentedArray.h"
using namespace momo;
typedef unsigned long long ull;
typedef SegmentedArrayItemCountFunc Fn;

// ---------------------------------------------------------------- tracking memory manager
struct AllocRec { size_t size; ull serial; };
static std::map<void*, AllocRec> g_live;
static ull g_serial = 0;
struct TrackMM
{
	explicit TrackMM() noexcept {}
	TrackMM(TrackMM&&) noexcept {}
	TrackMM(const TrackMM&) noexcept {}
	~TrackMM() noexcept {}
	TrackMM& operator=(const TrackMM&) = delete;
	void* Allocate(size_t size) { void* p = operator new(size); g_live[p] = AllocRec{size, ++g_serial}; return p; }
	void Deallocate(void* p, size_t size) noexcept
	{
		auto it = g_live.find(p);
		if (it == g_live.end() || it->second.size != size) { printf("FAIL:bad-deallocate\n"); exit(3); }
		g_live.erase(it); operator delete(p);
	}
};

// element that knows where it was constructed: a bitwise relocation is detected
struct Elem
{
	ull v; const Elem* self;
	Elem() : v(0), self(this) {}
	explicit Elem(ull x) : v(x), self(this) {}
	Elem(const Elem& o) : v(o.v), self(this) {}
	Elem(Elem&& o) noexcept : v(o.v), self(this) {}
	Elem& operator=(const Elem& o) { v = o.v; return *this; }
	Elem& operator=(Elem&& o) noexcept { v = o.v; return *this; }
	~Elem() { self = nullptr; }
};

template<Fn F, size_t L> struct Idx
{
	typedef SegmentedArraySettings<F, L> S;
	static void four(size_t i, std::string& out)
	{
		size_t s = 12345, j = 54321; S::GetSegItemIndexes(i, s, j);
		char buf[128]; snprintf(buf, sizeof buf, "%llu %llu %llu %llu", ull(s), ull(j), ull(S::GetIndex(s, j)), ull(S::GetItemCount(s)));
		out += buf;
	}
	static void segonly(size_t i) { size_t s = 12345, j = 54321; S::GetSegItemIndexes(i, s, j); printf("%llu %llu\n", ull(s), ull(j)); }
	static void rev(size_t s, size_t j)
	{
		size_t i = S::GetIndex(s, j); size_t s2 = 1, j2 = 1; S::GetSegItemIndexes(i, s2, j2);
		printf("%llu %llu %llu\n", ull(i), ull(s2), ull(j2));
	}
};

// ---------------------------------------------------------------- histories on the real container
template<Fn F, size_t L> static void history(std::istringstream& is)
{
	typedef SegmentedArraySettings<F, L> S;
	typedef SegmentedArray<Elem, TrackMM, SegmentedArrayItemTraits<Elem, TrackMM>, S> Arr;
	g_live.clear();
	std::string out; std::string fail;
	{
		Arr arr; std::vector<ull> twin; ull next = 1;
		std::vector<const Elem*> addr;          // address of slot i as last observed
		std::vector<std::pair<void*, ull>> segs; // segment base -> canonical id (order of first appearance)
		std::map<ull, ull> serial2id; ull nextid = 0;
		std::string op; size_t opno = 0;
		while (is >> op && fail.empty())
		{
			++opno;
			char c = op[0]; ull n = op.size() > 1 ? strtoull(op.c_str() + 1, nullptr, 10) : 0;
			bool addrReset = false;
			switch (c)
			{
			case 'a': for (ull k = 0; k < n; ++k) { arr.AddBack(Elem(next)); twin.push_back(next); ++next; } break;
			case 'r': arr.Reserve(size_t(n)); break;
			case 's': { size_t old = twin.size(); arr.SetCount(size_t(n)); twin.resize(size_t(n), 0); (void)old; } break;
			case 'k': arr.Shrink(); break;
			case 'K': arr.Shrink(size_t(n)); break;
			case 'b': if (n <= twin.size()) { arr.RemoveBack(size_t(n)); twin.resize(twin.size() - size_t(n)); } break;
			case 'c': arr.Clear(false); twin.clear(); break;
			case 'C': arr.Clear(true); twin.clear(); addrReset = true; break;
			case 'i': if (n <= twin.size()) { arr.Insert(size_t(n), Elem(next)); twin.insert(twin.begin() + n, next); ++next; } break;
			case 'd': if (n < twin.size()) { arr.Remove(size_t(n), 1); twin.erase(twin.begin() + n); } break;
			case 'n': if (arr.GetCount() < arr.GetCapacity()) { arr.AddBackNogrow(Elem(next)); twin.push_back(next); ++next; } break;
			default: fail = "bad-op";
			}
			// ---- the property on the real container (independent of the Coq model)
			size_t cnt = arr.GetCount();
			if (cnt != twin.size()) fail = "count";
			if (addrReset) addr.clear();
			size_t keep = std::min(addr.size(), cnt);
			for (size_t i = 0; i < cnt && fail.empty(); ++i)
			{
				const Elem* p = &arr[i];
				if (i < keep && p != addr[i]) fail = "moved@" + std::to_string(i);
				if (p->v != twin[i]) fail = "value@" + std::to_string(i);
				if (p->self != p) fail = "relocated@" + std::to_string(i);
				// inside its segment's allocation
				size_t s = 0, j = 0; S::GetSegItemIndexes(i, s, j);
				if (s >= arr.mSegments.GetCount()) { fail = "seg-range@" + std::to_string(i); break; }
				if (j >= S::GetItemCount(s) || p != arr.mSegments[s] + j) fail = "slot@" + std::to_string(i);
				if (i > 0 && j > 0 && p != addr_prev(arr, i)) fail = "noncontig@" + std::to_string(i);
			}
			addr.resize(cnt);
			for (size_t i = 0; i < cnt; ++i) addr[i] = &arr[i];
			// segments: prefix-stable, sized GetItemCount(s), capacity = sum of sizes
			size_t sc = arr.mSegments.GetCount(); size_t capsum = 0;
			for (size_t s = 0; s < sc && fail.empty(); ++s)
			{
				void* base = arr.mSegments[s];
				auto it = g_live.find(base);
				if (it == g_live.end()) { fail = "seg-not-live@" + std::to_string(s); break; }
				if (it->second.size != S::GetItemCount(s) * sizeof(Elem)) fail = "seg-size@" + std::to_string(s);
				if (!serial2id.count(it->second.serial)) serial2id[it->second.serial] = nextid++;
				ull id = serial2id[it->second.serial];
				if (s < segs.size() && !addrReset && (segs[s].first != base || segs[s].second != id)) fail = "seg-replaced@" + std::to_string(s);
				capsum += S::GetItemCount(s);
			}
			if (fail.empty() && capsum != arr.GetCapacity()) fail = "capacity-sum";
			if (fail.empty() && cnt > arr.GetCapacity()) fail = "count>capacity";
			segs.clear();
			for (size_t s = 0; s < sc && fail.empty(); ++s) segs.push_back({arr.mSegments[s], serial2id[g_live[arr.mSegments[s]].serial]});
			char buf[96]; snprintf(buf, sizeof buf, "%llu/%llu/%llu/%lld ", ull(cnt), ull(sc), ull(arr.GetCapacity()), sc ? (long long)segs.back().second : -1LL);
			out += buf;
			if (!fail.empty()) { out += "FAIL:" + fail + "@op" + std::to_string(opno); break; }
		}
	}
	if (fail.empty() && !g_live.empty()) out += "FAIL:leak";
	puts(out.c_str());
}
template<class Arr> static const Elem* addr_prev(Arr& arr, size_t i) { return &arr[i - 1] + 1; }

// ---------------------------------------------------------------- dispatch on the template parameter L
template<Fn F, size_t L> struct Disp
{
	template<class Fun> static void go(size_t l, Fun&& f)
	{
		if (l == L) f(Idx<F, L>()); else Disp<F, L - 1>::go(l, f);
	}
};
template<Fn F> struct Disp<F, 0>
{
	template<class Fun> static void go(size_t l, Fun&& f) { if (l == 0) f(Idx<F, 0>()); else puts("?L"); }
};
template<Fn F> static void hist_dispatch(size_t l, std::istringstream& is)
{
	switch (l) {
	case 0: history<F, 0>(is); break; case 1: history<F, 1>(is); break; case 2: history<F, 2>(is); break;
	case 3: history<F, 3>(is); break; case 4: history<F, 4>(is); break; case 5: history<F, 5>(is); break;
	case 6: history<F, 6>(is); break; case 8: history<F, 8>(is); break;
	default: puts("?L"); }
}

int main()
{
	std::string line;
	while (std::getline(std::cin, line))
	{
		std::istringstream is(line); std::string cmd; is >> cmd;
		if (cmd == "lg64") { ull v; is >> v; printf("%llu\n", ull(internal::UIntMath<size_t>::Log2(size_t(v)))); }
		else if (cmd == "lg32") { ull v; is >> v; printf("%llu\n", ull(internal::UIntMath<uint32_t>::Log2(uint32_t(v)))); }
		else if (cmd == "sq" || cmd == "cn")
		{
			ull l, i; is >> l >> i; std::string out;
			auto f = [&](auto x) { decltype(x)::four(size_t(i), out); };
			if (cmd == "sq") Disp<Fn::sqrt, 63>::go(l, f); else Disp<Fn::cnst, 63>::go(l, f);
			puts(out.c_str());
		}
		else if (cmd == "sqs") { ull l, i; is >> l >> i; Disp<Fn::sqrt, 63>::go(l, [&](auto x) { decltype(x)::segonly(size_t(i)); }); }
		else if (cmd == "sqr" || cmd == "cnr")
		{
			ull l, lo, n; is >> l >> lo >> n; std::string out;
			auto f = [&](auto x) { for (ull i = lo; i < lo + n; ++i) { decltype(x)::four(size_t(i), out); out += ';'; } };
			if (cmd == "sqr") Disp<Fn::sqrt, 63>::go(l, f); else Disp<Fn::cnst, 63>::go(l, f);
			puts(out.c_str());
		}
		else if (cmd == "sqx" || cmd == "cnx")
		{
			ull l, s, j; is >> l >> s >> j;
			auto f = [&](auto x) { decltype(x)::rev(size_t(s), size_t(j)); };
			if (cmd == "sqx") Disp<Fn::sqrt, 63>::go(l, f); else Disp<Fn::cnst, 63>::go(l, f);
		}
		else if (cmd == "hist")
		{
			std::string f; ull l; is >> f >> l;
			if (f == "sq") hist_dispatch<Fn::sqrt>(l, is); else hist_dispatch<Fn::cnst>(l, is);
		}
		else puts("?");
		fflush(stdout);   // a crash (momo assertion, memory error) must not lose the lines already produced
	}
	return 0;
}
