// instantiation TU for cxx2coq (C16, round 4): the container's own capacity / count functions
#include "momo/SegmentedArray.h"
namespace momo {
template class SegmentedArray<uint64_t, MemManagerDefault, SegmentedArrayItemTraits<uint64_t, MemManagerDefault>,
	SegmentedArraySettings<SegmentedArrayItemCountFunc::sqrt, 3>>;
template class SegmentedArray<uint64_t, MemManagerDefault, SegmentedArrayItemTraits<uint64_t, MemManagerDefault>,
	SegmentedArraySettings<SegmentedArrayItemCountFunc::cnst, 5>>;
}

// one use of every member TEMPLATE whose body is pinned as an AST fact (Gen_SegFacts.v): range / single-pass / initializer-list
// Insert and filter-Remove, for both instantiations
#include <iterator>
#include <sstream>
namespace momo {
typedef SegmentedArray<uint64_t, MemManagerDefault, SegmentedArrayItemTraits<uint64_t, MemManagerDefault>,
	SegmentedArraySettings<SegmentedArrayItemCountFunc::sqrt, 3>> C16SqrtArr;
typedef SegmentedArray<uint64_t, MemManagerDefault, SegmentedArrayItemTraits<uint64_t, MemManagerDefault>,
	SegmentedArraySettings<SegmentedArrayItemCountFunc::cnst, 5>> C16CnstArr;
template<typename Arr> inline void c16_use(Arr& a, const uint64_t* p, std::istream& is)
{
	a.Insert(0, p, p + 1);                                                                       // forward iterators -> pvInsert #1
	a.Insert(0, std::istream_iterator<uint64_t>(is), std::istream_iterator<uint64_t>());         // single pass -> pvInsert #2
	a.Insert(0, {uint64_t{1}, uint64_t{2}});
	a.Remove([] (const uint64_t& v) { return v == 0; });
}
template void c16_use<C16SqrtArr>(C16SqrtArr&, const uint64_t*, std::istream&);
template void c16_use<C16CnstArr>(C16CnstArr&, const uint64_t*, std::istream&);
}
