// instantiation TU for cxx2coq (C06): the decision logic the stdish wrappers add on top of the nested containers
#include "momo/stdish/unordered_set.h"
#include "momo/stdish/unordered_map.h"
#include "momo/stdish/unordered_multimap.h"
#include "momo/stdish/set.h"
#include "momo/stdish/map.h"
#include "momo/stdish/vector.h"
namespace momo { namespace stdish {
template class unordered_set<int>;
template class unordered_map<int, int>;
template class unordered_multimap<int, int>;
template class set<int>;
template class multiset<int>;
template class map<int, int>;
template class multimap<int, int>;
template class vector<int>;
// one use of the members of the (implicitly instantiated) base class map_base so that clang instantiates their bodies
inline void c06_use(map<int, int>& m, multimap<int, int>& mm, multiset<int>& ms, unordered_set<int>& us, unordered_map<int, int>& um, unordered_multimap<int, int>& umm)
{
	ms.insert(ms.begin(), ms.extract(ms.begin()));   // node round trips: insert(hint, node&&) bodies
	{ set<int> s1; vector<int> v1; s1 = { 1 }; us = { 1 }; um = { { 1, 2 } }; m = { { 1, 2 } };   // init-list assignment
	  m.insert(m.extract(1)); (void)m.extract(m.begin()); s1.merge(s1); m.merge(m); us.merge(us); (void)(s1 == s1); (void)(s1 != s1); (void)(s1 < s1); (void)(s1 > s1); (void)(s1 <= s1); (void)(s1 >= s1);   // relational operators
	  (void)(m == m); (void)(m != m); (void)(m < m); (void)(m > m); (void)(m <= m); (void)(m >= m);
	  (void)(v1 == v1); (void)(v1 != v1); (void)(v1 < v1); (void)(v1 > v1); (void)(v1 <= v1); (void)(v1 >= v1); }
	(void)(us == us); (void)(um == um); (void)(umm == umm);   // friend operator== bodies
	(void)m.at(1); m[1] = 2; m.try_emplace(1, 2); m.insert_or_assign(1, 2); (void)um.at(1); um[1] = 2; um.try_emplace(1, 2); um.insert_or_assign(1, 2);
	ms.insert(ms.begin(), 1);
	m.emplace(1, 2); m.emplace_hint(m.begin(), 1, 2);
	mm.emplace(1, 2); mm.emplace_hint(mm.begin(), 1, 2);
}
}}
