(* C19 -- what the free-list machine ASSUMES about MemPool, in one place.

   The machine never looks inside the pool; it uses it through three labels: OAlloc r g (mRawMemPool.Allocate returned
   buffer r), OFree g / ORemove r g (mRawMemPool.Deallocate(r); the pool may overwrite the buffer with g).  The exact
   assumptions, and the C09 theorem that STATES each (props/C09/coq/Properties_C09.v).  These are citations, not imports: there is no
   cross-directory Require, so for C19's Coq development A_cells, A_reuse and A_owner remain assumptions (A_fresh is an explicit Section
   hypothesis, A_size is proved in RawPoolSize.v):

   A_fresh     Allocate never returns a block that is outstanding (allocated and not yet deallocated).
               = hypothesis A_fresh below; it is the ONLY thing `step` asks of OAlloc (status r = Free).
               C09_model_no_block_twice_count_exact (NoDup live, live disjoint from spare, for every history),
               C09_inv_chain_block_not_live, C09_inv_cache_block_not_live (the block taken from a free chain / the cache is not live).
   A_reuse     a deallocated block may be handed out again, and Deallocate of an outstanding block is accepted.
               = `dealloc_makes_available` below.  C09_freed_block_available_again, C09_inv_remove_live, C09_inv_pvDeleteBlock.
   A_cells     distinct outstanding blocks are disjoint byte ranges of at least the requested size, disjoint from all pool
               metadata: the link words `link r`, `link r'` are independent cells (this is the TYPE `link : row -> option row`),
               and the pool writes into a block only while it is not outstanding (`OFree g`, `ORemove r g`, `Scribble` on Free).
               C09_newbuffer_layout_and_blockindex_roundtrip (blocks pairwise disjoint, disjoint from meta_ranges, inside the
               buffer), C09_block1_layout, C09_chain_push / C09_chain_take (the free chain is threaded through FREE blocks only).
   A_size      the block is at least sizeof(pointer) bytes and at least the row size.  DISCHARGED INSIDE C19 (round 6): RawPoolSize.v,
               C19_raw_block_holds_link_word, about the regenerated pvCreateRawMemPool size computation and CorrectBlockSize, for every
               column list, alignment and block count (C09_params_corrected_ok says the corrected size passes pvCheckParams).
   A_count     GetAllocateCount() = number of outstanding blocks (used by C19's ORACLE only, not by the machine).
               C09_model_no_block_twice_count_exact (acount = length live), C09_model_count_zero_iff_all_returned.
   A_owner     the pool is used by one thread: every Allocate / Deallocate is in pvAllocateRaw / pvDeallocateFreeRaws / pvDestroyRaw /
               pvCreateRaw (owner-only functions); ~DataRow passes a null memory manager and never touches the pool (C19 conform.py). *)
From Coq Require Import List Arith Bool PeanoNat.
From C19 Require Import Treiber TreiberInv.
Import ListNotations.

Section PoolAssumptions.
  (* MemPool::Allocate as a choice function of the set of outstanding blocks *)
  Variable palloc : list row -> row.
  Hypothesis A_fresh : forall out, ~ In (palloc out) out.

  Definition outstanding_of (s : state) (out : list row) : Prop := forall r, In r out <-> status s r <> Free.

  (* under A_fresh the allocation step of the machine is always enabled for the owner between operations, with the buffer the
     pool chooses, and the bookkeeping follows *)
  Theorem alloc_enabled_under_A_fresh s out g :
    own s = OIdle -> outstanding_of s out ->
    exists s', step s (OAlloc (palloc out) g) = Some s' /\ outstanding_of s' (palloc out :: out).
  Proof.
    intros Ho Hout.
    assert (Sf : status s (palloc out) = Free).
    { destruct (status s (palloc out)) eqn:E; auto; exfalso; apply (A_fresh out); apply Hout; congruence. }
    unfold step. rewrite Ho, Sf. eexists; split; [reflexivity|]. intros r; simpl.
    destruct (Nat.eq_dec r (palloc out)) as [->|N].
    - rewrite upd_eq. split; [discriminate|auto].
    - rewrite upd_neq by auto. split.
      + intros [E|Hin]; [congruence|apply Hout; auto].
      + intros Hs. right. apply Hout; auto.
  Qed.

  (* A_reuse: after the owner deallocates r (drain loop or direct pvDestroyRaw) r is no longer outstanding *)
  Theorem dealloc_makes_available s l s' out :
    step s l = Some s' -> outstanding_of s out ->
    match l with
    | OFree _ => forall r n, own s = ONext r n -> status s' r = Free /\ forall r0, r0 <> r -> status s' r0 = status s r0
    | ORemove r _ => status s' r = Free /\ forall r0, r0 <> r -> status s' r0 = status s r0
    | _ => True
    end.
  Proof.
    intros Hs _. destruct l; auto; unfold step in Hs.
    - intros r n Ho. rewrite Ho in Hs. inversion Hs; subst; simpl. split; [apply upd_eq|intros; apply upd_neq; auto].
    - destruct (own s); try discriminate. destruct (status s r); try discriminate. inversion Hs; subst; simpl.
      split; [apply upd_eq|intros; apply upd_neq; auto].
  Qed.
End PoolAssumptions.

(* non-vacuity of A_fresh: "one more than the largest outstanding block" is such a choice function *)
Definition next_block (out : list row) : row := S (fold_right Nat.max 0 out).
Lemma next_block_fresh out : ~ In (next_block out) out.
Proof.
  unfold next_block. intros H.
  assert (forall x, In x out -> x <= fold_right Nat.max 0 out).
  { clear. induction out; simpl; intros x Hx; [contradiction|]. destruct Hx as [->|Hx]; [apply Nat.le_max_l|].
    eapply Nat.le_trans; [apply IHout; auto|apply Nat.le_max_r]. }
  apply H0 in H. apply (Nat.nle_succ_diag_l _ H).
Qed.
