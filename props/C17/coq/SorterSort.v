(* C17: hand-written executable model (L1) of the SORT half: momo::internal::RadixSorter
   (RadixSorter.h pvSort / pvSelectionSort / pvRadixSort x2 / pvGetRadix) and HashSorter::pvSort's group
   callback + HashSorter::pvGroup, mirroring the source statement by statement.

   - The array is a list of (code, item) pairs.  For SortPrehashed the code is the entry of the parallel hash
     array (iterHashSwapper swaps both arrays, = swapping pairs); for Sort it is hashFunc(item), a function
     of the item, so it travels with the item as well.
   - EVERY mutation goes through  swp  = one iterSwapper call (Stuck if an index is outside the array).  The
     swapper  sw  is a Section variable so that the driver can observe the calls (swap trace); all theorems
     are about  sw = swap.
   - pvSelectionSort's local copy `codes[]` is kept in step with the items by the source (std::swap next to
     every iterSwapper call; group callbacks only swap items with equal codes), so the model reads the code
     from the array.
   - endIndexes / beginIndexes are functions Z -> Z updated with upd.  Loops with a known trip count recurse
     on that count; the cycle-leader loop and the recursion on shift use fuel. *)
From Coq Require Import ZArith Bool List Lia.
From MomoCommon Require Import GenPrelude.
From C17 Require Import SorterSearch.
Import ListNotations.
Local Open Scope Z_scope.

Definition elem : Type := (Z * Z)%type.
Definition arr : Type := list elem.
Definition dflt : elem := (0, 0).
Definition get (l : arr) (i : Z) : elem := nth (Z.to_nat i) l dflt.
Fixpoint set_nth (l : arr) (n : nat) (x : elem) : arr :=
  match l with
  | [] => []
  | h :: t => match n with O => x :: t | S n' => h :: set_nth t n' x end
  end.
Definition swap (l : arr) (i j : Z) : arr :=
  set_nth (set_nth l (Z.to_nat i) (get l j)) (Z.to_nat j) (get l i).
Definition alen (l : arr) : Z := Z.of_nat (length l).
Definition code (l : arr) (i : Z) : Z := fst (get l i).
Definition itm (l : arr) (i : Z) : Z := snd (get l i).

Section SortModel.
  Variable sw : arr -> Z -> Z -> arr.        (* iterSwapper; theorems: sw = swap *)
  Variable eqf : Z -> Z -> bool.             (* equalFunc on items *)
  Variable R : Z.                            (* radixSize *)

  Definition inr (l : arr) (i : Z) : bool := (0 <=? i) && (i <? alen l).
  Definition swp (l : arr) (i j : Z) : outcome arr := if inr l i && inr l j then Ok (sw l i j) else Stuck.

  (* ---- HashSorter::pvGroup (HashSorter.h:208-225) on the sub-array [q, q+cnt) ---- *)
  Fixpoint grp_inner (n : nat) (q i j : Z) (l : arr) : outcome (Z * arr) :=
    match n with
    | O => Ok (i, l)
    | S n' =>
      if eqf (itm l (q + (i - 1))) (itm l (q + j)) then
        l' <- swp l (q + i) (q + j) ;; grp_inner n' q (i + 1) (j + 1) l'
      else grp_inner n' q i (j + 1) l
    end.
  Fixpoint grp_outer (fuel : nat) (q cnt i : Z) (l : arr) : outcome arr :=
    match fuel with
    | O => Fuel
    | S f =>
      if i <? cnt then
        if eqf (itm l (q + (i - 1))) (itm l (q + i)) then grp_outer f q cnt (i + 1) l
        else r <- grp_inner (Z.to_nat (cnt - (i + 1))) q i (i + 1) l ;; grp_outer f q cnt (fst r + 1) (snd r)
      else Ok l
    end.
  Definition pvGroup (l : arr) (q cnt : Z) : outcome arr := grp_outer (S (Z.to_nat cnt)) q cnt 1 l.

  (* the groupFunc lambda of HashSorter::pvSort (HashSorter.h:200-204) / the empty one of RadixSorter::Sort *)
  Definition hs_group (l : arr) (q cnt : Z) : outcome arr := if 2 <? cnt then pvGroup l q cnt else Ok l.
  Definition no_group (l : arr) (q cnt : Z) : outcome arr := Ok l.

  Section WithGroup.
  Variable grp : arr -> Z -> Z -> outcome arr.

  (* ---- pvSelectionSort (RadixSorter.h:100-129) on [p, p+cnt) ---- *)
  Fixpoint min_loop (n : nat) (l : arr) (p k best : Z) : Z :=   (* std::min_element: first minimum *)
    match n with
    | O => best
    | S n' => min_loop n' l p (k + 1) (if code l (p + k) <? code l (p + best) then k else best)
    end.
  Definition min_index (l : arr) (p cnt i : Z) : Z := min_loop (Z.to_nat (cnt - (i + 2))) l p (i + 2) (i + 1).
  Fixpoint sel_loop (n : nat) (p cnt i : Z) (l : arr) : outcome arr :=
    match n with
    | O => Ok l
    | S n' =>
      let m := min_index l p cnt i in
      l' <- (if code l (p + m) <? code l (p + i) then swp l (p + i) (p + m) else Ok l) ;;
      sel_loop n' p cnt (i + 1) l'
    end.
  Fixpoint run_loop (n : nat) (p cnt i prev : Z) (l : arr) : outcome arr :=
    match n with
    | O => grp l (p + prev) (cnt - prev)
    | S n' =>
      if negb (code l (p + i) =? code l (p + prev)) then
        l' <- grp l (p + prev) (i - prev) ;; run_loop n' p cnt (i + 1) i l'
      else run_loop n' p cnt (i + 1) prev l
    end.
  Definition pvSelectionSort (l : arr) (p cnt : Z) : outcome arr :=
    if 0 <? cnt then
      l1 <- sel_loop (Z.to_nat (cnt - 1)) p cnt 0 l ;; run_loop (Z.to_nat (cnt - 1)) p cnt 1 0 l1
    else Stuck.   (* MOMO_ASSERT(count > 0) *)

  (* ---- pvRadixSort (RadixSorter.h:131-208) ---- *)
  Definition radixCount : Z := 2 ^ R.
  Definition selMax : Z := 2 ^ (R / 2 + 1).
  Definition getRadix (c shift : Z) : Z := Z.land (Z.shiftr c shift) (2 ^ R - 1).

  Fixpoint cnt_loop (n : nat) (l : arr) (p shift i code0 radix0 : Z) (ei : Z -> Z) (sc sr : bool)
    : (Z -> Z) * bool * bool :=
    match n with
    | O => (ei, sc, sr)
    | S n' =>
      let c := code l (p + i) in
      let r := getRadix c shift in
      cnt_loop n' l p shift (i + 1) code0 radix0 (upd ei r (ei r + 1)) (sc && (c =? code0)) (sr && (r =? radix0))
    end.
  Fixpoint psum_loop (n : nat) (r : Z) (ei : Z -> Z) : Z -> Z :=
    match n with
    | O => ei
    | S n' => psum_loop n' (r + 1) (upd ei r (ei r + ei (r - 1)))
    end.
  (* the in-place permutation (second pvRadixSort overload) *)
  Fixpoint perm_loop (fuel : nat) (l : arr) (p shift r : Z) (ei bi : Z -> Z) : outcome arr :=
    match fuel with
    | O => Fuel
    | S f =>
      if r <? radixCount then
        if bi r <? ei r then
          let radix := getRadix (code l (p + bi r)) shift in
          l' <- (if negb (radix =? r) then swp l (p + bi r) (p + bi radix) else Ok l) ;;
          perm_loop f l' p shift r ei (upd bi radix (bi radix + 1))
        else perm_loop f l p shift (r + 1) ei bi
      else Ok l
    end.
  (* for (size_t e : endIndexes) { k(begin + beginIndex, e - beginIndex); beginIndex = e; } *)
  Fixpoint buckets (k : arr -> Z -> Z -> outcome arr) (ei : Z -> Z) (n : nat) (r beginIndex : Z) (l : arr)
    : outcome arr :=
    match n with
    | O => Ok l
    | S n' => let e := ei r in l' <- k l beginIndex (e - beginIndex) ;; buckets k ei n' (r + 1) e l'
    end.

  Fixpoint sort_f (fuel : nat) (l : arr) (p cnt shift : Z) {struct fuel} : outcome arr :=
    match fuel with
    | O => Fuel
    | S f =>
      if cnt <? 2 then Ok l
      else if cnt =? 2 then (if code l (p + 1) <? code l p then swp l p (p + 1) else Ok l)
      else if cnt <=? selMax then pvSelectionSort l p cnt
      else radix_f f l p cnt shift
    end
  with radix_f (fuel : nat) (l : arr) (p cnt shift : Z) {struct fuel} : outcome arr :=
    match fuel with
    | O => Fuel
    | S f =>
      let code0 := code l p in
      let radix0 := getRadix code0 shift in
      let '(ei, sc, sr) := cnt_loop (Z.to_nat (cnt - 1)) l p shift 1 code0 radix0 (upd (fun _ => 0) radix0 1) true true in
      if sc then grp l p cnt
      else
        let nextShift := if R <? shift then shift - R else 0 in
        if sr then (if 0 <? shift then radix_f f l p cnt nextShift else Stuck)   (* MOMO_ASSERT(shift > 0) *)
        else
          let ei := psum_loop (Z.to_nat (radixCount - 1)) 1 ei in
          let bi := fun r => if r =? 0 then 0 else ei (r - 1) in
          l1 <- perm_loop (S (Z.to_nat (cnt + radixCount))) l p shift 0 ei bi ;;
          if 0 <? shift then buckets (fun l b c => sort_f f l (p + b) c nextShift) ei (Z.to_nat radixCount) 0 0 l1
          else buckets (fun l b c => grp l (p + b) c) ei (Z.to_nat radixCount) 0 0 l1
    end.

  (* RadixSorter<R>::Sort(begin, count, codeGetter, iterSwapper, groupFunc) for a W-bit Code *)
  Definition RadixSort (W : Z) (l : arr) : outcome arr :=
    sort_f (Z.to_nat (2 * W + 8)) l 0 (alen l) (if R <? W then W - R else 0).
  End WithGroup.

  Definition RadixSortG (g : bool) (W : Z) (l : arr) : outcome arr :=
    RadixSort (if g then hs_group else no_group) W l.
End SortModel.
