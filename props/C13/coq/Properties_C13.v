(* Property C13 -- theorems only.  Each is closed by `exact <lemma>` and followed by Print Assumptions.
   The definitions they talk about (Gen_*.v) are regenerated from /repo's headers on every run. *)
From Coq Require Import ZArith List.
From MomoCommon Require Import GenPrelude.
From C13 Require Gen_Open2N2_m1 Gen_Open2N2_m2 Gen_Open2N2_nf SameCode.
From C13 Require Gen_Open2N2 Gen_OpenN1 Gen_Open8 Open2N2_Proofs OpenN1_Proofs ProbeSeq OpenTable OpenInstances.
Import ListNotations.
Local Open Scope Z_scope.

(* Open2N2<1..3>: after any sequence of UpdateMaxProbe calls (any order, any probes up to 2^63) from a
   reachable encoding, nothing asserts or runs out of fuel, the decoded bound is >= every recorded probe
   and never decreases, and the element-count bits of mState[1] are untouched. *)
Theorem C13_open2n2_bound_covers_all_updates :
  forall (s : Z -> Z) (ps : list Z),
    Open2N2_Proofs.enc_inv s -> Forall (fun p => 0 <= p <= 2 ^ 63) ps ->
    exists s', Open2N2_Proofs.updates s ps = Ok s' /\ Open2N2_Proofs.enc_inv s' /\
      Gen_Open2N2.pvGetMaxProbe s <= Gen_Open2N2.pvGetMaxProbe s' /\
      Forall (fun p => p <= Gen_Open2N2.pvGetMaxProbe s') ps /\
      Gen_Open2N2.pvGetCount s' = Gen_Open2N2.pvGetCount s.
Proof. exact Open2N2_Proofs.updates_cover. Qed.
Print Assumptions C13_open2n2_bound_covers_all_updates.

Theorem C13_open2n2_empty_state_reachable : Open2N2_Proofs.enc_inv (fun _ => 0).
Proof. exact Open2N2_Proofs.enc_inv_empty. Qed.
Print Assumptions C13_open2n2_empty_state_reachable.

(* OpenN1<maxCount> / Open8 (= OpenN1<7>): for every maxCount, every table size 2^L (L <= 63) and every
   sequence of probes below the bucket count, GetMaxProbe(L) of the final state is >= every recorded
   probe (including the lossy "infinite" encoding), previously covered probes stay covered, and no other
   byte of mData changes. *)
Theorem C13_openn1_bound_covers_all_updates :
  forall (maxCount : Z) (s : Z -> Z) (ps : list Z) (L : Z),
    OpenN1_Proofs.enc_inv maxCount s -> 0 <= L <= 63 -> Forall (fun p => 0 <= p < 2 ^ L) ps ->
    exists s', OpenN1_Proofs.updates maxCount s ps = Ok s' /\ OpenN1_Proofs.enc_inv maxCount s' /\
      (forall q, q < 2 ^ L -> q <= Gen_OpenN1.GetMaxProbe maxCount s L -> q <= Gen_OpenN1.GetMaxProbe maxCount s' L) /\
      Forall (fun p => p <= Gen_OpenN1.GetMaxProbe maxCount s' L) ps /\
      (forall i, i <> maxCount -> s' i = s i).
Proof. exact OpenN1_Proofs.updates_cover. Qed.
Print Assumptions C13_openn1_bound_covers_all_updates.

(* triangular probing: for EVERY table size 2^n (n <= 63) and every start bucket the sequence
   index_p = GetNextBucketIndex(index_{p-1}, _, 2^n, p) reaches every bucket within 2^n probes, i.e.
   before HashSet::pvAddNogrow reports "Hash table is full". *)
Theorem C13_open2n2_probe_sequence_complete :
  forall n start b, 0 <= n <= 63 -> 0 <= start < 2 ^ n -> 0 <= b < 2 ^ n ->
    exists p, Z.of_nat p < 2 ^ n /\ ProbeSeq.probe_index Gen_Open2N2.GetNextBucketIndex n start p = b.
Proof. exact ProbeSeq.open2n2_probe_covers. Qed.
Print Assumptions C13_open2n2_probe_sequence_complete.

Theorem C13_open8_probe_sequence_complete :
  forall n start b, 0 <= n <= 63 -> 0 <= start < 2 ^ n -> 0 <= b < 2 ^ n ->
    exists p, Z.of_nat p < 2 ^ n /\ ProbeSeq.probe_index Gen_Open8.GetNextBucketIndex n start p = b.
Proof. exact ProbeSeq.open8_probe_covers. Qed.
Print Assumptions C13_open8_probe_sequence_complete.

Theorem C13_triangular_injective :
  forall n i j, 0 <= n -> 0 <= i -> i < j -> j < 2 ^ n -> (ProbeSeq.tri j - ProbeSeq.tri i) mod 2 ^ n <> 0.
Proof. exact ProbeSeq.tri_inj. Qed.
Print Assumptions C13_triangular_injective.

(* Table level ("Hence ..." of the property).  OpenTable.v models HashSet::pvAddNogrow / pvFind for an
   open-addressing table with 2^n buckets of capacity cap, ANY hash function h, the generated probe step
   and the generated bound encoder.  For every history of insertions and removals from the empty table,
   a key that is present in some bucket is found by the bounded probe loop. *)
Theorem C13_open2n2_present_key_always_found :
  forall n cap h ops b k,
  0 <= n <= 63 -> (forall k, 0 <= h k < 2 ^ n) ->
  let s := fold_left (OpenTable.step n Gen_Open2N2.GetNextBucketIndex cap h (Z -> Z) OpenInstances.upd2) ops
                     {| OpenTable.bk := fun _ => []; OpenTable.bd := fun _ => (fun _ => 0) |} in
  In k (OpenTable.bk _ s b) ->
  OpenTable.find n Gen_Open2N2.GetNextBucketIndex h (Z -> Z) Gen_Open2N2.pvGetMaxProbe s k = true.
Proof. exact OpenInstances.open2n2_present_key_found. Qed.
Print Assumptions C13_open2n2_present_key_always_found.

(* ... and an insertion reports "Hash table is full" only when no bucket of the table has room. *)
Theorem C13_open2n2_insert_fails_only_if_all_buckets_full :
  forall n cap h (s : OpenTable.table (Z -> Z)) k,
  0 <= n <= 63 -> (forall k, 0 <= h k < 2 ^ n) ->
  OpenTable.add n Gen_Open2N2.GetNextBucketIndex cap h (Z -> Z) OpenInstances.upd2 s k = None ->
  forall b, 0 <= b < 2 ^ n -> (cap <= length (OpenTable.bk _ s b))%nat.
Proof. exact OpenInstances.open2n2_full_only_if_all_full. Qed.
Print Assumptions C13_open2n2_insert_fails_only_if_all_buckets_full.

Theorem C13_open8_openn1_present_key_always_found :
  forall mc n cap h ops b k,
  0 <= n <= 63 -> (forall k, 0 <= h k < 2 ^ n) ->
  let s := fold_left (OpenTable.step n Gen_Open8.GetNextBucketIndex cap h (Z -> Z) (OpenInstances.updN mc)) ops
                     {| OpenTable.bk := fun _ => []; OpenTable.bd := fun _ => (fun _ => 0) |} in
  In k (OpenTable.bk _ s b) ->
  OpenTable.find n Gen_Open8.GetNextBucketIndex h (Z -> Z) (fun st => Gen_OpenN1.GetMaxProbe mc st n) s k = true.
Proof. exact OpenInstances.open8_present_key_found. Qed.
Print Assumptions C13_open8_openn1_present_key_always_found.

Theorem C13_open8_openn1_insert_fails_only_if_all_buckets_full :
  forall mc n cap h (s : OpenTable.table (Z -> Z)) k,
  0 <= n <= 63 -> (forall k, 0 <= h k < 2 ^ n) ->
  OpenTable.add n Gen_Open8.GetNextBucketIndex cap h (Z -> Z) (OpenInstances.updN mc) s k = None ->
  forall b, 0 <= b < 2 ^ n -> (cap <= length (OpenTable.bk _ s b))%nat.
Proof. exact OpenInstances.open8_full_only_if_all_full. Qed.
Print Assumptions C13_open8_openn1_insert_fails_only_if_all_buckets_full.

(* The encoder and probe-step code regenerated from BucketOpen2N2<.,1,true>, <.,2,true> and <.,3,false> is
   syntactically the code the theorems above are about (<.,3,true>): they hold for Open2N2<1..3>, both variants. *)
Theorem C13_open2n2_all_instantiations_same_code :
  (Gen_Open2N2_m1.UpdateMaxProbe = Gen_Open2N2.UpdateMaxProbe /\ Gen_Open2N2_m1.pvGetMaxProbe = Gen_Open2N2.pvGetMaxProbe /\
   Gen_Open2N2_m1.pvGetCount = Gen_Open2N2.pvGetCount /\ Gen_Open2N2_m1.GetNextBucketIndex = Gen_Open2N2.GetNextBucketIndex) /\
  (Gen_Open2N2_m2.UpdateMaxProbe = Gen_Open2N2.UpdateMaxProbe /\ Gen_Open2N2_m2.pvGetMaxProbe = Gen_Open2N2.pvGetMaxProbe /\
   Gen_Open2N2_m2.pvGetCount = Gen_Open2N2.pvGetCount /\ Gen_Open2N2_m2.GetNextBucketIndex = Gen_Open2N2.GetNextBucketIndex) /\
  (Gen_Open2N2_nf.UpdateMaxProbe = Gen_Open2N2.UpdateMaxProbe /\ Gen_Open2N2_nf.pvGetMaxProbe = Gen_Open2N2.pvGetMaxProbe /\
   Gen_Open2N2_nf.pvGetCount = Gen_Open2N2.pvGetCount /\ Gen_Open2N2_nf.GetNextBucketIndex = Gen_Open2N2.GetNextBucketIndex).
Proof. exact SameCode.same_all. Qed.
Print Assumptions C13_open2n2_all_instantiations_same_code.
