(* C02 model driver: the extracted Coq model of momo::TreeSet run on the same op scripts as harness.cpp.
   Line:  <cfg> <maxCap> <step> <blockCount> <lin> <multi> op op ...      (one output line per case, one token per op)
   Only the I/O glue lives here; every tree operation is the extracted Gallina. *)
open Zutil
open BTreeModel
open NodeScript

let nat = nat_of_int
let int = int_of_nat
let zi z = int_of_z z

let () = iter_lines (fun line ->
  match words line with
  | _cfg :: mc :: st :: bc :: _lin :: _multi :: "N" :: layout :: ops ->
    (* node script: <layout C|I> then ops L<c0> | T<c0> | A<index>:<key> | R<index>; every state change is extracted Gallina
       (NodeScript.v, which calls the cxx2coq-generated node operations) *)
    let mcn = int_of_string mc in
    let mc = nat_of_int mcn and st = nat_of_int (int_of_string st) and bc = nat_of_int (int_of_string bc) in
    let cont = (layout = "C") in
    let s = ref (ns_create mc st bc true (nat_of_int 0)) in
    let nextchild = ref 1000 in
    let buf = Buffer.create 256 in
    let zs l = String.concat "," (List.map (fun z -> string_of_int (int_of_z z)) l) in
    let dump () =
      let st_ = !s in
      let cap = int_of_z (ns_capacity mc st st_) in
      Buffer.add_string buf (Printf.sprintf "%d/%d/%d/%d;" (int_of_z (ns_cnt st_)) (int_of_z (ns_mpi st_)) cap (if ns_is_leaf mc st st_ then 1 else 0));
      if cont then Buffer.add_char buf '-' else Buffer.add_string buf (zs (ns_table mc st_));
      Buffer.add_char buf ';';
      let sl = List.init cap (fun i -> if ns_live cont st_ (z_of_int i) then string_of_int (int_of_z (ns_slot st_ (z_of_int i))) else "_") in
      Buffer.add_string buf (String.concat "," sl);
      Buffer.add_char buf ';';
      if ns_is_leaf mc st st_ then Buffer.add_char buf '-' else Buffer.add_string buf (zs (ns_children st_)) in
    let first = ref true in
    List.iter (fun op ->
      if not !first then Buffer.add_char buf ' ';
      first := false;
      let arg = String.sub op 1 (String.length op - 1) in
      let (a1, a2) = match String.split_on_char ':' arg with
        | [x] -> ((try int_of_string x with _ -> 0), 0)
        | [x; y] -> ((try int_of_string x with _ -> 0), (try int_of_string y with _ -> 0))
        | _ -> (0, 0) in
      match op.[0] with
      | 'L' -> s := ns_create mc st bc true (nat_of_int (min a1 mcn)); nextchild := 1000; dump ()
      | 'T' -> s := ns_create mc st bc false (nat_of_int (min a1 mcn)); nextchild := 1000; dump ()
      | 'A' ->
        (match ns_accept mc st cont !s (z_of_int a1) (z_of_int a2) (z_of_int !nextchild) with
         | Some s' -> s := s'; incr nextchild; dump ()
         | None -> Buffer.add_char buf 'S')
      | 'R' ->
        (match ns_remove mc st cont !s (z_of_int a1) with
         | Some s' -> s := s'; dump ()
         | None -> Buffer.add_char buf 'S')
      | _ -> Buffer.add_string buf "?op") ops;
    print_endline (Buffer.contents buf)
  | _cfg :: mc :: st :: bc :: lin :: multi :: ops ->
    let mc = nat (int_of_string mc) and st = nat (int_of_string st) and bc = nat (int_of_string bc) in
    let lin = (lin = "1") and multi = (multi = "1") in
    let ts = [| ref empty_tree; ref empty_tree |] in
    let t = ref (ts.(0)) in
    let buf = Buffer.create 256 in
    let first = ref true in
    let ordered a b = if multi then not (b < a) else a < b in
    let idx it = int (iter_index !(!t) it) in
    let at h = nth_iter !(!t) (nat h) in
    let size () = List.length (contents !(!t)) in
    let do_insert tag k =
      let ((t', pos), ins) = insert mc st bc lin multi !(!t) (z_of_int k) in
      !t := t';
      Buffer.add_string buf (Printf.sprintf "%s%d/%d" tag (idx pos) (if ins then 1 else 0)) in
    List.iter (fun op0 ->
      if not !first then Buffer.add_char buf ' ';
      first := false;
      let side = if op0.[0] = 'b' then 1 else 0 in
      let op = if side = 1 then String.sub op0 1 (String.length op0 - 1) else op0 in
      t := ts.(side);
      let k0 = op.[0] in
      let arg = String.sub op 1 (String.length op - 1) in
      let (a1, a2, a3, na) =
        match String.split_on_char ':' arg with
        | [x] when x <> "" -> (try (int_of_string x, 0, 0, 1) with _ -> (0, 0, 0, 0))
        | [x; y] -> (try (int_of_string x, int_of_string y, 0, 2) with _ -> (0, 0, 0, 0))
        | [x; y; z] -> (try (int_of_string x, int_of_string y, int_of_string z, 3) with _ -> (0, 0, 0, 0))
        | _ -> (0, 0, 0, 0) in
      (* index arguments: negative = counted from the end (-1 = last valid position), as in harness.cpp *)
      let ix a n = if a < 0 then n - (min n (-a)) else a mod n in
      match k0 with
      | 'i' -> do_insert "I" a1
      | 'a' ->
        let l = List.map zi (contents !(!t)) in
        let n = List.length l in
        let h = if a1 < 0 then ix a1 (n + 1) else min a1 n in
        let k = a2 in
        let right = (h = 0 || ordered (List.nth l (h - 1)) k) && (h = n || ordered k (List.nth l h)) in
        if not right then do_insert "A" k
        else begin
          let (t', pos) = add mc st bc !(!t) (at h) (z_of_int k) in
          !t := t';
          Buffer.add_string buf (Printf.sprintf "A%d/1" (idx pos))
        end
      | 'q' ->
        let k = z_of_int a1 in
        let lb = idx (lower_bound lin !(!t) k) and ub = idx (upper_bound lin !(!t) k) and f = idx (find lin !(!t) k) in
        let kc = int (key_count lin multi !(!t) k) and ct = contains lin !(!t) k in
        Buffer.add_string buf (Printf.sprintf "Q%d,%d,%d,%d,%d" lb ub f kc (if ct then 1 else 0))
      | 't' ->
        let f = List.map (fun z -> string_of_int (zi z)) (traverse_fwd !(!t)) in
        let b = List.map (fun z -> string_of_int (zi z)) (traverse_bwd !(!t)) in
        Buffer.add_string buf (Printf.sprintf "T%d:%s|%s" (int (cnt !(!t))) (String.concat "," f) (String.concat "," b))
      | 's' ->
        let sh = shape_of !(!t) in
        if sh = [] then Buffer.add_string buf "S-"
        else Buffer.add_string buf ("S" ^ String.concat "." (List.map (fun ((leaf, c), cap) ->
          Printf.sprintf "%c%d/%d" (if leaf then 'L' else 'N') (int c) (int cap)) sh))
      | 'r' ->
        let n = size () in
        if n = 0 then Buffer.add_string buf "R-"
        else begin
          let (t', it) = remove !(!t) (at (ix a1 n)) in
          !t := t';
          Buffer.add_string buf (Printf.sprintf "R%d" (idx it))
        end
      | 'n' ->
        let ks = List.map (fun x -> z_of_int (int_of_string x)) (List.filter (fun x -> x <> "") (String.split_on_char ',' arg)) in
        let before = size () in
        !t := insert_range mc st bc lin multi !(!t) ks;
        Buffer.add_string buf (Printf.sprintf "N%d" (size () - before))
      | 'g' ->
        let n = size () in
        if n = 0 then Buffer.add_string buf "G-"
        else begin
          let h1 = ix a1 (n + 1) and h2 = ix a2 (n + 1) in
          let (h1, h2) = if h1 > h2 then (h2, h1) else (h1, h2) in
          let (t', it) = remove_range !(!t) (nat h1) (nat h2) in
          !t := t';
          Buffer.add_string buf (Printf.sprintf "G%d" (idx it))
        end
      | 'k' when multi ->
        let (t', n) = remove_key_multi lin !(!t) (z_of_int a1) in
        !t := t';
        Buffer.add_string buf (Printf.sprintf "K%d" (int n))
      | 'k' when not multi ->
        let (t', n) = remove_key lin !(!t) (z_of_int a1) in
        !t := t';
        Buffer.add_string buf (Printf.sprintf "K%d" (int n))
      | 'c' -> !t := clear !(!t); Buffer.add_char buf 'C'
      | 'z' -> !t := empty_tree; Buffer.add_char buf 'Z'
      | 'f' ->
        let before = int (cnt !(!t)) in
        for j = 0 to a1 - 1 do
          let ((t', _), _) = insert mc st bc lin multi !(!t) (z_of_int (a2 + j * a3)) in
          !t := t'
        done;
        Buffer.add_string buf (Printf.sprintf "F%d" (int (cnt !(!t)) - before))
      | 'X' ->
        let n = size () in
        if n = 0 then Buffer.add_string buf "X-"
        else begin
          let h = ix a1 n in
          let key = List.nth (contents !(!t)) h in
          let (t1, it) = remove !(!t) (at h) in
          let (t2, pos) = add mc st bc t1 it key in
          !t := t2;
          Buffer.add_string buf (Printf.sprintf "X%d/1" (idx pos))
        end
      | 'd' ->
        let n = size () in
        if n = 0 then Buffer.add_string buf "D-"
        else begin
          let (t', _) = remove !(!t) (at (ix a1 n)) in
          !t := t';
          Buffer.add_char buf 'D'
        end
      | 'x' ->
        let n = size () in
        if n = 0 then Buffer.add_string buf "X-"
        else begin
          let h = ix a1 n in
          let key = if na >= 2 && a2 >= 0 then a2 else zi (List.nth (contents !(!t)) h) in
          let (t', _) = remove !(!t) (at h) in
          !t := t';
          do_insert "X" key
        end
      | 'e' ->
        let l = List.map zi (contents !(!t)) in
        let n = List.length l in
        if n = 0 then Buffer.add_string buf "E-"
        else begin
          let h = ix a1 n and k = a2 in
          let okk = (h = 0 || ordered (List.nth l (h - 1)) k) && (h + 1 = n || ordered k (List.nth l (h + 1))) in
          if not okk then Buffer.add_string buf "E0"
          else begin !t := reset_key !(!t) (at h) (z_of_int k); Buffer.add_string buf "E1" end
        end
      | 'y' | 'Y' -> !t := copy_tree mc st bc !(!t); Buffer.add_char buf 'Y'
      | 'm' -> Buffer.add_char buf 'M'
      | 'p' ->
        let m = max a1 1 and r = a2 in
        let before = size () in
        !t := remove_if (fun z -> (zi z) mod m = r) !(!t);
        Buffer.add_string buf (Printf.sprintf "P%d" (before - size ()))
      | 'w' -> let a = !(ts.(0)) in ts.(0) := !(ts.(1)); ts.(1) := a; Buffer.add_char buf 'W'
      | 'u' | 'v' ->
        let other = ts.(1 - side) in
        (match merge_to mc st bc lin multi !other !(!t) with
         | Some (src', dst') ->
           other := src'; !t := dst';
           Buffer.add_string buf (Printf.sprintf "U%d,%d" (int (cnt dst')) (int (cnt src')))
         | None -> Buffer.add_string buf "?fast")
      | _ -> Buffer.add_string buf "?unmodelled") ops;
    print_endline (Buffer.contents buf)
  | _ -> print_endline "?")
