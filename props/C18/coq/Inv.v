(* C18 -- the invariant of DataColumnList under every history of Add calls, and its consequences:
   layout, lookup = recorded offset (also for the old columns through the NEW addends table and code
   parameter), Contains <-> added, refused additions change nothing, no fuel / assertion outcome. *)
From Coq Require Import ZArith Bool List Lia.
From MomoCommon Require Import GenPrelude.
From C18 Require Import Gen_Vertices Gen_Ceil Model Layout Fill Vertices Bits.
From C18 Require Gen_List Gen_Mut Gen_Bits.
Import ListNotations.
Local Open Scope Z_scope.

(* ---------- graph construction ---------- *)
Lemma in_add_edge g v1 v2 val v e :
  In e (add_edge g v1 v2 val v) <-> (v = v1 /\ e = (v2, val)) \/ In e (g v).
Proof.
  unfold add_edge. destruct (Z.eqb_spec v v1) as [->|Hne]; simpl; split.
  - intros [<-|H]; auto.
  - intros [[_ ->]|H]; auto.
  - auto.
  - intros [[E _]|H]; [contradiction|auto].
Qed.

Lemma in_add_edges g v1 v2 val v e :
  In e (add_edges g v1 v2 val v) <-> (v = v1 /\ e = (v2, val)) \/ (v = v2 /\ e = (v1, val)) \/ In e (g v).
Proof. unfold add_edges. rewrite !in_add_edge. tauto. Qed.

Lemma in_zrange n : forall s v, In v (zrange n s) <-> s <= v < s + Z.of_nat n.
Proof.
  induction n as [|n IH]; intros s v; cbn [zrange In].
  - lia.
  - rewrite IH. lia.
Qed.

Lemma length_zrange n : forall s, length (zrange n s) = n.
Proof. induction n; intros; simpl; auto. Qed.

Lemma record_eta r : mkrec (r_code r) (r_off r) (r_size r) (r_align r) (r_mut r) = r.
Proof. destruct r; reflexivity. Qed.

Lemma mem_in x l : mem x l = true <-> In x l.
Proof.
  unfold mem. rewrite existsb_exists. split.
  - intros (y & Hy & E). apply Z.eqb_eq in E. subst; auto.
  - intros H. exists x. split; [auto|apply Z.eqb_refl].
Qed.

Lemma set_insert_in xs : forall l c, In c (set_insert l xs) <-> In c l \/ In c xs.
Proof.
  induction xs as [|x xs IH]; intros l c; cbn [set_insert].
  - simpl. tauto.
  - rewrite IH. destruct (mem x l) eqn:E.
    + apply mem_in in E. simpl. split; [intros [H|H]; auto|intros [H|[<-|H]]; auto].
    + simpl. tauto.
Qed.


Lemma firstn_in {A} (x : A) j : forall l, In x (firstn j l) -> In x l.
Proof. induction j as [|j IH]; intros [|y l]; simpl; auto; try tauto. intros [H|H]; auto. Qed.

Lemma set_remove_in l xs c : In c (set_remove l xs) <-> In c l /\ ~ In c xs.
Proof.
  unfold set_remove. rewrite filter_In. split; intros (H1 & H2); split; auto.
  - intros Hin. apply mem_in in Hin. rewrite Hin in H2. discriminate.
  - destruct (mem c xs) eqn:E; [apply mem_in in E; contradiction|reflexivity].
Qed.

(* which offsets carry a "mutable" bit: those of the mutable columns *)
Definition mut_at (rs : list crec) (o : Z) : bool := existsb (fun r => Z.eqb (r_off r) o && r_mut r) rs.

Lemma set_mutables_get rs : forall b o, bytes_ok b -> (forall r, In r rs -> 0 <= r_off r) -> 0 <= o ->
  GetBit (set_mutables b rs) o = GetBit b o || mut_at rs o.
Proof.
  induction rs as [|r rs IH]; intros b o Hb Hr Ho; cbn [set_mutables mut_at existsb].
  - rewrite orb_false_r. reflexivity.
  - assert (H0 : 0 <= r_off r) by (apply Hr; left; auto).
    assert (Hr' : forall r0, In r0 rs -> 0 <= r_off r0) by (intros; apply Hr; right; auto).
    fold (mut_at rs o). destruct (r_mut r).
    + rewrite IH by (auto using SetBit_ok). rewrite GetBit_SetBit by auto. rewrite andb_true_r.
      destruct (Z.eqb (r_off r) o), (GetBit b o), (mut_at rs o); reflexivity.
    + rewrite IH by auto. rewrite andb_false_r. reflexivity.
Qed.

Lemma set_mutables_ok rs : forall b, bytes_ok b -> (forall r, In r rs -> 0 <= r_off r) -> bytes_ok (set_mutables b rs).
Proof.
  induction rs as [|r rs IH]; intros b Hb Hr; cbn [set_mutables]; auto.
  apply IH; [|intros; apply Hr; right; auto]. destruct (r_mut r); auto. apply SetBit_ok; auto. apply Hr; left; auto.
Qed.

Lemma set_mutables_other rs : forall b i, (forall r, In r rs -> r_off r / 8 <> i) -> set_mutables b rs i = b i.
Proof.
  induction rs as [|r rs IH]; intros b i Hr; cbn [set_mutables]; auto.
  rewrite IH by (intros; apply Hr; right; auto). destruct (r_mut r); auto.
  unfold SetBit. apply upd_other. intros E. apply (Hr r (or_introl eq_refl)). auto.
Qed.

Lemma set_count_id old n b bound : bound <= old -> bound <= n -> (forall i, bound <= i -> b i = 0) ->
  forall i, set_count old n b i = b i.
Proof.
  intros H1 H2 Hz i. unfold set_count.
  destruct (Z.ltb_spec i n); destruct (Z.ltb_spec i old); simpl; auto; symmetry; apply Hz; lia.
Qed.

Section WithL.
  Variable L : Z.
  Variable keep : bool.
  Hypothesis HL : 4 <= L <= 15.

  Definition edge_of (cp : Z) (r : crec) (v : Z) (e : Z * Z) : Prop :=
    (v = fst (GetVertices L (r_code r) cp) /\ e = (snd (GetVertices L (r_code r) cp), r_off r)) \/
    (v = snd (GetVertices L (r_code r) cp) /\ e = (fst (GetVertices L (r_code r) cp), r_off r)).

  Lemma in_old_edges cp cs : forall g v e,
    In e (old_edges L cp g cs v) <-> In e (g v) \/ exists r, In r cs /\ edge_of cp r v e.
  Proof.
    induction cs as [|c cs IH]; intros g v e; cbn [old_edges].
    - split; [auto|]. intros [H|(r & [] & _)]; auto.
    - destruct (GetVertices L (r_code c) cp) as [v1 v2] eqn:Ev.
      rewrite IH, in_add_edges. split.
      + intros [[H|[H|H]]|(r & Hr & He)].
        * right. exists c. split; [left; auto|]. left. rewrite Ev. exact H.
        * right. exists c. split; [left; auto|]. right. rewrite Ev. exact H.
        * auto.
        * right. exists r. split; [right; auto|auto].
      + intros [H|(r & [<-|Hr] & He)].
        * auto.
        * left. unfold edge_of in He. rewrite Ev in He. simpl in He. tauto.
        * right. exists r. auto.
  Qed.

  Lemma old_edges_app cp a : forall g b, old_edges L cp g (a ++ b) = old_edges L cp (old_edges L cp g a) b.
  Proof.
    induction a as [|c a IH]; intros g b; cbn [old_edges app]; [reflexivity|].
    destruct (GetVertices L (r_code c) cp). apply IH.
  Qed.

  Lemma pow_L : 16 <= 2 ^ L <= 2 ^ 15.
  Proof.
    split; [change 16 with (2 ^ 4)|]; apply Z.pow_le_mono_r; lia.
  Qed.

  Lemma vertexCount_eq : vertexCount L = 2 ^ L.
  Proof.
    pose proof pow_L. unfold vertexCount, Gen_List.vertexCount. rewrite Z.shiftl_1_l. apply wrapU_small. lia.
  Qed.

  Lemma maxColumnCount_eq : maxColumnCount L = 2 ^ (L - 1).
  Proof.
    unfold maxColumnCount, Gen_Vertices.maxColumnCount. rewrite (wrapU_small 64 (L - 1)) by lia. rewrite Z.shiftl_1_l.
    apply wrapU_small. split; [apply Z.pow_nonneg; lia|]. apply Z.pow_lt_mono_r; lia.
  Qed.

  Lemma maxCodeParam_eq : maxCodeParam = 255.
  Proof. reflexivity. Qed.

  (* the trivial getters, as generated (definitional: they return the member) *)
  Lemma generated_getters cp a ts al mb :
    Gen_List.GetTotalSize cp a ts al = ts /\ Gen_List.GetAlignment cp a ts al = al /\
    Gen_Mut.IsMutable Gen_Bits.GetBit ts mb ts = Stuck.
  Proof.
    split; [reflexivity|]. split; [reflexivity|]. unfold Gen_Mut.IsMutable. rewrite Z.ltb_irrefl. reflexivity.
  Qed.

  Lemma source_constants :
    Gen_List.vertexCount L = 2 ^ L /\ Gen_Vertices.maxColumnCount L = 2 ^ (L - 1) /\ Gen_Vertices.maxCodeParam = 255.
  Proof. split; [exact vertexCount_eq|]. split; [exact maxColumnCount_eq|exact maxCodeParam_eq]. Qed.

  Lemma maxColumnCount_le : 0 < maxColumnCount L <= 2 ^ 14.
  Proof.
    rewrite maxColumnCount_eq. split; [apply Z.pow_pos_nonneg; lia|].
    apply Z.pow_le_mono_r; lia.
  Qed.

  Lemma in_vertices v : In v (vertices L) <-> 0 <= v < 2 ^ L.
  Proof.
    unfold vertices. rewrite in_zrange, vertexCount_eq. pose proof pow_L. rewrite Z2Nat.id by lia. lia.
  Qed.

  Lemma vertices_in_range code cp : 0 <= cp <= 255 ->   (* 255 = maxCodeParam: maxCodeParam_eq *)
    In (fst (GetVertices L code cp)) (vertices L) /\ In (snd (GetVertices L code cp)) (vertices L).
  Proof.
    intros Hcp. rewrite !in_vertices. unfold GetVertices.
    destruct (GetVertices_range L code cp HL Hcp) as (H1 & H2 & _). auto.
  Qed.

  Definition Bsz : Z := 2 ^ 47.

  (* success of the DFS on the graph of a list of records means every record is found at its offset *)
  Lemma graph_lookup cp rs : 0 <= cp <= 255 -> (forall r, In r rs -> 0 <= r_off r <= Bsz) ->
    exists b a, fill_all (dfs_fuel L) (old_edges L cp g_empty rs) (vertices L) (fun _ => 0) = Some (b, a) /\
      (b = true -> forall r, In r rs -> lookup L cp a (r_code r) = Some (r_off r)).
  Proof.
    intros Hcp Hoffs. pose proof pow_L as PL.
    set (G := old_edges L cp g_empty rs).
    assert (Hg : forall v v2 val, In (v2, val) (G v) -> In v2 (vertices L) /\ 0 <= val <= Bsz).
    { intros v v2 val H. unfold G in H. apply in_old_edges in H. destruct H as [H|(r & Hr & He)]; [exact (False_ind _ H)|].
      destruct (vertices_in_range (r_code r) cp Hcp) as (I1 & I2).
      destruct He as [(_ & E)|(_ & E)]; injection E as -> ->; auto. }
    assert (HF : Z.of_nat (dfs_fuel L) = 2 ^ L + 1).
    { unfold dfs_fuel. rewrite Nat2Z.inj_succ, vertexCount_eq, Z2Nat.id; lia. }
    destruct (fill_all_spec G (vertices L) Bsz (Z.of_nat (dfs_fuel L)) Hg) with (f0 := dfs_fuel L) (vs := vertices L) (a := fun _ : Z => 0)
      as (b & a & E & _ & _ & Hok).
    - unfold Bsz; lia.
    - rewrite HF. unfold Bsz. nia.
    - reflexivity.
    - unfold vertices, dfs_fuel. rewrite length_zrange. lia.
    - intros w Hw. contradiction.
    - intros w Hw. contradiction.
    - exists b, a. split; [exact E|]. intros Hb r Hr.
      destruct (Hok Hb) as (_ & Hall).
      destruct (vertices_in_range (r_code r) cp Hcp) as (I1 & I2).
      assert (He : In (snd (GetVertices L (r_code r) cp), r_off r) (G (fst (GetVertices L (r_code r) cp)))).
      { unfold G. apply in_old_edges. right. exists r. split; [auto|]. left. auto. }
      destruct (Hall _ I1 _ He) as (N1 & N2 & Es). clear He I1 I2.
      unfold lookup. destruct (GetVertices L (r_code r) cp) as [v1 v2]. cbn [fst snd] in *.
      destruct (Z.eqb_spec (a v1) 0); [contradiction|]. destruct (Z.eqb_spec (a v2) 0); [contradiction|].
      simpl. rewrite Es. reflexivity.
  Qed.

  Lemma add_columns_id cp a rs : (forall r, In r rs -> lookup L cp a (r_code r) = Some (r_off r)) ->
    add_columns L cp a rs = Some rs.
  Proof.
    induction rs as [|r rs IH]; intros H; cbn [add_columns]; [reflexivity|].
    rewrite (H r (or_introl eq_refl)). rewrite IH by (intros; apply H; right; auto).
    rewrite record_eta. reflexivity.
  Qed.

  (* ---------- the invariant ---------- *)
  Definition slot : Z := rowNumberSize keep.

  Record Inv (st : state) : Prop := {
    inv_cp : 0 <= codeParam st <= 255;
    inv_chain : chain slot (columns st) (totalSize st);
    inv_bound : totalSize st <= slot + Z.of_nat (length (columns st)) * (maxItemSize + 16);
    inv_count : Z.of_nat (length (columns st)) <= maxColumnCount L;
    inv_al : pow2_le16 (alignment st);
    inv_recs : Forall rec_ok (columns st);
    inv_aldiv : Forall (fun r => (r_align r | alignment st)) (columns st);
    inv_lookup : forall r, In r (columns st) -> get_offset L st (r_code r) = Some (r_off r);
    inv_set : forall c, In c (codeSet st) <-> In c (map r_code (columns st));
    (* mMutableOffsets covers every offset below the total size -- except in the freshly constructed list, where the
       array is empty although mTotalSize is 8 with keepRowNumber (see NOTES.md) *)
    inv_mut_count : ((forall i, mutBytes st i = 0) /\ mutCount st = 0) \/ (totalSize st + 7) / 8 <= mutCount st;
    inv_mut_zero : forall i, (totalSize st + 7) / 8 <= i -> mutBytes st i = 0;
    inv_mut_bytes : bytes_ok (mutBytes st);
    inv_mut_bits : forall o, 0 <= o -> is_mutable st o = mut_at (columns st) o }.

  (* what a caller can observe is the same in st and st' (the code set as a set; mMutableOffsets may have grown) *)
  Definition unchanged_obs (st st' : state) : Prop :=
    codeParam st' = codeParam st /\ addends st' = addends st /\ totalSize st' = totalSize st /\
    alignment st' = alignment st /\ columns st' = columns st /\
    (forall c, In c (codeSet st') <-> In c (codeSet st)) /\
    (forall o, is_mutable st' o = is_mutable st o).

  Lemma slot_range : 0 <= slot <= 8.
  Proof. unfold slot, rowNumberSize. destruct keep; lia. Qed.

  Lemma inv_init : Inv (init keep).
  Proof.
    pose proof slot_range. pose proof maxColumnCount_le.
    constructor; simpl; try lia; auto; try (unfold slot; lia); try (unfold pow2_le16; auto);
      try (intros r []); try tauto; try (left; split; reflexivity); try (intros i; lia).
  Qed.

  Definition group_ok (cs : list col) : Prop := Forall col_ok cs /\ Z.of_nat (length cs) < 2 ^ 32.

  Lemma size_arith n k t : 0 <= n -> 0 <= k -> n + k <= 2 ^ 14 -> 0 <= t <= 8 + n * (maxItemSize + 16) ->
    t + k * (maxItemSize + 16) <= 2 ^ 63 /\ 8 + (n + k) * (maxItemSize + 16) <= Bsz.
  Proof. unfold maxItemSize, Bsz. intros. nia. Qed.

  Lemma try_param_spec st cp cs : Inv st -> Forall col_ok cs -> 0 <= cp <= 255 ->
    Z.of_nat (length cs) + Z.of_nat (length (columns st)) <= maxColumnCount L ->
    exists b a off al rs, try_param L st cp cs = Some (b, a, off, al, rs) /\
      layout (totalSize st) (alignment st) cs = (off, al, rs) /\
      (b = true -> forall r, In r (columns st ++ rs) -> lookup L cp a (r_code r) = Some (r_off r)).
  Proof.
    intros I Hcs Hcp Hcount. destruct I.
    pose proof slot_range as Hs. pose proof maxColumnCount_le as Hm.
    pose proof (chain_le _ _ _ inv_chain0) as Hts.
    destruct (size_arith (Z.of_nat (length (columns st))) (Z.of_nat (length cs)) (totalSize st)) as (A1 & A2); try lia.
    unfold try_param. rewrite new_edges_layout.
    destruct (layout (totalSize st) (alignment st) cs) as [[off al] rs] eqn:El.
    assert (Hts0 : 0 <= totalSize st) by (clear - Hs Hts; lia).
    destruct (layout_spec _ _ _ _ _ _ Hcs Hts0 A1 inv_al0 El) as (Hch & Hb & _).
    rewrite <- old_edges_app.
    destruct (graph_lookup cp (columns st ++ rs) Hcp) as (b & a & E & Hok).
    { assert (T1 : totalSize st <= Bsz /\ off <= Bsz).
      { clear - Hb A2 inv_bound0 Hs Hcount Hm. unfold maxItemSize, Bsz in *. nia. }
      intros r Hr. apply in_app_or in Hr. destruct Hr as [Hr|Hr].
      - destruct (chain_in _ _ _ _ inv_chain0 Hr) as (Q1 & Q2 & _ & Q3). clear - Q1 Q2 Q3 T1 Hs Hts0. lia.
      - destruct (chain_in _ _ _ _ Hch Hr) as (Q1 & Q2 & _ & Q3). clear - Q1 Q2 Q3 T1 Hs Hts0. lia. }
    rewrite E. exists b, a, off, al, rs. auto.
  Qed.

  (* the retry loop: tries codeParam, codeParam+1, ... 255; never runs out of fuel *)
  Lemma search_spec st cs : Inv st -> Forall col_ok cs ->
    Z.of_nat (length cs) + Z.of_nat (length (columns st)) <= maxColumnCount L ->
    forall n cp, 0 <= cp <= 255 -> (255 - cp < Z.of_nat n) ->
    (exists cp' a off al rs, search L n st cp cs = Found cp' a off al rs /\ cp <= cp' <= 255 /\
        try_param L st cp' cs = Some (true, a, off, al, rs) /\
        (forall c, cp <= c < cp' -> exists a1 o1 l1 r1, try_param L st c cs = Some (false, a1, o1, l1, r1))) \/
    (search L n st cp cs = CannotAdd /\
        (forall c, cp <= c <= 255 -> exists a1 o1 l1 r1, try_param L st c cs = Some (false, a1, o1, l1, r1))).
  Proof.
    intros I Hcs Hcount. induction n as [|n IH]; intros cp Hcp Hn; [lia|].
    cbn [search].
    destruct (try_param_spec st cp cs I Hcs Hcp Hcount) as (b & a & off & al & rs & E & _).
    rewrite E. destruct b.
    - left. exists cp, a, off, al, rs. repeat split; auto; try lia.
    - rewrite wrapU_small by lia. rewrite maxCodeParam_eq.
      destruct (Z.gtb_spec (cp + 1) 255) as [Hgt|Hle].
      + right. split; [reflexivity|]. intros c Hc. assert (c = cp) by lia. subst c. eauto.
      + destruct (IH (cp + 1)) as [(cp' & a' & off' & al' & rs' & Es & Hr & Et & Hf)|(Es & Hf)]; try lia.
        * left. exists cp', a', off', al', rs'. repeat split; auto; try lia.
          intros c Hc. destruct (Z.eq_dec c cp) as [->|]; [eauto|apply Hf; lia].
        * right. split; [exact Es|]. intros c Hc. destruct (Z.eq_dec c cp) as [->|]; [eauto|apply Hf; lia].
  Qed.

  (* ---------- one Add, with an allocation failing at any place (or nowhere) ---------- *)
  Lemma mut_at_app a b o : mut_at (a ++ b) o = mut_at a o || mut_at b o.
  Proof. unfold mut_at. apply existsb_app. Qed.

  Lemma div8_mono x y : x <= y -> (x + 7) / 8 <= (y + 7) / 8.
  Proof. intros. apply Z.div_le_mono; lia. Qed.

  Theorem add_f_spec fs st cs : Inv st -> group_ok cs ->
    match add_f L fs st cs with
    | Added st' =>
        Inv st' /\
        (exists rs, columns st' = columns st ++ rs /\ map r_code rs = map c_code cs /\
                    map r_size rs = map c_size cs /\ map r_align rs = map c_align cs /\
                    map r_mut rs = map c_mut cs /\ chain (totalSize st) rs (totalSize st')) /\
        totalSize st <= totalSize st' /\ alignment st <= alignment st' /\ codeParam st <= codeParam st' /\
        fs = NoFail
    | TooMany => maxColumnCount L < Z.of_nat (length cs) + Z.of_nat (length (columns st))
    | Refused => forall cp, codeParam st <= cp <= 255 ->
                   exists a1 o1 l1 r1, try_param L st cp cs = Some (false, a1, o1, l1, r1)
    | AllocFailed st' => Inv st' /\ unchanged_obs st st' /\ fs <> NoFail
    | OutOfFuel => False
    | AssertFails => False
    end.
  Proof.
    intros I (Hcs & Hlen). pose proof maxColumnCount_le as Hm. pose proof slot_range as Hs.
    unfold add_f.
    assert (Hc0 : Z.of_nat (length (columns st)) <= 2 ^ 14) by (destruct I; lia).
    rewrite wrapU_small by lia.
    destruct (Z.gtb_spec (Z.of_nat (length cs) + Z.of_nat (length (columns st))) (maxColumnCount L)) as [Hgt|Hle]; [lia|].
    destruct (search_spec st cs I Hcs Hle 257%nat (codeParam st) (inv_cp _ I) ltac:(destruct I; lia))
      as [(cp' & a & off & al & rs & Es & Hr & Et & _)|(Es & Hf)]; rewrite Es; [|exact Hf].
    destruct (try_param_spec st cp' cs I Hcs ltac:(pose proof (inv_cp _ I); lia) Hle) as (b & a' & off' & al' & rs' & Et' & El & Hok).
    rewrite Et in Et'. injection Et' as <- <- <- <- <-.
    specialize (Hok eq_refl).
    assert (Iorig : Inv st) by exact I.
    destruct I.
    pose proof (chain_le _ _ _ inv_chain0) as Hts.
    destruct (size_arith (Z.of_nat (length (columns st))) (Z.of_nat (length cs)) (totalSize st)) as (A1 & A2); try lia.
    assert (Hts0 : 0 <= totalSize st) by (clear - Hs Hts; lia).
    destruct (layout_spec _ _ _ _ _ _ Hcs Hts0 A1 inv_al0 El) as (Hch & Hb & Hal & Hpal & Hrecs & Hral & Hm1 & Hm2 & Hm3).
    assert (Hm4 : map r_mut rs = map c_mut cs).
    { clear - El. revert El. generalize (totalSize st) (alignment st) off al rs. clear.
      induction cs as [|c cs IH]; intros t0 a0 o1 a1 rs E; simpl in E.
      - injection E as <- <- <-. reflexivity.
      - destruct (layout _ _ cs) as [[o2 a2] rs2] eqn:E2. injection E as <- <- <-. simpl. f_equal. eapply IH; eauto. }
    assert (Hlenrs : length rs = length cs).
    { rewrite <- (map_length r_code rs), Hm1, map_length. reflexivity. }
    pose proof (chain_le _ _ _ Hch) as Hoff.
    assert (Hoffb : off <= Bsz).
    { clear - Hb A2 inv_bound0 Hs Hle Hm. unfold maxItemSize, Bsz in *. nia. }
    assert (En : wrapU 64 (wrapU 64 (off + 7) / 8) = (off + 7) / 8).
    { unfold Bsz in Hoffb. rewrite (wrapU_small 64 (off + 7)) by lia.
      apply wrapU_small. split; [apply Z.div_pos; lia|]. apply Z.div_lt_upper_bound; lia. }
    pose proof (div8_mono _ _ Hoff) as Hn8.
    assert (Hmb : forall i, set_count (mutCount st) ((off + 7) / 8) (mutBytes st) i = mutBytes st i).
    { destruct inv_mut_count0 as [(Hz & _)|Hc].
      - intros i. unfold set_count. rewrite Hz. destruct (_ && _); reflexivity.
      - apply set_count_id with (bound := (totalSize st + 7) / 8); auto. }
    assert (Hfresh : forall c, In c (map c_code cs) -> ~ In c (codeSet st)).
    { intros c Hc Hin. rewrite <- Hm1 in Hc. apply in_map_iff in Hc. destruct Hc as (r2 & E2 & Hr2).
      apply inv_set0 in Hin. apply in_map_iff in Hin. destruct Hin as (r1 & E1 & Hr1).
      pose proof (Hok r1 (in_or_app _ _ _ (or_introl Hr1))) as L1.
      pose proof (Hok r2 (in_or_app _ _ _ (or_intror Hr2))) as L2.
      rewrite E1 in L1. rewrite E2, L1 in L2. injection L2 as E.
      destruct (chain_in _ _ _ _ inv_chain0 Hr1) as (_ & Q2 & _ & Q4).
      destruct (chain_in _ _ _ _ Hch Hr2) as (Q5 & _).
      clear - E Q2 Q4 Q5. lia. }
    destruct fs as [| | |j].
    - (* no failure: commit *)
      rewrite add_columns_id by (intros r Hr'; apply Hok; apply in_or_app; right; auto).
      rewrite En.
      assert (Hrs0 : forall r, In r rs -> 0 <= r_off r).
      { intros r Hr'. destruct (chain_in _ _ _ _ Hch Hr') as (Q & _). clear - Q Hts0. lia. }
      assert (Hbok : bytes_ok (set_count (mutCount st) ((off + 7) / 8) (mutBytes st))).
      { intros i. rewrite Hmb. apply inv_mut_bytes0. }
      split; [|split; [|split; [|split; [|split]]]].
      + constructor; cbn [codeParam addends totalSize alignment codeSet columns mutCount mutBytes].
        * lia.
        * eapply chain_app; eauto.
        * rewrite app_length, Nat2Z.inj_add, Hlenrs. lia.
        * rewrite app_length, Nat2Z.inj_add, Hlenrs. lia.
        * exact Hpal.
        * apply Forall_app; auto.
        * apply Forall_app. split.
          -- rewrite Forall_forall in *. intros r Hr'. apply pow2_le16_divide; auto.
             ++ destruct (inv_recs0 r Hr') as (_ & _ & Hp & _). exact Hp.
             ++ pose proof (inv_aldiv0 r Hr') as Hd. apply Z.divide_pos_le in Hd; [lia|].
                apply pow2_le16_range in inv_al0. lia.
          -- rewrite Forall_forall in *. intros r Hr'. apply pow2_le16_divide; auto.
             destruct (Hrecs r Hr') as (_ & _ & Hp & _). exact Hp.
        * intros r Hr'. unfold get_offset; cbn [codeParam addends]. apply Hok; auto.
        * intros c. rewrite set_insert_in, map_app, in_app_iff, inv_set0, Hm1. tauto.
        * right. lia.
        * intros i Hi. rewrite set_mutables_other.
          -- rewrite Hmb. apply inv_mut_zero0. lia.
          -- intros r Hr' E. destruct (chain_in _ _ _ _ Hch Hr') as (Q1 & Q2 & _ & Q4).
             assert (r_off r / 8 < (off + 7) / 8).
             { apply Z.div_lt_upper_bound; [lia|]. pose proof (Z.div_mod (off + 7) 8 ltac:(lia)).
               pose proof (Z.mod_pos_bound (off + 7) 8 ltac:(lia)). lia. }
             lia.
        * apply set_mutables_ok; auto.
        * intros o Ho. unfold is_mutable; cbn [mutBytes]. rewrite set_mutables_get by auto.
          rewrite mut_at_app. f_equal.
          transitivity (GetBit (mutBytes st) o); [|apply (inv_mut_bits0 o Ho)].
          unfold GetBit. rewrite Hmb. reflexivity.
      + exists rs. cbn [columns totalSize]. auto 10.
      + cbn [totalSize]. lia.
      + cbn [alignment]. lia.
      + cbn [codeParam]. lia.
      + reflexivity.
    - split; [exact Iorig|]. split; [|discriminate]. unfold unchanged_obs. repeat split; auto; tauto.
    - split; [exact Iorig|]. split; [|discriminate]. unfold unchanged_obs. repeat split; auto; tauto.
    - (* Insert threw after j keys; the catch block removed every new key *)
      rewrite En.
      assert (Hset : forall c, In c (set_remove (set_insert (codeSet st) (firstn j (map c_code cs))) (map c_code cs)) <-> In c (codeSet st)).
      { intros c. rewrite set_remove_in, set_insert_in. split.
        - intros ([H|H] & Hn); [auto|]. exfalso. apply Hn. eapply firstn_in; eauto.
        - intros H. split; [auto|]. intros Hc. exact (Hfresh c Hc H). }
      split; [|split; [|discriminate]].
      + constructor; cbn [codeParam addends totalSize alignment codeSet columns mutCount mutBytes]; auto;
          try (intros c; rewrite Hset; apply inv_set0);
          try (right; exact Hn8);
          try (intros i Hi; rewrite Hmb; auto);
          try (intros i; rewrite Hmb; apply inv_mut_bytes0);
          try (intros o Ho; rewrite <- (inv_mut_bits0 o Ho); unfold is_mutable, GetBit; cbn [mutBytes]; rewrite Hmb; reflexivity).
      + unfold unchanged_obs; cbn [codeParam addends totalSize alignment codeSet columns mutCount mutBytes].
        repeat split; auto; try apply Hset.
        intros o. unfold is_mutable, GetBit; cbn [mutBytes]. rewrite Hmb. reflexivity.
  Qed.

  Corollary add_spec st cs : Inv st -> group_ok cs ->
    match add L st cs with
    | Added st' =>
        Inv st' /\
        (exists rs, columns st' = columns st ++ rs /\ map r_code rs = map c_code cs /\
                    map r_size rs = map c_size cs /\ map r_align rs = map c_align cs /\
                    chain (totalSize st) rs (totalSize st')) /\
        totalSize st <= totalSize st' /\ alignment st <= alignment st' /\ codeParam st <= codeParam st'
    | TooMany => maxColumnCount L < Z.of_nat (length cs) + Z.of_nat (length (columns st))
    | Refused => forall cp, codeParam st <= cp <= 255 ->
                   exists a1 o1 l1 r1, try_param L st cp cs = Some (false, a1, o1, l1, r1)
    | AllocFailed _ => False
    | OutOfFuel => False
    | AssertFails => False
    end.
  Proof.
    intros I Hcs. pose proof (add_f_spec NoFail st cs I Hcs) as H. unfold add.
    destruct (add_f L NoFail st cs); auto.
    - destruct H as (H1 & (rs & E1 & E2 & E3 & E4 & _ & E6) & H3 & H4 & H5 & _).
      split; [exact H1|]. split; [exists rs; auto|]. auto.
    - destruct H as (_ & _ & H). congruence.
  Qed.

  (* a refused addition leaves the list as it was; an accepted one is the only way the state changes *)
  Lemma refused_unchanged st cs : (forall st', add L st cs <> Added st') -> (forall st', add L st cs <> AllocFailed st') ->
    after st (add L st cs) = st.
  Proof. intros H H'. destruct (add L st cs); try reflexivity; exfalso; [eapply H|eapply H']; eauto. Qed.

  (* whatever is not `Added` -- Too many, Cannot add, or an allocation failure anywhere -- leaves every observable as it was *)
  Theorem not_added_unchanged fs st cs : Inv st -> group_ok cs -> (forall st', add_f L fs st cs <> Added st') ->
    unchanged_obs st (after st (add_f L fs st cs)).
  Proof.
    intros I Hcs H. pose proof (add_f_spec fs st cs I Hcs) as Hs.
    destruct (add_f L fs st cs) as [st'| | |st'| |]; cbn [after];
      try (unfold unchanged_obs; repeat split; auto; tauto).
    - exfalso. eapply H; eauto.
    - tauto.
  Qed.

  Lemma after_f_inv fs st cs : Inv st -> group_ok cs -> Inv (after st (add_f L fs st cs)).
  Proof.
    intros I Hcs. pose proof (add_f_spec fs st cs I Hcs) as H.
    destruct (add_f L fs st cs); simpl; auto; tauto.
  Qed.

  Lemma after_inv st cs : Inv st -> group_ok cs -> Inv (after st (add L st cs)).
  Proof. apply after_f_inv. Qed.

  (* every reachable state satisfies the invariant, whatever allocations failed on the way *)
  Theorem run_f_inv ops : Forall (fun op => group_ok (snd op)) ops -> Inv (run_f L keep ops).
  Proof.
    unfold run_f. generalize (init keep) inv_init.
    induction ops as [|op ops IH]; intros st I Hops; simpl; [exact I|].
    inversion Hops; subst. apply IH; auto. apply after_f_inv; auto.
  Qed.

  Theorem run_inv ops : Forall group_ok ops -> Inv (run L keep ops).
  Proof.
    unfold run. generalize (init keep) inv_init.
    induction ops as [|cs ops IH]; intros st I Hops; simpl; [exact I|].
    inversion Hops; subst. apply IH; auto. apply after_inv; auto.
  Qed.

  (* columns of a reachable state are a prefix-extension of the earlier state's columns *)
  Lemma after_prefix st cs : Inv st -> group_ok cs ->
    exists rs, columns (after st (add L st cs)) = columns st ++ rs.
  Proof.
    intros I Hcs. pose proof (add_spec st cs I Hcs) as H.
    destruct (add L st cs); simpl; try (exists []; rewrite app_nil_r; reflexivity); try contradiction.
    destruct H as (_ & (rs & E & _) & _). eauto.
  Qed.

  (* ---------- consequences of the invariant ---------- *)
  (* two records of the list never have the same code: each column has its own slot *)
  Lemma inv_codes_distinct st i j ri rj : Inv st -> (i < j)%nat ->
    nth_error (columns st) i = Some ri -> nth_error (columns st) j = Some rj -> r_code ri <> r_code rj.
  Proof.
    intros I Hij Hi Hj E. destruct I.
    pose proof (chain_disjoint _ _ _ _ _ _ _ inv_chain0 Hij Hi Hj) as Hd.
    pose proof (inv_lookup0 ri (nth_error_In _ _ Hi)) as L1.
    pose proof (inv_lookup0 rj (nth_error_In _ _ Hj)) as L2.
    rewrite E in L1. rewrite L1 in L2. injection L2 as E2.
    destruct (chain_in _ _ _ _ inv_chain0 (nth_error_In _ _ Hi)) as (_ & _ & _ & Hsz).
    rewrite E2 in Hd. clear - Hd Hsz. lia.
  Qed.

  (* Contains answers true exactly for the added columns, and its resOffset is the column's offset *)
  Theorem contains_iff st code off : Inv st ->
    (contains L st code = Some off <-> exists r, In r (columns st) /\ r_code r = code /\ r_off r = off).
  Proof.
    intros I. destruct I. unfold contains. split.
    - destruct (GetVertices L code (codeParam st)) as [v1 v2] eqn:Ev.
      destruct (Z.eqb (addends st v1) 0 || Z.eqb (addends st v2) 0) eqn:Ez; [discriminate|].
      destruct (mem code (codeSet st)) eqn:Em; simpl; [|discriminate].
      intros Eo. apply mem_in in Em. apply inv_set0 in Em. apply in_map_iff in Em.
      destruct Em as (r & Ec & Hr). exists r. repeat split; auto.
      pose proof (inv_lookup0 r Hr) as Lk. unfold get_offset, lookup in Lk. rewrite Ec, Ev in Lk.
      destruct (negb (Z.eqb (addends st v1) 0) && negb (Z.eqb (addends st v2) 0)); [|discriminate].
      congruence.
    - intros (r & Hr & Ec & Eo).
      pose proof (inv_lookup0 r Hr) as Lk. unfold get_offset, lookup in Lk. rewrite Ec in Lk.
      destruct (GetVertices L code (codeParam st)) as [v1 v2].
      destruct (Z.eqb (addends st v1) 0); simpl in *; [discriminate|].
      destruct (Z.eqb (addends st v2) 0); simpl in *; [discriminate|].
      assert (Em : mem code (codeSet st) = true).
      { apply mem_in. apply inv_set0. apply in_map_iff. exists r. auto. }
      rewrite Em. simpl. congruence.
  Qed.

  Corollary contains_none_iff st code : Inv st ->
    (contains L st code = None <-> ~ In code (map r_code (columns st))).
  Proof.
    intros I. split.
    - intros En Hin. apply in_map_iff in Hin. destruct Hin as (r & Ec & Hr).
      assert (contains L st code = Some (r_off r)) by (apply contains_iff; eauto).
      congruence.
    - intros Hn. destruct (contains L st code) as [off|] eqn:E; [|reflexivity].
      apply contains_iff in E; auto. destruct E as (r & Hr & Ec & _).
      exfalso. apply Hn. apply in_map_iff. eauto.
  Qed.

  (* ---------- Graph::mEdgeStorage never overflows ---------- *)
  (* number of Edge records reachable from the heads mEdges[v]: every pvAddEdge call takes the next slot of
     mEdgeStorage (index mEdgeNumber) and links it into one list, so this is mEdgeNumber *)
  Definition gsize (g : graph) (vs : list Z) : Z := fold_right (fun v n => Z.of_nat (length (g v)) + n) 0 vs.
  Definition maxEdgeCount : Z := 2 * maxColumnCount L.

  Lemma gsize_add_edge_out g v1 v2 val vs : ~ In v1 vs -> gsize (add_edge g v1 v2 val) vs = gsize g vs.
  Proof.
    induction vs as [|v vs IH]; intros Hn; cbn [gsize fold_right]; [reflexivity|]. fold (gsize (add_edge g v1 v2 val) vs). fold (gsize g vs).
    rewrite IH by (intros H; apply Hn; right; auto). unfold add_edge at 1.
    destruct (Z.eqb_spec v v1) as [->|]; [exfalso; apply Hn; left; auto|reflexivity].
  Qed.

  Lemma gsize_add_edge g v1 v2 val vs : NoDup vs -> In v1 vs -> gsize (add_edge g v1 v2 val) vs = gsize g vs + 1.
  Proof.
    induction vs as [|v vs IH]; intros Hnd Hin; [contradiction|]. inversion Hnd as [|? ? Hnot Hnd']; subst.
    cbn [gsize fold_right]. fold (gsize (add_edge g v1 v2 val) vs). fold (gsize g vs).
    destruct (Z.eq_dec v v1) as [->|Hne].
    - rewrite gsize_add_edge_out by auto. unfold add_edge at 1. rewrite Z.eqb_refl. cbn [length]. lia.
    - destruct Hin as [E|Hin]; [contradiction|]. rewrite IH by auto. unfold add_edge at 1.
      destruct (Z.eqb_spec v v1); [contradiction|]. lia.
  Qed.

  Lemma NoDup_zrange n : forall s, NoDup (zrange n s).
  Proof.
    induction n as [|n IH]; intros s; cbn [zrange]; constructor; auto.
    rewrite in_zrange. lia.
  Qed.

  Lemma gsize_old_edges cp rs : 0 <= cp <= 255 -> forall g,
    gsize (old_edges L cp g rs) (vertices L) = gsize g (vertices L) + 2 * Z.of_nat (length rs).
  Proof.
    intros Hcp. induction rs as [|r rs IH]; intros g; cbn [old_edges length]; [lia|].
    destruct (vertices_in_range (r_code r) cp Hcp) as (I1 & I2).
    destruct (GetVertices L (r_code r) cp) as [v1 v2]. cbn [fst snd] in *.
    rewrite IH. unfold add_edges. pose proof (NoDup_zrange (Z.to_nat (vertexCount L)) 0) as Hnd. fold (vertices L) in Hnd.
    rewrite !gsize_add_edge by auto. lia.
  Qed.

  (* under the "Too many columns" guard of pvAdd, for every code parameter tried, the graph handed to FillAddends
     holds exactly 2 * (old + new column count) edges: at most maxEdgeCount = 2 * maxColumnCount = the size of
     mEdgeStorage (and = vertexCount <= 2 * vertexCount, the bound of the MOMO_ASSERT in pvAddEdge) *)
  Theorem edge_storage_bound st cs cp : 0 <= cp <= 255 ->
    Z.of_nat (length cs) + Z.of_nat (length (columns st)) <= maxColumnCount L ->
    let '(g1, _, _, _) := new_edges L cp (old_edges L cp g_empty (columns st)) (totalSize st) (alignment st) cs in
    gsize g1 (vertices L) = 2 * (Z.of_nat (length (columns st)) + Z.of_nat (length cs)) /\
    gsize g1 (vertices L) <= maxEdgeCount /\ maxEdgeCount = vertexCount L.
  Proof.
    intros Hcp Hguard. rewrite new_edges_layout.
    destruct (layout (totalSize st) (alignment st) cs) as [[off al] rs] eqn:El.
    assert (Hlen : length rs = length cs).
    { clear - El. revert El. generalize (totalSize st) (alignment st) off al rs. clear.
      induction cs as [|c cs IH]; intros t0 a0 o1 a1 rs E; simpl in E.
      - injection E as <- <- <-. reflexivity.
      - destruct (layout _ _ cs) as [[o2 a2] rs2] eqn:E2. injection E as <- <- <-. simpl. f_equal. eapply IH; eauto. }
    rewrite !gsize_old_edges by auto. rewrite Hlen.
    assert (G0 : gsize g_empty (vertices L) = 0).
    { unfold gsize. induction (vertices L); simpl; auto. }
    rewrite G0. unfold maxEdgeCount. split; [lia|]. split; [lia|].
    rewrite maxColumnCount_eq, vertexCount_eq.
    replace L with (L - 1 + 1) at 2 by lia. rewrite Z.pow_add_r by lia. lia.
  Qed.

  (* IsMutable(offset of a column) = the column was added as mutable; no other offset is marked *)
  Lemma mut_at_column st r : Inv st -> In r (columns st) -> mut_at (columns st) (r_off r) = r_mut r.
  Proof.
    intros I Hr. pose proof (inv_chain _ I) as Hc. revert Hc Hr. generalize slot (totalSize st).
    unfold mut_at. induction (columns st) as [|x l IH]; intros lo hi Hc Hr; [contradiction|].
    cbn [existsb]. simpl in Hc. destruct Hc as (H1 & H2 & H3 & H4). destruct Hr as [->|Hr].
    - rewrite Z.eqb_refl. simpl. destruct (r_mut r); [reflexivity|]. simpl.
      apply not_true_is_false. intros E. apply existsb_exists in E. destruct E as (y & Hy & Ey).
      apply andb_true_iff in Ey. destruct Ey as (Ey & _). apply Z.eqb_eq in Ey.
      destruct (chain_in _ _ _ _ H4 Hy) as (Q & _). clear - Q Ey H3. lia.
    - destruct (chain_in _ _ _ _ H4 Hr) as (Q & _).
      destruct (Z.eqb_spec (r_off x) (r_off r)) as [E|E]; [clear - Q E H3; lia|]. simpl. eapply IH; eauto.
  Qed.

  Theorem is_mutable_column st r : Inv st -> In r (columns st) -> is_mutable st (r_off r) = r_mut r.
  Proof.
    intros I Hr. rewrite (inv_mut_bits _ I).
    - apply mut_at_column; auto.
    - destruct (chain_in _ _ _ _ (inv_chain _ I) Hr) as (Q & _). pose proof slot_range. lia.
  Qed.

  Theorem is_mutable_only_columns st o : Inv st -> 0 <= o -> is_mutable st o = true ->
    exists r, In r (columns st) /\ r_off r = o /\ r_mut r = true.
  Proof.
    intros I Ho H. rewrite (inv_mut_bits _ I) in H by auto. apply existsb_exists in H.
    destruct H as (r & Hr & E). apply andb_true_iff in E. destruct E as (E1 & E2). apply Z.eqb_eq in E1. eauto.
  Qed.

  (* ---------- generated code inside the model ---------- *)
  (* the cxx2coq translation of the real DataColumnList::pvGetOffset (Gen_List.v, regenerated on every run) is the
     hand model's `lookup`: Ok o <-> Some o, Stuck (the MOMO_ASSERT) <-> None *)
  Lemma lookup_refines cp a code : lookup_gen L cp a code = lookup L cp a code.
  Proof.
    unfold lookup_gen, Gen_List.pvGetOffset, lookup.
    destruct (GetVertices L code cp) as [v1 v2]. cbn [fst snd].
    destruct (Z.eqb (a v1) 0), (Z.eqb (a v2) 0); reflexivity.
  Qed.

  (* the cxx2coq translation of the real DataColumnList::Contains is the hand model's `contains`: same answer, and with
     a non-null resOffset it writes exactly the offset; with resOffset == nullptr it writes nothing *)
  Lemma contains_refines st p code :
    contains_gen L st p code =
    match contains L st code with
    | Some o => (true, if Z.eqb p 0 then 0 else o)
    | None => (false, 0)
    end.
  Proof.
    unfold contains_gen, Gen_List.Contains, contains.
    destruct (GetVertices L code (codeParam st)) as [v1 v2]. cbn [fst snd].
    destruct (Z.eqb (addends st v1) 0), (Z.eqb (addends st v2) 0); cbn [orb]; try reflexivity.
    destruct (mem code (codeSet st)); cbn [negb]; [|reflexivity].
    destruct (Z.eqb p 0); reflexivity.
  Qed.

  (* every index the generated pvGetOffset (and Contains, pvFillAddends, AddEdges) uses into mAddends / mEdges is
     inside the arrays, for EVERY code parameter the search loop can reach (<= the source's maxCodeParam) and every code *)
  Theorem vertex_indices_in_bounds code cp : 0 <= cp <= maxCodeParam ->
    0 <= fst (GetVertices L code cp) < vertexCount L /\ 0 <= snd (GetVertices L code cp) < vertexCount L /\
    fst (GetVertices L code cp) <> snd (GetVertices L code cp).
  Proof.
    intros Hcp. rewrite vertexCount_eq. unfold GetVertices. apply GetVertices_range; auto.
  Qed.

  (* ---------- observation: the graphs of the code parameters (p, q) and (0, p xor q) are isomorphic ---------- *)
  Lemma lxor_invol x p : Z.lxor (Z.lxor x p) p = x.
  Proof. rewrite Z.lxor_assoc, Z.lxor_nilpotent, Z.lxor_0_r. reflexivity. Qed.

  Theorem param_graph_isomorphic rs p q v v2 val : 0 <= p < 16 -> 0 <= q < 16 ->
    (In (v2, val) (old_edges L (16 * p + q) g_empty rs v) <->
     In (Z.lxor v2 p, val) (old_edges L (Z.lxor p q) g_empty rs (Z.lxor v p))).
  Proof.
    intros Hp Hq. rewrite !in_old_edges. unfold g_empty. cbn [In].
    assert (Hinv : forall a b, a = Z.lxor b p <-> Z.lxor a p = b).
    { intros a b. split; intros H; [rewrite H; apply lxor_invol|rewrite <- H; symmetry; apply lxor_invol]. }
    split; intros [[]|(r & Hr & He)]; right; exists r; (split; [exact Hr|]);
      unfold edge_of in *; unfold GetVertices in *; rewrite (GetVertices_param_xor L (r_code r) p q HL Hp Hq) in *; cbn [fst snd] in *.
    - destruct He as [(E1 & E2)|(E1 & E2)]; injection E2 as E2 E3; subst val.
      + left. split; [apply Hinv; exact E1|]. rewrite E2, lxor_invol. reflexivity.
      + right. split; [apply Hinv; exact E1|]. rewrite E2, lxor_invol. reflexivity.
    - destruct He as [(E1 & E2)|(E1 & E2)]; injection E2 as E2 E3; subst val.
      + left. split; [apply Hinv; exact E1|]. f_equal. apply Hinv. exact E2.
      + right. split; [apply Hinv; exact E1|]. f_equal. apply Hinv. exact E2.
  Qed.
End WithL.
