(* C08 - fixed meaning of the trivial primitive used by gen_wrap_*.json: iterator <-> const_iterator conversions, proxy
   wrapping / unwrapping and operator-> are the identity on abstract iterator values *)
From Coq Require Import ZArith.
Definition it_id (x : Z) : Z := x.
