// instantiation TU for props/C04/astfacts04.py: the constructors whose catch blocks are read off the clang AST (after props/C03/inst_facts.cpp).
// FACTS_PART selects one header family per clang run (the runs go in parallel).
#if FACTS_PART == 1
#include "momo/HashSet.h"
namespace momo { typedef HashSet<int> FSet; void c04_use_hs() { FSet a; a.Insert(1); FSet b(a); FSet c({ 1, 2 }); } }
#elif FACTS_PART == 2
#include "momo/TreeSet.h"
namespace momo { typedef TreeSet<int> FTree; void c04_use_ts() { FTree a; a.Insert(1); FTree b(a); FTree c({ 1, 2 }); } }
#elif FACTS_PART == 3
#include "momo/HashMultiMap.h"
namespace momo { typedef HashMultiMap<int, int> FMulti; void c04_use_hmm() { FMulti a; a.Add(1, 2); FMulti b(a); } }
#elif FACTS_PART == 4
#include "momo/DataTable.h"
namespace momo { struct FRow { int id; }; MOMO_DATA_COLUMN_STRUCT(FRow, id);
typedef DataColumnList<DataColumnTraits<FRow>> FCols; typedef DataTable<FCols> FTable;
void c04_use_dt() { FCols cl; cl.Add(id); FTable t(std::move(cl)); t.Add(t.NewRow()); FTable c(t); } }
#endif
#if FACTS_PART == 5
// ObjectManager<T>::pvRelocateExec(.., std::false_type): T copy-only (no move constructor) = not nothrow relocatable
#include "momo/Array.h"
namespace momo { struct FCpo { FCpo(); FCpo(const FCpo&); ~FCpo(); int v; };
void c04_use_om() { Array<FCpo> a; a.Reserve(8); a.AddBack(FCpo()); a.Reserve(100); } }
#endif
