(* C02 (review-fix round) -- one more piece of the general iterator theorem: the loop of the REAL TreeSetConstIterator::pvMove
   (statement tree Gen_TreeProto.iter_pvMove, interpreted by ProtoSemC02) computes the bottom-up climb `up` of ProtoIterC02 - hence
   (C02_bottom_up_climb_is_model_climb) the hand model's `climb` - from every node of every well-formed tree. *)
From Coq Require Import String List ZArith Bool Lia Arith.
From MomoCommon Require Import GenPrelude.
From C02 Require Import ProtoSyntaxC02 Gen_TreeProto ProtoSemC02 ProtoProofsC02 ProtoIterC02 BTreeModel BTreeBase.
Import ListNotations.
Local Open Scope string_scope.

Section Move.
Variables (maxCap : nat) (linear : bool) (P : Z -> bool) (r : node) (calls : string -> env -> option env).
Notation exec := (exec linear P r calls).
Notation eval := (eval linear P r).

Lemma eval_var_raw e x : ProtoSemC02.eval linear P r e (EVar x) = e x.
Proof. reflexivity. Qed.

Lemma eval_bin e op a b : ProtoSemC02.eval linear P r e (EBin op a b) =
  match ProtoSemC02.eval linear P r e a, ProtoSemC02.eval linear P r e b with Some va, Some vb => binop op va vb | _, _ => None end.
Proof. reflexivity. Qed.

Lemma list_eqb_snoc q a b : list_eqb (q ++ [a]) (q ++ [b]) = (a =? b)%nat.
Proof. induction q as [|x q IH]; cbn [app list_eqb]; [apply andb_true_r|]. rewrite Nat.eqb_refl. exact IH. Qed.

Lemma eval_parent_snoc e x q c : e x = Some (VPtr (Some (q ++ [c])%list)) -> eval e (ECall (EVar x) "GetParent" []) = Some (VPtr (Some q)).
Proof.
  intros H. cbn [ProtoSemC02.eval call_sem map String.eqb Ascii.eqb Bool.eqb andb]. rewrite H.
  rewrite removelast_last. destruct q; reflexivity.
Qed.
Lemma eval_lastchild e x q m mc : e x = Some (VPtr (Some q)) -> node_at q r = Some m -> node_at (q ++ [n_count m]) r = Some mc ->
  eval e (ECall (EVar x) "GetChild" [ECall (EVar x) "GetCount" []]) = Some (VPtr (Some (q ++ [n_count m])%list)).
Proof.
  intros H1 H2 H3. cbn [ProtoSemC02.eval call_sem map String.eqb Ascii.eqb Bool.eqb andb]. rewrite H1. unfold nd. rewrite H2.
  rewrite Nat2Z.id, H3. replace (0 <=? Z.of_nat (n_count m))%Z with true by (symmetry; apply Z.leb_le; lia). reflexivity.
Qed.
Lemma eval_childindex e x y q c : e x = Some (VPtr (Some q)) -> e y = Some (VPtr (Some (q ++ [c])%list)) ->
  eval e (ECall (EVar x) "GetChildIndex" [EVar y]) = Some (VNum (Z.of_nat c)).
Proof.
  intros H1 H2. cbn [ProtoSemC02.eval call_sem map String.eqb Ascii.eqb Bool.eqb andb]. rewrite H1, H2.
  rewrite removelast_last, last_last. replace (list_eqb q q) with true.
  - destruct q; reflexivity.
  - symmetry. clear. induction q as [|a q IH]; cbn [list_eqb]; [reflexivity|]. rewrite Nat.eqb_refl. exact IH.
Qed.

Lemma node_at_snoc q c : forall n m, node_at (q ++ [c]) n = Some m -> exists m', node_at q n = Some m' /\ nth_error (n_children m') c = Some m.
Proof.
  induction q as [|x q IHq]; intros n m H; cbn [app node_at] in *.
  - destruct (nth_error (n_children n) c) as [ch|] eqn:E; [|discriminate]. exists n. split; [reflexivity|]. rewrite E. exact H.
  - destruct (nth_error (n_children n) x) as [ch|]; [apply IHq; exact H | discriminate].
Qed.

Definition move_loop : list pstmt := skipn 1 iter_pvMove.

(* every node on the path has all its children (well-formedness along the path) *)
Lemma move_loop_is_up : forall rq (e : env) k m d,
  shape maxCap d r -> node_at (rev rq) r = Some m ->
  e "mNode" = Some (VPtr (Some (rev rq))) ->
  exists e', exec (12 + (k + length rq)) e move_loop = RNormal e' /\
    e' "mNode" = Some (VPtr (Some (fst (up r (rev rq))))) /\ e' "mItemIndex" = Some (VNum (Z.of_nat (snd (up r (rev rq))))).
Proof.
  induction rq as [|c rq IH]; intros e k m d Sh Hm En; unfold move_loop, iter_pvMove; cbn [skipn rev app length].
  - (* at the root: parent == nullptr *)
    cbn [rev] in *. cbn [Nat.add].
    rewrite (exec_while_true linear P r calls _ e (ENum 1) _ _ (VNum 1) eq_refl eq_refl).
    rewrite exec_decl. cbn [ProtoSemC02.eval call_sem map String.eqb Ascii.eqb Bool.eqb andb]. rewrite En.
    set (e1 := set e "parentNode" (VPtr None)).
    rewrite exec_if. cbn [ProtoSemC02.eval binop veq String.eqb Ascii.eqb Bool.eqb andb option_map]. 
    change (e1 "parentNode") with (Some (VPtr None)). cbn [binop veq option_map String.eqb Ascii.eqb Bool.eqb andb vbool truthy Z.eqb negb].
    assert (E1n : e1 "mNode" = Some (VPtr (Some []))) by exact En.
    rewrite exec_assign, (eval_count linear P r e1 "mNode" [] r E1n eq_refl).
    rewrite exec_break, exec_nil.
    eexists. split; [reflexivity|]. split; [exact En | reflexivity].
  - (* below the root: q = q' ++ [c] *)
    cbn [rev] in En, Hm. set (q' := rev rq) in *.
    pose proof (node_at_snoc q' c r m Hm) as Hpre.
    destruct Hpre as (m' & Hm' & Ec).
    destruct (shape_at maxCap q' d r m' Sh Hm') as [Sm' _].
    assert (Lf' : is_leaf m' = false) by (unfold is_leaf; destruct (n_children m'); [destruct c; discriminate | reflexivity]).
    destruct (shape_internal maxCap _ m' Sm' Lf') as [x Ex]. rewrite Ex in Sm'. destruct Sm' as (_ & _ & Lc & _ & _).
    assert (Hc : (c <= n_count m')%nat) by (assert (c < length (n_children m'))%nat by (apply nth_error_Some; congruence); lia).
    destruct (nth_error (n_children m') (n_count m')) as [mc|] eqn:Emc; [|apply nth_error_None in Emc; lia].
    assert (Hlast : node_at (q' ++ [n_count m']) r = Some mc) by (rewrite (node_at_app q' _ r m' Hm'); cbn [node_at]; rewrite Emc; reflexivity).
    replace (12 + (k + S (length rq))) with (S (12 + (k + length rq))) by lia.
    rewrite (exec_while_true linear P r calls _ e (ENum 1) _ _ (VNum 1) eq_refl eq_refl). cbn [Nat.add].
    rewrite exec_decl, (eval_parent_snoc e "mNode" q' c En).
    set (e1 := set e "parentNode" (VPtr (Some q'))).
    rewrite exec_if. cbn [ProtoSemC02.eval binop veq String.eqb Ascii.eqb Bool.eqb andb option_map].
    change (e1 "parentNode") with (Some (VPtr (Some q'))). cbn [binop veq option_map String.eqb Ascii.eqb Bool.eqb andb vbool truthy Z.eqb negb].
    rewrite exec_nil, exec_decl, eval_var. change (e1 "mNode") with (e "mNode"). rewrite En.
    set (e2 := set e1 "childNode" (VPtr (Some (q' ++ [c])%list))).
    rewrite exec_assign, eval_var. change (e2 "parentNode") with (Some (VPtr (Some q'))).
    match goal with |- context C [match Some ?v with Some x => @?f x | None => _ end] => let t := context C [f v] in change t end; cbv beta.
    set (e3 := set e2 "mNode" (VPtr (Some q'))).
    assert (E3n : e3 "mNode" = Some (VPtr (Some q'))) by reflexivity.
    assert (E3c : e3 "childNode" = Some (VPtr (Some (q' ++ [c])%list))) by reflexivity.
    rewrite exec_if, eval_bin, eval_var_raw, E3c.
    rewrite (eval_lastchild e3 "mNode" q' m' mc E3n Hm' Hlast).
    cbn [binop veq option_map String.eqb Ascii.eqb Bool.eqb andb]. rewrite list_eqb_snoc.
    rewrite up_snoc. unfold cnt_at. rewrite Hm'.
    destruct (Nat.eqb_spec c (n_count m')) as [Eq|Ne]; cbn [negb vbool truthy Z.eqb].
    + (* the last child: keep climbing *)
      rewrite exec_nil. replace (c <? n_count m')%nat with false by (symmetry; apply Nat.ltb_ge; lia).
      destruct (IH e3 k m' d Sh Hm' E3n) as (e' & He & A & B). unfold move_loop, iter_pvMove in He. cbn [skipn Nat.add] in He.
      exists e'. split; [exact He|]. split; assumption.
    + replace (c <? n_count m')%nat with true by (symmetry; apply Nat.ltb_lt; lia).
      rewrite exec_assign, (eval_childindex e3 "mNode" "childNode" q' c E3n E3c), exec_break, exec_nil.
      eexists. split; [reflexivity|]. split; reflexivity.
Qed.

End Move.
