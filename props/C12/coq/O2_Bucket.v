(* C12, BucketOpen2N2<.,3,true>: whole-bucket metadata invariant over any history of the GENERATED AddCrt / Remove, and
   BucketOne's whole-bucket state machine. *)
From Coq Require Import ZArith Bool List Lia.
From MomoCommon Require Import GenPrelude.
From C12 Require Import Bits Known Gen_Base Gen_O2 Gen_One O2_Slot Chain.
Local Open Scope Z_scope.

Section ReachO2.
Variable L : Z.

Definition o2cnt (st : Z -> Z) : Z := Z.land (st 1) 3.

(* hs i / ps i = hash code and displacement with which the element now in slot i was inserted *)
Definition o2_inv (st sh hp hs ps : Z -> Z) : Prop :=
  0 <= st 1 < 256 /\
  (forall i, 0 <= i < 3 - o2cnt st -> sh i = 128) /\
  (forall i, 3 - o2cnt st <= i <= 2 -> sh i = Gen_O2.pvCalcShortHash (hs i) /\ hp i = o2_byte (hs i) L (ps i) /\
                                       0 <= hs i < 2 ^ 64 /\ 0 <= ps i).

Inductive o2_reach : (Z -> Z) -> (Z -> Z) -> (Z -> Z) -> (Z -> Z) -> (Z -> Z) -> Prop :=
| o2r_empty hp : o2_reach (fun _ => 0) (fun _ => 128) hp (fun _ => 0) (fun _ => 0)       (* pvSetEmpty: hashProbes are not initialised *)
| o2r_maxprobe st sh hp hs ps st' : o2_reach st sh hp hs ps -> 0 <= st' 1 < 256 -> o2cnt st' = o2cnt st ->
    o2_reach st' sh hp hs ps                                                             (* UpdateMaxProbe: count bits untouched *)
| o2r_add st sh hp hs ps h probe it st' sh' hp' : o2_reach st sh hp hs ps -> 0 <= h < 2 ^ 64 -> 0 <= probe < 2 ^ 64 ->
    Gen_O2.AddCrt st sh hp h L probe it = Ok (tt, st', sh', hp') ->
    o2_reach st' sh' hp' (upd hs (2 - o2cnt st) h) (upd ps (2 - o2cnt st) probe)
| o2r_remove st sh hp hs ps idx st' sh' hp' : o2_reach st sh hp hs ps ->
    Gen_O2.Remove st sh hp idx = Ok (tt, st', sh', hp') -> idx <= 2 ->
    o2_reach st' sh' hp' (upd hs idx (hs (3 - o2cnt st))) (upd ps idx (ps (3 - o2cnt st))).

Lemma land3_mod a : 0 <= a -> Z.land a 3 = a mod 4.
Proof. intros. change 3 with (Z.ones 2). rewrite Z.land_ones by lia. reflexivity. Qed.

(* bucket_meta_inv for Open2N2 *)
Theorem o2_reach_inv st sh hp hs ps : 0 <= L <= 63 -> o2_reach st sh hp hs ps -> o2_inv st sh hp hs ps.
Proof.
  intros HL Hre. induction Hre as [hp | st sh hp hs ps st' Hre IH Hr Hc | st sh hp hs ps h probe it st' sh' hp' Hre IH Hh Hp Hadd
                                  | st sh hp hs ps idx st' sh' hp' Hre IH Hrem Hidx].
  - unfold o2_inv, o2cnt. cbn. split; [lia|]. split; intros; [reflexivity|lia].
  - destruct IH as (H1 & He & Ho). unfold o2_inv. rewrite Hc. split; [assumption|]. split; assumption.
  - destruct IH as (H1 & He & Ho). rewrite o2_addcrt_eq in Hadd by lia. cbv zeta in Hadd.
    unfold Gen_O2.pvGetCount in Hadd. fold (o2cnt st) in Hadd.
    assert (Hc : 0 <= o2cnt st <= 3) by (unfold o2cnt; rewrite land3_mod by lia; pose proof (Z.mod_pos_bound (st 1) 4 ltac:(lia)); lia).
    destruct (Z.ltb_spec (o2cnt st) 3); [|discriminate].
    rewrite (wrapU_small 64 (2 - o2cnt st)) in Hadd by (change (2 ^ 64) with 18446744073709551616; lia).
    remember (2 - o2cnt st) as k eqn:Hk. injection Hadd as <- <- <-.
    assert (Hc' : o2cnt (upd st 1 (wrapU 8 (st 1 + 1))) = o2cnt st + 1 /\ 0 <= wrapU 8 (st 1 + 1) < 256).
    { unfold o2cnt in *. rewrite upd_same. rewrite land3_mod in * by lia.
      assert (st 1 + 1 < 256) by (clear - H1 H; Z.div_mod_to_equations; lia).
      rewrite wrapU_small by (change (2 ^ 8) with 256; lia). split; [|lia].
      rewrite !land3_mod by lia. clear - H1 H. Z.div_mod_to_equations. lia. }
    destruct Hc' as [Hc' Hr']. unfold o2_inv. rewrite Hc'. rewrite upd_same. split; [assumption|]. split.
    + intros i Hi. rewrite upd_other by lia. apply He. lia.
    + intros i Hi. destruct (Z.eq_dec i k) as [->|Hne].
      * rewrite !upd_same. repeat split; lia.
      * rewrite !upd_other by lia. apply Ho. lia.
  - destruct IH as (H1 & He & Ho).
    assert (Hc : 0 <= o2cnt st <= 3) by (unfold o2cnt; rewrite land3_mod by lia; pose proof (Z.mod_pos_bound (st 1) 4 ltac:(lia)); lia).
    rewrite o2_remove_eq in Hrem by (unfold Gen_O2.pvGetCount; fold (o2cnt st); lia). cbv zeta in Hrem.
    unfold Gen_O2.pvGetCount in Hrem. fold (o2cnt st) in Hrem.
    destruct (Z.geb_spec idx (3 - o2cnt st)); [|discriminate].
    remember (3 - o2cnt st) as k eqn:Hk. injection Hrem as <- <- <-.
    assert (Hc' : o2cnt (upd st 1 (wrapU 8 (st 1 - 1))) = o2cnt st - 1 /\ 0 <= wrapU 8 (st 1 - 1) < 256).
    { unfold o2cnt in *. rewrite upd_same. rewrite land3_mod in * by lia.
      assert (0 <= st 1 - 1) by (clear - H1 H Hidx Hc Hk; Z.div_mod_to_equations; lia).
      rewrite wrapU_small by (change (2 ^ 8) with 256; lia). split; [|lia].
      rewrite !land3_mod by lia. clear - H1 H Hidx Hc Hk. Z.div_mod_to_equations. lia. }
    destruct Hc' as [Hc' Hr']. unfold o2_inv. rewrite Hc'. rewrite upd_same. split; [assumption|]. split.
    + intros i Hi. destruct (Z.eq_dec i k) as [->|Hne]; [apply upd_same|].
      rewrite upd_other by lia. rewrite upd_other by lia. apply He. lia.
    + intros i Hi. rewrite (upd_other _ k) by lia.
      destruct (Z.eq_dec i idx) as [->|Hne].
      * rewrite !upd_same. apply Ho. lia.
      * rewrite !upd_other by lia. apply Ho. lia.
Qed.

(* reconstruct_exact at bucket level (Open2N2): after ANY history, every live slot reconstructs to the full getter's value
   or to the known bits of the code its element was inserted with *)
Theorem o2_bucket_reconstruct st sh hp hs ps i full bidx newL : 0 <= L <= 63 -> L < newL <= 63 ->
  o2_reach st sh hp hs ps -> 3 - o2cnt st <= i <= 2 -> bidx = (hs i mod 2 ^ L + tri (ps i)) mod 2 ^ L ->
  Gen_O2.GetHashCodePart st sh hp full bidx L newL i = Ok full \/
  (Gen_O2.GetHashCodePart st sh hp full bidx L newL i = Ok (known (qof L) (hs i)) /\ qof L = qof newL).
Proof.
  intros HL HnL Hre Hi Hb. destruct (o2_reach_inv st sh hp hs ps ltac:(lia) Hre) as (_ & _ & Ho).
  destruct (Ho i Hi) as (Hs & Hv & Hh & Hp).
  rewrite (o2_reconstruct st sh hp full bidx L newL i (hs i) (ps i)); try lia; try assumption.
  destruct (o2_full_used _ _ _) eqn:Hfu; [left; reflexivity|right]. split; [reflexivity|].
  unfold o2_full_used in Hfu. apply orb_false_iff in Hfu. destruct Hfu as [_ Hq].
  destruct (Z.eqb_spec (qof L) (qof newL)); [assumption|discriminate].
Qed.
End ReachO2.

(* ------------------------------------------------------------------ BucketOne: the whole bucket is one hash state *)
Inductive one_reach : Z -> option Z -> Prop :=
| one_empty : one_reach 0 None
| one_add st o h st' : one_reach st o -> 0 <= h < 2 ^ 64 -> Gen_One.AddCrt st h = Ok (tt, st') -> one_reach st' (Some h)
| one_remove st o it addr st' : one_reach st o -> Gen_One.Remove st it addr = Ok (tt, st') -> one_reach st' None.

Theorem one_reach_inv st o : one_reach st o ->
  match o with
  | Some h => Gen_One.IsFull st = true /\ forall full it, Gen_One.GetHashCodePart st full it it = Ok (h mod 2 ^ 63)
  | None => Gen_One.IsFull st = false /\ (st = 0 \/ st = 2)
  end.
Proof.
  intros Hre. induction Hre as [|st o h st' Hre IH Hh Hadd|st o it addr st' Hre IH Hrem].
  - split; [reflexivity|left; reflexivity].
  - unfold Gen_One.AddCrt in Hadd. destruct (Gen_One.IsFull st); [discriminate|]. cbn [negb] in Hadd. injection Hadd as <-.
    destruct (one_reconstruct h 0 0 Hh) as (st0 & Ha & Hf & Hg & _).
    assert (st0 = Gen_One.pvGetHashState h) by (unfold Gen_One.AddCrt in Ha; cbn in Ha; injection Ha as <-; reflexivity).
    subst st0. split; [assumption|]. intros full it.
    unfold Gen_One.GetHashCodePart in *. rewrite Z.eqb_refl in *. exact Hg.
  - unfold Gen_One.Remove in Hrem. destruct (Z.eqb it addr); [|discriminate]. destruct (Gen_One.IsFull st); [|discriminate].
    injection Hrem as <-. split; [reflexivity|right; reflexivity].
Qed.
