(* C01 -- the iterator machine (HashSetConstIterator::pvInc / pvMove) visits exactly `traverse s`, in that order;
   Remove(iter) returns the iterator to the rest of the traversal. *)
From Coq Require Import ZArith List Lia Bool Permutation.
From C01 Require Import HashModel ListAux.
Import ListNotations.

Arguments items {B}. Arguments wasFull {B}. Arguments bound {B}. Arguments mkB {B}.
Arguments tlog {B}. Arguments tbs {B}. Arguments mkT {B}.
Arguments gens {B}. Arguments count {B}. Arguments capacity {B}. Arguments mkH {B}.

Section Iter.
  Variable B : Type.
  Notation bucket := (bucket B).
  Notation table := (table B).
  Notation hset := (hset B).
  Notation scan := (scan B).
  Notation first_in_gens := (first_in_gens B).
  Notation it_begin := (it_begin B).
  Notation it_get := (it_get B).
  Notation it_next := (it_next B).
  Notation it_collect := (it_collect B).
  Notation ttraverse := (ttraverse B).
  Notation traverse := (traverse B).

  Definition revitems (b : bucket) : list item := rev (items b).

  Lemma nth_error_skipn {A} (l : list A) n m : nth_error (skipn n l) m = nth_error l (n + m).
  Proof. revert l; induction n; intros l; simpl; auto. destruct l; simpl; auto. destruct m; auto. Qed.

  Lemma skipn_skipn' {A} (l : list A) n m : skipn n (skipn m l) = skipn (m + n) l.
  Proof. revert l; induction m; intros l; simpl; auto. destruct l; simpl; auto. destruct n; auto. Qed.

  Lemma rev_firstn_S {A} (l : list A) p x : nth_error l p = Some x -> rev (firstn (S p) l) = x :: rev (firstn p l).
  Proof.
    revert p; induction l as [|a r IH]; intros p H; [destruct p; discriminate|].
    destruct p; simpl in *.
    - inversion H; reflexivity.
    - rewrite (IH _ H). simpl. reflexivity.
  Qed.

  Lemma scan_spec : forall l bi,
    match scan l bi with
    | Some (bi', p') => (bi <= bi')%nat /\ exists b', nth_error l (bi' - bi) = Some b' /\ p' = Nat.pred (length (items b')) /\
                        items b' <> [] /\ flat_map revitems l = rev (items b') ++ flat_map revitems (skipn (S (bi' - bi)) l)
    | None => flat_map revitems l = []
    end.
  Proof.
    induction l as [|b r IH]; intros bi; simpl; auto.
    destruct (items b) as [|x xs] eqn:E.
    - specialize (IH (S bi)). destruct (scan r (S bi)) as [[bi' p']|].
      + destruct IH as [Hle [b' [H1 [H2 [H3 H4]]]]]. split; [lia|]. exists b'.
        replace (bi' - bi)%nat with (S (bi' - S bi)) by lia. simpl. unfold revitems at 1. rewrite E. simpl. auto.
      + unfold revitems at 1. rewrite E. simpl. exact IH.
    - split; [lia|]. exists b. rewrite Nat.sub_diag. simpl. rewrite E. split; auto. split; auto. split; [discriminate|].
      unfold revitems at 1. rewrite E. reflexivity.
  Qed.

  Definition rest_gens (gs : list table) : list item := flat_map ttraverse gs.

  Lemma ttraverse_eq (t : table) : ttraverse t = flat_map revitems (tbs t).
  Proof. reflexivity. Qed.

  (* what remains to be visited from a position *)
  Definition rest (s : hset) (it : iter) : list item :=
    match it with
    | None => []
    | Some (gi, bi, p) =>
      match nth_error (gens s) gi with
      | None => []
      | Some t => match nth_error (tbs t) bi with
                  | None => []
                  | Some b => rev (firstn (S p) (items b)) ++ flat_map revitems (skipn (S bi) (tbs t)) ++ rest_gens (skipn (S gi) (gens s))
                  end
      end
    end.

  Definition valid (s : hset) (it : iter) : Prop :=
    match it with
    | None => True
    | Some (gi, bi, p) => exists t b, nth_error (gens s) gi = Some t /\ nth_error (tbs t) bi = Some b /\ (p < length (items b))%nat
    end.

  Lemma skipn_cons_inv {A} (l : list A) : forall n a r, skipn n l = a :: r -> nth_error l n = Some a /\ skipn (S n) l = r.
  Proof.
    induction l as [|x l IH]; intros n a r H; destruct n; simpl in *; try discriminate.
    - inversion H; auto.
    - apply IH; auto.
  Qed.

  Lemma first_in_gens_spec (s : hset) : forall gs g0, gs = skipn g0 (gens s) ->
    valid s (first_in_gens gs g0) /\ rest s (first_in_gens gs g0) = rest_gens gs.
  Proof.
    induction gs as [|t r IH]; intros g0 Hg; simpl; auto.
    symmetry in Hg. destruct (skipn_cons_inv _ _ _ _ Hg) as [Ht Hr].
    pose proof (scan_spec (tbs t) 0) as Hs. destruct (scan (tbs t) 0) as [[bi p]|].
    - destruct Hs as [_ [b [H1 [H2 [H3 H4]]]]]. rewrite Nat.sub_0_r in *.
      assert (Hp : (p < length (items b))%nat) by (destruct (items b); [congruence|simpl in *; lia]).
      split.
      + simpl. exists t, b. auto.
      + unfold rest. rewrite Ht, H1. rewrite ttraverse_eq, H4, Hr.
        replace (firstn (S p) (items b)) with (items b) by (symmetry; apply firstn_all2; lia).
        rewrite <- app_assoc. reflexivity.
    - rewrite ttraverse_eq, Hs. simpl. apply IH. auto.
  Qed.

  Lemma begin_spec (s : hset) : valid s (first_in_gens (gens s) 0) /\ rest s (first_in_gens (gens s) 0) = traverse s.
  Proof. apply (first_in_gens_spec s (gens s) 0). reflexivity. Qed.

  (* one step of the machine: the current item, then the rest from operator++ *)
  Lemma rest_step (s : hset) gi bi p : valid s (Some (gi, bi, p)) ->
    exists x, it_get s (Some (gi, bi, p)) = Some x /\ valid s (it_next s (Some (gi, bi, p))) /\
              rest s (Some (gi, bi, p)) = x :: rest s (it_next s (Some (gi, bi, p))).
  Proof.
    intros [t [b [Ht [Hb Hp]]]].
    destruct (nth_error (items b) p) as [x|] eqn:Ex; [|apply nth_error_None in Ex; lia].
    exists x. unfold HashModel.it_get. rewrite Ht, Hb. split; auto.
    destruct p as [|p].
    - unfold HashModel.it_next. rewrite Ht.
      pose proof (scan_spec (skipn (S bi) (tbs t)) (S bi)) as Hs.
      destruct (scan (skipn (S bi) (tbs t)) (S bi)) as [[bi' p']|].
      + destruct Hs as [Hle [b' [H1 [H2 [H3 H4]]]]].
        rewrite nth_error_skipn in H1. replace (S bi + (bi' - S bi))%nat with bi' in H1 by lia.
        assert (Hp' : (p' < length (items b'))%nat) by (destruct (items b'); [congruence|simpl in *; lia]).
        split; [simpl; exists t, b'; auto|].
        unfold rest. rewrite Ht, Hb, H1. rewrite H4. rewrite skipn_skipn'.
        replace (S bi + S (bi' - S bi))%nat with (S bi') by lia.
        replace (firstn (S p') (items b')) with (items b') by (symmetry; apply firstn_all2; lia).
        rewrite (rev_firstn_S _ _ _ Ex). simpl. rewrite <- app_assoc. reflexivity.
      + destruct (first_in_gens_spec s (skipn (S gi) (gens s)) (S gi) eq_refl) as [V E].
        split; auto. unfold rest at 1. rewrite Ht, Hb. rewrite Hs. rewrite (rev_firstn_S _ _ _ Ex). rewrite E. reflexivity.
    - split; [simpl; exists t, b; split; auto; split; auto; lia|].
      unfold rest, HashModel.it_next. rewrite Ht, Hb. rewrite (rev_firstn_S _ _ _ Ex). reflexivity.
  Qed.

  Lemma collect_rest (s : hset) : forall fuel it, valid s it -> (length (rest s it) <= fuel)%nat -> it_collect fuel s it = rest s it.
  Proof.
    induction fuel; intros it V Hl.
    - destruct (rest s it); simpl in *; auto; lia.
    - destruct it as [[[gi bi] p]|]; [|reflexivity].
      destruct (rest_step s gi bi p V) as [x [G [V' E]]].
      assert (U : forall f it, it_collect (S f) s it = match it_get s it with None => [] | Some x => x :: it_collect f s (it_next s it) end) by reflexivity.
      rewrite U, G, E. f_equal.
      apply IHfuel; auto. pose proof (f_equal (@length _) E) as L. cbn [length] in L. lia.
  Qed.

  (* GetBegin(); while (iter) { visit *iter; ++iter; }  visits exactly the traversal list of the model, in order *)
  Theorem iterate_eq_traverse (s : hset) :
    it_collect (length (traverse s)) s (it_begin s) = if (count s =? 0)%Z then [] else traverse s.
  Proof.
    unfold HashModel.it_begin. destruct (count s =? 0)%Z.
    - destruct (length (traverse s)); reflexivity.
    - destruct (begin_spec s) as [V E]. rewrite collect_rest; auto. rewrite E. lia.
  Qed.

  (* ---------- Remove(iter) returns the iterator to the rest of the traversal ---------- *)
  Variable b0 : B.
  Variable wf0 : bool.
  Notation it_remove := (it_remove B b0 wf0).

  Lemma firstn_upd_nth {A} (l : list A) : forall n x, firstn n (upd_nth n x l) = firstn n l.
  Proof. induction l; intros n x; destruct n; simpl; auto. f_equal. auto. Qed.

  Lemma skipn_upd_nth_gt {A} (l : list A) : forall n m x, (n < m)%nat -> skipn m (upd_nth n x l) = skipn m l.
  Proof. induction l; intros n m x H; destruct n, m; simpl; auto; try lia. apply IHl. lia. Qed.

  Lemma firstn_bremove (l : list item) p : (p < length l)%nat -> firstn p (bremove p l) = firstn p l.
  Proof.
    intros Hp. destruct (exists_last (l := l)) as [l' [z E]]; [intro; subst; simpl in Hp; lia|]. subst l.
    rewrite app_length in Hp. simpl in Hp. unfold bremove. rewrite rev_app_distr. simpl. rewrite removelast_last.
    destruct (Nat.eqb_spec p (length l')).
    - subst p. rewrite firstn_all. rewrite firstn_app, Nat.sub_diag, firstn_all. simpl. rewrite app_nil_r. reflexivity.
    - rewrite firstn_upd_nth. rewrite firstn_app. replace (p - length l')%nat with 0%nat by lia. simpl. rewrite app_nil_r. reflexivity.
  Qed.

  Lemma first_in_gens_ge : forall gs g0 gi bi p, first_in_gens gs g0 = Some (gi, bi, p) -> (g0 <= gi)%nat.
  Proof.
    induction gs as [|t r IH]; simpl; intros g0 gi bi p H; [discriminate|].
    destruct (scan (tbs t) 0) as [[bi' p']|]; [inversion H; lia|]. apply IH in H. lia.
  Qed.

  Theorem it_remove_rest (s : hset) gi bi p : valid s (Some (gi, bi, p)) ->
    rest (fst (it_remove s (Some (gi, bi, p)))) (snd (it_remove s (Some (gi, bi, p)))) = rest s (it_next s (Some (gi, bi, p))).
  Proof.
    intros [t [b [Ht [Hb Hp]]]]. unfold HashModel.it_remove. cbn [fst snd].
    set (f := fun t0 : table => tremove B b0 wf0 t0 (Z.of_nat bi) p).
    set (s' := {| gens := upd_gen B (gens s) gi f; count := (count s - 1)%Z; capacity := capacity s |}).
    assert (Hgi : (gi < length (gens s))%nat) by (apply nth_error_Some; congruence).
    assert (Hbi : (bi < length (tbs t))%nat) by (apply nth_error_Some; congruence).
    assert (Eg : gens s' = upd_nth gi (f t) (gens s)) by (unfold s'; simpl; unfold HashModel.upd_gen; rewrite Ht; reflexivity).
    assert (Egb : getb B b0 wf0 t (Z.of_nat bi) = b).
    { unfold HashModel.getb. rewrite Nat2Z.id. apply nth_error_nth. exact Hb. }
    assert (Et : tbs (f t) = upd_nth bi (mkB (bremove p (items b)) (wasFull b) (bound b)) (tbs t)).
    { unfold f, HashModel.tremove, HashModel.setb. simpl. rewrite Nat2Z.id, Egb. reflexivity. }
    assert (F1 : nth_error (gens s') gi = Some (f t)) by (rewrite Eg; apply nth_error_upd_nth_same; auto).
    assert (F2 : forall m, (gi < m)%nat -> skipn m (gens s') = skipn m (gens s)) by (intros; rewrite Eg; apply skipn_upd_nth_gt; auto).
    assert (F2' : forall m, (gi <> m)%nat -> nth_error (gens s') m = nth_error (gens s) m) by (intros; rewrite Eg; apply nth_error_upd_nth_other; auto).
    assert (F3 : forall m, (bi < m)%nat -> skipn m (tbs (f t)) = skipn m (tbs t)) by (intros; rewrite Et; apply skipn_upd_nth_gt; auto).
    assert (F3' : forall m, (bi <> m)%nat -> nth_error (tbs (f t)) m = nth_error (tbs t) m) by (intros; rewrite Et; apply nth_error_upd_nth_other; auto).
    destruct p as [|p].
    - (* the iterator moves on to a later bucket / generation: same iterator, same rest *)
      assert (En : it_next s' (Some (gi, bi, 0%nat)) = it_next s (Some (gi, bi, 0%nat))).
      { unfold HashModel.it_next. rewrite F1, Ht. rewrite (F3 (S bi)) by lia. rewrite (F2 (S gi)) by lia. reflexivity. }
      rewrite En. unfold HashModel.it_next. rewrite Ht.
      pose proof (scan_spec (skipn (S bi) (tbs t)) (S bi)) as Hs.
      destruct (scan (skipn (S bi) (tbs t)) (S bi)) as [[bi' p']|].
      + destruct Hs as [Hle _]. unfold rest. rewrite F1, Ht. rewrite (F3' bi') by lia. rewrite (F3 (S bi')) by lia.
        rewrite (F2 (S gi)) by lia. reflexivity.
      + destruct (first_in_gens (skipn (S gi) (gens s)) (S gi)) as [[[gi' bi'] p']|] eqn:Ef; [|reflexivity].
        apply first_in_gens_ge in Ef. unfold rest. rewrite (F2' gi') by lia. rewrite (F2 (S gi')) by lia. reflexivity.
    - (* the iterator stays in the bucket: the positions below p are untouched by the swap-with-last *)
      unfold HashModel.it_next, rest. rewrite F1, Ht, Hb. rewrite Et. rewrite nth_error_upd_nth_same by auto.
      rewrite skipn_upd_nth_gt by lia. rewrite (F2 (S gi)) by lia. cbn [items].
      rewrite firstn_bremove by lia. reflexivity.
  Qed.

  Theorem it_remove_valid (s : hset) gi bi p : valid s (Some (gi, bi, p)) ->
    valid (fst (it_remove s (Some (gi, bi, p)))) (snd (it_remove s (Some (gi, bi, p)))).
  Proof.
    intros V. pose proof V as [t [b [Ht [Hb Hp]]]]. unfold HashModel.it_remove. cbn [fst snd].
    set (f := fun t0 : table => tremove B b0 wf0 t0 (Z.of_nat bi) p).
    set (s' := {| gens := upd_gen B (gens s) gi f; count := (count s - 1)%Z; capacity := capacity s |}).
    assert (Hgi : (gi < length (gens s))%nat) by (apply nth_error_Some; congruence).
    assert (Hbi : (bi < length (tbs t))%nat) by (apply nth_error_Some; congruence).
    assert (Eg : gens s' = upd_nth gi (f t) (gens s)) by (unfold s'; simpl; unfold HashModel.upd_gen; rewrite Ht; reflexivity).
    assert (Egb : getb B b0 wf0 t (Z.of_nat bi) = b).
    { unfold HashModel.getb. rewrite Nat2Z.id. apply nth_error_nth. exact Hb. }
    assert (Et : tbs (f t) = upd_nth bi (mkB (bremove p (items b)) (wasFull b) (bound b)) (tbs t)).
    { unfold f, HashModel.tremove, HashModel.setb. simpl. rewrite Nat2Z.id, Egb. reflexivity. }
    assert (F1 : nth_error (gens s') gi = Some (f t)) by (rewrite Eg; apply nth_error_upd_nth_same; auto).
    assert (F2 : forall m, (gi < m)%nat -> skipn m (gens s') = skipn m (gens s)) by (intros; rewrite Eg; apply skipn_upd_nth_gt; auto).
    assert (F2' : forall m, (gi <> m)%nat -> nth_error (gens s') m = nth_error (gens s) m) by (intros; rewrite Eg; apply nth_error_upd_nth_other; auto).
    assert (F3 : forall m, (bi < m)%nat -> skipn m (tbs (f t)) = skipn m (tbs t)) by (intros; rewrite Et; apply skipn_upd_nth_gt; auto).
    assert (F3' : forall m, (bi <> m)%nat -> nth_error (tbs (f t)) m = nth_error (tbs t) m) by (intros; rewrite Et; apply nth_error_upd_nth_other; auto).
    destruct p as [|p].
    - assert (En : it_next s' (Some (gi, bi, 0%nat)) = it_next s (Some (gi, bi, 0%nat))).
      { unfold HashModel.it_next. rewrite F1, Ht. rewrite (F3 (S bi)) by lia. rewrite (F2 (S gi)) by lia. reflexivity. }
      rewrite En. destruct (rest_step s gi bi 0 V) as [x [_ [V' _]]]. revert V'.
      unfold HashModel.it_next. rewrite Ht.
      pose proof (scan_spec (skipn (S bi) (tbs t)) (S bi)) as Hs.
      destruct (scan (skipn (S bi) (tbs t)) (S bi)) as [[bi' p']|].
      + destruct Hs as [Hle _]. intros [t1 [b1 [A1 [A2 A3]]]]. rewrite Ht in A1. inversion A1; subst t1.
        exists (f t), b1. split; auto. split; auto. rewrite (F3' bi') by lia. exact A2.
      + destruct (first_in_gens (skipn (S gi) (gens s)) (S gi)) as [[[gi' bi'] p']|] eqn:Ef; [|auto].
        apply first_in_gens_ge in Ef. intros [t1 [b1 [A1 [A2 A3]]]]. exists t1, b1. rewrite (F2' gi') by lia. auto.
    - unfold HashModel.it_next. exists (f t), (mkB (bremove (S p) (items b)) (wasFull b) (bound b)).
      split; auto. split; [rewrite Et; apply nth_error_upd_nth_same; auto|]. cbn [items].
      destruct (nth_error (items b) (S p)) as [x|] eqn:Ex; [|apply nth_error_None in Ex; lia].
      pose proof (bremove_length _ _ _ Ex). lia.
  Qed.
End Iter.
