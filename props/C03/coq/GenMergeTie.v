(* C03 -- the list surgery of MemPool::MergeFrom TRANSLATED by tools/cxx2coq.py (Gen_MemPoolMergeC03.v; configuration and primitives
   copied from C09, whose PoolLinksProofs prove it for every list).  For C03 it is the leaf behind `pool_merge true` of Effects2.v
   ("every buffer of the source belongs to the destination afterwards").

   Bounded refinement, by computation on the translated function: for all 36 layouts with 0..2 full buffers (linked BEFORE the head)
   and 0..1 further buffers after the head in each pool, after the merge every buffer of both pools is reachable from the
   destination's head exactly once, prev and next agree, and the source is empty - the buffer set that `pool_merge true` states.
   With 7f37c9f reverted (the neighbours of an inserted full buffer linked to each other) this fails: full buffers are orphaned. *)
From Coq Require Import ZArith Bool List Lia.
From MomoCommon Require Import GenPrelude.
From C03 Require Import Effects Effects2 PoolBlkPrimsC03 Gen_MemPoolMergeC03.
Import ListNotations.
Local Open Scope Z_scope.

(* a chain of buffer addresses, linked in this order *)
Fixpoint link_next (l : list Z) (x : Z) : Z :=
  match l with a :: ((b :: _) as r) => if Z.eqb a x then b else link_next r x | _ => 0 end.
Definition link_prev (l : list Z) (x : Z) : Z := link_next (rev l) x.

(* pool: fulls (nearest to the head first), head, further buffers *)
Definition chain (fulls : list Z) (head : Z) (more : list Z) : list Z := rev fulls ++ head :: more.

Fixpoint walk (fuel : nat) (f : Z -> Z) (x : Z) : list Z :=
  match fuel with O => [] | S n => if Z.eqb x 0 then [] else x :: walk n f (f x) end.
Definition first_of (fuel : nat) (pv : Z -> Z) (h : Z) : Z := last (walk fuel pv h) h.
Definition memzb (x : Z) (l : list Z) : bool := existsb (Z.eqb x) l.
Fixpoint nodupb (l : list Z) : bool := match l with [] => true | a :: r => negb (memzb a r) && nodupb r end.

Definition merge_ok (fa : list Z) (ha : Z) (ma : list Z) (fb : list Z) (hb : Z) (mb : list Z) : bool :=
  let ca := chain fa ha ma in let cb := chain fb hb mb in
  let nx := fun x => if memzb x ca then link_next ca x else link_next cb x in
  let pv := fun x => if memzb x ca then link_prev ca x else link_prev cb x in
  match Gen_MemPoolMergeC03.MergeFrom 16 ha hb nx pv with
  | Ok (_, h, hsrc, nx', pv') =>
      let all := walk 16 nx' (first_of 16 pv' h) in
      Z.eqb h ha && Z.eqb hsrc 0 &&
      Nat.eqb (List.length all) (List.length (ca ++ cb)) && nodupb all &&
      forallb (fun x => memzb x all) (ca ++ cb) &&
      forallb (fun x => Z.eqb (nx' x) 0 || Z.eqb (pv' (nx' x)) x) all          (* prev (next x) = x *)
  | _ => false
  end.

Definition layouts : list (list Z * list Z * list Z * list Z) :=
  flat_map (fun fa => flat_map (fun ma => flat_map (fun fb => map (fun mb => (fa, ma, fb, mb)) [[]; [23]]) [[]; [20]; [20; 21]]) [[]; [13]]) [[]; [10]; [10; 11]].

Theorem generated_merge_keeps_every_buffer_bounded :
  forallb (fun L => let '(fa, ma, fb, mb) := L in merge_ok fa 12 ma fb 22 mb) layouts = true.
Proof. vm_compute. reflexivity. Qed.

(* refinement to the hand model on those layouts: the buffers reachable from the destination are those of `pool_merge true` *)
Theorem pool_merge_refines_generated_bounded :
  forallb (fun L => let '(fa, ma, fb, mb) := L in
     let ca := chain fa 12 ma in let cb := chain fb 22 mb in
     let nx := fun x => if memzb x ca then link_next ca x else link_next cb x in
     let pv := fun x => if memzb x ca then link_prev ca x else link_prev cb x in
     match Gen_MemPoolMergeC03.MergeFrom 16 12 22 nx pv with
     | Ok (_, h, _, nx', pv') =>
         let all := walk 16 nx' (first_of 16 pv' h) in
         let '(dst', src') := pool_merge true ca cb in
         forallb (fun x => memzb x all) dst' && forallb (fun x => memzb x dst') all && match src' with [] => true | _ => false end
     | _ => false
     end) layouts = true.
Proof. vm_compute. reflexivity. Qed.
