(* C08 -- the value-version counter (ValueCrew::Data::valueVersion, HashMultiMap.h:584-662) and the moved-from state
   (null crew) on top of the container model.  An Iterator stores the address of the counter and the value it had when
   the iterator was made; VersionKeeper::Check compares.  The counter is bumped by pvAddValue (1239), Remove(iter) (1083),
   pvRemoveValues (1258: RemoveValues, RemoveKey) and Clear (890); nothing else writes it.  A container is "dead" after it
   has been moved from (mValueCrew.IsNull()): Clear is then a no-op (the guard at 885), GetCount is 0 (761), and every
   member that needs the crew has MOMO_ASSERT(!IsNull()) as a precondition. *)
From Coq Require Import ZArith List Lia Bool.
From C08 Require Import ArrayBucketModel MultiMapModel.
Import ListNotations.
Local Open Scope Z_scope.

(* number of increments of the counter by one call, as coded *)
Definition ver_delta (M : Z) (m : mm) (o : op) : Z :=
  let es := fst m in
  match o with
  | OAdd _ _ _ => 1                                                     (* pvAddValue *)
  | OAddAt k _ => match find k es with Some _ => 1 | None => 0 end
  | OAddRange l => Z.of_nat (length l)                                  (* one AddVar per element *)
  | ORemove k i => match find k es with
                   | Some e => if (i <? length (evals e))%nat then 1 else 0
                   | None => 0 end
  | ORemoveIf p => sumlen es - sumlen (fst (step1 M m o))               (* one Remove(iter) per removed pair *)
  | ORemoveValues k => match find k es with Some _ => 1 | None => 0 end (* pvRemoveValues *)
  | ORemoveKey k => match find k es with Some _ => 1 | None => 0 end    (* pvRemoveValues(tempValueArray) *)
  | OClear => 1
  | _ => 0                                                              (* InsertKey, AddKeyCrt, ResetKey *)
  end.

(* a container with its crew: (content, (valueVersion, crew present?)) *)
Definition vinfo : Type := (Z * bool)%type.
Definition vmm : Type := (mm * vinfo)%type.
Definition vmm_fresh : vmm := (mm_empty, (0, true)).
Definition vmm_dead : vmm := (mm_empty, (0, false)).         (* moved-from: empty nested map, mValueCount = 0, null crew *)
Definition vlive (c : vmm) : bool := snd (snd c).
Definition vver (c : vmm) : Z := fst (snd c).

(* one call on one container; a call that needs the crew is not made on a dead container (identity) *)
Definition vstep1 (M : Z) (c : vmm) (o : op) : vmm :=
  if vlive c then (step1 M (fst c) o, (vver c + ver_delta M (fst c) o, true))
  else c.                                                     (* includes Clear: `if (!mValueCrew.IsNull())` *)

Inductive vop : Type :=
| VOp (o : op)          (* an operation of MultiMapModel.op on (cur, oth) *)
| VClearOther           (* oth.Clear() -- also legal on a moved-from container *)
| VReviveOther.         (* oth = HashMultiMap() / oth = fresh copy: a new live, empty container with a new crew *)

Definition vst : Type := (vmm * vmm)%type.
Definition vst_empty : vst := (vmm_fresh, vmm_fresh).

Definition vcopy (M : Z) (c : vmm) : vmm := (mm_copy M (fst c), (0, true)).   (* copy constructor: new crew, version 0 *)

Definition vstep (M : Z) (s : vst) (o : vop) : vst :=
  match o with
  | VOp OSwap => (snd s, fst s)                                 (* crews are swapped with the contents *)
  | VOp OCopyTo => if vlive (fst s) then (fst s, vcopy M (fst s)) else s
  | VOp OCopyFrom => if vlive (snd s) then (vcopy M (snd s), snd s) else s
  | VOp OMoveFrom => (snd s, vmm_dead)                          (* cur takes oth's crew; oth is left moved-from *)
  | VOp o1 => (vstep1 M (fst s) o1, snd s)
  | VClearOther => (fst s, vstep1 M (snd s) OClear)
  | VReviveOther => (fst s, vmm_fresh)
  end.

Definition vrun (M : Z) (ops : list vop) : vst := fold_left (vstep M) ops vst_empty.

(* ---------------------------------------------------------------- theorems *)
Lemma ver_delta_nonneg M m o : 0 < M < 16 -> Inv M m -> 0 <= ver_delta M m o.
Proof.
  intros HM HI. destruct o; simpl; try lia.
  - destruct (find k (fst m)); lia.
  - destruct (find k (fst m)) as [e|]; [|lia]. destruct (i <? length (evals e))%nat; lia.
  - (* ORemoveIf: the count only goes down *)
    pose proof (step1_inv M m (ORemoveIf p) HM HI) as (_ & C' & _). destruct HI as (_ & C & _).
    simpl in C'. destruct m as [es n]. simpl in *. subst n.
    assert (sumlen (map (fun e => set_arr (ab_remove_if (p (ekey e))) e) es) <= sumlen es); [|lia].
    clear. induction es as [|e r IH]; simpl; [lia|].
    assert (elen (set_arr (ab_remove_if (p (ekey e))) e) <= elen e); [|lia].
    unfold elen, evals. simpl. unfold ab_remove_if. rewrite rm_loop_vals.
    pose proof (rm_if_length (p (ekey e)) (snd (earr e))). unfold rm_if in H. lia.
  - destruct (find k (fst m)); lia.
  - destruct (find k (fst m)); lia.
Qed.

(* THE point of the counter: if a call leaves it unchanged, then no value array was touched -- every key that was
   present keeps exactly the same array (representation and content), a new key has the null array, and the pair
   traversal is the same.  So an iterator whose version check passes still points where it pointed. *)
Theorem version_guards_values M m o : NoDup (keys (fst m)) -> ver_delta M m o = 0 ->
  (forall k e, find k (fst m) = Some e ->
     exists e', find k (fst (step1 M m o)) = Some e' /\ earr e' = earr e) /\
  (forall k e', find k (fst (step1 M m o)) = Some e' -> find k (fst m) = None -> earr e' = ab_null) /\
  all_pairs (fst (step1 M m o)) = all_pairs (fst m).
Proof.
  intros ND D. destruct m as [es n]. simpl in ND.
  assert (forall es0 : list entry, (forall k e, find k es0 = Some e -> exists e', find k es0 = Some e' /\ earr e' = earr e)) as SAME
    by (intros es0 k e F; exists e; auto).
  assert (forall k0 t0, find k0 es = None ->
     (forall k e, find k es = Some e -> exists e', find k (es ++ [mkE k0 t0 ab_null]) = Some e' /\ earr e' = earr e) /\
     (forall k e', find k (es ++ [mkE k0 t0 ab_null]) = Some e' -> find k es = None -> earr e' = ab_null) /\
     all_pairs (es ++ [mkE k0 t0 ab_null]) = all_pairs es) as NEWKEY.
  { intros k0 t0 F0. split; [|split].
    - intros k e F. exists e. rewrite find_app, F. auto.
    - intros k e' F FN. rewrite find_app, FN in F. simpl in F. destruct (k0 =? k); [inversion F; reflexivity|discriminate].
    - unfold all_pairs. rewrite flat_map_app. simpl. unfold pairs_of at 2. simpl. rewrite !app_nil_r. reflexivity. }
  assert ((forall k e, find k es = Some e -> exists e', find k es = Some e' /\ earr e' = earr e) /\
          (forall k e', find k es = Some e' -> find k es = None -> earr e' = ab_null) /\ all_pairs es = all_pairs es) as ID.
  { split; [apply SAME|]. split; [intros k e' F FN; congruence|reflexivity]. }
  destruct o; simpl in D |- *; try exact ID; try lia.
  - (* OAddAt *) destruct (find k es); [lia|exact ID].
  - (* OInsertKey *) destruct (find k es) eqn:F; [exact ID|]. apply NEWKEY; auto.
  - (* ORemove *) destruct (find k es) as [e|]; [|exact ID]. destruct (i <? length (evals e))%nat; [lia|exact ID].
  - (* ORemoveIf: nothing was removed, so no array changed *)
    assert (forall e, In e es -> ab_remove_if (p (ekey e)) (earr e) = earr e) as FIX.
    { assert (forall l : list entry, sumlen (map (fun e => set_arr (ab_remove_if (p (ekey e))) e) l) <= sumlen l /\
                (sumlen (map (fun e => set_arr (ab_remove_if (p (ekey e))) e) l) = sumlen l ->
                 forall e, In e l -> ab_remove_if (p (ekey e)) (earr e) = earr e)) as G.
      { induction l as [|a r [IH1 IH2]]; [split; [simpl; lia|intros _ e []]|]. simpl.
        assert (elen (set_arr (ab_remove_if (p (ekey a))) a) <= elen a /\
                (elen (set_arr (ab_remove_if (p (ekey a))) a) = elen a -> ab_remove_if (p (ekey a)) (earr a) = earr a)) as [L1 L2].
        { unfold elen, evals. simpl. unfold ab_remove_if.
          generalize (p (ekey a)). intros q. generalize (earr a). intros arr.
          assert (forall fuel i (x : ab), (length (snd (rm_loop fuel q i x)) <= length (snd x))%nat /\
                    (length (snd (rm_loop fuel q i x)) = length (snd x) -> rm_loop fuel q i x = x)) as RL.
          { induction fuel as [|f IHf]; intros i x; simpl; [split; auto|].
            destruct (i <? length (snd x))%nat eqn:LT; [|split; auto].
            destruct (q (nth i (snd x) 0)).
            - destruct (IHf i (ab_remove_at i x)) as [A _]. simpl in A. rewrite length_swap_remove in A.
              apply Nat.ltb_lt in LT. split; [lia|intros E; lia].
            - apply IHf. }
          destruct (RL (length (snd arr)) O arr) as [A B]. split; [lia|intros E; apply B; lia]. }
        split; [lia|]. intros E e [<-|I]; [apply L2; lia|apply IH2; auto; lia]. }
      destruct (G es) as [_ G2]. apply G2. lia. }
    assert (map (fun e => set_arr (ab_remove_if (p (ekey e))) e) es = es) as ->; [|exact ID].
    clear - FIX. induction es as [|a r IH]; [reflexivity|]. simpl. rewrite IH by (intros e I; apply FIX; right; auto).
    f_equal. unfold set_arr. rewrite (FIX a (or_introl eq_refl)). destruct a; reflexivity.
  - (* ORemoveValues *) destruct (find k es); [lia|exact ID].
  - (* ORemoveKey *) destruct (find k es); [lia|exact ID].
  - (* OResetKey: only the key object changes *)
    split; [|split].
    + intros k0 e F. destruct (Z.eq_dec k0 k) as [->|NE].
      * exists (set_tag t e). rewrite (find_upd_same _ _ _ _ F) by auto. auto.
      * exists e. rewrite find_upd_other by auto. auto.
    + intros k0 e' F FN. destruct (Z.eq_dec k0 k) as [->|NE].
      * rewrite find_upd_none in F by auto. congruence.
      * rewrite find_upd_other in F by auto. congruence.
    + clear. unfold all_pairs. induction es as [|a r IH]; [reflexivity|]. simpl.
      destruct (ekey a =? k); simpl; [reflexivity|rewrite IH; reflexivity].
  - (* OAddKey *) destruct (find k es) eqn:F; [exact ID|]. apply NEWKEY; auto.
  - (* OAddRange [] *) destruct l; [exact ID|simpl in D; lia].
Qed.

(* the counter never decreases, and every call that changes the traversal increases it *)
Theorem version_monotone_and_sound M m o : 0 < M < 16 -> Inv M m ->
  0 <= ver_delta M m o /\
  (all_pairs (fst (step1 M m o)) <> all_pairs (fst m) -> 0 < ver_delta M m o).
Proof.
  intros HM HI. pose proof (ver_delta_nonneg M m o HM HI) as NN. split; [exact NN|].
  intros NE. destruct (Z.eq_dec (ver_delta M m o) 0) as [E|]; [|lia].
  destruct HI as (ND & _). destruct (version_guards_values M m o ND E) as (_ & _ & P). contradiction.
Qed.

(* a moved-from container: Clear and every other call leave it as it is, it reports no values and no keys *)
Theorem dead_container_is_inert M o :
  vstep1 M vmm_dead o = vmm_dead /\ get_count (fst vmm_dead) = 0 /\ get_key_count (fst vmm_dead) = 0 /\
  traverse (fst vmm_dead) = [].
Proof. repeat split. Qed.

Definition VInv (M : Z) (c : vmm) : Prop :=
  Inv M (fst c) /\ 0 <= vver c /\ (vlive c = false -> c = vmm_dead).

(* all histories incl. moves, Clear on the moved-from container and re-creation: both containers keep the container
   invariant, versions are non-negative, and a dead container is exactly the inert moved-from state *)
Theorem versions_all_histories M ops : 0 < M < 16 ->
  VInv M (fst (vrun M ops)) /\ VInv M (snd (vrun M ops)).
Proof.
  intros HM. unfold vrun.
  assert (VInv M vmm_fresh) as FR.
  { split; [apply inv_empty|]. split; [unfold vver, vmm_fresh; simpl; lia|discriminate]. }
  assert (VInv M vmm_dead) as DE.
  { split; [apply inv_empty|]. split; [unfold vver, vmm_dead; simpl; lia|reflexivity]. }
  assert (forall c o, VInv M c -> VInv M (vstep1 M c o)) as S1.
  { intros c o (I & V & D). unfold vstep1. destruct (vlive c) eqn:L; [|split; [exact I|split; [exact V|intros _; apply D; reflexivity]]].
    split; [apply step1_inv; auto|]. split; [|discriminate].
    pose proof (ver_delta_nonneg M (fst c) o HM I). unfold vver in *. simpl. lia. }
  assert (forall c, VInv M c -> VInv M (vcopy M c)) as SC.
  { intros c (I & V & D). split; [apply (copy_inv M (fst c) HM I)|]. split; [unfold vver, vcopy; simpl; lia|discriminate]. }
  assert (forall s, VInv M (fst s) /\ VInv M (snd s) ->
            VInv M (fst (fold_left (vstep M) ops s)) /\ VInv M (snd (fold_left (vstep M) ops s))) as G.
  { induction ops as [|o r IH]; intros s [A B]; simpl; auto. apply IH.
    destruct o as [o1| |]; simpl; auto.
    destruct o1; simpl; auto.
    - destruct (vlive (fst s)); simpl; auto.
    - destruct (vlive (snd s)); simpl; auto. }
  apply G. auto.
Qed.

(* ================================================================ the nested map's key-version counter *)
(* HashSet bumps its crew version in Clear, in pvAddNogrow (a key was added), in pvRemove (a key was removed) and when the
   table grows (HashSet.h:703, 733, 1145, 1213).  Growth only happens inside an insertion of a new key, so: the counter changes
   iff the call adds or removes a key, or is Clear on a container that has keys (Clear on a container whose bucket array exists
   but holds no key also bumps it; that case is not predicted by the model and not compared).  (How MANY times it is bumped depends on table growth and is not modelled.) *)
Definition kver_changes (M : Z) (m : mm) (o : op) : bool :=
  match o with
  | OClear => negb (get_key_count m =? 0)      (* HashSet::Clear returns early (no bump) when no bucket array exists; with keys present it exists *)
  | _ => negb (get_key_count (step1 M m o) =? get_key_count m)
  end.

Lemma add1_keys M m k t v : keys (fst (add1 M m k t v)) = keys (fst m) \/ keys (fst (add1 M m k t v)) = keys (fst m) ++ [k].
Proof.
  unfold add1. destruct (find k (fst m)); simpl; [left; apply keys_upd; auto|right; apply keys_app].
Qed.

Lemma add_range_keys M l : forall m,
  let m' := fold_left (fun m0 x => add1 M m0 (fst (fst x)) (snd (fst x)) (snd x)) l m in
  (length (keys (fst m)) <= length (keys (fst m')))%nat /\
  (length (keys (fst m')) = length (keys (fst m)) -> keys (fst m') = keys (fst m)).
Proof.
  induction l as [|x l IH]; intros m; simpl; [split; auto|].
  destruct (IH (add1 M m (fst (fst x)) (snd (fst x)) (snd x))) as [L1 L2].
  destruct (add1_keys M m (fst (fst x)) (snd (fst x)) (snd x)) as [E|E]; rewrite E in L1, L2.
  - split; auto.
  - rewrite app_length in L1, L2. simpl in L1, L2. split; [lia|]. intros H. lia.
Qed.

(* if a call leaves the key version unchanged, the key list is unchanged (same keys, same order): a key iterator whose
   version check passes still designates the same key *)
Lemma remove_key_shorter k es e : find k es = Some e -> (length (remove_key k es) < length es)%nat.
Proof.
  induction es as [|a r IH]; simpl; [discriminate|]. destruct (ekey a =? k); simpl; [lia|]. intros F. specialize (IH F). lia.
Qed.

Theorem key_version_guards_keys M m o : kver_changes M m o = false -> keys (fst (step1 M m o)) = keys (fst m).
Proof.
  intros H. destruct o; try discriminate; unfold kver_changes in H; apply negb_false_iff in H; apply Z.eqb_eq in H;
    unfold get_key_count in H; destruct m as [es n]; simpl in *; try reflexivity;
    try (destruct es; [reflexivity|simpl in H; lia]).
  - (* OAdd *) destruct (add1_keys M (es, n) k t v) as [E|E]; [exact E|].
    apply (f_equal (@length Z)) in E. unfold keys in E. rewrite app_length, !map_length in E. simpl in E. lia.
  - (* OAddAt *) destruct (find k es); simpl; [apply keys_upd; auto|reflexivity].
  - (* OInsertKey *) destruct (find k es); simpl in *; [reflexivity|]. rewrite app_length in H. simpl in H. lia.
  - (* ORemove *) destruct (find k es) as [e|]; simpl; [|reflexivity]. destruct (i <? length (evals e))%nat; simpl; [apply keys_upd; auto|reflexivity].
  - (* ORemoveIf *) apply keys_map; auto.
  - (* ORemoveValues *) destruct (find k es); simpl; [apply keys_upd; auto|reflexivity].
  - (* ORemoveKey *) destruct (find k es) as [e|] eqn:F; simpl in *; [|reflexivity].
    pose proof (remove_key_shorter k es e F). lia.
  - (* OResetKey *) apply keys_upd; auto.
  - (* OAddKey *) destruct (find k es); simpl in *; [reflexivity|]. rewrite app_length in H. simpl in H. lia.
  - (* OAddRange *) destruct (add_range_keys M l (es, n)) as [_ L2]. apply L2. simpl.
    unfold keys. rewrite !map_length. lia.
Qed.
