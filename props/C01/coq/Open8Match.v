(* C01 -- BucketOpen8::Find, SSE2 variant (the one compiled on this platform):
     mask = _mm_movemask_epi8(_mm_cmpeq_epi8(set1(shortHash), load(mData[0..7]))) & ((1 << 7) - 1);
     for (; mask != 0; mask &= mask - 1) { index = ctz(mask); if (itemPred(items[index])) return ...; }
   movemask / ctz / the loop are small Gallina functions; open8_match_visits: the loop calls itemPred exactly on the slots whose
   byte equals the short hash, in increasing slot order (so it is the scalar filter loop of BucketFind.find_sh restricted to the
   matching slots).  The eighth byte (max-probe exponent) is masked out by & 127.  Finite sweep over the 2^7 equality patterns. *)
From Coq Require Import ZArith List Lia Bool.
Import ListNotations.
Local Open Scope Z_scope.

(* bit i of the mask = (byte i == shortHash) *)
Fixpoint mask_b (eqs : list bool) : Z :=
  match eqs with [] => 0 | e :: r => (if e then 1 else 0) + 2 * mask_b r end.
Definition movemask (bytes : list Z) (sh : Z) : Z := mask_b (map (fun b => b =? sh) bytes).

Fixpoint ctz_aux (n : nat) (i : Z) (m : Z) : Z :=
  match n with O => i | S n' => if Z.testbit m i then i else ctz_aux n' (i + 1) m end.
Definition ctz (m : Z) : Z := ctz_aux 8 0 m.

Fixpoint visit (fuel : nat) (m : Z) : list Z :=
  match fuel with
  | O => []
  | S f => if m =? 0 then [] else ctz m :: visit f (Z.land m (m - 1))
  end.

Fixpoint pos_b (eqs : list bool) (i : Z) : list Z :=
  match eqs with [] => [] | e :: r => (if e then [i] else []) ++ pos_b r (i + 1) end.
Definition positions (bytes : list Z) (sh : Z) : list Z := pos_b (map (fun b => b =? sh) bytes) 0.

Fixpoint all_bools (n : nat) : list (list bool) :=
  match n with O => [[]] | S n' => map (cons true) (all_bools n') ++ map (cons false) (all_bools n') end.

Lemma in_all_bools : forall n l, length l = n -> In l (all_bools n).
Proof.
  induction n; intros l H; destruct l; simpl in *; try discriminate; auto.
  apply in_or_app. destruct b; [left|right]; apply in_map; apply IHn; lia.
Qed.

Definition sweep : bool := forallb (fun bv => if list_eq_dec Z.eq_dec (visit 8 (mask_b bv)) (pos_b bv 0) then true else false) (all_bools 7).
Lemma sweep_ok : sweep = true. Proof. vm_compute. reflexivity. Qed.

Theorem open8_match_visits (bytes : list Z) (sh : Z) : length bytes = 7%nat ->
  visit 8 (movemask bytes sh) = positions bytes sh.
Proof.
  intros H. unfold movemask, positions.
  pose proof sweep_ok as S. unfold sweep in S. rewrite forallb_forall in S.
  specialize (S (map (fun b => b =? sh) bytes)).
  destruct (list_eq_dec Z.eq_dec (visit 8 (mask_b (map (fun b : Z => b =? sh) bytes))) (pos_b (map (fun b : Z => b =? sh) bytes) 0)); auto.
  assert (false = true); [|discriminate]. apply S. apply in_all_bools. rewrite map_length. exact H.
Qed.

(* positions = exactly the slots with an equal byte, increasing *)
Lemma pos_b_spec : forall eqs i x, In x (pos_b eqs i) <-> exists j, nth_error eqs j = Some true /\ x = i + Z.of_nat j.
Proof.
  induction eqs as [|e r IH]; intros i x; simpl.
  - split; [tauto|]. intros [j [H _]]. destruct j; discriminate.
  - rewrite in_app_iff, IH. split.
    + intros [H|[j [H1 H2]]].
      * destruct e; [|contradiction]. destruct H as [H|[]]. exists 0%nat. simpl. split; auto. lia.
      * exists (S j). simpl. split; auto. lia.
    + intros [j [H1 H2]]. destruct j; simpl in *.
      * inversion H1; subst. left. left. lia.
      * right. exists j. split; auto. lia.
Qed.
