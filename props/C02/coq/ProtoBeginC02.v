(* C02 (final round) -- TreeSet::GetBegin: the REAL function (dumped statement tree) descends to the leftmost leaf and returns
   pvMakeIterator(node, 0, true); pvMakeIterator constructs the iterator (node, itemIndex) and the constructor runs pvMoveIf when `move`
   (both bodies are dumped as well and pinned by the shape theorems below).  On every well-formed tree the result is the hand model's
   begin_iter - the position all traversal theorems start from. *)
From Coq Require Import String List ZArith Bool Lia Arith.
From MomoCommon Require Import GenPrelude.
From C02 Require Import ProtoSyntaxC02 Gen_TreeProto ProtoSemC02 ProtoProofsC02 ProtoIterC02 ProtoMoveC02 ProtoIncrC02 BTreeModel BTreeBase.
Import ListNotations.
Local Open Scope string_scope.

(* AST facts (closed by reflexivity on the regenerated terms): what GetBegin returns, what pvMakeIterator builds, what the constructor runs *)
Theorem begin_returns_make_iterator_move :
  last GetBegin_body SBreak = SReturn (ECall ENone "pvMakeIterator" [EVar "node"; ENum 0; ENum 1]).
Proof. reflexivity. Qed.
Theorem make_iterator_constructs_proxy :
  pvMakeIterator_body = [SReturn (ECtor "ConstIteratorProxy" [EUn "*" (EVar "node"); EVar "itemIndex"; ECall (EVar "mCrew") "GetVersion" []; EVar "move"])].
Proof. reflexivity. Qed.
Theorem iterator_ctor_moves_if_asked :
  iter_ctor_body = [SIf (EVar "move") [SExpr (ECall ENone "pvMoveIf" [])] []].
Proof. reflexivity. Qed.

Section Begin.
Variables (maxCap : nat) (r : node).
Notation lin := false.
Notation P0 := (fun _ : Z => false).
Notation exec := (exec lin P0 r no_calls).

Definition begin_prefix : list pstmt := removelast GetBegin_body.
Definition nleft_loop_stmt : pstmt :=
  SWhile (EUn "!" (ECall (EVar "node") "IsLeaf" [])) [SExpr (EBin "=" (EVar "node") (ECall (EVar "node") "GetChild" [ENum 0]))].

Lemma nleft_loop : forall x q mq (e : env) k rest,
  node_at q r = Some mq -> shape maxCap x mq -> e "node" = Some (VPtr (Some q)) ->
  exists e', exec (S (x + (2 + k))) e (nleft_loop_stmt :: rest) = exec (2 + k) e' rest /\
    e' "node" = Some (VPtr (Some (q ++ leftmost x mq)%list)).
Proof.
  induction x as [|x IH]; intros q mq e k rest Hq Sh En; unfold nleft_loop_stmt.
  - pose proof (shape_0_leaf maxCap mq Sh) as Lf.
    rewrite (exec_while_false r no_calls _ e _ _ _ (vbool false)); [| rewrite (eval_un_not r), (eval_isleaf2 r e "node" q mq En Hq), Lf; reflexivity | reflexivity].
    exists e. cbn [leftmost Nat.add]. rewrite app_nil_r. auto.
  - pose proof (shape_S_internal maxCap x mq Sh) as Lf. destruct Sh as (_ & _ & L & F & _).
    destruct (n_children mq) as [|ch cs] eqn:Ec; [simpl in L; lia|]. inversion F as [|? ? Sc _]; subst.
    assert (Hc : node_at (q ++ [0%nat]) r = Some ch) by (rewrite (node_at_app q [0%nat] r mq Hq); cbn [node_at]; rewrite Ec; reflexivity).
    replace (S (S x + (2 + k))) with (S (S (x + (2 + k)))) by lia.
    rewrite (exec_while_true lin P0 r no_calls _ e _ _ _ (vbool true)); [| rewrite (eval_un_not r), (eval_isleaf2 r e "node" q mq En Hq), Lf; reflexivity | reflexivity].
    rewrite exec_assign, (eval_childk r e "node" q 0%nat ch (ENum 0) En (eval_num r e 0%Z) Hc).
    replace (x + (2 + k)) with (S (x + (1 + k))) by lia. rewrite exec_nil. replace (S (x + (1 + k))) with (x + (2 + k)) by lia.
    set (e1 := set e "node" (VPtr (Some (q ++ [0%nat])%list))).
    assert (E1n : e1 "node" = Some (VPtr (Some (q ++ [0%nat])%list))) by reflexivity.
    destruct (IH (q ++ [0%nat])%list ch e1 k rest Hc Sc E1n) as (e' & He & A).
    exists e'. split; [exact He|]. rewrite A. cbn [leftmost]. rewrite Ec, <- app_assoc. reflexivity.
Qed.

(* everything before the return: node = the leftmost leaf *)
Lemma begin_prefix_spec d (e : env) k :
  shape maxCap d r -> e "mRootNode" = Some (VPtr (Some [])) ->
  exists e', exec (6 + (d + k)) e begin_prefix = RNormal e' /\ e' "node" = Some (VPtr (Some (leftmost d r))).
Proof.
  intros Sh Er. unfold begin_prefix, GetBegin_body. cbn [removelast Nat.add].
  rewrite exec_if, (eval_binop_root lin P0 r e Er). cbn [vbool truthy Z.eqb negb].
  rewrite exec_nil, exec_decl, eval_var_raw, Er.
  set (e1 := set e "node" (VPtr (Some []))).
  assert (E1n : e1 "node" = Some (VPtr (Some []))) by reflexivity.
  replace (S (S (S (S (d + k))))) with (S (d + (2 + (1 + k)))) by lia.
  destruct (nleft_loop d [] r e1 (1 + k) [] eq_refl Sh E1n) as (e' & He & A).
  fold nleft_loop_stmt. rewrite He. cbn [Nat.add]. rewrite exec_nil. exists e'. split; [reflexivity | exact A].
Qed.

(* the whole GetBegin: prefix, then `return pvMakeIterator(node, 0, true)` = the iterator (node, 0) on which the constructor runs pvMoveIf:
   the result is the hand model's begin_iter *)
Theorem begin_is_generated d (e : env) k :
  shape maxCap d r -> e "mRootNode" = Some (VPtr (Some [])) ->
  let b := begin_iter {| root := Some r; cnt := 0 |} in
  exists e' e'', exec (6 + (d + k)) e begin_prefix = RNormal e' /\ e' "node" = Some (VPtr (Some (leftmost d r))) /\
    run_moveif_f r (13 + (k + d)) (env_of_iter (leftmost d r, 0%nat)) = Some e'' /\
    e'' "mNode" = Some (VPtr (Some (fst b))) /\ e'' "mItemIndex" = Some (VNum (Z.of_nat (snd b))).
Proof.
  intros Sh Er. cbv zeta. destruct (begin_prefix_spec d e k Sh Er) as (e' & He & A).
  destruct (leftmost_leaf maxCap d r Sh) as (lm & Hl & S0).
  assert (Lq : (length (leftmost d r) <= d)%nat) by (destruct (shape_at maxCap _ d r lm Sh Hl); assumption).
  destruct (run_moveif_spec maxCap r d (leftmost d r) lm (env_of_iter (leftmost d r, 0%nat)) (k + d - length (leftmost d r)) 0%nat Sh Hl
              (shape_0_leaf maxCap lm S0) eq_refl eq_refl) as (e'' & Hm & B1 & B2).
  replace (13 + (k + d - length (leftmost d r) + length (leftmost d r))) with (13 + (k + d)) in Hm by lia.
  exists e', e''. split; [exact He|]. split; [exact A|]. split; [exact Hm|].
  unfold begin_iter. cbn [root]. rewrite (shape_height maxCap d r Sh), (first_in_zip maxCap d r Sh), Hl.
  destruct (Nat.eqb_spec 0 (n_count lm)) as [E0|N0].
  - replace (0 <? n_count lm)%nat with false by (symmetry; apply Nat.ltb_ge; lia).
    pose proof (up_is_climb r (leftmost d r) r [] lm eq_refl Hl) as U. cbn [app] in U. rewrite U in B1, B2.
    destruct (climb (leftmost d r) r) as [[q i]|]; auto.
  - replace (0 <? n_count lm)%nat with true by (symmetry; apply Nat.ltb_lt; lia). auto.
Qed.
End Begin.

(* the three shape facts together *)
Lemma begin_shape_facts :
  last GetBegin_body SBreak = SReturn (ECall ENone "pvMakeIterator" [EVar "node"; ENum 0; ENum 1]) /\
  pvMakeIterator_body = [SReturn (ECtor "ConstIteratorProxy" [EUn "*" (EVar "node"); EVar "itemIndex"; ECall (EVar "mCrew") "GetVersion" []; EVar "move"])] /\
  iter_ctor_body = [SIf (EVar "move") [SExpr (ECall ENone "pvMoveIf" [])] []].
Proof. repeat split. Qed.
Definition k_node : string := "node".
Definition k_pvMakeIterator : string := "pvMakeIterator".
Definition k_ConstIteratorProxy : string := "ConstIteratorProxy".
Definition k_star : string := "*".
Definition k_itemIndex : string := "itemIndex".
Definition k_mCrew : string := "mCrew".
Definition k_GetVersion : string := "GetVersion".
Definition k_move : string := "move".
Definition k_pvMoveIf : string := "pvMoveIf".
