(* C03 -- L2 resource machine, part 6:
   (a) MemPool with its free-block cache across MergeFrom (MemPool.h:286-435): blocks live inside buffers; freed blocks are first
       kept in the pool's cache (mCacheHead / mCachedCount) and only later handed back to their buffers (pvFlushDeallocate);
       MergeFrom must flush the cache of the SOURCE before its buffers are spliced into the destination.
   (b) DataTable's Crew with the free-raw stack (DataTable.h Crew::GetFreeRaws, pvDeallocateFreeRaws): rows disposed by row
       objects are pushed on the crew's stack and are reclaimed - exactly once - by the owning table (single-threaded view; the
       lock-free interleavings are C19's).
   (c) stdish containers under UNEQUAL allocators: element-wise migration (set_map_utility pvCreateMap and pvCreateSet): every
       element is move-constructed into storage from the TARGET allocator, the source releases its own storage through ITS
       allocator. *)
From Coq Require Import ZArith Bool List Lia.
From C03 Require Import Effects Effects2.
Import ListNotations.
Local Open Scope Z_scope.

(* ================================================================== (a) pools with a cache *)
Definition pblock : Type := (Z * nat)%type.                 (* (buffer, index inside the buffer) *)
Record pool : Type := mkP {
  p_bufs : list Z;            (* buffers owned (blocks obtained from the memory manager) *)
  p_cache : list pblock;      (* cached free blocks *)
  p_free : list pblock        (* free blocks already handed back to their buffers *)
}.

Definition pblock_eqb (a b : pblock) : bool := Z.eqb (fst a) (fst b) && Nat.eqb (snd a) (snd b).

Section CachedPools.
Variables mgr bufsz : Z.
Variable bc : nat.            (* blocks per buffer *)
Variable cachemax : nat.      (* cachedFreeBlockCount *)

(* pvFlushDeallocate: every cached block goes back to its buffer *)
Definition pool_flush (p : pool) : pool := mkP (p_bufs p) [] (p_cache p ++ p_free p).

(* MemPool::MergeFrom(memPool).  fixed = true : the SOURCE's cache is flushed, then all its buffers (with their free blocks)
   become the destination's; fixed = false: the seeded shape - the destination's cache is flushed instead, the source keeps
   cached blocks whose buffers now belong to the destination *)
Definition pool_merge_from (fixed : bool) (dst src : pool) : pool * pool :=
  if fixed
  then let s' := pool_flush src in
       (mkP (p_bufs s' ++ p_bufs dst) (p_cache dst) (p_free s' ++ p_free dst), mkP [] [] [])
  else let d' := pool_flush dst in
       (mkP (p_bufs src ++ p_bufs d') [] (p_free src ++ p_free d'), mkP [] (p_cache src) []).

(* every free or cached block of a pool lies in a buffer the pool owns *)
Definition pool_wf (p : pool) : Prop := forall blk, In blk (p_cache p ++ p_free p) -> In (fst blk) (p_bufs p).

(* Allocate: a cached block first, then a free block of a buffer, then a new buffer *)
Definition pool_allocate (p : pool) (s : rstate) : ((pool * pblock) * outcome unit) * rstate :=
  match p_cache p with
  | blk :: c' => (((mkP (p_bufs p) c' (p_free p), blk), Val tt), s)
  | [] =>
      match p_free p with
      | blk :: f' => (((mkP (p_bufs p) [] f', blk), Val tt), s)
      | [] =>
          match p_alloc mgr bufsz s with
          | (Val b, s1) => (((mkP (b :: p_bufs p) [] (map (fun i => (b, S i)) (seq 0 (pred bc))), (b, O)), Val tt), s1)
          | (Exc, s1) => (((p, (0, O)), Exc), s1)
          | (Stuck, s1) => (((p, (0, O)), Stuck), s1)
          end
      end
  end.

(* Deallocate: into the cache while there is room, otherwise the cache is flushed first *)
Definition pool_deallocate (p : pool) (blk : pblock) : pool :=
  if Nat.ltb (length (p_cache p)) cachemax then mkP (p_bufs p) (blk :: p_cache p) (p_free p)
  else let q := pool_flush p in mkP (p_bufs q) [blk] (p_free q).

(* the client touches a block it was given: the buffer must still be live *)
Definition use_block (blk : pblock) : M unit := p_touch_blk (fst blk).

Fixpoint free_buffers (bs : list Z) : M unit :=
  match bs with
  | [] => ret tt
  | b :: r => p_dealloc mgr b bufsz ;;; free_buffers r
  end.
(* ~MemPool / DeallocateAll: all buffers go back to the memory manager *)
Definition pool_destroy (p : pool) : M unit := free_buffers (p_bufs p).

(* the scenario of seeded change C03/b: the source takes [a] blocks and frees them all (they stay cached), the destination takes
   one block, dst.MergeFrom(src), the source is refilled with one block, the destination (all its blocks returned) dies first,
   then the source uses its block and dies *)
Fixpoint take (n : nat) (p : pool) (acc : list pblock) (s : rstate) : ((pool * list pblock) * outcome unit) * rstate :=
  match n with
  | O => (((p, acc), Val tt), s)
  | S n' => match pool_allocate p s with
            | (((p', blk), Val _), s1) => take n' p' (blk :: acc) s1
            | (((p', _), o), s1) => (((p', acc), o), s1)
            end
  end.

Definition merge_refill_scn (fixed : bool) (a : nat) : M unit := fun s =>
  let '(((src1, got), o1), s1) := take a (mkP [] [] []) [] s in
  match o1 with
  | Val _ =>
      let src2 := fold_left pool_deallocate got src1 in
      let '(((dst1, gotd), o2), s2) := take 1 (mkP [] [] []) [] s1 in
      match o2 with
      | Val _ =>
          let '(dst2, src3) := pool_merge_from fixed dst1 src2 in
          let '(((src4, got4), o3), s3) := take 1 src3 [] s2 in
          match o3 with
          | Stuck => (Stuck, s3)
          | _ =>
              let dst3 := fold_left pool_deallocate gotd dst2 in
              match (pool_destroy dst3 ;;;                                            (* ~dst first *)
                     match got4 with blk :: _ => use_block blk | [] => ret tt end ;;;  (* the source reads its node *)
                     pool_destroy src4) s3 with
              | (Val _, s4) => (o3, s4)
              | r => r
              end
          end
      | Stuck => (Stuck, s2)
      | Exc => match (pool_destroy dst1 ;;; pool_destroy src2) s2 with (Val _, s3) => (Exc, s3) | r => r end
      end
  | Stuck => (Stuck, s1)
  | Exc => match pool_destroy src1 s1 with (Val _, s2) => (Exc, s2) | r => r end
  end.

End CachedPools.

(* ================================================================== (b) DataTable crew: rows held outside, the free-raw stack *)
Record dtab : Type := mkD {
  d_crew : Z;                 (* Crew::Data block: column list pointer, versions, the free-raw stack head *)
  d_rows : list Z;            (* raws stored in the table *)
  d_held : list Z;            (* raws owned by Row objects outside the table *)
  d_free : list Z             (* raws pushed on mCrew.GetFreeRaws() by ~Row, not yet reclaimed *)
}.
Inductive dop : Type :=
| DNew        (* table.NewRow(): a raw is allocated and handed to a Row object *)
| DAdd        (* table.Add(std::move(row)) *)
| DExtract    (* table.Extract(...): the raw goes back to a Row object *)
| DDispose    (* ~Row: the raw is NOT freed by the row, it is pushed on the crew's free-raw stack *)
| DReclaim.   (* the owning table: pvDeallocateFreeRaws() (at the next NewRow / in the destructor) *)

Section DataCrew.
Variables mgr rsz crewsz : Z.

Fixpoint free_raws (l : list Z) : M unit :=
  match l with
  | [] => ret tt
  | r :: l' => p_dealloc mgr r rsz ;;; free_raws l'
  end.

Definition dt_step (op : dop) (t : dtab) (s : rstate) : (dtab * outcome unit) * rstate :=
  match op with
  | DNew => match p_alloc mgr rsz s with
            | (Val r, s1) => ((mkD (d_crew t) (d_rows t) (r :: d_held t) (d_free t), Val tt), s1)
            | (Exc, s1) => ((t, Exc), s1)
            | (Stuck, s1) => ((t, Stuck), s1)
            end
  | DAdd => match d_held t with
            | r :: h => ((mkD (d_crew t) (r :: d_rows t) h (d_free t), Val tt), s)
            | [] => ((t, Val tt), s)
            end
  | DExtract => match d_rows t with
                | r :: rs => ((mkD (d_crew t) rs (r :: d_held t) (d_free t), Val tt), s)
                | [] => ((t, Val tt), s)
                end
  | DDispose => match d_held t with
                | r :: h => ((mkD (d_crew t) (d_rows t) h (r :: d_free t), Val tt), s)
                | [] => ((t, Val tt), s)
                end
  | DReclaim => match free_raws (d_free t) s with
                | (Val _, s1) => ((mkD (d_crew t) (d_rows t) (d_held t) [], Val tt), s1)
                | (o, s1) => ((t, o), s1)
                end
  end.

(* a history; an operation that throws leaves the table as it is *)
Fixpoint dt_run (ops : list dop) (t : dtab) (s : rstate) : (dtab * outcome unit) * rstate :=
  match ops with
  | [] => ((t, Val tt), s)
  | op :: ops' => match dt_step op t s with
                  | ((t', Stuck), s1) => ((t', Stuck), s1)
                  | ((t', _), s1) => dt_run ops' t' s1
                  end
  end.

(* the rows still held die (they push their raws), then ~DataTable: pvDeallocateFreeRaws, the stored raws, the crew *)
Definition dt_destroy (t : dtab) : M unit :=
  free_raws (d_held t ++ d_free t) ;;; free_raws (d_rows t) ;;; p_dealloc mgr (d_crew t) crewsz.

Definition dt_history (ops : list dop) : M unit := fun s =>
  match p_alloc mgr crewsz s with
  | (Val crew, s0) =>
      let '((t, o), s1) := dt_run ops (mkD crew [] [] []) s0 in
      match o with
      | Stuck => (Stuck, s1)
      | _ => dt_destroy t s1
      end
  | (Exc, s0) => (Exc, s0)
  | (Stuck, s0) => (Stuck, s0)
  end.

End DataCrew.

(* ================================================================== (c) element-wise migration between unequal allocators *)
Section Migration.
Variables mgrA mgrB nsz : Z.

(* the new container under construction: its node blocks (all from allocator B), one element each, newest first *)
Fixpoint drop_nodes (mgrX : Z) (l : list Z) : M unit :=
  match l with
  | [] => ret tt
  | b :: l' => p_destroy (b, 0) ;;; p_dealloc mgrX b nsz ;;; drop_nodes mgrX l'
  end.

(* for every source element: storage from the TARGET allocator, then a nothrow move construction *)
Fixpoint migrate_loop (srcs : list Z) (acc : list Z) (s : rstate) : (list Z * outcome unit) * rstate :=
  match srcs with
  | [] => ((acc, Val tt), s)
  | sb :: rest =>
      match p_alloc mgrB nsz s with
      | (Val nb, s1) =>
          match p_move_nt (nb, 0) (sb, 0) s1 with
          | (Val _, s2) => migrate_loop rest (nb :: acc) s2
          | (o, s2) => ((acc, o), s2)
          end
      | (Exc, s1) => ((acc, Exc), s1)
      | (Stuck, s1) => ((acc, Stuck), s1)
      end
  end.

(* C(std::move(src), allocB) with allocA != allocB: on success the source is cleared through ITS allocator; on failure the
   partly built target is torn down through allocator B and the source keeps (and later destroys) its moved-from elements *)
Definition migrate (srcs : list Z) : M (list Z) := fun s =>
  match migrate_loop srcs [] s with
  | ((tgt, Val _), s1) => match drop_nodes mgrA srcs s1 with
                          | (Val _, s2) => (Val tgt, s2)
                          | (Exc, s2) => (Exc, s2)
                          | (Stuck, s2) => (Stuck, s2)
                          end
  | ((tgt, Exc), s1) => catch_rethrow throw (drop_nodes mgrB tgt) s1
  | ((_, Stuck), s1) => (Stuck, s1)
  end.

(* the source container existed before; afterwards both containers die (the source is empty after a successful migration) *)
Definition migrate_then_destroy (srcs : list Z) : M unit := fun s =>
  match migrate srcs s with
  | (Val tgt, s1) => drop_nodes mgrB tgt s1
  | (Exc, s1) => match drop_nodes mgrA srcs s1 with (Val _, s2) => (Exc, s2) | r => r end
  | (Stuck, s1) => (Stuck, s1)
  end.

(* the same with the storage taken from (and returned to) the WRONG allocator: the seeded-style shape *)
Definition migrate_wrong_allocator (srcs : list Z) : M unit := fun s =>
  match migrate_loop srcs [] s with
  | ((tgt, Val _), s1) => (drop_nodes mgrB srcs ;;; drop_nodes mgrB tgt) s1
  | ((_, o), s1) => (o, s1)
  end.

End Migration.

(* ================================================================== (c') migration of a contiguous container (stdish::vector) *)
Section BlockMigration.
Variables mgrA mgrB isz : Z.

Fixpoint move_all (sb tb : Z) (i : Z) (n : nat) : M unit :=
  match n with
  | O => ret tt
  | S n' => p_move_nt (tb, i) (sb, i) ;;; move_all sb tb (i + 1) n'
  end.

(* vector(vector&&, const allocator&) with unequal allocators: storage for the n elements from the TARGET allocator, every element
   move-constructed into it, the source's elements destroyed (the source keeps its storage until it dies) *)
Definition migrate_block (sb : Z) (n : nat) : M Z :=
  tb <- p_alloc mgrB (Z.of_nat n * isz) ;; move_all sb tb 0 n ;;; om_destroy_n sb 0 n ;;; ret tb.

(* afterwards the target dies (through B), then the source (through A) *)
Definition migrate_block_then_destroy (sb : Z) (n : nat) : M unit := fun s =>
  match migrate_block sb n s with
  | (Val tb, s1) => (om_destroy_n tb 0 n ;;; p_dealloc mgrB tb (Z.of_nat n * isz) ;;; p_dealloc mgrA sb (Z.of_nat n * isz)) s1
  | (Exc, s1) => match (om_destroy_n sb 0 n ;;; p_dealloc mgrA sb (Z.of_nat n * isz)) s1 with (Val _, s2) => (Exc, s2) | r => r end
  | (Stuck, s1) => (Stuck, s1)
  end.

End BlockMigration.
