(* C11 -- AST facts about the parts of the migration that are not translated by cxx2coq: the try / catch (...) of
   HashSet::pvRelocateItems() and the recursion over older generations in HashSet::pvRelocateItems(Buckets ptr).
   Gen_RelocFacts.v (statement lists as canonical strings) is regenerated from the clang AST of the current headers on
   every run by props/C11/astfacts.py.  Here the structural facts that the hand model GrowModel.reloc_gens / relocate is
   written for are COMPUTED from those lists and proved to hold.  What the booleans mean for the model:
     swallows            a failure of the migration is caught by catch (...) with an empty handler and nothing runs after the try
                         = GrowModel.relocate: MStop leaves the state as the failed step left it, the operation goes on
     unlink_on_success   ExtractNextBuckets of the newest table follows the migration inside the try: the older chain stays
                         linked when the migration failed                          = reloc_gens keeps the rest of the chain on MStop
     oldest_first        in the worker the recursive call on the next (older) table comes before the loop over the own
                         buckets, guarded by next != nullptr, and unlinks the older table only after its migration returned
                                                                                   = reloc_gens migrates the LAST list element first
     destroy_last        the emptied table is destroyed after its loop            = reloc_gens drops a table only when all its items moved
     no_inner_handler    no try anywhere in the worker: a failure leaves every table on the recursion path linked and not destroyed
   The link between these facts and the Gallina text of reloc_gens is by reading (the hand model is not parametrised by them);
   their consequences are compared with the real containers on every run (number of generations and bucket contents after
   every operation). *)
From Coq Require Import List String Bool Arith.
From C11 Require Gen_RelocFacts.
Import ListNotations.
Local Open Scope string_scope.

Definition has (sub s : string) : bool := match index 0 sub s with Some _ => true | None => false end.
Definition is_decl (s : string) : bool := prefix "decl " s.
Fixpoint find_idx (p : string -> bool) (l : list string) (i : nat) : option nat :=
  match l with [] => None | s :: r => if p s then Some i else find_idx p r (S i) end.
Definition lt_opt (a b : option nat) : bool :=
  match a, b with Some x, Some y => Nat.ltb x y | _, _ => false end.
Definition str_eqb (a b : string) : bool := if string_dec a b then true else false.
Fixpoint list_eqb (a b : list string) : bool :=
  match a, b with [] , [] => true | x :: r, y :: q => str_eqb x y && list_eqb r q | _, _ => false end.

Definition swallows : bool :=
  Gen_RelocFacts.wrapper_catch_all && list_eqb Gen_RelocFacts.wrapper_handler [] &&
  forallb is_decl Gen_RelocFacts.wrapper_outside_try &&
  list_eqb Gen_RelocFacts.wrapper_noexcept ["void () noexcept"].
Definition unlink_on_success : bool :=
  list_eqb Gen_RelocFacts.wrapper_try ["pvRelocateItems(nextBuckets)"; "mBuckets.ExtractNextBuckets()"] &&
  list_eqb Gen_RelocFacts.wrapper_outside_try ["decl nextBuckets = mBuckets.GetNextBuckets()"].
Definition rec_stmt : string := "if (nextBuckets != nullptr) { pvRelocateItems(nextBuckets); buckets.ExtractNextBuckets() }".
Definition is_loop (s : string) : bool := prefix "for " s.
Definition is_destroy (s : string) : bool := str_eqb s "buckets.Destroy(memManager, false)".
Definition oldest_first : bool :=
  let w := Gen_RelocFacts.worker_body in
  lt_opt (find_idx (str_eqb rec_stmt) w 0) (find_idx is_loop w 0) &&
  match w with d :: _ => str_eqb d "decl nextBuckets = buckets.GetNextBuckets()" | [] => false end &&
  Nat.eqb (List.length (filter (has "pvRelocateItems(") w)) 1 &&
  Nat.eqb (List.length (filter is_loop w)) 1.
Definition destroy_last : bool :=
  let w := Gen_RelocFacts.worker_body in
  lt_opt (find_idx is_loop w 0) (find_idx is_destroy w 0) &&
  match rev w with l :: _ => is_destroy l | [] => false end &&
  Nat.eqb (List.length (filter (has "Destroy(") w)) 1.
Definition no_inner_handler : bool :=
  negb (existsb (has "try ") Gen_RelocFacts.worker_body) && negb (existsb (has "catch ") Gen_RelocFacts.worker_body).
(* the loop skeleton that Gen_HashSetMove translates is this very loop: per item --iter, GetHashCodePart, Remove *)
Definition loop_is_translated_one : bool :=
  existsb (fun s => is_loop s && has "for { --bucketIter; decl hashCode = bucket.GetHashCodePart(" s &&
                    has "bucketIter = bucket.Remove(bucketParams, bucketIter, itemReplacer) } }" s) Gen_RelocFacts.worker_body.
Definition worker_noexcept_iff_nothrow : bool :=
  match Gen_RelocFacts.worker_noexcept with [t] => has "noexcept(areItemsNothrowRelocatable)" t | _ => false end.

Theorem reloc_structure_is_source :
  swallows = true /\ unlink_on_success = true /\ oldest_first = true /\ destroy_last = true /\ no_inner_handler = true /\
  loop_is_translated_one = true /\ worker_noexcept_iff_nothrow = true.
Proof. vm_compute. repeat split; reflexivity. Qed.
