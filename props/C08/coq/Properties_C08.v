(* Property C08 -- theorems only.  Each is closed by `exact <lemma>` and followed by Print Assumptions.
   The models (ArrayBucketModel.v, MultiMapModel.v, WrapperModel.v) are hand-written executable Gallina mirroring
   HashMultiMap.h, details/ArrayBucket.h and stdish/unordered_multimap.h; their extracted OCaml is run against the
   real C++ on every check (see prop.py). *)
From Coq Require Import ZArith List Bool Permutation.
From MomoCommon Require Import GenPrelude.
From C08 Require Gen_GrowCapacity Gen_ArrayBucket Gen_ArrayBucket_cnt Gen_ArrayBucket_s Gen_HashMultiMap Gen_VersionCheck Gen_VersionCheck_a Gen_WrapEq Gen_WrapErase Gen_AB_ops Gen_AB_copy Gen_PairIterator Gen_RemoveIf Gen_HeapArray.
From C08 Require Import GenWrapPrims ArrayBucketModel GenRefine GenSkeleton GenHeapArray GenIterator GenWrapRefine GenRemoveIf MultiMapModel WrapperModel VersionModel Examples.
Import ListNotations.
Local Open Scope Z_scope.

(* HashMultiMap, all histories (Add by key / by key iterator, InsertKey, Remove by index, Remove by predicate,
   RemoveValues, RemoveKey, ResetKey, Clear, Swap, copy, move) for every maxFastCount M in 1..15:
   both containers keep  keys NoDup, mValueCount = sum of the per-key counts, every value array in a legal
   representation whose stored count is the length of its content;  and the per-key (tag, value list) of each
   container is EXACTLY that of the reference mapping sp_run (a function key -> option (tag, list)), order of
   values included (swap-with-last removal, the predicate-removal loop). *)
Theorem C08_mm_refines_all_histories :
  forall (M : Z) (ops : list op), 0 < M < 16 ->
    let s := run M ops in
    Inv M (fst s) /\ Inv M (snd s) /\ refines s (sp_run ops).
Proof. exact mm_refines_all_histories_thm. Qed.
Print Assumptions C08_mm_refines_all_histories.

(* pair traversal (GetBegin / operator++ with pvMove skipping value-less keys, modelled as an iterator) visits
   every (key, value) pair exactly as often as the value occurs in the key's list, and nothing else: nothing for
   an absent key and nothing for a key without values. *)
Theorem C08_traversal_visits_each_pair_once :
  forall (m : mm) (k v : Z), NoDup (keys (fst m)) ->
    count_occ pair_dec (traverse m) (k, v) =
    match abs (fst m) k with Some (_, vs) => count_occ Z.eq_dec vs v | None => O end.
Proof. exact traverse_counts. Qed.
Print Assumptions C08_traversal_visits_each_pair_once.

(* the iterator-based traversal terminates within GetCount()+1 steps and equals the concatenation of the
   per-key value arrays in key order (so the values of one key are contiguous and in array order) *)
Theorem C08_traversal_is_concatenation :
  forall m : mm, traverse m = all_pairs (fst m).
Proof. exact traverse_eq. Qed.
Print Assumptions C08_traversal_is_concatenation.

(* a present key stays present under every operation except RemoveKey of that key and Clear -- in particular
   when its last value is removed (Remove, Remove(pred), RemoveValues) it stays with zero values *)
Theorem C08_key_persists_until_removed_as_key :
  forall (M : Z) (m : mm) (o : op) (k : Z),
    abs (fst m) k <> None ->
    (forall k', o = ORemoveKey k' -> k' <> k) -> o <> OClear ->
    abs (fst (step1 M m o)) k <> None.
Proof. exact key_persists. Qed.
Print Assumptions C08_key_persists_until_removed_as_key.

(* Remove(pairFilter) on one key keeps exactly the values that do not satisfy the predicate (as a multiset;
   the resulting ORDER is the one of the coded loop and is part of the refinement above) and removes
   as many values as satisfy it *)
Theorem C08_remove_if_keeps_exactly_the_rest :
  forall (p : Z -> bool) (l : list Z),
    Permutation (rm_if p l) (filter (fun v => negb (p v)) l) /\
    (length (rm_if p l) + length (filter p l) = length l)%nat.
Proof. exact rm_if_spec. Qed.
Print Assumptions C08_remove_if_keeps_exactly_the_rest.

(* ArrayBucket: for every maxFastCount and every history of AddBack / Remove(i) / RemoveBack / Clear / copy the
   representation is never stuck on an assertion, count <= capacity of the current representation (pool index
   for a pooled block), the stored count is the length of the content, a pooled block holds 1..maxFastCount
   values in a pool of index <= maxFastCount, and the content is the plain list semantics. *)
Theorem C08_arraybucket_repr_inv :
  forall (M : Z) (ops : list abop), 0 < M < 16 ->
    let a := ab_run M ops in
    let r := fst a in
    r <> RStuck /\
    0 <= rcount r <= rcap r /\
    rcount r = Z.of_nat (length (snd a)) /\
    (is_fast r = true -> 1 <= rcount r /\ rcap r <= M) /\
    (is_heap r = true -> 1 <= rcount r) /\
    (is_null r = true -> snd a = []).
Proof. exact arraybucket_repr_inv_thm. Qed.
Print Assumptions C08_arraybucket_repr_inv.

Theorem C08_arraybucket_content_is_value_list :
  forall (M : Z) (ops : list abop), 0 < M < 16 ->
    ab_inv M (ab_run M ops) /\ snd (ab_run M ops) = fold_left ref_step ops [].
Proof. exact ab_all_histories. Qed.
Print Assumptions C08_arraybucket_content_is_value_list.

(* transitions only as coded: null -> pool 1; pooled block: count+1 in place, or next pool when full, or the heap
   array of capacity 2*maxFastCount when the largest pool is full; heap: in place or GrowCapacity *)
Theorem C08_arraybucket_add_transitions :
  forall (M : Z), 0 < M < 16 -> forall r : repr, repr_inv M r ->
  match r, add_back M r with
  | RNull, RFast st' => pool_of st' = 1 /\ fcount_of st' = 1
  | RFast st, RFast st' =>
      (fcount_of st < pool_of st /\ pool_of st' = pool_of st /\ fcount_of st' = fcount_of st + 1) \/
      (fcount_of st = pool_of st /\ pool_of st < M /\ pool_of st' = pool_of st + 1 /\ fcount_of st' = pool_of st + 1)
  | RFast st, RHeap cap' cnt' => fcount_of st = M /\ pool_of st = M /\ cap' = M * 2 /\ cnt' = M + 1
  | RHeap cap cnt, RHeap cap' cnt' =>
      cnt' = cnt + 1 /\ ((cnt < cap /\ cap' = cap) \/ (cnt = cap /\ cap' = grow_capacity cap (cnt + 1) /\ cap < cap'))
  | _, _ => False
  end.
Proof. exact add_back_transitions. Qed.
Print Assumptions C08_arraybucket_add_transitions.

(* RemoveBack: to null exactly when the last value goes; a pooled block keeps its pool; a heap array never
   returns to a pool and shrinks to 2*count exactly when 2 < count <= capacity/4 (count before the removal) *)
Theorem C08_arraybucket_remove_transitions :
  forall (M : Z) (r : repr), repr_inv M r -> 1 <= rcount r ->
  match r, remove_back r with
  | RFast st, RNull => fcount_of st = 1
  | RHeap cap cnt, RNull => cnt = 1
  | RFast st, RFast st' => 2 <= fcount_of st /\ pool_of st' = pool_of st /\ fcount_of st' = fcount_of st - 1
  | RHeap cap cnt, RHeap cap' cnt' =>
      2 <= cnt /\ cnt' = cnt - 1 /\
      ((2 < cnt /\ cnt <= cap / 4 /\ cap' = cnt * 2) \/ (~ (2 < cnt /\ cnt <= cap / 4) /\ cap' = cap))
  | _, _ => False
  end.
Proof. exact remove_back_transitions. Qed.
Print Assumptions C08_arraybucket_remove_transitions.

(* ------------------------------------------------------------------ the std-style wrapper *)
(* operator== (as coded: size test, then per left key with values: find, count, is_permutation) is EXACTLY multiset
   equality of the (key, value) pairs, for any two containers with distinct keys and consistent counts -- value-less
   keys left by erase_if on either side are invisible.  plain_keys: key_eq-equivalent keys are == (all tags 0), the
   situation of std::equal_to; the additional `ref.key == rightKey` test of fix 4339d66 is part of w_eq. *)
Theorem C08_wrapper_eq_iff_pairs_permutation :
  forall l r : mm, WInv l -> WInv r -> plain_keys (fst l) -> plain_keys (fst r) ->
    (w_eq l r = true <-> Permutation (pairs l) (pairs r)).
Proof. exact w_eq_iff_pairs_permutation. Qed.
Print Assumptions C08_wrapper_eq_iff_pairs_permutation.

(* operator== for ARBITRARY keys (key = (equivalence class, identity); key_eq sees the class, the key's operator==
   sees both): true iff the multisets of (key identity, value) pairs are equal.  No plain_keys assumption. *)
Theorem C08_wrapper_eq_iff_keyed_pairs_permutation :
  forall l r : mm, WInv l -> WInv r -> (w_eq l r = true <-> Permutation (kpairs l) (kpairs r)).
Proof. exact w_eq_iff_keyed_pairs_permutation. Qed.
Print Assumptions C08_wrapper_eq_iff_keyed_pairs_permutation.

(* every reachable HashMultiMap state satisfies the hypothesis WInv of the wrapper theorems *)
Theorem C08_wrapper_inv_from_history :
  forall (M : Z) (m : mm), Inv M m -> WInv m.
Proof. exact inv_winv. Qed.
Print Assumptions C08_wrapper_inv_from_history.

(* count(k) = number of pairs with key k; hence it depends only on the multiset of pairs *)
Theorem C08_wrapper_count_is_pair_count :
  forall (m : mm) (k : Z), NoDup (keys (fst m)) -> w_count m k = count_occ Z.eq_dec (map fst (pairs m)) k.
Proof. exact w_count_spec. Qed.
Print Assumptions C08_wrapper_count_is_pair_count.

Theorem C08_wrapper_count_depends_only_on_pairs :
  forall (m1 m2 : mm) (k : Z), NoDup (keys (fst m1)) -> NoDup (keys (fst m2)) ->
    Permutation (pairs m1) (pairs m2) -> w_count m1 k = w_count m2 k.
Proof. exact w_count_depends_only_on_pairs. Qed.
Print Assumptions C08_wrapper_count_depends_only_on_pairs.

(* equal_range(k) yields exactly the values paired with k (empty for a value-less key) *)
Theorem C08_wrapper_equal_range_is_pairs_of_key :
  forall (m : mm) (k : Z), NoDup (keys (fst m)) ->
    w_equal_range m k = map snd (filter (fun p => fst p =? k) (pairs m)).
Proof. exact w_equal_range_spec. Qed.
Print Assumptions C08_wrapper_equal_range_is_pairs_of_key.

Theorem C08_wrapper_equal_range_depends_only_on_pairs :
  forall (m1 m2 : mm) (k : Z), NoDup (keys (fst m1)) -> NoDup (keys (fst m2)) ->
    Permutation (pairs m1) (pairs m2) -> Permutation (w_equal_range m1 k) (w_equal_range m2 k).
Proof. exact w_equal_range_depends_only_on_pairs. Qed.
Print Assumptions C08_wrapper_equal_range_depends_only_on_pairs.

(* erase(key) removes exactly the pairs with that key and returns their number *)
Theorem C08_wrapper_erase_key :
  forall (M : Z) (m : mm) (k : Z), NoDup (keys (fst m)) ->
    pairs (w_erase_key M m k) = filter (fun p => negb (fst p =? k)) (pairs m) /\
    get_count m - get_count (w_erase_key M m k) = Z.of_nat (w_count m k).
Proof. exact w_erase_key_spec. Qed.
Print Assumptions C08_wrapper_erase_key.

(* erase(first, last) (case analysis of lines 569-591 over iterator positions a <= b <= size): whenever it does not
   throw std::invalid_argument, exactly the pairs of [first, last) are removed and nothing else *)
Theorem C08_wrapper_erase_range_removes_exactly_the_range :
  forall (M : Z) (m : mm) (a b : nat) (m' : mm), WInv m -> (a <= b <= length (pairs m))%nat ->
    w_erase_range M m a b = ErOk m' ->
    Permutation (pairs m) (pairs m' ++ slice a b (pairs m)).
Proof. exact w_erase_range_spec. Qed.
Print Assumptions C08_wrapper_erase_range_removes_exactly_the_range.

(* erase_if removes exactly the pairs satisfying the predicate *)
Theorem C08_wrapper_erase_if :
  forall (M : Z) (m : mm) (p : Z -> Z -> bool),
    Permutation (pairs (w_erase_if M m p)) (filter (fun kv => negb (p (fst kv) (snd kv))) (pairs m)).
Proof. exact w_erase_if_spec. Qed.
Print Assumptions C08_wrapper_erase_if.

(* ------------------------------------------------------------------ non-vacuity (concrete states, by computation) *)
Theorem C08_nonvacuous_history_heap_then_valueless_key :
  let s := run 2 hist1 in
  abs (fst (fst s)) 1 = Some (10, []) /\ get_count (fst s) = 1 /\ get_key_count (fst s) = 3 /\
  traverse (fst s) = [(2, 8)] /\
  fst (earr (match find 1 (fst (fst (run 2 (firstn 3 hist1)))) with Some e => e | None => mkE 0 0 ab_null end)) = RHeap 4 3 /\
  abs (fst (step1 2 (fst s) (ORemoveKey 1))) 1 = None.
Proof. exact ex_history_heap_then_valueless. Qed.
Print Assumptions C08_nonvacuous_history_heap_then_valueless_key.

Theorem C08_nonvacuous_eq_ignores_valueless_keys :
  get_key_count wl = 2 /\ get_key_count wr = 1 /\ w_eq wl wr = true /\ w_eq wr wl = true /\
  w_count wl 1 = O /\ w_equal_range wl 1 = [].
Proof. exact ex_eq_ignores_valueless_keys. Qed.
Print Assumptions C08_nonvacuous_eq_ignores_valueless_keys.

Theorem C08_nonvacuous_erase_range_cases :
  (match w_erase_range 7 w3 0 3 with ErOk m => pairs m | ErThrow => [(9, 9)] end) = [] /\
  (match w_erase_range 7 w3 1 3 with ErOk _ => false | ErThrow => true end) = true /\
  (match w_erase_range 7 (w_insert 7 w3 1 7) 0 3 with ErOk m => pairs m | ErThrow => [] end) = [(1, 7)] /\
  (match w_erase_range 7 w3 1 2 with ErOk m => pairs m | ErThrow => [] end) = [(0, 4); (0, 6)].
Proof. exact ex_erase_range. Qed.
Print Assumptions C08_nonvacuous_erase_range_cases.

(* ------------------------------------------------------------------ round 2: copy / move of a value array *)
(* ArrayBucket(Params&, const ArrayBucket&): the copy is TIGHT -- state byte recomputed as pvMakeState(count, count)
   (pool index = count, never the source's byte), a heap copy has capacity = count; equal content; source untouched *)
Theorem C08_arraybucket_copy_is_tight :
  forall (M : Z) (src : ab), 0 < M < 16 -> ab_inv M src ->
  let sd := ab_copy_from M src in
  let n := Z.of_nat (length (snd src)) in
  fst sd = src /\ snd (snd sd) = snd src /\ ab_inv M (snd sd) /\
  match fst (snd sd) with
  | RNull => n = 0
  | RFast st => 1 <= n <= M /\ st = make_state n n /\ st = 16 * n + n /\ pool_of st = n /\ fcount_of st = n
  | RHeap cap cnt => M < n /\ cap = n /\ cnt = n
  | RStuck => False
  end.
Proof. exact ab_copy_tight. Qed.
Print Assumptions C08_arraybucket_copy_is_tight.

Theorem C08_arraybucket_move :
  forall (M : Z) (src : ab), ab_inv M src ->
  fst (ab_move_from src) = ab_null /\ snd (ab_move_from src) = src /\ ab_inv M (fst (ab_move_from src)).
Proof. exact ab_move_spec. Qed.
Print Assumptions C08_arraybucket_move.

(* ------------------------------------------------------------------ round 2: exceptions (failure schedules) *)
(* AddBackCrt under any failure schedule: a throw leaves the representation as it was, otherwise it is add_back *)
Theorem C08_arraybucket_add_failure :
  forall (M : Z) (r : repr) (fs : list bool),
  let '(r', threw, _) := add_back_f M r fs in
  (threw = true -> r' = r) /\ (threw = false -> r' = add_back M r).
Proof. exact add_back_f_spec. Qed.
Print Assumptions C08_arraybucket_add_failure.

(* RemoveBack never throws; a failed Shrink is swallowed: same count, legal representation, at most the capacity differs *)
Theorem C08_arraybucket_swallowed_shrink_failure :
  forall (M : Z) (r : repr) (fs : list bool), repr_inv M r -> 1 <= rcount r ->
  let r' := fst (remove_back_f r fs) in
  repr_inv M r' /\ rcount r' = rcount r - 1 /\
  (r' = remove_back r \/ exists cap cnt, r = RHeap cap cnt /\ 2 < cnt /\ r' = RHeap cap (cnt - 1)).
Proof. exact remove_back_f_spec. Qed.
Print Assumptions C08_arraybucket_swallowed_shrink_failure.

(* HashMultiMap: a call that throws leaves the container EXACTLY as it was.  Content of this theorem: for RemoveKey the coded
   sequence "move the array out - mHashMap.Remove throws - move it back" is modelled step by step and the theorem shows that it
   restores the state (upd_restore).  For Add / Add(keyIter) the statement is IMMEDIATE FROM THE MODELLING: step1f returns the
   unchanged state when an allocation point of AddBackCrt fails (that all allocation points precede any write is what
   add_back_f encodes, and what C08_gen_add_back_skeleton shows for the state byte), and placing a new key relies on the strong
   guarantee of HashMap::AddCrt (property C04), which is assumed, not proved here.  The evidence that the real code behaves so is
   the fault enumeration of the harness (identical dump after every injected failure), i.e. tie / oracle. *)
Theorem C08_mm_throwing_call_leaves_container_unchanged :
  forall (M : Z) (m : mm) (o : op) (fs : list bool) (m' : mm) (fs' : list bool),
  step1f M m o fs = (m', true, fs') -> m' = m.
Proof. exact step1f_throw_unchanged. Qed.
Print Assumptions C08_mm_throwing_call_leaves_container_unchanged.

Theorem C08_mm_nonthrowing_call_under_failures :
  forall (M : Z) (m : mm) (o : op) (fs : list bool) (m' : mm) (fs' : list bool), 0 < M < 16 -> Inv M m ->
  step1f M m o fs = (m', false, fs') ->
  Inv M m' /\ (forall x, abs (fst m') x = abs (fst (step1 M m o)) x) /\ snd m' = snd (step1 M m o).
Proof. exact step1f_ok. Qed.
Print Assumptions C08_mm_nonthrowing_call_under_failures.

(* all histories, every call with its own failure schedule: invariants hold and the mapping is that of the history
   with the throwing calls deleted *)
Theorem C08_mm_failures_all_histories :
  forall (M : Z) (ops : list (op * list bool)), 0 < M < 16 ->
  forall (m : mm) (s : sp), Inv M m -> (forall x, abs (fst m) x = s x) ->
  let '(mf, done) := runf1 M m ops in
  Inv M mf /\ (forall x, abs (fst mf) x = fold_left sp_step1 done s x) /\ snd mf = sumlen (fst mf).
Proof. exact mm_failures_all_histories_thm. Qed.
Print Assumptions C08_mm_failures_all_histories.

(* ------------------------------------------------------------------ round 2: the iterator Remove / MakeIterator return *)
(* pvMakeIterator(key, valueIndex, move = true) (what Remove(iter) returns, on the new state): continuing the traversal
   from it yields exactly the rest of the traversal from the flat position of (key, valueIndex) -- the value swapped
   into the hole, or the first pair of the next key with values, or end -- for EVERY order of the keys *)
Theorem C08_remove_returns_rest_of_traversal :
  forall (es : list entry) (k : Z) (i : nat) (e : entry) (n : nat),
  find k es = Some e -> (i <= length (evals e))%nat -> (Z.to_nat (sumlen es) <= n)%nat ->
  traverse_from (S n) (iter_at_key es k i) = skipn (flat_pos es k i) (all_pairs es).
Proof. exact iter_at_key_continues. Qed.
Print Assumptions C08_remove_returns_rest_of_traversal.

Theorem C08_nonvacuous_eq_sees_key_identity :
  w_eq kl kr = false /\ pairs kl = pairs kr /\ w_eq kl kl = true.
Proof. exact ex_eq_sees_key_identity. Qed.
Print Assumptions C08_nonvacuous_eq_sees_key_identity.

Theorem C08_nonvacuous_failures :
  step1f 2 mf (ORemoveKey 1) [true] = (mf, true, []) /\
  step1f 2 mf (OAdd 1 0 99) [true] = (mf, true, []) /\
  fst (fst (step1f 2 mf (OAdd 1 0 99) [false])) = step1 2 mf (OAdd 1 0 99) /\
  remove_back_f (RHeap 16 4) [true] = (RHeap 16 3, []) /\ remove_back_f (RHeap 16 4) [false] = (RHeap 8 3, []).
Proof. exact ex_failures. Qed.
Print Assumptions C08_nonvacuous_failures.

(* ------------------------------------------------------------------ round 4: generated kernels (cxx2coq, regenerated on every run) *)
(* the REAL ArraySettings<>::GrowCapacity (translated from Array.h) equals the hand model's grow_capacity for growCause =
   add, linear = false, either growOnReserve, as long as size_t does not overflow (capacities <= 2^62); its
   MOMO_ASSERT(capacity < minNewCapacity) holds *)
Theorem C08_gen_grow_capacity_refines :
  forall (gor : bool) (cap mn : Z), 0 <= cap < mn -> mn <= 2 ^ 62 ->
  Gen_GrowCapacity.GrowCapacity gor cap mn 0 false = Ok (grow_capacity cap mn).
Proof. exact gen_grow_capacity_refines. Qed.
Print Assumptions C08_gen_grow_capacity_refines.

(* ... and the generated function itself returns a capacity that holds the requested count and is larger than before *)
Theorem C08_gen_grow_capacity_spec :
  forall (gor : bool) (cap mn : Z), 0 <= cap < mn -> mn <= 2 ^ 62 ->
  exists c, Gen_GrowCapacity.GrowCapacity gor cap mn 0 false = Ok c /\ mn <= c /\ cap < c.
Proof. exact gen_grow_capacity_spec. Qed.
Print Assumptions C08_gen_grow_capacity_spec.

(* the REAL pvMakeState / pvGetMemPoolIndex / pvGetFastCount / pvGetFastMemPoolIndex are the byte functions of the model *)
Theorem C08_gen_make_state_refines :
  forall p c : Z, 0 <= p < 2 ^ 59 -> Gen_ArrayBucket.pvMakeState p c = make_state p c.
Proof. exact gen_make_state_refines. Qed.
Print Assumptions C08_gen_make_state_refines.

Theorem C08_gen_mem_pool_index_refines :
  forall (load : Z -> Z) (ptr : Z), ptr <> 0 -> Gen_ArrayBucket.pvGetMemPoolIndex load ptr = Ok (pool_of (load ptr)).
Proof. exact gen_mem_pool_index_refines. Qed.
Print Assumptions C08_gen_mem_pool_index_refines.

Theorem C08_gen_fast_count_refines :
  forall (load : Z -> Z) (ptr : Z), 0 < pool_of (load ptr) ->
  Gen_ArrayBucket_cnt.pvGetFastCount load (fun q => pool_of (load q)) ptr = Ok (fcount_of (load ptr)).
Proof. exact gen_fast_count_refines. Qed.
Print Assumptions C08_gen_fast_count_refines.

Theorem C08_gen_fast_mem_pool_index :
  forall M count : Z,
  Gen_ArrayBucket.pvGetFastMemPoolIndex M count = if (0 <? count) && (count <=? M) then Ok count else Stuck.
Proof. exact gen_fast_mem_pool_index. Qed.
Print Assumptions C08_gen_fast_mem_pool_index.

(* the model's null -> pool 1 step and the copy constructor's pooled case are literally compositions of the generated functions *)
Theorem C08_add_back_null_via_generated :
  forall M : Z, 0 < M ->
  add_back M RNull =
  match Gen_ArrayBucket.pvGetFastMemPoolIndex M 1 with
  | Ok idx => RFast (Gen_ArrayBucket.pvMakeState idx 1)
  | _ => RStuck
  end.
Proof. exact add_back_null_via_generated. Qed.
Print Assumptions C08_add_back_null_via_generated.

Theorem C08_copy_repr_via_generated :
  forall M n : Z, 0 < n <= M -> M < 16 ->
  copy_repr M n =
  match Gen_ArrayBucket.pvGetFastMemPoolIndex M n with
  | Ok idx => RFast (Gen_ArrayBucket.pvMakeState idx n)
  | _ => RStuck
  end.
Proof. exact copy_repr_via_generated. Qed.
Print Assumptions C08_copy_repr_via_generated.

(* same code: the string-valued, maxFastCount 2, MemPoolParams<3,1> instantiation translates to the very same Gallina *)
Theorem C08_same_code_array_bucket_instantiations :
  Gen_ArrayBucket_s.pvMakeState = Gen_ArrayBucket.pvMakeState /\
  Gen_ArrayBucket_s.pvGetFastMemPoolIndex = Gen_ArrayBucket.pvGetFastMemPoolIndex /\
  Gen_ArrayBucket_s.pvGetMemPoolIndex = Gen_ArrayBucket.pvGetMemPoolIndex.
Proof. exact same_code_array_bucket_instantiations. Qed.
Print Assumptions C08_same_code_array_bucket_instantiations.

(* ------------------------------------------------------------------ round 4: FRAME for every member of ArrayBucket that writes mPtr *)
(* two buckets; AddBackCrt / RemoveBack (also failing), Remove(i), RemoveAll / Clear, copy constructor, move constructor,
   move assignment, Swap: both buckets stay in a legal representation whose stored count is the content length *)
Theorem C08_arraybucket_frame_every_member :
  forall (M : Z) (s : ab * ab) (o : ab2op), 0 < M < 16 -> ab_inv M (fst s) -> ab_inv M (snd s) ->
  ab_inv M (fst (ab2_step M s o)) /\ ab_inv M (snd (ab2_step M s o)).
Proof. exact ab2_frame. Qed.
Print Assumptions C08_arraybucket_frame_every_member.

Theorem C08_arraybucket_frame_all_histories :
  forall (M : Z) (ops : list ab2op), 0 < M < 16 ->
  ab_inv M (fst (ab2_run M ops)) /\ ab_inv M (snd (ab2_run M ops)).
Proof. exact ab2_frame_all_histories. Qed.
Print Assumptions C08_arraybucket_frame_all_histories.

(* content under those members: moves move, copies copy, Swap swaps, a throwing AddBackCrt adds nothing (and nothing else) *)
Theorem C08_arraybucket_content_every_member :
  forall (M : Z) (s : ab * ab) (o : ab2op), ab_inv M (fst s) -> ab_inv M (snd s) ->
  let s' := ab2_step M s o in
  match o with
  | A2AddF first v fs =>
      let a := if first then fst s else snd s in
      let a' := if first then fst s' else snd s' in
      (snd a' = snd a \/ snd a' = snd a ++ [v]) /\ (if first then snd s' = snd s else fst s' = fst s)
  | _ => (snd (fst s'), snd (snd s')) =
         ref2_step (snd (fst s), snd (snd s)) (is_null (fst (fst s)), is_null (fst (snd s))) o
  end.
Proof. exact ab2_content. Qed.
Print Assumptions C08_arraybucket_content_every_member.

(* ------------------------------------------------------------------ grow round 2: FRAME at HashMultiMap level, one step *)
(* EVERY public mutating member of HashMultiMap (each is an op of `step`: Add* / AddCrt / AddVar / Add(range) / InsertKey /
   AddKeyCrt / Remove x3 / RemoveValues / RemoveKey x2 / ResetKey / Clear / Swap / copy / move / both operator=) keeps, for
   both containers: keys distinct, mValueCount = sum of the per-key counts, every value array legal.  (The all-histories
   form is C08_mm_refines_all_histories; value-less keys staying until RemoveKey / Clear is C08_key_persists_...) *)
Theorem C08_mm_frame_every_member :
  forall (M : Z) (s : st) (o : op), 0 < M < 16 -> Inv M (fst s) /\ Inv M (snd s) ->
  Inv M (fst (step M s o)) /\ Inv M (snd (step M s o)).
Proof. exact step_inv. Qed.
Print Assumptions C08_mm_frame_every_member.

(* ------------------------------------------------------------------ grow round 2: value-version counter and moved-from state *)
(* if a call leaves valueVersion unchanged then no value array was touched: every present key keeps exactly its array
   (representation and content), a new key has the null array, the pair traversal is the same -- so an iterator that
   passes VersionKeeper::Check still designates the same pair *)
Theorem C08_version_guards_values :
  forall (M : Z) (m : mm) (o : op), NoDup (keys (fst m)) -> ver_delta M m o = 0 ->
  (forall k e, find k (fst m) = Some e -> exists e', find k (fst (step1 M m o)) = Some e' /\ earr e' = earr e) /\
  (forall k e', find k (fst (step1 M m o)) = Some e' -> find k (fst m) = None -> earr e' = ab_null) /\
  all_pairs (fst (step1 M m o)) = all_pairs (fst m).
Proof. exact version_guards_values. Qed.
Print Assumptions C08_version_guards_values.

(* the counter never decreases and every call that changes the traversal increases it *)
Theorem C08_version_monotone_and_sound :
  forall (M : Z) (m : mm) (o : op), 0 < M < 16 -> Inv M m ->
  0 <= ver_delta M m o /\ (all_pairs (fst (step1 M m o)) <> all_pairs (fst m) -> 0 < ver_delta M m o).
Proof. exact version_monotone_and_sound. Qed.
Print Assumptions C08_version_monotone_and_sound.

(* a moved-from container (null crew): Clear and every other call leave it as it is; no values, no keys, empty traversal *)
Theorem C08_moved_from_container_is_inert :
  forall (M : Z) (o : op),
  vstep1 M vmm_dead o = vmm_dead /\ get_count (fst vmm_dead) = 0 /\ get_key_count (fst vmm_dead) = 0 /\
  traverse (fst vmm_dead) = [].
Proof. exact dead_container_is_inert. Qed.
Print Assumptions C08_moved_from_container_is_inert.

(* all histories with moves, Clear on the moved-from container and re-creation: container invariant for both, versions
   non-negative, a dead container is exactly the inert moved-from state *)
Theorem C08_versions_all_histories :
  forall (M : Z) (ops : list vop), 0 < M < 16 -> VInv M (fst (vrun M ops)) /\ VInv M (snd (vrun M ops)).
Proof. exact versions_all_histories. Qed.
Print Assumptions C08_versions_all_histories.

(* ------------------------------------------------------------------ grow round 2: generated HashMultiMap arithmetic *)
(* the REAL Remove(ConstIterator) (regenerated from HashMultiMap.h; calls into the value array / key table skipped):
   mValueCount - 1, valueVersion + 1, and the iterator it returns is pvMakeIterator(key, the SAME valueIndex, move = TRUE) *)
Theorem C08_gen_remove_returns_moved_iterator_at_same_index :
  forall (cnt ver ri : Z) (rm : bool) (idx : Z), no_wrap (cnt - 1) -> no_wrap ver ->
  Gen_HashMultiMap.Remove_iter cnt ver ri rm idx = (cnt - 1, ver + 1, idx, true).
Proof. exact gen_remove_iter. Qed.
Print Assumptions C08_gen_remove_returns_moved_iterator_at_same_index.

Theorem C08_gen_add_value :
  forall (cnt ver ri : Z) (rm : bool), no_wrap cnt -> no_wrap ver ->
  Gen_HashMultiMap.pvAddValue cnt ver ri rm = (cnt + 1, ver + 1).
Proof. exact gen_add_value. Qed.
Print Assumptions C08_gen_add_value.

Theorem C08_gen_remove_values :
  forall (cnt ver ri : Z) (rm : bool) (count : Z), 0 <= count <= cnt -> no_wrap cnt -> no_wrap ver ->
  Gen_HashMultiMap.pvRemoveValues cnt ver ri rm count = (cnt - count, ver + 1).
Proof. exact gen_remove_values. Qed.
Print Assumptions C08_gen_remove_values.

(* the REAL Clear: nothing at all on a moved-from container (null crew), else count 0 and version + 1 *)
Theorem C08_gen_clear :
  forall (null : bool) (cnt ver ri : Z) (rm : bool), no_wrap ver ->
  Gen_HashMultiMap.Clear null cnt ver ri rm = if null then (cnt, ver) else (0, ver + 1).
Proof. exact gen_clear. Qed.
Print Assumptions C08_gen_clear.

(* the hand model's mValueCount / valueVersion bookkeeping (and the index / move flag of the iterator Remove returns) IS
   the generated code, for Add, Remove, RemoveValues, RemoveKey and Clear on any live container satisfying the invariant *)
Theorem C08_model_counts_via_generated :
  forall (M : Z) (c : vmm), vlive c = true -> no_wrap (snd (fst c)) -> no_wrap (vver c) -> Inv M (fst c) ->
  let m := fst c in
  (forall k t v, (snd (fst (vstep1 M c (OAdd k t v))), vver (vstep1 M c (OAdd k t v))) =
                 Gen_HashMultiMap.pvAddValue (snd m) (vver c) 0 false) /\
  (forall k i e, find k (fst m) = Some e -> (i < length (evals e))%nat ->
     (snd (fst (vstep1 M c (ORemove k i))), vver (vstep1 M c (ORemove k i)), Z.of_nat i, true) =
     Gen_HashMultiMap.Remove_iter (snd m) (vver c) 0 false (Z.of_nat i)) /\
  (forall k e, find k (fst m) = Some e ->
     (snd (fst (vstep1 M c (ORemoveValues k))), vver (vstep1 M c (ORemoveValues k))) =
     Gen_HashMultiMap.pvRemoveValues (snd m) (vver c) 0 false (elen e) /\
     (snd (fst (vstep1 M c (ORemoveKey k))), vver (vstep1 M c (ORemoveKey k))) =
     Gen_HashMultiMap.pvRemoveValues (snd m) (vver c) 0 false (elen e)) /\
  (snd (fst (vstep1 M c OClear)), vver (vstep1 M c OClear)) = Gen_HashMultiMap.Clear false (snd m) (vver c) 0 false.
Proof. exact model_counts_via_generated. Qed.
Print Assumptions C08_model_counts_via_generated.

(* ------------------------------------------------------------------ grow round 3: generated wrapper operator== / erase, version check *)
(* the REAL unordered_multimap::operator== (regenerated from unordered_multimap.h), with its primitives interpreted over two
   model containers (key objects (id, tag) encoded as id*B + tag), IS the hand model's w_eq -- so every theorem about w_eq
   (C08_wrapper_eq_iff_keyed_pairs_permutation ...) is a theorem about the generated code.  Reverting 7146119 (key-count
   quick reject) or 4339d66 (key == test) changes Gen_WrapEq.v and breaks this lemma. *)
Theorem C08_gen_wrapper_eq_refines :
  forall (l r : mm) (B : Z),
  (forall e, In e (fst l) \/ In e (fst r) -> 0 <= etag e < B /\ 0 <= ekey e) ->
  NoDup (keys (fst l)) -> NoDup (keys (fst r)) ->
  gen_eq l r B = w_eq l r.
Proof. exact gen_wrap_eq_refines. Qed.
Print Assumptions C08_gen_wrapper_eq_refines.

(* the REAL unordered_multimap::erase(first, last), for EVERY interpretation of its primitives: *)
(* ... the equal_range of a key removes that key and never clears the container, even if first == begin() and last == end()
   (8a385f6, second defect) *)
Theorem C08_gen_wrapper_erase_whole_key_never_clears :
  forall (it_eqb it_neqb : Z -> Z -> bool) (it_end it_begin : Z) (it_next ev_clear key_of key_count : Z -> Z)
         (mm_make : Z -> Z -> Z) (remove_key remove_value : Z -> Z) (st first last : Z),
  it_eqb first last = false -> it_neqb first it_end = true -> it_eqb (it_next first) last = false ->
  it_eqb first (mm_make (key_of first) 0) = true ->
  it_eqb last (mm_make (key_of first) (key_count (key_of first))) = true ->
  Gen_WrapErase.erase_range it_eqb it_neqb it_end it_begin it_next ev_clear key_of key_count mm_make remove_key remove_value st first last
  = Ok (mm_make (remove_key (key_of first)) 0, st).
Proof. exact gen_erase_range_whole_key_never_clears. Qed.
Print Assumptions C08_gen_wrapper_erase_whole_key_never_clears.

(* ... a longer range that does not start at the first value of its key never removes a key: whole container or
   std::invalid_argument (8a385f6, first defect) *)
Theorem C08_gen_wrapper_erase_mid_key_start :
  forall (it_eqb it_neqb : Z -> Z -> bool) (it_end it_begin : Z) (it_next ev_clear key_of key_count : Z -> Z)
         (mm_make : Z -> Z -> Z) (remove_key remove_value : Z -> Z) (st first last : Z),
  it_eqb first last = false -> it_neqb first it_end = true -> it_eqb (it_next first) last = false ->
  it_eqb first (mm_make (key_of first) 0) = false ->
  Gen_WrapErase.erase_range it_eqb it_neqb it_end it_begin it_next ev_clear key_of key_count mm_make remove_key remove_value st first last
  = if it_eqb first it_begin && it_eqb last it_end then Ok (it_end, ev_clear st) else Exn.
Proof. exact gen_erase_range_mid_key_start. Qed.
Print Assumptions C08_gen_wrapper_erase_mid_key_start.

Theorem C08_gen_wrapper_erase_single_and_empty :
  forall (it_eqb it_neqb : Z -> Z -> bool) (it_end it_begin : Z) (it_next ev_clear key_of key_count : Z -> Z)
         (mm_make : Z -> Z -> Z) (remove_key remove_value : Z -> Z) (st first last : Z),
  (it_eqb first last = true ->
   Gen_WrapErase.erase_range it_eqb it_neqb it_end it_begin it_next ev_clear key_of key_count mm_make remove_key remove_value st first last = Ok (first, st)) /\
  (it_eqb first last = false -> it_neqb first it_end = true -> it_eqb (it_next first) last = true ->
   Gen_WrapErase.erase_range it_eqb it_neqb it_end it_begin it_next ev_clear key_of key_count mm_make remove_key remove_value st first last
   = Ok (if key_count (key_of first) =? 1 then mm_make (remove_key (key_of first)) 0 else remove_value first, st)).
Proof. exact gen_erase_range_single_and_empty. Qed.
Print Assumptions C08_gen_wrapper_erase_single_and_empty.

(* the REAL VersionKeeper::Check (exception and assertion mode): passes iff the counter still holds the stored value *)
Theorem C08_gen_version_check :
  forall (mem : Z -> Z) (ptr ver : Z),
  Gen_VersionCheck.Check_self mem ptr ver = (if negb (ptr =? 0) && (mem ptr =? ver) then Ok tt else Exn) /\
  Gen_VersionCheck_a.Check_self mem ptr ver = (if negb (ptr =? 0) && (mem ptr =? ver) then Ok tt else Stuck).
Proof. exact gen_version_check. Qed.
Print Assumptions C08_gen_version_check.

(* an iterator that passes the generated check after a call still designates the same pair: no value array was touched *)
Theorem C08_checked_iterator_designates_same_pair :
  forall (M : Z) (c : vmm) (o : op) (mem : Z -> Z) (ptr : Z),
  vlive c = true -> NoDup (keys (fst (fst c))) -> mem ptr = vver (vstep1 M c o) ->
  Gen_VersionCheck.Check_self mem ptr (vver c) = Ok tt ->
  (forall k e, find k (fst (fst c)) = Some e ->
     exists e', find k (fst (fst (vstep1 M c o))) = Some e' /\ earr e' = earr e) /\
  all_pairs (fst (fst (vstep1 M c o))) = all_pairs (fst (fst c)).
Proof. exact checked_iterator_designates_same_pair. Qed.
Print Assumptions C08_checked_iterator_designates_same_pair.

(* ------------------------------------------------------------------ grow round 4: generated control skeletons of ArrayBucket *)
(* AddBackCrt (regenerated; element work skipped, every branch and every state-byte write kept): for a null or pooled bucket the
   model's add_back IS what the skeleton computes (which pool, in place, or to the heap: state byte 0) *)
Theorem C08_gen_add_back_skeleton :
  forall (M : Z) (r : repr), 0 < M < 16 -> repr_inv M r ->
  match r with
  | RNull | RFast _ =>
      add_back M r = match gen_add M r with
                     | Ok (_, st', _, cap', cnt') => if st' =? 0 then RHeap cap' cnt' else RFast st'
                     | _ => RStuck
                     end
  | RHeap _ _ => gen_add M r = Ok (tt, -1, -1, 0, 0)
  | RStuck => True
  end.
Proof. exact add_back_via_generated. Qed.
Print Assumptions C08_gen_add_back_skeleton.

(* RemoveBack: assertion, count == 1 -> pvRemoveAll, in-place decrement, shrink rule (count*2 iff 2 < count <= capacity/4) *)
Theorem C08_gen_remove_back_skeleton :
  forall (M : Z) (r : repr), repr_inv M r -> r <> RNull -> 1 <= rcount r -> r_cap r <= 2 ^ 62 ->
  remove_back r =
  match gen_remove M r with
  | Ok (_, st', sh') =>
      if rcount r =? 1 then remove_all r
      else match r with
           | RFast _ => RFast st'
           | RHeap cap cnt => RHeap (if sh' =? -1 then cap else shrink_cap cap sh' (cnt - 1)) (cnt - 1)
           | _ => RStuck
           end
  | _ => RStuck
  end.
Proof. exact remove_back_via_generated. Qed.
Print Assumptions C08_gen_remove_back_skeleton.

(* the copy constructor: state byte = pvMakeState(pvGetFastMemPoolIndex(count), count); the source's byte is not even read *)
Theorem C08_gen_copy_constructor_skeleton :
  forall (M n : Z), 0 < M < 16 -> 0 <= n ->
  match Gen_AB_copy.copy_ctor M 8192 4096 (-1) (-1) n with
  | Ok (_, p', st', ptr') =>
      copy_repr M n = (if n =? 0 then (if p' =? 0 then RNull else RStuck)
                       else if st' =? 0 then RHeap n n else RFast st')
  | _ => n <= M /\ False
  end.
Proof. exact copy_ctor_via_generated. Qed.
Print Assumptions C08_gen_copy_constructor_skeleton.

(* CheckIterator's VersionKeeper::Check(version, allowEmpty) *)
Theorem C08_gen_version_check_cont :
  forall (mem : Z -> Z) (ptr ver version : Z) (allowEmpty : bool), version <> 0 ->
  Gen_VersionCheck.Check_cont mem ptr ver version allowEmpty =
  if allowEmpty && (ptr =? 0) then Ok tt
  else if (ptr =? version) && (ver =? mem version) then Ok tt else Exn.
Proof. exact gen_version_check_cont. Qed.
Print Assumptions C08_gen_version_check_cont.

(* ------------------------------------------------------------------ grow round 5 *)
(* the REAL unordered_multimap::erase(first, last) (regenerated), with iterators interpreted as positions of begin()..end() of a
   model container and the iterators returned by RemoveKey / Remove as markers of the chosen effect, IS the hand model's
   w_erase_range -- so C08_wrapper_erase_range_removes_exactly_the_range is a theorem about the generated code *)
Theorem C08_gen_wrapper_erase_range_refines :
  forall (M : Z) (m : mm), NoDup (keys (fst m)) -> (forall e, In e (fst m) -> 0 <= ekey e) ->
  forall a b : nat, (a <= b <= length (pairs m))%nat ->
  apply_gen_result M m (gen_erase m a b) = w_erase_range M m a b.
Proof. exact gen_erase_range_refines. Qed.
Print Assumptions C08_gen_wrapper_erase_range_refines.

(* the nested map's key-version counter changes iff the call adds / removes a key or is Clear; if it is unchanged the key list
   is unchanged (same keys, same order): a key iterator that passes its version check still designates the same key *)
Theorem C08_key_version_guards_keys :
  forall (M : Z) (m : mm) (o : op), kver_changes M m o = false -> keys (fst (step1 M m o)) = keys (fst m).
Proof. exact key_version_guards_keys. Qed.
Print Assumptions C08_key_version_guards_keys.

(* ------------------------------------------------------------------ grow round 6: generated pvMove; heap capacity in the AddBackCrt skeleton *)
(* the REAL HashMultiMapIterator::pvMove (regenerated; key iterator = number of remaining keys, ++ decrements, value iterator =
   key_begin + index): on every suffix e :: r of every key list it computes exactly the hand model's pv_move -- stay when the
   value iterator is not at the key's end, else skip the keys without values, else the end iterator (null value iterator) *)
Theorem C08_gen_pv_move_refines :
  forall (es : list entry) (W : Z) (pre : list entry) (e : entry) (r : list entry) (vi fuel : nat),
  es = pre ++ e :: r -> (vi <= length (evals e))%nat -> (length es < fuel)%nat ->
  let it' := pv_move (e :: r, vi) in
  gen_pv_move es W fuel (Z.of_nat (length (e :: r))) (k_begin W (Z.of_nat (length (e :: r))) + Z.of_nat vi) =
  Ok (tt, Z.of_nat (length (fst it')),
      match fst it' with [] => 0 | _ => k_begin W (Z.of_nat (length (fst it'))) + Z.of_nat (snd it') end).
Proof. exact gen_pv_move_refines. Qed.
Print Assumptions C08_gen_pv_move_refines.

(* ------------------------------------------------------------------ last round: generated Remove(pairFilter) *)
(* the REAL loop of Remove(const PairFilter&) (regenerated; Remove(iter) as an effect primitive), for EVERY visit trace t (the
   predicate results in visiting order): one (count - 1, version + 1) per visited pair satisfying the predicate, and the returned
   number is exactly that count *)
Theorem C08_gen_remove_if_counts_once_per_matching_pair :
  forall (t : list bool) (cnt ver : Z),
  gen_remove_if t cnt ver =
  Ok (wrapU 64 (Z.of_nat (count_true t)), cnt - Z.of_nat (count_true t), ver + Z.of_nat (count_true t)).
Proof. exact gen_remove_if_spec. Qed.
Print Assumptions C08_gen_remove_if_counts_once_per_matching_pair.

(* ... and over the hand model's visit trace of a live container it is the hand model's step: returned number = count difference,
   mValueCount and valueVersion as after step (version bumped once per removed pair = ver_delta), keys (also the value-less ones)
   unchanged.  That the removed pairs are exactly those satisfying the predicate is C08_remove_if_keeps_exactly_the_rest /
   C08_wrapper_erase_if on the hand model, whose per-key loop produced the trace. *)
Theorem C08_gen_remove_if_refines :
  forall (M : Z) (c : vmm) (p : Z -> Z -> bool), vlive c = true -> no_wrap_count_t (rm_trace p (fst (fst c))) ->
  let t := rm_trace p (fst (fst c)) in
  let c' := vstep1 M c (ORemoveIf p) in
  gen_remove_if t (snd (fst c)) (vver c) = Ok (snd (fst c) - snd (fst c'), snd (fst c'), vver c') /\
  vver c' - vver c = snd (fst c) - snd (fst c') /\
  keys (fst (fst c')) = keys (fst (fst c)).
Proof. exact gen_remove_if_refines. Qed.
Print Assumptions C08_gen_remove_if_refines.

Theorem C08_remove_if_trace_counts_removed_pairs :
  forall (M : Z) (m : mm) (p : Z -> Z -> bool),
  Z.of_nat (count_true (rm_trace p (fst m))) = ver_delta M m (ORemoveIf p).
Proof. exact rm_trace_count. Qed.
Print Assumptions C08_remove_if_trace_counts_removed_pairs.

(* ------------------------------------------------------------------ final round: the heap Array behind the AddBackCrt / RemoveBack skeletons *)
(* the heap branch that C08_gen_add_back_skeleton leaves to the Array: the REAL Array::AddBackCrt / pvAddBackNogrow / pvAddBackGrow /
   pvGrowCapacity (regenerated, count and capacity of mData as scalars) composed with the generated Settings::GrowCapacity is the
   model's add_back on a heap array -- in place below the capacity, else GrowCapacity(capacity, count + 1) and Reset *)
Theorem C08_gen_heap_add_back :
  forall (M cnt cap : Z), 1 <= cnt <= cap -> cap < 2 ^ 62 ->
  match gen_heap_add cnt cap with
  | Ok (_, cnt', cap') => add_back M (RHeap cap cnt) = RHeap cap' cnt'
  | _ => False
  end.
Proof. exact heap_add_back_via_generated. Qed.
Print Assumptions C08_gen_heap_add_back.

(* the heap branch of RemoveBack: the REAL Array::RemoveBack (count - 1) and, when the RemoveBack skeleton decides to shrink,
   the REAL Array::Shrink(count * 2) (Reset path) are the model's remove_back on a heap array *)
Theorem C08_gen_heap_remove_back :
  forall (cap cnt : Z), 2 <= cnt <= cap -> cap < 2 ^ 62 ->
  match gen_heap_remove_back cnt cap with
  | Ok (_, c1) =>
      let '(c2, k2) := if (2 <? cnt) && (cnt <=? cap / 4) then gen_heap_shrink c1 cap (cnt * 2) else (c1, cap) in
      remove_back (RHeap cap cnt) = RHeap k2 c2
  | _ => False
  end.
Proof. exact heap_remove_back_via_generated. Qed.
Print Assumptions C08_gen_heap_remove_back.
