(* C05 -- hand-written executable L1 model of momo::Array's value-argument handling (include/momo/Array.h):
   aliasing test pvIndexOf, temporary copy (ArrayItemHandler) before growth, pvAddBackGrow variants, SetCount,
   Reserve / Shrink, and the allocation count.  Element shifting is ArrayShift.v; the growth policy is the
   cxx2coq-GENERATED Gen_Grow.GrowCapacity (regenerated from Array.h on every run).

   A reference argument is ArgRef i = "the element that is at index i when the call starts".  Growth moves the
   items to a new buffer: any use of the reference `item` after that is reported as Err EDangling. *)
From Coq Require Import List Arith Lia Bool ZArith.
From MomoCommon Require GenPrelude.
From C05 Require Import ArrayShift.
From C05 Require Gen_Grow.
Import ListNotations.

Section Array.
Variable V : Type.
Variable self_move : V -> option V.
Variable after_move : V -> option V.
Variable ic : nat.                  (* Settings::internalCapacity *)
Variable growOnReserve : bool.      (* Settings::growOnReserve *)
Variable nothrowMove : bool.        (* ItemTraits::isNothrowMoveConstructible *)
Variable nothrowReloc : bool.       (* ItemTraits::isNothrowRelocatable *)
Variable canRealloc : bool.         (* MemManagerProxy::canReallocate && ItemTraits::isTriviallyRelocatable *)

Notation arr := (arr V).
Notation arg := (arg V).

(* body = what ArrayShifter sees; allocs = number of Allocate/Reallocate calls made so far *)
Record array := mkArray { body : arr; allocs : nat }.

Definition cause_add : Z := 0.      (* ArrayGrowCause::add *)
Definition cause_reserve : Z := 1.  (* ArrayGrowCause::reserve *)

(* Array::pvGrowCapacity: Settings::GrowCapacity + MOMO_ASSERT(newCapacity >= minNewCapacity) *)
Definition grow_capacity (capacity minNew : nat) (cause : Z) (linear : bool) : res nat :=
  match Gen_Grow.GrowCapacity growOnReserve (Z.of_nat capacity) (Z.of_nat minNew) cause linear with
  | GenPrelude.Ok r => if (Z.of_nat minNew <=? r)%Z then Ok (Z.to_nat r) else Err EGrow
  | _ => Err EGrow
  end.

(* new storage of [newCap] slots, items relocated unchanged (Data::Reallocate or Data::Reset + Relocate) *)
Definition regrow (b : arr) (newCap : nat) : arr := mkArr (cells b ++ raws (newCap - cap b)) (cnt b).

(* Array::pvGrow(minNewCapacity, growCause) *)
Definition pv_grow (a : array) (minNew : nat) (cause : Z) : res array :=
  let initCapacity := cap (body a) in
  _lin <- grow_capacity initCapacity minNew cause true ;;
  exp <- grow_capacity initCapacity minNew cause false ;;
  Ok (mkArray (regrow (body a) exp) (S (allocs a))).

(* Array::pvIndexOf(item): index of the referenced element if its address is inside [items, items + count) *)
Definition pv_index_of (a : array) (x : arg) : option nat :=
  match x with ArgVal _ => None | ArgRef p => if p <? cnt (body a) then Some p else None end.
(* index <= itemIndex && itemIndex < initCount   (itemIndex = maxSize when not inside) *)
Definition alias_at_or_after (index initCount : nat) (itemIndex : option nat) : bool :=
  match itemIndex with Some p => (index <=? p) && (p <? initCount) | None => false end.

(* move-construct a temporary from the argument (the source is left moved-from) *)
Definition take_arg (b : arr) (x : arg) : res (option V * arr) :=
  match x with
  | ArgVal v => Ok (Some v, b)
  | ArgRef p => o <- obj_at V (cells b) p ;; Ok (o, upd V b p (src_after V after_move o))
  end.
(* the ArrayItemHandler temporary as a source: an object outside the array (copied count times, or moved once) *)
Definition source_temp (o : option V) : source V :=
  mkSource V (fun _ dst s => assign_val V s o dst) (fun _ s => add_back_ctor V s o).
(* `item` used after the buffer was replaced *)
Definition stale_arg (x : arg) : res (option V) := match x with ArgVal v => Ok (Some v) | ArgRef _ => Err EDangling end.

Definition with_body (a : array) (r : res arr) : res array := b <- r ;; Ok (mkArray b (allocs a)).

(* ---- void Insert(size_t index, size_t count, const Item& item)   (and Insert(index, const Item&) = count 1) ---- *)
Definition array_insert (a : array) (index count : nat) (x : arg) : res array :=
  let initCount := cnt (body a) in
  (* if (count > maxSize - initCount) throw std::bad_array_new_length();  [c5d1be1] -- cannot happen in nat *)
  let newCount := initCount + count in
  let grow := cap (body a) <? newCount in
  let itemIndex := pv_index_of a x in
  if grow || alias_at_or_after index initCount itemIndex then
    v <- read_arg V (body a) x ;;                                  (* ItemHandler itemHandler(memManager, Creator<const Item&>(item)) *)
    a1 <- (if grow then pv_grow a newCount cause_add else Ok a) ;; (* if (grow) pvGrow(newCount, add) *)
    with_body a1 (insert_nogrow_gen V self_move after_move true (source_temp v) (body a1) index count)
  else
    with_body a (insert_nogrow_copies V self_move after_move true (body a) index count x).

(* ---- void Insert(size_t index, Item&& item) ---- *)
Definition array_insert_rvalue (a : array) (index : nat) (x : arg) : res array :=
  let initCount := cnt (body a) in
  let grow := cap (body a) <? initCount + 1 in
  let itemIndex := pv_index_of a x in
  if grow || alias_at_or_after index initCount itemIndex then
    (* InsertVar -> InsertCrt: ItemHandler move-constructs the temporary; if (newCount > capacity) pvGrow *)
    vb <- take_arg (body a) x ;;
    let (v, b0) := vb in
    let a0 := mkArray b0 (allocs a) in
    a1 <- (if cap (body a0) <? cnt (body a0) + 1 then pv_grow a0 (cnt (body a0) + 1) cause_add else Ok a0) ;;
    with_body a1 (insert_nogrow_gen V self_move after_move true (source_temp v) (body a1) index 1)
  else
    with_body a (insert_nogrow_rvalue V self_move after_move true (body a) index x).

(* ---- Insert(index, begin, end) over a forward range that is not inside the array (pvInsert) ---- *)
Definition array_insert_range (a : array) (index : nat) (vs : list V) : res array :=
  let count := length vs in
  let newCount := cnt (body a) + count in
  a1 <- (if cap (body a) <? newCount then pv_grow a newCount cause_add else Ok a) ;;
  with_body a1 (insert_nogrow_range V self_move after_move true (body a1) index (map (@ArgVal V) vs)).

(* ---- void AddBack(const Item& item) ---- *)
Definition array_add_back (a : array) (x : arg) : res array :=
  if cnt (body a) <? cap (body a) then
    v <- read_arg V (body a) x ;; with_body a (add_back_ctor V (body a) v)
  else if nothrowReloc then
    (* pvAddBackGrow(const Item&, true_type): copy into itemBuffer, pvGrow, relocate the copy to the end *)
    v <- read_arg V (body a) x ;;
    a1 <- pv_grow a (cnt (body a) + 1) cause_add ;;
    with_body a1 (add_back_ctor V (body a1) v)
  else
    (* generic pvAddBackGrow(creator): Reset(newCapacity): allocate, RelocateCreate = copy the items,
       then run the creator (item still refers to the intact old buffer), then destroy the old items *)
    newCap <- grow_capacity (cap (body a)) (cnt (body a) + 1) cause_add false ;;
    v <- read_arg V (body a) x ;;
    with_body (mkArray (body a) (S (allocs a))) (add_back_ctor V (regrow (body a) newCap) v).

(* ---- void AddBack(Item&& item) ---- *)
Definition array_add_back_rvalue (a : array) (x : arg) : res array :=
  if cnt (body a) <? cap (body a) then
    vb <- take_arg (body a) x ;; let (v, b0) := vb in with_body a (add_back_ctor V b0 v)
  else if nothrowMove then
    (* pvAddBackGrow(Item&&, true_type): itemIndex = pvIndexOf(item); pvGrow; construct from
       (itemIndex == maxSize) ? item : items[itemIndex] *)
    let itemIndex := pv_index_of a x in
    a1 <- pv_grow a (cnt (body a) + 1) cause_add ;;
    match itemIndex with
    | None => v <- stale_arg x ;; with_body a1 (add_back_ctor V (body a1) v)
    | Some q => vb <- take_arg (body a1) (ArgRef q) ;; let (v, b0) := vb in with_body a1 (add_back_ctor V b0 v)
    end
  else
    newCap <- grow_capacity (cap (body a)) (cnt (body a) + 1) cause_add false ;;
    if nothrowReloc then
      (* RelocateCreate, nothrow relocatable: run the creator first (moves out of the old buffer), then relocate *)
      vb <- take_arg (body a) x ;; let (v, b0) := vb in
      with_body (mkArray b0 (S (allocs a))) (add_back_ctor V (regrow b0 newCap) v)
    else
      (* copy the items to the new buffer, then the creator moves from the old buffer, which is then destroyed *)
      v <- read_arg V (body a) x ;;
      with_body (mkArray (body a) (S (allocs a))) (add_back_ctor V (regrow (body a) newCap) v).

(* ---- void SetCount(size_t count, const Item& item) -> SetCountCrt ---- *)
Definition array_set_count (a : array) (newCount : nat) (x : arg) : res array :=
  let initCount := cnt (body a) in
  let initCapacity := cap (body a) in
  if newCount <=? initCount then with_body a (remove_back V (body a) (initCount - newCount))
  else if newCount <=? initCapacity then
    (* for (index = initCount; index < newCount; ++index) itemMultiCreator(items + index); SetCount(newCount) *)
    with_body a (for_up (S initCapacity) initCount newCount
                   (fun _ b => v <- read_arg V b x ;; add_back_ctor V b v) (body a))
  else
    (* Reset(newCapacity, newCount, itemsCreator): the new items are created from `item` while the old buffer
       is intact, then the old items are relocated *)
    newCap <- grow_capacity initCapacity newCount cause_reserve false ;;
    v <- read_arg V (body a) x ;;
    with_body (mkArray (body a) (S (allocs a)))
      (for_up (S newCap) initCount newCount (fun _ b => add_back_ctor V b v) (regrow (body a) newCap)).

(* ---- void Reserve(size_t capacity) ---- *)
Definition array_reserve (a : array) (capacity : nat) : res array :=
  if cap (body a) <? capacity then pv_grow a capacity cause_reserve else Ok a.

(* ---- void Shrink(size_t capacity) ---- *)
Definition array_shrink (a : array) (capacity : nat) : res array :=
  let initCapacity := cap (body a) in
  if (initCapacity <=? capacity) || (initCapacity =? ic) then Ok a else
  let count := cnt (body a) in
  let capacity := if capacity <? count then count else capacity in
  if ic <? capacity then
    (* Data::Reallocate(capacity, capacity) (MemManagerProxy::Reallocate returns the same block when the size is
       unchanged) or Data::Reset(capacity): a new block even when the size is unchanged *)
    Ok (mkArray (mkArr (firstn capacity (cells (body a))) count)
                (if canRealloc && (capacity =? initCapacity) then allocs a else S (allocs a)))
  else Ok (mkArray (mkArr (firstn ic (cells (body a))) count) (allocs a)).      (* back to the internal buffer *)

Definition array_remove (a : array) (index count : nat) : res array :=
  with_body a (remove_range V self_move after_move true (body a) index count).
Definition array_remove_filter (a : array) (p : V -> bool) : res array :=
  r <- remove_filter V self_move after_move p (body a) ;; Ok (mkArray (fst r) (allocs a)).
(* array[i] = v (plain assignment of a fresh value; used by the scripts to refill a moved-from slot) *)
Definition array_set (a : array) (i : nat) (v : V) : res array := with_body a (assign_val V (body a) (Some v) i).

(* stdish::vector::assign(count, value):  mArray = Array(count, value, memManager)  -- the new array is built
   from `value` while the old one is intact, then move-assigned *)
Definition array_assign (a : array) (count : nat) (x : arg) : res array :=
  v <- read_arg V (body a) x ;;
  let newCap := if ic <? count then count else ic in
  Ok (mkArray (mkArr (repeat (mcell v) count ++ raws (newCap - count)) count)
              (if ic <? count then S (allocs a) else allocs a)).

(* stdish::vector::assign(first, last) over a range outside the container: mArray = Array(first, last, memManager) *)
Definition array_assign_range (a : array) (vs : list V) : res array :=
  let count := length vs in
  let newCap := if ic <? count then count else ic in
  Ok (mkArray (mkArr (lives vs ++ raws (newCap - count)) count)
              (if ic <? count then S (allocs a) else allocs a)).

(* ---- void RemoveBack(size_t count): MOMO_CHECK(count <= GetCount()); pvRemoveBack(count) ---- *)
Definition array_remove_back (a : array) (count : nat) : res array :=
  with_body a (remove_back V (body a) count).

(* ---- void Clear(bool shrink): shrink ? mData.Clear() (pvDestroy: destroy the items, deallocate; pvInit: back to the
   internal buffer) : pvRemoveBack(GetCount()) ---- *)
Definition array_clear (a : array) (shrink : bool) : res array :=
  if shrink then
    c' <- destroy V (cells (body a)) 0 (cnt (body a)) ;;
    Ok (mkArray (mkArr (raws ic) 0) (allocs a))
  else with_body a (remove_back V (body a) (cnt (body a))).

(* ---- Insert(index, begin, end) over an INPUT (non-forward) iterator range: ArrayShifter::Insert inserts the items one
   by one:  for (iter = begin; iter != end; ++iter, ++count) array.InsertCrt(index + count, IterCreator( *iter ))
   InsertCrt = ItemHandler temporary; if (newCount > capacity) pvGrow(newCount, add); InsertNogrow(index, Item&&) ---- *)
Definition array_insert_crt (a : array) (index : nat) (v : V) : res array :=
  let newCount := cnt (body a) + 1 in
  a1 <- (if cap (body a) <? newCount then pv_grow a newCount cause_add else Ok a) ;;
  with_body a1 (insert_nogrow_gen V self_move after_move true (source_temp (Some v)) (body a1) index 1).
Fixpoint array_insert_input (a : array) (index : nat) (vs : list V) : res array :=
  match vs with
  | [] => Ok a
  | v :: t => a1 <- array_insert_crt a index v ;; array_insert_input a1 (S index) t
  end.

(* ---- copy / move / swap of whole arrays ----
   Array(const Array& array) = Array(array, /*shrink*/ true): Data(count): external storage of exactly count slots if count >
   internalCapacity, else the internal buffer; the items are copy-constructed (a copy of a moved-from object is moved-from).
   operator=(const Array&) is  *this = Array(array). *)
Definition array_copy (a : array) : array :=
  let count := cnt (body a) in
  let newCap := if ic <? count then count else ic in
  mkArray (mkArr (firstn count (cells (body a)) ++ raws (newCap - count)) count)
          (if ic <? count then S (allocs a) else allocs a).
(* Array(Array&&): Data(Data&&): external storage is taken over, internal items are relocated; the source becomes empty (pvInit) *)
Definition array_move_construct (a : array) : array * array := (a, mkArray (mkArr (raws ic) 0) (allocs a)).
(* operator=(Array&&): pvDestroy of the target (items destroyed, storage freed), then as the move constructor *)
Definition array_move_assign (target source : array) : res (array * array) :=
  _c <- destroy V (cells (body target)) 0 (cnt (body target)) ;;
  Ok (mkArray (body source) (allocs target), mkArray (mkArr (raws ic) 0) (allocs target)).
(* Swap: std::swap(mData, array.mData) *)
Definition array_swap (a b : array) : array * array := (b, a).
(* the scripts' round trips: `C d(c); c.Swap(d);` and `C d(std::move(c)); c = std::move(d);` *)
Definition array_copy_round (a : array) : res array := Ok (fst (array_swap a (array_copy a))).
Definition array_move_round (a : array) : res array :=
  let (d, c0) := array_move_construct a in
  r <- array_move_assign c0 d ;; Ok (fst r).

Definition array_empty : array := mkArray (mkArr (raws ic) 0) 0.

(* ---- scripts ---- *)
Inductive op :=
| OAddBack (x : arg) | OAddBackR (x : arg)
| OInsert (index count : nat) (x : arg) | OInsertR (index : nat) (x : arg) | OInsertRange (index : nat) (vs : list V)
| ORemove (index count : nat) | ORemoveFilter (p : V -> bool)
| OSetCount (n : nat) (x : arg) | OAssign (n : nat) (x : arg) | OAssignRange (vs : list V)
| ORemoveBack (n : nat) | OClear (shrink : bool) | OInsertInput (index : nat) (vs : list V) | OReserve (n : nat) | OShrink (n : nat) | OSet (i : nat) (v : V)
| OCopyRound | OMoveRound.

Definition run_op (a : array) (o : op) : res array :=
  match o with
  | OAddBack x => array_add_back a x
  | OAddBackR x => array_add_back_rvalue a x
  | OInsert i c x => array_insert a i c x
  | OInsertR i x => array_insert_rvalue a i x
  | OInsertRange i vs => array_insert_range a i vs
  | ORemove i c => array_remove a i c
  | ORemoveFilter p => array_remove_filter a p
  | OSetCount n x => array_set_count a n x
  | OAssign n x => array_assign a n x
  | OAssignRange vs => array_assign_range a vs
  | ORemoveBack n => array_remove_back a n
  | OClear b => array_clear a b
  | OInsertInput i vs => array_insert_input a i vs
  | OReserve n => array_reserve a n
  | OShrink n => array_shrink a n
  | OSet i v => array_set a i v
  | OCopyRound => array_copy_round a
  | OMoveRound => array_move_round a
  end.

(* the first cnt cells, as the sequence an observer sees (None = a moved-from element) *)
Definition observe (a : array) : list (option V) :=
  map (fun c => match c with Live v => Some v | _ => None end) (firstn (cnt (body a)) (cells (body a))).
End Array.

(* ================================================================== SegmentedArray: a thin layer
   SegmentedArray (SegmentedArray.h) is an index-addressed array whose storage is a list of segments; growing the
   capacity appends segments and NEVER moves an existing item (C16 proves the address arithmetic).  For the element
   SEQUENCE only this matters: operator[] addresses cell i, Reserve appends raw cells and leaves every existing cell
   where it is, and Insert / Remove are the SAME ArrayShifter code (ArrayShifter<SegmentedArray>). *)
Section Seg.
Variable V : Type.
Variable self_move : V -> option V.
Variable after_move : V -> option V.
(* capacity after reserving at least n items: Settings::GetIndex(segCount, 0) for the first segCount covering n *)
Variable seg_cap : nat -> nat.

(* Reserve(capacity): if (capacity > GetCapacity()) pvIncCapacity: new segments, nothing is relocated *)
Definition seg_reserve (b : arr V) (capacity : nat) : arr V :=
  if cap b <? capacity then mkArr (cells b ++ raws (seg_cap capacity - cap b)) (cnt b) else b.

(* Insert(index, count, item): ItemHandler itemHandler(item); Reserve(mCount + count); ArrayShifter::InsertNogrow *)
Definition seg_insert (b : arr V) (index count : nat) (x : arg V) : res (arr V) :=
  v <- read_arg V b x ;;
  insert_nogrow_gen V self_move after_move true (source_temp V v) (seg_reserve b (cnt b + count)) index count.
(* Insert(index, Item&&) = InsertVar -> InsertCrt: ItemHandler (move); Reserve(mCount + 1); InsertNogrow(Item&&) *)
Definition seg_insert_rvalue (b : arr V) (index : nat) (x : arg V) : res (arr V) :=
  vb <- take_arg V after_move b x ;;
  let (v, b0) := vb in
  insert_nogrow_gen V self_move after_move true (source_temp V v) (seg_reserve b0 (cnt b0 + 1)) index 1.
(* Remove(index, count) / Remove(filter): ArrayShifter::Remove *)
Definition seg_remove (b : arr V) (index count : nat) : res (arr V) :=
  remove_range V self_move after_move true b index count.
(* SetCount(count, item): pvDecCount destroys from the back; pvIncCount: pvIncCapacity, then constructs in place *)
Definition seg_set_count (b : arr V) (newCount : nat) (x : arg V) : res (arr V) :=
  if newCount <=? cnt b then remove_back V b (cnt b - newCount)
  else
    let b1 := seg_reserve b newCount in
    for_up (S (cap b1)) (cnt b) newCount (fun _ b' => v <- read_arg V b' x ;; add_back_ctor V b' v) b1.
End Seg.
