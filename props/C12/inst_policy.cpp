// instantiation TU for cxx2coq (C12): HashBucketOpen2N2<3>::CalcCapacity (what the default HashTraitsStd::CalcCapacity delegates to)
#include "momo/details/HashBucketOpen2N2.h"
namespace c12pol {
inline size_t use(size_t bc) { return momo::HashBucketOpen2N2<3>::CalcCapacity(bc, 3); }
}
