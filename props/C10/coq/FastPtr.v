(* C10 -- pointer-level model of the joining path of TreeSet::pvMergeFast (TreeSet.h:1644-1730) and of the leaf removal
   that takes the separator out of its node (TreeNode::Remove / pvRemove, TreeNode.h:249-357).
   Explicit cells (parent pointer, items, children) for: the root of the lower tree (tree 1), the nodes stacked on top
   of it, the spine of the taller tree (tree 2) from the level of root 1 upwards, and the leaf holding the separator.
   Everything hanging off these cells is an opaque subtree `Sub items` (never re-parented by this code).
   A heap is an association list; `free` removes a cell, so a pointer to a freed node is a lookup that fails. *)
From Coq Require Import ZArith Bool List Lia Arith.
From C10 Require Import Machine.
Import ListNotations.
Local Open Scope Z_scope.

Inductive ref := Sub (l : list Z) | Ptr (a : nat).
Record cell := C { c_parent : option nat; c_items : list Z; c_kids : list ref }.
Definition heap := list (nat * cell).

Fixpoint lookup (h : heap) (a : nat) : option cell :=
  match h with [] => None | (b, c) :: t => if Nat.eqb b a then Some c else lookup t a end.
Definition upd (h : heap) (a : nat) (c : cell) : heap := (a, c) :: h.
Definition free (h : heap) (a : nat) : heap := filter (fun p => negb (Nat.eqb (fst p) a)) h.
Definition set_parent (h : heap) (a : nat) (p : option nat) : heap :=
  match lookup h a with Some c => upd h a (C p (c_items c) (c_kids c)) | None => h end.

Lemma lookup_upd_same h a c : lookup (upd h a c) a = Some c.
Proof. simpl. rewrite Nat.eqb_refl. reflexivity. Qed.
Lemma lookup_upd_other h a b c : a <> b -> lookup (upd h a c) b = lookup h b.
Proof. intros H. simpl. destruct (Nat.eqb_spec a b); [contradiction|reflexivity]. Qed.
Lemma lookup_free_same h a : lookup (free h a) a = None.
Proof.
  induction h as [|[b c] t IH]; simpl; [reflexivity|]. destruct (Nat.eqb_spec b a); simpl; [exact IH|].
  destruct (Nat.eqb_spec b a); [contradiction|exact IH].
Qed.
Lemma lookup_free_other h a b : a <> b -> lookup (free h a) b = lookup h b.
Proof.
  intros H. induction h as [|[x c] t IH]; simpl; [reflexivity|]. destruct (Nat.eqb_spec x a); simpl.
  - subst. destruct (Nat.eqb_spec a b); [contradiction|exact IH].
  - destruct (Nat.eqb_spec x b); [reflexivity|exact IH].
Qed.

(* ---------------------------------------------------------------- the separator leaves its leaf
   TreeNode::Remove(params, index, remover) with remover = Relocate(item -> joining node).
   continuous node (only for nothrow-shiftable = nothrow-relocatable categories): ShiftNothrow rotates the item to the
   back (item -> buffer, the items behind it one to the left, buffer -> last slot), the remover relocates it from the last
   slot; if the remover throws, the reverse ShiftNothrow rotates it back.   non-continuous node (copy-only items): the
   remover is applied in place and only the index table is permuted. *)
Definition rot_events (x : Z) (seg : list Z) : list ev :=
  [EDtor moved; EMove x] ++ flat_map (fun y => [EDtor moved; EMove y]) (rev seg) ++ [EDtor moved; EMove x].
Definition emit_list (w : world) (l : list ev) : world := W (sf w) (sa w) (sc w) (l ++ tr w).

Definition leaf_remove (c : cat) (w : world) (items : list Z) (idx : nat) : world * option (Z * list Z) :=
  let x := nth idx items 0 in
  let rest := firstn idx items ++ skipn (S idx) items in
  if nothrow_reloc c then
    let seg := skipn (S idx) items in
    let w1 := match seg with [] => w | _ => emit_list w (rot_events x seg) end in      (* if (shift > 0) *)
    match relocate c w1 x with
    | (w2, Some e) => (w2, Some (e, rest))
    | (w2, None) => (match seg with [] => w2 | _ => emit_list w2 (rot_events x seg) end, None)   (* rotate back, rethrow *)
    end
  else
    match relocate c w x with
    | (w1, Some e) => (w1, Some (e, rest))
    | (w1, None) => (w1, None)
    end.

(* ---------------------------------------------------------------- pvMergeFast on the heap *)
Inductive climbres :=
| Joined (h : heap) (w : world) (join top : nat) (fresh : list nat)
| Threw (h : heap) (w : world)
| Broken.                      (* a pointer led to no cell / ran out of fresh addresses or fuel: excluded by the theorems *)

(* while (true) { node2 = node2->GetParent(); if (node2 && node2->GetCount() < nodeMaxCapacity) break;
                  newRoot = Node::Create(..); newRoot->SetChild(0, rootNode1); rootNode1->SetParent(newRoot); rootNode1 = newRoot;
                  if (!node2) { node2 = rootNode1; break; } } *)
Fixpoint climb (fuel : nat) (maxcap : nat) (h : heap) (w : world) (node2 top : nat) (fresh : list nat) : climbres :=
  match fuel with
  | O => Broken
  | S f =>
    match lookup h node2 with
    | None => Broken
    | Some c2 =>
      let p := c_parent c2 in
      let room := match p with
                  | Some pa => match lookup h pa with Some pc => Nat.ltb (length (c_items pc)) maxcap | None => false end
                  | None => false end in
      match p, room with
      | Some pa, true => Joined h w pa top fresh
      | _, _ =>
        match step_alloc w with
        | None => Threw h (fail_alloc w)
        | Some w1 =>
          match fresh with
          | [] => Broken
          | a :: fr =>
            let h1 := set_parent (upd h a (C None [] [Ptr top])) top (Some a) in
            match p with
            | None => Joined h1 w1 a a fr
            | Some pa => climb f maxcap h1 w1 pa a fr
            end
          end
        end
      end
    end
  end.

(* catch (...) { node1 = root1->GetParent(); root1->SetParent(nullptr); while (node1) { next = node1->GetParent(); node1->Destroy(); node1 = next; } } *)
Fixpoint destroy_up (fuel : nat) (h : heap) (n : option nat) : heap :=
  match fuel, n with
  | S f, Some a => match lookup h a with
                   | Some c => destroy_up f (free h a) (c_parent c)
                   | None => h end
  | _, _ => h
  end.
Definition cleanup (fuel : nat) (h : heap) (root1 : nat) : heap :=
  match lookup h root1 with
  | Some c => destroy_up fuel (set_parent h root1 None) (c_parent c)
  | None => h
  end.

Definition set_nth {A} (l : list A) (i : nat) (x : A) : list A := firstn i l ++ x :: skipn (S i) l.
Definition insert_at {A} (l : list A) (i : nat) (x : A) : list A := firstn i l ++ x :: skipn i l.

Inductive fres := FOk (h : heap) (newroot : nat) | FThrow (h : heap) | FBroken.

(* root1 / root2: the roots of the lower / taller tree; start2: the node of tree 2's boundary spine at the height of root1;
   leaf1: the leaf of tree 1 that holds the separator (its last item, or its first when swap) *)
Definition merge_fast_ptr (c : cat) (w : world) (h : heap) (root1 root2 start2 leaf1 : nat) (swap : bool)
  (maxcap fuel : nat) (fresh : list nat) : world * fres :=
  match climb fuel maxcap h w start2 root1 fresh with
  | Broken => (w, FBroken)
  | Threw h1 w1 => (w1, FThrow (cleanup fuel h1 root1))
  | Joined h1 w1 join top _ =>
    match lookup h1 leaf1, lookup h1 join with
    | Some lc, Some jc0 =>
      let idx1 := if swap then O else (length (c_items lc) - 1)%nat in
      match leaf_remove c w1 (c_items lc) idx1 with
      | (w2, None) => (w2, FThrow (cleanup fuel h1 root1))
      | (w2, Some (sep, items1)) =>
        let h2 := upd h1 leaf1 (C (c_parent lc) items1 (c_kids lc)) in
        match lookup h2 join with
        | None => (w2, FBroken)
        | Some jc =>
          (* after the try block: nothing can throw *)
          let cnt := length (c_items jc) in
          let idx := if swap then cnt else O in
          let child2 := nth idx (c_kids jc) (Sub []) in
          (* AcceptBackItem(idx): the item goes to position idx, children idx+1.. move one to the right *)
          let items' := insert_at (c_items jc) idx sep in
          let kids1 := firstn (S idx) (c_kids jc) ++ nth (S idx) (c_kids jc) (Sub []) :: skipn (S idx) (c_kids jc) in
          if Nat.eqb join top then
            let kids' := set_nth (set_nth kids1 (if swap then 1 else 0)%nat child2) (if swap then 0 else 1)%nat (Ptr root2) in
            let h3 := upd h2 join (C (c_parent jc) items' kids') in
            (w2, FOk (set_parent h3 root2 (Some join)) top)
          else
            let cnt' := S cnt in
            let kids' := set_nth (set_nth kids1 (if swap then cnt' else 0)%nat (Ptr top)) (if swap then cnt' - 1 else 1)%nat child2 in
            let h3 := upd h2 join (C (c_parent jc) items' kids') in
            (w2, FOk (set_parent h3 top (Some join)) root2)
        end
      end
    | _, _ => (w1, FBroken)
    end
  end.

(* ---------------------------------------------------------------- structural validity and in-order contents *)
Fixpoint interleave (ks : list (list Z)) (is : list Z) : list Z :=
  match ks, is with
  | k :: ks', i :: is' => k ++ i :: interleave ks' is'
  | k :: _, [] => k
  | [], _ => is
  end.

Fixpoint inorder (fuel : nat) (h : heap) (r : ref) : list Z :=
  match r with
  | Sub l => l
  | Ptr a => match fuel with
             | O => []
             | S f => match lookup h a with
                      | None => []
                      | Some c => match c_kids c with
                                  | [] => c_items c
                                  | ks => interleave (map (inorder f h) ks) (c_items c) end
                      end
             end
  end.

(* every explicit cell below r exists, points back to its parent, has count+1 children (or none: a leaf) and at most
   maxcap items *)
Fixpoint wfb (fuel : nat) (maxcap : nat) (h : heap) (r : ref) (par : option nat) : bool :=
  match r with
  | Sub _ => true
  | Ptr a => match fuel with
             | O => false
             | S f => match lookup h a with
                      | None => false
                      | Some c =>
                        (match c_parent c, par with Some x, Some y => Nat.eqb x y | None, None => true | _, _ => false end)
                        && Nat.leb (length (c_items c)) maxcap
                        && (match c_kids c with [] => true | ks => Nat.eqb (length ks) (S (length (c_items c))) end)
                        && forallb (fun k => wfb f maxcap h k (Some a)) (c_kids c)
                      end
             end
  end.
