// C01 implementation side (shared by the harness TUs): the REAL momo::HashSet / HashMap driven by op scripts,
// same case format and output format as ocaml/driver.ml, plus a std::map twin as an independent oracle.
#include "private_access.h"
#define MOMO_INCLUDE_OLD_HASH_BUCKETS
#include "momo/HashSet.h"
#include "momo/HashMap.h"

typedef unsigned long long ull;

static int g_hash_mode = 0;        // hash distribution (must agree with HashInst.hash_fn)
static long g_fail = -1;           // >= 0: the hash functor throws when this countdown reaches 0
static size_t g_logStart = 4;
static bool g_info = false;
static bool g_alloc_fail = false;  // the next allocation through VMem throws std::bad_alloc (refused bucket array)
struct VMem
{
	explicit VMem() noexcept {}
	VMem(VMem&&) = default;
	VMem(const VMem&) = default;
	~VMem() = default;
	VMem& operator=(const VMem&) = delete;
	void* Allocate(size_t size) { if (g_alloc_fail) { g_alloc_fail = false; throw std::bad_alloc(); } return operator new(size); }
	void Deallocate(void* ptr, size_t) noexcept { operator delete(ptr); }
};
static long g_copy_fail = 0;      // > 0: the copy constructor of a copy-only key throws when this countdown reaches 0
struct CreatorFail : std::exception { const char* what() const noexcept override { return "CreatorFail"; } };
struct HashFail : std::exception { const char* what() const noexcept override { return "HashFail"; } };

static inline size_t c01_hash(uint32_t k)
{
	switch (g_hash_mode)
	{
	case 0: return size_t(k);
	case 1: return size_t(12345);
	case 2: return size_t(k & 7u);
	case 3: return size_t(k & 255u) << 56;
	case 4: return size_t(k) * size_t(11400714819323198485ull);
	default: return size_t(k) << 5;
	}
}

// element: SZ bytes, alignment AL; the first min(4,SZ) bytes are the id (== and hash look at the id only),
// the next 4 bytes (if SZ >= 8) are a tag that == and hash ignore.  CAT 0: trivially copyable,
// CAT 1: user-provided noexcept move/copy (not trivially relocatable), CAT 2: copy-only, copy may throw (never does)
template<size_t SZ, size_t AL, int CAT> struct ElemBase
{
	static const size_t idBytes = SZ < 4 ? SZ : 4;
	static const bool hasTag = SZ >= 8;
	alignas(AL) unsigned char raw[SZ];
	void set(uint32_t k, uint32_t t) { std::memset(raw, 0xA5, SZ); std::memcpy(raw, &k, idBytes); if (hasTag) std::memcpy(raw + 4, &t, 4); }
	uint32_t id() const { uint32_t k = 0; std::memcpy(&k, raw, idBytes); return k; }
	uint32_t tag() const { uint32_t t = 0; if (hasTag) std::memcpy(&t, raw + 4, 4); return t; }
};
template<size_t SZ, size_t AL, int CAT> struct Elem;
template<size_t SZ, size_t AL> struct Elem<SZ, AL, 0> : ElemBase<SZ, AL, 0>
{
	Elem() { this->set(0, 0); }
	Elem(uint32_t k, uint32_t t) { this->set(k, t); }
};
template<size_t SZ, size_t AL> struct Elem<SZ, AL, 1> : ElemBase<SZ, AL, 1>
{
	Elem() { this->set(0, 0); }
	Elem(uint32_t k, uint32_t t) { this->set(k, t); }
	Elem(const Elem& e) noexcept { std::memcpy(this->raw, e.raw, SZ); }
	Elem(Elem&& e) noexcept { std::memcpy(this->raw, e.raw, SZ); std::memset(e.raw, 0xEE, SZ); }
	Elem& operator=(const Elem& e) noexcept { std::memcpy(this->raw, e.raw, SZ); return *this; }
	Elem& operator=(Elem&& e) noexcept { if (this != &e) { std::memcpy(this->raw, e.raw, SZ); std::memset(e.raw, 0xEE, SZ); } return *this; }
	~Elem() { std::memset(this->raw, 0xDD, SZ); }
};
template<size_t SZ, size_t AL> struct Elem<SZ, AL, 2> : ElemBase<SZ, AL, 2>
{
	Elem() { this->set(0, 0); }
	Elem(uint32_t k, uint32_t t) { this->set(k, t); }
	Elem(const Elem& e) { if (g_copy_fail > 0 && --g_copy_fail == 0) throw CreatorFail(); std::memcpy(this->raw, e.raw, SZ); }   // throws on demand; no move
	Elem& operator=(const Elem& e) { std::memcpy(this->raw, e.raw, SZ); return *this; }
	~Elem() { std::memset(this->raw, 0xDD, SZ); }
};

// uniform access to a key: the Elem family or a plain arithmetic key (library HashTraits, fast-hashable)
template<class K> struct KeyOps
{
	static const bool hasTag = K::hasTag;
	static K mk(uint32_t k, uint32_t t) { return K(k, t); }
	static uint32_t id(const K& e) { return e.id(); }
	static uint32_t tag(const K& e) { return e.tag(); }
};
template<> struct KeyOps<uint32_t>
{
	static const bool hasTag = false;
	static uint32_t mk(uint32_t k, uint32_t) { return k; }
	static uint32_t id(const uint32_t& e) { return e; }
	static uint32_t tag(const uint32_t&) { return 0; }
};

// which bucket class did the configuration REALLY instantiate?
template<class B> struct BucketTag { static std::string name() { return "?"; } };
template<class IT> struct BucketTag<momo::internal::BucketOpen8<IT>> { static std::string name() { return "Open8"; } };
template<class IT, size_t N, bool P> struct BucketTag<momo::internal::BucketOpen2N2<IT, N, P>> { static std::string name() { return "Open2N2<" + std::to_string(N) + (P ? ",part>" : ",full>"); } };
template<class IT, size_t N, bool R> struct BucketTag<momo::internal::BucketOpenN1<IT, N, R>> { static std::string name() { return "OpenN1<" + std::to_string(N) + ">"; } };
template<class IT, size_t N, class MP, bool P> struct BucketTag<momo::internal::BucketLimP4<IT, N, MP, P>> { static std::string name() { return "LimP4<" + std::to_string(N) + (P ? ",part>" : ",full>"); } };
template<class IT, size_t N, class MP, bool U> struct BucketTag<momo::internal::BucketLimP<IT, N, MP, U>> { static std::string name() { return "LimP<" + std::to_string(N) + (U ? ",ptrstate>" : ",plain>"); } };
template<class IT, size_t N, class MP> struct BucketTag<momo::internal::BucketLimP1<IT, N, MP>> { static std::string name() { return "LimP1<" + std::to_string(N) + ">"; } };
template<class IT, size_t L, size_t BC> struct BucketTag<momo::internal::BucketLim4<IT, L, BC>> { static std::string name() { return "Lim4<" + std::to_string(size_t(1) << L) + ">"; } };
template<class IT, size_t F, class MP, class AS> struct BucketTag<momo::internal::BucketUnlimP<IT, F, MP, AS>> { static std::string name() { return "UnlimP"; } };
template<class IT, size_t S> struct BucketTag<momo::internal::BucketOne<IT, S>> { static std::string name() { return "One"; } };

struct NoVersionSettings : momo::HashSetSettings { static const bool checkVersion = false; };	// selects the inline crew when traits/manager allow

template<class K, class HB, bool FAST, bool PART>
struct VTraits
{
	typedef K Key;
	typedef HB HashBucket;
	static const bool isFastNothrowHashable = FAST;
	template<class ItemTraits> using Bucket = typename HB::template Bucket<ItemTraits, PART>;
	template<class KeyArg> using IsValidKeyArg = std::false_type;
	size_t CalcCapacity(size_t bc, size_t m) const noexcept { return HB::CalcCapacity(bc, m); }
	size_t GetBucketCountShift(size_t bc, size_t m) const noexcept { return HB::GetBucketCountShift(bc, m); }
	size_t GetLogStartBucketCount() const noexcept { return g_logStart; }
	size_t GetHashCode(const K& k) const
	{
		if (g_fail == 0) { g_fail = -1; throw HashFail(); }
		if (g_fail > 0) --g_fail;
		return c01_hash(k.id());
	}
	bool IsEqual(const K& a, const K& b) const { return a.id() == b.id(); }
};

// map values beyond uint32_t: a 24-byte trivially copyable struct and a non-trivial one owning a (non-SSO) std::string
struct BigVal
{
	uint32_t v; unsigned char pad[20];
	BigVal(uint32_t x = 0) : v(x) { std::memset(pad, 0x5A, sizeof(pad)); }
	operator uint32_t() const { return v; }
};
struct StrVal
{
	std::string s;
	StrVal(uint32_t x = 0) : s(std::to_string(x) + ":a-string-value-that-is-not-small") {}
	operator uint32_t() const { return uint32_t(std::stoul(s)); }
};

typedef std::vector<std::pair<uint32_t, uint32_t>> KVs;

// ---- uniform adapters over HashSet / HashMap ----
template<class K, class TR, class ST = momo::HashSetSettings> struct SetAd
{
	typedef momo::HashSet<K, TR, VMem, momo::HashSetItemTraits<K, VMem>, ST> C;
	typedef typename C::ExtractedItem Ext;
	typedef C Set;
	static Set& set(C& c) { return c; }
	static const bool tagged = KeyOps<K>::hasTag;      // sets: the value of the model is the tag
	static bool insert(C& c, uint32_t k, uint32_t v, unsigned variant)
	{
		K e = KeyOps<K>::mk(k, v);
		switch (variant % 3) {
		case 0: return c.Insert(std::move(e)).inserted;
		case 1: return c.Insert(static_cast<const K&>(e)).inserted;
		default:
			if constexpr (std::is_same<K, uint32_t>::value) return c.InsertVar(e, e).inserted;
			else return c.InsertVar(e, k, v).inserted; }
	}
	// an insertion whose item creator throws after writing the key bytes (variant 0), or whose key copy throws (variant 1, copy-only keys)
	static bool insert_fail(C& c, uint32_t k, uint32_t v, unsigned variant, bool copyOnly)
	{
		K e = KeyOps<K>::mk(k, v);
		if (variant == 1 && copyOnly)
		{
			struct Disarm { ~Disarm() { g_copy_fail = 0; } } disarm;
			g_copy_fail = 1;
			return c.Insert(static_cast<const K&>(e)).inserted;
		}
		auto creator = [&e] (K* newItem) { std::memcpy(static_cast<void*>(newItem), &e, sizeof(K)); throw CreatorFail(); };
		return c.InsertCrt(e, creator).inserted;
	}
	static bool add(C& c, uint32_t k, uint32_t v)
	{
		K e = KeyOps<K>::mk(k, v);
		auto pos = c.Find(e);
		if (!!pos) return false;
		c.Add(pos, std::move(e));
		return true;
	}
	static bool find(const C& c, uint32_t k, uint32_t& v)
	{
		K e = KeyOps<K>::mk(k, 0);
		auto pos = c.Find(e);
		bool has = c.ContainsKey(e);
		if (has != !!pos) { v = 0xFFFFFFFFu; return true; }   // inconsistent: reported through the value
		if (!pos) return false;
		if (KeyOps<K>::id(*pos) != k) { v = 0xFFFFFFFEu; return true; }
		v = KeyOps<K>::tag(*pos); return true;
	}
	static bool setval(C& c, uint32_t k, uint32_t v)
	{
		K e = KeyOps<K>::mk(k, v);
		auto pos = c.Find(e);
		if (!pos) return false;
		c.ResetKey(pos, e);
		return true;
	}
	static size_t remove_if(C& c, uint32_t m, uint32_t r)
	{
		return c.Remove([m, r] (const K& e) { return KeyOps<K>::id(e) % m == r; });
	}
	static void ext_get(const Ext& e, uint32_t& k, uint32_t& v) { k = KeyOps<K>::id(e.GetItem()); v = KeyOps<K>::tag(e.GetItem()); }
	template<class Ref> static void get(const Ref& it, uint32_t& k, uint32_t& v) { k = KeyOps<K>::id(it); v = KeyOps<K>::tag(it); }
};

template<class K, class TR, class V = uint32_t> struct MapAd
{
	typedef momo::HashMap<K, V, TR, VMem> C;
	typedef typename C::ExtractedPair Ext;
	typedef typename C::HashSet Set;
	static Set& set(C& c) { return c.mHashSet; }
	static const bool tagged = true;
	static uint32_t tagof(uint32_t k) { return k * 2654435761u + 17u; }
	static bool insert(C& c, uint32_t k, uint32_t v, unsigned variant)
	{
		K e = KeyOps<K>::mk(k, tagof(k)); V val = V(v);
		switch (variant % 3) {
		case 0: return c.Insert(std::move(e), std::move(val)).inserted;
		case 1: return c.Insert(static_cast<const K&>(e), static_cast<const V&>(val)).inserted;
		default: return c.InsertVar(static_cast<const K&>(e), val).inserted; }
	}
	static bool insert_fail(C& c, uint32_t k, uint32_t v, unsigned variant, bool copyOnly)
	{
		K e = KeyOps<K>::mk(k, tagof(k));
		if (variant == 1 && copyOnly)
		{
			struct Disarm { ~Disarm() { g_copy_fail = 0; } } disarm;
			g_copy_fail = 1;
			return c.Insert(static_cast<const K&>(e), V(v)).inserted;
		}
		auto valueCreator = [] (V* /*newValue*/) { throw CreatorFail(); };
		return c.InsertCrt(static_cast<const K&>(e), valueCreator).inserted;
	}
	static bool add(C& c, uint32_t k, uint32_t v)
	{
		K e = KeyOps<K>::mk(k, tagof(k));
		auto pos = c.Find(e);
		if (!!pos) return false;
		c.Add(pos, std::move(e), V(v));
		return true;
	}
	static bool find(const C& c, uint32_t k, uint32_t& v)
	{
		K e = KeyOps<K>::mk(k, 0);
		auto pos = c.Find(e);
		bool has = c.ContainsKey(e);
		if (has != !!pos) { v = 0xFFFFFFFFu; return true; }
		if (!pos) return false;
		if (KeyOps<K>::id(pos->key) != k || (KeyOps<K>::hasTag && KeyOps<K>::tag(pos->key) != tagof(k))) { v = 0xFFFFFFFEu; return true; }
		v = uint32_t(pos->value); return true;
	}
	static bool setval(C& c, uint32_t k, uint32_t v)
	{
		K e = KeyOps<K>::mk(k, tagof(k));
		auto pos = c.Find(e);
		if (!pos) return false;
		pos->value = V(v);
		c.ResetKey(pos, e);
		return true;
	}
	static size_t remove_if(C& c, uint32_t m, uint32_t r)
	{
		return c.Remove([m, r] (const K& e, const V&) { return KeyOps<K>::id(e) % m == r; });
	}
	template<class Ref> static void get(const Ref& it, uint32_t& k, uint32_t& v) { k = KeyOps<K>::id(it.key); v = uint32_t(it.value); }
	static void ext_get(const Ext& e, uint32_t& k, uint32_t& v) { k = KeyOps<K>::id(e.GetKey()); v = uint32_t(e.GetValue()); }
};

template<class AD> struct Runner
{
	typedef typename AD::C C;
	typedef typename AD::Set Set;
	typedef std::map<uint32_t, uint32_t> Twin;

	static KVs contents(const C& c, std::string& flag, bool sorted = true)
	{
		KVs r; std::set<uint32_t> seen;
		for (auto it = c.GetBegin(); it != c.GetEnd(); ++it)
		{
			uint32_t k, v; AD::get(*it, k, v);
			if (!seen.insert(k).second) flag = "!dup";
			r.push_back({k, v});
			if (r.size() > c.GetCount() + 8) { flag = "!long"; break; }
		}
		if (r.size() != c.GetCount()) flag = "!count";
		if (sorted) std::sort(r.begin(), r.end());
		return r;
	}
	static std::string show(const KVs& r)
	{
		std::string s = "{";
		for (size_t i = 0; i < r.size(); ++i) { if (i) s += ","; s += std::to_string(r[i].first) + ":" + std::to_string(r[i].second); }
		return s + "}";
	}
	static bool same(const KVs& r, const Twin& tw)
	{
		if (r.size() != tw.size()) return false;
		size_t i = 0;
		for (auto& p : tw) { if (r[i].first != p.first || r[i].second != p.second) return false; ++i; }
		return true;
	}
	static std::string shape(C& c)
	{
		Set& s = AD::set(c);
		std::string out; bool firstGen = true;
		for (auto* bk = s.mBuckets; bk != nullptr; bk = bk->GetNextBuckets())
		{
			if (!firstGen) out += " ";
			firstGen = false;
			size_t log = bk->GetLogCount();
			out += "g" + std::to_string(log) + ":";
			auto& params = bk->GetBucketParams();
			for (size_t i = 0; i < bk->GetCount(); ++i)
			{
				auto& b = (*bk)[i];
				if (i) out += ";";
				bool f = true;
				for (auto& item : b.GetBounds(params))
				{
					if (!f) out += ",";
					f = false;
					out += std::to_string(KeyOps<typename Set::Key>::id(Set::ItemTraits::GetKey(item)));
				}
				out += std::string("|") + (b.WasFull() ? "1" : "0") + "|" + std::to_string(ull(b.GetMaxProbe(log)));
			}
		}
		return out;
	}

	static std::string info()
	{	// what was REALLY instantiated (checked by prop.py against the intended configuration)
		typedef typename Set::Bucket Bk;
		return "bucket=" + BucketTag<Bk>::name() + " max=" + (Bk::maxCount > 1000 ? std::string("inf") : std::to_string(Bk::maxCount))
			+ " isz=" + std::to_string(sizeof(typename Set::Item)) + " ial=" + std::to_string(Set::ItemTraits::alignment)
			+ " nothrowreloc=" + std::to_string(int(Set::areItemsNothrowRelocatable))
			+ " itemnr=" + std::to_string(int(Set::ItemTraits::isNothrowRelocatable))
			+ " trivreloc=" + std::to_string(int(momo::IsTriviallyRelocatable<typename Set::Key>::value))
			+ " fast=" + std::to_string(int(Set::HashTraits::isFastNothrowHashable))
			+ " version=" + std::to_string(int(Set::Settings::checkVersion))
			+ " crewsize=" + std::to_string(sizeof(typename Set::Crew));
	}

	static void run(std::istringstream& is)
	{
		if (g_info) { puts(info().c_str()); return; }
		C c, t;
		typename AD::Ext ext;
		bool extFull = false; uint32_t extK = 0, extV = 0;
		Twin tw, tt;
		std::string tok, out;
		unsigned n = 0;
		auto emit = [&out] (const std::string& x) { if (!out.empty()) out += ' '; out += x; };
		auto oracle = [&emit, &n] (bool ok, const char* what) { if (!ok) emit(std::string("ORACLE!") + what + "@" + std::to_string(n)); };
		while (is >> tok)
		{
			++n;
			ull a = 0, b = 0, d = 0;
			try
			{
				if (tok == "I" || tok == "A" || tok == "J" || tok == "Z")
				{
					is >> a >> b; if (tok == "J") is >> d;
					uint32_t k = uint32_t(a), v = uint32_t(b);
					bool exp = tw.find(k) == tw.end();
					bool got;
					if (tok == "J") { g_fail = long(d) + 1; got = AD::insert(c, k, v, 1); g_fail = -1; }
					else if (tok == "Z") { g_alloc_fail = true; got = AD::insert(c, k, v, n); g_alloc_fail = false; }
					else if (tok == "A") got = AD::add(c, k, v);
					else got = AD::insert(c, k, v, n);
					if (got) tw[k] = v;
					emit(got ? "1" : "0");
					oracle(got == exp, "insert");
				}
				else if (tok == "IF" || tok == "IC")
				{	// failed insertion: strong guarantee (the usual observations follow in the script)
					is >> a >> b; uint32_t k = uint32_t(a);
					bool present = tw.find(k) != tw.end();
					static const bool copyOnly = !std::is_nothrow_move_constructible<typename AD::C::Key>::value
						&& !std::is_arithmetic<typename AD::C::Key>::value;
					bool threw = false, got = false;
					try { got = AD::insert_fail(c, k, uint32_t(b), tok == "IC" ? 1 : 0, copyOnly); }
					catch (const CreatorFail&) { threw = true; }
					g_copy_fail = 0;
					emit(threw ? "Xf" : (got ? "1" : "0"));
					oracle(threw == !present && !got && c.GetCount() == tw.size(), "failed-insert");
				}
				else if (tok == "F")
				{
					is >> a; uint32_t v = 0; bool got = AD::find(c, uint32_t(a), v);
					auto it = tw.find(uint32_t(a));
					emit(got ? std::to_string(v) : "-");
					oracle(got == (it != tw.end()) && (!got || v == it->second), "find");
				}
				else if (tok == "R")
				{
					is >> a; auto e = KeyOps<typename AD::C::Key>::mk(uint32_t(a), 0);
					bool got = c.Remove(e);
					emit(got ? "1" : "0");
					oracle(got == (tw.erase(uint32_t(a)) == 1), "remove");
				}
				else if (tok == "P")
				{
					is >> a; auto e = KeyOps<typename AD::C::Key>::mk(uint32_t(a), 0);
					auto pos = c.Find(e); bool got = !!pos;
					if (got) c.Remove(pos);
					emit(got ? "1" : "0");
					oracle(got == (tw.erase(uint32_t(a)) == 1), "removepos");
				}
				else if (tok == "D")
				{
					is >> a >> b;
					size_t got = AD::remove_if(c, uint32_t(a), uint32_t(b));
					size_t exp = 0;
					for (auto it = tw.begin(); it != tw.end(); ) { if (it->first % uint32_t(a) == uint32_t(b)) { it = tw.erase(it); ++exp; } else ++it; }
					emit(std::to_string(got));
					oracle(got == exp, "removeif");
				}
				else if (tok == "L")
				{	// explicit iterator loop with Remove(iter) returning the next iterator
					is >> a >> b;
					size_t cnt = 0; std::string seen;
					auto it = c.GetBegin();
					size_t guard = c.GetCount() + 8;
					while (it != c.GetEnd() && guard-- > 0)
					{
						uint32_t k, v; AD::get(*it, k, v);
						if (!seen.empty()) seen += ";";
						seen += std::to_string(k);
						if (k % uint32_t(a) == uint32_t(b)) { it = c.Remove(it); ++cnt; }
						else ++it;
					}
					size_t exp = 0;
					for (auto ti = tw.begin(); ti != tw.end(); ) { if (ti->first % uint32_t(a) == uint32_t(b)) { ti = tw.erase(ti); ++exp; } else ++ti; }
					emit(std::to_string(cnt) + "[" + seen + "]");
					oracle(cnt == exp && c.GetCount() == tw.size(), "iterloop");
				}
				else if (tok == "E")
				{
					is >> a; auto e = KeyOps<typename AD::C::Key>::mk(uint32_t(a), 0);
					auto pos = c.Find(e); bool got = !!pos;
					if (got)
					{
						auto ext = c.Extract(pos);
						oracle(c.GetCount() + 1 == tw.size(), "extract-count");
						bool ins = c.Insert(std::move(ext)).inserted;
						oracle(ins, "reinsert");
					}
					emit(got ? "1" : "0");
					oracle(got == (tw.find(uint32_t(a)) != tw.end()), "extract");
				}
				else if (tok == "X")
				{	// extract into the holder (if it is empty)
					is >> a; auto e = KeyOps<typename AD::C::Key>::mk(uint32_t(a), 0);
					auto pos = c.Find(e); bool got = !!pos && !extFull;
					if (got)
					{
						c.Remove(static_cast<typename AD::C::ConstIterator>(pos), ext);
						AD::ext_get(ext, extK, extV); extFull = true;
						auto it = tw.find(uint32_t(a));
						oracle(it != tw.end() && extK == it->first && extV == it->second && !ext.IsEmpty(), "extract-holder");
						if (it != tw.end()) tw.erase(it);
					}
					emit(got ? "1" : "0");
					oracle(extFull || tw.find(uint32_t(a)) == tw.end(), "extract-find");
				}
				else if (tok == "Q")
				{	// insert the holder
					bool got = false;
					if (extFull)
					{
						got = c.Insert(std::move(ext)).inserted;
						bool exp = tw.find(extK) == tw.end();
						if (got) { tw[extK] = extV; extFull = false; }
						oracle(got == exp && ext.IsEmpty() == got, "insert-holder");
					}
					emit(got ? "1" : "0");
				}
				else if (tok == "K")
				{
					is >> a >> b;
					bool got = AD::setval(c, uint32_t(a), uint32_t(b));
					auto it = tw.find(uint32_t(a));
					if (it != tw.end()) it->second = uint32_t(b);
					emit(got ? "1" : "0");
					oracle(got == (it != tw.end()), "setval");
				}
				else if (tok == "V") { is >> a; c.Reserve(size_t(a)); emit("u"); oracle(c.GetCapacity() >= a, "reserve"); }
				else if (tok == "W") { is >> a >> b; g_fail = long(b); c.Reserve(size_t(a)); g_fail = -1; emit("u"); }
				else if (tok == "C") { is >> a; c.Clear(a != 0); tw.clear(); emit("u"); oracle(c.GetCount() == 0, "clear"); }
				else if (tok == "T" || tok == "U")
				{
					std::string flag; KVs r = contents(tok == "T" ? c : t, flag);
					emit(show(r));
					oracle(flag.empty() && same(r, tok == "T" ? tw : tt), "traverse");
				}
				else if (tok == "O")
				{	// the exact iteration order (the model mirrors pvInc / pvMove)
					std::string flag; KVs r = contents(c, flag, false);
					std::string o = "[" + show(r) + "]";
					emit(o);
					std::sort(r.begin(), r.end());
					oracle(flag.empty() && same(r, tw), "order-traverse");
				}
				else if (tok == "N") { emit(std::to_string(c.GetCount())); oracle(c.GetCount() == tw.size(), "count"); }
				else if (tok == "Y") { C copy(c); c = std::move(copy); emit("u"); oracle(c.GetCount() == tw.size(), "copy"); }
				else if (tok == "M")
				{	// b = std::move(a); plus a move-construction round trip of b
					t = std::move(c); tt = tw; tw.clear();
					oracle(c.GetCount() == 0, "moved-from");
					c = C();		// a moved-from momo container has no crew: it may only be assigned to or destroyed
					C tmp(std::move(t)); oracle(t.GetCount() == 0, "moved-from"); t = std::move(tmp);
					emit("u");
					oracle(c.GetCount() == 0 && t.GetCount() == tt.size(), "move");
				}
				else if (tok == "S") { c.Swap(t); std::swap(tw, tt); emit("u"); }
				else if (tok == "G")
				{
					c.MergeTo(t);
					for (auto it = tw.begin(); it != tw.end(); ) { if (tt.find(it->first) == tt.end()) { tt.insert(*it); it = tw.erase(it); } else ++it; }
					emit("u");
					oracle(c.GetCount() == tw.size() && t.GetCount() == tt.size(), "merge");
				}
				else if (tok == "H") emit(shape(c));
				else if (tok == "B") { is >> a; t.Clear(a != 0); tt.clear(); emit("u"); oracle(t.GetCount() == 0, "clear2"); }
				else { emit("?" + tok); break; }
			}
			catch (const std::exception& ex)
			{
				g_fail = -1; g_alloc_fail = false;
				emit(tok == "Z" ? "Xz" : "X");
			}
		}
		puts(out.c_str());
	}
};

typedef void (*RunFn)(std::istringstream&);
struct Reg { const char* name; RunFn fn; };

// leaf cases shared by every TU
template<class HB> static void cap_case(size_t maxCount, size_t log)
{
	printf("%llu %llu\n", ull(HB::CalcCapacity(size_t(1) << log, maxCount)), ull(HB::GetBucketCountShift(size_t(1) << log, maxCount)));
}

static int c01_main(const Reg* regs, size_t nregs, void (*leaf)(const std::vector<std::string>&))
{
	std::string line;
	while (std::getline(std::cin, line))
	{
		std::istringstream is(line);
		std::string name; is >> name;

		if (name == "cap" || name == "idx" || name == "sh" || name == "o8" || name == "kf" || name == "n1")
		{
			std::vector<std::string> w; std::string x; while (is >> x) w.push_back(x);
			if (leaf) leaf(w); else puts("?leaf");
			continue;
		}
		// <name> <cap> <wf0> <wfThr> <probing> <bound> <pol> <logStart> <hash> |
		std::string cap, wf0, thr, probing, bound, pol, bar; ull ls = 4; int hash = 0;
		is >> cap >> wf0 >> thr >> probing >> bound >> pol >> ls >> hash >> bar;
		g_logStart = size_t(ls); g_hash_mode = hash; g_fail = -1;
		g_info = (cap == "info");
		bool found = false;
		for (size_t i = 0; i < nregs; ++i)
			if (name == regs[i].name) { regs[i].fn(is); found = true; break; }
		if (!found) puts("?cfg");
		fflush(stdout);
	}
	return 0;
}

#define C01_SET(NAME, HB, SZ, AL, CAT, FAST, PART) \
	{ NAME, &Runner<SetAd<Elem<SZ, AL, CAT>, VTraits<Elem<SZ, AL, CAT>, HB, FAST, PART>>>::run }
#define C01_SETN(NAME, HB, SZ, AL, CAT, FAST, PART) /* checkVersion = false */ \
	{ NAME, &Runner<SetAd<Elem<SZ, AL, CAT>, VTraits<Elem<SZ, AL, CAT>, HB, FAST, PART>, NoVersionSettings>>::run }
#define C01_SETU(NAME, HB) /* arithmetic key, the library's own HashTraits (std::hash, fast-hashable) */ \
	{ NAME, &Runner<SetAd<uint32_t, momo::HashTraits<uint32_t, HB>>>::run }
#define C01_MAPU(NAME, HB) \
	{ NAME, &Runner<MapAd<uint32_t, momo::HashTraits<uint32_t, HB>>>::run }
#define C01_MAPV(NAME, HB, SZ, AL, CAT, FAST, PART, V) \
	{ NAME, &Runner<MapAd<Elem<SZ, AL, CAT>, VTraits<Elem<SZ, AL, CAT>, HB, FAST, PART>, V>>::run }
#define C01_MAP(NAME, HB, SZ, AL, CAT, FAST, PART) \
	{ NAME, &Runner<MapAd<Elem<SZ, AL, CAT>, VTraits<Elem<SZ, AL, CAT>, HB, FAST, PART>>>::run }
