(* C10 -- multi-element Insert(range / initializer list) and Remove(predicate) of hash containers, exactly as coded:
     HashSet::Insert(begin, end)   HashSet.h:795-807: for each argument InsertVar(key, ref) = pvInsert: pvFind, then pvAdd with a
                                   Creator that COPY-constructs the argument (lvalue reference); stops at the first exception
     HashSet::Remove(filter)       HashSet.h:879-893: while (!!iter) { if (filter( *iter)) iter = Remove(iter); else ++iter; }
                                   Remove(iter) = pvRemove with the replacer ItemTraits::Replace(last item of the bucket, item)
   (also when the item IS the last one: Replace(item, item) = self-assignment + destruction).
   Buckets / iteration order as in Merge.v. *)
From Coq Require Import ZArith Bool List Lia Permutation Arith.
From C10 Require Import Machine Merge MergeProofs.
Import ListNotations.
Local Open Scope Z_scope.

(* ---------------------------------------------------------------- Insert(range) *)
Record istate := IS { i_rest : list item; i_dst : list item; i_w : world; i_stat : status }.

Definition istep (c : cat) (st : istate) : istate :=
  match i_stat st with
  | Running =>
    match i_rest st with
    | [] => IS [] (i_dst st) (i_w st) Finished
    | x :: r =>
      match step_func (i_w st) with
      | None => IS (i_rest st) (i_dst st) (fail_func (i_w st)) Failed
      | Some w1 =>
        if has_key (i_dst st) (key x) then IS r (i_dst st) w1 Running
        else match step_alloc w1 with
             | None => IS (i_rest st) (i_dst st) (fail_alloc w1) Failed
             | Some w2 =>
               match copy_ctor c w2 x with
               | (w3, None) => IS (i_rest st) (i_dst st) w3 Failed
               | (w3, Some e) => IS r (i_dst st ++ [e]) w3 Running
               end
             end
      end
    end
  | _ => st
  end.

Definition irun (c : cat) (n : nat) (st : istate) : istate := Nat.iter n (istep c) st.
Definition insert_range (c : cat) (args dst : list item) (w : world) : istate :=
  irun c (S (length args)) (IS args dst w Running).

(* ---------------------------------------------------------------- Remove(predicate) *)
(* ObjectManager::Replace(item, item): AssignAnyway on the same object, then Destroy *)
Definition replace_self (c : cat) (w : world) (v : Z) : world :=
  match c with
  | NTM => dtor (emit w (EMAssign v v)) v
  | SMH => dtor (emit w (EMAssign v v)) moved          (* self-move-assignment empties the object first *)
  | THM => dtor w v                                    (* the relocate-through-a-buffer overload skips equal addresses *)
  | CPY => dtor (emit w (ECAssign v v)) v              (* kit: self copy-assignment is not a fallible step *)
  end.

Record rstate := RS { r_done : list (list item); r_cur : list item; r_idx : nat; r_todo : list (list item);
                      r_removed : list item; r_w : world; r_stat : status }.
Definition rsrc_items (st : rstate) : list item := concat (r_done st) ++ r_cur st ++ concat (r_todo st).

Definition rstep (c : cat) (p : item -> bool) (st : rstate) : rstate :=
  match r_stat st with
  | Running =>
    match r_idx st with
    | O => match r_todo st with
           | [] => RS (r_done st) (r_cur st) O [] (r_removed st) (r_w st) Finished
           | b :: t => RS (r_done st ++ [r_cur st]) b (length b) t (r_removed st) (r_w st) Running
           end
    | S i =>
      let b := r_cur st in
      let x := nth i b 0 in
      match step_func (r_w st) with                     (* the predicate may throw *)
      | None => RS (r_done st) b (S i) (r_todo st) (r_removed st) (fail_func (r_w st)) Failed
      | Some w1 =>
        if p x then
          match repl_of b i with
          | None => RS (r_done st) (bucket_remove b i) i (r_todo st) (r_removed st ++ [x]) (replace_self c w1 x) Running
          | Some l =>
            match replace c w1 l x with
            | (w2, None) => RS (r_done st) b (S i) (r_todo st) (r_removed st) w2 Failed
            | (w2, Some _) => RS (r_done st) (bucket_remove b i) i (r_todo st) (r_removed st ++ [x]) w2 Running
            end
          end
        else RS (r_done st) b i (r_todo st) (r_removed st) w1 Running
      end
    end
  | _ => st
  end.

Definition rinit (src : list (list item)) (w : world) : rstate := RS [] [] O src [] w Running.
Definition rrun (c : cat) (p : item -> bool) (n : nat) (st : rstate) : rstate := Nat.iter n (rstep c p) st.
Definition remove_pred (c : cat) (p : item -> bool) (src : list (list item)) (w : world) : rstate :=
  rrun c p (hfuel src) (rinit src w).

(* ================================================================ proofs: Insert(range) *)
Lemma copy_ctor_value c w x w' e : copy_ctor c w x = (w', Some e) -> e = x.
Proof. unfold copy_ctor. destruct (step_copy w); intros H; inversion H; reflexivity. Qed.

Ltac istep_cases c st :=
  unfold istep; destruct st as [rest dst w stat]; simpl;
  destruct stat; simpl; try tauto;
  destruct rest as [|x r]; simpl;
  [ | destruct (step_func w) as [w1|] eqn:Ef; simpl;
      [ destruct (has_key dst (key x)) eqn:Eh; simpl;
        [ | destruct (step_alloc w1) as [w2|] eqn:Ea; simpl;
            [ destruct (copy_ctor c w2 x) as [w3 [e|]] eqn:Ec; simpl | ] ]
      | ] ].

(* invariant: the container is the original contents followed by copies of some of the ALREADY PROCESSED arguments,
   keys stay unique, and the arguments not yet processed are exactly a suffix of the argument list *)
Definition iinv (args dst0 : list item) (st : istate) : Prop :=
  exists done ins, args = done ++ i_rest st /\ i_dst st = dst0 ++ ins /\ incl ins done /\
                   (forall a, In a done -> i_stat st <> Failed \/ True) /\
                   (forall a, In a done -> has_key (i_dst st) (key a) = true).

Lemma has_key_snoc_self d x : has_key (d ++ [x]) (key x) = true.
Proof. unfold has_key. rewrite existsb_app. simpl. rewrite Z.eqb_refl. rewrite orb_true_r. reflexivity. Qed.

Lemma istep_inv c args dst0 st : iinv args dst0 st -> iinv args dst0 (istep c st).
Proof.
  unfold iinv. istep_cases c st; intros (dn & ins & Ea0 & Ed & Hi & Ht & Hk); simpl in *;
    try (exists dn, ins; repeat split; auto; fail).
  - (* present: skipped *)
    exists (dn ++ [x]), ins. rewrite <- app_assoc. simpl. repeat split; auto.
    + intros y Hy. apply in_or_app. left. apply Hi. exact Hy.
    + intros a Ha. apply in_app_or in Ha. destruct Ha as [Ha|[<-|[]]]; [apply Hk; exact Ha|exact Eh].
  - (* copied in *)
    apply copy_ctor_value in Ec. subst e.
    exists (dn ++ [x]), (ins ++ [x]). rewrite <- app_assoc. simpl. repeat split; auto.
    + rewrite Ed. rewrite app_assoc. reflexivity.
    + intros y Hy. apply in_app_or in Hy. apply in_or_app. destruct Hy as [Hy|[<-|[]]]; [left; apply Hi; exact Hy|right; left; reflexivity].
    + intros a Ha. apply in_app_or in Ha. destruct Ha as [Ha|[<-|[]]]; [apply has_key_app; apply Hk; exact Ha|apply has_key_snoc_self].
Qed.

(* subset: at every step (also after a failure) the container holds its original items, in place, followed by copies of
   arguments -- nothing else, and no original item disappeared *)
Theorem insert_range_subset c args dst w n :
  exists ins, i_dst (irun c n (IS args dst w Running)) = dst ++ ins /\ incl ins args.
Proof.
  assert (G : iinv args dst (irun c n (IS args dst w Running))).
  { induction n; simpl; [|apply istep_inv; exact IHn].
    exists [], []. simpl. rewrite app_nil_r. repeat split; auto; intros a []. }
  destruct G as (dn & ins & Ea & Ed & Hi & _). exists ins. split; [exact Ed|].
  intros y Hy. rewrite Ea. apply in_or_app. left. apply Hi. exact Hy.
Qed.

Lemma istep_nodup c st : NoDup (map key (i_dst st)) -> NoDup (map key (i_dst (istep c st))).
Proof.
  istep_cases c st; intros N; simpl in *; try exact N.
  apply copy_ctor_value in Ec. subst e. apply nodup_keys_snoc; assumption.
Qed.

Theorem insert_range_unique_nodup c args dst w n :
  NoDup (map key dst) -> NoDup (map key (i_dst (irun c n (IS args dst w Running)))).
Proof. intros N. induction n; simpl; [exact N|]. apply istep_nodup. exact IHn. Qed.

Lemma istep_finished_rest c st : (i_stat st = Finished -> i_rest st = []) ->
  i_stat (istep c st) = Finished -> i_rest (istep c st) = [].
Proof. istep_cases c st; intros F Hs; try discriminate; try reflexivity; try (apply F; reflexivity). Qed.

(* a completed multi-element insert: the key of every argument is in the container *)
Theorem insert_range_finished_complete c args dst w n :
  i_stat (irun c n (IS args dst w Running)) = Finished ->
  forall a, In a args -> has_key (i_dst (irun c n (IS args dst w Running))) (key a) = true.
Proof.
  assert (G : iinv args dst (irun c n (IS args dst w Running)) /\
              (i_stat (irun c n (IS args dst w Running)) = Finished -> i_rest (irun c n (IS args dst w Running)) = [])).
  { induction n; simpl.
    - split; [|discriminate]. exists [], []. simpl. rewrite app_nil_r. repeat split; auto; intros a [].
    - destruct IHn as [I F]. split; [apply istep_inv; exact I|apply istep_finished_rest; exact F]. }
  intros Hs a Ha. destruct G as [(dn & ins & Ea & _ & _ & _ & Hk) F].
  rewrite (F Hs), app_nil_r in Ea. subst dn. apply Hk. exact Ha.
Qed.

(* ================================================================ proofs: Remove(predicate) *)
Lemma replace_value' c w s d w' r : replace c w s d = (w', Some r) -> r = s.
Proof. apply replace_value. Qed.

Definition rinv (p : item -> bool) (init : list item) (st : rstate) : Prop :=
  Permutation (rsrc_items st ++ r_removed st) init /\ (r_idx st <= length (r_cur st))%nat /\
  Forall (fun y => p y = true) (r_removed st) /\
  (forall y, In y (concat (r_done st) ++ skipn (r_idx st) (r_cur st)) -> p y = false).

Ltac rstep_cases c p st :=
  unfold rstep; destruct st as [dn b idx todo rem w stat]; simpl;
  destruct stat; simpl; try tauto;
  destruct idx as [|i]; simpl;
  [ destruct todo as [|b2 t]; simpl
  | destruct (step_func w) as [w1|] eqn:Ef; simpl;
    [ destruct (p (nth i b 0)) eqn:Ep; simpl;
      [ destruct (repl_of b i) as [l|] eqn:Er; simpl;
        [ destruct (replace c w1 l (nth i b 0)) as [w2 [e|]] eqn:Ee; simpl | ]
      | ]
    | ] ].

Lemma rstep_inv c p init st : rinv p init st -> rinv p init (rstep c p st).
Proof.
  unfold rinv, rsrc_items. rstep_cases c p st; intros (P & L & F & V); cbn [r_done r_cur r_idx r_todo r_removed r_w r_stat length] in *;
    try (repeat split; auto; fail).
  - (* next bucket *)
    split; [|split; [lia|split; [exact F|]]].
    + rewrite concat_app. simpl. rewrite app_nil_r. rewrite <- !app_assoc in *. exact P.
    + intros y Hy. rewrite skipn_all in Hy. rewrite app_nil_r in Hy. rewrite concat_app in Hy. simpl in Hy.
      rewrite app_nil_r in Hy. apply V. exact Hy.
  - (* removed, another item takes the hole *)
    assert (Hi : (i < length b)%nat) by lia.
    split; [|split; [pose proof (bucket_remove_length b i Hi); lia|split]].
    + etransitivity; [|exact P]. rewrite <- !app_assoc.
      apply Permutation_app_head. rewrite !app_assoc. 
      etransitivity; [symmetry; apply Permutation_cons_append|].
      rewrite <- !app_assoc.
      change (nth i b 0 :: bucket_remove b i ++ concat todo ++ rem) with ((nth i b 0 :: bucket_remove b i) ++ concat todo ++ rem).
      apply Permutation_app_tail. apply bucket_remove_perm. exact Hi.
    + apply Forall_app. split; [exact F|]. constructor; [exact Ep|constructor].
    + intros y Hy. apply V. apply in_app_or in Hy. apply in_or_app. destruct Hy as [Hy|Hy]; [left; exact Hy|right].
      eapply Permutation_in; [apply skipn_bucket_remove; exact Hi|exact Hy].
  - (* removed, it was the last item of its bucket *)
    assert (Hi : (i < length b)%nat) by lia.
    split; [|split; [pose proof (bucket_remove_length b i Hi); lia|split]].
    + etransitivity; [|exact P]. rewrite <- !app_assoc.
      apply Permutation_app_head. rewrite !app_assoc.
      etransitivity; [symmetry; apply Permutation_cons_append|].
      rewrite <- !app_assoc.
      change (nth i b 0 :: bucket_remove b i ++ concat todo ++ rem) with ((nth i b 0 :: bucket_remove b i) ++ concat todo ++ rem).
      apply Permutation_app_tail. apply bucket_remove_perm. exact Hi.
    + apply Forall_app. split; [exact F|]. constructor; [exact Ep|constructor].
    + intros y Hy. apply V. apply in_app_or in Hy. apply in_or_app. destruct Hy as [Hy|Hy]; [left; exact Hy|right].
      eapply Permutation_in; [apply skipn_bucket_remove; exact Hi|exact Hy].
  - (* kept *)
    assert (Hi : (i < length b)%nat) by lia.
    split; [exact P|]. split; [lia|]. split; [exact F|].
    intros y Hy. apply in_app_or in Hy. destruct Hy as [Hy|Hy]; [apply V; apply in_or_app; left; exact Hy|].
    rewrite (skipn_nth_cons b i Hi) in Hy. destruct Hy as [<-|Hy]; [exact Ep|apply V; apply in_or_app; right; exact Hy].
Qed.

Lemma rinit_inv p src w : rinv p (concat src) (rinit src w).
Proof.
  unfold rinv, rsrc_items. simpl. rewrite app_nil_r. repeat split; auto. intros y [].
Qed.

Lemma rrun_inv c p src w n : rinv p (concat src) (rrun c p n (rinit src w)).
Proof. induction n; simpl; [apply rinit_inv|apply rstep_inv; exact IHn]. Qed.

(* subset: at every step (also after a failure) what is left plus what was removed is the original contents, and every
   removed item satisfies the predicate -- so the container is a sub-multiset of the original, nothing appears *)
Theorem remove_pred_subset c p src w n :
  Permutation (rsrc_items (rrun c p n (rinit src w)) ++ r_removed (rrun c p n (rinit src w))) (concat src) /\
  Forall (fun y => p y = true) (r_removed (rrun c p n (rinit src w))).
Proof. destruct (rrun_inv c p src w n) as (P & _ & F & _). auto. Qed.

Lemma NoDup_app_l (A B : list Z) : NoDup (A ++ B) -> NoDup A.
Proof.
  induction A as [|a A IH]; simpl; intros N; [constructor|]. inversion N; subst. constructor.
  - intros I. apply H1. apply in_or_app. left. exact I.
  - apply IH. exact H2.
Qed.

Lemma NoDup_perm_app_l (A B C : list Z) : Permutation (A ++ B) C -> NoDup C -> NoDup A.
Proof.
  intros P N. apply (Permutation_NoDup (Permutation_sym P)) in N. apply NoDup_app_l in N. exact N.
Qed.

Theorem remove_pred_unique_nodup c p src w n :
  NoDup (map key (concat src)) -> NoDup (map key (rsrc_items (rrun c p n (rinit src w)))).
Proof.
  intros N. destruct (remove_pred_subset c p src w n) as [P _].
  apply (NoDup_perm_app_l _ (map key (r_removed (rrun c p n (rinit src w)))) (map key (concat src))); [|exact N].
  rewrite <- map_app. apply Permutation_map. exact P.
Qed.

Lemma rstep_finished_shape c p st : (r_stat st = Finished -> r_idx st = O /\ r_todo st = []) ->
  r_stat (rstep c p st) = Finished -> r_idx (rstep c p st) = O /\ r_todo (rstep c p st) = [].
Proof. rstep_cases c p st; intros F Hs; try discriminate; try (split; reflexivity); try (apply F; reflexivity). Qed.

(* a completed Remove(predicate) left no item that satisfies the predicate *)
Theorem remove_pred_finished_complete c p src w n :
  r_stat (rrun c p n (rinit src w)) = Finished ->
  forall y, In y (rsrc_items (rrun c p n (rinit src w))) -> p y = false.
Proof.
  assert (G : r_stat (rrun c p n (rinit src w)) = Finished ->
              r_idx (rrun c p n (rinit src w)) = O /\ r_todo (rrun c p n (rinit src w)) = []).
  { induction n; simpl; [discriminate|]. apply rstep_finished_shape. exact IHn. }
  intros Hs y Hy. destruct (G Hs) as [Gi Gt]. destruct (rrun_inv c p src w n) as (_ & _ & _ & V).
  apply V. unfold rsrc_items in Hy. rewrite Gt in Hy. simpl in Hy. rewrite app_nil_r in Hy. rewrite Gi. simpl. exact Hy.
Qed.

(* Remove(predicate) never copy-constructs; a category with a move constructor is not copied at all *)
Lemma replace_no_copy c w s d w' r : nothrow_reloc c = true -> no_copy (tr w) -> replace c w s d = (w', r) -> no_copy (tr w').
Proof.
  intros Hc N. unfold replace, relocate, move_ctor, move_assign. destruct c; try discriminate; simpl;
  intros H; inversion H; subst; simpl; repeat apply no_copy_cons; auto.
Qed.

Lemma rstep_no_copy c p st : nothrow_reloc c = true -> no_copy (tr (r_w st)) -> no_copy (tr (r_w (rstep c p st))).
Proof.
  intros Hc. rstep_cases c p st; intros N; simpl in *; try exact N;
  try (apply step_func_tr in Ef).
  - eapply replace_no_copy; [exact Hc| |exact Ee]. rewrite Ef. exact N.
  - eapply replace_no_copy; [exact Hc| |exact Ee]. rewrite Ef. exact N.
  - destruct c; try discriminate; simpl; repeat apply no_copy_cons; auto; rewrite Ef; exact N.
  - rewrite Ef. exact N.
  - apply no_copy_cons; [reflexivity|exact N].
Qed.

Theorem remove_pred_no_copy c p src w n : nothrow_reloc c = true -> no_copy (tr w) ->
  no_copy (tr (r_w (rrun c p n (rinit src w)))).
Proof. intros Hc N. induction n; simpl; [exact N|]. apply rstep_no_copy; assumption. Qed.
