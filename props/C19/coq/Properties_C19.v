(* Property C19 -- theorems only.  Each is closed by `exact <lemma>` and followed by Print Assumptions.
   They talk about the interleaving machine Treiber.step (any number of disposer threads, any number of rows, any
   schedule, spurious CAS failures included), whose control skeleton is compared with the clang AST of
   DataRow::~DataRow / DataTable::pvDeallocateFreeRaws / pvAllocateRaw / pvDestroyRaws on every run and whose extracted
   code is replayed against event traces of the real DataTable. *)
From Coq Require Import List Arith Bool Permutation.
From C19 Require Import Treiber TreiberInv TreiberThms TreiberRace TreiberLive TreiberVariant TreiberExact TreiberBoundary TreiberRows TreiberTables FreeListRefine PoolAssumptions RawPoolSize FreeListSteps TreiberCreate TableOpsRefine RowCreateRefine TreiberExamples.
From Coq Require Import ZArith.
From MomoCommon Require Import GenPrelude.
From C19 Require FreeListPrims Gen_DataRow Gen_FreeListOwner Gen_MemPoolConst Gen_RawPool Gen_DataRowOps Gen_TableSwap Gen_TableCrew.
Import ListNotations.

(* The 16-clause invariant holds in every state reachable under ANY schedule. *)
Theorem C19_invariant_all_schedules : forall s, reachable s -> inv s.
Proof. exact inv_reachable. Qed.
Print Assumptions C19_invariant_all_schedules.

(* Every row whose destructor has begun (generation g of buffer r) is in EXACTLY ONE of: the hands of a disposer
   thread (between DestroyRaw and the successful CAS), the shared free list, the owner's private drained chain,
   or reclaimed (given back to the pool). *)
Theorem C19_disposed_row_in_exactly_one_place :
  forall s r g, reachable s -> In (r, g) (disposed s) ->
  let A := g = gen s r /\ in_hand s r in
  let B := g = gen s r /\ In r (shared s) in
  let C := g = gen s r /\ In r (drain s) in
  let D := In (r, g) (reclaimed s) in
  (A \/ B \/ C \/ D) /\
  ~ (A /\ B) /\ ~ (A /\ C) /\ ~ (A /\ D) /\ ~ (B /\ C) /\ ~ (B /\ D) /\ ~ (C /\ D).
Proof. exact exactly_one_place. Qed.
Print Assumptions C19_disposed_row_in_exactly_one_place.

(* At most one thread is ever inside ~DataRow for a given buffer. *)
Theorem C19_holder_unique :
  forall s t1 t2 r, reachable s -> held (dpcs s t1) = Some r -> held (dpcs s t2) = Some r -> t1 = t2.
Proof. exact holder_unique. Qed.
Print Assumptions C19_holder_unique.

(* A row that is alive (detached Row object, or in the table) is never on a list, never in a destructor, never the
   row the owner is about to deallocate, and has no disposal logged for its current generation. *)
Theorem C19_live_row_untouched :
  forall s r, reachable s -> status s r = Detached \/ status s r = InTable ->
  ~ In r (shared s) /\ ~ In r (drain s) /\ ~ in_hand s r /\ ~ In (r, gen s r) (disposed s) /\
  (forall n, own s <> ONext r n).
Proof. exact live_row_untouched. Qed.
Print Assumptions C19_live_row_untouched.

(* The shared list is a null-terminated, duplicate-free (hence acyclic) chain: following the link words from
   freeRaws reaches null after exactly |shared| hops and visits exactly the published, not yet drained rows. *)
Theorem C19_shared_list_nodup_acyclic :
  forall s, reachable s ->
  chain (link s) (head s) (shared s) /\ NoDup (shared s) /\
  walk (link s) (head s) (length (shared s)) = Some (shared s) /\
  (forall r, In r (shared s) -> status s r = Listed /\ ~ In r (drain s) /\ ~ in_hand s r).
Proof. exact shared_list_wellformed. Qed.
Print Assumptions C19_shared_list_nodup_acyclic.

(* Same for the chain the owner walks in pvDeallocateFreeRaws (headRaw / nextRaw). *)
Theorem C19_owner_chain_nodup_acyclic :
  forall s, reachable s ->
  NoDup (drain s) /\
  match own s with
  | OIdle => drain s = []
  | ODrain c => walk (link s) c (length (drain s)) = Some (drain s)
  | ONext r n => exists d, drain s = r :: d /\ walk (link s) n (length d) = Some d
  end.
Proof. exact owner_chain_wellformed. Qed.
Print Assumptions C19_owner_chain_nodup_acyclic.

(* Whenever a step changes the link word of buffer r, it is (1) the unique disposer holding r, before publication,
   or (2) the owner deallocating r after having drained it, or (3) r is not in the protocol at all (alive or inside
   the pool) -- never a buffer that sits on the shared list or further down the owner's chain. *)
Theorem C19_link_written_only_by_unique_holder :
  forall s l s' r, reachable s -> step s l = Some s' -> link s' r <> link s r ->
  (exists t h, l = DLink t /\ dpcs s t = Loaded r h /\ status s r = Pending /\
               (forall t', held (dpcs s t') = Some r -> t' = t) /\ ~ In r (shared s) /\ ~ In r (drain s))
  \/ (exists g n, l = OFree g /\ own s = ONext r n /\ ~ In r (shared s) /\ ~ in_hand s r)
  \/ ((status s r = Free \/ status s r = Detached \/ status s r = InTable) /\
      ~ In r (shared s) /\ ~ In r (drain s) /\ ~ in_hand s r).
Proof. exact link_written_only_by_holder. Qed.
Print Assumptions C19_link_written_only_by_unique_holder.

Theorem C19_published_link_stable :
  forall s l s' r, reachable s -> step s l = Some s' ->
  (In r (shared s) -> link s' r = link s r) /\
  (In r (drain s) -> link s' r = link s r \/ exists g n, l = OFree g /\ own s = ONext r n).
Proof. exact published_link_stable. Qed.
Print Assumptions C19_published_link_stable.

(* No ABA problem: a CAS that succeeds (head = the value loaded earlier, however often head changed in between and
   whatever happened to that buffer meanwhile) links r onto the CURRENT head and the list stays a chain; a CAS that
   fails (genuinely or spuriously) changes nothing shared and the thread retries. *)
Theorem C19_cas_links_onto_current_head :
  forall s t r h sp s', reachable s -> dpcs s t = Linked r h -> step s (DCas t sp) = Some s' ->
  (sp = false /\ head s = h ->
     head s' = Some r /\ link s' r = head s /\ shared s' = r :: shared s /\ drain s' = drain s /\
     chain (link s') (head s') (shared s') /\ dpcs s' t = Idle /\ status s' r = Listed) /\
  (sp = true \/ head s <> h ->
     head s' = head s /\ shared s' = shared s /\ link s' = link s /\ dpcs s' t = Start r /\
     status s' r = Pending).
Proof. exact cas_links_onto_current_head. Qed.
Print Assumptions C19_cas_links_onto_current_head.

(* mRawMemPool.Deallocate in the drain loop only ever hits a buffer that was published, drained, is not on the shared
   list, is in nobody's hands, is not alive, and whose current generation has not been reclaimed before. *)
Theorem C19_reclaim_only_after_publish_and_drain :
  forall s g s', reachable s -> step s (OFree g) = Some s' ->
  exists r n, own s = ONext r n /\
    reclaimed s' = (r, gen s r) :: reclaimed s /\ status s' r = Free /\
    status s r = Listed /\ In r (drain s) /\ ~ In r (shared s) /\ ~ in_hand s r /\
    In (r, gen s r) (published s) /\ In (r, gen s r) (disposed s) /\ ~ In (r, gen s r) (reclaimed s).
Proof. exact reclaim_safe. Qed.
Print Assumptions C19_reclaim_only_after_publish_and_drain.

(* A buffer the pool hands out again is nowhere in the machinery and every earlier disposal of it was reclaimed. *)
Theorem C19_reuse_only_after_reclaim :
  forall s r g s', reachable s -> step s (OAlloc r g) = Some s' ->
  ~ In r (shared s) /\ ~ In r (drain s) /\ ~ in_hand s r /\
  (forall g0, In (r, g0) (disposed s) -> In (r, g0) (reclaimed s)) /\
  (forall g0, In (r, g0) (disposed s') -> g0 < gen s' r).
Proof. exact reuse_safe. Qed.
Print Assumptions C19_reuse_only_after_reclaim.

(* For EVERY finite schedule: no (row, generation) is reclaimed twice, and only disposed-and-published ones are. *)
Theorem C19_every_schedule_reclaims_at_most_once :
  forall ls s, run init ls = Some s ->
  NoDup (reclaimed s) /\ NoDup (disposed s) /\
  incl (reclaimed s) (published s) /\ incl (published s) (disposed s) /\ incl (reclaimed s) (disposed s).
Proof. exact schedule_reclaimed_once. Qed.
Print Assumptions C19_every_schedule_reclaims_at_most_once.

(* ... and at quiescence (all destructors finished, owner outside the drain loop, list empty) every disposed row has
   been reclaimed exactly once. *)
Theorem C19_quiescent_every_disposed_row_reclaimed_exactly_once :
  forall ls s, run init ls = Some s -> quiescent s -> Permutation (disposed s) (reclaimed s).
Proof. exact quiescent_all_reclaimed. Qed.
Print Assumptions C19_quiescent_every_disposed_row_reclaimed_exactly_once.

(* PARTIAL (possibility, not inevitability): from EVERY reachable state (any number of destructors in flight, the owner anywhere in
   its walk) there EXISTS a continuation -- each busy disposer finishes its push, the owner finishes its walk and drains once more --
   that reaches quiescence, where every disposed row has been reclaimed exactly once.  So no reachable state has lost a row for good.
   NOT proved: that every fair schedule gets there (the push is lock-free, not wait-free: a CAS can fail unboundedly often under
   interference or spuriously, and the owner may simply never drain again). *)
Theorem C19_quiescence_reachable_from_every_state_partial :
  forall s, reachable s ->
  exists ls s', run s ls = Some s' /\ quiescent s' /\ Permutation (disposed s') (reclaimed s').
Proof. exact quiescence_reachable. Qed.
Print Assumptions C19_quiescence_reachable_from_every_state_partial.

(* ... complemented by deadlock freedom: a destructor that is not idle always has its next step enabled, whatever the other threads
   do (and C19_owner_walk_progress says the same for the owner's walk) *)
Theorem C19_disposer_never_blocked :
  forall s t,
  match dpcs s t with
  | Idle => True
  | Start _ => step s (DLoad t) <> None
  | Loaded _ _ => step s (DLink t) <> None
  | Linked _ _ => forall sp, step s (DCas t sp) <> None
  end.
Proof. exact disposer_never_blocked. Qed.
Print Assumptions C19_disposer_never_blocked.

(* Race freedom of the protocol's plain memory accesses under the interleaving (sequentially consistent) semantics:
   whenever the disposer's plain store of the link word (DLink), the owner's plain load of it (ORead) or the pool's
   writes into the deallocated buffer (OFree) are enabled, no step of any other actor (another disposer, the owner,
   a client writing items) that touches the same buffer is enabled in the same state. *)
Theorem C19_protocol_accesses_race_free :
  forall s l1 l2 r, reachable s ->
  protocol_access l1 = true ->
  step s l1 <> None -> step s l2 <> None ->
  actor_of l1 <> actor_of l2 ->
  touches s l1 = Some r -> touches s l2 = Some r -> False.
Proof. exact protocol_accesses_race_free. Qed.
Print Assumptions C19_protocol_accesses_race_free.

(* The owner's walk is never blocked and shortens its private chain by one per iteration; disposer steps cannot
   touch that chain. *)
Theorem C19_owner_walk_progress :
  forall s, reachable s ->
  match own s with
  | OIdle => True
  | ODrain None => exists s', step s ODone = Some s'
  | ODrain (Some r) => exists s', step s ORead = Some s' /\ own s' = ONext r (link s r) /\ drain s' = drain s
  | ONext r n => forall g, exists s', step s (OFree g) = Some s' /\ own s' = ODrain n /\
                                       length (drain s) = S (length (drain s'))
  end.
Proof. exact owner_walk_enabled. Qed.
Print Assumptions C19_owner_walk_progress.

Theorem C19_disposers_never_touch_owner_chain :
  forall s l s', step s l = Some s' ->
  match l with DBegin _ _ | DLoad _ | DLink _ | DCas _ _ => drain s' = drain s /\ own s' = own s | _ => True end.
Proof. exact disposer_steps_keep_drain. Qed.
Print Assumptions C19_disposers_never_touch_owner_chain.

(* ---- WHY the link word is rewritten after a failed CAS.  In the variant machine `step_nr` (a failed CAS only refreshes
   the expected value, as `while (!compare_exchange_weak(headRaw, raw));` would) a concrete 2-disposer schedule loses a
   published row for ever ... *)
Theorem C19_norelink_variant_loses_a_row_refuted :
  exists s, run_nr init sched_lost = Some s /\ quiescent s /\
    In (1, 1) (published s) /\ ~ In (1, 1) (reclaimed s) /\ reclaimed s = [(0, 1)] /\ status s 1 = Listed.
Proof. exact norelink_loses_a_row_refuted. Qed.
Print Assumptions C19_norelink_variant_loses_a_row_refuted.

(* ... and another one makes the owner deallocate a row that is ALIVE (the stale link points to a buffer that was
   reclaimed and handed out again); the invariant of the real machine fails there.  The real machine refuses the
   schedule: after a failed CAS only the load is enabled. *)
Theorem C19_norelink_variant_frees_a_live_row_refuted :
  exists s n, run_nr init sched_live_freed = Some s /\
    own s = ONext 1 n /\ status s 1 = Detached /\ step s (OFree None) <> None /\ ~ inv s.
Proof. exact norelink_frees_a_live_row_refuted. Qed.
Print Assumptions C19_norelink_variant_frees_a_live_row_refuted.

Theorem C19_real_machine_rejects_norelink_schedule : run init sched_lost = None.
Proof. exact real_machine_rejects_sched_lost. Qed.
Print Assumptions C19_real_machine_rejects_norelink_schedule.

(* ---- The owner's program modelled exactly (the `freeRaws != nullptr` check of pvAllocateRaw is a separate atomic load;
   drain only after "non-null", allocate only after "null" or after that drain; pvDestroyRaws drains unconditionally).
   Every state of the exact machine is a state of the over-approximation, so all theorems above apply to it. *)
Theorem C19_exact_owner_program_refines :
  forall xs, reachable_x xs -> reachable (base xs) /\ inv (base xs).
Proof. exact exact_refines. Qed.
Print Assumptions C19_exact_owner_program_refines.

(* A published row is never missed by the check (only a push that has not completed yet can be missed) ... *)
Theorem C19_check_never_misses_published_row :
  forall xs xs' r, inv (base xs) -> In r (shared (base xs)) -> stepx xs XCheck = Some xs' -> xo xs' = XChecked true.
Proof. exact check_never_misses_published. Qed.
Print Assumptions C19_check_never_misses_published_row.

(* ... hence skipping a drain never loses a row: once r is on the shared list and the owner is between operations, in
   EVERY continuation (any interleaving with any number of disposers) the next completed allocation and the next
   completed drain (of NewRow, Clear or the table destructor) happen only after r has been reclaimed. *)
Theorem C19_published_row_reclaimed_by_next_alloc_or_drain :
  forall ls xs xs' r,
  reachable_x xs -> xo xs = XIdle -> own (base xs) = OIdle -> In r (shared (base xs)) ->
  runx xs ls = Some xs' -> existsb completes ls = true ->
  In (r, gen (base xs) r) (reclaimed (base xs')).
Proof. exact published_row_reclaimed_by_next_alloc_or_drain. Qed.
Print Assumptions C19_published_row_reclaimed_by_next_alloc_or_drain.

(* The racy miss concretely: the check reads null while a disposer is between load and CAS, NewRow allocates without
   draining, the row is published afterwards, stays listed, the next check cannot answer null, the next NewRow reclaims it. *)
Theorem C19_racy_miss_is_harmless_example :
  (exists xs, runx xinit sched_miss = Some xs /\ xo xs = XIdle /\ shared (base xs) = [0] /\
              reclaimed (base xs) = [] /\ status (base xs) 2 = Detached) /\
  (exists xs, runx xinit (sched_miss ++ sched_miss_next) = Some xs /\ shared (base xs) = [] /\
              reclaimed (base xs) = [(0, 1)] /\ gen (base xs) 0 = 2) /\
  runx xinit (sched_miss ++ [XCheck; XL (OAlloc 0 None)]) = None.
Proof. exact racy_miss_is_harmless_example. Qed.
Print Assumptions C19_racy_miss_is_harmless_example.

(* ---- The boundary of the claim.  If, when the table is destroyed, no row is detached and no destructor is in flight,
   then in every continuation no step touches the freed list head ... *)
Theorem C19_table_outlives_rows_no_use_after_free :
  forall ds ds1 ls ds2 l,
  inv (st ds) -> no_rows_outside (st ds) ->
  stepd ds DDestroy = Some ds1 -> rund ds1 ls = Some ds2 ->
  ~ use_after_free ds2 l.
Proof. exact table_outlives_rows_no_use_after_free. Qed.
Print Assumptions C19_table_outlives_rows_no_use_after_free.

Theorem C19_table_outlives_rows_nonvacuous :
  exists ds ds1, rund dinit [DL (OAlloc 0 None); DL (DBegin 1 0); DL (DLoad 1); DL (DLink 1); DL (DCas 1 false);
                             DL OExchange; DL ORead; DL (OFree None); DL ODone] = Some ds /\
    no_rows_outside (st ds) /\ stepd ds DDestroy = Some ds1 /\ reclaimed (st ds) = [(0, 1)].
Proof. exact table_outlives_rows_nonvacuous. Qed.
Print Assumptions C19_table_outlives_rows_nonvacuous.

(* ... and outside the boundary (NOT claimed by C19; client error): the table is destroyed while one row is still
   detached; that row's destructor loads the freed head and its buffer can never be reclaimed. *)
Theorem C19_table_destroyed_before_its_row_refuted :
  exists ds, rund dinit [DL (OAlloc 0 None); DDestroy; DL (DBegin 1 0)] = Some ds /\
    use_after_free ds (DLoad 1) /\
    (forall l, owner_label l = true -> stepd ds (DL l) = None) /\ status (st ds) 0 = Pending.
Proof. exact table_destroyed_before_its_row_refuted. Qed.
Print Assumptions C19_table_destroyed_before_its_row_refuted.

(* ---- The Row OBJECT layer (TreiberRows.stepl: DataRow's move constructor, Swap, move assignment, ptExtractRaw -- the
   cxx2coq translation of the real member, Gen_DataRow.v -- and the destructor's guard) on top of the free-list machine.
   Invariant for every schedule: a constructed Row object holding a buffer points to its table's list head and the buffer
   is a live detached one; no two objects hold the same buffer; every detached buffer has a holder. *)
Theorem C19_row_objects_invariant : forall ls, reachable_l ls -> linv ls.
Proof. exact linv_reachable. Qed.
Print Assumptions C19_row_objects_invariant.

(* Every run of the layered machine is a run of the base machine: all theorems above apply to it. *)
Theorem C19_row_layer_refines : forall ls, reachable_l ls -> reachable (lbase ls).
Proof. exact rows_layer_reachable. Qed.
Print Assumptions C19_row_layer_refines.

(* The precondition the base machine ASSUMES for DBegin is a theorem about the Row class: any constructed Row object can be
   destroyed on any idle thread -- never a null mFreeRaws, never a buffer somebody else also holds (no second push). *)
Theorem C19_any_row_object_can_be_destroyed_on_any_idle_thread :
  forall ls t o, reachable_l ls -> o_live (objs ls o) = true -> dpcs (lbase ls) t = Idle ->
  exists ls', stepl ls (LDestroy t o) = Some ls' /\ o_live (objs ls' o) = false /\
    match o_raw (objs ls o) with
    | None => lbase ls' = lbase ls
    | Some r => dpcs (lbase ls') t = Start r /\ status (lbase ls') r = Pending /\
                (forall o', o' <> o -> o_raw (objs ls' o') <> Some r)
    end.
Proof. exact destroy_always_enabled. Qed.
Print Assumptions C19_any_row_object_can_be_destroyed_on_any_idle_thread.

Theorem C19_detached_buffer_has_exactly_one_holder :
  forall ls r, reachable_l ls -> status (lbase ls) r = Detached ->
  exists o, o_live (objs ls o) = true /\ o_raw (objs ls o) = Some r /\ o_fl (objs ls o) = true /\
    forall o', o_raw (objs ls o') = Some r -> o' = o.
Proof. exact detached_buffer_has_exactly_one_holder. Qed.
Print Assumptions C19_detached_buffer_has_exactly_one_holder.

(* FRAME: the operations of the Row class that the property does not name (move construction, Swap and hence move
   assignment, destruction of an empty object) do not touch the free-list machine at all ... *)
Theorem C19_row_object_ops_frame :
  forall ls ll ls', stepl ls ll = Some ls' ->
  match ll with
  | LMoveCtor _ _ | LSwap _ _ => lbase ls' = lbase ls
  | LDestroy _ o => o_raw (objs ls o) = None -> lbase ls' = lbase ls
  | _ => True
  end.
Proof. exact row_object_ops_frame. Qed.
Print Assumptions C19_row_object_ops_frame.

(* ... and every base step other than allocate / extract / add / destructor-begin creates and destroys no detached buffer
   (so it cannot invalidate what the Row objects rely on). *)
Theorem C19_base_steps_frame_detached :
  forall s l s' r, inv s -> object_free l = true -> step s l = Some s' ->
  (status s' r = Detached <-> status s r = Detached).
Proof. exact object_free_keeps_detached. Qed.
Print Assumptions C19_base_steps_frame_detached.

(* the generated ptExtractRaw (real code) is the model's extract step *)
Theorem C19_generated_ptExtractRaw_is_model_step :
  forall ob, extract_raw ob = (o_raw ob, mkObj (o_live ob) None (o_fl ob)).
Proof. exact extract_raw_spec. Qed.
Print Assumptions C19_generated_ptExtractRaw_is_model_step.

Theorem C19_move_assign_over_live_row_example :
  exists ls, runl linit ([LNew 0 0 None; LNew 1 1 None] ++ move_assign 9 0 1 5) = Some ls /\
    o_raw (objs ls 0) = Some 1 /\ o_fl (objs ls 0) = true /\ o_raw (objs ls 1) = None /\ o_live (objs ls 9) = false /\
    dpcs (lbase ls) 5 = Start 0 /\ status (lbase ls) 0 = Pending /\ status (lbase ls) 1 = Detached.
Proof. exact ex_move_assign_over_live_row. Qed.
Print Assumptions C19_move_assign_over_live_row_example.

(* WHY Swap must swap the list pointer (wave-2 seed a) and WHY the move constructor must null its source (M11) *)
Theorem C19_swap_without_list_pointer_refuted :
  exists ls, run_with stepl_swap_keeps_fl linit ([LNew 0 0 None; LNew 1 1 None; LMoveCtor 2 0; LMoveCtor 9 1; LSwap 9 0]) = Some ls /\
    o_live (objs ls 0) = true /\ o_raw (objs ls 0) = Some 1 /\ o_fl (objs ls 0) = false /\
    stepl_swap_keeps_fl ls (LDestroy 5 0) = None /\ ~ linv ls.
Proof. exact swap_without_list_pointer_refuted. Qed.
Print Assumptions C19_swap_without_list_pointer_refuted.

Theorem C19_movector_keeping_raw_refuted :
  exists ls, run_with stepl_movector_keeps_raw linit [LNew 0 0 None; LMoveCtor 1 0] = Some ls /\
    o_raw (objs ls 0) = Some 0 /\ o_raw (objs ls 1) = Some 0 /\ o_live (objs ls 0) = true /\ o_live (objs ls 1) = true /\ ~ linv ls.
Proof. exact movector_keeping_raw_refuted. Qed.
Print Assumptions C19_movector_keeping_raw_refuted.

(* ---- The push / take-all / check steps of the machine ARE the cxx2coq translations of the real functions
   (Gen_DataRow.destroy = DataRow::~DataRow, Gen_FreeListOwner.pvDeallocateFreeRaws / pvAllocateRaw, regenerated from the
   headers on every run), executed without interruption on the memory of a model state (head at address 1, link word of
   buffer r at address r + 2).  Whatever the weak CAS does spuriously (as long as one attempt within the fuel is genuine): *)
Theorem C19_generated_destructor_is_model_push :
  forall s t r sp fuel cl,
  dpcs s t = Idle -> status s r = Detached -> (exists k, (k < fuel)%nat /\ sp k = false) ->
  exists s' m',
    run s [DBegin t r; DLoad t; DLink t; DCas t false] = Some s' /\
    Gen_DataRow.destroy sp fuel (addr r) hd cl (mem_of s) 5%Z = Ok (tt, m', 5%Z) /\
    forall a, m' a = mem_of s' a.
Proof. exact generated_destructor_is_model_push. Qed.
Print Assumptions C19_generated_destructor_is_model_push.

Theorem C19_generated_destructor_of_empty_row_is_noop :
  forall sp fuel fl cl mem mo, Gen_DataRow.destroy sp fuel 0%Z fl cl mem mo = Ok (tt, mem, mo).
Proof. exact generated_destructor_of_empty_row. Qed.
Print Assumptions C19_generated_destructor_of_empty_row_is_noop.

(* the translated pvDeallocateFreeRaws nulls the head and hands to the pool exactly the buffers, in exactly the order, that the
   machine reclaims by OExchange; (ORead; OFree)*; ODone *)
Theorem C19_generated_drain_is_model_drain :
  forall s pool fuel,
  inv s -> own s = OIdle -> (length (shared s) < fuel)%nat ->
  exists s' m',
    run s (OExchange :: walk_labels (length (shared s))) = Some s' /\
    Gen_FreeListOwner.pvDeallocateFreeRaws hd fuel (mem_of s) pool 5%Z = Ok (tt, m', log_of pool (shared s), 5%Z) /\
    m' hd = 0%Z /\ head s' = None /\ own s' = OIdle /\
    reclaimed s' = rev (map (fun r => (r, gen s r)) (shared s)) ++ reclaimed s.
Proof. exact generated_drain_is_model_drain. Qed.
Print Assumptions C19_generated_drain_is_model_drain.

(* every atomic operation of the translated destructor and drain uses memory_order_seq_cst: explicit std::memory_order arguments are
   TRANSLATED (enumerator value, the generated function returns the minimum order used); seeded change C19-b (relaxed exchange) breaks this *)
Theorem C19_generated_destructor_orders_are_seq_cst :
  forall sp fuel raw mem m' mo, Gen_DataRow.destroy_loop0 sp fuel hd raw mem 5%Z = Ok (m', mo) -> mo = 5%Z.
Proof. exact generated_destructor_orders_are_seq_cst. Qed.
Print Assumptions C19_generated_destructor_orders_are_seq_cst.

Theorem C19_generated_drain_order_is_seq_cst :
  forall fuel mem pool m' pool' mo,
  Gen_FreeListOwner.pvDeallocateFreeRaws hd fuel mem pool 5%Z = Ok (tt, m', pool', mo) -> mo = 5%Z.
Proof. exact generated_drain_order_is_seq_cst. Qed.
Print Assumptions C19_generated_drain_order_is_seq_cst.

(* pvAllocateRaw: its test is the exact machine's XCheck; it allocates without draining iff the head is null *)
Theorem C19_generated_check_is_model_check :
  forall xs xs', stepx xs XCheck = Some xs' -> xo xs' = XChecked (negb (Z.eqb (mem_of (base xs) hd) 0)).
Proof. exact generated_check_is_model_check. Qed.
Print Assumptions C19_generated_check_is_model_check.

Theorem C19_generated_allocate_skips_drain_iff_head_null :
  forall pa fuel s pool, head s = None ->
  Gen_FreeListOwner.pvAllocateRaw hd pa fuel (mem_of s) pool 5%Z = Ok (pa pool, mem_of s, pool, 5%Z).
Proof. exact generated_allocate_skips_drain_iff_head_null. Qed.
Print Assumptions C19_generated_allocate_skips_drain_iff_head_null.

Theorem C19_generated_allocate_drains_when_head_nonnull :
  forall pa fuel s pool, inv s -> own s = OIdle -> head s <> None -> (length (shared s) < fuel)%nat ->
  exists m', Gen_FreeListOwner.pvAllocateRaw hd pa fuel (mem_of s) pool 5%Z
             = Ok (pa (log_of pool (shared s)), m', log_of pool (shared s), 5%Z) /\ m' hd = 0%Z.
Proof. exact generated_allocate_drains_when_head_nonnull. Qed.
Print Assumptions C19_generated_allocate_drains_when_head_nonnull.

(* ---- Table OBJECTS (move construction, Swap, move assignment move the Crew pointer; the list head stays in the Crew's
   Data): for every schedule exactly one table object owns the crew and every Row holding a buffer points to that crew's head *)
Theorem C19_rows_point_to_the_owning_table :
  forall ts, reachable_t ts ->
  one_owner ts /\ linv (tl ts) /\
  forall o r, o_live (objs (tl ts) o) = true -> o_raw (objs (tl ts) o) = Some r -> o_fl (objs (tl ts) o) = true.
Proof. exact rows_point_to_the_owning_table. Qed.
Print Assumptions C19_rows_point_to_the_owning_table.

Theorem C19_table_object_ops_frame :
  forall ts l ts', stept ts l = Some ts' -> match l with TL _ => True | _ => tl ts' = tl ts end.
Proof. exact table_object_ops_frame. Qed.
Print Assumptions C19_table_object_ops_frame.

Theorem C19_table_moved_while_rows_detached_example :
  exists ts, runt tinit [TL (LNew 1 0 None); TMoveCtor 1 0; TL (LDestroy 3 1); TL (LB (DLoad 3)); TL (LB (DLink 3)); TL (LB (DCas 3 false));
                         TSwap 0 1; TL (LB OExchange)] = Some ts /\
    tab ts 0 = Some 0 /\ tab ts 1 = None /\ drain (lbase (tl ts)) = [0].
Proof. exact ex_table_moved_while_rows_detached. Qed.
Print Assumptions C19_table_moved_while_rows_detached_example.

(* ---- MemPool: the ONLY hypothesis the machine makes about Allocate (see PoolAssumptions.v for the full list and the C09
   theorems discharging it): it never returns an outstanding block.  Under it the allocation step is always enabled. *)
Theorem C19_alloc_enabled_under_pool_assumption :
  forall (palloc : list row -> row), (forall out, ~ In (palloc out) out) ->
  forall s out g, own s = OIdle -> outstanding_of s out ->
  exists s', step s (OAlloc (palloc out) g) = Some s' /\ outstanding_of s' (palloc out :: out).
Proof. exact alloc_enabled_under_A_fresh. Qed.
Print Assumptions C19_alloc_enabled_under_pool_assumption.

Theorem C19_pool_assumption_satisfiable : forall out, ~ In (next_block out) out.
Proof. exact next_block_fresh. Qed.
Print Assumptions C19_pool_assumption_satisfiable.

(* ---- A_size discharged: for EVERY column list (total row size `ts cl` below 2^48, alignment `al cl`), and every block count, the WHOLE
   DataTable::pvCreateRawMemPool (regenerated: size = max(totalSize, 8), alignment = the column list's) followed by MemPoolParams'
   CorrectBlockSize gives the raw pool a block that holds the row AND the 8-byte link word ~DataRow writes *)
Theorem C19_raw_block_holds_link_word :
  forall ts al cl C, (0 <= ts cl < 2 ^ 48)%Z -> (1 <= al cl <= 1024)%Z ->
  let '(size, alignment, _) := Gen_RawPool.pvCreateRawMemPool ts al cl in
  let block := Gen_MemPoolConst.CorrectBlockSize size alignment C in
  alignment = al cl /\ (8 <= block)%Z /\ (ts cl <= block)%Z.
Proof. exact raw_block_holds_link_word. Qed.
Print Assumptions C19_raw_block_holds_link_word.

(* without the max(totalSize, sizeof(void pointer)) step (wave-2 seed C19-d, mutant M10) a one-byte row gets a block below 8 bytes *)
Theorem C19_raw_block_without_max_refuted : (Gen_MemPoolConst.CorrectBlockSize 1 1 1 < 8)%Z.
Proof. exact raw_block_without_max_refuted. Qed.
Print Assumptions C19_raw_block_without_max_refuted.

(* ---- Interleavings with the GENERATED code as the atomic steps.  The regenerated destructor loop body is, literally (closed by
   reflexivity), load ; store of the link ; CAS, and the regenerated drain is exchange ; walk ... *)
Theorem C19_generated_destructor_body_is_three_atomic_pieces :
  forall sp fuel fr raw mem mo,
  Gen_DataRow.destroy_loop0 sp (S fuel) fr raw mem mo =
    let h := g_load mem fr in
    let m1 := g_link mem h raw in
    let '(ok, _, m2) := g_cas (sp fuel) m1 fr h raw in
    if ok then Ok (m2, Z.min mo 5) else Gen_DataRow.destroy_loop0 sp fuel fr raw m2 (Z.min mo 5).
Proof. exact destructor_body_is_three_atomic_pieces. Qed.
Print Assumptions C19_generated_destructor_body_is_three_atomic_pieces.

Theorem C19_generated_drain_is_exchange_then_walk :
  forall crew_head fuel mem pool mo,
  Gen_FreeListOwner.pvDeallocateFreeRaws crew_head fuel mem pool mo =
    let '(h, m1) := g_exchange mem crew_head 0%Z in
    match Gen_FreeListOwner.pvDeallocateFreeRaws_loop0 fuel m1 h pool with
    | Ok (_, pool') => Ok (tt, m1, pool', Z.min mo 5)
    | Stuck => Stuck | Fuel => Fuel | Exn => Exn
    end.
Proof. exact drain_is_exchange_then_walk. Qed.
Print Assumptions C19_generated_drain_is_exchange_then_walk.

(* ... and every small step of the interleaving machine IS that piece applied to the memory of the state (so every interleaving
   of any number of destructors with the owner is an interleaving of generated pieces) *)
Theorem C19_DLoad_is_generated_load :
  forall s t r s', dpcs s t = Start r -> step s (DLoad t) = Some s' ->
  exists h, dpcs s' t = Loaded r h /\ encp h = g_load (mem_of s) hd /\ forall a, mem_of s' a = mem_of s a.
Proof. exact DLoad_is_generated_load. Qed.
Print Assumptions C19_DLoad_is_generated_load.

Theorem C19_DLink_is_generated_store :
  forall s t r h s', dpcs s t = Loaded r h -> step s (DLink t) = Some s' ->
  dpcs s' t = Linked r h /\ forall a, mem_of s' a = g_link (mem_of s) (encp h) (addr r) a.
Proof. exact DLink_is_generated_store. Qed.
Print Assumptions C19_DLink_is_generated_store.

Theorem C19_DCas_is_generated_cas :
  forall s t r h sp s', dpcs s t = Linked r h -> step s (DCas t sp) = Some s' ->
  let '(ok, _, m') := g_cas sp (mem_of s) hd (encp h) (addr r) in
  dpcs s' t = (if ok then Idle else Start r) /\ forall a, mem_of s' a = m' a.
Proof. exact DCas_is_generated_cas. Qed.
Print Assumptions C19_DCas_is_generated_cas.

Theorem C19_OExchange_is_generated_exchange :
  forall s s', step s OExchange = Some s' ->
  exists c, own s' = ODrain c /\ encp c = fst (g_exchange (mem_of s) hd 0%Z) /\
            forall a, mem_of s' a = snd (g_exchange (mem_of s) hd 0%Z) a.
Proof. exact OExchange_is_generated_exchange. Qed.
Print Assumptions C19_OExchange_is_generated_exchange.

Theorem C19_ORead_is_generated_next :
  forall s r s', own s = ODrain (Some r) -> step s ORead = Some s' ->
  exists nx, own s' = ONext r nx /\ encp nx = g_next (mem_of s) (addr r).
Proof. exact ORead_is_generated_next. Qed.
Print Assumptions C19_ORead_is_generated_next.

(* Linearisability, for EVERY schedule (any number of destructors, the owner, clients): the shared list equals the state of the
   ATOMIC stack (push ; take-all) after the history of linearisation points -- successful CASes and exchanges in the order they happen *)
Theorem C19_free_list_is_linearisable :
  forall ls s s', run s ls = Some s' -> shared s' = fold_left aapply (lin s ls) (shared s).
Proof. exact free_list_is_linearisable. Qed.
Print Assumptions C19_free_list_is_linearisable.

Theorem C19_take_all_returns_the_linearised_stack :
  forall s s', step s OExchange = Some s' -> drain s' = shared s /\ shared s' = [].
Proof. exact take_all_returns_the_linearised_stack. Qed.
Print Assumptions C19_take_all_returns_the_linearised_stack.

(* two concurrent pushes and one drain: the late CAS succeeds although the head changed twice (null -> row 1 -> null) *)
Theorem C19_two_pushes_one_drain_linearised_example :
  lin init sched_two_pushes_one_drain = [APush 1; ATakeAll; APush 0] /\
  exists s, run init sched_two_pushes_one_drain = Some s /\ shared s = [0] /\ reclaimed s = [(1, 1)] /\
            own s = OIdle /\ dpcs s 1 = Idle /\ dpcs s 2 = Idle.
Proof. exact ex_two_pushes_one_drain_linearised. Qed.
Print Assumptions C19_two_pushes_one_drain_linearised_example.

(* ---- pvCreateRaw / pvNewRow catch paths: the buffer taken from the pool is invisible until pvMakeRow, and a failed NewRow gives it
   back to the POOL (not the free list), exactly once, changing nothing else *)
Theorem C19_pending_buffer_is_private :
  forall cs r, reachable_c cs -> pending cs = Some r ->
  status (lbase (cl cs)) r = Free /\ ~ In r (shared (lbase (cl cs))) /\ ~ In r (drain (lbase (cl cs))) /\
  ~ in_hand (lbase (cl cs)) r /\ (forall o, o_raw (objs (cl cs) o) <> Some r).
Proof. exact pending_buffer_is_private. Qed.
Print Assumptions C19_pending_buffer_is_private.

Theorem C19_failed_newrow_returns_buffer_to_pool :
  forall cs g cs', reachable_c cs -> stepc cs (CAbort g) = Some cs' ->
  exists r, pending cs = Some r /\ pending cs' = None /\
    status (lbase (cl cs')) r = Free /\
    shared (lbase (cl cs')) = shared (lbase (cl cs)) /\ drain (lbase (cl cs')) = drain (lbase (cl cs)) /\
    head (lbase (cl cs')) = head (lbase (cl cs)) /\
    disposed (lbase (cl cs')) = disposed (lbase (cl cs)) /\ published (lbase (cl cs')) = published (lbase (cl cs)) /\
    reclaimed (lbase (cl cs')) = reclaimed (lbase (cl cs)) /\
    objs (cl cs') = objs (cl cs) /\
    (forall g', stepc cs' (CAbort g') = None).
Proof. exact failed_newrow_returns_buffer_to_pool. Qed.
Print Assumptions C19_failed_newrow_returns_buffer_to_pool.

Theorem C19_successful_newrow_creates_the_row :
  forall cs o g cs', reachable_c cs -> stepc cs (CMakeRow o g) = Some cs' ->
  exists r, pending cs = Some r /\ pending cs' = None /\ status (lbase (cl cs')) r = Detached /\
    o_raw (objs (cl cs') o) = Some r /\ o_fl (objs (cl cs') o) = true.
Proof. exact successful_newrow_creates_the_row. Qed.
Print Assumptions C19_successful_newrow_creates_the_row.

Theorem C19_failed_newrow_while_a_destructor_runs_example :
  exists cs, runc cinit [CL (LNew 0 0 None); CTakeRaw 1; CL (LDestroy 3 0); CL (LB (DLoad 3)); CAbort (Some 7);
                         CL (LB (DLink 3)); CL (LB (DCas 3 false)); CTakeRaw 1; CMakeRow 1 None] = Some cs /\
    shared (lbase (cl cs)) = [0] /\ status (lbase (cl cs)) 1 = Detached /\ gen (lbase (cl cs)) 1 = 1 /\ pending cs = None.
Proof. exact ex_failed_newrow_while_a_destructor_runs. Qed.
Print Assumptions C19_failed_newrow_while_a_destructor_runs_example.

(* ---- DataRow::Swap and DataRow(DataRow&&) are now the cxx2coq translations (Gen_DataRowOps.v) INSIDE the Row-object layer
   (TreiberRows.stepl: LSwap = swap_objs, LMoveCtor = movector_objs): the generated Swap exchanges buffer AND list pointer
   (wave-2 seed a / seeded C19-c breaks this lemma), the generated move constructor nulls both in the source (M11, N3) *)
Theorem C19_generated_row_swap_is_model_swap :
  forall a b, o_live a = true -> o_live b = true -> swap_objs a b = (b, a).
Proof. exact swap_objs_spec. Qed.
Print Assumptions C19_generated_row_swap_is_model_swap.

Theorem C19_generated_row_move_ctor_is_model_step :
  forall src, o_live src = true -> movector_objs src = (mkObj true (o_raw src) (o_fl src), mkObj true None false).
Proof. exact movector_objs_spec. Qed.
Print Assumptions C19_generated_row_move_ctor_is_model_step.

(* ---- DataTable::Swap / DataTable(DataTable&&) / Crew(Crew&&) translated (Gen_TableSwap.v, Gen_TableCrew.v): the crew (list head) and
   the raw pool travel together, and TSwap / TMoveCtor of the table-object layer are exactly these functions *)
Theorem C19_generated_table_swap_keeps_crew_and_pool_together :
  forall c1 r1 p1 i1 c2 r2 p2 i2, Gen_TableSwap.Swap c1 r1 p1 i1 c2 r2 p2 i2 = (c2, r2, p2, i2, c1, r1, p1, i1).
Proof. exact generated_table_swap_keeps_crew_and_pool_together. Qed.
Print Assumptions C19_generated_table_swap_keeps_crew_and_pool_together.

Theorem C19_TSwap_is_generated_swap :
  forall ts t1 t2 ts' r1 p1 i1 r2 p2 i2, t1 <> t2 -> stept ts (TSwap t1 t2) = Some ts' ->
  let '(c1', _, _, _, c2', _, _, _) :=
    Gen_TableSwap.Swap (enct (tab ts t1)) r1 p1 i1 (enct (tab ts t2)) r2 p2 i2 in
  tab ts' t1 = dect c1' /\ tab ts' t2 = dect c2' /\ (forall t, t <> t1 -> t <> t2 -> tab ts' t = tab ts t) /\ tl ts' = tl ts.
Proof. exact TSwap_is_generated_swap. Qed.
Print Assumptions C19_TSwap_is_generated_swap.

Theorem C19_TMoveCtor_is_generated_move :
  forall ts t' t ts', stept ts (TMoveCtor t' t) = Some ts' ->
  let '(nw, old) := Gen_TableCrew.MoveCtor 0%Z (enct (tab ts t)) in
  tab ts' t' = dect nw /\ tab ts' t = dect old /\ (forall x, x <> t' -> x <> t -> tab ts' x = tab ts x) /\ tl ts' = tl ts.
Proof. exact TMoveCtor_is_generated_move. Qed.
Print Assumptions C19_TMoveCtor_is_generated_move.

Theorem C19_generated_table_move_takes_crew_and_pool :
  forall c r p i a b c0 d0, Gen_TableSwap.MoveCtor a b c0 d0 c r p i = (c, r, p, i).
Proof. exact generated_table_move_takes_crew_and_pool. Qed.
Print Assumptions C19_generated_table_move_takes_crew_and_pool.

(* ---- Where a Row's list pointer comes from: DataTable::pvMakeRow and the protected DataRow constructor are translated
   (Gen_MakeRow.v, Gen_DataRowOps.Ctor3): the Row the table hands out holds (the table's column list, the buffer, THE ADDRESS OF THE
   TABLE'S LIST HEAD) ... *)
Theorem C19_generated_make_row_points_to_the_tables_head :
  forall crew_head cl raw, made_row crew_head cl raw = (cl, raw, crew_head).
Proof. exact generated_make_row_points_to_the_tables_head. Qed.
Print Assumptions C19_generated_make_row_points_to_the_tables_head.

(* ... so, over generated code only (no "mFreeRaws := head" by fiat): a Row made by the table and destroyed by the generated
   destructor pushes onto the very head the owner drains; it is the machine's DBegin;DLoad;DLink;DCas *)
Theorem C19_row_made_by_the_table_pushes_onto_the_tables_head :
  forall s t r sp fuel,
  dpcs s t = Idle -> status s r = Detached -> (exists k, (k < fuel)%nat /\ sp k = false) ->
  let '(cl, raw, fr) := made_row hd 1%Z (addr r) in
  exists s' m',
    run s [DBegin t r; DLoad t; DLink t; DCas t false] = Some s' /\
    Gen_DataRow.destroy sp fuel raw fr cl (mem_of s) 5%Z = Ok (tt, m', 5%Z) /\
    forall a, m' a = mem_of s' a.
Proof. exact row_made_by_the_table_pushes_onto_the_tables_head. Qed.
Print Assumptions C19_row_made_by_the_table_pushes_onto_the_tables_head.

(* Non-vacuity: a 3-thread schedule with a genuinely failed CAS ... *)
Theorem C19_nonvacuous_failed_cas :
  exists s, run init sched_a = Some s /\
    head s = Some 0 /\ shared s = [0] /\ dpcs s 2 = Start 1 /\ dpcs s 1 = Idle /\
    status s 1 = Pending /\ status s 0 = Listed.
Proof. exact ex_failed_cas. Qed.
Print Assumptions C19_nonvacuous_failed_cas.

(* ... a drain in the middle of another thread's push (plus a spurious CAS failure) ... *)
Theorem C19_nonvacuous_drain_in_the_middle :
  exists s, run init (sched_a ++ sched_b) = Some s /\
    head s = Some 1 /\ shared s = [1] /\ drain s = [] /\ own s = OIdle /\
    reclaimed s = [(0, 1)] /\ status s 0 = Free /\ link s 1 = None /\ link s 0 = Some 5.
Proof. exact ex_drain_in_the_middle. Qed.
Print Assumptions C19_nonvacuous_drain_in_the_middle.

(* ... reuse of the reclaimed buffer and final quiescence with 4 disposals, all reclaimed. *)
Theorem C19_nonvacuous_quiescence :
  exists s, run init (sched_a ++ sched_b ++ sched_c) = Some s /\ quiescent s /\
    disposed s = [(2, 1); (0, 2); (1, 1); (0, 1)] /\
    reclaimed s = [(1, 1); (0, 2); (2, 1); (0, 1)].
Proof. exact ex_quiescent_all_reclaimed. Qed.
Print Assumptions C19_nonvacuous_quiescence.
