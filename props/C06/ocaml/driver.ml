(* C06 model driver: the extracted L0 specs (Spec) and wrapper models (WrapOrdered / WrapEq / WrapErase) run on the
   same call sequences as harness.cpp, printing the same canonical result line.  All container semantics come from
   the extracted Coq code; this file only parses, dispatches and prints. *)
open Zutil
module L = Stdlib.List
let zi = z_of_int and iz = int_of_z
let ni = nat_of_int and inat = int_of_nat
let e2s (k, v) = string_of_z k ^ ":" ^ string_of_z v
let cmp_elem (a, b) (c, d) = let x = compare (iz a) (iz c) in if x <> 0 then x else compare (iz b) (iz d)
let dump sorted l = "[" ^ String.concat "," (L.map e2s (if sorted then l else L.sort cmp_elem l)) ^ "]"
let len l = L.length l
let ai w i = if i < Array.length w then (try int_of_string w.(i) with _ -> 0) else 0
let split_on sep l =  (* split a word list on a separator word *)
  let rec go cur acc = function
    | [] -> L.rev (L.rev cur :: acc)
    | x :: t when x = sep -> go [] (L.rev cur :: acc) t
    | x :: t -> go (x :: cur) acc t in go [] [] l

type shape = USet | UMap | UMMap | OSet | OMSet | OMap | OMMap | Vec
let shape_of = function
  | "uset" | "uset_o" | "usetf" | "usetf_o" -> USet | "umap" | "umap_o" | "umapf" | "umapf_o" -> UMap
  | "ummap" | "ummap_o" | "ummapf" | "ummapf_o" -> UMMap | "svec" -> Vec
  | "smap" | "momap" -> OMap | "sumap" | "moumap" -> UMap
  | "set" -> OSet | "mset" -> OMSet | "map" -> OMap | "mmap" -> OMMap | "vec" -> Vec | _ -> failwith "kind"
let is_map = function UMap | UMMap | OMap | OMMap -> true | _ -> false
let is_multi = function UMMap | OMSet | OMMap -> true | _ -> false
let is_ordered = function OSet | OMSet | OMap | OMMap -> true | _ -> false
let has_nodes = function UMMap | Vec -> false | _ -> true

(* allocator kinds: 1 FFF 2 TTT 3 TFT 4 FTF 5 TTF 6 TFF 7 FTT 8 FFT  (POCCA, POCMA, POCS) *)
let traits_of ak = match ak with 2 -> true, true, true | 3 -> true, false, true | 4 -> false, true, false
  | 5 -> true, true, false | 6 -> true, false, false | 7 -> false, true, true | 8 -> false, false, true | _ -> false, false, false
type cont = { mutable l : (BinNums.coq_Z * BinNums.coq_Z) list;   (* ordered: the sorted sequence; unordered unique: assoc list *)
              mutable mm : (BinNums.coq_Z * BinNums.coq_Z list) list; (* unordered_multimap: nested HashMultiMap state *)
              mutable aid : int }

(* key positions per operation (for the descending-comparator mode of the ordered kinds: the model keeps keys negated) *)
let key_positions o n = match o with
  | "ins" | "emp" | "insc" | "empp" | "set" | "setr" | "try" | "tryr" | "ioa" | "find" | "cnt" | "has" | "eqr" | "lb" | "ub" | "erk" | "erre" | "err0"
  | "at" | "idx" | "ext" | "findh" | "cnth" | "hash" | "eqrh" | "lbh" | "ubh" | "erf" | "err1" | "ernx" -> [2]
  | "insh" | "emph" | "tryh" | "ioah" | "xins" | "xinsh" -> [3]
  | "xmut" | "fill" -> [3; 4]
  | "kfn" -> [2; 3]
  | "insr" | "insl" | "insm" | "asl" | "mrgm" | "mrgt" -> let rec go i = if i < n then i :: go (i + 2) else [] in go 2
  | _ -> []
let run_assoc neg typed moveonly nopayload sh ak idA idB ops =
  let e2s (k, v) = e2s ((if neg then zi (- (iz k)) else k), v) in
  let dump sorted l = "[" ^ String.concat "," (L.map e2s (if sorted then l else L.sort cmp_elem l)) ^ "]" in
  let kint k = if neg then - (iz k) else iz k in
  let unneg l = if neg then L.map (fun (k, v) -> (zi (- (iz k)), v)) l else l in
  let stateful = ak <> 0 in
  let cca, cma, cs = traits_of ak in
  let c = [| { l = []; mm = []; aid = if stateful then idA else 0 }; { l = []; mm = []; aid = if stateful then idB else 0 } |] in
  let multi = is_multi sh and ordered = is_ordered sh and ismap = is_map sh in
  let contents x = if sh = UMMap then WrapEq.mm_pairs x.mm else x.l in
  let dumpc x = dump ordered (contents x) in
  let pos_i i = string_of_int (inat i) in
  let pos_e e = if sh = UMMap then string_of_z (fst e) else e2s e in
  (* insertion without hint: (printable position, inserted) *)
  let insert x e =
    let e = if nopayload then (fst e, zi 0) else e in
    if ordered then begin
      let ((i, b), l') = (if ismap then GenRefine.gen_map_insert multi e x.l else Spec.ord_insert multi e x.l) in   (* pvFind(nullptr) regenerated from map.h *)
      x.l <- l'; (pos_i i, b) end
    else if sh = UMMap then (x.mm <- WrapEq.mm_insert (fst e) (snd e) x.mm; (pos_e e, true))
    else begin let ((r, b), l') = Spec.u_insert false e x.l in x.l <- l'; (pos_e r, b) end in
  let insert_hint x h e =
    if ordered then begin
      let h' = ni (min h (len x.l)) in
      let ((i, b), l') = (if ismap then GenRefine.gen_map_insert_hint multi x.l h' e else GenRefine.gen_set_insert_hint multi x.l h' e) in   (* pvFind(hint) / pvCheckHint regenerated *)
      x.l <- l'; (pos_i i, b, inat i) end
    else let (p, b) = insert x e in (p, b, 0) in
  let find_pos x k =
    if ordered then pos_i (Spec.ord_find k x.l)
    else match Spec.u_find k (contents x) with Some e -> pos_e e | None -> "end" in
  let count x k = if ordered then inat (Spec.ord_count k x.l) else inat (Spec.u_count k (contents x)) in
  let erase_key x k =
    let n = count x k in
    (if ordered then x.l <- snd (Spec.ord_erase_key k x.l)
     else if sh = UMMap then x.mm <- WrapEq.mm_erase_key k x.mm
     else x.l <- snd (Spec.u_erase_key k x.l)); n in
  let remove_elem x e =   (* remove exactly this element; true if it was there *)
    if sh = UMMap then begin
      if L.exists (fun e' -> cmp_elem e e' = 0) (contents x) then (x.mm <- WrapEq.mm_erase_pair (fst e) (snd e) x.mm; true) else false end
    else match Spec.remove1 e x.l with Some l' -> x.l <- l'; true | None -> false in
  let first_with_key x k =   (* the element find(k) / extract(k) designates *)
    if ordered then (let i = inat (Spec.ord_find k x.l) in if i < len x.l then Some (L.nth x.l i) else None)
    else Spec.u_find k (contents x) in
  let node_str = function None -> "empty" | Some e -> e2s e in
  let set_all x l = if sh = UMMap then (x.mm <- []; L.iter (fun e -> x.mm <- WrapEq.mm_insert (fst e) (snd e) x.mm) l) else x.l <- l in
  let pairs w from = let rec go i = if i + 1 < Array.length w then (zi (ai w i), zi (ai w (i + 1))) :: go (i + 2) else [] in go from in
  let bstr b = if b then "1" else "0" in
  let op w =
    let o = w.(0) in
    let w = (if neg then (let ks = key_positions o (Array.length w) in
                          Array.mapi (fun i s -> if L.mem i ks then string_of_int (- (try int_of_string s with _ -> 0)) else s) w) else w) in
    let x = c.(ai w 1 land 1) in
    match o with
    | "ins" | "emp" | "insc" | "empp" ->
      let (p, b) = insert x (zi (ai w 2), zi (ai w 3)) in if multi then p else p ^ "," ^ bstr b
    | "insh" | "emph" -> let (p, _, _) = insert_hint x (ai w 2) (zi (ai w 3), zi (ai w 4)) in p
    | "insr" | "insm" -> L.iter (fun e -> ignore (insert x e)) (pairs w 2); "-"
    | "insl" -> let ps = pairs w 2 in L.iteri (fun i e -> if i < 4 then ignore (insert x e)) ps; "-"
    | "find" | "findh" -> find_pos x (zi (ai w 2))
    | "cnt" | "cnth" -> string_of_int (count x (zi (ai w 2)))
    | "has" | "hash" -> bstr (count x (zi (ai w 2)) > 0)
    | "eqr" | "eqrh" -> let k = zi (ai w 2) in
      if ordered then pos_i (Spec.lower_bound k x.l) ^ "," ^ pos_i (Spec.upper_bound k x.l)
      else "{" ^ String.concat "," (L.sort compare (L.map e2s (Spec.u_filter_key k (contents x)))) ^ "}"
    | "lb" | "lbh" -> if ordered then pos_i (Spec.lower_bound (zi (ai w 2)) x.l) else ""
    | "ub" | "ubh" -> if ordered then pos_i (Spec.upper_bound (zi (ai w 2)) x.l) else ""
    | "erk" -> string_of_int (erase_key x (zi (ai w 2)))
    | "eri" -> if not ordered then "" else let p = ai w 2 in
      if p >= 0 && p < len x.l then (let (r, l') = Spec.ord_erase_range (ni p) (ni (p + 1)) x.l in x.l <- l'; pos_i r) else "skip"
    | "err" -> if not ordered then "" else let i = ai w 2 and j = ai w 3 in
      if 0 <= i && i <= j && j <= len x.l then (let (r, l') = Spec.ord_erase_range (ni i) (ni j) x.l in x.l <- l'; pos_i r) else "skip"
    | "erloop" -> let m = max 1 (ai w 2) and r = ai w 3 in
      let p k = (((kint k mod m) + m) mod m) = r in
      let before = len (contents x) in
      (if sh = UMMap then x.mm <- WrapEq.mm_erase_if p x.mm else x.l <- L.filter (fun e -> not (p (fst e))) x.l);
      Printf.sprintf "%d/%d" (before - len (contents x)) before
    | "mrgm" | "mrgt" -> if not ordered then "" else begin
        let t = L.fold_left (fun t e -> snd (Spec.ord_insert (not multi) e t)) [] (pairs w 2) in
        let t' = (if o = "mrgm" then (let (a, b) = Spec.ord_merge multi x.l t in x.l <- a; b)
                  else (let (a, b) = Spec.ord_merge (not multi) t x.l in x.l <- b; a)) in
        dump true t' end
    | "erf" | "err1" | "ernx" -> let k = zi (ai w 2) and v = zi (ai w 3) in
      let target = if multi then (if L.exists (fun e -> cmp_elem e (k, v) = 0) (contents x) then Some (k, v) else None) else first_with_key x k in
      (match target with Some e -> ignore (remove_elem x e); "ok" | None -> "none")
    | "erre" -> ignore (erase_key x (zi (ai w 2))); "ok"
    | "erra" -> set_all x []; x.mm <- []; "end"
    | "err0" -> find_pos x (zi (ai w 2))
    | "at" -> if ismap && not multi then (match first_with_key x (zi (ai w 2)) with Some e -> string_of_z (snd e) | None -> "oor") else ""
    | "idx" -> if ismap && not multi then begin let k = zi (ai w 2) in
        (match first_with_key x k with Some e -> string_of_z (snd e) | None -> ignore (insert x (k, zi 0)); "0") end else ""
    | "set" | "setr" -> if ismap && not multi then begin let k = zi (ai w 2) and v = zi (ai w 3) in
        (match first_with_key x k with
         | Some _ -> if ordered then x.l <- Spec.ord_assign_at (Spec.ord_find k x.l) v x.l else x.l <- Spec.u_assign k v x.l
         | None -> ignore (insert x (k, v))); "-" end else ""
    | "try" -> if ismap && not multi then (let (p, b) = insert x (zi (ai w 2), zi (ai w 3)) in p ^ "," ^ bstr b ^ (if typed then "," ^ bstr (not b) else "")) else ""
    | "tryr" -> if ismap && not multi then (let (p, b) = insert x (zi (ai w 2), zi (ai w 3)) in p ^ "," ^ bstr b ^ (if typed then "," ^ bstr (not b) ^ "1" else "")) else ""
    | "tryh" -> if ismap && not multi then (let (p, _, _) = insert_hint x (ai w 2) (zi (ai w 3), zi (ai w 4)) in p) else ""
    | "ioa" | "ioah" -> if ismap && not multi then begin
        let h, k, v = (if o = "ioa" then 0, zi (ai w 2), zi (ai w 3) else ai w 2, zi (ai w 3), zi (ai w 4)) in
        let (p, b) = (if o = "ioa" then insert x (k, v) else let (p, b, _) = insert_hint x h (k, v) in (p, b)) in
        if not b then (if ordered then x.l <- Spec.ord_assign_at (Spec.ord_find k x.l) v x.l else x.l <- Spec.u_assign k v x.l);
        let p' = if ordered then p else e2s (k, v) in
        if o = "ioa" then p' ^ "," ^ bstr b else p' end else ""
    | "ext" -> if has_nodes sh then (let n = first_with_key x (zi (ai w 2)) in (match n with Some e -> ignore (remove_elem x e) | None -> ()); node_str n) else ""
    | "exti" -> if not (has_nodes sh) then "" else
      if ordered then (let p = ai w 2 in if p >= 0 && p < len x.l then (let e = L.nth x.l p in x.l <- Spec.erase_range (ni p) (ni (p + 1)) x.l; e2s e) else "skip")
      else (match first_with_key x (zi (ai w 2)) with Some e -> ignore (remove_elem x e); e2s e | None -> "none")
    | "xins" | "xinsh" | "xmut" -> if not (has_nodes sh) then "" else begin
        let d = c.(ai w 2 land 1) in let n0 = first_with_key x (zi (ai w 3)) in
        (match n0 with Some e -> ignore (remove_elem x e) | None -> ());
        let n = (if o = "xmut" then (match n0 with Some e -> Some (zi (ai w 4), snd e) | None -> None) else n0) in
        let endpos = if ordered then string_of_int (len d.l) else "end" in
        node_str n0 ^ ">" ^
        (match n with
         | None -> if o = "xinsh" then endpos ^ ",empty" else if multi then endpos else endpos ^ ",0,empty"
         | Some e ->
           if o = "xinsh" && (sh = OSet || sh = OMSet) then begin   (* set::insert(hint, node&&) regenerated from set.h *)
             let h' = ni (min (ai w 4) (len d.l)) in
             let ((i, l'), nd) = GenNode.gen_set_insert_hint_node multi d.l (Some e) h' in
             d.l <- l'; pos_i i ^ "," ^ node_str nd end
           else if o = "xinsh" && (sh = USet || sh = UMap) then begin   (* unordered_set/map::insert(hint, node&&) regenerated *)
             let ((r, l'), nd) = GenNode.gen_uset_insert_hint_node d.l (Some (if nopayload then (fst e, zi 0) else e)) in
             d.l <- l'; (match r with Some e' -> pos_e e' | None -> "end") ^ "," ^ node_str nd end
           else if o = "xinsh" then (let (p, b, _) = insert_hint d (ai w 4) e in p ^ "," ^ (if b then "empty" else e2s e))
           else if sh = OSet then begin   (* set::insert(node_type&&) regenerated from set.h: position, flag and returned node *)
             let ((pz, b), nc) = GenCmp.gen_set_insert_node false d.l (Some e) in
             ignore (insert d e);
             string_of_z pz ^ "," ^ bstr b ^ "," ^ (if iz nc = 0 then "empty" else e2s e) end
           else let (p, b) = insert d e in
             if multi then p else p ^ "," ^ bstr b ^ "," ^ (if b then "empty" else e2s e)) end
    | "merge" -> if not (has_nodes sh) then "" else begin
        let d = c.(ai w 2 land 1) in
        if d != x then begin
          let (a, b) = (if ordered then Spec.ord_merge multi x.l d.l else Spec.u_merge multi x.l d.l) in x.l <- a; d.l <- b end; "-" end
    | "fill" -> let n = ai w 2 and base = ai w 3 and step = ai w 4 and v0 = ai w 5 in
      let ins = ref 0 in
      for i = 0 to n - 1 do let (_, b) = insert x (zi (base + i * step), zi (v0 + i)) in if b then incr ins done;
      Printf.sprintf "%d/%d" !ins (len (contents x))
    | "rdump" -> if ordered then dump true (L.rev x.l) else ""
    | "rsvu" | "rhs" -> if (not ordered) && sh <> UMMap then "1" else ""
    | "emp0" -> if ismap && (not multi) && (not typed) then (let (p, b) = insert x (zi 0, zi 0) in p ^ "," ^ bstr b) else ""
    | "kfn" -> let a = ai w 2 and b = ai w 3 in if ordered then bstr (a < b) ^ bstr (a < b) else bstr (a = b) ^ "1"
    | "mvca" | "cpca" -> let ci = ai w 1 land 1 and di = ai w 2 land 1 in let d = c.(di) in
      if ci <> di && (o = "mvca" || not moveonly) then begin
        x.l <- d.l; x.mm <- d.mm; x.aid <- (if stateful then ai w 3 else 0);
        if o = "mvca" then (d.l <- []; d.mm <- []) end;
      Printf.sprintf "a%d" x.aid
    | "movq" -> let d = c.(ai w 2 land 1) in
      if d != x then (x.l <- d.l; x.mm <- d.mm; (if cma then x.aid <- d.aid); d.l <- []; d.mm <- []; Printf.sprintf "0110a%d" x.aid)
      else Printf.sprintf "selfa%d" x.aid
    | "clr" -> x.l <- []; x.mm <- []; "-"
    | "swap" | "swp2" ->
      if (not cs) && c.(0).aid <> c.(1).aid then "skip"
      else begin
        let t = c.(0).l in c.(0).l <- c.(1).l; c.(1).l <- t;
        let t = c.(0).mm in c.(0).mm <- c.(1).mm; c.(1).mm <- t;
        (if cs then let t = c.(0).aid in c.(0).aid <- c.(1).aid; c.(1).aid <- t);
        Printf.sprintf "a%da%d" c.(0).aid c.(1).aid end
    | "cmp" -> let l = c.(ai w 1 land 1) and r = c.(ai w 2 land 1) in
      if ordered then String.concat "" (L.map bstr (GenCmp.gen_cmp6_run (unneg l.l) (unneg r.l)))   (* relational operators regenerated from set.h / map.h; operator< compares elements, not through key_comp *)
      else let idz = (fun k -> k) in
        (* operator== regenerated from unordered_set.h / unordered_map.h / unordered_multimap.h *)
        let eq = (if sh = UMMap then GenEq.gen_ummap_eq_run idz l.mm r.mm
                  else if sh = USet then GenEq.gen_uset_eq_run l.l r.l
                  else GenEq.gen_umap_eq_run idz l.l r.l) in bstr eq ^ bstr (not eq)
    | "erif" -> let m = max 1 (ai w 2) and r = ai w 3 in
      let p k = (((kint k mod m) + m) mod m) = r in
      let before = len (contents x) in
      (if sh = UMMap then x.mm <- WrapEq.mm_erase_if p x.mm else x.l <- L.filter (fun e -> not (p (fst e))) x.l);
      string_of_int (before - len (contents x))
    | "cpy" -> let d = c.(ai w 2 land 1) in
      if d != x then (x.l <- d.l; x.mm <- d.mm; if cca then x.aid <- d.aid); Printf.sprintf "a%d" x.aid
    | "mov" -> let d = c.(ai w 2 land 1) in
      if d != x then (x.l <- d.l; x.mm <- d.mm; (if cma then x.aid <- d.aid); d.l <- []; d.mm <- []); Printf.sprintf "a%d" x.aid
    | "cpc" -> let d = c.(ai w 2 land 1) in
      if d != x then (x.l <- d.l; x.mm <- d.mm; x.aid <- d.aid); Printf.sprintf "a%d" x.aid
    | "mvc" -> let d = c.(ai w 2 land 1) in
      if d != x then (x.l <- d.l; x.mm <- d.mm; x.aid <- d.aid; d.l <- []; d.mm <- []); Printf.sprintf "a%d" x.aid
    | "asl" -> x.l <- []; x.mm <- []; L.iteri (fun i e -> if i < 3 then ignore (insert x e)) (pairs w 2); "-"
    | "sz" -> let n = len (contents x) in Printf.sprintf "%d,%d" n (if n = 0 then 1 else 0)
    | "dump" -> dumpc x
    | _ -> "?" in
  let outs = L.map op ops in
  String.concat " " outs ^ " | " ^ dumpc c.(0) ^ " | " ^ dumpc c.(1)

(* ---------------- vector: plain sequence; elements are (v, 0) so that Spec.cmp6 / insert_at / erase_range apply ---------------- *)
let run_vec defv ak idA idB ops =
  let stateful = ak <> 0 in
  let cca, cma, cs = traits_of ak in
  let c = [| { l = []; mm = []; aid = if stateful then idA else 0 }; { l = []; mm = []; aid = if stateful then idB else 0 } |] in
  let z0 = zi 0 in
  let mk v = (zi v, z0) in
  let dumpv x = "[" ^ String.concat "," (L.map (fun e -> string_of_z (fst e)) x.l) ^ "]" in
  let vals w from = let rec go i = if i < Array.length w then mk (ai w i) :: go (i + 1) else [] in go from in
  let insert_list x p vs = x.l <- L.fold_right (fun e acc -> Spec.insert_at (ni p) e acc) vs x.l in
  let rec repl n e = if n <= 0 then [] else e :: repl (n - 1) e in
  let rec take n l = if n <= 0 then [] else match l with [] -> [] | a :: t -> a :: take (n - 1) t in
  let op w =
    let o = w.(0) in let x = c.(ai w 1 land 1) in let n = len x.l in
    match o with
    | "pb" | "pbr" -> x.l <- x.l @ [mk (ai w 2)]; "-"
    | "eb" -> x.l <- x.l @ [mk (ai w 2)]; string_of_int (ai w 2)
    | "insv" | "empv" -> let p = ai w 2 in if p >= 0 && p <= n then (x.l <- Spec.insert_at (ni p) (mk (ai w 3)) x.l; string_of_int p) else "skip"
    | "insn" -> let p = ai w 2 in if p >= 0 && p <= n then (insert_list x p (repl (ai w 3) (mk (ai w 4))); string_of_int p) else "skip"
    | "insrv" -> let p = ai w 2 in if p >= 0 && p <= n then (insert_list x p (vals w 3); string_of_int p) else "skip"
    | "inslv" -> let p = ai w 2 in if p >= 0 && p <= n then (insert_list x p (take 3 (vals w 3)); string_of_int p) else "skip"
    | "insself" -> let p = ai w 2 and q = ai w 3 in if p >= 0 && p <= n && q >= 0 && q < n then (x.l <- Spec.insert_at (ni p) (L.nth x.l q) x.l; string_of_int p) else "skip"
    | "erv" -> let p = ai w 2 in if p >= 0 && p < n then (x.l <- Spec.erase_range (ni p) (ni (p + 1)) x.l; string_of_int p) else "skip"
    | "errv" -> let i = ai w 2 and j = ai w 3 in if 0 <= i && i <= j && j <= n then (let (r, l') = Spec.ord_erase_range (ni i) (ni j) x.l in x.l <- l'; string_of_int (inat r)) else "skip"
    | "pop" -> if n > 0 then (x.l <- Spec.erase_range (ni (n - 1)) (ni n) x.l; "-") else "skip"
    | "rsz" | "rszv" -> let m = ai w 2 in let v = if o = "rsz" then defv else ai w 3 in
      (if m <= n then x.l <- take m x.l else x.l <- x.l @ repl (m - n) (mk v)); "-"
    | "asg" -> x.l <- repl (ai w 2) (mk (ai w 3)); "-"
    | "asgr" -> x.l <- vals w 2; "-"
    | "asgl" | "asl" -> x.l <- take 3 (vals w 2); "-"
    | "atv" -> let p = ai w 2 in if p >= 0 && p < n then string_of_z (fst (L.nth x.l p)) else "oor"
    | "idxv" -> let p = ai w 2 in if p >= 0 && p < n then string_of_z (fst (L.nth x.l p)) else "skip"
    | "setv" -> let p = ai w 2 in if p >= 0 && p < n then (x.l <- Spec.ord_assign_at (ni p) z0 x.l;
        x.l <- L.mapi (fun i e -> if i = p then mk (ai w 3) else e) x.l; "-") else "skip"
    | "fb" -> if n > 0 then Printf.sprintf "%s,%s,%s" (string_of_z (fst (L.hd x.l))) (string_of_z (fst (L.nth x.l (n - 1)))) (string_of_z (fst (L.hd x.l))) else "skip"
    | "rsv" | "shr" -> "1"
    | "clr" -> x.l <- []; "-"
    | "swap" | "swp2" ->
      if (not cs) && c.(0).aid <> c.(1).aid then "skip"
      else begin let t = c.(0).l in c.(0).l <- c.(1).l; c.(1).l <- t;
        (if cs then let t = c.(0).aid in c.(0).aid <- c.(1).aid; c.(1).aid <- t);
        Printf.sprintf "a%da%d" c.(0).aid c.(1).aid end
    | "cmp" -> let l = c.(ai w 1 land 1) and r = c.(ai w 2 land 1) in String.concat "" (L.map (fun b -> if b then "1" else "0") (Spec.cmp6 l.l r.l))
    | "cpy" -> let d = c.(ai w 2 land 1) in if d != x then (x.l <- d.l; if cca then x.aid <- d.aid); Printf.sprintf "a%d" x.aid
    | "mov" -> let d = c.(ai w 2 land 1) in if d != x then (x.l <- d.l; (if cma then x.aid <- d.aid); d.l <- []); Printf.sprintf "a%d" x.aid
    | "cpc" -> let d = c.(ai w 2 land 1) in if d != x then (x.l <- d.l; x.aid <- d.aid); Printf.sprintf "a%d" x.aid
    | "mvc" -> let d = c.(ai w 2 land 1) in if d != x then (x.l <- d.l; x.aid <- d.aid; d.l <- []); Printf.sprintf "a%d" x.aid
    | "fillv" -> let cnt = ai w 2 and v0 = ai w 3 in
      let rec mk_from i = if i >= cnt then [] else mk (v0 + i) :: mk_from (i + 1) in x.l <- x.l @ mk_from 0; string_of_int (len x.l)
    | "rdump" -> "[" ^ String.concat "," (L.map (fun e -> string_of_z (fst e)) (L.rev x.l)) ^ "]"
    | "ctor" -> let kind = ai w 2 in let other = c.(1 - (ai w 1 land 1)) in
      (match kind with
       | 0 -> x.l <- repl (ai w 3) (mk defv)
       | 1 -> x.l <- repl (ai w 3) (mk (ai w 4))
       | 2 -> x.l <- vals w 4
       | 3 -> let v = vals w 4 in x.l <- (if len v >= 2 then take 2 v else [])
       | 4 -> x.l <- other.l; (if stateful then x.aid <- ai w 3)
       | _ -> x.l <- other.l; other.l <- []; (if stateful then x.aid <- ai w 3));
      Printf.sprintf "a%d" x.aid
    | "sz" -> Printf.sprintf "%d,%d" n (if n = 0 then 1 else 0)
    | "dump" -> dumpv x
    | _ -> "?" in
  let outs = L.map op ops in
  String.concat " " outs ^ " | " ^ dumpv c.(0) ^ " | " ^ dumpv c.(1)

(* ---------------- erase(first,last) with iterator kinds: the wrapper model on the given traversal order ---------------- *)
let parse_elem s = match String.split_on_char ':' s with [a; b] -> (z_of_string a, z_of_string b) | _ -> failwith "elem"
let run_wl kind parts =
  match parts with
  | [_; its; order] ->
    let order = L.map parse_elem order in
    let its = Array.of_list (L.map int_of_string its) in
    let a = if its.(0) < 0 then WrapErase.End else WrapErase.At (ni its.(0), its.(1) <> 0) in
    let step = (match shape_of kind with UMMap -> IterLoop.mm_erase_at | _ -> IterLoop.us_erase_at) in
    let (rest, n) = IterLoop.erase_loop step (ni (len order + 1)) order a in
    Printf.sprintf "n=%d rest=%s" (inat n) (dump false rest)
  | _ -> "?"
let run_we kind parts =
  match parts with
  | [_; its; order] ->
    let order = L.map parse_elem order in
    let its = Array.of_list (L.map int_of_string its) in
    let mkit p t = if p < 0 then WrapErase.End else WrapErase.At (ni p, t <> 0) in
    let first = mkit its.(0) its.(1) and last = mkit its.(2) its.(3) in
    let r = (match shape_of kind with
             | UMMap -> GenRefine.gen_mm_erase_range order first last      (* erase(first,last) regenerated from unordered_multimap.h *)
             | _ -> GenRefine.gen_us_erase_range order first last) in     (* ... from unordered_set.h / unordered_map.h *)
    (match r with
     | WrapErase.Throw -> "throw"
     | WrapErase.Done (rest, ret) -> "ok ret=" ^ (match ret with Some e -> e2s e | None -> "end") ^ " rest=" ^ dump false rest)
  | _ -> "?"

(* unordered_multimap with identity-tagged keys: elements ((k,id),v) encoded as (k*1000+id, v); == is Spec.perm_eqb *)
let run_mmk unique rest =
  let parts = split_on "/" rest in
  let tr s = match String.split_on_char '.' s with [k; id; v] -> (int_of_string k, int_of_string id, int_of_string v) | _ -> failwith "triple" in
  let a = L.map tr (L.nth parts 0) and b = L.map tr (L.nth parts 1) in
  let m, r = (match parts with [_; _; [m; r]] -> int_of_string m, int_of_string r | _ -> 0, 0) in
  let keep (k, _, _) = not (m > 0 && k mod m = r) in
  let rec dedupe seen = function [] -> [] | (k, id, v) :: t -> if L.mem k seen then dedupe seen t else (k, id, v) :: dedupe (k :: seen) t in
  let cls1000 = (fun z -> zi (let x = iz z in if x >= 0 then x / 1000 else - ((- x + 999) / 1000))) in
  let bs x = if x then "1" else "0" in
  if unique then begin   (* unordered_map with keys {k,id}: key encoded k*1000+id, class k *)
    let enc l = L.map (fun (k, id, v) -> (zi (k * 1000 + id), zi v)) (L.filter keep (dedupe [] l)) in
    let a = enc a and b = enc b in
    let e1 = GenEq.gen_umap_eq_run cls1000 a b and e2 = GenEq.gen_umap_eq_run cls1000 b a in
    Printf.sprintf "%s%s%s%s %d %d" (bs e1) (bs (not e1)) (bs e2) (bs (not e2)) (L.length a) (L.length b)
  end else begin         (* unordered_multimap: nested state key -> values, the key object stored once per class; erase_if leaves value-less keys *)
    let build l = L.fold_left (fun st (k, id, v) ->
        let key = zi (k * 1000 + id) in
        let key' = (match L.find_opt (fun (k', _) -> iz (cls1000 k') = k) st with Some (k', _) -> k' | None -> key) in
        let st' = WrapEq.mm_insert key' (zi v) st in
        st') [] l in
    let strip st = if m > 0 then WrapEq.mm_erase_if (fun key -> let k = iz (cls1000 key) in k mod m = r) st else st in
    let a = strip (build a) and b = strip (build b) in
    let e1 = GenEq.gen_ummap_eq_run cls1000 a b and e2 = GenEq.gen_ummap_eq_run cls1000 b a in
    Printf.sprintf "%s%s%s%s %d %d" (bs e1) (bs (not e1)) (bs e2) (bs (not e2)) (L.length (WrapEq.mm_pairs a)) (L.length (WrapEq.mm_pairs b))
  end

let () = iter_lines (fun line ->
  let segs = L.filter (fun s -> s <> []) (L.map words (String.split_on_char ';' line)) in
  let res = (try
    (match segs with
     | [] -> "?"
     | head :: ops ->
       (match head with
        | "we" :: kind :: _hm :: rest -> run_we kind (split_on "/" rest)
        | "wl" :: kind :: _hm :: rest -> run_wl kind (split_on "/" rest)
        | "pbs" :: _ -> "ok"
        | ("mmk" | "mmko") :: _hm :: rest -> run_mmk false rest
        | ("umk" | "umko") :: _hm :: rest -> run_mmk true rest
        | kind :: _ ->
          let h = Array.of_list head in
          let ops = L.map Array.of_list ops in
          (match shape_of kind with
           | Vec -> run_vec (if kind = "svec" then (-1) else 0) (if kind = "svec" && ai h 1 <> 0 then 3 else ai h 1) (ai h 2) (ai h 3) ops
           | sh -> run_assoc (ai h 4 = 1 && L.mem kind ["set"; "mset"; "map"; "mmap"; "momap"]) (L.mem kind ["smap"; "sumap"; "momap"; "moumap"]) (L.mem kind ["momap"; "moumap"]) (L.mem kind ["usetf"; "usetf_o"]) sh (ai h 1) (ai h 2) (ai h 3) ops)
        | [] -> "?"))
  with e -> "MODEL-EXC " ^ Printexc.to_string e) in
  print_endline res)
