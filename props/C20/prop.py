"""C20 - pool allocator is a transparent, leak-free std::allocator replacement (stdish/pool_allocator.h).
proof : Coq theorems over an executable model of unsynchronized_pool_allocator (coq/PoolAlloc.v), whose block-size
        correction is the cxx2coq-regenerated MemPoolConst::CorrectBlockSize (T-gen);
tie   : T-cor - every allocator event (construct/copy/rebind/socc/assign/destroy/allocate/deallocate) recorded on the
        real run of std containers over the real allocator (and of direct allocator scripts) is replayed through the
        extracted model, which must predict pool-vs-raw routing, pool parameters, GetAllocateCount, use_count and the
        base-allocator traffic of every event; hypothesis H is monitored independently on both sides;
oracle: std::allocator twin, counting base allocator, pool count == live nodes, pool identity after copy/move/swap."""
import os

GEN = ['gen_uintmath.json', 'gen_poolconst.json', 'gen_mempool.json', 'gen_alloc.json', 'gen_poolops.json', 'gen_newblock.json', 'gen_handles.json']
KINDS = ['list', 'flist', 'map', 'set', 'mmap', 'umap', 'uset']
PART = {'checkparams': 1, 'list': 0, 'flist': 0, 'map': 0, 'set': 0, 'mmap': 1, 'umap': 1, 'uset': 1, 'direct': 1, 'duo': 1, 'retarget': 1}
TYPES = [(24, 8), (40, 8), (8, 8), (16, 8), (4, 4), (32, 16), (3, 1), (48, 16)]   # harness.cpp TypeOf<>

# hand-made, crash-free scripts that VIOLATE hypothesis H (outside the claim): the model must still predict the real
# allocator (raw block pushed into the pool, pooled block handed to the base allocator)
# libstdc++ 12 quirk (not momo): unordered merge leaks the allocator copy of its node handle -> one pool reference is never dropped
LIBSTDCXX_NODE_HANDLE = 'umap pa n 2 mc 1 2 i 1 9 857 spx 2 1'
REFUTE = ['direct N 0 R 0 1 A 0 1 A 1 1 D 0 0 A 1 1 D 1 1 A 0 1 D 1 2 D 0 3',
          'direct N 5 R 0 4 A 0 1 A 1 1 D 0 0 A 1 1 D 1 1 A 0 1 D 1 2 D 0 3']


# genuine momo findings reproduced on every run (reported as KNOWN-FINDING once the coordinator adds the `known:` line with this key)
SHARED_POOL_KEY = 'shared-pool-misroute'
# fixed in /repo as f8cb4ff (select_on_container_copy_construction was noexcept although it allocates): a directed case on the normal path
SOCC_NOEXCEPT_CASE = 'list pa n 0 i 0 1 1 fcc 2 0 0 i 0 2 2 fcc 1 0 0'


def part_of(c):
    w = c.split(' ', 2)
    if w[0] in ('direct4', 'direct1', 'direct127') or (len(w) > 1 and w[1] in ('mon4', 'mon1', 'mon127')): return 3
    if w[0] == 'elem' or (len(w) > 1 and w[1] in ('pa4', 'pa1', 'pa127')): return 2
    return PART.get(w[0], 1)


CFGS = {'': (32, 16), '4': (4, 0), '1': (1, 2), '127': (127, 1)}      # suffix of pa/mon/direct -> (blockCount, cachedFreeBlockCount)


def params(ty, bc=32):
    s, a = TYPES[ty]
    if bc == 1: return (s, a)
    return (2 * a if s <= a else ((s + a - 1) // a) * a, a)


def gen_container(r, kind, alloc, nops, keys=24):
    ops = ['n 0']
    if r.chance(1, 2): ops.append(r.choice(['n 1', 'ns 1 0']))
    for _ in range(nops):
        x = r.below(100); a = r.below(3); b = r.below(3); k = r.below(keys); aux = r.below(1000)
        y = r.below(100)
        if y < 3: ops.append('ns %d %d' % (a, b)); continue                      # second container from the same allocator object
        if y < 5: ops.append('%s %d %d %d' % (r.choice(['cca', 'mca']), a, b, r.below(3))); continue
        if y < 7: ops.append('fcc %d %d %d' % (a, b, r.below(5))); continue       # kth = 0: allocate_shared of the copy's pool fails (f8cb4ff)
        if y < 9: ops.append('frh %d %d %d' % (a, r.below(70), r.below(2))); continue
        if x < 34: ops.append('i %d %d %d' % (a, k, aux))
        elif x < 38: ops.append('fi %d %d %d %d' % (a, k, aux, r.below(3)))      # insertion with the kth base allocation failing
        elif x < 56: ops.append('e %d %d %d' % (a, k, aux))
        elif x < 60: ops.append('f %d %d' % (a, k))
        elif x < 62: ops.append('c %d' % a)
        elif x < 66: ops.append('rh %d %d' % (a, r.below(70)))
        elif x < 70: ops.append('n %d' % a)
        elif x < 73: ops.append('x %d' % a)
        elif x < 78: ops.append('cc %d %d' % (a, b))
        elif x < 82: ops.append('ca %d %d' % (a, b))
        elif x < 87: ops.append('mc %d %d' % (a, b))
        elif x < 91: ops.append('ma %d %d' % (a, b))
        elif x < 96: ops.append('sw %d %d' % (a, b))
        else: ops.append('sp %d %d' % (a, b))
    return '%s %s %s' % (kind, alloc, ' '.join(ops))


def gen_direct(r, nops, sfx=''):
    """random allocator-level script that respects the allocator protocol and H (a tiny simulator keeps track)"""
    bc = CFGS[sfx][0]
    pools = []      # dict(params, count, refs)
    hs = []         # [pool, ty, alive]
    bl = []         # [pool, ty, n, alive]
    out = []
    def live_of(p): return any(b[3] and b[0] == p for b in bl)
    def alive_h(): return [i for i, h in enumerate(hs) if h[2]]
    def newpool(ty): pools.append({'params': params(ty, bc), 'count': 0, 'refs': 1}); return len(pools) - 1
    def release(p): pools[p]['refs'] -= 1
    def can_drop(h): p = hs[h][0]; return pools[p]['refs'] > 1 or not live_of(p)
    def do_alloc(h, n):
        p, ty, _ = hs[h]
        if n == 1:
            P = pools[p]
            if P['params'] != params(ty, bc):
                if P['count'] != 0: return False          # would violate H
                P['params'] = params(ty, bc)
            P['count'] += 1
        bl.append([p, ty, n, True]); out.append('A %d %d' % (h, n)); return True
    def do_dealloc(h, k):
        b = bl[k]
        if b[2] == 1: pools[b[0]]['count'] -= 1
        b[3] = False; out.append('D %d %d' % (h, k))
    ty0 = r.below(len(TYPES)); hs.append([newpool(ty0), ty0, True]); out.append('N %d' % ty0)
    for _ in range(nops):
        x = r.below(100); al = alive_h()
        if not al or (x < 4 and len(hs) < 40):
            ty = r.below(len(TYPES)); hs.append([newpool(ty), ty, True]); out.append('N %d' % ty); continue
        h = r.choice(al)
        if x < 10: hs.append([hs[h][0], hs[h][1], True]); pools[hs[h][0]]['refs'] += 1; out.append('%s %d' % (r.choice(['C', 'M']), h))
        elif x < 24:
            ty = r.choice([hs[h][1], r.below(len(TYPES)), 2, 3]); hs.append([hs[h][0], ty, True]); pools[hs[h][0]]['refs'] += 1
            out.append('R %d %d' % (h, ty))
        elif x < 30: hs.append([newpool(hs[h][1]), hs[h][1], True]); out.append('S %d' % h)
        elif x < 38:
            cands = [g for g in al if hs[g][1] == hs[h][1]]
            g = r.choice(cands)
            if hs[g][0] == hs[h][0] or can_drop(h):
                pools[hs[g][0]]['refs'] += 1; release(hs[h][0]); hs[h][0] = hs[g][0]; out.append('= %d %d' % (h, g))
        elif x < 46:
            if can_drop(h): release(hs[h][0]); hs[h][2] = False; out.append('X %d' % h)
        elif x < 70:
            n = 1 if r.chance(3, 4) else r.choice([2, 3, 7])
            do_alloc(h, n)
        elif x < 76:
            # allocate with the first base allocation failing (if none is needed the harness gives the block back);
            # an idle pool of other parameters is re-targeted either way
            n = 1 if r.chance(3, 4) else r.choice([2, 3])
            p_, ty_, _ = hs[h]
            if n == 1 and pools[p_]['params'] != params(ty_, bc):
                if pools[p_]['count'] != 0: continue          # would violate H
                pools[p_]['params'] = params(ty_, bc)
            out.append('F %d %d %d' % (h, n, r.below(2)))
        else:
            lb = [k for k, b in enumerate(bl) if b[3]]
            if lb:
                k = r.choice(lb)
                cands = [g for g in al if hs[g][0] == bl[k][0] and hs[g][1] == bl[k][1]]
                if cands: do_dealloc(r.choice(cands), k)
    for k, b in enumerate(bl):                 # tear down: every block back through an equal allocator of its type
        if not b[3]: continue
        cands = [g for g in alive_h() if hs[g][0] == b[0] and hs[g][1] == b[1]]
        if not cands:
            g0 = [g for g in alive_h() if hs[g][0] == b[0]][0]
            hs.append([b[0], b[1], True]); pools[b[0]]['refs'] += 1; out.append('R %d %d' % (g0, b[1])); cands = [len(hs) - 1]
        do_dealloc(cands[0], k)
    return 'direct%s ' % sfx + ' '.join(out)


def gen_threshold(r, kind, alloc):
    """aimed at the pool's buffer boundaries (32 blocks per buffer, look-ahead buffer when the last block of the newest buffer is
    taken) and its cache (16): grow one container to 32*m + d live nodes with distinct keys, make the NEXT base allocation fail
    exactly there, go on inserting, erase most, refill across the boundary a second time, with failures again."""
    ops = ['n 0']; key = [0]
    def ins(n, fail_every=0):
        for i in range(n):
            key[0] += 1
            if fail_every and i % fail_every == fail_every - 1: ops.append('fi 0 %d %d 0' % (key[0], 2 * r.below(400) + 1))
            else: ops.append('i 0 %d %d' % (key[0], 2 * r.below(400) + 1))      # odd aux: push_back / insert(pair) variants
    target = 32 * r.choice([1, 1, 2, 3]) + r.choice([-2, -1, 0, 1])
    ins(target - 1)
    for _ in range(3):
        key[0] += 1; ops.append('fi 0 %d 1 0' % key[0])     # the insertion that needs the look-ahead buffer: base allocator throws
    ins(r.choice([1, 3, 34]))
    lo = r.below(max(1, key[0] - 20))
    for k in range(lo, lo + r.choice([15, 16, 17, 18, 40])): ops.append('e 0 %d 0' % k)     # fill / overflow the cache of 16
    ins(r.choice([5, 20, 40]), fail_every=r.choice([0, 1, 3]))
    if r.chance(1, 2):
        ops.append(r.choice(['cc 1 0', 'mc 1 0', 'ns 1 0']))
        ins(r.choice([2, 33]))
    ops.append('c 0'); ins(r.choice([1, 31, 32, 33]), fail_every=r.choice([0, 2]))
    return '%s %s %s' % (kind, alloc, ' '.join(ops))


def gen_elem(r, alloc):
    ops = []
    for _ in range(r.choice([10, 40, 90])):
        x = r.below(100)
        if x < 35: ops.append('pb %d' % r.below(100))
        elif x < 45: ops.append('pf %d' % r.below(100))
        elif x < 60: ops.append('fpb %d %d' % (r.below(100), r.below(2)))
        elif x < 72: ops.append('pop')
        elif x < 82: ops.append('e %d' % r.below(50))
        elif x < 85: ops.append('c')
        elif x < 92: ops.append('cp')
        else: ops.append('fcp %d' % r.below(6))
    return 'elem %s %s' % (alloc, ' '.join(ops))


def gen_duo(r, alloc, nphases):
    """list<K> (24-byte nodes) and set<K> (40-byte nodes) sharing ONE pool through the converting allocator constructor.
    H is kept: only one of them holds nodes at any time; the pool is re-targeted while its cache holds freed blocks of the
    other node size (the first one allocates and frees everything, then the second inserts)."""
    out = []; ln = 0; sn = set()
    for ph in range(nphases):
        who = 'l' if (ph % 2 == 0) != (r.below(5) == 0) else 's'
        cnt = r.choice([1, 2, 5, 17, 18, 35, 70])
        if who == 'l':
            if sn: out.append('sc'); sn = set()
            for i in range(cnt):
                if r.below(12) == 0: out.append('lfi %d %d' % (r.below(50), r.below(2)))    # may or may not fail: only then the list grows
                else: out.append('li %d %d' % (r.below(50), r.below(1000)))
            # a failed lfi leaves the list unchanged, a successful one adds a node: either way H holds (set is empty)
            if r.chance(2, 3): out.append('lc')
            else:
                for i in range(cnt // 2): out.append('le %d %d' % (r.below(50), 2 * r.below(100) + 1))
                out.append('lc')
        else:
            out.append('lc')
            for i in range(cnt):
                k = r.below(100)
                if r.below(12) == 0: out.append('sfi %d %d' % (k, r.below(2)))
                else: out.append('si %d' % k)
            for i in range(cnt // 3): out.append('se %d' % r.below(100))
            if r.chance(2, 3): out.append('sc')
            else: sn = {1}
    return 'duo %s %s' % (alloc, ' '.join(out))


def gen_retarget(r, sfx=''):
    bc, cf = CFGS[sfx]
    while True:
        t1 = r.choice(TYPES); t2 = r.choice(TYPES)
        if params(TYPES.index(t1), bc) != params(TYPES.index(t2), bc): break
    return 'retarget %d %d %d %d %d %d %d' % (bc, cf, t1[0], t1[1], r.choice([0, 1, 2, 5, 15, 16, 17, 18, 31, 32, 33, 40, 70]), t2[0], t2[1])


M64 = (1 << 64) - 1


def expect_checkparams(bc, size, al):
    """independent re-statement of MemPoolParams(size, al) + MemPool::pvCheckParams (incl. /repo e4ec548: bookkeeping overhead)"""
    if al == 0: return 'CRASH'                                   # MOMO_ASSERT(blockAlignment > 0) in MemPoolParams
    if bc == 1: bs = size if size > 0 else 1
    elif size <= al: bs = (2 * al) & M64
    else: bs = ((((size + al) & M64) - 1) & M64) // al * al & M64
    if not (0 < al <= 1024) or bs == 0: return 'CRASH'           # MOMO_CHECK (assertion mode)
    if bc != 1 and (bs % al != 0 or bs // al < 2): return 'CRASH'
    addend = (al - min(16, al & -al)) & M64
    overhead = addend + 3 * al + 2 + 16 + 2
    if bs > (M64 - overhead) // bc: return 'length_error'
    return 'ok %d %d' % (bs, al)


def gen_checkparams(r, scale):
    out = []
    for sfx, (bc, cf) in CFGS.items():
        lim = M64 // bc
        sizes = [0, 1, 2, 7, 8, 9, 1023, 1024, 1025, lim - 4000, lim - 100, lim - 50, lim - 1, lim, lim + 1, lim + 64, 1 << 63, M64 - 1024, M64 - 1, M64]
        als = [1, 2, 3, 8, 16, 24, 32, 1024, 1025, 0]
        for sz in sizes:
            for al in (als if scale > 1 else [r.choice(als), r.choice(als), 8]):
                out.append('checkparams %d %d %d %d' % (bc, cf, sz % (M64 + 1), al))
        for _ in range(10 * scale):
            out.append('checkparams %d %d %d %d' % (bc, cf, min(M64, max(0, lim - r.below(8000)) + r.below(4000)), r.choice(als[:8])))
    return out


ALLOCATE0_CASE = 'direct N 0 A 0 0'     # allocate(0): momo asserts size > 0 (MemManager.h), std::allocator allows it: documented, not a violation


def gen_cases(ctx, scale):
    r = ctx.rng; cases = []
    for kind in KINDS:
        for alloc in ('pa', 'mon'):
            for i in range(36 * scale):
                cases.append(gen_container(r, kind, alloc, r.choice([8, 25, 60, 110] if alloc == 'pa' else [6, 20, 45])))
    for i in range(150 * scale):
        cases.append(gen_direct(r, r.choice([10, 40, 120])))
    for i in range(24 * scale):
        cases.append(gen_duo(r, 'pa' if i % 2 else 'mon', r.choice([2, 3, 6])))
    # --- coverage audit additions ---
    for kind in KINDS:                                            # buffer / cache thresholds with failures exactly there
        for alloc in ('pa', 'mon'):
            for i in range(5 * scale):
                cases.append(gen_threshold(r, kind, alloc))
            for i in range(4 * scale):                            # long histories with many keys: several buffers, cache flushes
                cases.append(gen_container(r, kind, alloc, r.choice([150, 300]) if alloc == 'pa' else 120, keys=r.choice([70, 200])))
    for alloc in ('pa4', 'pa1', 'pa127'):                         # other pool parameter sets (oracle only)
        for kind in ('list', 'set', 'umap'):
            for i in range(5 * scale):
                cases.append(gen_container(r, kind, alloc, r.choice([20, 60, 140]), keys=r.choice([24, 150])))
            for i in range(2 * scale):
                cases.append(gen_threshold(r, kind, alloc))
        for i in range(3 * scale):
            cases.append(gen_duo(r, alloc, r.choice([3, 6])))
    for sfx in ('4', '1', '127'):                                 # the model tie for the non-default configurations
        for kind in ('list', 'set', 'umap'):
            for i in range(4 * scale):
                cases.append(gen_container(r, kind, 'mon' + sfx, r.choice([10, 40, 90]), keys=r.choice([24, 100])))
            cases.append(gen_threshold(r, kind, 'mon' + sfx))
        for i in range(25 * scale):
            cases.append(gen_direct(r, r.choice([10, 40, 120]), sfx))
        for i in range(3 * scale):
            cases.append(gen_duo(r, 'mon' + sfx, r.choice([3, 6])))
    for alloc in ('pa', 'pa4', 'pa1'):                            # elements whose copy constructor throws: construct()/destroy(), node given back
        for i in range(6 * scale):
            cases.append(gen_elem(r, alloc))
    cases.append(SOCC_NOEXCEPT_CASE)
    cases += gen_checkparams(r, scale)
    cases.append(ALLOCATE0_CASE)
    return cases + REFUTE + [LIBSTDCXX_NODE_HANDLE]


def run_bytes(cmd, inp_path, timeout=1500):
    """like ctx.run_lines, but a crashing child may emit arbitrary bytes: decode leniently instead of failing the whole stage"""
    import subprocess
    env = dict(os.environ); env.setdefault('ASAN_OPTIONS', 'detect_leaks=1:abort_on_error=0')
    try:
        r = subprocess.run(cmd, stdin=open(inp_path, 'rb'), capture_output=True, timeout=timeout, env=env)
        return r.returncode, r.stdout.decode('utf-8', 'replace').splitlines(), r.stderr.decode('utf-8', 'replace')
    except subprocess.TimeoutExpired:
        return 124, [], 'TIMEOUT'


def run_harness(ctx, exes, cases, tag):
    """route each case to the harness part that has its container kind; returns output lines (None = crashed)"""
    out = [None] * len(cases); crashed = ''
    for part in (0, 1, 2, 3):
        idx = [i for i, c in enumerate(cases) if part_of(c) == part]
        if not idx: continue
        path = os.path.join(ctx.build, '%s.part%d.cases' % (tag, part))
        open(path, 'w').write('\n'.join(cases[i] for i in idx) + '\n')
        rc, lines, err = run_bytes([exes[part]], path)
        for j, i in enumerate(idx):
            if j < len(lines): out[i] = lines[j]
        if rc != 0:
            first_missing = cases[idx[len(lines)]] if len(lines) < len(idx) else '?'
            crashed += 'harness part %d exit %d on case %r: %s\n' % (part, rc, first_missing[:400], err[-600:])
    return out, crashed


def split(line):
    """'ok stats | events | obs' -> (head, events, obs)"""
    p = line.split(' | ')
    return (p[0], p[1], p[2]) if len(p) == 3 else (p[0], None, None)


def oracle(ctx, cases, lines):
    findings = []
    dist = ctx.coverage.setdefault('input_distribution', {})
    def bump(k, n=1): dist[k] = dist.get(k, 0) + n
    bad = []; info = {'h_violations_outside_claim': 0, 'reparam_events': 0, 'pool_allocs': 0, 'raw_allocs': 0, 'events': 0, 'injected_base_failures': 0}
    for c, l in zip(cases, lines):
        if l is None:
            bad.append((c, '<no output>', 'harness produced no output (crash)')); continue
        head, ev, ob = split(l)
        if c == ALLOCATE0_CASE:
            info['allocate0_asserts_outside_protocol'] = head.startswith('CRASH'); continue
        if c.startswith('checkparams '):
            w_ = c.split(); exp = expect_checkparams(int(w_[1]), int(w_[3]), int(w_[4]))
            got = 'CRASH' if head.startswith('CRASH') else head
            bump('checkparams:' + exp.split()[0])
            if got != exp: bad.append((c, head, 'MemPool parameter check: implementation %r, expected %r' % (got[:80], exp)))
            continue
        if head.startswith('CRASH'):
            bad.append((c, head, 'the real code crashed: ' + head[:200])); continue
        st = dict(t.split('=', 1) for t in head.split()[1:] if '=' in t)
        w = c.split()
        # measured (taken from what the harness reports it executed), per configuration / op / threshold event
        cfg = w[0] if w[0].startswith('direct') else '%s/%s' % (w[0], w[1])
        bump('cases:' + cfg)
        for kv in st.get('opc', '').split(','):
            if ':' in kv: o_, n_ = kv.split(':'); bump('op:%s:%s' % (w[0], o_), int(n_))
        for k_ in ('x32', 'cross32', 'flush', 'fromcache', 'reparamcached', 'failevents', 'moves', 'failed', 'reparam'):
            if k_ in st: bump('event:' + k_, int(st[k_]))
        mx = max(int(st.get('maxnodes', 0)), int(st.get('maxcount', 0)))
        bump('maxlive:%s' % ('0-15' if mx < 16 else '16-31' if mx < 32 else '32-63' if mx < 64 else '64-95' if mx < 96 else '96+'))
        if ev:
            for e_ in ev.split(' ; '):
                if e_: bump('model-op:' + e_[0])
        if c == LIBSTDCXX_NODE_HANDLE:
            info['libstdcxx_unordered_merge_leaks_allocator_copy'] = not head.startswith('ok'); continue
        if not head.startswith('ok'):
            bad.append((c, head, head[:300])); continue
        for k_, f in (('reparam', 'reparam_events'), ('pool', 'pool_allocs'), ('raw', 'raw_allocs'), ('events', 'events'), ('failed', 'injected_base_failures')):
            info[f] += int(st.get(k_, 0))
        if c in REFUTE:
            info['h_violations_outside_claim'] += int(st.get('hviol', 0))
            if int(st.get('hviol', 0)) == 0 or int(st.get('misrouted', 0)) == 0:
                bad.append((c, head, 'directed H-violating script no longer misroutes: model of allocate/deallocate is out of date'))
            else:
                info['shared_pool_misroute_reproduced_on_real_code'] = True
                findings.append((SHARED_POOL_KEY, c, head))
            continue
        if int(st.get('hviol', 0)) != 0:
            bad.append((c, head, 'hypothesis H violated by a standard container / protocol-respecting script: single-object '
                        'requests with different parameter sets while pooled blocks are outstanding'))
        if int(st.get('misrouted', 0)) != 0 or int(st.get('live', 0)) != 0 or int(st.get('errors', 0)) != 0:
            bad.append((c, head, 'a block was not returned to where it came from / base allocator blocks outstanding'))
        if int(st.get('maxnodes', 0)) >= 4 or int(st.get('pool', 0)) >= 4: ctx.nontrivial.add(c)
    # the genuine momo defect F1 (known_findings.txt: key shared-pool-misroute) is reported on the violation path with its key
    for key, c, head in findings:
        ctx.violation('raw single-object block freed into the shared pool / pooled block handed to the base allocator (two value types of '
                      'different pool parameters on one pool)', {'case': c, 'impl_output': head[:500]}, found_input=True, key=key)
    return bad, info


def build(ctx):
    # quick tier: -O0 -g0 (the four TUs are template-heavy; optimisation and debug info triple the cold build time); thorough: -O1 -g + sanitizers
    fl = ['-O0', '-g0'] if ctx.quick() else []
    res = ctx.cxx_many([('harness.cpp', 'harness_p%d' % k, ['-DPART=%d' % k, '-I', ctx.pdir] + fl) for k in (0, 1, 2, 3)])
    if any(res.get('harness_p%d' % k) is None for k in (0, 1, 2, 3)):
        ctx.stage('build-harness', False, getattr(ctx, 'last_cxx_error', ''))
        return None
    return [res['harness_p%d' % k] for k in (0, 1, 2, 3)]


def model_check(ctx, cases, lines, name='events'):
    ev = []; ob = []; src = []
    for c, l in zip(cases, lines):
        if l is None: continue
        head, e, o = split(l)
        if e is not None and e.strip():
            ev.append(e); ob.append(o); src.append(c)
    obs_path = os.path.join(ctx.build, name + '.obs')
    open(obs_path, 'w').write('\n'.join(ob) + '\n')
    mism, _ = ctx.correspond(name, ev, ['cat', obs_path], [ctx.model_exe])
    n_events = sum(e.count(';') + 1 for e in ev)
    ctx.tie_obligations.append({'name': 'extracted model predicts routing / pool parameters / allocate count / use_count / base-allocator '
                                        'traffic / H / protocol of %d allocator events in %d real histories' % (n_events, len(ev)), 'ok': not mism})
    out = []
    for (i, c, a, b) in mism[:3]:
        A = a.split(' ; '); B = b.split(' ; '); E = c.split(' ; ')
        k = next((j for j in range(min(len(A), len(B))) if A[j] != B[j]), min(len(A), len(B)))
        out.append((src[i], 'event #%d %r: implementation %r, model %r' % (k, E[k] if k < len(E) else '?', A[k] if k < len(A) else '?', B[k] if k < len(B) else '?')))
    return out


def replay(ctx, rp):
    exes = build(ctx)
    if exes is None:
        print('harness does not build'); return 2
    case = rp.get('case')
    if not case:
        print('replay has no concrete case (no-failing-input-found): broken stages were', list(rp.get('broken', {}).keys())); return 1
    lines, crashed = run_harness(ctx, exes, [case], 'replay')
    bad, _ = oracle(ctx, [case], lines)
    print('case:', case[:2000], '\nimplementation:', (lines[0] or crashed)[:2000])
    if not bad and lines[0] and ' | ' in lines[0] and ctx.extract():
        for (c, why) in model_check(ctx, [case], lines, 'replay-events'):
            bad.append((c, '', why)); print(why)
    if bad:
        print(bad[0][2]); print('VIOLATION property=C20 replay=%s' % ctx.replay); return 1
    print('property holds on this case'); return 0


def run(ctx):
    scale = 1 if ctx.quick() else 8
    ctx.trusted += ['tools/cxx2coq.py + clang 14 JSON AST for CorrectBlockSize/Ceil (exercised through the model on every event)',
                    'extraction: ExtrOcamlBasic only; OCaml driver glue: decimal I/O, nat<->int, re-tabulation of finite maps',
                    'g++ 12 -std=c++17 + libstdc++ node containers; harness reaches mMemPool / pvGetMemPoolParams via #define private public',
                    'Mon<T> (c20_common.h): monitoring subclass that forwards every call to the real allocator',
                    'std::shared_ptr semantics (use_count = number of owners) as modelled by acquire/release']
    ctx.assumptions += ['H: while a pooled block of a pool is outstanding, all single-object requests through allocators sharing it use one '
                        'parameter set (monitored at run time on every allocate(1); holds for all seven libstdc++ node containers)',
                        'clients respect the Cpp17Allocator protocol (deallocate(p, n) through an equal allocator of the same value type)',
                        'inside of MemPool (buffers, cache) is property C09: here only the number of base buffers it takes/returns per call is observed',
                        'sizeof(value_type) < 2^32 for the block-size lemma; no allocation failure injected']
    ctx.regen(GEN)
    ctx.prove()
    exes = build(ctx)
    if exes is None:
        return ctx.finish(rule=RULE)
    cases = gen_cases(ctx, scale)
    if any(not s['ok'] for s in ctx.stages.values()):
        ctx.log('a stage broke: searching the implementation for a failing input with the thorough generator')
        cases = cases + gen_cases(ctx, 4)
    lines, crashed = run_harness(ctx, exes, cases, 'oracle')
    ctx.evaluations += len(cases)
    bad, info = oracle(ctx, cases, lines)
    ctx.stage('oracle', not bad and not crashed, (bad[0][2] if bad else '') + crashed)
    for (c, out, why) in bad[:3]:
        ctx.violation(why, {'case': c, 'impl_output': out[:2000], 'cmd': 'echo "<case>" | build/C20/harness_p%d' % part_of(c)}, found_input=True)
    # the executable model is extracted even when a PROOF broke (make -k still builds PoolAlloc.vo): the event tie is then part of
    # the search for a concrete failing input
    have_model = ctx.extract()
    if have_model:
        for (c, why) in model_check(ctx, cases, lines):
            ctx.violation('model and implementation disagree: ' + why, {'case': c}, found_input=True)
        # statement-level tie of line 119 on a real MemPool whose cache is not empty (the model's OpAllocFail reparam branch)
        rt = sorted(set(gen_retarget(ctx.rng) for _ in range(60 * scale)))
        rt += ['retarget 32 16 24 8 %d 40 8' % k for k in (0, 1, 15, 16, 17, 31, 32, 33)] + ['retarget 32 16 40 8 16 3 1', 'retarget 32 16 3 1 16 40 8', 'retarget 32 16 48 16 17 4 4']
        for sfx in ('4', '1', '127'):
            rt += sorted(set(gen_retarget(ctx.rng, sfx) for _ in range(12 * scale)))
        mism, _ = ctx.correspond('retarget', rt, [exes[1]], [ctx.model_exe])
        ctx.tie_obligations.append({'name': 're-targeting statement (pool_allocator.h:119) on %d real pools with k freed blocks: count, parameters, '
                                            'cached count before/after and cache consistency as the model says' % len(rt), 'ok': not mism})
        for (i, c, a, b) in mism[:2]:
            ctx.violation('re-targeting an idle pool: implementation %r, model %r (cached_before count bs al cached_after consistent)' % (a, b),
                          {'case': c, 'impl': a, 'model': b}, found_input=True)
    for c in cases[::max(1, len(cases) // 6)][:6]:
        ctx.add_sample(c[:300])
    ctx.coverage['input_distribution']['cases:retarget'] = len(rt) if have_model else 0
    ctx.coverage['observed'] = info
    return ctx.finish(rule=RULE)


RULE = ('cases = for each of std::list/forward_list/map/set/multimap/unordered_map/unordered_set, with the pool allocator used directly '
        '(pa) and through the monitoring subclass (mon): random histories over 3 container slots of insert/emplace/erase/find/clear/'
        'rehash|reserve|sort|reverse/new/destroy/copy-construct/copy-assign/move-construct/move-assign/swap/splice|merge (6-110 ops, keys < 24); '
        '+ random allocator-level scripts over 8 value types (new/copy/rebind/socc/assign/destroy/allocate n in {1,2,3,7}/deallocate) kept '
        'protocol- and H-respecting by a generator-side simulator, incl. rvalue construction and allocate with an injected base-allocator '
        'failure; + list/set pairs of different node sizes sharing one pool in alternating phases (re-targeting with a non-empty cache); '
        '+ the re-targeting statement on real pools with k in {0..70} freed blocks; container inserts with the kth base allocation failing (allocate(0) is excluded: momo asserts size > 0); + 2 directed H-violating scripts; distinct = distinct case line; '
        'non-trivial = at least 4 simultaneously live nodes or 4 pool allocations')
