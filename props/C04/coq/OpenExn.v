(* C04 -- theorems over the cxx2coq-GENERATED BucketOpenN1 / BucketOpen2N2 ::AddCrt and ::Remove (Gen_OpenN1_exn.v,
   Gen_Open2N2_exn.v, regenerated from /repo's headers on every run).  The user functor (item creator / item replacer) is a
   step that may throw: the generated function returns Ok (completed, fields) where completed = false means "the functor threw
   at its call site" and `fields` are the bucket's bytes at that moment, i.e. what the container is left with.
   Strong guarantee at the byte level: whenever the functor throws, EVERY byte of the bucket (short hashes, hash probes, count /
   state byte, max-probe bits) is exactly as before -- for every maxCount, both orientations, every byte state. *)
From Coq Require Import ZArith Bool List Lia.
From MomoCommon Require Import GenPrelude.
From C04 Require Gen_OpenN1_exn Gen_Open2N2_exn.
Local Open Scope Z_scope.

Module N1 := Gen_OpenN1_exn.
Module O2 := Gen_Open2N2_exn.

(* ---- BucketOpenN1 (also BucketOpen8 = BucketOpenN1<7, true>) ------------------------------------------------------- *)
Lemma n1_addcrt_incomplete : forall reverse maxCount mData fails hashCode newItem m',
  N1.AddCrt reverse maxCount mData fails hashCode newItem = Ok (false, m') -> fails = true /\ m' = mData.
Proof.
  intros reverse maxCount mData fails hashCode newItem m'. unfold N1.AddCrt.
  destruct (Z.ltb _ _); [|discriminate]. destruct fails; intros H; [inversion H; auto|].
  exfalso. revert H. destruct (Z.ltb _ _); intros H; inversion H.
Qed.
Lemma n1_addcrt_throwing : forall reverse maxCount mData hashCode newItem,
  N1.pvGetCount reverse maxCount mData < maxCount ->
  N1.AddCrt reverse maxCount mData true hashCode newItem = Ok (false, mData).
Proof. intros. unfold N1.AddCrt. apply Z.ltb_lt in H. rewrite H. reflexivity. Qed.
Lemma n1_addcrt_completes : forall reverse maxCount mData hashCode newItem,
  N1.pvGetCount reverse maxCount mData < maxCount ->
  exists m', N1.AddCrt reverse maxCount mData false hashCode newItem = Ok (true, m').
Proof. intros. unfold N1.AddCrt. apply Z.ltb_lt in H. rewrite H. destruct (Z.ltb _ _); eexists; reflexivity. Qed.

Lemma n1_remove_incomplete : forall reverse maxCount mData fails index m',
  N1.Remove reverse maxCount mData fails index = Ok (false, m') -> fails = true /\ m' = mData.
Proof.
  intros reverse maxCount mData fails index m'. unfold N1.Remove.
  destruct (Z.ltb _ _); [|discriminate]. destruct fails; intros H; [inversion H; auto|].
  exfalso. revert H. destruct (Z.ltb _ _); intros H; inversion H.
Qed.
Lemma n1_remove_throwing : forall reverse maxCount mData index,
  index < N1.pvGetCount reverse maxCount mData ->
  N1.Remove reverse maxCount mData true index = Ok (false, mData).
Proof. intros. unfold N1.Remove. apply Z.ltb_lt in H. rewrite H. reflexivity. Qed.

(* ---- BucketOpen2N2 ------------------------------------------------------------------------------------------------ *)
Lemma o2_addcrt_incomplete : forall st sh hp fails hashCode logBucketCount probe newItem st' sh' hp',
  O2.AddCrt st sh hp fails hashCode logBucketCount probe newItem = Ok (false, st', sh', hp') ->
  fails = true /\ st' = st /\ sh' = sh /\ hp' = hp.
Proof.
  intros st sh hp fails hashCode logBucketCount probe newItem st' sh' hp'. unfold O2.AddCrt.
  destruct (Z.ltb _ _); [|discriminate]. destruct fails; intros H; [inversion H; auto|].
  exfalso. revert H. cbv zeta. repeat match goal with |- context [if ?c then _ else _] => destruct c end; intros H; inversion H.
Qed.
Lemma o2_addcrt_throwing : forall st sh hp hashCode logBucketCount probe newItem,
  O2.pvGetCount st sh hp < O2.maxCount ->
  O2.AddCrt st sh hp true hashCode logBucketCount probe newItem = Ok (false, st, sh, hp).
Proof. intros. unfold O2.AddCrt. apply Z.ltb_lt in H. rewrite H. reflexivity. Qed.

Lemma o2_remove_incomplete : forall st sh hp fails index st' sh' hp',
  O2.Remove st sh hp fails index = Ok (false, st', sh', hp') -> fails = true /\ st' = st /\ sh' = sh /\ hp' = hp.
Proof.
  intros st sh hp fails index st' sh' hp'. unfold O2.Remove.
  destruct (Z.geb _ _); [|discriminate]. destruct fails; intros H; [inversion H; auto|].
  exfalso. revert H. cbv zeta. repeat match goal with |- context [if ?c then _ else _] => destruct c end; intros H; inversion H.
Qed.
Lemma o2_remove_throwing : forall st sh hp index,
  index >= wrapU 64 (O2.maxCount - O2.pvGetCount st sh hp) ->
  O2.Remove st sh hp true index = Ok (false, st, sh, hp).
Proof.
  intros. unfold O2.Remove. assert (G : (index >=? wrapU 64 (O2.maxCount - O2.pvGetCount st sh hp)) = true) by (apply Z.geb_le; lia).
  rewrite G. reflexivity.
Qed.
