(* Extraction of the executable free-list machine (C19).  ExtrOcamlBasic only.
   (BinInt.Z.of_nat is extracted only because lib/zutil.ml expects the BinNums module to exist.) *)
From Coq Require Import List ZArith Extraction ExtrOcamlBasic.
From C19 Require Treiber TreiberExact TreiberRows TreiberTables TreiberCreate Gen_DataRow Gen_FreeListOwner Gen_RawPool Gen_MemPoolConst.
Separate Extraction Treiber.step Treiber.run Treiber.init Treiber.walk Treiber.held Treiber.dpc_kind Treiber.opc_kind
  TreiberExact.stepx TreiberExact.xinit TreiberRows.stepl TreiberRows.linit TreiberTables.stept TreiberTables.tinit TreiberCreate.stepc TreiberCreate.cinit
  Gen_DataRow.destroy Gen_FreeListOwner.pvDeallocateFreeRaws Gen_FreeListOwner.pvAllocateRaw
  Gen_RawPool.pvCreateRawMemPool Gen_MemPoolConst.CorrectBlockSize
  BinInt.Z.of_nat.
