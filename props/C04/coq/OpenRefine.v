(* C04 -- refinement: the cxx2coq-generated BucketOpenN1::AddCrt (Gen_OpenN1_exn.v) and the hand model's open_bucket_add
   (Ctor.v, the shape proved all-or-nothing in open_bucket_add_guard and tied to the real buckets) agree on the abstraction
   "number of occupied slots": the generated count byte arithmetic (state byte 248 + count, or the last short hash when the
   bucket is full) is exactly rCount := S rCount, and a throwing creator leaves both unchanged.
   (The arithmetic follows C13's BucketOps.v, re-proved here over C04's own regenerated copy.) *)
From Coq Require Import ZArith Bool List Lia.
From MomoCommon Require Import GenPrelude.
From C04 Require Gen_OpenN1_exn OpenExn.
From C04 Require Effects ObjMgr ArrayData Ctor.
Import ListNotations.
Local Open Scope Z_scope.

Module G := Gen_OpenN1_exn.
Ltac Zify.zify_post_hook ::= Z.div_mod_to_equations.

Section MC.
Variable rv : bool.
Variable mc : Z.
Hypothesis Hmc : 1 <= mc <= 7.
Definition sp : Z := if rv then 0 else mc - 1.                 (* where the state byte lives *)
Definition pos (i : Z) : Z := if rv then mc - 1 - i else i.    (* where the short hash of item i lives *)
Definition good (d : Z -> Z) : Prop := 0 <= d sp < 248 + mc.
Definition cnt (d : Z -> Z) : Z := G.pvGetCount rv mc d.

Lemma w64 x : 0 <= x < 2 ^ 32 -> wrapU 64 x = x.
Proof. intros. apply wrapU_small. change (2 ^ 64) with (2 ^ 32 * 2 ^ 32). change (2 ^ 32) with 4294967296 in *. lia. Qed.
Lemma sp_gen : (if rv then 0 else wrapU 64 (mc - 1)) = sp.
Proof. unfold sp. destruct rv; [reflexivity|]. apply w64. change (2 ^ 32) with 4294967296; lia. Qed.
Lemma pos_gen i : 0 <= i < mc -> (if rv then wrapU 64 (wrapU 64 (mc - 1) - i) else i) = pos i.
Proof.
  intros Hi. unfold pos. destruct rv; [|reflexivity].
  rewrite (w64 (mc - 1)) by (change (2 ^ 32) with 4294967296; lia). apply w64. change (2 ^ 32) with 4294967296; lia.
Qed.
Lemma cnt_val d : good d -> cnt d = if Z.geb (d sp) 248 then d sp - 248 else mc.
Proof.
  intros H0. unfold cnt, G.pvGetCount, G.emptyShortHash. rewrite sp_gen.
  destruct (Z.geb_spec (d sp) 248); [apply w64; change (2 ^ 32) with 4294967296; unfold good in H0; lia|reflexivity].
Qed.
Lemma cnt_of_state d v : d sp = v -> 0 <= v < 248 + mc -> cnt d = if Z.geb v 248 then v - 248 else mc.
Proof.
  intros Hv Hr. unfold cnt, G.pvGetCount, G.emptyShortHash. rewrite sp_gen, Hv.
  destruct (Z.geb_spec v 248); [apply w64; change (2 ^ 32) with 4294967296; lia|reflexivity].
Qed.
Lemma short_hash_range x : 0 <= x < 2 ^ 64 -> 0 <= G.ptCalcShortHash x < 248.
Proof.
  intros Hx. unfold G.ptCalcShortHash, G.emptyShortHash.
  replace (wrapU 64 (wrapU 64 (8 * 8) - 24)) with 40 by (vm_compute; reflexivity).
  rewrite !Z.shiftr_div_pow2 by lia.
  assert (Hq : 0 <= x / 2 ^ 40 < 2 ^ 24).
  { split; [apply Z.div_pos; lia|]. apply Z.div_lt_upper_bound; [lia|]. change (2 ^ 40 * 2 ^ 24) with (2 ^ 64). lia. }
  set (y := x / 2 ^ 40) in *. change (2 ^ 24) with 16777216 in Hq.
  rewrite (wrapU_small 32 y) by (change (2 ^ 32) with 4294967296; lia).
  rewrite (wrapU_small 32 (y * 248)) by (change (2 ^ 32) with 4294967296; lia).
  change (2 ^ 24) with 16777216.
  rewrite wrapU_small by (change (2 ^ 8) with 256; lia). lia.
Qed.

(* the generated AddCrt with a creator that does not throw: the count goes up by exactly one, the state byte stays well formed *)
Theorem gen_add_count : forall d hc ni, good d -> 0 <= cnt d < mc -> 0 <= hc < 2 ^ 64 ->
  exists d', G.AddCrt rv mc d false hc ni = Ok (true, d') /\ good d' /\ cnt d' = cnt d + 1.
Proof.
  intros d hc ni Hg Hc Hhc. pose proof (cnt_val d Hg) as Hcv. unfold good in Hg.
  assert (Hsp : 0 <= sp < mc) by (unfold sp; destruct rv; lia).
  assert (Hpr : 0 <= pos (cnt d) < mc) by (unfold pos; destruct rv; lia).
  assert (Hps : pos (cnt d) = sp <-> cnt d = mc - 1) by (unfold pos, sp; destruct rv; lia).
  unfold G.AddCrt. fold (cnt d).
  replace (Z.ltb (cnt d) mc) with true by (symmetry; apply Z.ltb_lt; lia).
  pose proof (short_hash_range hc Hhc) as Hsh. set (shv := G.ptCalcShortHash hc) in *.
  cbv beta iota zeta. rewrite !sp_gen. rewrite (pos_gen (cnt d)) by lia.
  destruct (Z.geb_spec (d sp) 248) as [Hge|Hlt]; [|lia].
  rewrite (w64 (cnt d + 1)) by (change (2 ^ 32) with 4294967296; lia).
  set (d1 := upd d (pos (cnt d)) shv).
  destruct (Z.ltb_spec (cnt d + 1) mc) as [Hnf|Hf].
  - assert (Hd10 : d1 sp = d sp) by (unfold d1; apply upd_other; lia).
    rewrite Hd10. rewrite (wrapU_small 8 (d sp + 1)) by (change (2 ^ 8) with 256; lia).
    set (d2 := upd d1 sp (d sp + 1)). exists d2.
    assert (H20 : d2 sp = d sp + 1) by (unfold d2; apply upd_same).
    split; [reflexivity|]. split; [unfold good; rewrite H20; lia|].
    rewrite (cnt_of_state d2 _ H20) by lia. destruct (Z.geb_spec (d sp + 1) 248); lia.
  - exists d1. assert (H10 : d1 sp = shv) by (unfold d1; replace (pos (cnt d)) with sp by lia; apply upd_same).
    split; [reflexivity|]. split; [unfold good; rewrite H10; lia|].
    rewrite (cnt_of_state d1 _ H10) by lia. destruct (Z.geb_spec shv 248); lia.
Qed.
End MC.

(* ---- the hand model run explicitly on a schedule ---------------------------------------------------------------- *)
Import Effects ObjMgr ArrayData Ctor.
Local Open Scope nat_scope.

Lemma copy_construct_run : forall sl dl v s,
  valid (hp s) sl = true -> valid (hp s) dl = true -> mem (hp s) sl = Live v -> mem (hp s) dl = Raw ->
  copy_construct sl dl s =
    match sched s with
    | true :: r => (Exn, mkS (hp s) r (EvF :: trace s))
    | false :: r => (Effects.Ok tt, mkS (hset (hp s) dl (Live v)) r (EvC sl dl :: trace s))
    | [] => (Effects.Ok tt, mkS (hset (hp s) dl (Live v)) [] (EvC sl dl :: trace s))
    end.
Proof.
  intros sl dl v s Vs Vd Ms Md. unfold copy_construct, bind, getc. rewrite Vs, Vd, Ms, Md. unfold fallible.
  destruct s as [h sc tr]; simpl in *. destruct sc as [|[|] r]; simpl; unfold putc, emit; simpl; rewrite ?Vd; reflexivity.
Qed.

(* open_bucket_add (= bucket_add_inplace) with the copy creator, run on a schedule whose first entry says whether the copy fails *)
Lemma open_bucket_add_run : forall arg v f r s,
  let slot := (regs (hp s) rItems, regs (hp s) rCount) in
  valid (hp s) arg = true -> valid (hp s) slot = true -> mem (hp s) arg = Live v -> mem (hp s) slot = Raw ->
  sched s = f :: r ->
  exists s', open_bucket_add (creator_copy arg) s = ((if f then Exn else Effects.Ok tt), s') /\
             regs (hp s') rCount = (if f then regs (hp s) rCount else S (regs (hp s) rCount)) /\
             (f = true -> hp s' = hp s).
Proof.
  intros arg v f r s slot Va Vs Ma Ms Hs.
  unfold open_bucket_add, bucket_add_inplace, bind, getr, creator_copy. fold slot.
  rewrite (copy_construct_run arg slot v s Va Vs Ma Ms). rewrite Hs. destruct f.
  - eexists. split; [reflexivity|]. simpl. auto.
  - eexists. split; [reflexivity|]. simpl. split; [|discriminate]. unfold updn. rewrite Nat.eqb_refl. reflexivity.
Qed.

(* REFINEMENT: run the generated AddCrt and the hand model from related states (abstraction: rCount = the count decoded from
   the generated state byte) with the same "does the creator throw" bit: they agree on completion, and the results are related *)
Theorem open_bucket_refinement : forall rv mc d hc ni arg v f r s,
  (1 <= mc <= 7)%Z -> good rv mc d -> (0 <= cnt rv mc d < mc)%Z -> (0 <= hc < 2 ^ 64)%Z ->
  Z.of_nat (regs (hp s) rCount) = cnt rv mc d ->
  valid (hp s) arg = true -> valid (hp s) (regs (hp s) rItems, regs (hp s) rCount) = true ->
  mem (hp s) arg = Live v -> mem (hp s) (regs (hp s) rItems, regs (hp s) rCount) = Raw ->
  sched s = f :: r ->
  exists d' s',
    G.AddCrt rv mc d f hc ni = GenPrelude.Ok (negb f, d') /\
    open_bucket_add (creator_copy arg) s = ((if f then Exn else Effects.Ok tt), s') /\
    Z.of_nat (regs (hp s') rCount) = cnt rv mc d' /\
    (f = true -> d' = d /\ hp s' = hp s).
Proof.
  intros rv mc d hc ni arg v f r s Hmc Hg Hc Hhc Habs Va Vs Ma Ms Hs.
  destruct (open_bucket_add_run arg v f r s Va Vs Ma Ms Hs) as [s' [Hr [Hcnt Hsame]]].
  destruct f.
  - exists d, s'. split; [|split; [exact Hr|split]].
    + apply OpenExn.n1_addcrt_throwing. fold (cnt rv mc d). lia.
    + rewrite Hcnt. exact Habs.
    + intros _. split; auto.
  - destruct (gen_add_count rv mc Hmc d hc ni Hg Hc Hhc) as [d' [Hadd [Hg' Hc']]].
    exists d', s'. split; [exact Hadd|split; [exact Hr|split]].
    + rewrite Hcnt, Hc', <- Habs. lia.
    + discriminate.
Qed.
